/-
  SPEC for property C02: the time-domain laws of a circuit, for t > 0, stated on formal signals.

  Every node voltage and every branch current is a `Signal K` (Spec/Signal.lean): `post` is the signal on
  t ≥ 0⁻ (a finite sum of  c·(t−d)^k/k!·e^{p(t−d)}·u(t−d)  and  c·δ^{(n)}(t−d)), `pre` its pre-history (t < 0).
  The laws are those of Spec/Laws.lean (same sign conventions, same `Cpt`) with

      capacitor   i = C · D v                 inductor   v = L · D i + Σ M · D i'      (D = distributional derivative)

  and the instantaneous laws of R, V, I, E, G, F, H, TF, GY, AM, TR unchanged; KCL at every non-ground node.
  Independent sources carry their waveform as a `Signal` next to the component (`TCpt`).

  INITIAL STATE.  The derivative of a state variable (a capacitor voltage, an inductor current) is taken as seen from
  0⁻ : `D v = D(post v) − v(0⁻)·δ(t)` (`stateDeriv`; this is `Signal.deriv` of Model/ExpPoly.lean).  `v(0⁻)` is the
  initial condition written in the netlist (`v0`, `i0`; for a coupling the recorded initial current of the partner
  inductor) when there is one, and otherwise the value at 0⁻ of the signal's own pre-history (`stateOf`).  So
  "the capacitor voltage starts from v0" and "is continuous across t = 0 when the pre-zero steady state is defined
  and no impulse is applied" are both consequences of `i = C·D v` (theorems `ic_start`, `continuity` in Props/C02).

  EQUALITY OF SIGNALS.  Every law is written as a residual signal that must be zero.  Two notions are used, and the
  theorems say which one they are about:
   * `LawsT E`      : the formal unilateral Laplace transform (from 0⁻) of every residual vanishes at EVERY point `s`
                      that is not a pole of a circuit signal or of a source (`Regular`).  This is equality of signals as
                      equality of their formal transforms at every non-pole point.
   * `LawsTFormal`  : every residual has the empty normal form (like terms collected: all coefficients vanish).  This is
                      what the driver decides; it implies `LawsT E` for every `E` and pointwise vanishing of the residual
                      (`evalAt`) at every t (Props/C02: `formal_lawsT`, `formal_pointwise`).
  No Mathlib import.
-/
import Lcapy.Spec.Laws
import Lcapy.Spec.Signal
import Lcapy.Model.ExpPoly
namespace Lcapy.TD
open Lcapy.MNA Lcapy.Laplace

section
variable {K : Type} [Add K] [Mul K] [Neg K] [Sub K] [Div K] [OfNat K 0] [OfNat K 1] [OfNat K 2]

/-- a component together with the waveform of its independent source (only used for `V` and `I`) -/
abbrev TCpt (K : Type) := Cpt K × Signal K

def Signal.zero : Signal K := ⟨[], []⟩

/-- voltage of a node: ground is the zero signal whatever `x` says -/
def voltT (x : Ix → Signal K) : Nat → Signal K
  | 0 => Signal.zero
  | k + 1 => x (.node (k + 1))

/-- `f − g` on t ≥ 0⁻ -/
def subP (f g : ExpPoly K) : ExpPoly K := f ++ smul (-1) g

/-- `V(a) − V(b)` on t ≥ 0⁻ -/
def vpost (x : Ix → Signal K) (a b : Nat) : ExpPoly K := subP (voltT x a).post (voltT x b).post

/-- value at 0⁻ of `V(a) − V(b)` according to the signals' own pre-history -/
def vpre0 (x : Ix → Signal K) (a b : Nat) : K := pre0 (voltT x a).pre - pre0 (voltT x b).pre

/-- state at 0⁻ of a reactive element: the initial condition of the netlist, else the signal's own pre-history -/
def stateOf (ic : Option K) (own : K) : K :=
  match ic with
  | some v0 => v0
  | none => own

/-- derivative of a state variable as seen from 0⁻:  `D(post) − state·δ(t)` -/
def stateDeriv (state : K) (post : ExpPoly K) : ExpPoly K := deriv post ++ [.dl (-state) 0 0]

/-- current through a two-terminal element from `n1` to `n2`, seen as outflow at node `k` -/
def twoTermT (n1 n2 k : Nat) (i : ExpPoly K) : ExpPoly K :=
  subP (if n1 = k then i else []) (if n2 = k then i else [])

/-- `i = C · D v` -/
def capCurrentT (x : Ix → Signal K) (n1 n2 : Nat) (c : K) (v0 : Option K) : ExpPoly K :=
  smul c (stateDeriv (stateOf v0 (vpre0 x n1 n2)) (vpost x n1 n2))

/-- current LEAVING node `k` through component `c`, as a signal on t ≥ 0⁻ (cf. `MNA.outflow`).
    `Y` is read as a constant conductance. -/
def outflowT (x : Ix → Signal K) (k : Nat) : TCpt K → ExpPoly K
  | (.R n1 n2 r, _) => twoTermT n1 n2 k (smul (1 / r) (vpost x n1 n2))
  | (.Cap n1 n2 c v0, _) => twoTermT n1 n2 k (capCurrentT x n1 n2 c v0)
  | (.Ind n1 n2 m _ _ _, _) => twoTermT n1 n2 k (x (.br m)).post
  | (.V n1 n2 m _, _) => twoTermT n1 n2 k (x (.br m)).post
  | (.I n1 n2 _, w) => twoTermT n1 n2 k (smul (-1) w.post)
  | (.E n1 n2 _ _ m _ _, _) => twoTermT n1 n2 k (x (.br m)).post
  | (.G n1 n2 n3 n4 g, _) => twoTermT n1 n2 k (smul (-1) (smul g (vpost x n3 n4)))
  | (.F n1 n2 mc f, _) => twoTermT n1 n2 k (smul f (x (.br mc)).post)
  | (.H n1 n2 m _ _, _) => twoTermT n1 n2 k (x (.br m)).post
  | (.TF n1 n2 n3 n4 m a, _) =>
      twoTermT n1 n2 k (x (.br m)).post ++ twoTermT n3 n4 k (smul (-1) (smul a (x (.br m)).post))
  | (.GY n1 n2 n3 n4 m1 m2 _, _) => twoTermT n1 n2 k (x (.br m2)).post ++ twoTermT n3 n4 k (x (.br m1)).post
  | (.AM n1 n2 m, _) => twoTermT n1 n2 k (x (.br m)).post
  | (.TR _ n2 m _, _) => twoTermT n2 0 k (x (.br m)).post
  | (.Y n1 n2 y, _) => twoTermT n1 n2 k (smul y (vpost x n1 n2))
  | (.Open _ _, _) => []
  | (.TPA n1 n2 n3 n4 m _ _ a21 a22, _) =>
      twoTermT n1 n2 k (x (.br m)).post ++
        twoTermT n3 n4 k (subP (smul a21 (vpost x n1 n2)) (smul a22 (x (.br m)).post))
  | (.TPY n1 n2 n3 n4 y11 y12 y21 y22, _) =>
      twoTermT n3 n4 k (smul y11 (vpost x n3 n4) ++ smul y12 (vpost x n1 n2)) ++
        twoTermT n1 n2 k (smul y21 (vpost x n3 n4) ++ smul y22 (vpost x n1 n2))
  | (.SP _ _ n3 _ m _ _ _, _) => twoTermT n3 0 k (x (.br m)).post
  | (.HY n1 n2 m _ _ _ _ _ _, _) => twoTermT n1 n2 k (x (.br m)).post

/-- voltage induced by the coupled inductors: Σ M · D i'  (each partner current seen from its own state at 0⁻) -/
def mutualDropT (x : Ix → Signal K) (coup : List (Nat × K × Option K)) : ExpPoly K :=
  coup.flatMap (fun p =>
    smul p.2.1 (stateDeriv (stateOf p.2.2 (pre0 (x (.br p.1)).pre)) (x (.br p.1)).post))

/-- residual signals of the defining relations (cf. `MNA.laws`): each must be the zero signal -/
def lawsT (x : Ix → Signal K) : TCpt K → List (Nat × ExpPoly K)
  | (.Ind n1 n2 m l i0 coup, _) =>
      [(m, subP (vpost x n1 n2)
             (smul l (stateDeriv (stateOf i0 (pre0 (x (.br m)).pre)) (x (.br m)).post) ++ mutualDropT x coup))]
  | (.V n1 n2 m _, w) => [(m, subP (vpost x n1 n2) w.post)]
  | (.E n1 n2 n3 n4 m Ad Ac, _) =>
      [(m, subP (vpost x n1 n2)
             (smul Ad (vpost x n3 n4) ++ smul Ac (smul (1 / 2) ((voltT x n3).post ++ (voltT x n4).post))))]
  | (.H n1 n2 m mc h, _) => [(m, subP (vpost x n1 n2) (smul h (x (.br mc)).post))]
  | (.TF n1 n2 n3 n4 m a, _) => [(m, subP (vpost x n1 n2) (smul a (vpost x n3 n4)))]
  | (.GY n1 n2 n3 n4 m1 m2 r, _) =>
      [(m1, vpost x n1 n2 ++ smul r (x (.br m1)).post), (m2, subP (vpost x n3 n4) (smul r (x (.br m2)).post))]
  | (.AM n1 n2 m, _) => [(m, vpost x n1 n2)]
  | (.TR n1 n2 m a, _) => [(m, subP (voltT x n2).post (smul a (voltT x n1).post))]
  | (.TPA n1 n2 n3 n4 m a11 a12 _ _, _) =>
      [(m, subP (vpost x n3 n4) (subP (smul a11 (vpost x n1 n2)) (smul a12 (x (.br m)).post)))]
  | (.HY n1 n2 m n3 n4 mc y isc h, _) =>
      -- `y` read as a constant conductance; `isc` as an impulse of that weight at t = 0
      [(m, subP (vpost x n1 n2) (smul h (x (.br mc)).post)),
       (mc, subP (x (.br mc)).post (subP (smul y (vpost x n3 n4)) [.dl isc 0 0]))]
  | (.SP n1 n2 n3 n4 m c1 c2 c4, _) =>
      [(m, subP (voltT x n3).post
             (smul c1 (voltT x n1).post ++ smul c2 (voltT x n2).post ++ smul c4 (voltT x n4).post))]
  | _ => []

/-- residual of Kirchhoff's current law at node `k` -/
def kclT (x : Ix → Signal K) (k : Nat) (tcs : List (TCpt K)) : ExpPoly K := tcs.flatMap (outflowT x k)

/-- `s` is not a pole of any circuit signal nor of any source waveform -/
def Regular (tcs : List (TCpt K)) (x : Ix → Signal K) (s : K) : Prop :=
  (∀ ix, NonPole (x ix).post s) ∧ (∀ c ∈ tcs, NonPole c.2.post s)

/-- The time-domain laws, equality of signals being equality of their formal transforms at every regular point. -/
def LawsT (E : K → K) (tcs : List (TCpt K)) (x : Ix → Signal K) : Prop :=
  ∀ s, Regular tcs x s →
    (∀ k, k ≠ 0 → L E (kclT x k tcs) s = 0) ∧ (∀ c ∈ tcs, ∀ p ∈ lawsT x c, L E p.2 s = 0)

/-- transform of one term with the delay factor `e^{−s d}` replaced by the value `w d` of an independent indeterminate
    (one indeterminate per delay `d`; cf. the header of Spec/Signal.lean) -/
def _root_.Lcapy.Laplace.Term.LW (w : K → K) (s : K) : Term K → K
  | .ep c k p d => c * w d / pw (s - p) (k + 1)
  | .dl c n d => c * pw s n * w d

/-- formal unilateral transform with the delay factors as independent indeterminates;
    `L E f s = LW (fun d => E (−s·d)) f s` (Proofs/TimeDomainInj.lean: `L_eq_LW`) -/
def LW (w : K → K) : ExpPoly K → K → K
  | [], _ => 0
  | t :: f, s => t.LW w s + LW w f s

/-- The time-domain laws with the delay factors as independent indeterminates: every residual has the zero transform
    at every regular point whatever values the indeterminates take. -/
def LawsTW (tcs : List (TCpt K)) (x : Ix → Signal K) : Prop :=
  ∀ (w : K → K) (s : K), Regular tcs x s →
    (∀ k, k ≠ 0 → LW w (kclT x k tcs) s = 0) ∧ (∀ c ∈ tcs, ∀ p ∈ lawsT x c, LW w p.2 s = 0)

/-- the s-domain component seen at the point `s`: a source is replaced by the value of its transform -/
def atS (E : K → K) (s : K) : TCpt K → Cpt K
  | (.V n1 n2 m _, w) => .V n1 n2 m (L E w.post s)
  | (.I n1 n2 _, w) => .I n1 n2 (L E w.post s)
  | (c, _) => c

/-- the s-domain unknowns: the transforms of the signals -/
def transformOf (E : K → K) (x : Ix → Signal K) (s : K) : Ix → K := fun ix => L E (x ix).post s

/-- Where the netlist specifies no initial condition, the ivp analysis of Spec/Laws.lean assumes the element at
    rest at 0⁻: this says that the signals' own pre-history agrees with that. -/
def RestWhereUnspecified (tcs : List (TCpt K)) (x : Ix → Signal K) : Prop :=
  ∀ c ∈ tcs, match c.1 with
    | .Cap n1 n2 _ none => vpre0 x n1 n2 = 0
    | .Ind _ _ m _ i0 coup =>
        (i0 = none → pre0 (x (.br m)).pre = 0) ∧ (∀ p ∈ coup, p.2.2 = none → pre0 (x (.br p.1)).pre = 0)
    | _ => True

end
end Lcapy.TD
