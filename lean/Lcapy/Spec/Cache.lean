/-
  C16 -- specification predicates for the cache model (Mathlib-free).

  `Inv cfg G w`: in world `w`
    * every instance's node table carries exactly the incidence counters of its element list
      (`Node._count` = number of electrically counted attachments, `len(Node._connected)` =
      number of attachments) and the dictionary keys are unique;
    * every live memo entry (per-instance or class-level lru) whose slot is in `G` was computed
      from the instance's *current* element list, and only read memo entries that were themselves
      up to date.
  `G` is the set of slots for which history independence is claimed; `CfgOK cfg G` says what the
  GENERATED configuration has to satisfy for it: `_invalidate` clears every memoised slot of `G`
  and `G` is closed under "reads".  `G = everything` is the full property.
-/
import Lcapy.Model.Cache
namespace Lcapy.Cache

def TabOK (inst : Inst) : Prop :=
  ∀ n, countOf inst.tab n = incCount inst.elts n ∧ degOf inst.tab n = incDeg inst.elts n

def GoodMemo (G : String → Bool) (E : Ver) (m : Memo) : Prop :=
  G m.slot = true → m.ver = E ∧ m.clean = true

structure Inv (cfg : Config) (G : String → Bool) (w : World) : Prop where
  tab : ∀ (i : Nat) (inst : Inst), w.insts[i]? = some inst → TabOK inst ∧ uniqueNames inst.elts
  memo : ∀ (i : Nat) (inst : Inst), w.insts[i]? = some inst → ∀ m ∈ inst.memo,
          (cfg.kindOf m.slot).isSome = true ∧ GoodMemo G inst.elts m
  lru : ∀ p ∈ w.lru, (cfg.kindOf p.2.slot).isSome = true ∧ p.1 < w.insts.length ∧
          ∀ inst, w.insts[p.1]? = some inst → GoodMemo G inst.elts p.2

structure CfgOK (cfg : Config) (G : String → Bool) : Prop where
  cleared : ∀ s, G s = true → (cfg.kindOf s).isSome = true → cfg.isCleared s = true
  closed : ∀ s, G s = true → ∀ d ∈ cfg.depsOf s, G d = true
  /-- no read-only member mutates the cached object of a slot of `G` -/
  nodamage : ∀ p ∈ cfg.damages, G p.2 = false

/-- Boolean versions, for `decide` on the generated configuration and for the driver -/
def cfgOKb (cfg : Config) (G : String → Bool) : Bool :=
  cfg.memoised.all (fun p => !G p.1 || cfg.isCleared p.1) &&
  cfg.deps.all (fun p => !G p.1 || p.2.all G) &&
  cfg.damages.all (fun p => !G p.2)

/-- the slots whose computation (transitively, through `deps`) reads one of `bad`;
    `fuel` bounds the depth (the number of memoised members suffices) -/
def taintedBy (cfg : Config) (bad : List String) : Nat → List String
  | 0 => bad
  | f + 1 =>
    let cur := taintedBy cfg bad f
    cur ++ (cfg.deps.filter (fun p => !cur.contains p.1 && p.2.any cur.contains)).map (·.1)

/-- the slots known NOT to be cleared by `_invalidate` (finding F14) -/
def knownUncleared : List String := ["_components", "_sim"]

/-- slots for which history independence is claimed when the slots `bad` are not cleared:
    everything that is neither in `bad` nor computed (transitively) from a slot in `bad` -/
def Gexcl (cfg : Config) (bad : List String) (s : String) : Bool :=
  !(taintedBy cfg bad cfg.memoised.length).contains s

/-- admissible operations: the public ones; an `add` that overrides an existing name only if the
    code detaches the old component; `derive` builds from a dictionary (unique names) -/
def Op.admissible (cfg : Config) (w : World) : Op → Prop
  | .new => True
  | .add i e => cfg.addInvalidates = true ∧
      ((cfg.overrideDetaches = true ∧ cfg.overrideSel = .all) ∨ findElt (eltsOf w i) e.name = none)
  | .addRaw _ _ => False
  | .addLines i es => cfg.addMultiInvalidates = true ∧
      ((cfg.overrideDetaches = true ∧ cfg.overrideSel = .all) ∨ (uniqueNames es ∧ ∀ e ∈ es, findElt (eltsOf w i) e.name = none))
  | .remove _ _ => cfg.removeInvalidates = true ∧ cfg.removeSel = .all
  | .query _ _ => True
  | .derive _ _ es => uniqueNames es
  | .addFail i es _ late => cfg.addInvalidatesOnError = true ∧ (late = true → cfg.failedAddDetaches = true) ∧
      ((cfg.overrideDetaches = true ∧ cfg.overrideSel = .all) ∨ (uniqueNames es ∧ ∀ e ∈ es, findElt (eltsOf w i) e.name = none))

/-- every step of the history is admissible and raises no exception -/
def RunOK (cfg : Config) : World → List Op → Prop
  | _, [] => True
  | w, op :: ops => op.admissible cfg w ∧ (step cfg w op).2 = true ∧ RunOK cfg (step cfg w op).1 ops

/-- the public operations of the property's quantifier (`_add` is internal; a derived circuit is
    built from a dictionary, so its lines have unique names) -/
def Op.isPublic : Op → Prop
  | .addRaw _ _ => False
  | .derive _ _ es => uniqueNames es
  | _ => True

/-- every step of the history is admissible; steps MAY raise (unknown name in `remove`, a malformed line in `add`) -/
def RunOKF (cfg : Config) : World → List Op → Prop
  | _, [] => True
  | w, op :: ops => op.admissible cfg w ∧ RunOKF cfg (step cfg w op).1 ops

/-- no step of the history raises an exception -/
def NoRaise (cfg : Config) : World → List Op → Prop
  | _, [] => True
  | w, op :: ops => (step cfg w op).2 = true ∧ NoRaise cfg (step cfg w op).1 ops

/-- the observable spec judged on real outputs by the oracle: two observation lists agree -/
def sameObservations (hist fresh : List (String × String)) : Bool := hist == fresh

end Lcapy.Cache
