/-
  C17 -- specification of Lcapy's special functions over the ordered field of rationals.

  Source of every clause: doc/expressions.rst, section "Special functions" (and the class
  docstrings of lcapy/extrafunctions.py), written independently of the code paths that the
  model mirrors.  `spec f x = none` means "the value is not a rational number" (sinc family
  away from the listed points) or "not a number" (Dirac delta at 0).
  `disc f x` is the explicit set of discontinuity points: the property only speaks about
  points outside it.  No Mathlib import (linked into the native driver).
-/
namespace Lcapy.Spec.SpecialFn

/-- the functions of the table.  `sinc` is the name `sinc` as written in a parsed string
(documented to be the normalised cardinal sine, identical to `sincn`). -/
inductive Fn where
  | heaviside | dirac | sign | rect | tri | ramp | rampstep
  | trap (alpha : Rat)
  | unitstep | unitimpulse | dtrect | dtsign
  | sincn | sincu | sinc
  | psinc (M : Rat)
deriving DecidableEq, Repr

def sabs (x : Rat) : Rat := if x < 0 then -x else x

/-- "H(t) = 0 for t < 0, 0.5 for t = 0, 1 for t > 0" -/
def heaviside (x : Rat) : Rat := if x < 0 then 0 else if x = 0 then 1/2 else 1
/-- "ramp(t) = t H(t)" -/
def ramp (x : Rat) : Rat := x * heaviside x
/-- "rampstep(t) = ramp(t) - ramp(t - 1)" -/
def rampstep (x : Rat) : Rat := ramp x - ramp (x - 1)
/-- "rect(t) = H(t + 1/2) - H(t - 1/2)" -/
def rect (x : Rat) : Rat := heaviside (x + 1/2) - heaviside (x - 1/2)
/-- "sign(t) = 2 H(t) - 1" -/
def sign (x : Rat) : Rat := 2 * heaviside x - 1
/-- "tri(t) = ramp(t + 1) - 2 ramp(t) + ramp(t - 1)" -/
def tri (x : Rat) : Rat := ramp (x + 1) - 2 * ramp x + ramp (x - 1)
/-- "trap(t, alpha) is the convolution of rect(t / alpha) and rect(t) ... alpha is the normalized
rise/fall time; alpha = 0: rect(t); alpha = 1: tri(t)".  For 0 < alpha (normalised by 1/alpha so that
the plateau is 1): plateau for |t| ≤ (1-alpha)/2, zero for |t| ≥ (1+alpha)/2, linear in between. -/
def trap (alpha x : Rat) : Rat :=
  if alpha = 0 then rect x
  else if sabs x ≤ (1 - alpha) / 2 then 1
  else if sabs x ≥ (1 + alpha) / 2 then 0
  else ((1 + alpha) / 2 - sabs x) / alpha
/-- "u[n] = 0 for n < 0, 1 for n > 0"; u[0] = 1 is fixed by the documented
"rect[n] = u[n + 1/2] - u[n - 1/2] = 1 for -0.5 ≤ n < 0.5" -/
def unitstep (x : Rat) : Rat := if x < 0 then 0 else 1
/-- "delta[n] = 1 for n = 0, otherwise 0" -/
def unitimpulse (x : Rat) : Rat := if x = 0 then 1 else 0
/-- "rect[n] = u[n + 1/2] - u[n - 1/2]" -/
def dtrect (x : Rat) : Rat := unitstep (x + 1/2) - unitstep (x - 1/2)
/-- "sign[n] = 2 u[n] - 1" -/
def dtsign (x : Rat) : Rat := 2 * unitstep x - 1

def isInt (x : Rat) : Bool := x.den == 1
/-- `(-1)^k` -/
def negOnePowInt (k : Int) : Rat := if k % 2 == 0 then 1 else -1

/-- exact value where it is a rational number this specification commits to -/
def spec : Fn → Rat → Option Rat
  | .heaviside, x => some (heaviside x)
  | .dirac, x => if x = 0 then none else some 0
  | .sign, x => some (sign x)
  | .rect, x => some (rect x)
  | .tri, x => some (tri x)
  | .ramp, x => some (ramp x)
  | .rampstep, x => some (rampstep x)
  | .trap a, x => some (trap a x)
  | .unitstep, x => some (unitstep x)
  | .unitimpulse, x => some (unitimpulse x)
  | .dtrect, x => some (dtrect x)
  | .dtsign, x => some (dtsign x)
  -- "sinc(t) = sincn(t) = sin(pi t)/(pi t)": 1 at 0 (limit), 0 at the other integers, irrational elsewhere
  | .sincn, x => if x = 0 then some 1 else if isInt x then some 0 else none
  | .sinc, x => if x = 0 then some 1 else if isInt x then some 0 else none
  -- "sincu(t) = sin(t)/t": 1 at 0 (limit), transcendental at every other rational
  | .sincu, x => if x = 0 then some 1 else none
  -- "psinc(M, t) = sin(M pi t)/(M sin(pi t))": at an integer n the (removable) value is the limit
  -- cos(M pi n)/cos(pi n) = (-1)^(n (M-1)); 0 where M t is an integer and t is not; other points not exhibited
  | .psinc M, x =>
      if !(isInt M) || M ≤ 0 then none
      else if isInt x then some (negOnePowInt (x.num * (M.num - 1)))
      else if isInt (M * x) then some 0 else none

/-- the discontinuity points, made explicit -/
def disc : Fn → Rat → Bool
  | .heaviside, x => x == 0
  | .dirac, x => x == 0
  | .sign, x => x == 0
  | .rect, x => x == 1/2 || x == -1/2
  | .trap a, x => a == 0 && (x == 1/2 || x == -1/2)
  | _, _ => false

/-- parameter domain: `trap` is documented for a normalised rise time 0 ≤ alpha ≤ 1,
`psinc` for a positive integer M -/
def inDomain : Fn → Bool
  | .trap a => 0 ≤ a && a ≤ 1
  | .psinc M => isInt M && 0 < M
  | _ => true

end Lcapy.Spec.SpecialFn
