/-
  Specification side of C06: when are two parsed netlists "the same circuit", and the
  round-trip predicate that the oracle evaluates on the real Lcapy's outputs.

  A component is described by what `cpts.make` receives: class (component kind + source kind /
  keyword variant), name, nodes, argument values (values, initial conditions), keyword, and the
  attribute string.  Two descriptions denote the same component when they agree on all of these,
  where
    * an optional value that is absent (`None`) in a non-final position denotes the number 0
      (this is what the printer writes for it: Phase, td, alpha, V1, I1, ...), and
    * attribute strings are compared as the key/value tables they denote (order of first
      occurrence, `true`/`True` identified), not as text.
-/
import Lcapy.Model.Parser
namespace Lcapy.Spec.Netlist
open Lcapy.Parser

/-- absent optional values in non-final position denote 0 -/
def normArgs : List (Option Str) → List (Option Str)
  | [] => []
  | [a] => [a]
  | none :: rest => some ['0'] :: normArgs rest
  | some v :: rest => some v :: normArgs rest

def optsEq : Opts → Opts → Bool
  | [], [] => true
  | (k1, v1) :: r1, (k2, v2) :: r2 => k1 == k2 && v1.beq v2 && optsEq r1 r2
  | _, _ => false

/-- same attribute table -/
def sameOpts (a b : Str) : Bool :=
  match optsParse a, optsParse b with
  | .ok x, .ok y => optsEq x y
  | _, _ => false

/-- the two descriptions denote the same component -/
def sameCpt (a b : Cpt) : Bool :=
  a.classname == b.classname && a.name == b.name && a.ctype == b.ctype && a.nodes == b.nodes
    && normArgs a.args == normArgs b.args && a.kw == b.kw
    && (a.kw.isEmpty || a.kwpos == b.kwpos)
    && (if a.ctype == ['X','X'] then a.string == b.string else sameOpts a.opts b.opts)

def sameNetlist : List Cpt → List Cpt → Bool
  | [], [] => true
  | a :: as, b :: bs => sameCpt a b && sameNetlist as bs
  | _, _ => false

/-- Round-trip predicate: `t1` = components parsed from the input, `p1` = its printed text,
    `t2` = components parsed from `p1`, `p2` = printed text of that. -/
def roundTripOK (t1 t2 : List Cpt) (p1 p2 : Str) : Bool :=
  sameNetlist t1 t2 && p1 == p2

/-- which clause fails (for replay files) -/
def roundTripVerdict (t1 t2 : List Cpt) (p1 p2 : Str) : String :=
  if t1.length != t2.length then "component-count"
  else if !sameNetlist t1 t2 then
    match (t1.zip t2).find? (fun p => !sameCpt p.1 p.2) with
    | some (a, b) =>
      if a.classname != b.classname then "class"
      else if a.name != b.name then "name"
      else if a.nodes != b.nodes then "nodes"
      else if normArgs a.args != normArgs b.args then "args"
      else if a.kw != b.kw || !(a.kw.isEmpty || a.kwpos == b.kwpos) then "keyword"
      else "opts"
    | none => "components"
  else if p1 != p2 then "print-not-idempotent"
  else "ok"

end Lcapy.Spec.Netlist
