/-
  SPEC for property C14: the TIME-DOMAIN laws of a circuit in the sinusoidal steady state, stated over an
  abstract space of signals `V` with the operations a linear time-invariant circuit needs (`SigOps`): addition,
  scaling by a real constant and the time derivative `D`.  The laws are those of Spec/Laws.lean (same `Cpt`, same
  sign conventions) with

      capacitor   i = C · D v            inductor   v = L · D i + Σ M · D i'

  and the instantaneous laws of R, V, I, E, G, F, H, TF, GY, AM, TR, Y (a constant conductance), O, TPA, TPY, SP, HY
  unchanged; KCL at every non-ground node.  Independent sources carry their waveform (a signal) next to the
  component (`SCpt`).  There is no initial condition in a steady state: `v0`, `i0` are not read.

  Signal spaces used by Props/C14*.lean:
    `sinusOps ω`  : a·cos ωt + b·sin ωt  ↔ (a, b), D (a, b) = (ω b, −ω a)       (one angular frequency)
    `famOps`      : families ω ↦ (a_ω, b_ω): sums of sinusoids of several frequencies, D acts frequency-wise
    `constOps`    : constants, D = 0                                                (DC)
  Nothing here mentions phasors or complex numbers.  No Mathlib import.
-/
import Lcapy.Spec.Laws
namespace Lcapy.TDS
open Lcapy.MNA

/-- the operations on signals that the laws use -/
structure SigOps (K V : Type) where
  zero : V
  add : V → V → V
  sub : V → V → V
  neg : V → V
  smul : K → V → V
  D : V → V

/-- a·cos(ωt) + b·sin(ωt) -/
structure Sinus (K : Type) where
  a : K
  b : K
deriving DecidableEq, Repr

section
variable {K : Type} [Add K] [Mul K] [Neg K] [Sub K] [Div K] [OfNat K 0] [OfNat K 1] [OfNat K 2]

/-- sinusoids of one angular frequency ω: d/dt (a cos ωt + b sin ωt) = ω b cos ωt − ω a sin ωt -/
def sinusOps (w : K) : SigOps K (Sinus K) where
  zero := ⟨0, 0⟩
  add u v := ⟨u.a + v.a, u.b + v.b⟩
  sub u v := ⟨u.a - v.a, u.b - v.b⟩
  neg u := ⟨-u.a, -u.b⟩
  smul r u := ⟨r * u.a, r * u.b⟩
  D u := ⟨w * u.b, -(w * u.a)⟩

/-- sums of sinusoids of several frequencies: one (a, b) per angular frequency -/
def famOps : SigOps K (K → Sinus K) where
  zero := fun _ => ⟨0, 0⟩
  add u v := fun w => (sinusOps w).add (u w) (v w)
  sub u v := fun w => (sinusOps w).sub (u w) (v w)
  neg u := fun w => (sinusOps w).neg (u w)
  smul r u := fun w => (sinusOps w).smul r (u w)
  D u := fun w => (sinusOps w).D (u w)

/-- constants -/
def constOps : SigOps K K where
  zero := 0
  add u v := u + v
  sub u v := u - v
  neg u := -u
  smul r u := r * u
  D _ := 0

/-- value of the sinusoid at an instant where cos ωt = C and sin ωt = S -/
def Sinus.at (C S : K) (v : Sinus K) : K := v.a * C + v.b * S

/-- a component with the waveform of its independent source (read for `V` and `I` only) -/
abbrev SCpt (K V : Type) := Cpt K × V

variable {V : Type} (S : SigOps K V)

def voltS (x : Ix → V) : Nat → V
  | 0 => S.zero
  | k + 1 => x (.node (k + 1))

def vdS (x : Ix → V) (a b : Nat) : V := S.sub (voltS S x a) (voltS S x b)

def twoTermS (n1 n2 k : Nat) (i : V) : V :=
  S.sub (if n1 = k then i else S.zero) (if n2 = k then i else S.zero)

def sumS : List V → V
  | [] => S.zero
  | h :: t => S.add h (sumS t)

/-- current LEAVING node `k` through component `c`, as a signal (cf. `MNA.outflow`) -/
def outflowS (x : Ix → V) (k : Nat) : SCpt K V → V
  | (.R n1 n2 r, _) => twoTermS S n1 n2 k (S.smul (1 / r) (vdS S x n1 n2))
  | (.Cap n1 n2 c _, _) => twoTermS S n1 n2 k (S.smul c (S.D (vdS S x n1 n2)))                 -- i = C dv/dt
  | (.Ind n1 n2 m _ _ _, _) => twoTermS S n1 n2 k (x (.br m))
  | (.V n1 n2 m _, _) => twoTermS S n1 n2 k (x (.br m))
  | (.I n1 n2 _, w) => twoTermS S n1 n2 k (S.neg w)
  | (.E n1 n2 _ _ m _ _, _) => twoTermS S n1 n2 k (x (.br m))
  | (.G n1 n2 n3 n4 g, _) => twoTermS S n1 n2 k (S.neg (S.smul g (vdS S x n3 n4)))
  | (.F n1 n2 mc f, _) => twoTermS S n1 n2 k (S.smul f (x (.br mc)))
  | (.H n1 n2 m _ _, _) => twoTermS S n1 n2 k (x (.br m))
  | (.TF n1 n2 n3 n4 m a, _) =>
      S.add (twoTermS S n1 n2 k (x (.br m))) (twoTermS S n3 n4 k (S.neg (S.smul a (x (.br m)))))
  | (.GY n1 n2 n3 n4 m1 m2 _, _) => S.add (twoTermS S n1 n2 k (x (.br m2))) (twoTermS S n3 n4 k (x (.br m1)))
  | (.AM n1 n2 m, _) => twoTermS S n1 n2 k (x (.br m))
  | (.TR _ n2 m _, _) => twoTermS S n2 0 k (x (.br m))
  | (.Y n1 n2 y, _) => twoTermS S n1 n2 k (S.smul y (vdS S x n1 n2))
  | (.Open _ _, _) => S.zero
  | (.TPA n1 n2 n3 n4 m _ _ a21 a22, _) =>
      S.add (twoTermS S n1 n2 k (x (.br m)))
        (twoTermS S n3 n4 k (S.sub (S.smul a21 (vdS S x n1 n2)) (S.smul a22 (x (.br m)))))
  | (.TPY n1 n2 n3 n4 y11 y12 y21 y22, _) =>
      S.add (twoTermS S n3 n4 k (S.add (S.smul y11 (vdS S x n3 n4)) (S.smul y12 (vdS S x n1 n2))))
        (twoTermS S n1 n2 k (S.add (S.smul y21 (vdS S x n3 n4)) (S.smul y22 (vdS S x n1 n2))))
  | (.SP _ _ n3 _ m _ _ _, _) => twoTermS S n3 0 k (x (.br m))
  | (.HY n1 n2 m _ _ _ _ _ _, _) => twoTermS S n1 n2 k (x (.br m))

/-- voltage induced by the coupled inductors: Σ M · D i' -/
def mutualDropS (x : Ix → V) (coup : List (Nat × K × Option K)) : V :=
  sumS S (coup.map (fun p => S.smul p.2.1 (S.D (x (.br p.1)))))

/-- residual signals of the defining relations (cf. `MNA.laws`): each must be the zero signal -/
def lawsS (x : Ix → V) : SCpt K V → List (Nat × V)
  | (.Ind n1 n2 m l _ coup, _) =>
      [(m, S.sub (vdS S x n1 n2) (S.add (S.smul l (S.D (x (.br m)))) (mutualDropS S x coup)))]   -- v = L di/dt + Σ M di'/dt
  | (.V n1 n2 m _, w) => [(m, S.sub (vdS S x n1 n2) w)]
  | (.E n1 n2 n3 n4 m Ad Ac, _) =>
      [(m, S.sub (vdS S x n1 n2)
             (S.add (S.smul Ad (vdS S x n3 n4)) (S.smul Ac (S.smul (1 / 2) (S.add (voltS S x n3) (voltS S x n4))))))]
  | (.H n1 n2 m mc h, _) => [(m, S.sub (vdS S x n1 n2) (S.smul h (x (.br mc))))]
  | (.TF n1 n2 n3 n4 m a, _) => [(m, S.sub (vdS S x n1 n2) (S.smul a (vdS S x n3 n4)))]
  | (.GY n1 n2 n3 n4 m1 m2 r, _) =>
      [(m1, S.add (vdS S x n1 n2) (S.smul r (x (.br m1)))), (m2, S.sub (vdS S x n3 n4) (S.smul r (x (.br m2))))]
  | (.AM n1 n2 m, _) => [(m, vdS S x n1 n2)]
  | (.TR n1 n2 m a, _) => [(m, S.sub (voltS S x n2) (S.smul a (voltS S x n1)))]
  | (.TPA n1 n2 n3 n4 m a11 a12 _ _, _) =>
      [(m, S.sub (vdS S x n3 n4) (S.sub (S.smul a11 (vdS S x n1 n2)) (S.smul a12 (x (.br m)))))]
  | (.HY n1 n2 m n3 n4 mc y _ h, _) =>
      -- the controlling element read as a constant conductance y (its initial-condition term plays no role in a steady state)
      [(m, S.sub (vdS S x n1 n2) (S.smul h (x (.br mc)))), (mc, S.sub (x (.br mc)) (S.smul y (vdS S x n3 n4)))]
  | (.SP n1 n2 n3 n4 m c1 c2 c4, _) =>
      [(m, S.sub (voltS S x n3)
             (S.add (S.add (S.smul c1 (voltS S x n1)) (S.smul c2 (voltS S x n2))) (S.smul c4 (voltS S x n4))))]
  | _ => []

/-- the time-domain laws: KCL at every non-ground node and every component's relation, as equalities of signals -/
def LawsTD (tcs : List (SCpt K V)) (x : Ix → V) : Prop :=
  (∀ k, k ≠ 0 → sumS S (tcs.map (outflowS S x k)) = S.zero) ∧
  (∀ c ∈ tcs, ∀ p ∈ lawsS S x c, p.2 = S.zero)

end
end Lcapy.TDS
