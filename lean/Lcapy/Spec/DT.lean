/-
  SPEC for property C13 (discrete-time transforms).  No Mathlib; everything here is executable so
  that the native driver can judge the real Lcapy's outputs with these very definitions.

  * the value `x[n]` of a sequence built from the listed families (`CTerm.val`, `sigVal`);
  * the unilateral z-transform is the formal power series `Σ_{n≥0} x[n] w^n`, `w = z⁻¹`
    (doc/discretetime.rst: "Lcapy uses the unilateral z-transform, defined as
    X(z) = Σ_{n=0}^∞ x(n) z^{-n}"): a claimed closed form `z^adv num(w)/den(w)` is right iff its
    expansion in w has no positive powers of z and its coefficient n is `x[n]` (`ztSpecOK`);
  * the N-point DFT is the finite sum `Σ_{n<N} x[n] q^n` at `q = ω^k` (`dftSum`);
  * a difference equation `Σ_k a_k y[n-k] = Σ_l b_l x[n-l]` holds at index n (`deHolds`);
  * convolution `(x*h)[n] = Σ_j h[j] x[n-j]` (`convAt`).
  Nothing here mentions how Lcapy computes anything.
-/
import Lcapy.Model.DT
namespace Lcapy.DT

section
variable {K : Type} [Add K] [Mul K] [Neg K] [Sub K] [Div K] [OfNat K 0] [OfNat K 1]

def Base.val : Base K → Int → K
  | .imp d, n => if n = d then 1 else 0
  | .step d, n => if d ≤ n then 1 else 0
  | .one, _ => 1
  | .cos cb sb cc sc, n => (rotZ cb sb n).1 * cc - (rotZ cb sb n).2 * sc
  | .sin cb sb cc sc, n => (rotZ cb sb n).2 * cc + (rotZ cb sb n).1 * sc
  | .gated isSin true g cb sb cc sc, n => trigVal isSin cb sb cc sc n * (if n = g then 1 else 0)
  | .gated isSin false g cb sb cc sc, n => trigVal isSin cb sb cc sc n * (if g ≤ n then 1 else 0)

/-- `coef * n^p * a^n * base[n]` -/
def CTerm.val (t : CTerm K) (n : Int) : K :=
  t.coef * powK (intK n) t.p * zpowK t.a n * t.base.val n

def sigVal (ts : List (CTerm K)) (n : Int) : K :=
  ts.foldr (fun t acc => t.val n + acc) 0

/-- finite literal sequence `vals` whose first element has index `n0`; zero elsewhere -/
def litVal (vals : List K) (n0 : Int) (n : Int) : K :=
  if n0 ≤ n then vals.getD (n - n0).toNat 0 else 0

/-- `Σ_{n=lo}^{lo+len-1} x[n] q^n` — the defining (bilateral) DTFT sum of a sequence supported in that
    window, at `q = e^{-jΩ}` -/
def dtftSum (x : Int → K) (q : K) (lo : Int) : Nat → K
  | 0 => 0
  | len + 1 => dtftSum x q lo len + x (lo + Int.ofNat len) * zpowK q (lo + Int.ofNat len)

/-- `Σ_{n<N} x[n] q^n` -/
def dftSum (x : Nat → K) (q : K) : Nat → K
  | 0 => 0
  | n + 1 => dftSum x q n + x n * powK q n

/-- `(x*h)[n] = Σ_{j<len h} h[j] x[n-j]` -/
def convAt (h : List K) (x : Int → K) (n : Int) : K := bsum h x n

end

section
variable {K : Type} [Add K] [Mul K] [Neg K] [Sub K] [Div K] [OfNat K 0] [OfNat K 1] [DecidableEq K]

/-- first index at which two lists differ, or a missing entry -/
def firstDiff : List K → List K → Nat → Option Nat
  | [], [], _ => none
  | a :: as, b :: bs, i => if a = b then firstDiff as bs (i + 1) else some i
  | _, _, i => some i

/-- the closed form `z^adv num(w)/den(w)` expands to `Σ_{n ≤ N} x[n] w^n + …` : returns `none` when it
    does, `some j` = index of the first wrong coefficient of the expansion otherwise
    (`j < adv` = a positive power of z that must not be there).  `den(0) = 0` is malformed. -/
def ztSpecCheck (x : Int → K) (r : ZR K) (N : Nat) : Option Nat :=
  if r.den.headD 0 = 0 then some 0 else
  firstDiff (series r.num r.den (r.adv + N + 1))
    (List.replicate r.adv 0 ++ (List.range (N + 1)).map (fun n => x (Int.ofNat n))) 0

/-- drop trailing zeros -/
def ptrim (p : List K) : List K := (p.reverse.dropWhile (fun c => c = 0)).reverse

/-- `b/a` and `b'/a'` are the same rational function of w (cross-multiplication) -/
def sameRatfun (b a b' a' : List K) : Bool :=
  decide (ptrim (pmul b a') = ptrim (pmul a b'))

/-- the difference equation holds at index i -/
def deHolds (b a : List K) (x y : Int → K) (i : Int) : Bool :=
  decide (bsum a y i = bsum b x i)

end
end Lcapy.DT
