/-
  SPEC for property C05 (netlist level): what "retained" means and when two solved circuits
  agree on everything retained.  Nothing here says how Lcapy rewrites anything.

  A rewrite turns a netlist `orig` into a netlist `new`; node names may be renamed by a map
  `ren` (the identity for every rewrite except `renumber`).
    * a component is UNTOUCHED when the very same line (after renaming its nodes) is in `new`;
    * a node is RETAINED when it is ground or incident to at least one untouched component
      (any terminal, including controlling terminals);
    * the rewrite PRESERVES the solution when every retained node has the same voltage and every
      untouched component the same current in the solutions of `orig` and `new`.
  No Mathlib import.
-/
namespace Lcapy.Rewrite

/-- one netlist line of the restricted grammar `name nodes… [keyword] [value [ic]] [extra…]` -/
structure Elt (K : Type) where
  name : String
  ty : String
  nodes : List String
  kw : String := ""
  val : Option K := none        -- args[0]
  ic : Option K := none         -- args[1] of L and C (initial current / voltage)
  extra : List String := []     -- other raw arguments (control source name, second gain, …)
deriving Repr, DecidableEq

abbrev Net (K : Type) := List (Elt K)

variable {K : Type} [DecidableEq K]

def Elt.n1 (e : Elt K) : String := e.nodes.getD 0 ""
def Elt.n2 (e : Elt K) : String := e.nodes.getD 1 ""

def Elt.rename (ren : String → String) (e : Elt K) : Elt K := { e with nodes := e.nodes.map ren }

/-- how a rewrite relates components of the result to components of the original:
    `strict` — simplify, removal, renumber, copy: a component is untouched only when its line is
               re-emitted verbatim (up to the node renaming);
    `componentwise` — s_model, ac_model, noise_model, replace_switches, expand, subs: every
               component is re-emitted individually in another representation on the same nodes;
               every node name that still exists is retained and a component is compared when a
               component of the same name exists in the result. -/
inductive Mode where
  | strict | componentwise
deriving DecidableEq, Repr

/-- components of `orig` that survive -/
def untouched (mode : Mode) (ren : String → String) (orig new : Net K) : Net K :=
  match mode with
  | .strict => orig.filter (fun e => new.contains (e.rename ren))
  | .componentwise => orig.filter (fun e => new.any (fun f => f.name = e.name))

/-- ground and every node incident to an untouched component (componentwise: every node of the
    original that still exists) -/
def retainedNodes (mode : Mode) (ren : String → String) (orig new : Net K) : List String :=
  let ground := if (orig.flatMap (·.nodes)).contains "0" then ["0"] else []
  match mode with
  | .strict => (((untouched mode ren orig new).flatMap (·.nodes)) ++ ground).eraseDups
  | .componentwise =>
    (((orig.flatMap (·.nodes)).filter (fun n => (new.flatMap (·.nodes)).contains (ren n))) ++ ground).eraseDups

/-- the node renaming a component-preserving rewrite (renumber) performed, read off position by
    position: `none` when the two netlists do not list the same components in the same order -/
def renamingOf (orig new : Net K) : Option (List (String × String)) :=
  if orig.length ≠ new.length then none
  else if (orig.zip new).any (fun p => p.1.name ≠ p.2.name || p.1.nodes.length ≠ p.2.nodes.length) then none
  else some ((orig.zip new).flatMap (fun p => p.1.nodes.zip p.2.nodes)).eraseDups

/-- first node that is sent to two different names (the relation is not a function) -/
def notFunction (m : List (String × String)) : Option String :=
  (m.find? (fun p => m.any (fun q => p.1 = q.1 && p.2 ≠ q.2))).map (·.1)

/-- first pair of distinct nodes that are given the same new name: a renaming must be injective,
    otherwise two nodes of the circuit are merged -/
def notInjective (m : List (String × String)) : Option (String × String) :=
  (m.findSome? (fun p => (m.find? (fun q => p.2 = q.2 && p.1 ≠ q.1)).map (fun q => (p.1, q.1))))

/-- a solved circuit as the harness reports it: node name ↦ voltage, component name ↦ current -/
structure Sol (K : Type) where
  V : List (String × K)
  I : List (String × K)

def Sol.v (s : Sol K) (n : String) : Option K := (s.V.find? (·.1 = n)).map (·.2)
def Sol.i (s : Sol K) (n : String) : Option K := (s.I.find? (·.1 = n)).map (·.2)

/-- the first retained quantity on which the two solutions differ (`none` = they agree).
    A quantity that the solution of the ORIGINAL reports and the solution of the rewritten netlist does not is a
    difference too (`missing:…`): an empty or partial second solution never counts as agreement.  A quantity absent
    from the original solution is not compared (wires and open circuits have no current). -/
def firstDifference (mode : Mode) (ren : String → String) (orig new : Net K) (so sn : Sol K) : Option String :=
  let nodes := retainedNodes mode ren orig new
  let badN := nodes.find? (fun n => match so.v n, sn.v (ren n) with
    | some a, some b => a ≠ b
    | some _, none => true
    | _, _ => false)
  match badN with
  | some n => some ((if (sn.v (ren n)).isNone then "missing:V:" else "V:") ++ n)
  | none =>
    let badC := (untouched mode ren orig new).find? (fun e => match so.i e.name, sn.i e.name with
      | some a, some b => a ≠ b
      | some _, none => true
      | _, _ => false)
    badC.map (fun e => (if (sn.i e.name).isNone then "missing:I:" else "I:") ++ e.name)

/-- terminal pairs of a component across which a voltage is defined: (first, second) and, for
    four-terminal controlled sources, the controlling pair -/
def Elt.pairs (e : Elt K) : List (String × String) :=
  match e.nodes with
  | [a, b] => [(a, b)]
  | [a, b, c, d] => [(a, b), (c, d)]
  | _ => []

/-- the weaker, branch-level comparison: every untouched component sees the same voltage across
    each of its terminal pairs and carries the same current (node potentials themselves may have
    moved by a re-referencing).  Used to grade a failure of `firstDifference`. -/
def firstBranchDifference [Sub K] (mode : Mode) (ren : String → String) (orig new : Net K) (so sn : Sol K) : Option String :=
  let us := untouched mode ren orig new
  let badV := us.find? (fun e => e.pairs.any (fun p =>
    match so.v p.1, so.v p.2, sn.v (ren p.1), sn.v (ren p.2) with
    | some a, some b, some c, some d => a - b ≠ c - d
    | _, _, _, _ => false))
  match badV with
  | some e => some ("U:" ++ e.name)
  | none =>
    (us.find? (fun e => match so.i e.name, sn.i e.name with
      | some a, some b => a ≠ b
      | _, _ => false)).map (fun e => "I:" ++ e.name)

/-- the spec predicate of C05 on one rewrite instance -/
def Preserved (mode : Mode) (ren : String → String) (orig new : Net K) (so sn : Sol K) : Prop :=
  firstDifference mode ren orig new so sn = none

instance (mode : Mode) (ren : String → String) (orig new : Net K) (so sn : Sol K) :
    Decidable (Preserved mode ren orig new so sn) := by
  unfold Preserved; infer_instance

end Lcapy.Rewrite
