/-
  Executable (Decidable over `Rat`) versions of the network-level C08 spec predicates, used by the
  driver as the failing-input oracle.  They are the *same* definitions, made decidable by
  unfolding.  No Mathlib import.
-/
import Lcapy.Spec.TwoPortNet
import Lcapy.Spec.TwoPortExec
namespace Lcapy.Spec
open Lcapy

instance (m : M2 Rat) (s1 s2 l1 l2 r1 r2 : Rat) : Decidable (lin2 m s1 s2 l1 l2 r1 r2) := by
  unfold lin2; exact inferInstance

instance (r : MRep) (m : M2 Rat) (s1 s2 : Rat) (p : Port Rat) : Decidable (arel r m s1 s2 p) := by
  cases r <;> (unfold arel; exact inferInstance)

instance (t : Stage Rat) (p : Port Rat) : Decidable (t.rel p) := by
  unfold Stage.rel; exact inferInstance

instance (X : Rep) (m : M2 Rat) (Z0 r : Rat) (p : Port Rat) : Decidable (relN X m Z0 r p) := by
  unfold relN; exact inferInstance

instance (X : Rep) (m : M2 Rat) (Z0 : Rat) (p : Port Rat) : Decidable (relVec X m Z0 p) := by
  unfold relVec; exact inferInstance

def cascWit.dec : (ts : List (Stage Rat)) → (ws : List (Rat × Rat)) → (V1 I1 V2 I2 : Rat) →
    Decidable (cascWit ts ws V1 I1 V2 I2)
  | [], [], _, _, _, _ => by unfold cascWit; exact inferInstance
  | _ :: rest, (Vm, Im) :: ws, _, _, V2, I2 => by
      unfold cascWit
      have := cascWit.dec rest ws Vm (-Im) V2 I2
      exact inferInstance
  | [], _ :: _, _, _, _, _ => by unfold cascWit; exact inferInstance
  | _ :: _, [], _, _, _, _ => by unfold cascWit; exact inferInstance

instance (ts : List (Stage Rat)) (ws : List (Rat × Rat)) (V1 I1 V2 I2 : Rat) :
    Decidable (cascWit ts ws V1 I1 V2 I2) := cascWit.dec ts ws V1 I1 V2 I2

instance (c : Conn Rat) : Decidable c.par := by unfold Conn.par; exact inferInstance
instance (c : Conn Rat) : Decidable c.ser := by unfold Conn.ser; exact inferInstance
instance (c : Conn Rat) : Decidable c.hyb := by unfold Conn.hyb; exact inferInstance
instance (c : Conn Rat) : Decidable c.invhyb := by unfold Conn.invhyb; exact inferInstance

def MRep.ofString? : String → Option MRep
  | "A" => some .A | "B" => some .B | "G" => some .G | "H" => some .H | "Y" => some .Y | "Z" => some .Z
  | _ => none

end Lcapy.Spec
