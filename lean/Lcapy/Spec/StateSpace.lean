/-
  SPEC for the state-space part of property C15.  A single-input single-output realisation
  (A, B, C, D) of order n *realises* the transfer function b(s)/a(s) when, at every point s that is
  not a root of a, the Laplace-domain state equation  s·X = A·X + B·U  (zero initial state,
  U = 1) has a solution, and EVERY solution X gives the output  Y = C·X + D·U = b(s)/a(s)
  -- so  C (sI − A)⁻¹ B + D = b(s)/a(s)  without mentioning a matrix inverse.
  The discrete-time statement is the same with z for s.  Coefficient lists are in descending
  powers, as `expr.a`, `expr.b` return them.  No Mathlib import.
-/
namespace Lcapy.StateSpace

variable {K : Type} [Add K] [Mul K] [Neg K] [Sub K] [Div K] [OfNat K 0] [OfNat K 1]

/-- Σ_{i<n} f i -/
def sumTo (n : Nat) (f : Nat → K) : K :=
  match n with
  | 0 => 0
  | n + 1 => sumTo n f + f n

/-- s^k -/
def pw (s : K) : Nat → K
  | 0 => 1
  | k + 1 => pw s k * s

/-- value of the polynomial with descending coefficient list `l` at `s` (Horner) -/
def polyEval (l : List K) (s : K) : K := l.foldl (fun acc c => acc * s + c) 0

/-- a SISO state-space model of order `n`; entries outside `n` are never read -/
structure SS (K : Type) where
  n : Nat
  A : Nat → Nat → K
  B : Nat → K
  C : Nat → K
  D : K

/-- row i of  (sI − A) X = B  (unit input) -/
def stateRow (sys : SS K) (s : K) (X : Nat → K) (i : Nat) : Prop :=
  s * X i - sumTo sys.n (fun j => sys.A i j * X j) = sys.B i

def StateEq (sys : SS K) (s : K) (X : Nat → K) : Prop := ∀ i, i < sys.n → stateRow sys s X i

/-- Y = C X + D  (unit input) -/
def output (sys : SS K) (X : Nat → K) : K := sumTo sys.n (fun j => sys.C j * X j) + sys.D

/-- the realisation reproduces b/a -/
def Realises (sys : SS K) (b a : List K) : Prop :=
  ∀ s, polyEval a s ≠ 0 →
    (∃ X, StateEq sys s X) ∧ (∀ X, StateEq sys s X → output sys X * polyEval a s = polyEval b s)

/-- `s` is a natural frequency (eigenvalue of A): the homogeneous state equation has a non-zero solution -/
def IsNaturalFreq (sys : SS K) (s : K) : Prop :=
  ∃ X : Nat → K, (∃ i, i < sys.n ∧ X i ≠ 0) ∧
    ∀ i, i < sys.n → s * X i - sumTo sys.n (fun j => sys.A i j * X j) = 0

end Lcapy.StateSpace
