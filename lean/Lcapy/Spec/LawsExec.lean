/-
  Executable evaluation of the C01 spec `Laws` over checked Gaussian rationals: the first
  violated clause (a KCL node or a component law) or none.  It evaluates exactly the
  definitions `outflow`, `laws` of Lcapy/Spec/Laws.lean.  No Mathlib import.
-/
import Lcapy.Spec.Laws
import Lcapy.Model.GQ
namespace Lcapy.MNA
open Lcapy

inductive LawsVerdict where
  | ok
  | kcl (node : Nat) (residual : GQ)
  | law (cptIndex : Nat) (branch : Nat) (residual : GQ)

/-- check `Laws kind s cs x` on nodes 1..nNodes-1 (all other nodes carry no component) -/
def checkLaws (kind : Kind) (s : GQ) (cs : List (Cpt GQ)) (x : Ix → GQ) (nNodes : Nat) : LawsVerdict :=
  let kclBad := (List.range nNodes).findSome? (fun k =>
    if k = 0 then none else
      let r := lsum (cs.map (outflow kind s x k))
      if r.isZero then none else some (LawsVerdict.kcl k r))
  match kclBad with
  | some v => v
  | none =>
    let lawBad := (cs.zipIdx).findSome? (fun (c, i) =>
      (laws kind s x c).findSome? (fun p => if p.2.isZero then none else some (LawsVerdict.law i p.1 p.2)))
    match lawBad with
    | some v => v
    | none => .ok

end Lcapy.MNA
