/-
  SPEC for property C18 -- SI dimensional analysis of electrical quantities.

  Nothing in this file is derived from Lcapy's code.  It fixes
    * the vocabulary (names of quantities, domains, unit symbols) that the translator maps the
      code's strings onto,
    * the SI dimension of every unit symbol and of every quantity, as exponent vectors over
      (volt, ampere, second)  -- volt and ampere are used instead of kg and m because every
      electrical unit Lcapy uses is a monomial in V, A and s,
    * the executable spec predicates the oracle evaluates on real Lcapy results.

  No Mathlib import (linked into the native driver).
-/
namespace Lcapy.Dim

/-! ## vocabulary -/

/-- The quantity names Lcapy uses (`Quantity.quantity`), `constant` being the table-internal
    alias of `undefined`. -/
inductive Quantity
  | undefined | constant | voltage | current | admittance | impedance | transfer
  | voltagesquared | currentsquared | admittancesquared | impedancesquared | power
  deriving DecidableEq, Repr, Inhabited

def Quantity.all : List Quantity :=
  [.undefined, .constant, .voltage, .current, .admittance, .impedance, .transfer,
   .voltagesquared, .currentsquared, .admittancesquared, .impedancesquared, .power]

def Quantity.toString : Quantity → String
  | .undefined => "undefined" | .constant => "constant" | .voltage => "voltage"
  | .current => "current" | .admittance => "admittance" | .impedance => "impedance"
  | .transfer => "transfer" | .voltagesquared => "voltagesquared"
  | .currentsquared => "currentsquared" | .admittancesquared => "admittancesquared"
  | .impedancesquared => "impedancesquared" | .power => "power"

instance : ToString Quantity := ⟨Quantity.toString⟩

def Quantity.ofString? (s : String) : Option Quantity :=
  Quantity.all.find? (fun q => q.toString == s)

/-- The domain names of `lcapy/domains.py` (blanks replaced by `_` on the wire). -/
inductive Domain
  | undefined | constant | constantTime | constantFrequencyResponse | time | laplace | fourier
  | normFourier | angularFourier | normAngularFourier | frequencyResponse
  | angularFrequencyResponse | phasor | phasorRatio | fourierNoise | angularFourierNoise
  | discreteTime | discreteFourier | Z | superposition
  deriving DecidableEq, Repr, Inhabited

def Domain.all : List Domain :=
  [.undefined, .constant, .constantTime, .constantFrequencyResponse, .time, .laplace, .fourier,
   .normFourier, .angularFourier, .normAngularFourier, .frequencyResponse,
   .angularFrequencyResponse, .phasor, .phasorRatio, .fourierNoise, .angularFourierNoise,
   .discreteTime, .discreteFourier, .Z, .superposition]

def Domain.toString : Domain → String
  | .undefined => "undefined" | .constant => "constant" | .constantTime => "constant_time"
  | .constantFrequencyResponse => "constant_frequency_response" | .time => "time"
  | .laplace => "laplace" | .fourier => "fourier" | .normFourier => "norm_fourier"
  | .angularFourier => "angular_fourier" | .normAngularFourier => "norm_angular_fourier"
  | .frequencyResponse => "frequency_response"
  | .angularFrequencyResponse => "angular_frequency_response" | .phasor => "phasor"
  | .phasorRatio => "phasor_ratio" | .fourierNoise => "fourier_noise"
  | .angularFourierNoise => "angular_fourier_noise" | .discreteTime => "discrete_time"
  | .discreteFourier => "discrete_fourier" | .Z => "Z" | .superposition => "superposition"

instance : ToString Domain := ⟨Domain.toString⟩

def Domain.ofString? (s : String) : Option Domain :=
  Domain.all.find? (fun d => d.toString == s)

/-! ## unit monomials and SI dimensions -/

/-- A unit as Lcapy stores it: a monomial in the SymPy unit symbols it uses
    (`volt ampere ohm siemens watt hertz second radian`), by exponent. -/
structure U where
  volt : Int := 0
  ampere : Int := 0
  ohm : Int := 0
  siemens : Int := 0
  watt : Int := 0
  hertz : Int := 0
  second : Int := 0
  radian : Int := 0
  deriving DecidableEq, Repr, Inhabited

namespace U
def one : U := {}
instance : Add U := ⟨fun a b => ⟨a.volt + b.volt, a.ampere + b.ampere, a.ohm + b.ohm,
  a.siemens + b.siemens, a.watt + b.watt, a.hertz + b.hertz, a.second + b.second,
  a.radian + b.radian⟩⟩
instance : Sub U := ⟨fun a b => ⟨a.volt - b.volt, a.ampere - b.ampere, a.ohm - b.ohm,
  a.siemens - b.siemens, a.watt - b.watt, a.hertz - b.hertz, a.second - b.second,
  a.radian - b.radian⟩⟩
/-- `u ** n` -/
def smul (n : Int) (u : U) : U :=
  ⟨n * u.volt, n * u.ampere, n * u.ohm, n * u.siemens, n * u.watt, n * u.hertz, n * u.second,
   n * u.radian⟩
def toList (u : U) : List Int :=
  [u.volt, u.ampere, u.ohm, u.siemens, u.watt, u.hertz, u.second, u.radian]
def ofList? : List Int → Option U
  | [a, b, c, d, e, f, g, h] => some ⟨a, b, c, d, e, f, g, h⟩
  | _ => none
def toString (u : U) : String := ",".intercalate (u.toList.map (fun i => s!"{i}"))
instance : ToString U := ⟨U.toString⟩
end U

/-- SI dimension: exponents of volt, ampere, second.  (kg·m²·s⁻³·A⁻¹ = V, so the map onto the
    seven SI base dimensions is linear and injective on this lattice.) -/
structure Dim3 where
  v : Int := 0
  a : Int := 0
  t : Int := 0
  deriving DecidableEq, Repr, Inhabited

namespace Dim3
def zero : Dim3 := {}
instance : Add Dim3 := ⟨fun x y => ⟨x.v + y.v, x.a + y.a, x.t + y.t⟩⟩
instance : Sub Dim3 := ⟨fun x y => ⟨x.v - y.v, x.a - y.a, x.t - y.t⟩⟩
def toString (d : Dim3) : String := s!"{d.v},{d.a},{d.t}"
instance : ToString Dim3 := ⟨Dim3.toString⟩
/-- the (volt, ampere) part, i.e. the dimension up to powers of time -/
def va (d : Dim3) : Int × Int := (d.v, d.a)
end Dim3

/-- SI dimension of a unit monomial: V = V, A = A, Ω = V/A, S = A/V, W = V·A, Hz = 1/s,
    s = s, rad = 1. -/
def dimU (u : U) : Dim3 :=
  ⟨u.volt + u.ohm - u.siemens + u.watt,
   u.ampere - u.ohm + u.siemens + u.watt,
   u.second - u.hertz⟩

/-- (volt, ampere) exponents of a quantity; a quantity in Lcapy is a family of related
    physical quantities that differ by powers of time (V, V/Hz, ...), so the time exponent is
    not part of it.  `undefined`/`constant` carry no electrical dimension. -/
def dimQ : Quantity → Int × Int
  | .undefined => (0, 0) | .constant => (0, 0)
  | .voltage => (1, 0) | .current => (0, 1)
  | .impedance => (1, -1) | .admittance => (-1, 1) | .transfer => (0, 0)
  | .voltagesquared => (2, 0) | .currentsquared => (0, 2)
  | .impedancesquared => (2, -2) | .admittancesquared => (-2, 2)
  | .power => (1, 1)

def addVA (x y : Int × Int) : Int × Int := (x.1 + y.1, x.2 + y.2)
def subVA (x y : Int × Int) : Int × Int := (x.1 - y.1, x.2 - y.2)

def Quantity.isDefined : Quantity → Bool
  | .undefined => false | .constant => false | _ => true

/-- The time exponent expected of the units of an expression of quantity `q` living in domain
    `d`: signals are spectral densities (one factor 1/Hz per order) exactly in the Laplace,
    Fourier and angular Fourier domains; impedance, admittance and transfer functions are
    per-second (impulse responses) exactly in the time domain; power is W everywhere (Lcapy's
    documented choice, see powermixin.py). -/
def timeExp (d : Domain) (q : Quantity) : Int :=
  let spectral := d = .laplace || d = .fourier || d = .angularFourier
  match q with
  | .voltage | .current => if spectral then 1 else 0
  | .voltagesquared | .currentsquared => if spectral then 2 else 0
  | .impedance | .admittance | .transfer => if d = .time then -1 else 0
  | .impedancesquared | .admittancesquared => if d = .time then -2 else 0
  | _ => 0

/-- SI dimension expected of a freshly made / analysis-produced expression of (domain, quantity) -/
def expectedDim (d : Domain) (q : Quantity) : Dim3 := ⟨(dimQ q).1, (dimQ q).2, timeExp d q⟩

def freshOk (d : Domain) (q : Quantity) (u : U) : Bool :=
  !q.isDefined || decide (dimU u = expectedDim d q)

/-! ## executable spec predicates (evaluated by the oracle on real Lcapy results) -/

/-- A result labelled with quantity `q` and carrying units `u` is self-consistent: the
    (V, A) exponents of its units are those of the quantity. -/
def labelOk (q : Quantity) (u : U) : Bool :=
  !q.isDefined || decide ((dimU u).va = dimQ q)

/-- product: units multiply (SI dimension adds), quantity dimension adds -/
def mulOk (qa : Quantity) (ua : U) (qb : Quantity) (ub : U) (qr : Quantity) (ur : U) : Bool :=
  -- operands without quantity giving a result without quantity and units make no claim
  ((!qa.isDefined && !qb.isDefined && !qr.isDefined && decide (ur = U.one)) ||
    decide (dimU ur = dimU ua + dimU ub)) &&
  (!qr.isDefined || decide (dimQ qr = addVA (dimQ qa) (dimQ qb))) &&
  -- a product of defined quantities that is not dimensionless must not be labelled undefined
  (qr.isDefined || !(qa.isDefined || qb.isDefined) || decide (addVA (dimQ qa) (dimQ qb) = (0, 0)))

/-- quotient -/
def divOk (qa : Quantity) (ua : U) (qb : Quantity) (ub : U) (qr : Quantity) (ur : U) : Bool :=
  ((!qa.isDefined && !qb.isDefined && !qr.isDefined && decide (ur = U.one)) ||
    decide (dimU ur = dimU ua - dimU ub)) &&
  (!qr.isDefined || decide (dimQ qr = subVA (dimQ qa) (dimQ qb))) &&
  (qr.isDefined || !(qa.isDefined || qb.isDefined) || decide (subVA (dimQ qa) (dimQ qb) = (0, 0)))

/-- integer power `a ** n` -/
def powOk (qa : Quantity) (ua : U) (n : Int) (qr : Quantity) (ur : U) : Bool :=
  let d := dimU ua
  -- a result without quantity and without units makes no claim
  (!qr.isDefined && decide (ur = U.one)) ||
  (decide (dimU ur = ⟨n * d.v, n * d.a, n * d.t⟩) &&
   (!qr.isDefined || decide (dimQ qr = (n * (dimQ qa).1, n * (dimQ qa).2))))

/-- A sum/difference/comparison must be refused when the operands carry different defined
    quantities, or live in different non-constant domains. -/
def mustRefuse (qa qb : Quantity) (constA constB : Bool) (sameDomain : Bool) : Bool :=
  (qa.isDefined && qb.isDefined && qa != qb) || (!constA && !constB && !sameDomain)

/-- outcome of `a + b` (or `-`): `refused`, or a result with quantity/units -/
def addOk (qa : Quantity) (ua : U) (qb : Quantity) (ub : U) (constA constB sameDomain : Bool)
    (refused : Bool) (qr : Quantity) (ur : U) : Bool :=
  if mustRefuse qa qb constA constB sameDomain then refused
  else refused ||
    -- an accepted sum keeps the defined quantity of its operands and is labelled consistently
    ((!qa.isDefined || qr == qa) && (!qb.isDefined || qr == qb) && labelOk qr ur)

/-- two phasors (or two phasor ratios) at different angular frequencies live in different domains:
    unless one of them is zero their sum / difference must be refused and they never compare equal -/
def omegaOk (bothPhasor sameOmega anyZero refused : Bool) : Bool :=
  !(bothPhasor && !sameOmega && !anyZero) || refused

/-- `a == b` must be False whenever the sum must be refused -/
def eqOk (qa qb : Quantity) (constA constB sameDomain : Bool) (equal : Bool) : Bool :=
  !(mustRefuse qa qb constA constB sameDomain) || !equal

/-- A transform that integrates over the source domain's variable (units `var`): units change
    by exactly `var` measured in cycles (the radian never enters: `df = d omega / (2 pi)`), the
    quantity is kept. -/
def transformOk (qa : Quantity) (ua : U) (var : U) (qr : Quantity) (ur : U) : Bool :=
  decide (dimU ur = dimU ua + dimU var) && qr == qa && decide (ur.radian = ua.radian)

/-! ## domain changes (call syntax `X(t)`, `X(s)`, `X(f)`, `X(omega)`, `X(jw)`, `X(jf)` and the
    named methods), judged step by step and route against route -/

/-- the domains whose variable is a frequency: the transform into them integrates over time
    (units x s), the transform out of them back to time integrates over frequency in cycles,
    `df = d omega / (2 pi)` (units x Hz) -- never over rad/s -/
def Domain.isFrequencyLike : Domain → Bool
  | .laplace | .fourier | .angularFourier | .frequencyResponse | .angularFrequencyResponse
  | .normFourier | .normAngularFourier => true
  | _ => false

/-- the normalised-frequency domains (F = f Delta_t, Omega = omega Delta_t): like the
    frequency-response domains Lcapy gives signals there the units of the time-domain signal -/
def Domain.isNormalised : Domain → Bool
  | .normFourier | .normAngularFourier => true
  | _ => false

/-- the frequency-response domains, where Lcapy gives signals (voltage, current and their
    squares) the units of the time-domain signal instead of a spectral density -/
def Domain.isResponse : Domain → Bool
  | .frequencyResponse | .angularFrequencyResponse => true
  | _ => false

def Quantity.isSignalLike : Quantity → Bool
  | .voltage | .current | .voltagesquared | .currentsquared => true
  | _ => false

/-- the product quantities: their class defaults describe products of spectra (V^2/Hz^2, W), not
    transforms of products, so a rebuild with class defaults changes their time exponent
    (recorded observation, DESIGN.md C18); only the quantity and radian clauses apply to them -/
def Quantity.isProduct : Quantity → Bool
  | .power | .voltagesquared | .currentsquared | .impedancesquared | .admittancesquared => true
  | _ => false

/-- angle-aware equality of units: same SI dimension and same power of the radian -/
def sameUnits (u w : U) : Bool := decide (dimU u = dimU w) && decide (u.radian = w.radian)

/-- a transform that SUMS over samples (z-transform, DFT, DTFT as Lcapy defines it, without the
    factor Delta_t) or inverts such a sum keeps the quantity and the units (same SI dimension, same
    power of the radian) -/
def sampleOk (qa : Quantity) (ua : U) (qr : Quantity) (ur : U) : Bool := qr == qa && sameUnits ua ur

/-- one domain change `src → dst` of an expression of quantity `qa` and units `ua` giving
    quantity `qr`, units `ur`:
    the quantity is kept; the radian never enters; time → frequency-like multiplies by seconds,
    frequency-like → time by hertz, frequency-like → frequency-like (a substitution) by nothing.
    The dimension clause is not applied to expressions without quantity, to the product
    quantities, and to signals entering or leaving a frequency-response or normalised-frequency
    domain (Lcapy's convention there is judged by route independence instead). -/
def stepOk (src dst : Domain) (qa : Quantity) (ua : U) (qr : Quantity) (ur : U) : Bool :=
  qr == qa && decide (ur.radian = ua.radian) &&
  (!qa.isDefined || qa.isProduct ||
    (qa.isSignalLike && (src.isResponse || dst.isResponse || src.isNormalised || dst.isNormalised)) ||
    (if src = .time && dst.isFrequencyLike then decide (dimU ur = dimU ua + ⟨0, 0, 1⟩)
     else if src.isFrequencyLike && dst = .time then decide (dimU ur = dimU ua - ⟨0, 0, 1⟩)
     else if src.isFrequencyLike && dst.isFrequencyLike then decide (dimU ur = dimU ua)
     else if src = dst then decide (dimU ur = dimU ua)
     else true))

end Lcapy.Dim
