/-
  C12 spec: the formal class of two-sided signals / spectra and the formal bilateral Fourier
  transform on it.

  One expression language `E` is used for both sides (it is closed under the transform):
  a finite sum of terms

      c · e^{j2π·ph} · e^{j2π·th·x} · K(a·x + b)          (a ≠ 0)

  where `K` ranges over the atoms below.  Parameters are exact rationals; `π` is carried as a
  rational-valued *indeterminate* (`pi : Rat`): every statement proved for all `pi` is a polynomial
  identity in π and therefore holds for the real π.  (The only facts about the real π that are
  used are `e^{j2πn} = 1` for integer n, in `FourierExec.sample`, and positivity, for `|π| = π`.)

  The transform is defined term-wise from the table of formal pairs `ftKind` together with the
  similarity / shift / modulation rules (`ftTerm`).  For the atoms that have an integral the pair is
  anchored to Mathlib's integral in `Proofs/FourierAnchors.lean`; constants, steps, signum, powers and
  deltas are *formal generalised-function pairs* (no integral exists) -- see `ft_generalised_partial`.
  No Mathlib import.
-/
namespace Lcapy.Fourier

/-- Gaussian rationals -/
structure CQ where
  re : Rat
  im : Rat
deriving DecidableEq, Repr

namespace CQ
def ofRat (r : Rat) : CQ := ⟨r, 0⟩
def I : CQ := ⟨0, 1⟩
instance : OfNat CQ 0 := ⟨⟨0, 0⟩⟩
instance : OfNat CQ 1 := ⟨⟨1, 0⟩⟩
instance : Add CQ := ⟨fun x y => ⟨x.re + y.re, x.im + y.im⟩⟩
instance : Sub CQ := ⟨fun x y => ⟨x.re - y.re, x.im - y.im⟩⟩
instance : Neg CQ := ⟨fun x => ⟨-x.re, -x.im⟩⟩
instance : Mul CQ := ⟨fun x y => ⟨x.re * y.re - x.im * y.im, x.re * y.im + x.im * y.re⟩⟩
def normSq (x : CQ) : Rat := x.re * x.re + x.im * x.im
/-- inverse; `inv 0 = 0` (totalised) -- every use is guarded by a `normSq ≠ 0` test -/
def inv (x : CQ) : CQ := ⟨x.re / x.normSq, -x.im / x.normSq⟩
instance : Div CQ := ⟨fun x y => x * y.inv⟩
def smul (r : Rat) (x : CQ) : CQ := ⟨r * x.re, r * x.im⟩
def npow (x : CQ) : Nat → CQ
  | 0 => 1
  | n + 1 => npow x n * x
def isZero (x : CQ) : Bool := x.re == 0 && x.im == 0
end CQ

def rabs (x : Rat) : Rat := if x < 0 then -x else x
def rsgn (x : Rat) : Rat := if x < 0 then -1 else 1
def fact : Nat → Nat
  | 0 => 1
  | n + 1 => (n + 1) * fact n

/-- atoms `K(y)` -/
inductive Kind
  | one                       -- 1
  | delta (n : Nat)           -- δ^{(n)}(y)
  | pw (n : Nat)              -- y^n
  | inv1                      -- 1/y   (principal value)
  | inv2                      -- 1/y²
  | sgn                       -- sign(y)
  | step                      -- u(y)
  | absx                      -- |y|
  | ramp                      -- y·u(y)
  | rect | tri | sinc | sinc2 -- rect(y), tri(y), sin(πy)/(πy) and its square
  | sincu                     -- sin(y)/y = sinc(y/π)   (unnormalised sinc)
  | trap (al : Rat)           -- trapezoid trap(y, α), 0 < α ≤ 1: 1 for |y| ≤ (1−α)/2, 0 for |y| ≥ (1+α)/2, linear between
                              --   (= rect ∗ (1/α)rect(·/α); α → 0: rect, α = 1: tri)
  | sincp (al : Rat)          -- sinc(y)·sinc(α y), the spectrum of the trapezoid
  | gauss                     -- e^{-π y²}
  | expu (k : Nat) (al : CQ)  -- y^k e^{-α y} u(y)          (Re α > 0 for the integral to exist)
  | cpole (n : Nat) (al : CQ) -- (α + j2π y)^{-n}
deriving DecidableEq, Repr

structure Term where
  c : CQ
  ph : Rat
  th : Rat
  k : Kind
  a : Rat
  b : Rat
deriving DecidableEq, Repr

abbrev E := List Term

/-- well-formed: the affine argument really depends on x -/
def Term.WF (t : Term) : Prop := t.a ≠ 0
def WF (x : E) : Prop := ∀ t ∈ x, t.a ≠ 0

/-! ### operations on the class -/
def smulT (q : CQ) (t : Term) : Term := { t with c := q * t.c }
/-- x ↦ x − τ -/
def shiftT (tau : Rat) (t : Term) : Term := { t with ph := t.ph - t.th * tau, b := t.b - t.a * tau }
/-- x ↦ σ·x -/
def scaleT (s : Rat) (t : Term) : Term := { t with th := t.th * s, a := t.a * s }
/-- multiply by e^{j2πνx} -/
def modT (nu : Rat) (t : Term) : Term := { t with th := t.th + nu }
/-- x ↦ −x -/
def reflectT (t : Term) : Term := { t with th := -t.th, a := -t.a }

def smulE (q : CQ) (x : E) : E := x.map (smulT q)
def shiftE (tau : Rat) (x : E) : E := x.map (shiftT tau)
def scaleE (s : Rat) (x : E) : E := x.map (scaleT s)
def modE (nu : Rat) (x : E) : E := x.map (modT nu)
def reflectE (x : E) : E := x.map reflectT

/-! ### the table of formal pairs:  K(x)  ⟷  Σ q · K'(s·f) -/
structure Pair where
  q : CQ
  k : Kind
  s : Rat      -- ±1 : the image is K'(s·f)
deriving DecidableEq, Repr

def j2pi (pi : Rat) : CQ := ⟨0, 2 * pi⟩

def ftKind (pi : Rat) : Kind → List Pair
  | .one => [⟨1, .delta 0, 1⟩]
  | .delta n => [⟨(j2pi pi).npow n, .pw n, 1⟩]
  | .pw n => [⟨(CQ.I * CQ.ofRat (1 / (2 * pi))).npow n, .delta n, 1⟩]
  | .inv1 => [⟨⟨0, -pi⟩, .sgn, 1⟩]
  | .inv2 => [⟨CQ.ofRat (-2 * pi * pi), .absx, 1⟩]
  | .sgn => [⟨⟨0, -1 / pi⟩, .inv1, 1⟩]
  | .step => [⟨CQ.ofRat (1 / 2), .delta 0, 1⟩, ⟨⟨0, -1 / (2 * pi)⟩, .inv1, 1⟩]
  | .absx => [⟨CQ.ofRat (-1 / (2 * pi * pi)), .inv2, 1⟩]
  | .ramp => [⟨CQ.ofRat (-1 / (4 * pi * pi)), .inv2, 1⟩, ⟨⟨0, 1 / (4 * pi)⟩, .delta 1, 1⟩]
  | .rect => [⟨1, .sinc, 1⟩]
  | .sinc => [⟨1, .rect, 1⟩]
  | .tri => [⟨1, .sinc2, 1⟩]
  | .sinc2 => [⟨1, .tri, 1⟩]
  | .gauss => [⟨1, .gauss, 1⟩]
  | .sincu => [⟨CQ.ofRat pi, .rect, pi⟩]             -- sin(t)/t ⟷ π·rect(πf)
  | .trap al => [⟨1, .sincp al, 1⟩]                   -- unit area: the spectrum is 1 at f = 0
  | .sincp al => [⟨1, .trap al, 1⟩]
  | .expu k al => [⟨CQ.ofRat (fact k), .cpole (k + 1) al, 1⟩]
  | .cpole 0 _ => [⟨1, .delta 0, 1⟩]
  | .cpole (n + 1) al => [⟨CQ.ofRat (1 / (fact n : Rat)), .expu n al, -1⟩]

/-- transform of one term:
    F{ c e^{j2πph} e^{j2πθx} K(ax+b) }(f) = c/|a| · e^{j2π(ph − θb/a)} · e^{j2π(b/a)f} · K̂(f/a − θ/a) -/
def ftTerm (pi : Rat) (t : Term) : E :=
  (ftKind pi t.k).map fun p =>
    { c := CQ.smul (1 / rabs t.a) (t.c * p.q)
      ph := t.ph - t.th * t.b / t.a
      th := t.b / t.a
      k := p.k
      a := p.s / t.a
      b := -(p.s * t.th / t.a) }

/-- the formal bilateral transform  X(f) = ∫ x(t) e^{-j2πft} dt  on the class -/
def ft (pi : Rat) (x : E) : E := x.flatMap (ftTerm pi)

/-- the formal inverse transform  x(t) = ∫ X(f) e^{+j2πft} df :  reflection of the forward one -/
def ift (pi : Rat) (x : E) : E := reflectE (ft pi x)

/-! ### frequency variables:  v_D = k_D · f,  k_f = 1, k_ω = 2π, k_F = Δt, k_Ω = 2πΔt -/
inductive Dom | f | omega | F | Omega
deriving DecidableEq, Repr

/-- exponent vector (of 2, π, Δt) of k_D -/
def Dom.expo : Dom → Int × Int × Int
  | .f => (0, 0, 0)
  | .omega => (1, 1, 0)
  | .F => (0, 0, 1)
  | .Omega => (1, 1, 1)

def zpow (x : Rat) (n : Int) : Rat := if n < 0 then 1 / x ^ n.natAbs else x ^ n.natAbs
def monomial (pi dt : Rat) (e : Int × Int × Int) : Rat := zpow 2 e.1 * zpow pi e.2.1 * zpow dt e.2.2
def Dom.k (pi dt : Rat) (d : Dom) : Rat := monomial pi dt d.expo

/-- spectrum as a function of the variable of domain `d`:  X_D(v) = X_f(v / k_D) -/
def ftDom (pi dt : Rat) (d : Dom) (x : E) : E := scaleE (1 / d.k pi dt) (ft pi x)
/-- inverse transform of an expression given in the variable of domain `d` -/
def iftDom (pi dt : Rat) (d : Dom) (g : E) : E := ift pi (scaleE (d.k pi dt) g)
/-- re-expression of a domain-`d` spectrum in the variable of domain `e`: v_D = (k_D/k_E) v_E -/
def convDom (pi dt : Rat) (d e : Dom) (g : E) : E := scaleE (d.k pi dt / e.k pi dt) g

/-! ### causal ExpPoly and the Laplace transform (for `fourier_is_laplace_on_jw`) -/
/-- Σ c · t^k e^{-α t} u(t) -/
structure EPTerm where
  c : CQ
  k : Nat
  al : CQ
deriving DecidableEq, Repr

def EPTerm.toTerm (p : EPTerm) : Term := ⟨p.c, 0, 0, .expu p.k p.al, 1, 0⟩
/-- unilateral Laplace transform  Σ c·k!/(s+α)^{k+1}  evaluated at `s` -/
def laplaceAt (s : CQ) (x : List EPTerm) : CQ :=
  (x.map fun p => p.c * CQ.ofRat (fact p.k) * ((s + p.al).npow (p.k + 1)).inv).foldr (· + ·) 0

/-! ### structural form of table entries (shared by the generated table of the code and by the spec)

  coefficient `(reN + j·imN)/den · π^piPow`, atom `k(scale · v)` with `scale = scN/scD · π^scPi` and
  `v` the conjugate variable written as `sf` (`useSf`, sign-flipped in the inverse direction) or as the raw `f`. -/
structure GTerm where
  reN : Int
  imN : Int
  den : Nat
  piPow : Int
  k : Kind
  useSf : Bool
  scN : Int
  scD : Nat
  scPi : Int
deriving DecidableEq, Repr

structure GEntry where
  kind : Kind
  src : String
  terms : List GTerm
deriving DecidableEq, Repr

structure GConv where
  src : Dom
  dst : Option Dom      -- none: to the time domain (substitution performed before the inverse transform)
  e2 : Int
  epi : Int
  edt : Int
  returnsSelf : Bool
deriving DecidableEq, Repr

def GTerm.coef (pi : Rat) (g : GTerm) : CQ :=
  CQ.smul (zpow pi g.piPow) ⟨(g.reN : Rat) / (g.den : Rat), (g.imN : Rat) / (g.den : Rat)⟩
def GTerm.scale (pi : Rat) (g : GTerm) : Rat := (g.scN : Rat) / (g.scD : Rat) * zpow pi g.scPi

/-- value of a table branch as an element of `E` in the conjugate variable; `inv` selects the inverse transformer
    (`sf = -f`) -/
def GTerm.toTerm (pi : Rat) (inv : Bool) (g : GTerm) : Term :=
  { c := g.coef pi, ph := 0, th := 0, k := g.k, a := (if g.useSf && inv then -1 else 1) * g.scale pi, b := 0 }
def entryE (pi : Rat) (inv : Bool) (ts : List GTerm) : E := ts.map (GTerm.toTerm pi inv)

/-- the spec's formal pairs for the non-parametrised atoms, in structural form (every argument is `sf`) -/
def pairG : Kind → Option (List GTerm)
  | .pw 1 => some [⟨0, 1, 2, -1, .delta 1, true, 1, 1, 0⟩]
  | .pw 2 => some [⟨-1, 0, 4, -2, .delta 2, true, 1, 1, 0⟩]
  | .absx => some [⟨-1, 0, 2, -2, .inv2, true, 1, 1, 0⟩]
  | .sgn => some [⟨0, -1, 1, -1, .inv1, true, 1, 1, 0⟩]
  | .step => some [⟨1, 0, 2, 0, .delta 0, true, 1, 1, 0⟩, ⟨0, -1, 2, -1, .inv1, true, 1, 1, 0⟩]
  | .inv1 => some [⟨0, -1, 1, 1, .sgn, true, 1, 1, 0⟩]
  | .inv2 => some [⟨-2, 0, 1, 2, .absx, true, 1, 1, 0⟩]
  | .ramp => some [⟨-1, 0, 4, -2, .inv2, true, 1, 1, 0⟩, ⟨0, 1, 4, -1, .delta 1, true, 1, 1, 0⟩]
  | .sinc => some [⟨1, 0, 1, 0, .rect, true, 1, 1, 0⟩]
  | .sinc2 => some [⟨1, 0, 1, 0, .tri, true, 1, 1, 0⟩]
  | .rect => some [⟨1, 0, 1, 0, .sinc, true, 1, 1, 0⟩]
  | .tri => some [⟨1, 0, 1, 0, .sinc2, true, 1, 1, 0⟩]
  | .sincu => some [⟨1, 0, 1, 1, .rect, true, 1, 1, 1⟩]
  | _ => none

/-- parity of an atom: `some true` even, `some false` odd, `none` neither -/
def Kind.parity : Kind → Option Bool
  | .one | .inv2 | .absx | .rect | .tri | .sinc | .sinc2 | .gauss | .sincu | .trap _ | .sincp _ => some true
  | .inv1 | .sgn => some false
  | .delta n | .pw n => some (n % 2 == 0)
  | _ => none

/-- sign-canonical form of a structural term for the direction `inv`:
    (coefficient sign, |argument sign|) after moving the sign of the argument out of an even / odd atom -/
def GTerm.canon (inv : Bool) (g : GTerm) : GTerm × Bool :=
  -- returns the term with `useSf := true` and a flag "argument is −v" that remains when the atom has no parity
  let neg := g.useSf && inv        -- the argument carries a minus sign
  match g.k.parity with
  | some true => ({ g with useSf := true }, false)
  | some false => ({ g with useSf := true, reN := if neg then -g.reN else g.reN, imN := if neg then -g.imN else g.imN }, false)
  | none => ({ g with useSf := true }, neg)

/-- reflection f ↦ −f of a structural term of direction `inv`, in canonical form -/
def GTerm.canonReflected (inv : Bool) (g : GTerm) : GTerm × Bool :=
  let neg := !(g.useSf && inv)
  match g.k.parity with
  | some true => ({ g with useSf := true }, false)
  | some false => ({ g with useSf := true, reN := if neg then -g.reN else g.reN, imN := if neg then -g.imN else g.imN }, false)
  | none => ({ g with useSf := true }, neg)

/-! ### structural table checks (decidable; evaluated by `decide` in Props/C12 and by the driver) -/

/-- the inverse-direction value of a table branch is the reflection f ↦ −f of its forward value -/
def entryInverseOk (e : GEntry) : Bool := e.terms.all fun g => g.canon true == g.canonReflected false

/-- the forward value of a table branch is the spec's formal pair of the atom it matches (order-insensitive) -/
def entryForwardOk (e : GEntry) : Bool :=
  match pairG e.kind with
  | none => false
  | some l =>
    let c := e.terms.map (fun g => (g.canon false).1)
    let d := l.map (fun g => (g.canon false).1)
    c.length == d.length && c.all (fun g => d.contains g) && d.all (fun g => c.contains g)

/-- a conversion row substitutes v_src = (k_src/k_dst)·v_dst  (dst = none: v_src = k_src·f before the inverse transform) -/
def convOk (c : GConv) : Bool :=
  let s := c.src.expo
  let d : Int × Int × Int := match c.dst with | some e => e.expo | none => (0, 0, 0)
  if c.returnsSelf then c.dst == some c.src
  else c.e2 == s.1 - d.1 && c.epi == s.2.1 - d.2.1 && c.edt == s.2.2 - d.2.2

/-- location and weight of  c·δ^{(n)}(a x + b) = c/(|a| aⁿ) · δ^{(n)}(x + b/a) -/
def deltaLoc (t : Term) : Rat := -t.b / t.a
def deltaWeight (n : Nat) (t : Term) : CQ := CQ.smul (1 / (rabs t.a * t.a ^ n)) t.c

/-- value at frequency `f` of the rational part (the `cpole` terms without phase factors) of a spectrum -/
def Term.ratValue (pi f : Rat) (t : Term) : CQ :=
  match t.k with
  | .cpole n al => t.c * ((al + ⟨0, 2 * pi * (t.a * f + t.b)⟩).npow n).inv
  | _ => 0
def ratValue (pi f : Rat) (x : E) : CQ := (x.map (Term.ratValue pi f)).foldr (· + ·) 0

/-- sign-canonical form of a term: the sign of the argument moved out of an even / odd atom -/
def canonT (t : Term) : Term :=
  match t.k.parity with
  | some true => { t with a := rabs t.a, b := rsgn t.a * t.b }
  | some false => { t with c := CQ.smul (rsgn t.a) t.c, a := rabs t.a, b := rsgn t.a * t.b }
  | none => t

end Lcapy.Fourier
