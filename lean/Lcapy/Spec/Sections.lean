/-
  SPEC for property C07 (two-port part): the physical meaning of series / shunt elements,
  L / T / Pi networks, and of connecting two two-ports, stated on port quantities
  (V1, I1, V2, I2; currents flow INTO the + terminal of each port, as in Spec/TwoPort.lean).
  Nothing here mentions matrices.  No Mathlib import.
-/
import Lcapy.Spec.TwoPort
namespace Lcapy.Spec
variable {K : Type} [Add K] [Mul K] [Neg K] [Sub K]

/-- a one-port (relation R on (v, i), i into its + terminal) connected between port-1 + and port-2 +, the −
    terminals joined.  Its + terminal is at the OUTPUT side -- the orientation of the V2b source in the
    docstring diagram of `TwoPortBModel`, and what `Series._net_make` draws (`OP._net_make(netlist, n3, n1)`):
    v = V2 − V1 and the current into its + terminal is I2 = −I1. -/
def SeriesElem (R : K → K → Prop) (p : Port K) : Prop := p.I2 = -p.I1 ∧ R (p.V2 - p.V1) (-p.I1)

/-- `SeriesAlt`: the one-port sits in the BOTTOM rail (`OP._net_make(netlist, n2, n4)`: + node at the − terminal of
    port 1, − node at the − terminal of port 2), the + terminals are joined.  Then V2 − V1 = V(n2) − V(n4) is the
    voltage across the one-port and the current into its + node is the return current −I1. -/
def SeriesAltElem (R : K → K → Prop) (p : Port K) : Prop := p.I2 = -p.I1 ∧ R (p.V2 - p.V1) (-p.I1)

/-- a one-port connected across both ports (+ terminals joined, − terminals joined) -/
def ShuntElem (R : K → K → Prop) (p : Port K) : Prop := p.V2 = p.V1 ∧ R p.V1 (p.I1 + p.I2)

def impRel (Z : K) (v i : K) : Prop := v = Z * i
def admRel (Y : K) (v i : K) : Prop := i = Y * v

/-- L network: Z1 in series from port 1, then Z2 across port 2 -/
def LNet (Z1 Z2 : K) (p : Port K) : Prop := p.V1 - p.V2 = Z1 * p.I1 ∧ p.V2 = Z2 * (p.I1 + p.I2)
/-- the same with the shunt arm given by its admittance -/
def LNetY (Z1 Y2 : K) (p : Port K) : Prop := p.V1 - p.V2 = Z1 * p.I1 ∧ p.I1 + p.I2 = Y2 * p.V2

/-- T network: Z1 and Z3 in the series arms, Z2 from the middle node (voltage vm) to the common rail -/
def TNet (Z1 Z2 Z3 : K) (p : Port K) : Prop :=
  ∃ vm, p.V1 - vm = Z1 * p.I1 ∧ p.V2 - vm = Z3 * p.I2 ∧ vm = Z2 * (p.I1 + p.I2)
def TNetY (Z1 Y2 Z3 : K) (p : Port K) : Prop :=
  ∃ vm, p.V1 - vm = Z1 * p.I1 ∧ p.V2 - vm = Z3 * p.I2 ∧ p.I1 + p.I2 = Y2 * vm

/-- Pi network: Z1 across port 1, Z3 across port 2, Z2 between the + terminals (current is from 1 to 2) -/
def PiNet (Z1 Z2 Z3 : K) (p : Port K) : Prop :=
  ∃ is, p.V1 - p.V2 = Z2 * is ∧ p.V1 = Z1 * (p.I1 - is) ∧ p.V2 = Z3 * (p.I2 + is)
def PiNetY (Y1 Z2 Y3 : K) (p : Port K) : Prop :=
  ∃ is, p.V1 - p.V2 = Z2 * is ∧ p.I1 - is = Y1 * p.V1 ∧ p.I2 + is = Y3 * p.V2

/-- the network seen from the other side -/
def mirror (p : Port K) : Port K := ⟨p.V2, p.I2, p.V1, p.I1⟩

/-- cascade: port 2 of the first stage drives port 1 of the second -/
def CascadeP (p q r : Port K) : Prop :=
  q.V1 = p.V2 ∧ q.I1 = -p.I2 ∧ r.V1 = p.V1 ∧ r.I1 = p.I1 ∧ r.V2 = q.V2 ∧ r.I2 = q.I2

/-- B model with independent sources (docstring of `TwoPortBModel`):
    V2 = B11 V1 + B12 I1 + V2b,  −I2 = B21 V1 + B22 I1 + I2b -/
def relBs (m : M2 K) (V2b I2b : K) (p : Port K) : Prop :=
  p.V2 = m.a11 * p.V1 + m.a12 * p.I1 + V2b ∧ -p.I2 = m.a21 * p.V1 + m.a22 * p.I1 + I2b

/-- parallel–parallel connection: same voltages, currents add -/
def ParConn (p q r : Port K) : Prop :=
  r.V1 = p.V1 ∧ r.V1 = q.V1 ∧ r.V2 = p.V2 ∧ r.V2 = q.V2 ∧ r.I1 = p.I1 + q.I1 ∧ r.I2 = p.I2 + q.I2
/-- series–series connection: same currents (port condition), voltages add -/
def SerConn (p q r : Port K) : Prop :=
  r.I1 = p.I1 ∧ r.I1 = q.I1 ∧ r.I2 = p.I2 ∧ r.I2 = q.I2 ∧ r.V1 = p.V1 + q.V1 ∧ r.V2 = p.V2 + q.V2
/-- hybrid connection: inputs in series, outputs in parallel -/
def HybConn (p q r : Port K) : Prop :=
  r.I1 = p.I1 ∧ r.I1 = q.I1 ∧ r.V2 = p.V2 ∧ r.V2 = q.V2 ∧ r.V1 = p.V1 + q.V1 ∧ r.I2 = p.I2 + q.I2
/-- inverse hybrid connection: inputs in parallel, outputs in series -/
def InvHybConn (p q r : Port K) : Prop :=
  r.V1 = p.V1 ∧ r.V1 = q.V1 ∧ r.I2 = p.I2 ∧ r.I2 = q.I2 ∧ r.I1 = p.I1 + q.I1 ∧ r.V2 = p.V2 + q.V2

end Lcapy.Spec
