/-
  Formal causal signals and their formal unilateral Laplace transform (lower limit 0⁻).
  Shared by C09 (forward transform), C10 (inverse transform) and C02 (time-domain responses).
  No Mathlib import: linked into the native drivers, instantiated at `Rat` and at the Gaussian
  rationals `GQ` (Model/ExpPoly.lean).

  A signal is a finite sum of basis terms

      ep c k p d   =  c · (t−d)^k / k! · e^{p (t−d)} · u(t−d)
      dl c n d     =  c · δ^{(n)}(t−d)                       (n-th derivative of the Dirac delta)

  with delay `d ≥ 0` (predicate `Causal`).  The transform is defined term-wise:

      L{ep c k p d}(s) = c · E(−s d) / (s−p)^{k+1}          L{dl c n d}(s) = c · s^n · E(−s d)

  where `E : K → K` stands for the exponential function.  Theorems about `L` are stated for an
  arbitrary `E` (those about delays assume `E (x+y) = E x * E y`), so they hold both for the real
  exponential and for the driver's stand-in, in which `exp(−s·T0)` is an independent
  indeterminate `w` (s and e^{−s} are algebraically independent, DESIGN §2.2).  The term-wise
  definition is anchored to the defining integral `∫_{0⁻}^∞ x(t) e^{−st} dt` in
  Proofs/LaplaceAnchor.lean (`anchor_real`, `anchor_delay`, `anchor_complex_k0`).
  Values are taken at non-pole points (`NonPole f s`): the totalised `x/0 = 0` is never relied on.
-/
namespace Lcapy.Laplace

section
variable {K : Type} [Add K] [Mul K] [Neg K] [Sub K] [Div K] [OfNat K 0] [OfNat K 1]

/-- `x^n` by repeated multiplication (equals Mathlib's `x ^ n`, `Proofs/Laplace.lean: pw_eq`). -/
def pw (x : K) : Nat → K
  | 0 => 1
  | n + 1 => pw x n * x

/-- the natural number `n` in `K` (equals `(n : K)`, `ofN_eq`). -/
def ofN : Nat → K
  | 0 => 0
  | n + 1 => ofN n + 1

/-- `n!` in `K` -/
def fact : Nat → K
  | 0 => 1
  | n + 1 => fact n * ofN (n + 1)

/-- One basis term of a formal causal signal. -/
inductive Term (K : Type) where
  /-- `c · (t−d)^k/k! · e^{p(t−d)} · u(t−d)` -/
  | ep (c : K) (k : Nat) (p : K) (d : K)
  /-- `c · δ^{(n)}(t−d)` -/
  | dl (c : K) (n : Nat) (d : K)
deriving Repr, DecidableEq

/-- Formal causal signal: a finite sum of basis terms. -/
abbrev ExpPoly (K : Type) := List (Term K)

/-- transform of one term at the point `s` -/
def Term.L (E : K → K) (s : K) : Term K → K
  | .ep c k p d => c * E (-(s * d)) / pw (s - p) (k + 1)
  | .dl c n d => c * pw s n * E (-(s * d))

/-- Formal unilateral Laplace transform from 0⁻ (a delta at the origin is included). -/
def L (E : K → K) : ExpPoly K → K → K
  | [], _ => 0
  | t :: f, s => t.L E s + L E f s

/-- `s` is not a pole of (the transform of) `f`. -/
def NonPole (f : ExpPoly K) (s : K) : Prop :=
  ∀ t ∈ f, match t with
    | .ep _ _ p _ => s - p ≠ 0
    | .dl _ _ _ => True

/-- delay of a term -/
def Term.delayOf : Term K → K
  | .ep _ _ _ d => d
  | .dl _ _ d => d

/-- the signal contains no impulsive (delta) term -/
def NoDelta (f : ExpPoly K) : Prop :=
  ∀ t ∈ f, match t with
    | .ep _ _ _ _ => True
    | .dl _ _ _ => False

/-- A signal defined on the whole time axis, as seen by the unilateral transform:
    `pre` describes it for `t < 0` (terms `c · t^k/k! · e^{pt}`, no step), `post` for `t ≥ 0⁻`
    (impulses at the origin belong to `post`). -/
structure Signal (K : Type) where
  pre : List (K × Nat × K)
  post : ExpPoly K

/-- value of the `t < 0` part at `0⁻` -/
def pre0 : List (K × Nat × K) → K
  | [] => 0
  | (c, 0, _) :: r => c + pre0 r
  | (_, _ + 1, _) :: r => pre0 r

/-- The unilateral transform only looks at `t ≥ 0⁻`. -/
def Signal.L (E : K → K) (x : Signal K) (s : K) : K := Laplace.L E x.post s

end

section
variable {K : Type} [Add K] [Mul K] [Neg K] [Sub K] [Div K] [OfNat K 0] [OfNat K 1]
variable [LE K] [DecidableLE K] [DecidableEq K]

/-- all delays are non-negative -/
def Causal (f : ExpPoly K) : Prop := ∀ t ∈ f, (0 : K) ≤ t.delayOf

/-- pointwise value of the regular (non-impulsive) part at time `t` -/
def Term.at (E : K → K) (t : K) : Term K → K
  | .ep c k p d => if d ≤ t then c * pw (t - d) k / fact k * E (p * (t - d)) else 0
  | .dl _ _ _ => 0

def evalAt (E : K → K) : ExpPoly K → K → K
  | [], _ => 0
  | x :: f, t => x.at E t + evalAt E f t

/-- `f(0⁺)`: only undelayed terms of polynomial order 0 contribute. -/
def val0plus : ExpPoly K → K
  | [] => 0
  | .ep c 0 _ d :: f => (if d = 0 then c else 0) + val0plus f
  | _ :: f => val0plus f

/-- `lim_{t→∞} f(t)` when every pole is in the open left half-plane or a simple pole at the
    origin (predicate stated where it is used): the sum of the coefficients of the steps. -/
def valInf : ExpPoly K → K
  | [] => 0
  | .ep c 0 p _ :: f => (if p = 0 then c else 0) + valInf f
  | _ :: f => valInf f

end
end Lcapy.Laplace
