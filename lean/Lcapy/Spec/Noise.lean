/-
  SPEC for the noise clause of C03: each noise source k has an identifier, an amplitude spectral
  density a_k ≥ 0 and a transfer function value H_k = (re, im) to the observed quantity at the
  frequency considered.  Sources sharing an identifier are the SAME noise process: their
  contributions add in amplitude (as complex numbers); distinct identifiers are independent:
  their contributions add in power.  The reported amplitude spectral density n satisfies
      n² = Σ_groups | Σ_{k ∈ group} H_k · a_k |².
  No Mathlib import (executable over Rat).
-/
namespace Lcapy.Noise
variable {K : Type} [Add K] [Mul K] [OfNat K 0]

/-- (re, im) of Σ H_k a_k over one identifier group -/
def groupSum : List ((K × K) × K) → K × K
  | [] => (0, 0)
  | ((re, im), a) :: t => let r := groupSum t; (re * a + r.1, im * a + r.2)

def normSq (z : K × K) : K := z.1 * z.1 + z.2 * z.2

/-- total noise power spectral density -/
def noisePower : List (List ((K × K) × K)) → K
  | [] => 0
  | g :: t => normSq (groupSum g) + noisePower t

end Lcapy.Noise
