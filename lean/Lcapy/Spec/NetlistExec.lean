/-
  Executable predicates used in the C06 theorem hypotheses (and asked through the driver so that the
  harness can report how much of the generated input satisfies them).  Mathlib-free.
-/
import Lcapy.Model.Parser
namespace Lcapy.Parser

/-- bracket state of `split`: (`close_bracket`, `bracket_stack`) -/
abbrev BSt := Option Char × List (Option Char)

/-- one character inside a token: `none` when it is a delimiter at depth 0 (token boundary) or an
    unmatched `}` (error) -/
def scanStep (ds : List Char) (b : BSt) (c : Char) : Option BSt :=
  if ds.contains c && b.2.isEmpty then none
  else if some c == b.1 then
    match b.2 with
    | [] => some b
    | x :: r => some (x, r)
  else if c == '{' then some (some '}', b.1 :: b.2)
  else if c == '"' then some (some '"', b.1 :: b.2)
  else if c == '}' && b.1.isNone then none
  else some b

/-- bracket state after a run of characters that stays inside one token -/
def scan (ds : List Char) : Str → BSt → Option BSt
  | [], b => some b
  | c :: cs, b =>
    match scanStep ds b c with
    | none => none
    | some b' => scan ds cs b'

/-- a token: non-empty, and scanning it from depth 0 never meets a delimiter at depth 0 nor an
    unmatched `}`, and ends at depth 0 -/
def atomic (ds : List Char) (t : Str) : Bool :=
  !t.isEmpty && (match scan ds t (none, []) with | some (none, []) => true | _ => false)

/-- values the printer can write so that the parser reads the same value back:
    non-empty, not starting with `{` or `"`; if it contains a delimiter, every `}` in it that
    returns to the level of the enclosing brace is followed by non-delimiters only (scanner state
    returns to "inside one brace"), otherwise its own brackets balance; and no `=` outside
    brackets (it would be read as `name=value`). -/
def okValue (ds : List Char) (v : Str) : Bool :=
  !v.isEmpty && v.head? != some '{' && v.head? != some '"'
  && (if v.any ds.contains then decide (scan ds v (some '}', [none]) = some (some '}', [none]))
      else decide (scan ds v (none, []) = some (none, [])))
  && decide (split ['='] (argFormat ds v) = some [argFormat ds v])

/-! ### round 3: line-level normal form (hypotheses of `C06Line.line_roundtrip_partial`) -/

/-- a rule does not react to the given fields -/
def noMatch (fields : List Str) (r : Rule) : Bool :=
  match r.pos with
  | none => true
  | some p =>
    match fields[p]?, r.params[p]? with
    | some f, some prm => lower f != lower prm.name
    | _, _ => true

/-- the keyword rules of one type never share (position, keyword) -/
def kwDistinct : List Rule → Bool
  | [] => true
  | r :: rs =>
    (match r.pos with
     | none => true
     | some p => rs.all (fun r' => !(r'.pos == some p && (r'.params[p]?.map (fun q => lower q.name)) == (r.params[p]?.map (fun q => lower q.name)))))
    && kwDistinct rs

/-- the segments of a parameter list: nodes, optional keyword, nodes, arguments -/
structure Shape where
  A : List Param
  k : Option Param
  B : List Param
  C : List Param
  deriving Repr

def shapeOf (ps : List Param) : Shape :=
  let A := ps.takeWhile (·.kind.isNode)
  match ps.dropWhile (·.kind.isNode) with
  | [] => ⟨A, none, [], []⟩
  | q :: rest =>
    if q.kind == .keyword then ⟨A, some q, rest.takeWhile (·.kind.isNode), rest.dropWhile (·.kind.isNode)⟩
    else ⟨A, none, [], q :: rest⟩

/-- a token that needs no quoting anywhere on a line: non-empty, no delimiter, bracket, quote, `;`
    or white space -/
def plainTok (ds : List Char) (t : Str) : Bool :=
  !t.isEmpty && t.all (fun c => !ds.contains c && c != '{' && c != '}' && c != '"' && c != ';' && !isWs c)

/-- shape-based well-formedness of a rule (what the line-level theorem uses): the parameters are
    nodes, at most one keyword, nodes, then only name / value arguments; `pos` is the keyword's index;
    the keyword is a plain token; the type is alphabetic and non-empty. -/
def ruleWF2 (ds : List Char) (r : Rule) : Bool :=
  let s := shapeOf r.params
  s.C.all (·.kind.isArg)
  && r.pos == s.k.map (fun _ => s.A.length)
  && (match s.k with | some q => plainTok ds q.name | none => true)
  && !r.type.isEmpty && r.type.all Char.isAlpha && r.type != ['X','X']

/-- a rule without keyword is the first rule of its type (it is only reachable as the default) -/
def defaultFirst (g : Grammar) : Bool :=
  g.rules.all (fun r => r.pos.isSome || (rulesOf g r.type).head? == some r)

/-- everything the line-level round trip needs of the grammar table -/
def grammarWF (g : Grammar) : Bool :=
  g.ok && g.rules.all (ruleWF2 g.delimiters) && defaultFirst g
  && ((g.rules.map (·.type)).eraseDups.all (fun ty => kwDistinct (rulesOf g ty)))
  && !g.delimiters.contains '{' && !g.delimiters.contains '}' && !g.delimiters.contains '"'
  && !g.delimiters.contains '=' && !g.delimiters.contains '0' && !g.delimiters.contains ';'
  && g.delimiters.contains ' ' && g.comments.all (fun c => !c.isAlpha)

/-- a `None` in final position is only printable (by omission) if the parameter has no default -/
def trailingNoneOK : List Param → List (Option Str) → Bool
  | [p], [none] => p.default.isNone
  | _ :: ps, _ :: v :: vs => trailingNoneOK ps (v :: vs)
  | _, _ => true

/-- the printer drops the sole printed argument because it equals the component name -/
def fmtElided (ds : List Char) (relname : Str) (args : List (Option Str)) : Bool :=
  (fmtArgs ds args).length == 1 && (fmtArgs ds args).head? == some relname

/-- characters a value may consist of on a line: no `;` (the option separator is found before any
    bracket is looked at) and no white space other than the delimiters (it would be stripped) -/
def lineChars (ds : List Char) (v : Str) : Bool := v.all (fun c => c != ';' && (!isWs c || ds.contains c))

/-- the keyword a rule writes -/
def kwName (r : Rule) : Str := match (shapeOf r.params).k with | some q => q.name | none => []

def nNodes (r : Rule) : Nat := (shapeOf r.params).A.length + (shapeOf r.params).B.length

/-- rule selection finds `r` for these printed fields: no earlier rule of the type sees its keyword at
    its position (for a rule without keyword: no rule at all does) -/
def selOK (g : Grammar) (r : Rule) (fields : List Str) : Bool :=
  match r.pos with
  | some _ => ((rulesOf g r.type).takeWhile (fun r' => r' != r)).all (noMatch fields)
  | none => (rulesOf g r.type).all (noMatch fields)

/-- the name is printed as it is and read back as (type, id): a plain token without `.` that does not
    start a directive, not anonymous, the id consists of id characters, the longest type that starts
    `type ++ id` is `type` -/
def nameOK (g : Grammar) (ty cid : Str) : Bool :=
  !((cid.isEmpty && (ty == ['A'] || ty == ['W'] || ty == ['O'] || ty == ['P'])) || cid == ['?'])
  && cid.all isIdChar
  && matchType g (ty ++ cid) == some ty
  && !(match ty ++ cid with
       | c0 :: rest => (c0 == 'A' || c0 == 'O' || c0 == 'W' || c0 == 'P') && startsWith rest ['a','n','o','n']
       | [] => false)
  && plainTok g.delimiters (ty ++ cid) && (ty ++ cid).all (fun ch => ch != '.')
  && !isDirective g (ty ++ cid) && (ty ++ cid).head? != some '0'

/-- **normal form** of a component of rule `r` (the quantifier of the line-level round trip) -/
def normalCpt (g : Grammar) (r : Rule) (c : Cpt) : Bool :=
  let ds := g.delimiters
  let C := (shapeOf r.params).C
  let fields := (netTokens g c).drop 1
  let nfa := fields.length - (nNodes r + (if (shapeOf r.params).k.isSome then 1 else 0))
  c.classname == r.classname && c.ctype == r.type && c.name == r.type ++ c.cid
  && nameOK g r.type c.cid
  && c.nodes.length == nNodes r && c.nodes.all (fun n => plainTok ds n && n.head? != some '.')
  && c.kw == kwName r && (r.pos.isNone || c.kwpos == r.pos)
  && c.args.length == C.length
  && c.args.all (fun a => match a with | some v => okValue ds v && lineChars ds v | none => true)
  && trailingNoneOK C c.args
  && (C.drop nfa).all (·.optional)
  && (!fmtElided ds c.name c.args || (C.head?.bind (·.default)) == some ['n','a','m','e'])
  && selOK g r fields

/-! ### round 3: option tables in normal form (hypothesis of `C06Line.opts_format_parse`) -/

/-- an option key: non-empty, no white space, none of `, = { }`, and not `def` (which accumulates a list) -/
def optKeyOK (k : Str) : Bool :=
  !k.isEmpty && k.all (fun c => !isWs c && c != ',' && c != '=' && c != '{' && c != '}') && k != ['d','e','f']

/-- an option value without delimiters: none of `, { }`, no white space at either end, and not one of the
    four spellings that are read as a Boolean -/
def optStrOK (v : Str) : Bool :=
  v.all (fun c => c != ',' && c != '{' && c != '}')
  && (match v.head? with | some c => !isWs c | none => true)
  && (match v.getLast? with | some c => !isWs c | none => true)
  && v != ['t','r','u','e'] && v != ['T','r','u','e'] && v != ['f','a','l','s','e'] && v != ['F','a','l','s','e']

def optValOK : OptVal → Bool
  | .s v => optStrOK v
  | .b _ => true
  | .defs _ => false

/-- option table in normal form: keys and values as above, keys pairwise distinct -/
def optsNormal : Opts → Bool
  | [] => true
  | (k, v) :: rest => optKeyOK k && optValOK v && !(rest.any (fun p => p.1 == k)) && optsNormal rest

end Lcapy.Parser
