/-
  Executable predicates used in the C06 theorem hypotheses (and asked through the driver so that the
  harness can report how much of the generated input satisfies them).  Mathlib-free.
-/
import Lcapy.Model.Parser
namespace Lcapy.Parser

/-- bracket state of `split`: (`close_bracket`, `bracket_stack`) -/
abbrev BSt := Option Char × List (Option Char)

/-- one character inside a token: `none` when it is a delimiter at depth 0 (token boundary) or an
    unmatched `}` (error) -/
def scanStep (ds : List Char) (b : BSt) (c : Char) : Option BSt :=
  if ds.contains c && b.2.isEmpty then none
  else if some c == b.1 then
    match b.2 with
    | [] => some b
    | x :: r => some (x, r)
  else if c == '{' then some (some '}', b.1 :: b.2)
  else if c == '"' then some (some '"', b.1 :: b.2)
  else if c == '}' && b.1.isNone then none
  else some b

/-- bracket state after a run of characters that stays inside one token -/
def scan (ds : List Char) : Str → BSt → Option BSt
  | [], b => some b
  | c :: cs, b =>
    match scanStep ds b c with
    | none => none
    | some b' => scan ds cs b'

/-- a token: non-empty, and scanning it from depth 0 never meets a delimiter at depth 0 nor an
    unmatched `}`, and ends at depth 0 -/
def atomic (ds : List Char) (t : Str) : Bool :=
  !t.isEmpty && (match scan ds t (none, []) with | some (none, []) => true | _ => false)

/-- values the printer can write so that the parser reads the same value back:
    non-empty, not starting with `{` or `"`; if it contains a delimiter, every `}` in it that
    returns to the level of the enclosing brace is followed by non-delimiters only (scanner state
    returns to "inside one brace"), otherwise its own brackets balance; and no `=` outside
    brackets (it would be read as `name=value`). -/
def okValue (ds : List Char) (v : Str) : Bool :=
  !v.isEmpty && v.head? != some '{' && v.head? != some '"'
  && (if v.any ds.contains then decide (scan ds v (some '}', [none]) = some (some '}', [none]))
      else decide (scan ds v (none, []) = some (none, [])))
  && decide (split ['='] (argFormat ds v) = some [argFormat ds v])

end Lcapy.Parser
