/-
  SPEC for property C01: Kirchhoff's current law plus the documented defining relation of every
  component, in each analysis kind.  Nothing here says how Lcapy computes anything.

  Unknowns: `x : Ix → K` gives a voltage to every node (`Ix.node k`, ground = node 0, voltage 0)
  and a current to every named branch (`Ix.br m`).  A branch current `J` is the current that
  LEAVES THE FIRST NODE of the component INTO the component (passive convention).
  Analysis kinds: `dc`; `lap` = Laplace domain with zero initial conditions at the point `s`
  (phasor analysis at angular frequency ω is `lap` at s = jω); `ivp` = Laplace domain with
  initial conditions; `time` = resistive time-domain analysis at one instant.
  Sign conventions follow doc/overview.rst and doc/netlists.rst (see DESIGN.md Appendix A).
  No Mathlib import.
-/
namespace Lcapy.MNA

inductive Ix where
  | node (k : Nat)      -- k = 0 is ground
  | br (m : Nat)
deriving DecidableEq, Repr

inductive Kind where
  | dc | lap | ivp | time
deriving DecidableEq, Repr

/-- A netlist component with its values already evaluated in the carrier `K`.
    Node arguments are equipotential-node indices (0 = ground); `m`, `mc` … are branch indices. -/
inductive Cpt (K : Type) where
  | R    (n1 n2 : Nat) (r : K)
  | Cap  (n1 n2 : Nat) (c : K) (v0 : Option K)
  | Ind  (n1 n2 m : Nat) (l : K) (i0 : Option K) (coup : List (Nat × K × Option K))
      -- `coup`: mutual inductances (other branch, M = k·√(L·L'), initial current of the other inductor)
      -- from the `K` lines naming this inductor
  | V    (n1 n2 m : Nat) (v : K)                        -- v: the source value in the analysis domain
  | I    (n1 n2 : Nat) (i : K)
  | E    (n1 n2 n3 n4 m : Nat) (Ad Ac : K)              -- VCVS, differential and common-mode gains
  | G    (n1 n2 n3 n4 : Nat) (g : K)                    -- VCCS
  | F    (n1 n2 mc : Nat) (f : K)                       -- CCCS controlled by branch mc
  | H    (n1 n2 m mc : Nat) (h : K)                     -- CCVS controlled by branch mc
  | TF   (n1 n2 n3 n4 m : Nat) (a : K)                  -- ideal transformer, V(n1,n2) = a·V(n3,n4)
  | GY   (n1 n2 n3 n4 m1 m2 : Nat) (r : K)              -- gyrator; m1 input branch (n3,n4), m2 output branch (n1,n2)
  | AM   (n1 n2 m : Nat)                                -- ammeter
  | TR   (n1 n2 m : Nat) (a : K)                        -- transfer block: V(n2) = a·V(n1), both w.r.t. ground
  | Y    (n1 n2 : Nat) (y : K)                          -- admittance (value at the sample point)
  | Open (n1 n2 : Nat)                                  -- O, P, VM: no current
  | TPA  (n1 n2 n3 n4 m : Nat) (a11 a12 a21 a22 : K)    -- two-port, chain parameters; port 1 = (n3,n4), port 2 = (n1,n2);
                                                        -- branch m = current entering port 2 at n1
  | TPY  (n1 n2 n3 n4 : Nat) (y11 y12 y21 y22 : K)      -- two-port, admittance parameters, same ports
  | HY   (n1 n2 m n3 n4 mc : Nat) (y isc h : K)         -- CCVS controlled by the current y·V(n3,n4) − isc through an
                                                        -- admittance-type component (R, C, Y) between n3 and n4;
                                                        -- branch mc is that (reported) control current
  | SP   (n1 n2 n3 n4 m : Nat) (c1 c2 c4 : K)           -- summing point: V(n3) = c1·V(n1) + c2·V(n2) + c4·V(n4), all w.r.t. ground
deriving Repr

variable {K : Type} [Add K] [Mul K] [Neg K] [Sub K] [Div K] [OfNat K 0] [OfNat K 1] [OfNat K 2]

/-- voltage of a node: ground is zero whatever `x` says -/
def volt (x : Ix → K) : Nat → K
  | 0 => 0
  | k + 1 => x (.node (k + 1))

def vd (x : Ix → K) (a b : Nat) : K := volt x a - volt x b

/-- current through a two-terminal element from `n1` to `n2`, seen as outflow at node `k` -/
def twoTerm (n1 n2 k : Nat) (i : K) : K :=
  (if n1 = k then i else 0) - (if n2 = k then i else 0)

/-- Current through a capacitor from n1 to n2 (Laplace domain: I = sC·V − C·v0). -/
def capCurrent (kind : Kind) (s c : K) (v0 : Option K) (v : K) : K :=
  match kind with
  | .dc => 0
  | .lap => s * c * v
  | .ivp => s * c * v - (match v0 with | some v0 => c * v0 | none => 0)
  | .time => 0        -- reactive elements are refused in resistive time-domain analysis

/-- current LEAVING node `k` through component `c` -/
def outflow (kind : Kind) (s : K) (x : Ix → K) (k : Nat) : Cpt K → K
  | .R n1 n2 r => twoTerm n1 n2 k (vd x n1 n2 / r)
  | .Cap n1 n2 c v0 => twoTerm n1 n2 k (capCurrent kind s c v0 (vd x n1 n2))
  | .Ind n1 n2 m _ _ _ => twoTerm n1 n2 k (x (.br m))
  | .V n1 n2 m _ => twoTerm n1 n2 k (x (.br m))
  | .I n1 n2 i => twoTerm n1 n2 k (-i)                       -- the source pushes i out of n1 into the circuit
  | .E n1 n2 _ _ m _ _ => twoTerm n1 n2 k (x (.br m))
  | .G n1 n2 n3 n4 g => twoTerm n1 n2 k (-(g * vd x n3 n4))  -- pushes g·Vc out of n1 into the circuit
  | .F n1 n2 mc f => twoTerm n1 n2 k (f * x (.br mc))        -- draws f·Jc into n1
  | .H n1 n2 m _ _ => twoTerm n1 n2 k (x (.br m))
  | .TF n1 n2 n3 n4 m a => twoTerm n1 n2 k (x (.br m)) + twoTerm n3 n4 k (-(a * x (.br m)))
  | .GY n1 n2 n3 n4 m1 m2 _ => twoTerm n1 n2 k (x (.br m2)) + twoTerm n3 n4 k (x (.br m1))
  | .AM n1 n2 m => twoTerm n1 n2 k (x (.br m))
  | .TR _ n2 m _ => twoTerm n2 0 k (x (.br m))
  | .Y n1 n2 y => twoTerm n1 n2 k (y * vd x n1 n2)
  | .Open _ _ => 0
  | .TPA n1 n2 n3 n4 m _ _ a21 a22 =>
      -- I2 = J enters at n1; I1 = A21·V2 − A22·I2 enters at n3
      twoTerm n1 n2 k (x (.br m)) + twoTerm n3 n4 k (a21 * vd x n1 n2 - a22 * x (.br m))
  | .TPY n1 n2 n3 n4 y11 y12 y21 y22 =>
      -- I1 = Y11·V1 + Y12·V2 enters at n3; I2 = Y21·V1 + Y22·V2 enters at n1
      twoTerm n3 n4 k (y11 * vd x n3 n4 + y12 * vd x n1 n2) + twoTerm n1 n2 k (y21 * vd x n3 n4 + y22 * vd x n1 n2)
  | .SP _ _ n3 _ m _ _ _ => twoTerm n3 0 k (x (.br m))
  | .HY n1 n2 m _ _ _ _ _ _ => twoTerm n1 n2 k (x (.br m))

/-- sum of a list in the carrier -/
def lsum : List K → K
  | [] => 0
  | h :: t => h + lsum t

/-- voltage induced in an inductor by the currents of the inductors it is coupled to: Σ s·M·J'
    (zero initial state) -/
def mutualDrop (s : K) (x : Ix → K) (coup : List (Nat × K × Option K)) : K :=
  lsum (coup.map (fun p => s * p.2.1 * x (.br p.1)))

/-- flux left in an inductor by the INITIAL currents of the inductors it is coupled to: Σ M·i0'
    (v = L di/dt + M di'/dt transforms to sL·I − L·i0 + sM·I' − M·i0') -/
def icFlux (M : K) : Option K → K
  | some i0 => M * i0
  | none => 0

def mutualIC (coup : List (Nat × K × Option K)) : K :=
  lsum (coup.map (fun p => icFlux p.2.1 p.2.2))

/-- The defining relation(s) of a component that are not expressed by its current alone:
    pairs (branch whose current the relation determines, expression that must vanish). -/
def laws (kind : Kind) (s : K) (x : Ix → K) : Cpt K → List (Nat × K)
  | .Ind n1 n2 m l i0 coup =>
      match kind with
      | .dc => [(m, vd x n1 n2)]                                          -- a short circuit at DC
      | .lap => [(m, vd x n1 n2 - (s * l * x (.br m) + mutualDrop s x coup))]
      | .ivp => [(m, vd x n1 n2 - (s * l * x (.br m) - (match i0 with | some i0 => l * i0 | none => 0)
                                   + mutualDrop s x coup - mutualIC coup))]
      | .time => [(m, vd x n1 n2)]
  | .V n1 n2 m v => [(m, vd x n1 n2 - v)]
  | .E n1 n2 n3 n4 m Ad Ac => [(m, vd x n1 n2 - (Ad * vd x n3 n4 + Ac * ((volt x n3 + volt x n4) / 2)))]
  | .H n1 n2 m mc h => [(m, vd x n1 n2 - h * x (.br mc))]
  | .TF n1 n2 n3 n4 m a => [(m, vd x n1 n2 - a * vd x n3 n4)]
  | .GY n1 n2 n3 n4 m1 m2 r => [(m1, vd x n1 n2 + r * x (.br m1)), (m2, vd x n3 n4 - r * x (.br m2))]
  | .AM n1 n2 m => [(m, vd x n1 n2)]
  | .TR n1 n2 m a => [(m, volt x n2 - a * volt x n1)]
  | .TPA n1 n2 n3 n4 m a11 a12 _ _ => [(m, vd x n3 n4 - (a11 * vd x n1 n2 - a12 * x (.br m)))]   -- V1 = A11·V2 − A12·I2
  | .HY n1 n2 m n3 n4 mc y isc h => [(m, vd x n1 n2 - h * x (.br mc)), (mc, x (.br mc) - (y * vd x n3 n4 - isc))]
  | .SP n1 n2 n3 n4 m c1 c2 c4 => [(m, volt x n3 - (c1 * volt x n1 + c2 * volt x n2 + c4 * volt x n4))]
  | _ => []

/-- the values by which a component's law (as written above) DIVIDES are non-zero: the resistance of a resistor
    (`vd / r`).  For `R n1 n2 0` the totalised division gives current 0 -- an open circuit, not the short circuit that
    v = r·i describes -- so every statement that relies on the resistor clause of `outflow` is made under this guard
    (Props/C01Ohm.lean); the front-end rejects such netlists (`ill-formed:zero-resistance`), Lcapy reports `zoo`. -/
def Cpt.valOK : Cpt K → Prop
  | .R _ _ r => r ≠ 0
  | _ => True

def ValOK (cs : List (Cpt K)) : Prop := ∀ c ∈ cs, c.valOK

/-- KCL at every non-ground node and every component's defining relation. -/
def Laws (kind : Kind) (s : K) (cs : List (Cpt K)) (x : Ix → K) : Prop :=
  (∀ k, k ≠ 0 → lsum (cs.map (outflow kind s x k)) = 0) ∧
  (∀ c ∈ cs, ∀ p ∈ laws kind s x c, p.2 = 0)

end Lcapy.MNA
