/-
  SPEC for two-port parameter sets (property C08).
  The defining relation of each representation, read from the `equation()` method of each
  class in lcapy/twoport.py and from the usual textbook definitions; nothing here mentions how
  Lcapy converts between them.

  Sign convention: I1 flows into port 1, I2 flows into port 2.
  Wave variables (S, T): a_i = (V_i + Z0 I_i) / (2 sqrt Z0),  b_i = (V_i - Z0 I_i) / (2 sqrt Z0).
  The relations b = S a and (b1, a1) = T (a2, b2) are linear and homogeneous in the wave
  variables, so the common factor 1 / (2 sqrt Z0) cancels and is omitted.
-/
import Lcapy.Model.M2
namespace Lcapy.Spec
open Lcapy

structure Port (K : Type) where
  V1 : K
  I1 : K
  V2 : K
  I2 : K

inductive Rep where
  | A | B | G | H | S | T | Y | Z
deriving DecidableEq, Repr

variable {K : Type} [Add K] [Mul K] [Neg K] [Sub K]

/-- `lhs = M * rhs` for 2-vectors -/
def lin (m : M2 K) (l1 l2 r1 r2 : K) : Prop :=
  l1 = m.a11 * r1 + m.a12 * r2 ∧ l2 = m.a21 * r1 + m.a22 * r2

def wa1 (Z0 : K) (p : Port K) : K := p.V1 + Z0 * p.I1
def wb1 (Z0 : K) (p : Port K) : K := p.V1 - Z0 * p.I1
def wa2 (Z0 : K) (p : Port K) : K := p.V2 + Z0 * p.I2
def wb2 (Z0 : K) (p : Port K) : K := p.V2 - Z0 * p.I2

/-- the defining relation of each representation -/
def rel : Rep → M2 K → K → Port K → Prop
  | .A, m, _,  p => lin m p.V1 p.I1 p.V2 (-p.I2)
  | .B, m, _,  p => lin m p.V2 (-p.I2) p.V1 p.I1
  | .G, m, _,  p => lin m p.I1 p.V2 p.V1 p.I2
  | .H, m, _,  p => lin m p.V1 p.I2 p.I1 p.V2
  | .Y, m, _,  p => lin m p.I1 p.I2 p.V1 p.V2
  | .Z, m, _,  p => lin m p.V1 p.V2 p.I1 p.I2
  | .S, m, Z0, p => lin m (wb1 Z0 p) (wb2 Z0 p) (wa1 Z0 p) (wa2 Z0 p)
  | .T, m, Z0, p => lin m (wb1 Z0 p) (wa1 Z0 p) (wa2 Z0 p) (wb2 Z0 p)

/-- the vectors of each `equation()` as the code spells them (tie to Generated.equations) -/
def equationNames : List (String × List String × List String) :=
  [("A", ["V1", "I1"], ["V2", "-I2"]),
   ("B", ["V2", "-I2"], ["V1", "I1"]),
   ("G", ["I1", "V2"], ["V1", "I2"]),
   ("H", ["V1", "I2"], ["I1", "V2"]),
   ("S", ["b1", "b2"], ["a1", "a2"]),
   ("T", ["b1", "a1"], ["a2", "b2"]),
   ("Y", ["I1", "I2"], ["V1", "V2"]),
   ("Z", ["V1", "V2"], ["I1", "I2"])]

/-- Derived quantities: each is "out = q * in whenever the named port variable is zero". -/
inductive Derived where
  | Z1oc | Z1sc | Z2oc | Z2sc
  | Vgain12 | Vgain21 | Igain12 | Igain21
  | fwdTransadmittance | revTransadmittance | fwdTransimpedance | revTransimpedance
deriving DecidableEq, Repr

variable [OfNat K 0]

def Derived.holds (d : Derived) (q : K) (p : Port K) : Prop :=
  match d with
  | .Z1oc => p.I2 = 0 → p.V1 = q * p.I1          -- V1/I1, port 2 open
  | .Z1sc => p.V2 = 0 → p.V1 = q * p.I1          -- V1/I1, port 2 shorted
  | .Z2oc => p.I1 = 0 → p.V2 = q * p.I2
  | .Z2sc => p.V1 = 0 → p.V2 = q * p.I2
  | .Vgain12 => p.I2 = 0 → p.V2 = q * p.V1       -- V2/V1, port 2 open
  | .Vgain21 => p.I1 = 0 → p.V1 = q * p.V2       -- V1/V2, port 1 open
  | .Igain12 => p.V2 = 0 → p.I2 = q * p.I1       -- I2/I1, port 2 shorted
  | .Igain21 => p.V1 = 0 → p.I1 = q * p.I2       -- I1/I2, port 1 shorted
  | .fwdTransadmittance => p.V2 = 0 → p.I2 = q * p.V1   -- I2/V1, V2 = 0
  | .revTransadmittance => p.V1 = 0 → p.I1 = q * p.V2   -- I1/V2, V1 = 0
  | .fwdTransimpedance => p.I2 = 0 → p.V2 = q * p.I1    -- V2/I1, I2 = 0
  | .revTransimpedance => p.I1 = 0 → p.V1 = q * p.I2    -- V1/I2, I1 = 0

end Lcapy.Spec
