/-
  Executable evaluation of the C14 time-domain spec `LawsTD (sinusOps ω)` over checked rationals: the first violated
  clause (KCL at a node, or a component relation) or none.  It evaluates exactly `outflowS` / `lawsS` of
  Spec/LawsTD.lean.  A division by zero or a non-real component value makes the verdict `undef` (never "ok").
  No Mathlib import.
-/
import Lcapy.Spec.LawsTD
import Lcapy.Model.CRat
namespace Lcapy.TDS
open Lcapy Lcapy.MNA

inductive SSVerdict where
  | ok
  | kcl (node : Nat) (ra rb : CRat)
  | law (cptIndex : Nat) (branch : Nat) (ra rb : CRat)
  | undef (what : String)

def Sinus.isZero (u : Sinus CRat) : Bool := u.a.v == some 0 && u.b.v == some 0
def Sinus.isDef (u : Sinus CRat) : Bool := u.a.v.isSome && u.b.v.isSome

/-- check `LawsTD (sinusOps w) tcs x` on the nodes 1 … nNodes−1 (no component touches any other node) -/
def checkLawsSS (w : CRat) (tcs : List (SCpt CRat (Sinus CRat))) (x : Ix → Sinus CRat) (nNodes : Nat) : SSVerdict :=
  let S := sinusOps w
  let kclBad := (List.range nNodes).findSome? (fun k =>
    if k = 0 then none else
      let r := sumS S (tcs.map (outflowS S x k))
      if !r.isDef then some (SSVerdict.undef s!"kcl {k}")
      else if r.isZero then none else some (SSVerdict.kcl k r.a r.b))
  match kclBad with
  | some v => v
  | none =>
    let lawBad := (tcs.zipIdx).findSome? (fun (c, i) =>
      (lawsS S x c).findSome? (fun p =>
        if !p.2.isDef then some (SSVerdict.undef s!"law {i}")
        else if p.2.isZero then none else some (SSVerdict.law i p.1 p.2.a p.2.b)))
    match lawBad with
    | some v => v
    | none => .ok

end Lcapy.TDS
