/-
  SPEC for property C18, part 2 -- the quantity expected of a ratio of port variables.

  Every derived attribute of a two-port (Z1oc, Vgain12, forward_transadmittance, ... and the
  circuit-level `transfer`, `voltage_gain`, `current_gain`, `transimpedance`, `transadmittance`)
  is DEFINED as a ratio of two port variables (Lcapy/Spec/TwoPort.lean `Derived.holds`:
  `out = q * in` whenever a third port variable is zero).  Dimensional analysis fixes the
  quantity of such a ratio: V/V and I/I are dimensionless transfer functions, V/I is an impedance,
  I/V an admittance.  Nothing here is derived from Lcapy's code.

  No Mathlib import (linked into the native driver).
-/
import Lcapy.Spec.Dim
import Lcapy.Spec.TwoPort
namespace Lcapy.DimTP
open Lcapy.Dim

/-- the port variables of Lcapy/Spec/TwoPort.lean, plus the wave variables of the S and T
    representations -/
inductive PortVar
  | V1 | I1 | V2 | I2 | a1 | a2 | b1 | b2
  deriving DecidableEq, Repr, Inhabited

def PortVar.all : List PortVar := [.V1, .I1, .V2, .I2, .a1, .a2, .b1, .b2]

def PortVar.toString : PortVar → String
  | .V1 => "V1" | .I1 => "I1" | .V2 => "V2" | .I2 => "I2"
  | .a1 => "a1" | .a2 => "a2" | .b1 => "b1" | .b2 => "b2"

instance : ToString PortVar := ⟨PortVar.toString⟩

def PortVar.ofString? (s : String) : Option PortVar :=
  PortVar.all.find? (fun v => v.toString == s)

/-- the value of a port variable of a port state (wave variables as in Spec/TwoPort.lean, the
    common factor 1 / (2 sqrt Z0) omitted) -/
def PortVar.get {K : Type} [Add K] [Mul K] [Sub K] (Z0 : K) (p : Spec.Port K) : PortVar → K
  | .V1 => p.V1 | .I1 => p.I1 | .V2 => p.V2 | .I2 => p.I2
  | .a1 => Spec.wa1 Z0 p | .a2 => Spec.wa2 Z0 p | .b1 => Spec.wb1 Z0 p | .b2 => Spec.wb2 Z0 p

/-- (volt, ampere) exponents of a port variable: voltages are V, currents are A, the
    (unnormalised) wave variables `V ± Z0 I` are V -/
def dimPV : PortVar → Int × Int
  | .V1 | .V2 => (1, 0)
  | .I1 | .I2 => (0, 1)
  | .a1 | .a2 | .b1 | .b2 => (1, 0)

/-- the signal quantity a port variable is an instance of -/
def pvQuantity : PortVar → Quantity
  | .I1 | .I2 => .current
  | _ => .voltage

/-- THE RULE: the quantity of a ratio whose numerator and denominator have the given (V, A)
    exponents.  V/V, I/I ↦ transfer; V/I ↦ impedance; I/V ↦ admittance; nothing else is a ratio
    of two port variables. -/
def ratioQ (num den : Int × Int) : Option Quantity :=
  let d := subVA num den
  if d = (0, 0) then some .transfer
  else if d = (1, -1) then some .impedance
  else if d = (-1, 1) then some .admittance
  else none

def expectedRatio (num den : PortVar) : Option Quantity := ratioQ (dimPV num) (dimPV den)

/-- a transfer-type result `r` (quantity `q`, units `u`, living in domain `d`) that is defined as
    `num / den`: it carries a DEFINED quantity, that quantity has the dimension of the ratio, and
    its units have the SI dimension expected of that quantity in that domain (`freshOk`) -/
def ratioOk (num den : PortVar) (d : Domain) (q : Quantity) (u : U) : Bool :=
  q.isDefined && decide (dimQ q = subVA (dimPV num) (dimPV den)) &&
    expectedRatio num den == some q && freshOk d q u

/-- a matrix element (`Z11`, `H21`, ...): Lcapy returns these as plain expressions (`expr(...)`),
    which makes no claim; if a quantity IS claimed it must be the one of the ratio -/
def entryOk (num den : PortVar) (d : Domain) (q : Quantity) (u : U) : Bool :=
  !q.isDefined || ratioOk num den d q u

/-- an analysis output that is a signal (node voltage, branch current, Voc, Isc, V1oc, I2sc, ...):
    defined quantity `want`, units of that quantity in its domain -/
def signalOk (want : Quantity) (d : Domain) (q : Quantity) (u : U) : Bool :=
  q == want && q.isDefined && freshOk d q u

end Lcapy.DimTP
