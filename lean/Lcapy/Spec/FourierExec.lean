/-
  Executable observation of an element of the class `E` at a sample point: the *canonical value*.

  A generalised function of the class is observed as a finite list of entries
    regular:  v · e^{λx} · e^{μ} · e^{j2π·phase} · Π T_i(a_i x + b_i)     at the sample point x0,
              where v ∈ ℚ(j) is the exact value of all exactly evaluable factors at x0, and the
              transcendental factors (exponentials, sinc, Gaussian) are kept symbolically as the key;
    singular: weight · δ^{(n)}(x − loc).
  Two observations are equal when, for every key, the sums of the values agree (`sameObs`).
  This is the Spec predicate of the C12 oracle: Lcapy's output, canonicalised to the same entry format
  by the harness, must be the same observation as the spec transform of the raw input.
  No Mathlib import.
-/
import Lcapy.Spec.Fourier
namespace Lcapy.Fourier

inductive TK | sinc | gauss
deriving DecidableEq, Repr

structure TAtom where
  k : TK
  a : Rat      -- canonical: a > 0
  b : Rat
deriving DecidableEq, Repr

structure Entry where
  isDelta : Bool
  n : Nat          -- derivative order of the delta (0 for regular entries)
  loc : Rat        -- location of the delta (0 for regular entries)
  lam : CQ         -- e^{λ x}
  mu : CQ          -- e^{μ}
  phase : Rat      -- e^{j2π·phase}, phase ∈ [0,1) and ∉ {0,1/4,1/2,3/4} (those are folded into v)
  ts : List TAtom  -- sorted
  v : CQ
deriving DecidableEq, Repr

inductive Obs
  | ok (es : List Entry)
  | resample         -- the sample point hits a pole / discontinuity of an atom: take another point
  | unsupported      -- outside what the observation can express
deriving Repr

def tkIdx : TK → Nat | .sinc => 0 | .gauss => 1
def TAtom.le (x y : TAtom) : Bool :=
  if tkIdx x.k != tkIdx y.k then tkIdx x.k < tkIdx y.k
  else if x.a != y.a then x.a < y.a else x.b ≤ y.b
def insertT (x : TAtom) : List TAtom → List TAtom
  | [] => [x]
  | y :: ys => if x.le y then x :: y :: ys else y :: insertT x ys
def sortT (l : List TAtom) : List TAtom := l.foldr insertT []

/-- fractional part in [0,1) -/
def frac1 (x : Rat) : Rat := x - (x.floor : Rat)

/-- fold the constant phase e^{j2πph} (ph reduced mod 1; quarter turns become exact factors) -/
def foldPhase (ph : Rat) (v : CQ) : Rat × CQ :=
  let p := frac1 ph
  if p == 0 then (0, v)
  else if p == 1 / 4 then (0, CQ.I * v)
  else if p == 1 / 2 then (0, -v)
  else if p == 3 / 4 then (0, -(CQ.I * v))
  else (p, v)

/-- binomial coefficient (Pascal) -/
def binom : Nat → Nat → Nat
  | _, 0 => 1
  | 0, _ + 1 => 0
  | n + 1, k + 1 => binom n k + binom n (k + 1)

def tatom (k : TK) (a b : Rat) : TAtom := ⟨k, rabs a, rsgn a * b⟩

/-- observation of one term at x0 -/
def sampleTerm (pi x0 : Rat) (t : Term) : Obs :=
  if t.a == 0 then .unsupported else
  let y := t.a * x0 + t.b
  let lam0 : CQ := ⟨0, 2 * pi * t.th⟩
  let reg (v : CQ) (lam mu : CQ) (ts : List TAtom) : Obs :=
    if v.isZero then .ok [] else
    let (p, v') := foldPhase t.ph v
    .ok [⟨false, 0, 0, lam0 + lam, mu, p, sortT ts, v'⟩]
  match t.k with
  | .one => reg t.c 0 0 []
  | .pw n => reg (CQ.smul (y ^ n) t.c) 0 0 []
  | .inv1 => if y == 0 then .resample else reg (CQ.smul (1 / y) t.c) 0 0 []
  | .inv2 => if y == 0 then .resample else reg (CQ.smul (1 / (y * y)) t.c) 0 0 []
  | .sgn => if y == 0 then .resample else reg (CQ.smul (rsgn y) t.c) 0 0 []
  | .step => if y == 0 then .resample else reg (if y < 0 then 0 else t.c) 0 0 []
  | .absx => reg (CQ.smul (rabs y) t.c) 0 0 []
  | .ramp => reg (if y < 0 then 0 else CQ.smul y t.c) 0 0 []
  | .rect => if rabs y == 1 / 2 then .resample else reg (if rabs y < 1 / 2 then t.c else 0) 0 0 []
  | .tri => reg (if rabs y < 1 then CQ.smul (1 - rabs y) t.c else 0) 0 0 []
  | .sinc => reg t.c 0 0 [tatom .sinc t.a t.b]
  | .sinc2 => reg t.c 0 0 [tatom .sinc t.a t.b, tatom .sinc t.a t.b]
  | .gauss => reg t.c 0 0 [tatom .gauss t.a t.b]
  | .sincu => if pi == 0 then .unsupported else reg t.c 0 0 [tatom .sinc (t.a / pi) (t.b / pi)]
  | .sincp al => reg t.c 0 0 [tatom .sinc t.a t.b, tatom .sinc (al * t.a) (al * t.b)]
  | .trap al =>
      -- lcapy's `trap.eval`: foo = |y| − 1/2;  foo ≥ α/2 ↦ 0;  foo ≤ −α/2 ↦ 1;  else 1/2 − foo/α
      if al ≤ 0 then .unsupported else
      let foo := rabs y - 1 / 2
      reg (if foo ≥ al / 2 then 0 else if foo ≤ -(al / 2) then t.c else CQ.smul (1 / 2 - foo / al) t.c) 0 0 []
  | .expu k al =>
      if y == 0 then .resample
      else reg (if y < 0 then 0 else CQ.smul (y ^ k) t.c) (CQ.smul (-t.a) al) (CQ.smul (-t.b) al) []
  | .cpole n al =>
      let d : CQ := al + ⟨0, 2 * pi * y⟩
      if d.isZero then .resample else reg (t.c * (d.npow n).inv) 0 0 []
  | .delta n =>
      -- c e^{j2πph} e^{j2πθx} δ^{(n)}(a x + b) = w e^{j2πph} g(x) δ^{(n)}(x − x*),  x* = −b/a,  w = c/(|a| aⁿ),  g = e^{j2πθx}, and
      --   g δ^{(n)}(x − x*) = Σ_k (−1)^k C(n,k) g^{(k)}(x*) δ^{(n−k)}(x − x*),   g^{(k)}(x*) = (j2πθ)^k e^{j2πθx*}
      let xs := deltaLoc t
      let w := deltaWeight n t
      if w.isZero then .ok [] else
      let ks := if t.th == 0 then [0] else List.range (n + 1)
      .ok (ks.filterMap fun k =>
        let coef : CQ := CQ.smul ((-1) ^ k * (binom n k : Rat)) ((⟨0, 2 * pi * t.th⟩ : CQ).npow k)
        let v := w * coef
        if v.isZero then none else
        let (p, v') := foldPhase (t.ph + t.th * xs) v
        some ⟨true, n - k, xs, 0, 0, p, [], v'⟩)

def sample (pi x0 : Rat) (x : E) : Obs :=
  x.foldr (fun t acc =>
    match sampleTerm pi x0 t, acc with
    | .ok a, .ok b => .ok (a ++ b)
    | .resample, .unsupported => .unsupported
    | .resample, _ => .resample
    | .unsupported, _ => .unsupported
    | _, r => r) (.ok [])

def Entry.sameKey (x y : Entry) : Bool :=
  x.isDelta == y.isDelta && x.n == y.n && x.loc == y.loc && x.lam == y.lam && x.mu == y.mu
    && x.phase == y.phase && x.ts == y.ts

def keySum (k : Entry) (l : List Entry) : CQ :=
  (l.filter (fun e => e.sameKey k)).foldr (fun e s => e.v + s) 0

/-- equality of observations: for every key occurring on either side the summed values agree -/
def sameObs (x y : List Entry) : Bool :=
  (x ++ y).all fun k => keySum k x == keySum k y

/-- first key on which two observations differ (for replay files) -/
def firstDiff (x y : List Entry) : Option (Entry × CQ × CQ) :=
  ((x ++ y).find? fun k => keySum k x != keySum k y).map fun k => (k, keySum k x, keySum k y)

/-- merged canonical listing (one entry per key, zero sums dropped) -/
def mergeObs (x : List Entry) : List Entry :=
  let rec go (rest : List Entry) (seen : List Entry) (fuel : Nat) : List Entry :=
    match fuel, rest with
    | 0, _ => []
    | _, [] => []
    | fuel + 1, e :: es =>
      if seen.any (fun s => s.sameKey e) then go es seen fuel
      else
        let s := keySum e x
        if s.isZero then go es (e :: seen) fuel else { e with v := s } :: go es (e :: seen) fuel
  go x [] (x.length + 1)

end Lcapy.Fourier
