/-
  C20 -- specification of "a schematic layout honours the drawing hints".
  Nothing here mentions how Lcapy computes a layout.  No Mathlib import (linked into the driver).

  A layout is an association list  node ↦ (x, y)  of exact rationals (Lcapy's floats are snapped to
  rationals by the harness).  The hints of a netlist are a list of items:

  * `Hint a b dir len fixed` -- the property's sentence for a two-node component: the second node `b`
    lies in direction `dir` from the first node `a` on the same axis, at distance ≥ `len`
    (= `len` when `fixed`), where `len = size · node_spacing`;
  * `Body pins stretch` -- a multi-pin component: pin nodes with target offsets (already multiplied by
    size · node_spacing).  On each axis and for each ordered pair of pins with offsets `o₁ ≤ o₂` the
    placed distance is ≥ `o₂ − o₁` (stretchy) or = `o₂ − o₁` (fixed size).  Two pins with the same
    offset on an axis (a zero-length constraint) therefore get the same coordinate.

  `Satisfies L S`: every drawn node has exactly one position in `L` and every item holds.
-/
namespace Lcapy.Layout

abbrev Layout := List (String × Rat × Rat)

def Layout.count (L : Layout) (n : String) : Nat := (L.filter (fun e => e.1 == n)).length

def Layout.get (L : Layout) (n : String) : Rat × Rat :=
  match L.find? (fun e => e.1 == n) with
  | some e => e.2
  | none => (0, 0)

def Layout.x (L : Layout) (n : String) : Rat := (L.get n).1
def Layout.y (L : Layout) (n : String) : Rat := (L.get n).2

inductive Dir | right | up | left | down
deriving DecidableEq, Repr

structure Hint where
  a : String
  b : String
  dir : Dir
  len : Rat
  fixed : Bool
deriving Repr, DecidableEq

/-- distance requirement: at least `len`, exactly `len` when fixed -/
def Reach (fixed : Bool) (d len : Rat) : Prop := if fixed then d = len else len ≤ d

instance (fixed : Bool) (d len : Rat) : Decidable (Reach fixed d len) := by
  unfold Reach; exact inferInstance

def Hint.Sat (L : Layout) (h : Hint) : Prop :=
  match h.dir with
  | .right => L.y h.b = L.y h.a ∧ Reach h.fixed (L.x h.b - L.x h.a) h.len
  | .left  => L.y h.b = L.y h.a ∧ Reach h.fixed (L.x h.a - L.x h.b) h.len
  | .up    => L.x h.b = L.x h.a ∧ Reach h.fixed (L.y h.b - L.y h.a) h.len
  | .down  => L.x h.b = L.x h.a ∧ Reach h.fixed (L.y h.a - L.y h.b) h.len

structure Body where
  pins : List (String × Rat × Rat)
  stretch : Bool
deriving Repr, DecidableEq

/-- one axis, one ordered pair of pins: coordinate `c`, offsets `o` -/
def PairOk (stretch : Bool) (c₁ o₁ c₂ o₂ : Rat) : Prop :=
  o₁ ≤ o₂ → Reach (!stretch) (c₂ - c₁) (o₂ - o₁)

instance (s : Bool) (a b c d : Rat) : Decidable (PairOk s a b c d) := by
  unfold PairOk; exact inferInstance

def Body.Sat (L : Layout) (b : Body) : Prop :=
  ∀ p ∈ b.pins, ∀ q ∈ b.pins,
    PairOk b.stretch (L.x p.1) p.2.1 (L.x q.1) q.2.1 ∧ PairOk b.stretch (L.y p.1) p.2.2 (L.y q.1) q.2.2

inductive Item
  | hint (h : Hint)
  | body (b : Body)
deriving Repr, DecidableEq

def Item.Sat (L : Layout) : Item → Prop
  | .hint h => h.Sat L
  | .body b => b.Sat L

structure Spec where
  /-- the drawn nodes -/
  nodes : List String
  items : List Item
deriving Repr

/-- every drawn node has exactly one (finite, rational) position and every hint holds -/
def Satisfies (L : Layout) (S : Spec) : Prop :=
  (∀ n ∈ S.nodes, L.count n = 1) ∧ ∀ it ∈ S.items, it.Sat L

/-! ### executable checker (what the driver runs on Lcapy's positions) -/

def reachB (fixed : Bool) (d len : Rat) : Bool := if fixed then d == len else decide (len ≤ d)

def Hint.check (L : Layout) (h : Hint) : Bool :=
  match h.dir with
  | .right => (L.y h.b == L.y h.a) && reachB h.fixed (L.x h.b - L.x h.a) h.len
  | .left  => (L.y h.b == L.y h.a) && reachB h.fixed (L.x h.a - L.x h.b) h.len
  | .up    => (L.x h.b == L.x h.a) && reachB h.fixed (L.y h.b - L.y h.a) h.len
  | .down  => (L.x h.b == L.x h.a) && reachB h.fixed (L.y h.a - L.y h.b) h.len

def pairOkB (stretch : Bool) (c₁ o₁ c₂ o₂ : Rat) : Bool :=
  !(decide (o₁ ≤ o₂)) || reachB (!stretch) (c₂ - c₁) (o₂ - o₁)

def Body.check (L : Layout) (b : Body) : Bool :=
  b.pins.all fun p => b.pins.all fun q =>
    pairOkB b.stretch (L.x p.1) p.2.1 (L.x q.1) q.2.1 && pairOkB b.stretch (L.y p.1) p.2.2 (L.y q.1) q.2.2

def Item.check (L : Layout) : Item → Bool
  | .hint h => h.check L
  | .body b => b.check L

def checkPos (S : Spec) (L : Layout) : Bool :=
  S.nodes.all (fun n => L.count n == 1) && S.items.all (fun it => it.check L)

/-- first failing clause, for the replay files (diagnostic only; the verdict is `checkPos`) -/
def firstFailure (S : Spec) (L : Layout) : String :=
  match S.nodes.find? (fun n => !(L.count n == 1)) with
  | some n => s!"node:{n}:count={L.count n}"
  | none =>
    match (S.items.zipIdx).find? (fun it => !(it.1.check L)) with
    | some (.hint h, i) => s!"item:{i}:hint:{h.a}->{h.b}:{repr h.dir}"
    | some (.body b, i) => s!"item:{i}:body:{b.pins.map (·.1)}"
    | none => "none"

/-- every failing item as `index:kind:f|s` (f = fixed-size item), for the structural keys of the replay files
    (diagnostic only; the verdict is `checkPos`) -/
def failures (S : Spec) (L : Layout) : List String :=
  (S.items.zipIdx).filterMap fun it =>
    if it.1.check L then none else
    match it.1 with
    | .hint h => some s!"{it.2}:hint:{if h.fixed then "f" else "s"}"
    | .body b => some s!"{it.2}:body:{if b.stretch then "s" else "f"}"

end Lcapy.Layout
