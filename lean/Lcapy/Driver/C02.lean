/-
  Line-protocol handler for C02 (time-domain laws) over the checked Gaussian rationals.

    td.laws <full|smooth> || <netlist line> || ... || <assignment> | <assignment> | ...
        -> ok | kcl <node> <normal form of the residual> | law <cpt> <branch> <residual> | error <msg>
        Decides `LawsTFormal` (Model/TimeDomain.lean) for the given signals.
        `smooth`: every state variable is taken to start from its own value at 0⁺ (no jump at the origin): used to
        check the laws on the pre-history t < 0, whose terms are sent as undelayed `ep` items.
    td.state || <netlist lines> || <assignments>
        -> for every capacitor (voltage) / inductor (flux linkage L·i + Σ M·i'):
           <name>=<state at 0⁻>;<value at 0⁺>;<coefficient of δ(t) in its current / voltage>
    td.causal || <netlist lines> || <assignments>
        -> <all sources causal> <some initial condition given> <all signals causal with empty pre-history>
    td.evalat <s> <T0> <w> <g> <v> <g2> <u> <T> || <netlist lines> || <assignments>
        -> ok <C or L name>=<capacitor voltage / inductor current at the instant T>   (`evalAt`, exp through the stand-in E)
    td.model <s> <T0> <w> <g> <v> <g2> <u> || <netlist lines> || <assignments>
        -> ok <n> | singular | undef | diff <unknown> <model value> <transform of the signal> | slaw <clause>
        The C01 model (`Netlist.solve`, ivp analysis at the point s, source values = transforms of the waveforms)
        against the transforms of the given signals, and the s-domain spec `Laws .ivp` on those transforms.

  netlist lines: the grammar of Model/Netlist.lean, except that an independent source is written
        V<name> n1 n2 sig <items>      I<name> n1 n2 sig <items>
  assignments:  V <node> <items>   |   J <branch name> <items>
  items: `pre c k p` | `ep c k p d` | `dl c n d`   (Driver/C09.lean).
-/
import Lcapy.Model.Netlist
import Lcapy.Spec.LawsExec
import Lcapy.Model.TimeDomain
import Lcapy.Driver.C09
import Lcapy.Driver.C01
import Lcapy.Driver.C10
namespace Lcapy.Driver.C02
open Lcapy Lcapy.MNA Lcapy.Netlist Lcapy.Laplace Lcapy.TD

abbrev Q := Lcapy.Laplace.GQ

def toQ (a : Lcapy.GQ) : Q := ⟨a.v⟩
def ofQ (a : Q) : Lcapy.GQ := ⟨a.v⟩

def coupQ (coup : List (Nat × Lcapy.GQ × Option Lcapy.GQ)) : List (Nat × Q × Option Q) :=
  coup.map (fun p => (p.1, toQ p.2.1, p.2.2.map toQ))

def cptQ : Cpt Lcapy.GQ → Cpt Q
  | .R a b r => .R a b (toQ r)
  | .Cap a b c v0 => .Cap a b (toQ c) (v0.map toQ)
  | .Ind a b m l i0 coup => .Ind a b m (toQ l) (i0.map toQ) (coupQ coup)
  | .V a b m v => .V a b m (toQ v)
  | .I a b i => .I a b (toQ i)
  | .E a b c d m x y => .E a b c d m (toQ x) (toQ y)
  | .G a b c d g => .G a b c d (toQ g)
  | .F a b mc f => .F a b mc (toQ f)
  | .H a b m mc h => .H a b m mc (toQ h)
  | .TF a b c d m t => .TF a b c d m (toQ t)
  | .GY a b c d m1 m2 r => .GY a b c d m1 m2 (toQ r)
  | .AM a b m => .AM a b m
  | .TR a b m t => .TR a b m (toQ t)
  | .Y a b y => .Y a b (toQ y)
  | .Open a b => .Open a b
  | .TPA a b c d m p q r t => .TPA a b c d m (toQ p) (toQ q) (toQ r) (toQ t)
  | .TPY a b c d p q r t => .TPY a b c d (toQ p) (toQ q) (toQ r) (toQ t)
  | .SP a b c d m p q r => .SP a b c d m (toQ p) (toQ q) (toQ r)
  | .HY a b m c d mc p q r => .HY a b m c d mc (toQ p) (toQ q) (toQ r)

def isSrcName (n : String) : Bool := n.startsWith "V" || n.startsWith "I"

/-- split `V1 a b sig <items>` into the line `V1 a b step 1` and the waveform -/
def splitSrc (toks : List String) : Except String (String × Option (String × Signal Q)) :=
  match toks with
  | name :: n1 :: n2 :: "sig" :: items =>
    if isSrcName name then
      match C09.parseItems items [] [] with
      | some (pre, post) => .ok (s!"{name} {n1} {n2} step 1", some (name, ⟨pre, post⟩))
      | none => .error s!"bad-items:{name}"
    else .error s!"sig-on-non-source:{name}"
  | _ => .ok (" ".intercalate toks, none)

def splitBar (toks : List String) : List (List String) := C09.splitOn "|" toks

structure Problem where
  e : Elab
  tcs : List (String × TCpt Q)
  x : Ix → Signal Q
  assigned : List (String × Ix × Signal Q)
  reported : List (String × String × Signal Q) := []      -- (U | I, component name, signal)
  /-- time-domain reading of the netlist (`capControl`): what `td.laws`, `td.reported`, `td.state` are decided on -/
  tcsT : List (String × TCpt Q) := []
  xT : Ix → Signal Q := fun _ => ⟨[], []⟩
  extraNodes : Nat := 0
  lines : List String := []

def parseReported (toks : List String) : Except String (List (String × String × Signal Q)) :=
  (splitBar toks).filter (· ≠ []) |>.filterMapM (fun a =>
    match a with
    | kind :: n :: items =>
      if kind = "U" || kind = "I" then
        match C09.parseItems items [] [] with
        | some (pre, post) => .ok (some (kind, n, ⟨pre, post⟩))
        | none => .error s!"bad-items:{kind}:{n}"
      else .ok none
    | _ => .ok none)

def parseSigs (e : Elab) (toks : List String) : Except String (List (String × Ix × Signal Q)) :=
  (splitBar toks).filter (fun a => a ≠ [] && a.head? ≠ some "U" && a.head? ≠ some "I") |>.mapM (fun a =>
    match a with
    | "V" :: n :: items =>
      match findClass e.cls n, C09.parseItems items [] [] with
      | some i, some (pre, post) => .ok (s!"V:{n}", Ix.node i, ⟨pre, post⟩)
      | none, _ => .error s!"unknown-node:{n}"
      | _, none => .error s!"bad-items:V:{n}"
    | "J" :: b :: items =>
      match e.brs.idxOf? b, C09.parseItems items [] [] with
      | some m, some (pre, post) => .ok (s!"J:{b}", Ix.br m, ⟨pre, post⟩)
      | none, _ => .error s!"unknown-branch:{b}"
      | _, none => .error s!"bad-items:J:{b}"
    | _ => .error "bad-assignment")

def mkProblem (sections : List (List String)) : Except String Problem := do
  let lineToks := sections.dropLast
  let sigToks := sections.getLast?.getD []
  let split ← lineToks.mapM splitSrc
  let lines := split.map (·.1)
  let wav := split.filterMap (·.2)
  let e ← elaborate (.ivp 1) lines
  let tcs := e.cpts.map (fun (n, c) =>
    (n, (cptQ c, (match wav.find? (fun w => w.1 = n) with | some w => w.2 | none => (⟨[], []⟩ : Signal Q)))))
  let assigned ← parseSigs e sigToks
  let x : Ix → Signal Q := fun ix =>
    match assigned.find? (fun a => a.2.1 = ix) with
    | some a => a.2.2
    | none => ⟨[], []⟩
  let reported ← parseReported sigToks
  let (tcsT, xT, extra) := capControl e.brs e.cls.length tcs x
  pure { e := e, tcs := tcs, x := x, assigned := assigned, reported := reported, tcsT := tcsT, xT := xT, extraNodes := extra, lines := lines }

def termStr : Term Q → String
  | .ep c k p d => s!"ep {c} {k} {p} {d}"
  | .dl c n d => s!"dl {c} {n} {d}"

def polyStr (f : ExpPoly Q) : String := " ".intercalate (f.map termStr)

/-- the first two nodes of a component -/
def cptNodes : Cpt Q → Nat × Nat
  | .R a b _ => (a, b) | .Cap a b _ _ => (a, b) | .Ind a b _ _ _ _ => (a, b) | .V a b _ _ => (a, b)
  | .I a b _ => (a, b) | .E a b _ _ _ _ _ => (a, b) | .G a b _ _ _ => (a, b) | .F a b _ _ => (a, b)
  | .H a b _ _ _ => (a, b) | .TF a b _ _ _ _ => (a, b) | .GY a b _ _ _ _ _ => (a, b) | .AM a b _ => (a, b)
  | .TR a b _ _ => (a, b) | .Y a b _ => (a, b) | .Open a b => (a, b)
  | .TPA a b _ _ _ _ _ _ _ => (a, b) | .TPY a b _ _ _ _ _ _ => (a, b) | .SP a b _ _ _ _ _ _ => (a, b)
  | .HY a b _ _ _ _ _ _ _ => (a, b)

/-- current through a component from its first to its second node according to the SPEC: the outflow at a
    fictitious first node (the component re-attached between nodes 1 and 2 of a copy of the signals) -/
def throughT (x : Ix → Signal Q) (c : TCpt Q) : Option (ExpPoly Q) :=
  match c.1 with
  | .R n1 n2 r => some (smul (1 / r) (vpost x n1 n2))
  | .Y n1 n2 y => some (smul y (vpost x n1 n2))
  | .Cap n1 n2 cc v0 => some (capCurrentT x n1 n2 cc v0)
  | .I _ _ _ => some (smul (-1) c.2.post)
  | .G _ _ n3 n4 g => some (smul (-1) (smul g (vpost x n3 n4)))
  | .F _ _ mc f => some (smul f (x (.br mc)).post)
  | .Ind _ _ m _ _ _ => some (x (.br m)).post
  | .V _ _ m _ => some (x (.br m)).post
  | .E _ _ _ _ m _ _ => some (x (.br m)).post
  | .H _ _ m _ _ => some (x (.br m)).post
  | .TF _ _ _ _ m _ => some (x (.br m)).post
  | .AM _ _ m => some (x (.br m)).post
  | _ => none

def className (e : Elab) (k : Nat) : String := ((e.cls.getD k []).head?).getD "?"

def handle (toks : List String) : Option String :=
  match toks with
  | cmd :: rest =>
    if !(cmd.startsWith "td.") then none else some <| Id.run do
      match C01.splitSep rest with
      | head :: sections =>
        match mkProblem sections with
        | .error msg => s!"error {msg}"
        | .ok p =>
          let tcs := p.tcs.map (·.2)
          if cmd = "td.laws" then
            -- the whole decision (rewrites included) is the model function `tdCheck`, sound by `C02.tdCheck_sound`
            let sm := decide (head = ["smooth"])
            let tp := tdProblem sm p.e.brs p.e.cls.length p.tcs p.x
            match tdCheck sm p.e.brs p.e.cls.length p.tcs p.x with
            | none => "error inconsistent-coupling-or-node-out-of-range"
            | some .ok => "ok"
            | some (.kcl k r) => s!"kcl {className p.e k} {polyStr r}"
            | some (.law i m r) => s!"law {(tp.1.getD i ("?", (.Open 0 0, ⟨[], []⟩))).1} {p.e.brs.getD m "?"} {polyStr r}"
          else if cmd = "td.reported" then
            let bad := p.reported.findSome? (fun (kind, n, sg) =>
              match p.tcsT.find? (fun c => c.1 = n) with
              | none => some s!"error unknown-component:{n}"
              | some (_, c) =>
                if kind = "U" then
                  let (a, b) := cptNodes c.1
                  let r := nf (subP (vpost p.xT a b) sg.post)
                  if r.isEmpty then none else some s!"bad U {n} {polyStr r}"
                else
                  match throughT p.xT c with
                  | none => none
                  | some i =>
                    let r := nf (subP i sg.post)
                    if r.isEmpty then none else some s!"bad I {n} {polyStr r}")
            match bad with
            | some b => b
            | none => s!"ok {p.reported.length}"
          else if cmd = "td.state" then
            let out := p.tcsT.filterMap (fun (n, c) => match c.1 with
              | .Cap n1 n2 cc v0 =>
                  let st := stateOf v0 (vpre0 p.xT n1 n2)
                  some s!"{n}={st};{val0plus (nf (vpost p.xT n1 n2))};{impulse0 (capCurrentT p.xT n1 n2 cc v0)}"
              | .Ind n1 n2 m l i0 coup =>
                  -- flux linkage  L·i + Σ M·i'  (for an uncoupled inductor: L·i)
                  let st := l * stateOf i0 (pre0 (p.xT (.br m)).pre) +
                    lsum (coup.map (fun q => q.2.1 * stateOf q.2.2 (pre0 (p.xT (.br q.1)).pre)))
                  let now := l * val0plus (nf (p.xT (.br m)).post) +
                    lsum (coup.map (fun q => q.2.1 * val0plus (nf (p.xT (.br q.1)).post)))
                  some s!"{n}={st};{now};{impulse0 (vpost p.xT n1 n2)}"
              | _ => none)
            "ok " ++ " ".intercalate out
          else if cmd = "td.causal" then
            let srcC := tcs.all (fun c => c.2.pre.isEmpty && causalB c.2.post)
            let hasIC := tcs.any (fun c => match c.1 with
              | .Cap _ _ _ (some _) => true
              | .Ind _ _ _ _ (some _) _ => true
              | _ => false)
            let allC := p.assigned.all (fun a => a.2.2.pre.isEmpty && causalB a.2.2.post)
            s!"{srcC} {hasIC} {allC}"
          else if cmd = "td.evalat" then
            -- the SPEC function `evalAt` (Spec/Signal.lean) on the given signals at the instant T, exp read through the
            -- stand-in E: the state a switched circuit hands over at the switching instant T
            match C09.parseEPar head.dropLast, (head.getLast?.bind C09.parseGQ) with
            | some ep, some T =>
              let E := C09.mkE ep
              let out := p.tcs.filterMap (fun (n, c) => match c.1 with
                | .Cap n1 n2 _ _ => some s!"{n}={evalAt E (vpost p.x n1 n2) T}"
                | .Ind _ _ m _ _ _ => some s!"{n}={evalAt E (p.x (.br m)).post T}"
                | _ => none)
              "ok " ++ " ".intercalate out
            | _, _ => "bad-op"
          else if cmd = "td.model" then
            match C09.parseEPar head with
            | none => "bad-op"
            | some ep =>
              let E := C09.mkE ep
              let s : Q := Lcapy.Laplace.GQ.ofRat ep.s
              let scs := tcs.map (atS E s)
              -- s-dependent admittances of the front-end (a CCVS controlled by a capacitor) are taken at the point s
              let cptsAtS := match elaborate (.ivp (ofQ s)) p.lines with
                | .ok e2 => e2.cpts
                | .error _ => p.e.cpts
              let e' : Elab := { p.e with cpts := (p.tcs.zip scs).map (fun (nc, c) => (nc.1, match c with
                | .V a b m v => Cpt.V a b m (ofQ v)
                | .I a b i => Cpt.I a b (ofQ i)
                | .Cap a b cc v0 => Cpt.Cap a b (ofQ cc) (some (ofQ (stateOf v0 (vpre0 p.x a b))))
                | .Ind a b m l i0 coup => Cpt.Ind a b m (ofQ l) (some (ofQ (stateOf i0 (pre0 (p.x (.br m)).pre))))
                    (coup.map (fun q => (q.1, ofQ q.2.1, some (ofQ (stateOf q.2.2 (pre0 (p.x (.br q.1)).pre))))))
                | _ => (cptsAtS.find? (fun q => q.1 = nc.1)).map (·.2) |>.getD (.Open 0 0))) }
              let an : Analysis := .ivp (ofQ s)
              let X := transformOf E p.x s
              if scs.any (fun c => match c with
                  | .V _ _ _ v => v.v.isNone
                  | .I _ _ i => i.v.isNone
                  | _ => false) then "undef" else
              match solve an e' with
              | none => "singular"
              | some sol =>
                if !(checkSolves an e' sol) then "singular" else
                let nm (ix : Ix) : String := match ix with
                  | .node k => "V:" ++ className p.e k
                  | .br m => "J:" ++ p.e.brs.getD m "?"
                match (unknowns p.e).find? (fun ix => toQ (sol ix) ≠ X ix) with
                | some ix => if (X ix).v.isNone then "undef" else s!"diff {nm ix} {toQ (sol ix)} {X ix}"
                | none =>
                  match checkLaws .ivp (ofQ s) (e'.cpts.map (·.2)) (fun ix => ofQ (X ix)) p.e.cls.length with
                  | .ok => s!"ok {(unknowns p.e).length}"
                  | .kcl k r => s!"slaw kcl {className p.e k} {r}"
                  | .law i m r => s!"slaw law {(e'.cpts.getD i ("?", .Open 0 0)).1} {p.e.brs.getD m "?"} {r}"
          else "unknown-request"
      | [] => "bad-op"
  | [] => none

end Lcapy.Driver.C02
