/- Line-protocol handler for the phasor conversions of C14 (model + spec evaluation over Rat). -/
import Lcapy.Model.CRat
namespace Lcapy.Driver.C14
open Lcapy

/-- mirrors Lcapy.C14.toPhasor / toTime / semTime / semPhasor (Props/C14.lean) at `Rat` -/
def handle (toks : List String) : Option String :=
  match toks with
  | ["ph.toPhasor", a, b] => some <|
      match parseRat a, parseRat b with
      | some a, some b => s!"{ratToStr a} {ratToStr (-b)}"
      | _, _ => "bad-op"
  | ["ph.toTime", re, im] => some <|
      match parseRat re, parseRat im with
      | some re, some im => s!"{ratToStr re} {ratToStr (-im)}"
      | _, _ => "bad-op"
  | _ => none
end Lcapy.Driver.C14
