/- Line-protocol handler for C14: phasor conversions (interpreter of the GENERATED ACChecker tables), the time-domain
   steady-state spec `LawsTD` on reconstructed signals, and phasor-domain immittance of one-port trees.

   ph.toPhasor a b / ph.toTime re im           a·cos + b·sin ↔ re + j·im  (Model/Phasor.lean `toPh`, `toTime`)
   ph.term <cos|sin> A c s                     phasor of A·f(ωt+φ), (c, s) = (cos φ, sin φ), through Gen.AC.funcPhase
   ph.sum A1 c1 s1 A2 c2 s2                    phasor of the sum of two terms through Gen.AC.sumBranches: `<branch> re im`
   ph.timeform re im C S                       Gen.AC.timeForm
   ph.polar re im | M2 X Y R2                  spec predicate: M2 = |P|², (X, Y) = |P|(cos φ, sin φ) = (re, im), R2 = rms² = |P|²/2
   ss.laws <w> || <netlist lines> || V n=a,b … J name=a,b …
                                               the time-domain laws (Spec/LawsTD.lean) at angular frequency w on the given
                                               sinusoids a·cos wt + b·sin wt: `ok` | `kcl <node> <ra> <rb>` | `law <cpt> <branch> …` | `undef …`
   ac.imp <w> <tree> / ac.adm <w> <tree>       phasor-domain immittance (Model/ACImmittance.lean): `re im`
   ac.zs <w> <tree> / ac.ys <w> <tree>         Laplace-domain immittance of C07's model at s = jw over Cx: `re im`
-/
import Lcapy.Model.CRat
import Lcapy.Driver.C01
import Lcapy.Driver.C07
import Lcapy.Generated.ACTable
import Lcapy.Model.Phasor
import Lcapy.Model.ACImmittance
import Lcapy.Spec.LawsTDExec
namespace Lcapy.Driver.C14
open Lcapy Lcapy.MNA Lcapy.Netlist Lcapy.TDS Lcapy.AC

def gqRe (g : GQ) : CRat := match g.v with | some (re, im) => if im = 0 then ⟨some re⟩ else ⟨none⟩ | none => ⟨none⟩

/-- the time-domain component of an elaborated phasor-domain component: real values, source phasor ↦ sinusoid -/
def toSCpt (c : Cpt GQ) : SCpt CRat (Sinus CRat) :=
  let src (v : GQ) : Sinus CRat := match v.v with | some (re, im) => ⟨⟨some re⟩, ⟨some (-im)⟩⟩ | none => ⟨⟨none⟩, ⟨none⟩⟩
  match c with
  | .V n1 n2 m v => (.V n1 n2 m 0, src v)
  | .I n1 n2 i => (.I n1 n2 0, src i)
  | c => (embed gqRe c, ⟨0, 0⟩)

def parseSinus (s : String) : Option (Sinus CRat) :=
  match s.splitOn "," with
  | [a] => (parseRat a).map (fun a => ⟨⟨some a⟩, 0⟩)
  | [a, b] => do let a ← parseRat a; let b ← parseRat b; some ⟨⟨some a⟩, ⟨some b⟩⟩
  | _ => none

def parseAssignS (e : Elab) (toks : List String) : Except String (Ix → Sinus CRat) := do
  let rec go (toks : List String) (mode : String) (acc : List (Ix × Sinus CRat)) : Except String (List (Ix × Sinus CRat)) :=
    match toks with
    | [] => pure acc
    | "V" :: r => go r "V" acc
    | "J" :: r => go r "J" acc
    | t :: r =>
      match t.splitOn "=" with
      | [k, v] =>
        match parseSinus v with
        | none => throw s!"bad-value:{t}"
        | some g =>
          if mode = "V" then
            match findClass e.cls k with
            | some i => go r mode ((Ix.node i, g) :: acc)
            | none => throw s!"unknown-node:{k}"
          else
            match e.brs.idxOf? k with
            | some m => go r mode ((Ix.br m, g) :: acc)
            | none => throw s!"unknown-branch:{k}"
      | _ => throw s!"bad-assignment:{t}"
  let l ← go toks "V" []
  pure (fun ix => match l.find? (fun p => p.1 == ix) with | some p => p.2 | none => ⟨0, 0⟩)

def cxStr (z : Cx CRat) : String := s!"{z.re} {z.im}"

def branchName : Angle × Amp → String
  | (.zero, .x) => "y0"
  | (.halfPi, .y) => "x0"
  | (.atan2yx, .hypot) => "gen"
  | _ => "other"

def handle (toks : List String) : Option String :=
  match toks with
  | ["ph.toPhasor", a, b] => some <|
      match parseCRat a, parseCRat b with
      | some a, some b => cxStr (toPh ⟨a, b⟩)
      | _, _ => "bad-op"
  | ["ph.toTime", re, im] => some <|
      match parseCRat re, parseCRat im with
      | some re, some im => let u := toTime (⟨re, im⟩ : Cx CRat); s!"{u.a} {u.b}"
      | _, _ => "bad-op"
  | ["ph.term", f, A, c, s] => some <|
      match parseCRat A, parseCRat c, parseCRat s with
      | some A, some c, some s =>
        match termPhasor Gen.AC.fromTime Gen.AC.funcPhase f A c s with
        | some p => cxStr p
        | none => "none"
      | _, _, _ => "bad-op"
  | ["ph.sum", A1, c1, s1, A2, c2, s2] => some <|
      match [A1, c1, s1, A2, c2, s2].mapM parseRat with
      | some [A1, c1, s1, A2, c2, s2] =>
        let x : Rat := Gen.AC.sumX A1 c1 s1 A2 c2 s2
        let y : Rat := Gen.AC.sumY A1 c1 s1 A2 c2 s2
        match pick x y Gen.AC.sumBranches with
        | some br =>
          match branchRect Gen.AC.fromTime x y br with
          | some p => s!"{branchName br} {ratToStr p.re} {ratToStr p.im}"
          | none => "none"
        | none => "none"
      | _ => "bad-op"
  | ["ph.timeform", re, im, C, S] => some <|
      match [re, im, C, S].mapM parseCRat with
      | some [re, im, C, S] => toString (Gen.AC.timeForm re im C S)
      | _ => "bad-op"
  | ["ph.polar", re, im, "|", m2, x, y, r2] => some <|
      match [re, im, m2, x, y, r2].mapM parseRat with
      | some [re, im, m2, x, y, r2] =>
        let ms : Rat := magSq (⟨re, im⟩ : Cx Rat)
        toString (decide (m2 = ms ∧ x = re ∧ y = im ∧ r2 = ms / 2))
      | _ => "bad-op"
  | "ss.laws" :: rest => some <| Id.run do
      match Lcapy.Driver.C01.splitSep rest with
      | [w] :: more =>
        match GQ.parse w, parseCRat w with
        | some wg, some wc =>
          let an := Analysis.ac wg
          let lines := (more.dropLast).map (fun l => " ".intercalate l)
          match elaborate an lines with
          | .error msg => s!"error {msg}"
          | .ok e =>
            match parseAssignS e (more.getLast?.getD []) with
            | .error msg => s!"error {msg}"
            | .ok x =>
              let tcs := e.cpts.map (fun p => toSCpt p.2)
              match checkLawsSS wc tcs x e.cls.length with
              | .ok => "ok"
              | .kcl k a b => s!"kcl {Lcapy.Driver.C01.className e k} {a} {b}"
              | .law i m a b => s!"law {(e.cpts.getD i ("?", .Open 0 0)).1} {e.brs.getD m "?"} {a} {b}"
              | .undef what => s!"undef {what}"
        | _, _ => "bad-analysis"
      | _ => "bad-op"
  | cmd :: w :: tree =>
    if !(["ac.imp", "ac.adm", "ac.zs", "ac.ys"].contains cmd) then none else some <|
      match parseCRat w, Lcapy.Driver.C07.parseTree Lcapy.Driver.C07.numC (0 : CRat) tree with
      | some w, some n =>
        if cmd = "ac.imp" then cxStr (n.acImp w)
        else if cmd = "ac.adm" then cxStr (n.acAdm w)
        else if cmd = "ac.zs" then cxStr (n.toCx.imp (Cx.jw w))
        else cxStr (n.toCx.adm (Cx.jw w))
      | _, _ => "bad-op"
  | _ => none
end Lcapy.Driver.C14
