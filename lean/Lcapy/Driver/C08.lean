/- Line-protocol handler for the two-port model and spec (C08, C07 sections). -/
import Lcapy.Model.CRat
import Lcapy.Generated.TwoPort
import Lcapy.Spec.TwoPortExec
namespace Lcapy.Driver.C08
open Lcapy Lcapy.Spec

def m2Str (m : M2 CRat) : String := s!"{m.a11} {m.a12} {m.a21} {m.a22}"

def parseM2 (l : List String) : Option (M2 CRat × List String) :=
  match l with
  | a :: b :: c :: d :: rest => do
      let a ← parseCRat a; let b ← parseCRat b; let c ← parseCRat c; let d ← parseCRat d
      some (⟨a, b, c, d⟩, rest)
  | _ => none

def parseM2R (l : List String) : Option (M2 Rat × List String) :=
  match l with
  | a :: b :: c :: d :: rest => do
      let a ← parseRat a; let b ← parseRat b; let c ← parseRat c; let d ← parseRat d
      some (⟨a, b, c, d⟩, rest)
  | _ => none

def handle (toks : List String) : Option String :=
  match toks with
  | "tp.conv" :: name :: rest => some <| Id.run do
      match parseM2 rest with
      | some (m, [z]) =>
        match parseCRat z, (Gen.convTable (K := CRat)).lookup name with
        | some z, some f => m2Str (f m z)
        | _, none => "unknown-def"
        | none, _ => "bad-op"
      | _ => "bad-op"
  | "tp.scalar" :: name :: rest => some <| Id.run do
      match parseM2 rest with
      | some (m, [z]) =>
        match parseCRat z, (Gen.scalarTable (K := CRat)).lookup name with
        | some z, some f => toString (f m z)
        | _, none => "unknown-def"
        | none, _ => "bad-op"
      | _ => "bad-op"
  | "tp.chain" :: name :: rest => some <| Id.run do
      match parseM2 rest with
      | some (a, rest2) =>
        match parseM2 rest2, (Gen.chainTable (K := CRat)).lookup name with
        | some (b, []), some f => m2Str (f a b)
        | _, none => "unknown-def"
        | _, _ => "bad-op"
      | none => "bad-op"
  | "tp.section" :: name :: rest => some <| Id.run do
      match rest.mapM parseCRat, (Gen.sectionTable (K := CRat)).lookup name with
      | some args, some f =>
        match f args with
        | some m => m2Str m
        | none => "bad-arity"
      | _, none => "unknown-def"
      | none, _ => "bad-op"
  | "tp.rel" :: rep :: rest => some <| Id.run do
      match Rep.ofString? rep, parseM2R rest with
      | some r, some (m, [z, v1, i1, v2, i2]) =>
        match parseRat z, parseRat v1, parseRat i1, parseRat v2, parseRat i2 with
        | some z, some v1, some i1, some v2, some i2 =>
          toString (decide (rel r m z ⟨v1, i1, v2, i2⟩))
        | _, _, _, _, _ => "bad-op"
      | _, _ => "bad-op"
  | ["tp.holds", d, q, v1, i1, v2, i2] => some <| Id.run do
      match Derived.ofString? d, parseRat q, parseRat v1, parseRat i1, parseRat v2, parseRat i2 with
      | some d, some q, some v1, some i1, some v2, some i2 =>
        toString (decide (d.holds q ⟨v1, i1, v2, i2⟩))
      | _, _, _, _, _, _ => "bad-op"
  | _ => none

end Lcapy.Driver.C08
