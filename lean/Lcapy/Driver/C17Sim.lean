/- Line-protocol handler for C17, part 2: the time-stepping simulator model and the response() models.

   sim.run <trap|be> <t0,t1,...> | <cpt> | <cpt> ...
        cpt =  R n1 n2 <val> | C n1 n2 <val> | L n1 n2 <val> | V n1 n2 <src> | I n1 n2 <src>
        src =  <term>+<term>+...     term = a:b:d  meaning (a + b t) Heaviside(t - d), Heaviside(0) = 1/2;  dc:a = constant a
        nodes are numbers, 0 = ground; the driver allocates the dummy nodes and the branch indices itself
      -> one group per time step, groups separated by ` ; `:  v(1),v(2),...,v(maxnode) | v(X),i(X) for every C/L in netlist order
         or `refused` (the model's gate or the row check failed: singular system)
   sim.dt <tcur> <tprev> <t1> <t0>                          -> the step size the (generated) code uses
   sim.law <trap|be> <isInd 0|1> <val> <h> <v0> <i0> <v1> <i1> <tol>
      -> true|false  : |lawDefect| ≤ tol · max(1, |val v1|, |val v0|, |h i1|, |h i0|, ...)   (Spec judge for real outputs)
   resp.bilinear <alpha> <dt> <num c0,c1,..> <den c0,c1,..> <ndelay> <x0,x1,...>     -> y0,y1,...
   resp.ii <kernel c0,c1,...> <q c0,.. | -> <x0,x1,...> <tv0,tv1,...> <dt>           -> y0,y1,...
        kernel(τ) = (c0 + c1 τ + ...) Heaviside(τ)  (impulse response of Σ j! c_j / s^(j+1))
   resp.convsum <kernel c0,..> <x0,x1,...> <dt>                                       -> the Spec's lag-indexed convolution sums
   resp.near <tol> <a0,a1,...> <b0,b1,...>   -> true|false : same length and |a_k - b_k| ≤ tol · max(1, max|b|)
   lim.eval <py 0|1> <p c0,c1,..> <q c0,c1,..> <x>   -> <direct|zerodiv|nan|inf> <val r | nan | other>
        which fallback of evaluate()'s inner func applies for p(t)/q(t) at x (py = 1: scalar call) and what it returns
   flt.run <xbits> <prefix program>          program = x | c:<bits> | add A B | sub A B | mul A B | div A B | neg A
        -> the bits of the IEEE double the straight-line program gives for the argument with bits xbits
-/
import Lcapy.Model.CRat
import Lcapy.Model.SimStep
import Lcapy.Model.Response
import Lcapy.Model.EvalLimit
import Lcapy.Model.FloatEval
namespace Lcapy.Driver.C17Sim
open Lcapy Lcapy.MNA Lcapy.Sim Lcapy.Resp

/-! ### an untrusted Gauss–Jordan solver over ℚ (its output is always checked by `SSMaker.checkSolves`) -/

def dedupIx (l : List Ix) : List Ix := l.foldl (fun acc i => if acc.contains i then acc else acc ++ [i]) []

def swapRows (rows : List (List Rat)) (i j : Nat) : List (List Rat) :=
  let ri := rows.getD i []
  let rj := rows.getD j []
  (rows.set i rj).set j ri

def gaussJordan (n : Nat) (rows : List (List Rat)) : Option (List (List Rat)) :=
  (List.range n).foldlM (fun (rows : List (List Rat)) (col : Nat) =>
    match (List.range n).find? (fun r => r ≥ col && (rows.getD r []).getD col 0 != 0) with
    | none => none
    | some p =>
      let rows := swapRows rows col p
      let prow := rows.getD col []
      let pv := prow.getD col 0
      let prow := prow.map (fun v => v / pv)
      let rows := rows.set col prow
      some (rows.mapIdx (fun r row =>
        if r = col then row
        else
          let f := row.getD col 0
          if f == 0 then row else (row.zip prow).map (fun (a, b) => a - f * b)))) rows

def gjSolver (cs : List (Cpt Rat)) : Ix → Rat :=
  let st := stampAll .time 0 cs
  let us := (dedupIx (st.lhs.map (fun e => e.1) ++ st.lhs.map (fun e => e.2.1) ++ st.rhs.map (fun e => e.1))).filter
    (fun i => i != Ix.node 0)
  let rows := us.map (fun r => us.map (fun c => entryA st r c) ++ [entryZ st r])
  match gaussJordan us.length rows with
  | none => fun _ => 0
  | some rows =>
    let sol := rows.map (fun row => row.getD us.length 0)
    fun ix => match us.idxOf? ix with | some i => sol.getD i 0 | none => 0

/-! ### parsing -/

def parseList (s : String) : Option (List Rat) :=
  if s == "-" then some [] else (s.splitOn ",").mapM parseRat

def listStr (l : List Rat) : String := ",".intercalate (l.map ratToStr)

/-- (a + b t) H(t - d) -/
structure Term where
  a : Rat
  b : Rat
  d : Option Rat     -- none: no Heaviside factor

def Term.val (tm : Term) (t : Rat) : Rat :=
  let body := tm.a + tm.b * t
  match tm.d with
  | none => body
  | some d => if t < d then 0 else if t = d then body / 2 else body

def parseTerm (s : String) : Option Term :=
  match s.splitOn ":" with
  | ["dc", a] => (parseRat a).map (fun a => ⟨a, 0, none⟩)
  | [a, b, d] => do
      let a ← parseRat a
      let b ← parseRat b
      let d ← parseRat d
      some ⟨a, b, some d⟩
  | _ => none

def parseSrc (s : String) : Option (List Term) := (s.splitOn "+").mapM parseTerm

def srcVal (ts : List Term) (t : Rat) : Rat := ts.foldl (fun acc tm => acc + tm.val t) 0

inductive RawCpt where
  | r (n1 n2 : Nat) (v : Rat)
  | c (n1 n2 : Nat) (v : Rat)
  | l (n1 n2 : Nat) (v : Rat)
  | v (n1 n2 : Nat) (s : List Term)
  | i (n1 n2 : Nat) (s : List Term)

def parseCpt (toks : List String) : Option RawCpt :=
  match toks with
  | [k, n1, n2, v] => do
      let n1 ← n1.toNat?
      let n2 ← n2.toNat?
      match k with
      | "R" => (parseRat v).map (RawCpt.r n1 n2)
      | "C" => (parseRat v).map (RawCpt.c n1 n2)
      | "L" => (parseRat v).map (RawCpt.l n1 n2)
      | "V" => (parseSrc v).map (RawCpt.v n1 n2)
      | "I" => (parseSrc v).map (RawCpt.i n1 n2)
      | _ => none
  | _ => none

def splitOnTok (sep : String) (toks : List String) : List (List String) :=
  let (cur, acc) := toks.foldl (fun (cur, acc) t => if t == sep then ([], cur.reverse :: acc) else (t :: cur, acc)) ([], [])
  (cur.reverse :: acc).reverse

def RawCpt.nodes : RawCpt → List Nat
  | .r a b _ | .c a b _ | .l a b _ | .v a b _ | .i a b _ => [a, b]

/-- elaboration: dummy nodes `maxnode + 1 + j`, branch indices: sources first (in order), then one per reactive component -/
structure Elab where
  maxnode : Nat
  others : Rat → List (Cpt Rat)
  rs : List (React Rat)

def elaborate (raw : List RawCpt) : Elab :=
  let maxnode := (raw.flatMap RawCpt.nodes).foldl max 0
  let nV := (raw.filter (fun c => match c with | .v .. => true | _ => false)).length
  let step (acc : Nat × Nat × List (Rat → Cpt Rat) × List (React Rat)) (c : RawCpt) :=
    let (iv, ir, os, rs) := acc
    match c with
    | .r a b v => (iv, ir, os ++ [fun (_ : Rat) => Cpt.R a b v], rs)
    | .v a b s => (iv + 1, ir, os ++ [fun (t : Rat) => Cpt.V a b iv (srcVal s t)], rs)
    -- `I n1 n2 i`: the source pushes i out of n1?  Lcapy: current flows from n1 through the source to n2 (Spec: Cpt.I)
    | .i a b s => (iv, ir, os ++ [fun (t : Rat) => Cpt.I a b (srcVal s t)], rs)
    | .c a b v => (iv, ir + 1, os, rs ++ [⟨false, a, b, maxnode + 1 + ir, nV + ir, v⟩])
    | .l a b v => (iv, ir + 1, os, rs ++ [⟨true, a, b, maxnode + 1 + ir, nV + ir, v⟩])
  let (_, _, os, rs) := raw.foldl step (0, 0, ([] : List (Rat → Cpt Rat)), ([] : List (React Rat)))
  ⟨maxnode, fun t => os.map (fun f => f t), rs⟩

def parseMeth : String → Option Method
  | "trap" => some .trapezoid
  | "be" => some .backwardEuler
  | _ => none

def stepStr (e : Elab) (x : Ix → Rat) : String :=
  let vs := (List.range e.maxnode).map (fun k => ratToStr (volt x (k + 1)))
  let rs := e.rs.map (fun r => s!"{ratToStr (vd x r.n1 r.n2)},{ratToStr (x (.br r.m))}")
  ",".intercalate vs ++ " | " ++ " ".intercalate rs

def rabs (x : Rat) : Rat := if x < 0 then -x else x
def rmax (a b : Rat) : Rat := if a < b then b else a

/-- kernel(τ) = (Σ c_j τ^j) H(τ) -/
def polyKernel (cs : List Rat) (t : Rat) : Rat :=
  let body := cs.foldr (fun c acc => c + t * acc) 0
  if t < 0 then 0 else if t = 0 then body / 2 else body

def parseFE : Nat → List String → Option (FloatEval.FE × List String)
  | 0, _ => none
  | _ + 1, [] => none
  | fuel + 1, tok :: rest =>
    let bin (mk : FloatEval.FE → FloatEval.FE → FloatEval.FE) : Option (FloatEval.FE × List String) := do
      let (a, r1) ← parseFE fuel rest
      let (b, r2) ← parseFE fuel r1
      some (mk a b, r2)
    match tok.splitOn ":" with
    | ["x"] => some (.x, rest)
    | ["c", b] => b.toNat?.map (fun n => (FloatEval.FE.c n.toUInt64, rest))
    | ["add"] => bin .add
    | ["sub"] => bin .sub
    | ["mul"] => bin .mul
    | ["div"] => bin .div
    | ["neg"] => do let (a, r1) ← parseFE fuel rest; some (.neg a, r1)
    | _ => none

def pathStr : EvalLimit.Path → String
  | .direct => "direct" | .zeroDivLimit => "zerodiv" | .nanLimit => "nan" | .infSimplifyLimit => "inf"

def outStr : Evaluate.Out → String
  | .val v => s!"val {ratToStr v}"
  | .nan => "nan"
  | .other => "other"

def handle (toks : List String) : Option String :=
  match toks with
  | ["lim.eval", py, p, q, x] => some <|
      match parseList p, parseList q, parseRat x with
      | some p, some q, some x =>
        let r := EvalLimit.evalRatfun (py == "1") p q x
        s!"{pathStr r.1} {outStr r.2}"
      | _, _, _ => "bad-op"
  | "flt.run" :: xb :: prog => some <|
      match xb.toNat?, parseFE (prog.length + 1) prog with
      | some xb, some (e, []) => toString (FloatEval.run e xb.toUInt64).toNat
      | _, _ => "bad-op"
  | "sim.run" :: meth :: grid :: "|" :: rest => some <|
      match parseMeth meth, parseList grid, (splitOnTok "|" rest).mapM parseCpt with
      | some meth, some grid, some raw =>
        let e := elaborate raw
        match sim gjSolver meth e.others e.rs grid with
        | some xs => " ; ".intercalate (xs.map (stepStr e))
        | none => "refused"
      | _, _, _ => "bad-op"
  | ["sim.dt", a, b, c, d] => some <| match parseRat a, parseRat b, parseRat c, parseRat d with
      | some a, some b, some c, some d => ratToStr (Gen.Sim.stepDt a b c d)
      | _, _, _, _ => "bad-op"
  | ["sim.law", meth, isInd, val, h, v0, i0, v1, i1, tol] => some <|
      match parseMeth meth, parseRat val, parseRat h, parseRat v0, parseRat i0, parseRat v1, parseRat i1, parseRat tol with
      | some meth, some val, some h, some v0, some i0, some v1, some i1, some tol =>
        let ind := isInd == "1"
        let d := lawDefect meth ind val h v0 i0 v1 i1
        let xs := if ind then [val * i1, val * i0, h * v1, h * v0] else [val * v1, val * v0, h * i1, h * i0]
        let scale := xs.foldl (fun acc v => rmax acc (rabs v)) 1
        toString (decide (rabs d ≤ tol * scale))
      | _, _, _, _, _, _, _, _ => "bad-op"
  | ["resp.bilinear", alpha, dt, num, den, nd, x] => some <|
      match parseRat alpha, parseRat dt, parseList num, parseList den, nd.toNat?, parseList x with
      | some alpha, some dt, some num, some den, some nd, some x =>
        if (respCoeffs alpha dt num den).2.headD 0 == 0 then "singular"
        else listStr (respBilinear alpha dt num den nd x)
      | _, _, _, _, _, _ => "bad-op"
  | ["resp.ii", kern, q, x, tv, dt] => some <|
      match parseList kern, parseList q, parseList x, parseList tv, parseRat dt with
      | some kern, some q, some x, some tv, some dt => listStr (respII (polyKernel kern) q x tv dt)
      | _, _, _, _, _ => "bad-op"
  | ["resp.convsum", kern, x, dt] => some <|
      match parseList kern, parseList x, parseRat dt with
      | some kern, some x, some dt => listStr ((List.range x.length).map (convSum (polyKernel kern) x dt))
      | _, _, _ => "bad-op"
  | ["resp.near", tol, a, b] => some <|
      match parseRat tol, parseList a, parseList b with
      | some tol, some a, some b =>
        let scale := b.foldl (fun acc v => rmax acc (rabs v)) 1
        toString (a.length == b.length && (a.zip b).all (fun (u, v) => decide (rabs (u - v) ≤ tol * scale)))
      | _, _, _ => "bad-op"
  | _ => none

end Lcapy.Driver.C17Sim
