/- Line-protocol handler for the quantity/units model and the SI-dimension spec (C18).

   operand  := <domain> <quantity> <u1,...,u8> <zero:0|1> <unchanging:0|1> <constant:0|1>
   config   := <loose><check><canonical> as three 0/1 characters, e.g. 110
   q.mul <opd> <opd>            -> ok <domain> <quantity> <units> | err <kind>
   q.div <opd> <opd>            -> same
   q.add <cfg> <opd> <opd>      -> same   (also used for `-`)
   q.eq  <cfg> <opd> <opd>      -> refused | compare <domain> <quantity>
   q.pow <opd> <n>              -> ok ... | err ...
   q.tr  <opd> <method>         -> ok ... | no-row
   q.defunits <domain> <quantity> -> <units>
   q.domunits <domain>          -> <units>
   q.isconst <domain>           -> true|false
   spec predicates (judged on real Lcapy outputs):
   q.mulok|q.divok <qa> <ua> <qb> <ub> <qr> <ur>
   q.powok <qa> <ua> <n> <qr> <ur>
   q.addok <qa> <ua> <qb> <ub> <constA> <constB> <sameDomain> <refused> <qr> <ur>
   q.eqok <qa> <qb> <constA> <constB> <sameDomain> <equal>
   q.trok <qa> <ua> <var> <qr> <ur>
   q.labelok <q> <u>
   q.stepok <src> <dst> <qa> <ua> <qr> <ur>   (one domain change, angle-aware)
   q.sameunits <u> <w>          (route independence: same SI dimension and same power of rad)
   q.freshok <domain> <q> <u>   (units of a fresh / analysis-produced expression: spec's expectedDim)
   q.dim <u>                    -> v,a,t
   typed results of two-ports / netlist methods (expectation tables of Generated/QuantitiesTP.lean):
   q.tpexpect <attr>            -> <num> <den> <quantity> | none      (C08 table)
   q.docexpect <class> <attr>   -> <num> <den> <quantity> | none      (ratio named by the code's docstring)
   q.netexpect <method>         -> <num> <den> <quantity> | none
   q.entryports <rep> <ij>      -> <num> <den> <quantity> | none
   q.ratiook <num> <den> <domain> <q> <u>     (spec predicate ratioOk)
   q.entryok <num> <den> <domain> <q> <u>     (spec predicate entryOk)
   q.signalok <want> <domain> <q> <u>         (spec predicate signalOk)
   Superposition / phasor operators (model Lcapy/Model/QuantitiesSup.lean, tables Generated/QuantitiesSup.lean):
   suparg := number | sup:<quantity> | ex <opd>
   q.supadd|q.supsub|q.supmul|q.supdiv <qS> <suparg>  -> sup <q> - | sup <q> <key> <domain> <quantity> | err <kind>
   q.supeq <qS> <suparg>        -> compares | raises
   popd := <opd> <omega>   with omega := - | sym | n<k>
   q.phmul|q.phdiv <popd> <popd>, q.phadd <cfg> <popd> <popd>  -> ok <domain> <quantity> <units> <omega> | err <kind>
-/
import Lcapy.Generated.Quantities
import Lcapy.Generated.QuantitiesTP
import Lcapy.Generated.QuantitiesSup
namespace Lcapy.Driver.C18
open Lcapy.Dim Lcapy.QModel Lcapy.DimTP Lcapy.QSup

def T : Tables := Lcapy.Gen.Q.tables

def parseU (s : String) : Option U := do
  let xs ← (s.splitOn ",").mapM (fun t => t.toInt?)
  U.ofList? xs

def parseB (s : String) : Option Bool :=
  if s == "1" || s == "true" then some true else if s == "0" || s == "false" then some false else none

def parseOpd : List String → Option (Opd × List String)
  | d :: q :: u :: z :: c :: k :: rest => do
      let d ← Domain.ofString? d
      let q ← Quantity.ofString? q
      let u ← parseU u
      let z ← parseB z
      let c ← parseB c
      let k ← parseB k
      some (⟨d, q, u, z, c, k⟩, rest)
  | _ => none

def parseCfg (s : String) : Option Cfg :=
  match s.toList with
  | [a, b, c] => do
      let a ← parseB (String.singleton a)
      let b ← parseB (String.singleton b)
      let c ← parseB (String.singleton c)
      some ⟨a, b, c⟩
  | _ => none

def errStr : Err → String
  | .domains => "domains" | .quantities => "quantities" | .units => "units"

def outStr : Outcome → String
  | .ok d q u => s!"ok {d} {q} {u}"
  | .err e => s!"err {errStr e}"

def bstr (b : Bool) : String := if b then "true" else "false"

def ratioStr (num den : PortVar) : String :=
  match expectedRatio num den with
  | some q => s!"{num} {den} {q}"
  | none => "none"

def handleTP (toks : List String) : Option String :=
  match toks with
  | ["q.tpexpect", a] => some <|
      match Lcapy.Gen.QTP.tpExpect.find? (fun r => r.1 == a) with
      | some r => s!"{r.2.1} {r.2.2.1} {r.2.2.2}"
      | none => "none"
  | ["q.docexpect", c, a] => some <|
      match Lcapy.Gen.QTP.docPorts.find? (fun r => r.1 == c && r.2.1 == a) with
      | some r => ratioStr r.2.2.1 r.2.2.2
      | none => "none"
  | ["q.netexpect", m] => some <|
      match Lcapy.Gen.QTP.netPorts.find? (fun r => r.1 == m) with
      | some r => ratioStr r.2.1 r.2.2
      | none => "none"
  | ["q.entryports", x, ij] => some <|
      match Lcapy.Gen.QTP.entryPorts.find? (fun r => r.1 == x && r.2.1 == ij) with
      | some r => ratioStr r.2.2.1 r.2.2.2
      | none => "none"
  | ["q.ratiook", n, d, dom, q, u] => some <|
      match PortVar.ofString? n, PortVar.ofString? d, Domain.ofString? dom, Quantity.ofString? q, parseU u with
      | some n, some d, some dom, some q, some u => bstr (ratioOk n d dom q u)
      | _, _, _, _, _ => "bad-op"
  | ["q.entryok", n, d, dom, q, u] => some <|
      match PortVar.ofString? n, PortVar.ofString? d, Domain.ofString? dom, Quantity.ofString? q, parseU u with
      | some n, some d, some dom, some q, some u => bstr (entryOk n d dom q u)
      | _, _, _, _, _ => "bad-op"
  | ["q.omegaok", b, sm, z, r] => some <|
      match parseB b, parseB sm, parseB z, parseB r with
      | some b, some sm, some z, some r => bstr (omegaOk b sm z r)
      | _, _, _, _ => "bad-op"
  | ["q.signalok", w, dom, q, u] => some <|
      match Quantity.ofString? w, Domain.ofString? dom, Quantity.ofString? q, parseU u with
      | some w, some dom, some q, some u => bstr (signalOk w dom q u)
      | _, _, _, _ => "bad-op"
  | _ => none

def ST : SupTables := Lcapy.Gen.QSup.supTables

def parseSupArg : List String → Option SupArg
  | ["number"] => some .number
  | "ex" :: rest =>
      match parseOpd rest with
      | some (x, []) => some (.ex x)
      | _ => none
  | [t] =>
      if t.startsWith "sup:" then (Quantity.ofString? (t.drop 4).toString).map SupArg.sup else none
  | _ => none

def xerrStr : XErr → String
  | .quantities => "quantities" | .kind => "kind" | .type => "type" | .omega => "omega"
  | .domains => "domains" | .units => "units" | .table => "table"

def supStr : SupOutcome → String
  | .sup q none => s!"sup {q} -"
  | .sup q (some (k, d, q')) => s!"sup {q} {k} {d} {q'}"
  | .err e => s!"err {xerrStr e}"

def parseOm (s : String) : Option Om :=
  if s == "-" then some .none else if s == "sym" then some .sym
  else if s.startsWith "n" then (s.drop 1).toString.toNat?.map Om.num else none

def omStr : Om → String
  | .none => "-" | .sym => "sym" | .num n => s!"n{n}"

def parsePOpd (toks : List String) : Option (POpd × List String) :=
  match parseOpd toks with
  | some (x, om :: rest) => (parseOm om).map (fun o => (⟨x, o⟩, rest))
  | _ => none

def poutStr : POutcome → String
  | .ok d q u om => s!"ok {d} {q} {u} {omStr om}"
  | .err e => s!"err {xerrStr e}"

def handleSup (toks : List String) : Option String :=
  match toks with
  | op :: qS :: rest =>
      if op == "q.supadd" || op == "q.supsub" || op == "q.supmul" || op == "q.supdiv" || op == "q.supeq" then
        some <|
          match Quantity.ofString? qS, parseSupArg rest with
          | some qS, some a =>
            if op == "q.supadd" then supStr (supAdd T ST qS a)
            else if op == "q.supsub" then supStr (supSub T ST qS a)
            else if op == "q.supmul" then supStr (supMul ST qS a)
            else if op == "q.supdiv" then supStr (supDiv ST qS a)
            else if supEqCompares T ST qS a then "compares" else "raises"
          | _, _ => "bad-op"
      else if op == "q.phmul" || op == "q.phdiv" then
        some <|
          match parsePOpd (qS :: rest) with
          | some (a, rest2) =>
            match parsePOpd rest2 with
            | some (x, []) => poutStr (if op == "q.phmul" then phMul T ST a x else phDiv T ST a x)
            | _ => "bad-op"
          | none => "bad-op"
      else if op == "q.phadd" then
        some <|
          match parseCfg qS, parsePOpd rest with
          | some c, some (a, rest2) =>
            match parsePOpd rest2 with
            | some (x, []) => poutStr (phAdd T ST c a x)
            | _ => "bad-op"
          | _, _ => "bad-op"
      else none
  | _ => none

def handleQ (toks : List String) : Option String :=
  match toks with
  | "q.mul" :: rest => some <|
      match parseOpd rest with
      | some (a, rest2) =>
        match parseOpd rest2 with
        | some (x, []) => outStr (mulM T a x)
        | _ => "bad-op"
      | none => "bad-op"
  | "q.div" :: rest => some <|
      match parseOpd rest with
      | some (a, rest2) =>
        match parseOpd rest2 with
        | some (x, []) => outStr (divM T a x)
        | _ => "bad-op"
      | none => "bad-op"
  | "q.add" :: c :: rest => some <|
      match parseCfg c, parseOpd rest with
      | some c, some (a, rest2) =>
        match parseOpd rest2 with
        | some (x, []) => outStr (addM T c a x)
        | _ => "bad-op"
      | _, _ => "bad-op"
  | "q.eq" :: c :: rest => some <|
      match parseCfg c, parseOpd rest with
      | some c, some (a, rest2) =>
        match parseOpd rest2 with
        | some (x, []) =>
          match eqM T c a x with
          | none => "refused"
          | some (d, q) => s!"compare {d} {q}"
        | _ => "bad-op"
      | _, _ => "bad-op"
  | "q.pow" :: rest => some <|
      match parseOpd rest with
      | some (a, [n]) =>
        match n.toInt? with
        | some n => outStr (powM T a n)
        | none => "bad-op"
      | _ => "bad-op"
  | "q.tr" :: rest => some <|
      match parseOpd rest with
      | some (a, [m]) =>
        match transformM T a m with
        | some o => outStr o
        | none => "no-row"
      | _ => "bad-op"
  | ["q.defunits", d, q] => some <|
      match Domain.ofString? d, Quantity.ofString? q with
      | some d, some q => toString (defaultUnits T d q)
      | _, _ => "bad-op"
  | ["q.domunits", d] => some <|
      match Domain.ofString? d with
      | some d => toString (domainUnits T d)
      | none => "bad-op"
  | ["q.isconst", d] => some <|
      match Domain.ofString? d with
      | some d => bstr (isConst T d)
      | none => "bad-op"
  | ["q.mulok", qa, ua, qb, ub, qr, ur] => some <|
      match Quantity.ofString? qa, parseU ua, Quantity.ofString? qb, parseU ub, Quantity.ofString? qr, parseU ur with
      | some qa, some ua, some qb, some ub, some qr, some ur => bstr (mulOk qa ua qb ub qr ur)
      | _, _, _, _, _, _ => "bad-op"
  | ["q.divok", qa, ua, qb, ub, qr, ur] => some <|
      match Quantity.ofString? qa, parseU ua, Quantity.ofString? qb, parseU ub, Quantity.ofString? qr, parseU ur with
      | some qa, some ua, some qb, some ub, some qr, some ur => bstr (divOk qa ua qb ub qr ur)
      | _, _, _, _, _, _ => "bad-op"
  | ["q.powok", qa, ua, n, qr, ur] => some <|
      match Quantity.ofString? qa, parseU ua, n.toInt?, Quantity.ofString? qr, parseU ur with
      | some qa, some ua, some n, some qr, some ur => bstr (powOk qa ua n qr ur)
      | _, _, _, _, _ => "bad-op"
  | ["q.addok", qa, ua, qb, ub, ca, cb, sd, rf, qr, ur] => some <|
      match Quantity.ofString? qa, parseU ua, Quantity.ofString? qb, parseU ub with
      | some qa, some ua, some qb, some ub =>
        match parseB ca, parseB cb, parseB sd, parseB rf, Quantity.ofString? qr, parseU ur with
        | some ca, some cb, some sd, some rf, some qr, some ur => bstr (addOk qa ua qb ub ca cb sd rf qr ur)
        | _, _, _, _, _, _ => "bad-op"
      | _, _, _, _ => "bad-op"
  | ["q.eqok", qa, qb, ca, cb, sd, eq] => some <|
      match Quantity.ofString? qa, Quantity.ofString? qb, parseB ca, parseB cb, parseB sd, parseB eq with
      | some qa, some qb, some ca, some cb, some sd, some eq => bstr (eqOk qa qb ca cb sd eq)
      | _, _, _, _, _, _ => "bad-op"
  | ["q.trok", qa, ua, var, qr, ur] => some <|
      match Quantity.ofString? qa, parseU ua, parseU var, Quantity.ofString? qr, parseU ur with
      | some qa, some ua, some var, some qr, some ur => bstr (transformOk qa ua var qr ur)
      | _, _, _, _, _ => "bad-op"
  | ["q.freshok", d, q, u] => some <|
      match Domain.ofString? d, Quantity.ofString? q, parseU u with
      | some d, some q, some u => bstr (freshOk d q u)
      | _, _, _ => "bad-op"
  | ["q.stepok", src, dst, qa, ua, qr, ur] => some <|
      match Domain.ofString? src, Domain.ofString? dst, Quantity.ofString? qa, parseU ua, Quantity.ofString? qr, parseU ur with
      | some src, some dst, some qa, some ua, some qr, some ur => bstr (stepOk src dst qa ua qr ur)
      | _, _, _, _, _, _ => "bad-op"
  | ["q.sampleok", qa, ua, qr, ur] => some <|
      match Quantity.ofString? qa, parseU ua, Quantity.ofString? qr, parseU ur with
      | some qa, some ua, some qr, some ur => bstr (sampleOk qa ua qr ur)
      | _, _, _, _ => "bad-op"
  | ["q.sameunits", u, w] => some <|
      match parseU u, parseU w with
      | some u, some w => bstr (sameUnits u w)
      | _, _ => "bad-op"
  | ["q.labelok", q, u] => some <|
      match Quantity.ofString? q, parseU u with
      | some q, some u => bstr (labelOk q u)
      | _, _ => "bad-op"
  | ["q.dim", u] => some <|
      match parseU u with
      | some u => toString (dimU u)
      | none => "bad-op"
  | _ => none

def handle (toks : List String) : Option String :=
  match handleTP toks with
  | some r => some r
  | none =>
    match handleSup toks with
    | some r => some r
    | none => handleQ toks

end Lcapy.Driver.C18
