/-
  Line-protocol handler for the polynomial / rational-function model and its spec (C11).
  Carrier: `Poly.CQ` (checked Gaussian rationals; a division by zero gives `undef`).

  Sections of a request are separated by the token `|`; numbers are `p/q` or `re,im`.
  Coefficient lists are LOW-ORDER FIRST.  A sample point is `x w u T0`: the value of the variable,
  of `exp(-T0·var)` (an independent indeterminate: every delay must be an integer multiple of `T0`),
  of the undefined function, and the base delay.

    rf.fmt <name> | B | A | T nu | x w u T0 [| extra …]     value of the MODEL's format at the point
    rf.value      | B | A | T nu | x w u T0                  SPEC value  B/A·exp(−T·x)·u^nu
    rf.same       | B | A | T nu | x w u T0 | got            SPEC predicate  value = got
    poly.divmod   | A | B                                    ->  Q | R
    poly.eval     | P | x
    poly.rootscheck | A | r n r n …                           rootsCheck, Σ multiplicities, degree
    rf.pfcheck    | B | A | Q | r n … (poles) | r p o … (terms)
    rf.cfcoeffs   | N | D                                    ok q k q k … / negpower / fuelout
    rf.cficoeffs  | N | D                                    inverse coefficients q k (= q·var^(−k))
    rf.zp2tf zl pl | zeros | poles | g | x                   `_zp2tf` with list/dict flags (0/1)
    rf.decompose  | x w u T0 | f ; f ; …                     f = R n… : d…  |  E c  |  U

  Round 3 (Model/RatfunFmt.lean; names / operators / indices from Generated/RatfunFmtSrc.lean):

    rf.fmt dtb | mtbsrc          … | F                       divide / multiply top and bottom by the polynomial F
    rf.fmt canonical_br | canonical_fc_br | asnd_monic | expandcanonical_src | simplify_factors | simplify_terms | expand_response   …
    rf.fmt recippartfrac         … | Q | r p o …            partial fractions in 1/var (data of the reciprocal function)
    rf.fmt rationalize           …                           complex coefficients, REAL point
    rf.recip      | B | A                                    ->  B' | A'   (coefficients of the function of 1/var)
    poly.coeffs   | P          poly.normcoeffs | P           all_coeffs() / normalised (highest power first)
    poly.coeffsok | P | cs | x          SPEC predicate: the highest-first list cs re-assembles to P at x
    poly.normok   | P | cs | x          SPEC predicate: LC(P)·cs(x) = P(x) and cs starts with 1
    poly.highsame | cs | x | got        SPEC predicate: the highest-first list cs has the value got at x
    poly.crosseq  | B1 | A1 | B2 | A2   B1·A2 = B2·A1 as polynomials (B1/A1 and B2/A2 are the same function)
    rf.coeffs     | B | A      rf.ba | B | A                 ->  b … | a …
    rf.basame     | B | A | T nu | x w u T0 | b | a          SPEC predicate: b(x)/a(x) is the value and a starts with 1
    rf.degrees    | B | A                                    ->  Ndegree Ddegree degree is_strictly_proper
    rf.degspec    | B | A | nd dd deg sp                     SPEC predicate: nd = deg B, dd = deg A, deg = max, sp = (deg B < deg A)
    roots.merge   | r n r n …  roots.aslist | r n r n …      multiplicity dictionary / list form
-/
import Lcapy.Model.Ratfun
import Lcapy.Model.RatfunFmt
import Lcapy.Model.PolySynth
import Lcapy.Generated.RatfunSrc
import Lcapy.Generated.RatfunFmtSrc
namespace Lcapy.Driver.C11
open Lcapy.Poly Lcapy.Ratfun Lcapy.RatfunFmt Lcapy.Gen.RatfunSrc Lcapy.Gen.RatfunFmtSrc

def splitBar (toks : List String) : List (List String) :=
  let rec go (acc : List String) (out : List (List String)) : List String → List (List String)
    | [] => (acc.reverse :: out).reverse
    | "|" :: rest => go [] (acc.reverse :: out) rest
    | t :: rest => go (t :: acc) out rest
  go [] [] toks

def splitSemi (toks : List String) : List (List String) :=
  let rec go (acc : List String) (out : List (List String)) : List String → List (List String)
    | [] => (acc.reverse :: out).reverse
    | ";" :: rest => go [] (acc.reverse :: out) rest
    | t :: rest => go (t :: acc) out rest
  go [] [] toks

def parseList (l : List String) : Option (List CQ) := l.mapM CQ.parse

def listStr (l : List CQ) : String := " ".intercalate (l.map toString)

def parseTable : List String → Option (List (CQ × Nat))
  | [] => some []
  | r :: n :: rest => do
      let r ← CQ.parse r
      let n ← n.toNat?
      let t ← parseTable rest
      some ((r, n) :: t)
  | _ => none

def parseTerms : List String → Option (List (CQ × CQ × Nat))
  | [] => some []
  | r :: p :: o :: rest => do
      let r ← CQ.parse r
      let p ← CQ.parse p
      let o ← o.toNat?
      let t ← parseTerms rest
      some ((r, p, o) :: t)
  | _ => none

def parsePairs : List String → Option (List ((CQ × CQ) × Nat))
  | [] => some []
  | a :: b :: n :: rest => do
      let a ← CQ.parse a
      let b ← CQ.parse b
      let n ← n.toNat?
      let t ← parsePairs rest
      some (((a, b), n) :: t)
  | _ => none

def cqPowNat (w : CQ) : Nat → CQ
  | 0 => 1
  | n + 1 => w * cqPowNat w n

def cqPowInt (w : CQ) (k : Int) : CQ :=
  if k ≥ 0 then cqPowNat w k.toNat else (1 : CQ) / cqPowNat w (-k).toNat

/-- `exp(y)` at the sample point: `y = −k·T0·x` with integer `k` gives `w^k`; anything else is undefined -/
def expAt (x w T0 : CQ) (y : CQ) : CQ :=
  match (y / (x * T0)).v with
  | some (re, im) => if im = 0 ∧ re.den = 1 then cqPowInt w (-re.num) else ⟨none⟩
  | none => ⟨none⟩

def parseEnv : List String → Option (Env CQ)
  | [x, w, u, t0] => do
      let x ← CQ.parse x
      let w ← CQ.parse w
      let u ← CQ.parse u
      let t0 ← CQ.parse t0
      some ⟨x, expAt x w t0, u⟩
  | _ => none

def parseRF (b a tn : List String) : Option (RF CQ) :=
  match tn with
  | [t, nu] => do
      let b ← parseList b
      let a ← parseList a
      let t ← CQ.parse t
      let nu ← nu.toNat?
      some ⟨b, a, t, nu⟩
  | _ => none

def cfResStr : CFRes CQ → String
  | .ok cs => "ok " ++ " ".intercalate (cs.map (fun qk => s!"{qk.1} {qk.2}"))
  | .negPower => "negpower"
  | .fuelOut => "fuelout"

/-- the model's format `name` (delay signs as read from the source) -/
def fmtExpr (name : String) (R : RF CQ) (extra : List (List String)) : Option (RExpr CQ) :=
  match name, extra with
  | "canonical", [] => some (canonical (sgn canonicalSign) false R)
  | "canonical_fc", [] => some (canonical (sgn canonicalFCSign) true R)
  | "general", [] => some (general (sgn generalSign) R)
  | "expandcanonical", [] => some (expandcanonical (sgn expandcanonicalSign) R)
  | "standard", [] => some (standard (sgn standardSign) R)
  | "timeconst", [] => some (timeconst (sgn timeconstSign) R)
  | "N_over_D", [] => some (.mul (exprN R) (.inv (exprD R)))
  | "mtb", [f] => (parseList f).map (multiplyTopBottom R)
  | "zpk", [zs, ps] => do
      let zs ← parseTable zs
      let ps ← parseTable ps
      some (zpk (sgn asZPKSign) R zs ps)
  | "zpk_pairs", [zp, pp, zs, ps] => do
      let zp ← parsePairs zp
      let pp ← parsePairs pp
      let zs ← parseTable zs
      let ps ← parseTable ps
      some (zpkPairs (sgn asZPKSign) R zp pp zs ps)
  | "partfrac", [q, ts] => do
      let q ← parseList q
      let ts ← parseTerms ts
      some (partfrac (sgn partfracSign) R q ts)
  | "cf", [] =>
      match cfCoeffs R.B R.A with
      | .ok cs => some (cfExpr cs)
      | _ => none
  | "dtb", [f] => (parseList f).bind (fun f => topBottom dtbNumer dtbDenom dtbReturn R (.poly f))
  | "mtbsrc", [f] => (parseList f).bind (fun f => topBottom mtbNumer mtbDenom mtbReturn R (.poly f))
  | "asnd_monic", [] => (asNDMonic ndMonicDiv ndMonicD R).map (fun nd => .mul nd.1 (.inv nd.2))
  | "expandcanonical_src", [] => expandcanonicalSrc (sgn expandcanonicalSign) ecReversed ecDen R
  | "simplify_factors", [] => simplifyFactors sfInit sfFrom sfOp id (rfFactors R)
  | "simplify_terms", [] => simplifyTerms stInit stOp id (rfTerms R R.B 0)
  | "expand_response", [] => some (expandResponse R)
  | "canonical_fc_br", [] => some (canonicalBr (sgn canonicalFCSign) true canonFCSkip canonFCUndefAt R)
  | "canonical_br", [] => some (canonicalBr (sgn canonicalSign) false canonSkip canonUndefAt R)
  | _, _ => none

def cqRe (c : CQ) : CQ := ⟨c.v.map (fun p => (p.1, 0))⟩
def cqIm (c : CQ) : CQ := ⟨c.v.map (fun p => (p.2, 0))⟩
def cqI : CQ := ⟨some (0, 1)⟩
def toCP (p : List CQ) : CP CQ := ⟨p.map cqRe, p.map cqIm⟩
def isReal (c : CQ) : Bool := match c.v with | some (_, y) => y == 0 | none => false

def tableStr (t : List (CQ × Nat)) : String := " ".intercalate (t.map (fun rn => s!"{rn.1} {rn.2}"))
def optStr {α : Type} (f : α → String) : Option α → String
  | some a => f a
  | none => "unmodelled"

def parseFactor (l : List String) : Option (Factor CQ) :=
  match l with
  | ["U"] => some .undefF
  | ["E", c] => (CQ.parse c).map .expf
  | "R" :: rest =>
      match rest.span (· ≠ ":") with
      | (n, ":" :: d) => do
          let n ← parseList n
          let d ← parseList d
          some (.rat n d)
      | _ => none
  | _ => none

def handle (toks : List String) : Option String :=
  match toks with
  | "rf.fmt" :: name :: "|" :: rest => some <|
      match splitBar rest with
      | b :: a :: tn :: env :: extra =>
        match parseRF b a tn, parseEnv env with
        | some R, some env =>
          if name == "cfi" then
            match cfiCoeffs R.B R.A with
            | .ok cs => toString (Lcapy.Synth.cfVal true env.x cs)
            | _ => "unmodelled"
          else if name == "recippartfrac" then
            match extra with
            | [q, ts] =>
              match parseList q, parseTerms ts with
              | some q, some ts =>
                match recippartfrac (sgn partfracSign) recipIn recipOut R q ts env with
                | some (e, env') => toString (e.eval env')
                | none => "error"
              | _, _ => "bad-op"
            | _ => "bad-op"
          else if name == "rationalize" then
            if !isReal env.x then "bad-op" else
            match rationalize rdMult rdParts rdPows rdOp rdReturn (toCP R.B) (toCP R.A) with
            | some r => let v := rationalizeValue r env.x; toString (v.1 + cqI * v.2)
            | none => "unmodelled"
          else
          match fmtExpr name R extra with
          | some e => toString (e.eval env)
          | none => "unmodelled"
        | _, _ => "bad-op"
      | _ => "bad-op"
  | "rf.value" :: "|" :: rest => some <|
      match splitBar rest with
      | [b, a, tn, env] =>
        match parseRF b a tn, parseEnv env with
        | some R, some env => toString (R.value env)
        | _, _ => "bad-op"
      | _ => "bad-op"
  | "rf.same" :: "|" :: rest => some <|
      match splitBar rest with
      | [b, a, tn, env, [got]] =>
        match parseRF b a tn, parseEnv env, CQ.parse got with
        | some R, some env, some g =>
          let v := R.value env
          if v.v.isNone then "undef" else toString (decide (v = g))
        | _, _, _ => "bad-op"
      | _ => "bad-op"
  | "poly.divmod" :: "|" :: rest => some <|
      match splitBar rest with
      | [a, b] =>
        match parseList a, parseList b with
        | some a, some b => let qr := divmod a b; listStr (trim qr.1) ++ " | " ++ listStr (trim qr.2)
        | _, _ => "bad-op"
      | _ => "bad-op"
  | "poly.eval" :: "|" :: rest => some <|
      match splitBar rest with
      | [p, [x]] =>
        match parseList p, CQ.parse x with
        | some p, some x => toString (Poly.eval p x)
        | _, _ => "bad-op"
      | _ => "bad-op"
  | "poly.rootscheck" :: "|" :: rest => some <|
      match splitBar rest with
      | [a, t] =>
        match parseList a, parseTable t with
        | some a, some t => s!"{rootsCheck a t} {(t.map (fun rn => rn.2)).sum} {degree a}"
        | _, _ => "bad-op"
      | _ => "bad-op"
  | "rf.pfcheck" :: "|" :: rest => some <|
      match splitBar rest with
      | [b, a, q, ps, ts] =>
        match parseList b, parseList a, parseList q, parseTable ps, parseTerms ts with
        | some b, some a, some q, some ps, some ts => toString (pfCheck b a q ps ts)
        | _, _, _, _, _ => "bad-op"
      | _ => "bad-op"
  | "rf.cfcoeffs" :: "|" :: rest => some <|
      match splitBar rest with
      | [n, d] =>
        match parseList n, parseList d with
        | some n, some d => cfResStr (cfCoeffs n d)
        | _, _ => "bad-op"
      | _ => "bad-op"
  | "rf.cficoeffs" :: "|" :: rest => some <|
      match splitBar rest with
      | [n, d] =>
        match parseList n, parseList d with
        | some n, some d => cfResStr (cfiCoeffs n d)
        | _, _ => "bad-op"
      | _ => "bad-op"
  | "rf.zp2tf" :: zl :: pl :: "|" :: rest => some <|
      match splitBar rest with
      | [zs, ps, [g], [x]] =>
        match parseTable zs, parseTable ps, CQ.parse g, CQ.parse x with
        | some zs, some ps, some g, some x =>
          match zp2tfMixed zp2tfPolesTestOnPoles (zl == "1") (pl == "1") zs ps (.const g) with
          | some e => toString (e.eval ⟨x, fun _ => 1, 1⟩)
          | none => "error"
        | _, _, _, _ => "bad-op"
      | _ => "bad-op"
  | "rf.recip" :: "|" :: rest => some <|
      match splitBar rest with
      | [b, a] =>
        match parseList b, parseList a with
        | some b, some a =>
          match recipRFNamed recipIn (⟨b, a, 0, 0⟩ : RF CQ) with
          | some R' => listStr R'.B ++ " | " ++ listStr R'.A
          | none => "unmodelled"
        | _, _ => "bad-op"
      | _ => "bad-op"
  | "poly.coeffs" :: "|" :: rest => some <|
      match parseList rest with
      | some p => listStr (allCoeffs p)
      | none => "bad-op"
  | "poly.normcoeffs" :: "|" :: rest => some <|
      match parseList rest with
      | some p => listStr (normCoeffs normIdx p)
      | none => "bad-op"
  | "poly.coeffsok" :: "|" :: rest => some <|
      match splitBar rest with
      | [p, cs, [x]] =>
        match parseList p, parseList cs, CQ.parse x with
        | some p, some cs, some x => toString (decide (evalHigh cs x = Poly.eval p x))
        | _, _, _ => "bad-op"
      | _ => "bad-op"
  | "poly.normok" :: "|" :: rest => some <|
      match splitBar rest with
      | [p, cs, [x]] =>
        match parseList p, parseList cs, CQ.parse x with
        | some p, some cs, some x =>
          toString (decide (lc p * evalHigh cs x = Poly.eval p x) && decide (cs.head? = some 1))
        | _, _, _ => "bad-op"
      | _ => "bad-op"
  | "poly.highsame" :: "|" :: rest => some <|
      match splitBar rest with
      | [cs, [x], [got]] =>
        match parseList cs, CQ.parse x, CQ.parse got with
        | some cs, some x, some g => toString (decide (evalHigh cs x = g))
        | _, _, _ => "bad-op"
      | _ => "bad-op"
  | "poly.crosseq" :: "|" :: rest => some <|
      match splitBar rest with
      | [b1, a1, b2, a2] =>
        match parseList b1, parseList a1, parseList b2, parseList a2 with
        | some b1, some a1, some b2, some a2 => toString (polyEq (Poly.mul b1 a2) (Poly.mul b2 a1))
        | _, _, _, _ => "bad-op"
      | _ => "bad-op"
  | "rf.basame" :: "|" :: rest => some <|
      match splitBar rest with
      | [b, a, tn, env, bb, aa] =>
        match parseRF b a tn, parseEnv env, parseList bb, parseList aa with
        | some R, some env, some bb, some aa =>
          let v := R.value env
          if v.v.isNone then "undef"
          else toString (decide (evalHigh bb env.x / evalHigh aa env.x = v) && decide (aa.head? = some 1))
        | _, _, _, _ => "bad-op"
      | _ => "bad-op"
  | "rf.coeffs" :: "|" :: rest => some <|
      match splitBar rest with
      | [b, a] =>
        match parseList b, parseList a with
        | some b, some a => optStr (fun ba => listStr ba.1 ++ " | " ++ listStr ba.2) (rfCoeffs Gen.RatfunFmtSrc.rfCoeffs (⟨b, a, 0, 0⟩ : RF CQ))
        | _, _ => "bad-op"
      | _ => "bad-op"
  | "rf.ba" :: "|" :: rest => some <|
      match splitBar rest with
      | [b, a] =>
        match parseList b, parseList a with
        | some b, some a => optStr (fun ba => listStr ba.1 ++ " | " ++ listStr ba.2) (ba baA baB baIdx (⟨b, a, 0, 0⟩ : RF CQ))
        | _, _ => "bad-op"
      | _ => "bad-op"
  | "rf.degrees" :: "|" :: rest => some <|
      match splitBar rest with
      | [b, a] =>
        match parseList b, parseList a with
        | some b, some a =>
          let R : RF CQ := ⟨b, a, 0, 0⟩
          let d := optStr Deg.toString
          s!"{d (propNamed ndegreeArg ddegreeArg R "Ndegree")} {d (propNamed ndegreeArg ddegreeArg R "Ddegree")} {d (rfDegree degreeFn degreeArgs R)} {optStr toString (isStrictlyProper ndegreeArg ddegreeArg sproper R)}"
        | _, _ => "bad-op"
      | _ => "bad-op"
  | "rf.degspec" :: "|" :: rest => some <|
      match splitBar rest with
      | [b, a, [nd, dd, dg, sp]] =>
        match parseList b, parseList a with
        | some b, some a =>
          let db := sdegree b
          let da := sdegree a
          toString (nd == db.toString && dd == da.toString && dg == (Deg.max db da).toString
            && sp == toString (Deg.lt db da))
        | _, _ => "bad-op"
      | _ => "bad-op"
  | "roots.merge" :: "|" :: rest => some <|
      match parseTable rest with
      | some t => optStr tableStr (mergeRoots polesMerge t)
      | none => "bad-op"
  | "roots.aslist" :: "|" :: rest => some <|
      match parseTable rest with
      | some t => optStr listStr (rootsAsList listRepeat t)
      | none => "bad-op"
  | "rf.decompose" :: "|" :: rest => some <|
      match splitBar rest with
      | [env, fs] =>
        match parseEnv env, (splitSemi fs).mapM parseFactor with
        | some env, some fs =>
          let R := decompose fs
          s!"{R.delay} {R.nu} {Poly.eval R.B env.x / Poly.eval R.A env.x} {R.value env} {factorsValue env fs}"
        | _, _ => "bad-op"
      | _ => "bad-op"
  | _ => none

end Lcapy.Driver.C11
