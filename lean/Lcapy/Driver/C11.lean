/-
  Line-protocol handler for the polynomial / rational-function model and its spec (C11).
  Carrier: `Poly.CQ` (checked Gaussian rationals; a division by zero gives `undef`).

  Sections of a request are separated by the token `|`; numbers are `p/q` or `re,im`.
  Coefficient lists are LOW-ORDER FIRST.  A sample point is `x w u T0`: the value of the variable,
  of `exp(-T0·var)` (an independent indeterminate: every delay must be an integer multiple of `T0`),
  of the undefined function, and the base delay.

    rf.fmt <name> | B | A | T nu | x w u T0 [| extra …]     value of the MODEL's format at the point
    rf.value      | B | A | T nu | x w u T0                  SPEC value  B/A·exp(−T·x)·u^nu
    rf.same       | B | A | T nu | x w u T0 | got            SPEC predicate  value = got
    poly.divmod   | A | B                                    ->  Q | R
    poly.eval     | P | x
    poly.rootscheck | A | r n r n …                           rootsCheck, Σ multiplicities, degree
    rf.pfcheck    | B | A | Q | r n … (poles) | r p o … (terms)
    rf.cfcoeffs   | N | D                                    ok q k q k … / negpower / fuelout
    rf.cficoeffs  | N | D                                    inverse coefficients q k (= q·var^(−k))
    rf.zp2tf zl pl | zeros | poles | g | x                   `_zp2tf` with list/dict flags (0/1)
    rf.decompose  | x w u T0 | f ; f ; …                     f = R n… : d…  |  E c  |  U
-/
import Lcapy.Model.Ratfun
import Lcapy.Model.PolySynth
import Lcapy.Generated.RatfunSrc
namespace Lcapy.Driver.C11
open Lcapy.Poly Lcapy.Ratfun Lcapy.Gen.RatfunSrc

def splitBar (toks : List String) : List (List String) :=
  let rec go (acc : List String) (out : List (List String)) : List String → List (List String)
    | [] => (acc.reverse :: out).reverse
    | "|" :: rest => go [] (acc.reverse :: out) rest
    | t :: rest => go (t :: acc) out rest
  go [] [] toks

def splitSemi (toks : List String) : List (List String) :=
  let rec go (acc : List String) (out : List (List String)) : List String → List (List String)
    | [] => (acc.reverse :: out).reverse
    | ";" :: rest => go [] (acc.reverse :: out) rest
    | t :: rest => go (t :: acc) out rest
  go [] [] toks

def parseList (l : List String) : Option (List CQ) := l.mapM CQ.parse

def listStr (l : List CQ) : String := " ".intercalate (l.map toString)

def parseTable : List String → Option (List (CQ × Nat))
  | [] => some []
  | r :: n :: rest => do
      let r ← CQ.parse r
      let n ← n.toNat?
      let t ← parseTable rest
      some ((r, n) :: t)
  | _ => none

def parseTerms : List String → Option (List (CQ × CQ × Nat))
  | [] => some []
  | r :: p :: o :: rest => do
      let r ← CQ.parse r
      let p ← CQ.parse p
      let o ← o.toNat?
      let t ← parseTerms rest
      some ((r, p, o) :: t)
  | _ => none

def parsePairs : List String → Option (List ((CQ × CQ) × Nat))
  | [] => some []
  | a :: b :: n :: rest => do
      let a ← CQ.parse a
      let b ← CQ.parse b
      let n ← n.toNat?
      let t ← parsePairs rest
      some (((a, b), n) :: t)
  | _ => none

def cqPowNat (w : CQ) : Nat → CQ
  | 0 => 1
  | n + 1 => w * cqPowNat w n

def cqPowInt (w : CQ) (k : Int) : CQ :=
  if k ≥ 0 then cqPowNat w k.toNat else (1 : CQ) / cqPowNat w (-k).toNat

/-- `exp(y)` at the sample point: `y = −k·T0·x` with integer `k` gives `w^k`; anything else is undefined -/
def expAt (x w T0 : CQ) (y : CQ) : CQ :=
  match (y / (x * T0)).v with
  | some (re, im) => if im = 0 ∧ re.den = 1 then cqPowInt w (-re.num) else ⟨none⟩
  | none => ⟨none⟩

def parseEnv : List String → Option (Env CQ)
  | [x, w, u, t0] => do
      let x ← CQ.parse x
      let w ← CQ.parse w
      let u ← CQ.parse u
      let t0 ← CQ.parse t0
      some ⟨x, expAt x w t0, u⟩
  | _ => none

def parseRF (b a tn : List String) : Option (RF CQ) :=
  match tn with
  | [t, nu] => do
      let b ← parseList b
      let a ← parseList a
      let t ← CQ.parse t
      let nu ← nu.toNat?
      some ⟨b, a, t, nu⟩
  | _ => none

def cfResStr : CFRes CQ → String
  | .ok cs => "ok " ++ " ".intercalate (cs.map (fun qk => s!"{qk.1} {qk.2}"))
  | .negPower => "negpower"
  | .fuelOut => "fuelout"

/-- the model's format `name` (delay signs as read from the source) -/
def fmtExpr (name : String) (R : RF CQ) (extra : List (List String)) : Option (RExpr CQ) :=
  match name, extra with
  | "canonical", [] => some (canonical (sgn canonicalSign) false R)
  | "canonical_fc", [] => some (canonical (sgn canonicalFCSign) true R)
  | "general", [] => some (general (sgn generalSign) R)
  | "expandcanonical", [] => some (expandcanonical (sgn expandcanonicalSign) R)
  | "standard", [] => some (standard (sgn standardSign) R)
  | "timeconst", [] => some (timeconst (sgn timeconstSign) R)
  | "N_over_D", [] => some (.mul (exprN R) (.inv (exprD R)))
  | "mtb", [f] => (parseList f).map (multiplyTopBottom R)
  | "zpk", [zs, ps] => do
      let zs ← parseTable zs
      let ps ← parseTable ps
      some (zpk (sgn asZPKSign) R zs ps)
  | "zpk_pairs", [zp, pp, zs, ps] => do
      let zp ← parsePairs zp
      let pp ← parsePairs pp
      let zs ← parseTable zs
      let ps ← parseTable ps
      some (zpkPairs (sgn asZPKSign) R zp pp zs ps)
  | "partfrac", [q, ts] => do
      let q ← parseList q
      let ts ← parseTerms ts
      some (partfrac (sgn partfracSign) R q ts)
  | "cf", [] =>
      match cfCoeffs R.B R.A with
      | .ok cs => some (cfExpr cs)
      | _ => none
  | _, _ => none

def parseFactor (l : List String) : Option (Factor CQ) :=
  match l with
  | ["U"] => some .undefF
  | ["E", c] => (CQ.parse c).map .expf
  | "R" :: rest =>
      match rest.span (· ≠ ":") with
      | (n, ":" :: d) => do
          let n ← parseList n
          let d ← parseList d
          some (.rat n d)
      | _ => none
  | _ => none

def handle (toks : List String) : Option String :=
  match toks with
  | "rf.fmt" :: name :: "|" :: rest => some <|
      match splitBar rest with
      | b :: a :: tn :: env :: extra =>
        match parseRF b a tn, parseEnv env with
        | some R, some env =>
          if name == "cfi" then
            match cfiCoeffs R.B R.A with
            | .ok cs => toString (Lcapy.Synth.cfVal true env.x cs)
            | _ => "unmodelled"
          else
          match fmtExpr name R extra with
          | some e => toString (e.eval env)
          | none => "unmodelled"
        | _, _ => "bad-op"
      | _ => "bad-op"
  | "rf.value" :: "|" :: rest => some <|
      match splitBar rest with
      | [b, a, tn, env] =>
        match parseRF b a tn, parseEnv env with
        | some R, some env => toString (R.value env)
        | _, _ => "bad-op"
      | _ => "bad-op"
  | "rf.same" :: "|" :: rest => some <|
      match splitBar rest with
      | [b, a, tn, env, [got]] =>
        match parseRF b a tn, parseEnv env, CQ.parse got with
        | some R, some env, some g =>
          let v := R.value env
          if v.v.isNone then "undef" else toString (decide (v = g))
        | _, _, _ => "bad-op"
      | _ => "bad-op"
  | "poly.divmod" :: "|" :: rest => some <|
      match splitBar rest with
      | [a, b] =>
        match parseList a, parseList b with
        | some a, some b => let qr := divmod a b; listStr (trim qr.1) ++ " | " ++ listStr (trim qr.2)
        | _, _ => "bad-op"
      | _ => "bad-op"
  | "poly.eval" :: "|" :: rest => some <|
      match splitBar rest with
      | [p, [x]] =>
        match parseList p, CQ.parse x with
        | some p, some x => toString (Poly.eval p x)
        | _, _ => "bad-op"
      | _ => "bad-op"
  | "poly.rootscheck" :: "|" :: rest => some <|
      match splitBar rest with
      | [a, t] =>
        match parseList a, parseTable t with
        | some a, some t => s!"{rootsCheck a t} {(t.map (fun rn => rn.2)).sum} {degree a}"
        | _, _ => "bad-op"
      | _ => "bad-op"
  | "rf.pfcheck" :: "|" :: rest => some <|
      match splitBar rest with
      | [b, a, q, ps, ts] =>
        match parseList b, parseList a, parseList q, parseTable ps, parseTerms ts with
        | some b, some a, some q, some ps, some ts => toString (pfCheck b a q ps ts)
        | _, _, _, _, _ => "bad-op"
      | _ => "bad-op"
  | "rf.cfcoeffs" :: "|" :: rest => some <|
      match splitBar rest with
      | [n, d] =>
        match parseList n, parseList d with
        | some n, some d => cfResStr (cfCoeffs n d)
        | _, _ => "bad-op"
      | _ => "bad-op"
  | "rf.cficoeffs" :: "|" :: rest => some <|
      match splitBar rest with
      | [n, d] =>
        match parseList n, parseList d with
        | some n, some d => cfResStr (cfiCoeffs n d)
        | _, _ => "bad-op"
      | _ => "bad-op"
  | "rf.zp2tf" :: zl :: pl :: "|" :: rest => some <|
      match splitBar rest with
      | [zs, ps, [g], [x]] =>
        match parseTable zs, parseTable ps, CQ.parse g, CQ.parse x with
        | some zs, some ps, some g, some x =>
          match zp2tfMixed zp2tfPolesTestOnPoles (zl == "1") (pl == "1") zs ps (.const g) with
          | some e => toString (e.eval ⟨x, fun _ => 1, 1⟩)
          | none => "error"
        | _, _, _, _ => "bad-op"
      | _ => "bad-op"
  | "rf.decompose" :: "|" :: rest => some <|
      match splitBar rest with
      | [env, fs] =>
        match parseEnv env, (splitSemi fs).mapM parseFactor with
        | some env, some fs =>
          let R := decompose fs
          s!"{R.delay} {R.nu} {Poly.eval R.B env.x / Poly.eval R.A env.x} {R.value env} {factorsValue env fs}"
        | _, _ => "bad-op"
      | _ => "bad-op"
  | _ => none

end Lcapy.Driver.C11
