/- Line-protocol handler for the source-decomposition model of C03 (over Rat). -/
import Lcapy.Model.CRat
import Lcapy.Model.Decompose
import Lcapy.Model.SuperSolve
import Lcapy.Model.NoiseAlg
import Lcapy.Model.Groups
import Lcapy.Spec.Noise
import Lcapy.Driver.C01
namespace Lcapy.Driver.C03
open Lcapy Lcapy.Decompose Lcapy.SuperSolve

def parseTerm (t : String) : Option (Term Rat) :=
  match t.splitOn ":" with
  | ["dc", c] => (parseRat c).map Term.dc
  | ["ac", w, a, b] => do
      let w ← parseRat w; let a ← parseRat a; let b ← parseRat b
      some (Term.ac w a b)
  | ["tr", i, c] => do
      let i ← i.toNat?; let c ← parseRat c
      some (Term.tr i c)
  | _ => none

/-- term tokens with explicit transient waveforms: `dc:c`, `ac:w:a:b` (a cos wt + b sin wt), `ep:c:k:p`
    (c t^k/k! e^{pt} u(t)), `dl:c` (c δ(t)); the transient waveforms are collected into a table -/
def parseTerms (toks : List String) : Option (List (Term Rat) × List (Laplace.Term Rat)) :=
  toks.foldlM (fun (acc : List (Term Rat) × List (Laplace.Term Rat)) t =>
    match t.splitOn ":" with
    | ["dc", c] => (parseRat c).map (fun c => (acc.1 ++ [Term.dc c], acc.2))
    | ["ac", w, a, b] => do
        let w ← parseRat w; let a ← parseRat a; let b ← parseRat b
        some (acc.1 ++ [Term.ac w a b], acc.2)
    | ["ep", c, k, p] => do
        let c ← parseRat c; let k ← k.toNat?; let p ← parseRat p
        some (acc.1 ++ [Term.tr acc.2.length c], acc.2 ++ [Laplace.Term.ep 1 k p 0])
    | ["dl", c] => do
        let c ← parseRat c
        some (acc.1 ++ [Term.tr acc.2.length c], acc.2 ++ [Laplace.Term.dl 1 0 0])
    | _ => none) ([], [])

/-- the same with checked Gaussian-rational values (`re,im`): complex exponents stand for sinusoids -/
def parseTermsG (toks : List String) : Option (List (Term GQ) × List (Laplace.Term GQ)) :=
  toks.foldlM (fun (acc : List (Term GQ) × List (Laplace.Term GQ)) t =>
    match t.splitOn ":" with
    | ["dc", c] => (GQ.parse c).map (fun c => (acc.1 ++ [Term.dc c], acc.2))
    | ["ac", w, a, b] => do
        let w ← GQ.parse w; let a ← GQ.parse a; let b ← GQ.parse b
        some (acc.1 ++ [Term.ac w a b], acc.2)
    | ["ep", c, k, p] => do
        let c ← GQ.parse c; let k ← k.toNat?; let p ← GQ.parse p
        some (acc.1 ++ [Term.tr acc.2.length c], acc.2 ++ [Laplace.Term.ep 1 k p 0])
    | ["dl", c] => do
        let c ← GQ.parse c
        some (acc.1 ++ [Term.tr acc.2.length c], acc.2 ++ [Laplace.Term.dl 1 0 0])
    | _ => none) ([], [])

def XLofG (tbl : List (Laplace.Term GQ)) (s : GQ) : Nat → GQ :=
  fun i => match tbl[i]? with
    | some t => Laplace.Term.L (fun _ => 1) s t
    | none => 0

def parseSupLine (toks : List String) : Option Line :=
  match toks with
  | name :: n1 :: n2 :: "terms" :: rest =>
      (parseTerms rest).map (fun (ts, tbl) => Line.src ⟨name, n1, n2, ts, tbl⟩)
  | _ => some (Line.plain toks)

def parseNoiseLine (idx : Nat) (toks : List String) : Option NLine :=
  match toks with
  | [name, n1, n2, "noise", a] => (Lcapy.Netlist.parseVal a).map (fun a => NLine.src ⟨name, name.startsWith "V", n1, n2, a, s!"auto{idx}"⟩)
  | [name, n1, n2, "noise", a, nid] => (Lcapy.Netlist.parseVal a).map (fun a => NLine.src ⟨name, name.startsWith "V", n1, n2, a, nid⟩)
  | _ => some (NLine.plain toks)

def parseNE (t : String) : Option (Lcapy.Noise.NE Rat) :=
  match t.splitOn ":" with
  | ["amp", re, im, nid] => do
      let re ← parseRat re; let im ← parseRat im; let n ← nid.toNat?
      some ⟨.amp re im, n⟩
  | ["rss", p, nid] => do
      let p ← parseRat p; let n ← nid.toNat?
      some ⟨.rss p, n⟩
  | _ => none

def fmtNE (r : Option (Lcapy.Noise.NE Rat)) : String :=
  match r with
  | none => "none"
  | some ⟨.amp re im, n⟩ => s!"amp:{ratToStr re}:{ratToStr im}:{n}"
  | some ⟨.rss p, n⟩ => s!"rss:{ratToStr p}:{n}"

def parseForm (f : String) : Option Lcapy.Groups.Form :=
  match f.splitOn ":" with
  | ["kwdc"] => some .kwdc
  | ["kwac"] => some .kwac
  | ["kwstep"] => some .kwstep
  | ["kws"] => some .kws
  | ["texpr"] => some .texpr
  | ["noise", nid] => some (.noise nid)
  | _ => none

def parseGrpLine (toks : List String) : Option Lcapy.Groups.Line :=
  match toks with
  | [] => none
  | name :: rest =>
    if (name.startsWith "V" || name.startsWith "I") then
      match rest with
      | n1 :: n2 :: form :: terms => do
          let f ← parseForm form
          let (ts, _) ← parseTerms terms
          some (.src ⟨name, n1, n2, f, ts⟩)
      | _ => none
    else if name.startsWith "C" || name.startsWith "L" then
      match rest with
      | [n1, n2, v] => some (.react name n1 n2 v none)
      | [n1, n2, v, ic] => (Lcapy.Netlist.parseVal ic).map (fun r => .react name n1 n2 v (some r))
      | _ => none
    else if name.startsWith "F" || name.startsWith "H" then
      some (.dep name rest rest[2]?)
    else if name.startsWith "E" || name.startsWith "G" then
      some (.dep name rest none)
    else some (.other name rest)

def fmtKey : Lcapy.Groups.Key → String
  | .dc => "dc" | .ac w => s!"ac:{ratToStr w}" | .transient => "transient" | .noise n => s!"noise:{n}" | .ivp => "ivp" | .time => "time"

def fmtKilled : Lcapy.Groups.Killed → String
  | .wire a b => s!"W:{a}:{b}" | .open_ a b => s!"O:{a}:{b}" | .zeroed n a b => s!"zeroed:{n}:{a}:{b}"
  | .kept n => s!"kept:{n}" | .noIC n => s!"noic:{n}"

def b01 (b : Bool) : String := if b then "1" else "0"

def fmtAc (l : List (Rat × GQ)) : String :=
  "|".intercalate (l.map (fun (w, g) => s!"{ratToStr w}:{g}"))

def handle (toks : List String) : Option String :=
  match toks with
  | "sup.terms" :: s0 :: rest => some <|
      -- Laplace form of a signal given by its raw terms, part by part (checked arithmetic: a pole gives `undef`)
      match GQ.parse s0, parseTermsG rest with
      | some s, some (ts, tbl) =>
        let d := decompose ts
        let (dcL, acL, trL) := decompLapParts (XLofG tbl s) s d
        let ac := "|".intercalate (acL.map (fun p => s!"{p.1}:{p.2}"))
        s!"dc={dcL} ac={ac} tr={trL} total={decompLap (XLofG tbl s) s d}"
      | _, _ => "bad-op"
  | "sup.solve" :: s0 :: "||" :: rest => some <|
      match parseRat s0, (Lcapy.Driver.C01.splitSep rest).mapM parseSupLine with
      | some s, some ls =>
        match run s ls with
        | .fail m => s!"error {m}"
        | .ivp vals => "ok ivp " ++ " ".intercalate (vals.map (fun (n, v) => s!"{n}={v}"))
        | .super groups vals =>
          s!"ok super {",".intercalate groups} " ++
            " ".intercalate (vals.map (fun r => s!"{r.node}={r.dc};{fmtAc r.ac};{r.tr};{r.total}"))
      | _, _ => "bad-op"
  | ["nalg.op", op, fresh, x, y] => some <|
      match fresh.toNat?, parseNE x, parseNE y with
      | some f, some x, some y =>
        if op = "add" then fmtNE (Lcapy.Noise.add f x y)
        else if op = "sub" then fmtNE (Lcapy.Noise.sub f x y)
        else "bad-op"
      | _, _, _ => "bad-op"
  | ["nalg.op", op, _fresh, x] => some <|
      match parseNE x with
      | some x =>
        if op = "neg" then fmtNE (Lcapy.Noise.neg x)
        else match op.splitOn ":" with
          | ["smul", c] => match parseRat c with
            | some c => fmtNE (Lcapy.Noise.smul c x)
            | none => "bad-op"
          | _ => "bad-op"
      | none => "bad-op"
  | "nalg.super" :: rest => some <|
      -- `P1 + P2 + ... - Q1 - ...` on noise dictionaries: tokens `+nid:re:im` / `-nid:re:im`; reply: stored amplitudes and .n^2
      let step (acc : Option (Lcapy.Noise.NDict Rat)) (t : String) : Option (Lcapy.Noise.NDict Rat) := do
        let d ← acc
        let neg := t.startsWith "-"
        match ((t.drop 1).toString).splitOn ":" with
        | [nid, re, im] => do
            let n ← nid.toNat?; let re ← parseRat re; let im ← parseRat im
            some (if neg then Lcapy.Noise.superSub d [(n, (re, im))] else Lcapy.Noise.superAdd d [(n, (re, im))])
        | _ => none
      match rest.foldl step (some []) with
      | some d => s!"n2={ratToStr (Lcapy.Noise.totalPower d)} " ++
          " ".intercalate (d.map (fun p => s!"{p.1}:{ratToStr p.2.1}:{ratToStr p.2.2}"))
      | none => "bad-op"
  | "grp.run" :: "||" :: rest => some <|
      match (Lcapy.Driver.C01.splitSep rest).mapM parseGrpLine with
      | none => "bad-op"
      | some ls =>
        let g := Lcapy.Groups.analysisGroups ls
        let f := Lcapy.Groups.flags ls
        let cl (l : List String) : String := ",".intercalate l
        "groups " ++ ";".intercalate (g.map (fun p => s!"{fmtKey p.1}={cl p.2}")) ++
        s!" flags has_ic={b01 f.has_ic} zeroic={b01 f.zeroic} has_s={b01 f.has_s} has_ac={b01 f.has_ac} has_dc={b01 f.has_dc} " ++
        s!"has_transient={b01 f.has_transient} ac_count={f.ac_count} dc_count={f.dc_count} causal={b01 f.causal} reactive={b01 f.reactive} " ++
        s!"ac={b01 f.ac} dc={b01 f.dc} time_domain={b01 f.time_domain} ivp={b01 f.ivp} independent_sources={cl f.independent_sources} " ++
        s!"dependent_sources={cl f.dependent_sources} control_sources={cl f.control_sources} reactances={cl f.reactances} ics={cl f.ics}"
  | "grp.kill" :: mode :: names :: "||" :: rest => some <|
      match (Lcapy.Driver.C01.splitSep rest).mapM parseGrpLine with
      | none => "bad-op"
      | some ls =>
        let args := (names.splitOn ",").filter (· ≠ "-")
        let r := if mode = "except" then Lcapy.Groups.killExcept args ls else Lcapy.Groups.kill args ls
        "ok " ++ " ".intercalate (r.map fmtKilled)
  | "noise.resp" :: w :: pairs :: "||" :: rest => some <|
      -- per-source complex amplitude responses H_k(jw)·a_k between node pairs, and the spec's noise power
      let prs := (pairs.splitOn ",").filterMap (fun p => match p.splitOn ":" with | [a, b] => some (a, b) | _ => none)
      match parseRat w, ((Lcapy.Driver.C01.splitSep rest).zipIdx.mapM (fun (l, i) => parseNoiseLine i l)) with
      | some w, some ls =>
        match noiseResp w ls prs with
        | .error m => s!"error {m}"
        | .ok res =>
          "ok " ++ " ".intercalate (res.map (fun ((np, nm), vals) =>
            let pw := Lcapy.Noise.noisePower (groupsOf vals)
            s!"{np}:{nm}={ratToStr pw};" ++ "|".intercalate (vals.map (fun (s, g) => s!"{s.name}@{s.nid}@{g}"))))
      | _, _ => "bad-op"
  | "dec.run" :: rest => some <|
      match rest.mapM parseTerm with
      | none => "bad-op"
      | some ts =>
        let d := decompose ts
        let ac := ",".intercalate (d.ac.map (fun p => s!"{ratToStr p.1}:{ratToStr p.2.1}:{ratToStr p.2.2}"))
        let tr := ",".intercalate (d.tr.map (fun p => s!"{p.1}:{ratToStr p.2}"))
        s!"dc={ratToStr d.dc} ac={ac} tr={tr}"
  | "noise.power" :: rest => some <|
      -- tokens: groups separated by `|`, each source `re:im:a`
      let groups := (rest.foldr (fun t acc =>
        if t = "|" then [] :: acc else match acc with | [] => [[t]] | h :: r => (t :: h) :: r) [[]])
      let parseSrc (t : String) : Option ((Rat × Rat) × Rat) :=
        match t.splitOn ":" with
        | [re, im, a] => do
            let re ← parseRat re; let im ← parseRat im; let a ← parseRat a
            some ((re, im), a)
        | _ => none
      match groups.mapM (fun g => g.mapM parseSrc) with
      | some gs => ratToStr (Lcapy.Noise.noisePower gs)
      | none => "bad-op"
  | _ => none
end Lcapy.Driver.C03
