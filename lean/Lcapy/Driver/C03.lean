/- Line-protocol handler for the source-decomposition model of C03 (over Rat). -/
import Lcapy.Model.CRat
import Lcapy.Model.Decompose
import Lcapy.Spec.Noise
namespace Lcapy.Driver.C03
open Lcapy Lcapy.Decompose

def parseTerm (t : String) : Option (Term Rat) :=
  match t.splitOn ":" with
  | ["dc", c] => (parseRat c).map Term.dc
  | ["ac", w, a, b] => do
      let w ← parseRat w; let a ← parseRat a; let b ← parseRat b
      some (Term.ac w a b)
  | ["tr", i, c] => do
      let i ← i.toNat?; let c ← parseRat c
      some (Term.tr i c)
  | _ => none

def handle (toks : List String) : Option String :=
  match toks with
  | "dec.run" :: rest => some <|
      match rest.mapM parseTerm with
      | none => "bad-op"
      | some ts =>
        let d := decompose ts
        let ac := ",".intercalate (d.ac.map (fun p => s!"{ratToStr p.1}:{ratToStr p.2.1}:{ratToStr p.2.2}"))
        let tr := ",".intercalate (d.tr.map (fun p => s!"{p.1}:{ratToStr p.2}"))
        s!"dc={ratToStr d.dc} ac={ac} tr={tr}"
  | "noise.power" :: rest => some <|
      -- tokens: groups separated by `|`, each source `re:im:a`
      let groups := (rest.foldr (fun t acc =>
        if t = "|" then [] :: acc else match acc with | [] => [[t]] | h :: r => (t :: h) :: r) [[]])
      let parseSrc (t : String) : Option ((Rat × Rat) × Rat) :=
        match t.splitOn ":" with
        | [re, im, a] => do
            let re ← parseRat re; let im ← parseRat im; let a ← parseRat a
            some ((re, im), a)
        | _ => none
      match groups.mapM (fun g => g.mapM parseSrc) with
      | some gs => ratToStr (Lcapy.Noise.noisePower gs)
      | none => "bad-op"
  | _ => none
end Lcapy.Driver.C03
