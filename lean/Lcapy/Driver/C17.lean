/- Line-protocol handler for C17: special-function table, expression evaluators, spec judges.

   fn tokens      heaviside dirac sign rect tri ramp rampstep trap:<a> unitstep unitimpulse dtrect dtsign
                  sincn sincu sinc psinc:<M>
   expr tokens    prefix form:  var | c:<rat> | add A B | sub A B | mul A B | div A B | neg A | pow:<n> A |
                  app:<fn> A | pw:<rel> L R T E | nan          rel = lt le gt ge eq ne
   requests
     sf.num|sf.sym|sf.spec <fn> <x>          -> <rat> | none
     sf.disc <fn> <x>   sf.dom <fn>          -> true | false
     sf.near <tol> <fn> <x> <v>              -> true | false | nospec      |v - spec f x| ≤ tol·max(1,|spec f x|)
     sf.eq <fn> <x> <v|none>                 -> true | false               v = spec f x exactly (none = none)
     ev.num|ev.sym|ev.spec <x> <expr>        -> val <rat> | nan | other
     ev.func <causal:0|1> <x> <expr>         -> val <rat> | nan | other
     ev.regular <x> <expr>                   -> true | false
     ev.boundary <x> <expr>                  -> true | false      on the boundary of a Piecewise condition
     ev.near <tol> <x> <v> <expr>            -> true | false | nospec      against specEval
     ev.eq <x> <v|nan> <expr>                -> true | false | nospec      against specEval, exactly
     ev.arg <causal:0|1> <x1,x2,...> <expr>  -> array <rat> ... | error
     causal.infer <factor> ... | <factor> ...   factor = fn:<f>:<a>:<b> or  plain:<n> <n expr tokens>
                                             -> true | false
     causal.expr  (same)                     -> the prefix tokens of sumE (so the harness evaluates the same object)
-/
import Lcapy.Model.CRat
import Lcapy.Model.Evaluate
namespace Lcapy.Driver.C17
open Lcapy Lcapy.Evaluate
open Lcapy.Spec.SpecialFn (Fn spec disc inDomain)

def parseFn (s : String) : Option Fn :=
  match s.splitOn ":" with
  | ["heaviside"] => some .heaviside
  | ["dirac"] => some .dirac
  | ["sign"] => some .sign
  | ["rect"] => some .rect
  | ["tri"] => some .tri
  | ["ramp"] => some .ramp
  | ["rampstep"] => some .rampstep
  | ["unitstep"] => some .unitstep
  | ["unitimpulse"] => some .unitimpulse
  | ["dtrect"] => some .dtrect
  | ["dtsign"] => some .dtsign
  | ["sincn"] => some .sincn
  | ["sincu"] => some .sincu
  | ["sinc"] => some .sinc
  | ["trap", a] => (parseRat a).map Fn.trap
  | ["psinc", m] => (parseRat m).map Fn.psinc
  | _ => none

def parseRel : String → Option Rel
  | "lt" => some .lt | "le" => some .le | "gt" => some .gt | "ge" => some .ge | "eq" => some .eq | "ne" => some .ne
  | _ => none

def fnStr : Fn → String
  | .heaviside => "heaviside" | .dirac => "dirac" | .sign => "sign" | .rect => "rect" | .tri => "tri"
  | .ramp => "ramp" | .rampstep => "rampstep" | .trap a => s!"trap:{ratToStr a}" | .unitstep => "unitstep"
  | .unitimpulse => "unitimpulse" | .dtrect => "dtrect" | .dtsign => "dtsign" | .sincn => "sincn"
  | .sincu => "sincu" | .sinc => "sinc" | .psinc m => s!"psinc:{ratToStr m}"

def relStr : Rel → String
  | .lt => "lt" | .le => "le" | .gt => "gt" | .ge => "ge" | .eq => "eq" | .ne => "ne"

/-- prefix parser with fuel = number of tokens -/
def parseE : Nat → List String → Option (E × List String)
  | 0, _ => none
  | fuel + 1, tok :: rest =>
    let bin (mk : E → E → E) : Option (E × List String) := do
      let (a, r1) ← parseE fuel rest
      let (b, r2) ← parseE fuel r1
      some (mk a b, r2)
    match tok.splitOn ":" with
    | ["var"] => some (.var, rest)
    | ["nan"] => some (.nan, rest)
    | ["c", v] => (parseRat v).map (fun c => (E.const c, rest))
    | ["add"] => bin .add
    | ["sub"] => bin .sub
    | ["mul"] => bin .mul
    | ["div"] => bin .div
    | ["neg"] => do let (a, r1) ← parseE fuel rest; some (.neg a, r1)
    | ["pow", n] => do
        let k ← n.toNat?
        let (a, r1) ← parseE fuel rest
        some (.pow a k, r1)
    | "app" :: fparts => do
        let f ← parseFn (":".intercalate fparts)
        let (a, r1) ← parseE fuel rest
        some (.app f a, r1)
    | ["pw", r] => do
        let rel ← parseRel r
        let (l, r1) ← parseE fuel rest
        let (rh, r2) ← parseE fuel r1
        let (t, r3) ← parseE fuel r2
        let (e, r4) ← parseE fuel r3
        some (.pw rel l rh t e, r4)
    | _ => none
  | _ + 1, [] => none

def parseWhole (toks : List String) : Option E :=
  match parseE (toks.length + 1) toks with
  | some (e, []) => some e
  | _ => none

partial def printE : E → String
  | .var => "var"
  | .nan => "nan"
  | .const c => s!"c:{ratToStr c}"
  | .add a b => s!"add {printE a} {printE b}"
  | .sub a b => s!"sub {printE a} {printE b}"
  | .mul a b => s!"mul {printE a} {printE b}"
  | .div a b => s!"div {printE a} {printE b}"
  | .neg a => s!"neg {printE a}"
  | .pow a n => s!"pow:{n} {printE a}"
  | .app f a => s!"app:{fnStr f} {printE a}"
  | .pw r l rh t e => s!"pw:{relStr r} {printE l} {printE rh} {printE t} {printE e}"

def optStr : Option Rat → String
  | some v => ratToStr v
  | none => "none"

def outStr : Out → String
  | .val v => s!"val {ratToStr v}"
  | .nan => "nan"
  | .other => "other"

def rabs' (x : Rat) : Rat := if x < 0 then -x else x

/-- |v - r| ≤ tol · max(1, |r|) -/
def near (tol v r : Rat) : Bool :=
  let scale := if rabs' r < 1 then 1 else rabs' r
  decide (rabs' (v - r) ≤ tol * scale)

def parseFactors (toks : List String) : Option (List Factor) :=
  let rec go (fuel : Nat) (toks : List String) (acc : List Factor) : Option (List Factor) :=
    match fuel, toks with
    | _, [] => some acc.reverse
    | 0, _ => none
    | fuel + 1, tok :: rest =>
      match tok.splitOn ":" with
      | "fn" :: parts =>
        -- fn:<f>:<a>:<b>   (f itself may contain a ':' parameter)
        match parts.reverse with
        | b :: a :: frev => do
            let f ← parseFn (":".intercalate frev.reverse)
            let a ← parseRat a
            let b ← parseRat b
            go fuel rest (.fn f a b :: acc)
        | _ => none
      | ["plain", n] => do
          let k ← n.toNat?
          let e ← parseWhole (rest.take k)
          go fuel (rest.drop k) (.plain e :: acc)
      | _ => none
  go (toks.length + 1) toks []

def splitOnTok (sep : String) (toks : List String) : List (List String) :=
  let (cur, acc) := toks.foldl (fun (cur, acc) t => if t == sep then ([], cur.reverse :: acc) else (t :: cur, acc)) ([], [])
  (cur.reverse :: acc).reverse

def parseTerms (toks : List String) : Option (List (List Factor)) :=
  (splitOnTok "|" toks).mapM parseFactors

def handle (toks : List String) : Option String :=
  match toks with
  | ["sf.num", f, x] => some <| match parseFn f, parseRat x with
      | some f, some x => optStr (numericDef f x)
      | _, _ => "bad-op"
  | ["sf.sym", f, x] => some <| match parseFn f, parseRat x with
      | some f, some x => optStr (symbolicDef f x)
      | _, _ => "bad-op"
  | ["sf.spec", f, x] => some <| match parseFn f, parseRat x with
      | some f, some x => optStr (spec f x)
      | _, _ => "bad-op"
  | ["sf.disc", f, x] => some <| match parseFn f, parseRat x with
      | some f, some x => toString (disc f x)
      | _, _ => "bad-op"
  | ["sf.dom", f] => some <| match parseFn f with
      | some f => toString (inDomain f)
      | none => "bad-op"
  | ["sf.near", tol, f, x, v] => some <| match parseRat tol, parseFn f, parseRat x, parseRat v with
      | some tol, some f, some x, some v =>
        match spec f x with
        | some r => toString (near tol v r)
        | none => "nospec"
      | _, _, _, _ => "bad-op"
  | ["sf.eq", f, x, v] => some <| match parseFn f, parseRat x with
      | some f, some x =>
        if v == "none" then toString (spec f x == none)
        else match parseRat v with
          | some v => toString (spec f x == some v)
          | none => "bad-op"
      | _, _ => "bad-op"
  | "ev.num" :: x :: rest => some <| match parseRat x, parseWhole rest with
      | some x, some e => outStr (evalNumeric e x)
      | _, _ => "bad-op"
  | "ev.sym" :: x :: rest => some <| match parseRat x, parseWhole rest with
      | some x, some e => outStr (evalSymbolic e x)
      | _, _ => "bad-op"
  | "ev.spec" :: x :: rest => some <| match parseRat x, parseWhole rest with
      | some x, some e => outStr (specEval e x)
      | _, _ => "bad-op"
  | "ev.func" :: c :: x :: rest => some <| match parseRat x, parseWhole rest with
      | some x, some e => outStr (funcScalar (c == "1") e x)
      | _, _ => "bad-op"
  | "ev.boundary" :: x :: rest => some <| match parseRat x, parseWhole rest with
      | some x, some e => toString (onBoundary e x)
      | _, _ => "bad-op"
  | "ev.regular" :: x :: rest => some <| match parseRat x, parseWhole rest with
      | some x, some e => toString (regular e x)
      | _, _ => "bad-op"
  | "ev.near" :: tol :: x :: v :: rest => some <| match parseRat tol, parseRat x, parseRat v, parseWhole rest with
      | some tol, some x, some v, some e =>
        match specEval e x with
        | .val r => toString (near tol v r)
        | _ => "nospec"
      | _, _, _, _ => "bad-op"
  | "ev.eq" :: x :: v :: rest => some <| match parseRat x, parseWhole rest with
      | some x, some e =>
        match specEval e x with
        | .val r => (match parseRat v with
                     | some v => toString (v == r)
                     | none => if v == "nan" then "false" else "bad-op")
        | .nan => toString (v == "nan")
        | .other => "nospec"
      | _, _ => "bad-op"
  | "ev.arg" :: c :: xs :: rest => some <| match (xs.splitOn ",").mapM parseRat, parseWhole rest with
      | some xs, some e =>
        match evaluateArg (c == "1") e (.list xs) with
        | .array vs => "array " ++ " ".intercalate (vs.map ratToStr)
        | _ => "error"
      | _, _ => "bad-op"
  | "causal.infer" :: rest => some <| match parseTerms rest with
      | some ts => toString (isCausal ts)
      | none => "bad-op"
  | "causal.expr" :: rest => some <| match parseTerms rest with
      | some ts => printE (sumE ts)
      | none => "bad-op"
  | _ => none

end Lcapy.Driver.C17
