/-
  Line-protocol handler for C09 (forward Laplace transform) over the checked Gaussian rationals.

    lt <s> <T0> <w> <g> <v> <g2> <u> <zic> ; <x items> ; <y items> ; <raw term>
        -> <branch> <model value | none> <spec value | unsupported>
    sig.L <s> <T0> <w> <g> <v> <g2> <u> ; <items>          -> value of the formal transform of a signal
    sig.val0 ; <items>   -> f(0+)          sig.valinf ; <items> -> lim f(t), t -> oo (formal)

  numbers: `p/q` or `p/q,r/t` (real,imag).   items: `pre c k p` | `ep c k p d` | `dl c n d`.
  raw term: `prod c <atoms>` | `undef c a b` | `undefExp c a` | `dundef c n` | `dundefAt c n a b` | `deltaX c a b` | `iundef c`
            | `convXY c` | `convExpX c a`
    sig.at <s> <T0> <w> <g> <v> <g2> <u> ; <items> ; <tau>   -> value x(tau) of the regular part of a signal (evalAt)
  atoms: `tpow k` `lin a b` `exp a` `expb a b` `sin w ph` `cos w ph` `sinh a` `cosh a` `step a b` `delta n a b`
         `rect a b` `tri a b` `ramp a b` `rampstep a b`.

  The exponential stand-in `E` is the partial group homomorphism
        E( m·(−s·T0) + n·g + j·k·g2 ) = w^m · v^n · u^k        (m, n, k integers, |m| ≤ 600)
  (`w, v` rationals ≠ 0, `u` a Gaussian rational of modulus 1), defined only where the decomposition is
  unique; anywhere else it is the error value, which propagates to the reply (`undef`).
-/
import Lcapy.Model.CRat
import Lcapy.Model.ExpPoly
import Lcapy.Model.Laplace
namespace Lcapy.Driver.C09
open Lcapy Lcapy.Laplace

instance : LE GQ := ⟨fun a b => match a.v, b.v with
  | some x, some y => x.1 ≤ y.1
  | _, _ => False⟩
instance : DecidableLE GQ := fun a b => by
  unfold LE.le instLEGQ; simp only
  split <;> exact inferInstance

def parseGQ (s : String) : Option GQ :=
  match s.splitOn "," with
  | [a] => (parseRat a).map GQ.ofRat
  | [a, b] => do
      let x ← parseRat a
      let y ← parseRat b
      some (GQ.mk2 x y)
  | _ => none

def gqPowNat (x : GQ) : Nat → GQ
  | 0 => 1
  | n + 1 => gqPowNat x n * x

def gqPowInt (x : GQ) (m : Int) : GQ :=
  if m ≥ 0 then gqPowNat x m.toNat else (1 : GQ) / gqPowNat x (-m).toNat

structure EPar where
  s : Rat
  T0 : Rat
  w : GQ
  g : Rat
  v : GQ
  g2 : Rat
  u : GQ

def isInt (r : Rat) : Bool := r.den = 1

/-- the exponential stand-in (see the header) -/
def mkE (p : EPar) (x : GQ) : GQ :=
  match x.v with
  | none => GQ.undef
  | some (re, im) =>
    if p.g = 0 ∨ p.g2 = 0 then GQ.undef else
    let a := -(p.s * p.T0)
    let sols := (List.range 1201).filterMap (fun (i : Nat) =>
      let m : Int := Int.ofNat i - 600
      let n := (re - (m : Rat) * a) / p.g
      if isInt n ∧ n.num.natAbs ≤ 100000 then some (m, n.num) else none)
    let k := im / p.g2
    if !isInt k then GQ.undef else
    match sols with
    | [(m, n)] => gqPowInt p.w m * gqPowInt p.v n * gqPowInt p.u k.num
    | _ => if a = 0 ∧ isInt (re / p.g) then gqPowInt p.v (re / p.g).num * gqPowInt p.u k.num else GQ.undef

def splitOn (sep : String) (l : List String) : List (List String) :=
  let (cur, acc) := l.foldl (fun (st : List String × List (List String)) t =>
    if t = sep then ([], st.2 ++ [st.1]) else (st.1 ++ [t], st.2)) ([], [])
  acc ++ [cur]

partial def parseItems (l : List String) (pre : List (GQ × Nat × GQ)) (post : ExpPoly GQ) :
    Option (List (GQ × Nat × GQ) × ExpPoly GQ) :=
  match l with
  | [] => some (pre, post)
  | "pre" :: c :: k :: p :: rest => do
      let c ← parseGQ c; let k ← k.toNat?; let p ← parseGQ p
      parseItems rest (pre ++ [(c, k, p)]) post
  | "ep" :: c :: k :: p :: d :: rest => do
      let c ← parseGQ c; let k ← k.toNat?; let p ← parseGQ p; let d ← parseGQ d
      parseItems rest pre (post ++ [.ep c k p d])
  | "dl" :: c :: n :: d :: rest => do
      let c ← parseGQ c; let n ← n.toNat?; let d ← parseGQ d
      parseItems rest pre (post ++ [.dl c n d])
  | _ => none

partial def parseAtoms (l : List String) (acc : List (Atom GQ)) : Option (List (Atom GQ)) :=
  match l with
  | [] => some acc
  | "tpow" :: k :: rest => do let k ← k.toNat?; parseAtoms rest (acc ++ [.tpow k])
  | "lin" :: a :: b :: rest => do let a ← parseGQ a; let b ← parseGQ b; parseAtoms rest (acc ++ [.lin a b])
  | "exp" :: a :: rest => do let a ← parseGQ a; parseAtoms rest (acc ++ [.exp a])
  | "expb" :: a :: b :: rest => do let a ← parseGQ a; let b ← parseGQ b; parseAtoms rest (acc ++ [.expb a b])
  | "sin" :: w :: ph :: rest => do let w ← parseGQ w; let ph ← parseGQ ph; parseAtoms rest (acc ++ [.trig false w ph])
  | "cos" :: w :: ph :: rest => do let w ← parseGQ w; let ph ← parseGQ ph; parseAtoms rest (acc ++ [.trig true w ph])
  | "sinh" :: a :: rest => do let a ← parseGQ a; parseAtoms rest (acc ++ [.hyp false a])
  | "cosh" :: a :: rest => do let a ← parseGQ a; parseAtoms rest (acc ++ [.hyp true a])
  | "step" :: a :: b :: rest => do let a ← parseGQ a; let b ← parseGQ b; parseAtoms rest (acc ++ [.step a b])
  | "delta" :: n :: a :: b :: rest => do
      let n ← n.toNat?; let a ← parseGQ a; let b ← parseGQ b; parseAtoms rest (acc ++ [.delta n a b])
  | "rect" :: a :: b :: rest => do let a ← parseGQ a; let b ← parseGQ b; parseAtoms rest (acc ++ [.fn .rect a b])
  | "tri" :: a :: b :: rest => do let a ← parseGQ a; let b ← parseGQ b; parseAtoms rest (acc ++ [.fn .tri a b])
  | "ramp" :: a :: b :: rest => do let a ← parseGQ a; let b ← parseGQ b; parseAtoms rest (acc ++ [.fn .ramp a b])
  | "rampstep" :: a :: b :: rest => do let a ← parseGQ a; let b ← parseGQ b; parseAtoms rest (acc ++ [.fn .rampstep a b])
  | _ => none

def parseRaw (l : List String) : Option (Raw GQ) :=
  match l with
  | "prod" :: c :: rest => do let c ← parseGQ c; let a ← parseAtoms rest []; some (.prod c a)
  | ["undef", c, a, b] => do let c ← parseGQ c; let a ← parseGQ a; let b ← parseGQ b; some (.undef c a b)
  | ["undefExp", c, a] => do let c ← parseGQ c; let a ← parseGQ a; some (.undefExp c a)
  | ["dundef", c, n] => do let c ← parseGQ c; let n ← n.toNat?; some (.dundef c n)
  | ["dundefAt", c, n, a, b] => do
      let c ← parseGQ c; let n ← n.toNat?; let a ← parseGQ a; let b ← parseGQ b; some (.dundefAt c n a b)
  | ["deltaX", c, a, b] => do let c ← parseGQ c; let a ← parseGQ a; let b ← parseGQ b; some (.deltaX c a b)
  | ["iundef", c] => do let c ← parseGQ c; some (.iundef c)
  | ["convXY", c] => do let c ← parseGQ c; some (.convXY c)
  | ["convExpX", c, a] => do let c ← parseGQ c; let a ← parseGQ a; some (.convExpX c a)
  | _ => none

def parseEPar (l : List String) : Option EPar :=
  match l with
  | [s, t0, w, g, v, g2, u] => do
      let s ← parseRat s; let t0 ← parseRat t0; let w ← parseGQ w; let g ← parseRat g
      let v ← parseGQ v; let g2 ← parseRat g2; let u ← parseGQ u
      some ⟨s, t0, w, g, v, g2, u⟩
  | _ => none

def handle (toks : List String) : Option String :=
  match toks with
  | "lt" :: rest => some <| Id.run do
      match splitOn ";" rest with
      | [envT, xT, yT, rawT] =>
        match envT.reverse with
        | zic :: envR =>
          match parseEPar envR.reverse, parseItems xT [] [], parseItems yT [] [], parseRaw rawT with
          | some ep, some (xpre, xpost), some (_, ypost), some raw =>
            let env : Env GQ := { s := GQ.ofRat ep.s, E := mkE ep, J := GQ.J,
                                  xsig := ⟨xpre, xpost⟩, ysig := ypost, zic := zic = "1" }
            let (br, mv) := lcapyTerm env raw
            let sv := specValue env raw
            let ms := match mv with | some v => toString v | none => "none"
            let ss := match sv with | some v => toString v | none => "unsupported"
            s!"{br.name} {ms} {ss}"
          | _, _, _, _ => "bad-op"
        | [] => "bad-op"
      | _ => "bad-op"
  | "sig.L" :: rest => some <| Id.run do
      match splitOn ";" rest with
      | [envT, xT] =>
        match parseEPar envT, parseItems xT [] [] with
        | some ep, some (_, post) => toString (L (mkE ep) post (GQ.ofRat ep.s))
        | _, _ => "bad-op"
      | _ => "bad-op"
  | "sig.at" :: rest => some <| Id.run do
      match splitOn ";" rest with
      | [envT, xT, [tau]] =>
        match parseEPar envT, parseItems xT [] [], parseGQ tau with
        | some ep, some (_, post), some tau => toString (evalAt (mkE ep) post tau)
        | _, _, _ => "bad-op"
      | _ => "bad-op"
  | _ => none

end Lcapy.Driver.C09
