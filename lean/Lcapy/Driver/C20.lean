/- Line-protocol handler for the schematic layout model and spec (C20).

   lay.graphs <spacing> | <netlist line> | <netlist line> ...     model of SchemPlacerBase._make_graphs, canonical form
   lay.elts   <spacing> | <lines>                                  per element: class, nodes, angle, size, stretch, tcoords
   lay.spec   <spacing> | <lines>                                  the spec items (diagnostic)
   lay.check  <spacing> | <lines> || n=x,y n=x,y ...               Spec predicate `checkPos (specOf netlist)` on a layout
   lay.place  <spacing> | <lines>                                  the model's longest-path layout
   Netlist lines are raw text (`R1 1 2; right=2, fixed`); rationals are `p/q`. -/
import Lcapy.Model.CRat
import Lcapy.Model.Layout
namespace Lcapy.Driver.C20
open Lcapy Lcapy.Layout

def splitAt (sep : String) (toks : List String) : List (List String) :=
  let rec go (l : List String) (cur : List String) (acc : List (List String)) : List (List String) :=
    match l with
    | [] => (cur.reverse :: acc).reverse
    | t :: r => if t == sep then go r [] (cur.reverse :: acc) else go r (t :: cur) acc
  go toks [] []

/-- component type = the leading letters of the name (the generators only use `<Type><digits>` names) -/
def typeOf (name : String) : String := String.ofList (name.toList.takeWhile Char.isAlpha)

def parseLine (toks : List String) : Except String Elt := do
  let text := " ".intercalate toks
  let cs := text.toList
  let net := String.ofList (cs.takeWhile (· != ';'))
  let opts := parseOpts (String.ofList ((cs.dropWhile (· != ';')).drop 1))
  match (net.splitOn " ").filter (· != "") with
  | [] => throw "empty-line"
  | name :: rest =>
    let typ := typeOf name
    if typ == "U" then
      match rest with
      | kw :: _ => return ⟨name, typ, "U" ++ kw, [], opts⟩
      | [] => throw "U-without-kind"
    else if typ == "E" && (rest[2]? == some "opamp" || rest[2]? == some "fdopamp" || rest[2]? == some "inamp") then
      let cls := "E" ++ (rest[2]?.getD "")
      match lookupRow cls with
      | none => throw s!"unknown-class:{cls}"
      | some row => return ⟨name, typ, cls, (rest.take 2) ++ ((rest.drop 3).take (row.nodePinnames.length - 2)), opts⟩
    else if (typ == "Q" || typ == "M" || typ == "J") &&
        ["pnp", "npn", "nmos", "pmos", "njf", "pjf"].contains (rest[3]?.getD "") then
      return ⟨name, typ, typ ++ (rest[3]?.getD ""), rest.take 3, opts⟩
    else if typ == "SP" && ["pp", "pm", "ppp", "pmm", "ppm"].contains (rest[0]?.getD "") then
      let cls := "SP" ++ (rest[0]?.getD "")
      match lookupRow cls with
      | none => throw s!"unknown-class:{cls}"
      | some row => return ⟨name, typ, cls, (rest.drop 1).take row.nodePinnames.length, opts⟩
    else if typ == "SW" && rest[3]? == some "spdt" then
      return ⟨name, typ, "SWspdt", rest.take 3, opts⟩
    else
      match lookupRow typ with
      | none => throw s!"unknown-class:{typ}"
      | some row =>
        if rest.length < row.nodePinnames.length then throw "too-few-nodes"
        else return ⟨name, typ, typ, rest.take row.nodePinnames.length, opts⟩

/-- `@rot <angle> <cos> <sin>` and `@draw <key>` groups after the spacing -/
def parseRots : List String → Option (RotTable × List String)
  | [] => some ([], [])
  | "@rot" :: a :: c :: s :: rest => do
    let a ← parseRat a
    let c ← parseRat c
    let s ← parseRat s
    let t ← parseRots rest
    some ((a, c, s) :: t.1, t.2)
  | "@draw" :: k :: rest => do
    let t ← parseRots rest
    some (t.1, k :: t.2)
  | _ => none

def parseNetlist (toks : List String) : Except String Netlist := do
  match splitAt "|" toks with
  | (k :: rots) :: lines =>
    let some k := parseRat k | throw "bad-spacing"
    let some rots := parseRots rots | throw "bad-rotation-table"
    let elts ← (lines.filter (!·.isEmpty)).mapM parseLine
    return ⟨k, elts, rots.1, rots.2⟩
  | _ => throw "bad-request"

def parseLayout (toks : List String) : Option Layout :=
  toks.mapM fun t =>
    match t.splitOn "=" with
    | [n, xy] => match xy.splitOn "," with
      | [x, y] => do
        let x ← parseRat x
        let y ← parseRat y
        some (n, (x, y))
      | _ => none
    | _ => none

def r2s (x : Rat) : String := ratToStr x

def canonParts (nodes : List String) (links : List (String × String)) : String :=
  let parts := partition nodes links
  let cls := (parts.filter (·.length ≥ 2)).map (fun c => ",".intercalate (sortStr c))
  "|".intercalate (sortStr cls)

def canonEdges (nodes : List String) (links : List (String × String)) (edges : List Edge) : String :=
  let parts := partition nodes links
  let es := edges.map (fun e => s!"{repOf parts e.src}>{repOf parts e.dst}:{r2s e.size}:{if e.stretch then "s" else "f"}")
  ",".intercalate (dedup (sortStr es))

def hintStr (h : Hint) : String :=
  s!"hint:{h.a}>{h.b}:{repr h.dir}:{r2s h.len}:{if h.fixed then "f" else "s"}"

def itemStr : Item → String
  | .hint h => hintStr h
  | .body b => "body:" ++ (if b.stretch then "s" else "f") ++ ":" ++
      ",".intercalate (b.pins.map (fun p => s!"{p.1}@{r2s p.2.1}@{r2s p.2.2}"))

def handle (toks : List String) : Option String :=
  match toks with
  | "lay.graphs" :: rest => some <|
      match parseNetlist rest >>= graphsOf with
      | .error e => "error:" ++ e
      | .ok (all, g) =>
        s!"nodes={",".intercalate (sortStr all)} ; xparts={canonParts all g.xlinks} ; yparts={canonParts all g.ylinks} ; xedges={canonEdges all g.xlinks g.xedges} ; yedges={canonEdges all g.ylinks g.yedges}"
  | "lay.elts" :: rest => some <|
      match parseNetlist rest >>= (fun n => resolveAll (rotCodeP n.rots) n) with
      | .error e => "error:" ++ e
      | .ok (_, rs) =>
        " ; ".intercalate (rs.map fun r =>
          s!"{r.cls} {",".intercalate (r.pins.map (·.1))} {r2s r.angle} {r2s r.size} {if r.stretch then "s" else "f"} {if r.skip then "skip" else "place"} {",".intercalate (r.pins.map (fun p => r2s p.2.1 ++ "@" ++ r2s p.2.2))}")
  | "lay.spec" :: rest => some <|
      match parseNetlist rest >>= specOf with
      | .error e => "error:" ++ e
      | .ok s => s!"nodes={",".intercalate s.nodes} ; " ++ " ; ".intercalate (s.items.map itemStr)
  | "lay.check" :: rest => some <|
      match splitAt "||" rest with
      | [net, pos] =>
        match parseNetlist net >>= specOf, parseLayout pos with
        | .error e, _ => "error:" ++ e
        | _, none => "error:bad-layout"
        | .ok s, some L => if checkPos s L then "ok" else "fail " ++ firstFailure s L ++ " ; all=" ++ ",".intercalate (failures s L)
      | _ => "error:bad-request"
  | "lay.place" :: rest => some <|
      match parseNetlist rest >>= placeModel with
      | .error e => "error:" ++ e
      | .ok L => " ".intercalate (L.map fun e => s!"{e.1}={r2s e.2.1},{r2s e.2.2}")
  | _ => none

end Lcapy.Driver.C20
