/- Line-protocol handler for the model of Lcapy's graph placer (C20, round 3).

   plc.solve | <gnode names in dict order> | <name> f <cpt> <dst> <size> <s|f> … r <cpt> <dst> <size> <s|f> … | …
        one section per gnode with its forward (f) and reverse (r) edges in list order (the graph as built by the REAL
        `_make_graphs`, before `solve`).  Reply:
        ok <name>=<pos> … ; path=<a>>…>; conflicts=<…> ; messages=<…> ; steps=<node:src>dst:extent:separation:stretches:walkExtent:walkStretches …>
        or error:<kind>
   lay.pgraph <spacing> | <netlist lines>      the ordered x / y graphs the MODEL builds from the raw netlist (same format)
   lay.solve  <spacing> | <netlist lines>      model of SchemGraphPlacer.solve end to end: ok n=x,y … ; xconflicts=… ; yconflicts=… ; xmsg=… ; ymsg=…
   Rationals are `p/q`; a component name is a token without spaces (`-` for the dummy edges). -/
import Lcapy.Model.CRat
import Lcapy.Model.LayoutPlacer
import Lcapy.Driver.C20
namespace Lcapy.Driver.C20Placer
open Lcapy Lcapy.Layout Lcapy.Placer Lcapy.Driver.C20

def parseEdges (owner : String) : List String → Option (List GE × List GE)
  | [] => some ([], [])
  | kind :: cpt :: dst :: size :: st :: rest => do
    let sz ← parseRat size
    let (f, r) ← parseEdges owner rest
    let e : GE := ⟨if cpt == "-" then "" else cpt, owner, dst, sz, st == "s"⟩
    if kind == "f" then some (e :: f, r) else if kind == "r" then some (f, e :: r) else none
  | _ => none

def parseGraph (secs : List (List String)) : Option PGraph :=
  match secs with
  | names :: rest =>
    let nodes := rest.filterMap fun sec =>
      match sec with
      | [] => none
      | owner :: es => (parseEdges owner es).map (fun fr => (⟨owner, fr.1, fr.2⟩ : GN))
    if nodes.length != (rest.filter (!·.isEmpty)).length then none
    else if nodes.map (·.name) != names then none else some nodes
  | [] => none

def edgeStr (k : String) (e : GE) : String :=
  s!"{k} {if e.cpt == "" then "-" else e.cpt} {e.dst} {ratToStr e.size} {if e.stretch then "s" else "f"}"

def graphStr (g : PGraph) : String :=
  " ".intercalate g.names ++ " | " ++
  " | ".intercalate (g.map fun x => " ".intercalate (x.name :: (x.fedges.map (edgeStr "f") ++ x.redges.map (edgeStr "r"))))

def stepStr (s : StepInfo) : String :=
  s!"{s.node}:{s.src}>{s.dst}:{ratToStr s.extent}:{ratToStr s.separation}:{s.stretches}:{ratToStr s.walkExtent}:{s.walkStretches}:{s.kind}:{s.walkLen}"

def solvedStr (s : Solved) : String :=
  " ".intercalate (s.pos.map fun e => s!"{e.1}={ratToStr e.2}") ++
  " ; path=" ++ ">".intercalate (s.path.map (·.src)) ++
  " ; conflicts=" ++ ",".intercalate s.conflicts ++
  " ; messages=" ++ ",".intercalate s.messages ++
  " ; steps=" ++ " ".intercalate (s.steps.map stepStr) ++
  " ; certified=" ++ toString s.certified

def handle (toks : List String) : Option String :=
  match toks with
  | "plc.solve" :: "|" :: rest => some <|
      match parseGraph (splitAt "|" rest) with
      | none => "error:bad-graph"
      | some g =>
        match solve g with
        | .error m => "error:" ++ m
        | .ok s => "ok " ++ solvedStr s
  | "lay.pgraph" :: rest => some <|
      match parseNetlist rest >>= (fun n => resolveAll (rotCodeP n.rots) n) with
      | .error e => "error:" ++ e
      | .ok (all, rs) =>
        let g := makeGraphs rs
        let gx := buildGraph (partition all g.xlinks) (rawXs rs)
        let gy := buildGraph (partition all g.ylinks) (rawYs rs)
        s!"x: {graphStr gx} ;; y: {graphStr gy}"
  | "lay.solve" :: rest => some <|
      match parseNetlist rest >>= placeCode with
      | .error e => "error:" ++ e
      | .ok (L, sx, sy) =>
        "ok " ++ " ".intercalate (L.map fun e => s!"{e.1}={r2s e.2.1},{r2s e.2.2}") ++
        s!" ; xconflicts={",".intercalate sx.conflicts} ; yconflicts={",".intercalate sy.conflicts}" ++
        s!" ; xmsg={",".intercalate sx.messages} ; ymsg={",".intercalate sy.messages}"
  | _ => none

end Lcapy.Driver.C20Placer
