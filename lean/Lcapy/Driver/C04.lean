/- Line-protocol handler for the port operations of C04 (Model/PortOps.lean run on the C01 front-end and solver).

   port.<quantity> <analysis> || <netlist line> || … || <p> <m> [<p2> <m2>] [ground=<node>]
       quantity ∈ impedance admittance transfer transimpedance current_gain transadmittance   (killed netlist + probes)
                  voc isc                                                                     (ORIGINAL netlist)
       reply: `ok <value>` | `singular` | `error <msg>`
       with `ground=<node>` the experiment is run on the netlist RE-GROUNDED at that node (`Experiment.reground`)
   port.zparams / port.yparams <analysis> || … || <p1> <m1> <p2> <m2>      reply: `ok z11 z12 z21 z22`
   port.groundfree <analysis> || … ||                                       reply: `true` | `false`
   port.indep <analysis> || … ||          reply: every independent quantity of the killed netlist (all must be 0)
-/
import Lcapy.Driver.C01
import Lcapy.Model.PortOps
namespace Lcapy.Driver.C04
open Lcapy Lcapy.MNA Lcapy.Netlist Lcapy.Driver.C01

/-- solve a component list on the node classes of `e` with the branch names of `e` extended by `extra` -/
def solveOn (an : Analysis) (e : Elab) (cs : List (Cpt GQ)) : Option (Ix → GQ) :=
  let nbr := (cs.flatMap owned).foldl (fun a m => max a (m + 1)) 0
  let e' : Elab := { e with brs := e.brs ++ (List.range (nbr - e.brs.length)).map (fun i => s!"probe{i}_"),
                            cpts := cs.map (fun c => ("", c)) }
  match solve an e' with
  | some x => if checkSolves an e' x then some x else none
  | none => none

def runExp (an : Analysis) (e : Elab) (ex : Experiment GQ) (g : Option Nat) : String :=
  let ex := match g with | some g => ex.reground g | none => ex
  match solveOn an e ex.ckt with
  | some x => s!"ok {ex.obs.read x}"
  | none => "singular"

def parseTail (e : Elab) (toks : List String) : Except String (List Nat × Option Nat) := do
  let (gs, ns) := toks.partition (fun t => t.startsWith "ground=")
  let idx ← ns.mapM (nodeIdx e.cls)
  match gs with
  | [] => pure (idx, none)
  | g :: _ => do
      let gi ← nodeIdx e.cls ((g.drop 7).toString)
      pure (idx, some gi)

def handle (toks : List String) : Option String :=
  match toks with
  | cmd :: rest =>
    if !(cmd.startsWith "port.") then none else some <| Id.run do
      match splitSep rest with
      | anToks :: more =>
        match parseAnalysis anToks with
        | none => "bad-analysis"
        | some an =>
          let lines := (more.dropLast).map (fun l => " ".intercalate l)
          let tail := more.getLast?.getD []
          match elaborate an lines with
          | .error msg => s!"error {msg}"
          | .ok e =>
            let cs := e.cpts.map (·.2)
            let b := e.brs.length
            if cmd = "port.groundfree" then toString (cs.all Cpt.groundFreeB)
            else if cmd = "port.indep" then
              "ok " ++ " ".intercalate ((killAll cs).flatMap (fun c => c.indep.map toString))
            else
            match parseTail e tail with
            | .error msg => s!"error {msg}"
            | .ok (ns, g) =>
              match cmd, ns with
              | "port.impedance", [p, m] => runExp an e (impedanceExp cs p m) g
              | "port.admittance", [p, m] => runExp an e (admittanceExp cs p m b) g
              | "port.transfer", [p1, m1, p2, m2] => runExp an e (transferExp cs p1 m1 p2 m2 b) g
              | "port.transimpedance", [p1, m1, p2, m2] => runExp an e (transimpedanceExp cs p1 m1 p2 m2) g
              | "port.current_gain", [p1, m1, p2, m2] => runExp an e (currentGainExp cs p1 m1 p2 m2 b) g
              | "port.transadmittance", [p1, m1, p2, m2] => runExp an e (transadmittanceExp cs p1 m1 p2 m2 b (b + 1)) g
              | "port.voc", [p, m] => runExp an e ⟨cs, .dv p m⟩ g
              | "port.isc", [p, m] => runExp an e ⟨cs ++ [.V p m b 0], .br b⟩ g
              | "port.zparams", [p1, m1, p2, m2] =>
                match solveOn an e (zDrive cs p1 m1 p2 m2 1 0), solveOn an e (zDrive cs p1 m1 p2 m2 0 1) with
                | some x1, some x2 => s!"ok {vd x1 p1 m1} {vd x2 p1 m1} {vd x1 p2 m2} {vd x2 p2 m2}"
                | _, _ => "singular"
              | "port.yparams", [p1, m1, p2, m2] =>
                match solveOn an e (yDrive cs p1 m1 p2 m2 b (b + 1) 1 0), solveOn an e (yDrive cs p1 m1 p2 m2 b (b + 1) 0 1) with
                | some x1, some x2 =>
                  s!"ok {-(x1 (.br b))} {-(x2 (.br b))} {-(x1 (.br (b + 1)))} {-(x2 (.br (b + 1)))}"
                | _, _ => "singular"
              | _, _ => "bad-op"
      | [] => "bad-op"
  | [] => none

end Lcapy.Driver.C04
