/- Line-protocol handler for the discrete-time model and spec (C13).
   Raw inputs only: term descriptors, coefficient lists, literal sequences.  Models run over
   checked rationals (`CRat`), spec predicates over `Rat`. -/
import Lcapy.Model.CRat
import Lcapy.Model.Fp
import Lcapy.Model.DT
import Lcapy.Spec.DT
import Lcapy.Generated.DTSeq
import Lcapy.Model.DTSel
namespace Lcapy.Driver.C13
open Lcapy Lcapy.DT

def splitOnTok (sep : String) (l : List String) : List (List String) :=
  let (cur, acc) := l.foldl (fun (st : List String × List (List String)) t =>
    if t = sep then ([], st.1.reverse :: st.2) else (t :: st.1, st.2)) ([], [])
  (cur.reverse :: acc).reverse

def parseList {α : Type} (f : String → Option α) (s : String) : Option (List α) :=
  if s = "-" then some [] else (s.splitOn ",").mapM f

def listStr {α : Type} (f : α → String) (l : List α) : String :=
  if l.isEmpty then "-" else ",".intercalate (l.map f)

/-- `coef p a imp d | step d | one | cos cb sb cc sc | sin cb sb cc sc` -/
def parseTerm {α : Type} (f : String → Option α) : List String → Option (CTerm α)
  | [c, p, a, "imp", d] => do some ⟨← f c, ← p.toNat?, ← f a, .imp (← d.toInt?)⟩
  | [c, p, a, "step", d] => do some ⟨← f c, ← p.toNat?, ← f a, .step (← d.toInt?)⟩
  | [c, p, a, "one"] => do some ⟨← f c, ← p.toNat?, ← f a, .one⟩
  | [c, p, a, "cos", cb, sb, cc, sc] => do
      some ⟨← f c, ← p.toNat?, ← f a, .cos (← f cb) (← f sb) (← f cc) (← f sc)⟩
  | [c, p, a, "sin", cb, sb, cc, sc] => do
      some ⟨← f c, ← p.toNat?, ← f a, .sin (← f cb) (← f sb) (← f cc) (← f sc)⟩
  | [c, p, a, "gcos", g, cb, sb, cc, sc] => do
      some ⟨← f c, ← p.toNat?, ← f a, .gated false false (← g.toInt?) (← f cb) (← f sb) (← f cc) (← f sc)⟩
  | [c, p, a, "gsin", g, cb, sb, cc, sc] => do
      some ⟨← f c, ← p.toNat?, ← f a, .gated true false (← g.toInt?) (← f cb) (← f sb) (← f cc) (← f sc)⟩
  | [c, p, a, "icos", g, cb, sb, cc, sc] => do
      some ⟨← f c, ← p.toNat?, ← f a, .gated false true (← g.toInt?) (← f cb) (← f sb) (← f cc) (← f sc)⟩
  | [c, p, a, "isin", g, cb, sb, cc, sc] => do
      some ⟨← f c, ← p.toNat?, ← f a, .gated true true (← g.toInt?) (← f cb) (← f sb) (← f cc) (← f sc)⟩
  | _ => none

def parseSig {α : Type} (f : String → Option α) (toks : List String) : Option (List (CTerm α)) :=
  if toks.isEmpty then some [] else (splitOnTok ";" toks).mapM (parseTerm f)

/-- input sequence: `lit n0 v0,v1,…` or `sig <terms>` -/
def parseX (toks : List String) : Option (Int → CRat) :=
  match toks with
  | ["lit", n0, vs] => do
      let n0 ← n0.toInt?
      let vs ← parseList parseCRat vs
      some (litVal vs n0)
  | "sig" :: rest => do
      let ts ← parseSig parseCRat rest
      some (sigVal ts)
  | _ => none

def parseXR (toks : List String) : Option (Int → Rat) :=
  match toks with
  | ["lit", n0, vs] => do
      let n0 ← n0.toInt?
      let vs ← parseList parseRat vs
      some (litVal vs n0)
  | "sig" :: rest => do
      let ts ← parseSig parseRat rest
      some (sigVal ts)
  | _ => none

def zrStr (r : ZR CRat) : String :=
  s!"{r.adv} {listStr toString r.num} {listStr toString r.den}"


/-- `coef p a step|imp d none` | `… cos eb ec` | `… sin eb ec j` -/
def parseDTerm {α : Type} (f : String → Option α) : List String → Option (DTerm α)
  | [c, p, a, g, d, "none"] => do
      some ⟨← f c, ← p.toNat?, ← f a, g == "step", ← d.toInt?, .none⟩
  | [c, p, a, g, d, "cos", eb, ec] => do
      some ⟨← f c, ← p.toNat?, ← f a, g == "step", ← d.toInt?, .cos (← f eb) (← f ec)⟩
  | [c, p, a, g, d, "sin", eb, ec, j] => do
      some ⟨← f c, ← p.toNat?, ← f a, g == "step", ← d.toInt?, .sin (← f eb) (← f ec) (← f j)⟩
  | _ => none

def parseDSig {α : Type} (f : String → Option α) (toks : List String) : Option (List (DTerm α)) :=
  if toks.isEmpty then some [] else (splitOnTok ";" toks).mapM (parseDTerm f)

def handle (toks : List String) : Option String :=
  match toks with
  -- model: z-transform closed form, evaluated at z
  | "zt.model" :: z :: "|" :: rest => some <| Id.run do
      match parseCRat z, parseSig parseCRat rest with
      | some z, some ts =>
        let r := ztSig ts
        s!"{r.eval z} {zrStr r}"
      | _, _ => "bad-op"
  -- spec: does `z^adv num(w)/den(w)` expand to Σ x[n] w^n (n ≤ N)?
  | "zt.spec" :: n :: adv :: num :: den :: "|" :: rest => some <| Id.run do
      match n.toNat?, adv.toNat?, parseList parseRat num, parseList parseRat den, parseSig parseRat rest with
      | some n, some adv, some num, some den, some ts =>
        match ztSpecCheck (sigVal ts) ⟨adv, num, den⟩ n with
        | none => "ok"
        | some j => s!"fail {j}"
      | _, _, _, _, _ => "bad-op"
  -- spec: values of the sequence
  | "sig.vals" :: n0 :: n1 :: "|" :: rest => some <| Id.run do
      match n0.toInt?, n1.toInt?, parseSig parseCRat rest with
      | some n0, some n1, some ts =>
        listStr toString ((List.range (n1 - n0 + 1).toNat).map fun (i : Nat) => sigVal ts (n0 + Int.ofNat i))
      | _, _, _ => "bad-op"
  -- spec: claimed samples v[n0], v[n0+1], … equal x[n]
  | "sig.check" :: n0 :: vs :: "|" :: rest => some <| Id.run do
      match n0.toInt?, parseList parseRat vs, parseSig parseRat rest with
      | some n0, some vs, some ts =>
        match firstDiff vs ((List.range vs.length).map fun (i : Nat) => sigVal ts (n0 + Int.ofNat i)) 0 with
        | none => "ok"
        | some j => s!"fail {n0 + Int.ofNat j}"
      | _, _, _ => "bad-op"
  -- model: power series of B(w)/A(w) (inverse z-transform samples / impulse response)
  | ["izt.model", n, num, den] => some <| Id.run do
      match n.toNat?, parseList parseCRat num, parseList parseCRat den with
      | some n, some num, some den => listStr toString (series num den n)
      | _, _, _ => "bad-op"
  -- spec: claimed samples h[0..] satisfy A*h = B coefficient-wise
  | ["izt.spec", hs, num, den] => some <| Id.run do
      match parseList parseRat hs, parseList parseRat num, parseList parseRat den with
      | some hs, some num, some den =>
        match firstDiff ((List.range hs.length).map fun (n : Nat) => bsum den (litVal hs 0) (Int.ofNat n))
                        ((List.range hs.length).map fun n => num.getD n 0) 0 with
        | none => "ok"
        | some j => s!"fail {j}"
      | _, _, _ => "bad-op"
  -- model: DLTIFilter.response, y[0..n-1]
  | "resp.model" :: n :: b :: a :: ic :: "|" :: rest => some <| Id.run do
      match n.toNat?, parseList parseCRat b, parseList parseCRat a, parseList parseCRat ic, parseX rest with
      | some n, some b, some a, some ic, some x =>
        listStr toString ((respRun b a x ic n).take n).reverse
      | _, _, _, _, _ => "bad-op"
  -- spec: the difference equation holds at i = 0..len(ys)-1 for y = ic (negative side) ++ ys
  | "resp.spec" :: ys :: b :: a :: ic :: "|" :: rest => some <| Id.run do
      match parseList parseRat ys, parseList parseRat b, parseList parseRat a, parseList parseRat ic, parseXR rest with
      | some ys, some b, some a, some ic, some x =>
        let y : Int → Rat := fun i => if 0 ≤ i then ys.getD i.toNat 0 else ic.getD (-i - 1).toNat 0
        match (List.range ys.length).find? (fun i => !(deHolds b a x y (Int.ofNat i))) with
        | none => "ok"
        | some j => s!"fail {j}"
      | _, _, _, _, _ => "bad-op"
  -- spec: (b', a') describes the same transfer function as (b, a) and is normalised
  | ["filt.spec", b, a, b2, a2] => some <| Id.run do
      match parseList parseRat b, parseList parseRat a, parseList parseRat b2, parseList parseRat a2 with
      | some b, some a, some b2, some a2 =>
        if a2.headD 0 ≠ 1 then "fail a0"
        else if sameRatfun b a b2 a2 then "ok" else "fail ratfun"
      | _, _, _, _ => "bad-op"
  -- model: transfer_function() at z
  | ["tf.model", z, b, a] => some <| Id.run do
      match parseCRat z, parseList parseCRat b, parseList parseCRat a with
      | some z, some b, some a => toString (peval b (1 / z) / peval a (1 / z))
      | _, _, _ => "bad-op"
  -- model: DFT closed form of the term list at q (an element of F_P with q^N = 1), N numeric or symbolic
  | "dft.model" :: mode :: n :: q :: "|" :: rest => some <| Id.run do
      match n.toNat?, Fp.parse q, parseSig Fp.parse rest with
      | some n, some q, some ts =>
        match dftSig (mode == "num") ts n q with
        | some v => toString v
        | none => "unmodelled"
      | _, _, _ => "bad-op"
  -- spec: the defining sum  Σ_{n<N} x[n] q^n  in F_P
  | "dft.spec" :: n :: q :: "|" :: rest => some <| Id.run do
      match n.toNat?, Fp.parse q, parseSig Fp.parse rest with
      | some n, some q, some ts => toString (dftSum (fun i => sigVal ts (Int.ofNat i)) q n)
      | _, _, _ => "bad-op"
  -- spec: values of the sequence in F_P
  | "sig.valsfp" :: n0 :: n1 :: "|" :: rest => some <| Id.run do
      match n0.toInt?, n1.toInt?, parseSig Fp.parse rest with
      | some n0, some n1, some ts =>
        listStr toString ((List.range (n1 - n0 + 1).toNat).map fun (i : Nat) => sigVal ts (n0 + Int.ofNat i))
      | _, _, _ => "bad-op"
  -- spec: the defining sum for a literal list of F_P values (used for IDFT(DFT x) = x:  Σ_k X[k] q^k)
  | ["dft.sumlit", q, vs] => some <| Id.run do
      match Fp.parse q, parseList Fp.parse vs with
      | some q, some vs => toString (dftSum (fun i => vs.getD i 0) q vs.length)
      | _, _ => "bad-op"
  -- model: samples of initial_response (zdomain_initial_response expanded by long division)
  | ["ini.model", n, b, a, ic, xic] => some <| Id.run do
      match n.toNat?, parseList parseCRat b, parseList parseCRat a, parseList parseCRat ic, parseList parseCRat xic with
      | some n, some b, some a, some ic, some xic => listStr toString (series (iniNum b a ic xic) a n)
      | _, _, _, _, _ => "bad-op"
  -- model: Sequence.lfilter(b, a) on the value list x (Python list semantics)
  | ["lf.model", b, a, x] => some <| Id.run do
      match parseList parseCRat b, parseList parseCRat a, parseList parseCRat x with
      | some b, some a, some x => listStr toString (lfilterPy b a x)
      | _, _, _ => "bad-op"
  -- model: Sequence.convolve (values only; the first index is x.n[0] + h.n[0])
  | ["conv.model", x, h] => some <| Id.run do
      match parseList parseCRat x, parseList parseCRat h with
      | some x, some h => listStr toString (convolvePy x h)
      | _, _ => "bad-op"
  -- spec: y (first index y0) is the convolution of x (first index x0) and h (first index h0), checked on a
  -- window that extends 2 samples beyond every support
  | ["conv.spec", y0, ys, x0, xs, h0, hs] => some <| Id.run do
      match y0.toInt?, parseList parseRat ys, x0.toInt?, parseList parseRat xs, h0.toInt?, parseList parseRat hs with
      | some y0, some ys, some x0, some xs, some h0, some hs =>
        let lo := min y0 (x0 + h0) - 2
        let len := (max (y0 + ys.length) (x0 + h0 + xs.length + hs.length) + 2 - lo).toNat
        match (List.range len).find? (fun (i : Nat) =>
            let n := lo + Int.ofNat i
            !(decide (litVal ys y0 n = convAt hs (litVal xs x0) (n - h0)))) with
        | none => "ok"
        | some j => s!"fail {lo + Int.ofNat j}"
      | _, _, _, _, _, _ => "bad-op"
  -- spec: the defining bilateral DTFT sum  Σ_{n=lo}^{lo+len-1} x[n] q^n  in F_P  (q = image of e^{-jΩ})
  | "dtft.spec" :: lo :: len :: q :: "|" :: rest => some <| Id.run do
      match lo.toInt?, len.toNat?, Fp.parse q, parseSig Fp.parse rest with
      | some lo, some len, some q, some ts => toString (dtftSum (sigVal ts) q lo len)
      | _, _, _, _ => "bad-op"
  -- model: the z-transform closed form evaluated on the unit circle, z = image of e^{jΩ} in F_P
  | "dtft.model" :: z :: "|" :: rest => some <| Id.run do
      match Fp.parse z, parseSig Fp.parse rest with
      | some z, some ts =>
        let r := ztSig ts
        if peval r.den (1 / z) = 0 then "undef" else toString (r.eval z)
      | _, _ => "bad-op"
  -- model: nseq.ZT terms (value list, first index n0) at z; reply `<first index of the result> <terms>`
  | ["seq.zt", z, n0, vs] => some <| Id.run do
      match parseCRat z, n0.toInt?, parseList parseCRat vs with
      | some z, some n0, some vs =>
        s!"{seqZTIndex n0} {listStr toString (seqZTModel vs n0 z)}"
      | _, _, _ => "bad-op"
  -- model: zseq.IZT of nseq.ZT (round trip), reply `<first index> <values>`
  | ["seq.iztzt", z, n0, vs] => some <| Id.run do
      match parseCRat z, n0.toInt?, parseList parseCRat vs with
      | some z, some n0, some vs =>
        let i0 := seqZTIndex n0
        s!"{seqIZTIndex i0} {listStr toString (seqIZTModel (seqZTModel vs n0 z) i0 z)}"
      | _, _, _ => "bad-op"
  -- spec: the defining sums of the literal sequence at z: `<bilateral Σ x[n] z^-n> <unilateral Σ_{n≥0} x[n] z^-n>`
  | ["seq.ztspec", z, n0, vs] => some <| Id.run do
      match parseRat z, n0.toInt?, parseList parseRat vs with
      | some z, some n0, some vs =>
        let bi := dtftSum (litVal vs n0) (1 / z) n0 vs.length
        let uni := dtftSum (fun n => if 0 ≤ n then litVal vs n0 n else 0) (1 / z) n0 vs.length
        s!"{ratToStr bi} {ratToStr uni}"
      | _, _, _ => "bad-op"
  -- model: nseq.DFT element at q (F_P), and spec: the bilateral sum over the sequence's own index range
  | ["seq.dft", q, n0, vs] => some <| Id.run do
      match Fp.parse q, n0.toInt?, parseList Fp.parse vs with
      | some q, some n0, some vs =>
        s!"{seqDFTPy vs n0 q} {dtftSum (litVal vs n0) q n0 vs.length}"
      | _, _, _ => "bad-op"
  -- model: the DTFT rule cascade (regular part) evaluated at E = e^{-jΩ} (F_P), plus the Dirac-comb pairs
  | "dtft2.model" :: e :: "|" :: rest => some <| Id.run do
      match Fp.parse e, parseDSig Fp.parse rest with
      | some e, some ts =>
        let r := dtftRegSig ts
        let combs := ts.foldr (fun t acc => dtftComb t ++ acc) []
        let cs := listStr (fun (p : Fp × Fp) => s!"{p.1}:{p.2}") combs
        if peval r.den e = 0 then s!"undef {cs}" else s!"{r.eval (1 / e)} {cs}"
      | _, _ => "bad-op"
  -- spec: the bilateral defining sum Σ_{n=lo}^{lo+len-1} x[n] E^n of the DTFT term list (F_P)
  | "dtft2.spec" :: lo :: len :: e :: "|" :: rest => some <| Id.run do
      match lo.toInt?, len.toNat?, Fp.parse e, parseDSig Fp.parse rest with
      | some lo, some len, some e, some ts => toString (dtftSum (dsigVal ts) e lo len)
      | _, _, _, _ => "bad-op"
  -- spec: the bilateral defining sum of a literal list of F_P values with first index lo:  Σ_i vs[i] q^(lo+i)
  | ["dtft.sumlit", lo, q, vs] => some <| Id.run do
      match lo.toInt?, Fp.parse q, parseList Fp.parse vs with
      | some lo, some q, some vs => toString (dtftSum (litVal vs lo) q lo vs.length)
      | _, _, _ => "bad-op"
  -- spec: values of the DTFT term list (F_P)
  | "dtft2.vals" :: lo :: len :: "|" :: rest => some <| Id.run do
      match lo.toInt?, len.toNat?, parseDSig Fp.parse rest with
      | some lo, some len, some ts =>
        listStr toString ((List.range len).map fun (i : Nat) => dsigVal ts (lo + Int.ofNat i))
      | _, _, _ => "bad-op"
  -- model: discretize by substitution; kind = gbt (alpha) | simpson; H(s) = num/den lowest power first; value at z
  | ["disc.model", kind, alpha, dt, z, num, den] => some <| Id.run do
      match parseCRat alpha, parseCRat dt, parseCRat z, parseList parseCRat num, parseList parseCRat den with
      | some alpha, some dt, some z, some num, some den =>
        let nd := if kind == "simpson" then discretizeSimpson dt num den else discretizeGBT alpha dt num den
        s!"{peval nd.1 (1 / z) / peval nd.2 (1 / z)} {listStr toString nd.1} {listStr toString nd.2}"
      | _, _, _, _, _ => "bad-op"
  -- spec: H evaluated at the DOCUMENTED map s(z): gbt  s = (1/dt)(1 - 1/z)/(alpha + (1 - alpha)/z),
  --       simpson  s = (3/dt)(z^2 - 1)/(z^2 + 4 z + 1)
  | ["disc.spec", kind, alpha, dt, z, num, den] => some <| Id.run do
      match parseCRat alpha, parseCRat dt, parseCRat z, parseList parseCRat num, parseList parseCRat den with
      | some alpha, some dt, some z, some num, some den =>
        let s0 : CRat := if kind == "simpson" then (1 + 1 + 1) / dt * (z * z - 1) / (z * z + (1 + 1 + 1 + 1) * z + 1)
                 else 1 / dt * (1 - 1 / z) / (alpha + (1 - alpha) * (1 / z))
        toString (peval num s0 / peval den s0)
      | _, _, _, _, _ => "bad-op"
  -- model: impulse invariance of Σ r_i/(s - p_i) given E_i = exp(p_i dt): value at z and first n samples
  | "ii.model" :: dt :: z :: n :: "|" :: rest => some <| Id.run do
      match parseCRat dt, parseCRat z, n.toNat? with
      | some dt, some z, some n =>
        let pairs := (splitOnTok ";" rest).filterMap fun
          | [r, e] => do some ((← parseCRat r), (← parseCRat e))
          | _ => none
        let r := impulseInvariance dt pairs
        s!"{r.eval z} {listStr toString (series r.num r.den n)}"
      | _, _, _ => "bad-op"
  | _ => none

end Lcapy.Driver.C13
