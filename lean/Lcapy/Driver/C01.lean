/- Line-protocol handler for the MNA model and the `Laws` spec (C01; reused by C03, C04, C14). -/
import Lcapy.Model.Netlist
import Lcapy.Spec.LawsExec
namespace Lcapy.Driver.C01
open Lcapy Lcapy.MNA Lcapy.Netlist

/-- split a token list at the separator token `||` -/
def splitSep (toks : List String) : List (List String) :=
  toks.foldr (fun t acc =>
    if t = "||" then [] :: acc
    else match acc with
      | [] => [[t]]
      | h :: r => (t :: h) :: r) [[]]

def parseAnalysis (toks : List String) : Option Analysis :=
  match toks with
  | ["dc"] => some .dc
  | ["s", v] => (GQ.parse v).map .lap
  | ["ivp", v] => (GQ.parse v).map .ivp
  | ["ac", w] => (GQ.parse w).map .ac
  | _ => none

/-- assignments `V <node>=<val>` / `J <branch name>=<val>` into an unknown vector -/
def parseAssign (e : Elab) (toks : List String) : Except String (Ix → GQ) := do
  let rec go (toks : List String) (mode : String) (acc : List (Ix × GQ)) : Except String (List (Ix × GQ)) :=
    match toks with
    | [] => pure acc
    | "V" :: r => go r "V" acc
    | "J" :: r => go r "J" acc
    | t :: r =>
      match t.splitOn "=" with
      | [k, v] =>
        match GQ.parse v with
        | none => throw s!"bad-value:{t}"
        | some g =>
          if mode = "V" then
            match findClass e.cls k with
            | some i => go r mode ((Ix.node i, g) :: acc)
            | none => throw s!"unknown-node:{k}"
          else
            match e.brs.idxOf? k with
            | some m => go r mode ((Ix.br m, g) :: acc)
            | none => throw s!"unknown-branch:{k}"
      | _ => throw s!"bad-assignment:{t}"
  let l ← go toks "V" []
  pure (fun ix => match l.find? (fun p => p.1 == ix) with | some p => p.2 | none => 0)

def className (e : Elab) (k : Nat) : String := ((e.cls.getD k []).head?).getD "?"

def handle (toks : List String) : Option String :=
  match toks with
  | cmd :: rest =>
    if !(cmd.startsWith "mna.") then none else some <| Id.run do
      match splitSep rest with
      | anToks :: more =>
        match parseAnalysis anToks with
        | none => "bad-analysis"
        | some an =>
          let (lineToks, tail) :=
            if cmd = "mna.solve" || cmd = "mna.matrix" || cmd = "mna.alloc" || cmd = "mna.expand" then (more, ([] : List String))
            else (more.dropLast, more.getLast?.getD [])
          let lines := lineToks.map (fun l => " ".intercalate l)
          if cmd = "mna.expand" then
            -- one round of `_expand` over the parsed lines: `name|type|nodes|args` per resulting line
            match lines.mapM parseLine with
            | .error msg => s!"error {msg}"
            | .ok raw0 =>
              "ok " ++ " ".intercalate ((expandOnce raw0).map (fun c =>
                s!"{c.name}|{c.ty}|{",".intercalate c.nodes}|{",".intercalate c.args}"))
          else
          match elaborate an lines with
          | .error msg => s!"error {msg}"
          | .ok e =>
            let cs := e.cpts.map (·.2)
            if cmd = "mna.solve" then
              match solve an e with
              | none => "singular"
              | some x =>
                if !(checkSolves an e x) then "singular" else
                let vs := e.cls.zipIdx.flatMap (fun (c, i) => c.map (fun n => s!"{n}={volt x i}"))
                let js := e.brs.zipIdx.map (fun (b, m) => s!"{b}={x (.br m)}")
                -- currents of the components without a branch unknown, as `MNA._solve` reconstructs them
                let is := e.cpts.filterMap (fun (n, c) =>
                  if (owned c).isEmpty then (reportedCurrent an.kind an.s x c).map (fun v => s!"{n}={v}") else none)
                "ok V " ++ " ".intercalate vs ++ " J " ++ " ".intercalate js ++ " I " ++ " ".intercalate is
            else if cmd = "mna.matrix" then
              let st := (stampAll an.kind an.s cs).append e.extra     -- as the code assembles it
              let us := unknowns e
              let nm (ix : Ix) : String := match ix with
                | .node k => "n:" ++ className e k
                | .br m => "b:" ++ e.brs.getD m "?"
              let ents := us.flatMap (fun r => us.filterMap (fun c =>
                let v := entryA st r c
                if v.isZero then none else some s!"{nm r},{nm c}={v}"))
              let zs := us.filterMap (fun r =>
                let v := entryZ st r
                if v.isZero then none else some s!"{nm r}={v}")
              "ok A " ++ " ".intercalate ents ++ " Z " ++ " ".intercalate zs
            else if cmd = "mna.alloc" then
              -- `unknown_branch_currents` as the model of the `MNA.__init__` loop allocates them
              "ok U " ++ " ".intercalate e.brs
            else
              match parseAssign e tail with
              | .error msg => s!"error {msg}"
              | .ok x =>
                if cmd = "mna.laws" then
                  match checkLaws an.kind an.s cs x e.cls.length with
                  | .ok => "ok"
                  | .kcl k r => s!"kcl {className e k} {r}"
                  | .law i m r => s!"law {(e.cpts.getD i ("?", .Open 0 0)).1} {e.brs.getD m "?"} {r}"
                else if cmd = "mna.solves" then
                  toString (checkSolves an e x)
                else if cmd = "mna.through" then
                  let is := e.cpts.filterMap (fun (n, c) => (throughCurrent an x c).map (fun v => s!"{n}={v}"))
                  "ok I " ++ " ".intercalate is
                else "unknown-request"
      | [] => "bad-op"
  | [] => none

end Lcapy.Driver.C01
