/- Line-protocol handler for the netlist parser / printer model and the round-trip spec (C06).
   All strings travel hex-encoded (two hex digits per ASCII character; `_` = empty string,
   `~` = None); list items are joined by `,`; components / lines are separated by `|` tokens. -/
import Lcapy.Model.Parser
import Lcapy.Spec.Netlist
import Lcapy.Spec.NetlistExec
namespace Lcapy.Driver.C06
open Lcapy.Parser Lcapy.Spec.Netlist

def hexDigit (n : Nat) : Char := if n < 10 then Char.ofNat (48 + n) else Char.ofNat (87 + n)

def enc (s : Str) : String :=
  if s.isEmpty then "_" else String.ofList (s.flatMap (fun c => [hexDigit (c.toNat / 16), hexDigit (c.toNat % 16)]))

def hexVal (c : Char) : Option Nat :=
  if '0' ≤ c ∧ c ≤ '9' then some (c.toNat - 48)
  else if 'a' ≤ c ∧ c ≤ 'f' then some (c.toNat - 87)
  else none

def decAux : List Char → Option Str
  | [] => some []
  | a :: b :: rest => do
    let x ← hexVal a; let y ← hexVal b; let r ← decAux rest
    some (Char.ofNat (x * 16 + y) :: r)
  | _ => none

def dec (t : String) : Option Str := if t == "_" then some [] else decAux t.toList

def encOpt : Option Str → String
  | none => "~"
  | some s => enc s

def decOpt (t : String) : Option (Option Str) := if t == "~" then some none else (dec t).map some

def encList (l : List String) : String := if l.isEmpty then "-" else ",".intercalate l

def decList {α} (f : String → Option α) (t : String) : Option (List α) :=
  if t == "-" then some [] else (t.splitOn ",").mapM f

def encCpt (c : Cpt) : String :=
  " ".intercalate [enc c.classname, enc c.name, enc c.ctype, enc c.cid, encList (c.nodes.map enc),
    encList (c.args.map encOpt), (match c.kwpos with | none => "~" | some p => toString p), enc c.kw, enc c.opts,
    enc c.string]

def decCpt (toks : List String) : Option Cpt :=
  match toks with
  | [cl, nm, ty, id, nodes, args, kp, kw, opts, str] => do
    let cl ← dec cl; let nm ← dec nm; let ty ← dec ty; let id ← dec id
    let nodes ← decList dec nodes; let args ← decList decOpt args
    let kp ← (if kp == "~" then some none else kp.toNat?.map some)
    let kw ← dec kw; let opts ← dec opts; let str ← dec str
    some { classname := cl, name := nm, ctype := ty, cid := id, nodes := nodes, args := args, kwpos := kp, kw := kw,
           opts := opts, string := str }
  | _ => none

/-- split a token list at `|` -/
def splitBar : List String → List (List String)
  | [] => [[]]
  | t :: ts =>
    if t == "|" then [] :: splitBar ts
    else match splitBar ts with
      | [] => [[t]]
      | h :: r => (t :: h) :: r

def g := theGrammar

/-- parse lines one after the other; stop at the first error -/
def parseLines : NState → List Str → List String → List String × NState
  | s, [], acc => (acc.reverse, s)
  | s, l :: ls, acc =>
    match parse g s.used [] (preLine (strip l)) with
    | .error e => ((("err " ++ e.toString) :: acc).reverse, s)
    | .ok (c, anon) =>
      match optsParse c.opts with
      | .error e => ((("err " ++ e.toString) :: acc).reverse, s)
      | .ok _ =>
        parseLines { elts := eltsSet s.elts c, namer := match anon with | some a => s.namer ++ [a] | none => s.namer }
          ls (("ok " ++ encCpt c) :: acc)

def optValStr : OptVal → String
  | .s v => "s:" ++ enc v
  | .b true => "b:1"
  | .b false => "b:0"
  | .defs vs => "d:" ++ "+".intercalate (vs.map fun
      | .s v => "s:" ++ enc v
      | .b true => "b:1"
      | .b false => "b:0"
      | .defs _ => "d")

def handle (toks : List String) : Option String :=
  match toks with
  | "c06.info" :: _ => some s!"rules {g.rules.length} ok {g.ok} types {(g.rules.map (·.type)).eraseDups.length} fixes {theCfg.fixE} {theCfg.fixA} {theCfg.fixB} netsubs {Gen.Grammar.netsubsDelegates}"
  | ["c06.split", h] => some <|
      match dec h with
      | none => "bad-op"
      | some s => match split g.delimiters s with
        | none => "err unbalanced"
        | some ts => "ok " ++ encList (ts.map enc)
  | "c06.parse" :: lines => some <|
      match lines.mapM dec with
      | none => "bad-op"
      | some ls => " | ".intercalate (parseLines NState.empty ls []).1
  | "c06.print" :: lines => some <|
      match lines.mapM dec with
      | none => "bad-op"
      | some ls =>
        let (rs, st) := parseLines NState.empty ls []
        if rs.any (fun r => r.startsWith "err") then "err parse"
        else " ".intercalate (st.elts.map fun c => match printCptC theCfg g c with
          | none => "unprintable"
          | some s => enc s)
  | "c06.printcpt" :: rest => some <|
      match decCpt rest with
      | none => "bad-op"
      | some c => match printCptC theCfg g c with
        | none => "unprintable"
        | some s => "ok " ++ enc s
  | "c06.rt" :: lines => some <|
      -- the model's own round trip: parse, print, parse, print
      match lines.mapM dec with
      | none => "bad-op"
      | some ls =>
        match addLines g NState.empty (ls.map strip) with
        | .error e => "err1 " ++ e.toString
        | .ok s1 =>
          match printNetlistC theCfg g s1 with
          | none => "unprintable"
          | some p1 =>
            match parseNetlist g p1 with
            | .error e => "err2 " ++ e.toString
            | .ok s2 =>
              match printNetlistC theCfg g s2 with
              | none => "unprintable2"
              | some p2 => roundTripVerdict s1.elts s2.elts p1 p2
  | "c06.spec" :: rest => some <|
      -- c06.spec <P1> <P2> | cpt | cpt ... || cpt | cpt ...   (two lists separated by a `||` token)
      match rest with
      | p1 :: p2 :: "|" :: more =>
        let idx := more.idxOf "||"
        let l1 := more.take idx
        let l2 := more.drop (idx + 1)
        let dl (l : List String) : Option (List Cpt) :=
          if l.isEmpty then some [] else (splitBar l).mapM decCpt
        match dec p1, dec p2, dl l1, dl l2 with
        | some p1, some p2, some t1, some t2 => roundTripVerdict t1 t2 p1 p2
        | _, _, _, _ => "bad-op"
      | _ => "bad-op"
  | ["c06.value", h] => some <|
      match dec h with
      | none => "bad-op"
      | some s => match valueParser Gen.Grammar.suffixSrc s with
        | .num q => "num " ++ toString q.num ++ "/" ++ toString q.den
        | .str t => "str " ++ enc t
  | ["c06.okvalue", h] => some <|
      match dec h with
      | none => "bad-op"
      | some s => toString (okValue g.delimiters s) ++ " " ++ toString (atomic g.delimiters (argFormat g.delimiters s))
  | ["c06.argformat", h] => some <|
      match dec h with
      | none => "bad-op"
      | some s => enc (argFormat g.delimiters s)
  | "c06.netsubs" :: rest => some <|
      -- `cpt._netsubs()` of the checked-out code (delegating to `_netmake1` or the legacy loop)
      match decCpt rest with
      | none => "bad-op"
      | some c => match netSubs Gen.Grammar.netsubsDelegates theCfg g c with
        | none => "unprintable"
        | some s => "ok " ++ enc s
  | "c06.normal" :: rest => some <|
      -- is the component in the normal form of `C06Line.line_roundtrip_full_partial` (hypotheses evaluated by Lean)?
      match decCpt rest with
      | none => "bad-op"
      | some c =>
        match g.rules.find? (fun r => r.classname == c.classname) with
        | none => "norule"
        | some r =>
          let on := match optsParse c.opts with
            | .ok o => toString (optsNormal o)
            | .error _ => "err"
          toString (normalCpt g r c) ++ " " ++ on ++ " " ++ toString (grammarWF g)
  | ["c06.optsnormal", h] => some <|
      -- is the option table denoted by this string in the normal form of `opts_format_parse`?
      match dec h with
      | none => "bad-op"
      | some s => match optsParse s with
        | .error _ => "err"
        | .ok o => toString (optsNormal o)
  | ["c06.opts", h] => some <|
      match dec h with
      | none => "bad-op"
      | some s => match optsParse s with
        | .error e => "err " ++ e.toString
        | .ok o => "ok " ++ encList (o.map fun p => enc p.1 ++ "=" ++ optValStr p.2) ++ " " ++
            (match optsFormat o with | none => "unprintable" | some f => enc f)
  | _ => none

end Lcapy.Driver.C06
