/-
  Line-protocol handler for C07: one-port trees (model quantities, spec line, oracle predicates,
  simplify) and two-port sections (through Driver/C08's `tp.*` requests, which are also plugged
  into drv_c07).

  Tree grammar (prefix, space separated):
    R r | G g | L l ic | C c ic | Y imm | Z imm | V kind val | I kind val | CPE k alpha
    | X c0 r1 l1 c1 | FB rs rp cp lp | S n t1 … tn | P n t1 … tn
    ic   = `-` (no initial condition) or a rational
    imm  = k:a (constant a) | s:a (a·s) | i:a (a/s) | p:a:b (a/(s+b)) | q:a:w (a·s/(s²+w²))   -- evaluated at the point s here
    kind = gen | dc | step | sdom | ac ;  val = for gen/dc/step a rational a (Laplace value a/s), for sdom / ac an `imm`
-/
import Lcapy.Model.CRat
import Lcapy.Model.OnePort
import Lcapy.Model.OnePortGuard
import Lcapy.Model.OnePortNetlist
import Lcapy.Spec.OnePortExec
import Lcapy.Generated.Sections
import Lcapy.Spec.Sections
namespace Lcapy.Driver.C07
open Lcapy Lcapy.OnePort

variable {K : Type} [Add K] [Mul K] [Neg K] [Sub K] [Div K] [OfNat K 0] [OfNat K 1]

structure Num (K : Type) where
  ofRat : Rat → K
  show_ : K → String

def numC : Num CRat := ⟨CRat.ofRat, toString⟩
def numR : Num Rat := ⟨id, ratToStr⟩

def parseImm (N : Num K) (s : K) (tok : String) : Option K :=
  match tok.splitOn ":" with
  | ["k", a] => (parseRat a).map N.ofRat
  | ["s", a] => (parseRat a).map (fun a => N.ofRat a * s)
  | ["i", a] => (parseRat a).map (fun a => N.ofRat a / s)
  | ["p", a, b] => do
      let a ← parseRat a
      let b ← parseRat b
      pure (N.ofRat a / (s + N.ofRat b))
  | ["q", a, w] => do          -- Laplace transform of a·cos(w t): a·s/(s² + w²)
      let a ← parseRat a
      let w ← parseRat w
      pure (N.ofRat a * s / (s * s + N.ofRat w * N.ofRat w))
  | _ => none

def parseIc (N : Num K) (tok : String) : Option (Option K) :=
  if tok = "-" then some none else (parseRat tok).map (fun a => some (N.ofRat a))

def parseKind : String → Option Src
  | "gen" => some .gen | "dc" => some .dc | "step" => some .step | "sdom" => some .sdom | "ac" => some .ac | _ => none

def parseSrc (N : Num K) (s : K) (k : Src) (tok : String) : Option K :=
  match k with
  | .sdom => parseImm N s tok
  | .ac => parseImm N s tok
  | _ => (parseRat tok).map (fun a => N.ofRat a / s)

mutual
partial def parseNet (N : Num K) (s : K) (toks : List String) : Option (Net K × List String) :=
  match toks with
  | "R" :: r :: rest => do let r ← parseRat r; pure (.leaf (.R (N.ofRat r)), rest)
  | "G" :: g :: rest => do let g ← parseRat g; pure (.leaf (.G (N.ofRat g)), rest)
  | "L" :: l :: i0 :: rest => do
      let l ← parseRat l; let i0 ← parseIc N i0; pure (.leaf (.L (N.ofRat l) i0), rest)
  | "C" :: c :: v0 :: rest => do
      let c ← parseRat c; let v0 ← parseIc N v0; pure (.leaf (.C (N.ofRat c) v0), rest)
  | "Y" :: y :: rest => do let y ← parseImm N s y; pure (.leaf (.Y y), rest)
  | "Z" :: z :: rest => do let z ← parseImm N s z; pure (.leaf (.Z z), rest)
  | "V" :: k :: e :: rest => do
      let k ← parseKind k; let e ← parseSrc N s k e; pure (.leaf (.V k e), rest)
  | "I" :: k :: j :: rest => do
      let k ← parseKind k; let j ← parseSrc N s k j; pure (.leaf (.I k j), rest)
  | "CPE" :: k :: a :: rest => do
      let k ← parseRat k; let a ← a.toNat?; pure (.leaf (.CPE (N.ofRat k) a), rest)
  | "X" :: c0 :: r1 :: l1 :: c1 :: rest => do
      let c0 ← parseRat c0; let r1 ← parseRat r1; let l1 ← parseRat l1; let c1 ← parseRat c1
      pure (.leaf (.Xtal (N.ofRat c0) (N.ofRat r1) (N.ofRat l1) (N.ofRat c1)), rest)
  | "FB" :: a :: b :: c :: d :: rest => do
      let a ← parseRat a; let b ← parseRat b; let c ← parseRat c; let d ← parseRat d
      pure (.leaf (.FB (N.ofRat a) (N.ofRat b) (N.ofRat c) (N.ofRat d)), rest)
  | "S" :: n :: rest => do
      let n ← n.toNat?; let (as, rest) ← parseList N s n rest; pure (.ser as, rest)
  | "P" :: n :: rest => do
      let n ← n.toNat?; let (as, rest) ← parseList N s n rest; pure (.par as, rest)
  | _ => none
partial def parseList (N : Num K) (s : K) (n : Nat) (toks : List String) : Option (List (Net K) × List String) :=
  match n with
  | 0 => some ([], toks)
  | n + 1 => do
      let (a, rest) ← parseNet N s toks
      let (t, rest) ← parseList N s n rest
      pure (a :: t, rest)
end

def parseTree (N : Num K) (s : K) (toks : List String) : Option (Net K) :=
  match parseNet N s toks with
  | some (n, []) => some n
  | _ => none

/-! canonical printing of a tree whose values are already evaluated at the point -/
def showIc (N : Num K) : Option K → String
  | none => "-"
  | some x => N.show_ x

def showKind : Src → String
  | .gen => "gen" | .dc => "dc" | .step => "step" | .sdom => "sdom" | .ac => "ac"

def showLeaf (N : Num K) : Leaf K → String
  | .R r => s!"R {N.show_ r}"
  | .G g => s!"G {N.show_ g}"
  | .L l i0 => s!"L {N.show_ l} {showIc N i0}"
  | .C c v0 => s!"C {N.show_ c} {showIc N v0}"
  | .Y y => s!"Y {N.show_ y}"
  | .Z z => s!"Z {N.show_ z}"
  | .V k e => s!"V {showKind k} {N.show_ e}"
  | .I k j => s!"I {showKind k} {N.show_ j}"
  | .CPE k a => s!"CPE {N.show_ k} {a}"
  | .Xtal a b c d => s!"X {N.show_ a} {N.show_ b} {N.show_ c} {N.show_ d}"
  | .FB a b c d => s!"FB {N.show_ a} {N.show_ b} {N.show_ c} {N.show_ d}"

mutual
partial def showNet (N : Num K) : Net K → String
  | .leaf l => showLeaf N l
  | .ser as => s!"S {as.length}" ++ showList N as
  | .par as => s!"P {as.length}" ++ showList N as
partial def showList (N : Num K) : List (Net K) → String
  | [] => ""
  | a :: t => " " ++ showNet N a ++ showList N t
end

def showLine : Option (Line Rat) → String
  | some l => s!"{ratToStr l.a} {ratToStr l.b} {ratToStr l.c}"
  | none => "empty"

/-! ### two-port constructions (Generated/Sections.lean) -/

def onePOf (s : CRat) (n : Net CRat) : Gen.OneP CRat := ⟨n.imp s, n.adm s, n.voc s, n.isc s⟩

def parseOps (s : CRat) : Nat → List String → Option (List (Gen.OneP CRat) × List String)
  | 0, toks => some ([], toks)
  | n + 1, toks => do
      let (a, rest) ← parseNet numC s toks
      let (t, rest) ← parseOps s n rest
      pure (onePOf s a :: t, rest)

def zeroSrc (t : Gen.TPB CRat) : Bool := t.V2b = 0 && t.I2b = 0

/-- a Y/Z/H/G-model made by adding matrices: its B matrix by the generated conversion; sources
    are modelled only when both constituents are source free -/
def sumTP (name : String) (a b : Gen.TPB CRat) : Option (Gen.TPB CRat) := do
  let f ← (Gen.tpSumTable (K := CRat)).lookup name
  let rep ← Gen.tpSumRep.lookup name
  let back ← (Gen.convTable (K := CRat)).lookup (rep ++ "_to_B")
  let m := f a.B b.B 1
  let src : CRat := if zeroSrc a && zeroSrc b then 0 else CRat.undef
  pure ⟨back m 1, src, src⟩

partial def parseTP (s : CRat) (toks : List String) : Option (Gen.TPB CRat × List String) :=
  let fixed (n : Nat) (rest : List String) (f : List (Gen.OneP CRat) → Option (Gen.TPB CRat)) :
      Option (Gen.TPB CRat × List String) :=
    match parseOps s n rest with
    | some (ops, rest) => (f ops).map (fun t => (t, rest))
    | none => none
  match toks with
  | "Series" :: rest => fixed 1 rest (fun l => match l with | [a] => some (Gen.TP_Series a) | _ => none)
  | "SeriesAlt" :: rest => fixed 1 rest (fun l => match l with | [a] => some (Gen.TP_SeriesAlt a) | _ => none)
  | "Shunt" :: rest => fixed 1 rest (fun l => match l with | [a] => some (Gen.TP_Shunt a) | _ => none)
  | "LSection" :: rest => fixed 2 rest (fun l => match l with | [a, b] => some (Gen.TP_LSection a b) | _ => none)
  | "TSection" :: rest => fixed 3 rest (fun l => match l with | [a, b, c] => some (Gen.TP_TSection a b c) | _ => none)
  | "PiSection" :: rest => fixed 3 rest (fun l => match l with | [a, b, c] => some (Gen.TP_PiSection a b c) | _ => none)
  | "Ladder" :: n :: rest =>
      match n.toNat? with
      | some n => fixed n rest (fun l => match l with | a :: t => some (Gen.TP_Ladder a t) | _ => none)
      | none => none
  | "LadderAlt" :: n :: rest =>
      match n.toNat? with
      | some n => fixed n rest (fun l => match l with | a :: t => some (Gen.TP_LadderAlt a t) | _ => none)
      | none => none
  | "IdealGyrator" :: r :: rest =>
      match parseCRat r with
      | some r => some (Gen.TP_IdealGyrator r, rest)
      | none => none
  | "TPM" :: x :: a :: b :: c :: d :: rest =>
      -- TPA / TPB / TPG / TPH / TPY / TPZ: a model given by its own matrix; `Bparams` = `self._params.Bparams`
      match (Gen.convTable (K := CRat)).lookup (x ++ "_to_B"), [a, b, c, d].mapM parseCRat with
      | some f, some [a, b, c, d] => some (⟨f ⟨a, b, c, d⟩ 1, 0, 0⟩, rest)
      | _, _ => none
  | "Chain" :: rest =>
      match parseTP s rest with
      | some (a, rest) =>
        match parseTP s rest with
        | some (b, rest) => some (Gen.TP_Chain a b, rest)
        | none => none
      | none => none
  | name :: rest =>
      if (Gen.tpSumRep.lookup name).isSome then
        match parseTP s rest with
        | some (a, rest) =>
          match parseTP s rest with
          | some (b, rest) => (sumTP name a b).map (fun t => (t, rest))
          | none => none
        | none => none
      else none
  | [] => none

def onLine (o : Option (Line Rat)) (v i : Rat) : Bool :=
  match o with
  | some l => decide (l.a * v + l.b * i = l.c)
  | none => false

def parseLines (s : Rat) : Nat → List String → Option (List (Option (Line Rat)) × List String)
  | 0, toks => some ([], toks)
  | n + 1, toks => do
      let (a, rest) ← parseNet numR s toks
      let (t, rest) ← parseLines s n rest
      pure (a.line s :: t, rest)

/-- physical L / T / Pi network built from general one-ports (Spec/Sections.lean with the element
    relations given by the spec lines), witness supplied.  `out = true`: the one-port of a SERIES arm is drawn
    with its + node at the output side (what `Series._net_make` does is read off the generated netlist by the
    harness); the shunt arms always have + on the top rail. -/
def physOK (kind : String) (out : Bool) (ls : List (Option (Line Rat))) (w : Rat) (p : Spec.Port Rat) : Option Bool :=
  let ser (l : Option (Line Rat)) (v i : Rat) : Bool := if out then onLine l (-v) (-i) else onLine l v i
  match kind, ls with
  | "L", [l1, l2] => some (ser l1 (p.V1 - p.V2) p.I1 && onLine l2 p.V2 (p.I1 + p.I2))
  | "T", [l1, l2, l3] => some (ser l1 (p.V1 - w) p.I1 && onLine l2 w (p.I1 + p.I2) && ser l3 (w - p.V2) (-p.I2))
  | "Pi", [l1, l2, l3] => some (onLine l1 p.V1 (p.I1 - w) && ser l2 (p.V1 - p.V2) w && onLine l3 p.V2 (p.I2 + w))
  | _, _ => none

instance (m : M2 Rat) (a b : Rat) (p : Spec.Port Rat) : Decidable (Spec.relBs m a b p) := by
  unfold Spec.relBs; exact inferInstance

def handleTP (toks : List String) : Option String :=
  match toks with
  | "tp2.B" :: s :: rest => some <| Id.run do
      match parseCRat s with
      | none => "bad-op"
      | some s =>
        match parseTP s rest with
        | some (t, []) => s!"{t.B.a11} {t.B.a12} {t.B.a21} {t.B.a22} {t.V2b} {t.I2b}"
        | _ => "bad-tp"
  | "tp2.M" :: s :: x :: rest => some <| Id.run do
      match parseCRat s, (Gen.convTable (K := CRat)).lookup ("B_to_" ++ x) with
      | some s, some f =>
        match parseTP s rest with
        | some (t, []) => let m := f t.B 1; s!"{m.a11} {m.a12} {m.a21} {m.a22}"
        | _ => "bad-tp"
      | _, _ => "bad-op"
  | "tp2.phys" :: s :: kind0 :: n :: rest => some <| Id.run do
      -- kind = L | T | Pi, with the suffix `:out` when series arms have their + node at the output
      let out := kind0.endsWith ":out"
      let kind := if out then (kind0.dropEnd 4).toString else kind0
      match parseRat s, n.toNat? with
      | some s, some n =>
        match parseLines s n rest with
        | some (ls, [w, v1, i1, v2, i2]) =>
          match parseRat w, parseRat v1, parseRat i1, parseRat v2, parseRat i2 with
          | some w, some v1, some i1, some v2, some i2 =>
            match physOK kind out ls w ⟨v1, i1, v2, i2⟩ with
            | some b => toString b
            | none => "bad-op"
          | _, _, _, _, _ => "bad-op"
        | _ => "bad-tree"
      | _, _ => "bad-op"
  | ["tp2.relBs", a, b, c, d, v2b, i2b, v1, i1, v2, i2] => some <| Id.run do
      match [a, b, c, d, v2b, i2b, v1, i1, v2, i2].mapM parseRat with
      | some [a, b, c, d, v2b, i2b, v1, i1, v2, i2] =>
        toString (decide (Spec.relBs ⟨a, b, c, d⟩ v2b i2b ⟨v1, i1, v2, i2⟩))
      | _ => "bad-op"
  | _ => none

def handle (toks : List String) : Option String :=
  match toks with
  | "op.q" :: s :: rest => some <| Id.run do
      match parseCRat s with
      | none => "bad-op"
      | some s =>
        match parseTree numC s rest with
        | none => "bad-tree"
        | some n => s!"{n.imp s} {n.adm s} {n.voc s} {n.isc s} {n.hasSrc}"
  | "op.ok" :: s :: rest => some <| Id.run do
      match parseRat s with
      | none => "bad-op"
      | some s =>
        match parseTree numR s rest with
        | none => "bad-tree"
        | some n => s!"{n.tOK s} {n.nOK s} {n.icOK s}"
  | "op.line" :: s :: rest => some <| Id.run do
      match parseRat s with
      | none => "bad-op"
      | some s =>
        match parseTree numR s rest with
        | none => "bad-tree"
        | some n => showLine (n.line s)
  | "op.thev" :: s :: z :: voc :: rest => some <| Id.run do
      match parseRat s, parseRat z, parseRat voc with
      | some s, some z, some voc =>
        match parseTree numR s rest with
        | none => "bad-tree"
        | some n => toString (thevOK (n.line s) z voc)
      | _, _, _ => "bad-op"
  | "op.nort" :: s :: y :: isc :: rest => some <| Id.run do
      match parseRat s, parseRat y, parseRat isc with
      | some s, some y, some isc =>
        match parseTree numR s rest with
        | none => "bad-tree"
        | some n => toString (nortOK (n.line s) y isc)
      | _, _, _ => "bad-op"
  | "op.simp" :: s :: rest => some <| Id.run do
      match parseCRat s with
      | none => "bad-op"
      | some s =>
        match parseTree numC s rest with
        | none => "bad-tree"
        | some n =>
          match n.simplify with
          | .ok m => showNet numC m
          | .error e => "error:" ++ e.replace " " "_"
  | "op.guard" :: s :: rest => some <| Id.run do
      -- side conditions of every `_combine` that `simplify()` performs (hypothesis of C07.simplify_sound)
      match parseRat s with
      | none => "bad-op"
      | some s =>
        match parseTree numR s rest with
        | none => "bad-tree"
        | some n => toString (n.simpGuard s)
  | "op.netlist" :: s :: rest => some <| Id.run do
      -- the generated netlist on equipotential nodes (Model/OnePortNetlist.lean), port (1, 0), counter from 2:
      -- `drawable ; T a b [m] val [ic] ; …`
      match parseCRat s, parseRat s with
      | some s, some sr =>
        match parseTree numC s rest, parseTree numR sr rest with
        | some n, some nr =>
          let cs := (n.expandAll.make s 1 0 2).1
          let o (x : Option CRat) : String := match x with | some v => toString v | none => "-"
          let line (c : Lcapy.MNA.Cpt CRat) : String := match c with
            | .R a b r => s!"R {a} {b} {r}"
            | .Cap a b c v0 => s!"C {a} {b} {c} {o v0}"
            | .Ind a b _ l i0 _ => s!"L {a} {b} {l} {o i0}"
            | .V a b _ e => s!"V {a} {b} {e}"
            | .I a b j => s!"I {a} {b} {j}"
            | .Y a b y => s!"Y {a} {b} {y}"
            | _ => "?"
          toString nr.expandAll.drawable ++ " ; " ++ " ; ".intercalate (cs.map line)
        | _, _ => "bad-tree"
      | _, _ => "bad-op"
  | "op.norm" :: s :: rest => some <| Id.run do
      match parseCRat s with
      | none => "bad-op"
      | some s =>
        match parseTree numC s rest with
        | none => "bad-tree"
        | some n => showNet numC n
  | _ => none

end Lcapy.Driver.C07
