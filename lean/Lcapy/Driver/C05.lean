/-
  Line-protocol handler for the netlist-rewrite model and the C05 spec predicate.

    rw.simplify <opt>… || <line> || <line> …          -> outcome ## outcome …   (all set orders)
        opt: select=a,b  ignore=a,b  keep=n,m | keep=  passes=N  series=0|1 parallel=0|1 dangling=0|1 disconnected=0|1
        outcome: `err:<Exception>` or `<elt>;<elt>;… @@ <event>;<event>…`
        elt: name|n1,n2,…|kw|val|ic|extra,…        (`-` for an absent field)
    rw.renumber <old>:<new>… || <line> …              -> <elt>;… | err:…
    rw.nodemap  <old>:<new>… || <line> …              -> old:new,old:new…
    rw.sets series|parallel || <line> …               -> a,b;c,d …   (the sets found, members sorted)
    rw.preserved [componentwise] [branch] <old>:<new>… || <orig lines> ### <new lines> ### V n=val … ### I c=val … ### V … ### I …
                                                      -> ok | V:<node> | I:<cpt>    (Spec.firstDifference)
    rw.renaming || <orig lines> ### <new lines>       -> ok a:b,… | not-a-function <node> | not-injective <n1> <n2> | shape
    rw.retained [componentwise] <old>:<new>… || <orig lines> ### <new lines>  -> nodes a,b,… cpts x,y,…
    rw.smodel <s> || <line> …                         -> <elt>;…    (Model/RewriteCW.sModelNet at the point s; dummy nodes _d1, _d2 …)
    rw.noise killed|raw || <line> …                   -> <elt>;…    (noise_model, noise sources killed or kept)
    rw.switches <t> before|after || <line> …          -> <elt>;…    (replace_switches / replace_switches_before)
    rw.kill || <line> …                               -> <elt>;…    (kill() of every independent source)
    rw.expand || <raw line> | <raw line> …            -> raw lines joined by ` | ` (C01's `expandRaw`: opamps)
  Lines are in the restricted grammar `name nodes… [dc|ac|step|s|noise] [val [ic]] [extra…]` with rational values.
-/
import Lcapy.Model.CRat
import Lcapy.Model.Rewrite
import Lcapy.Model.RewriteCW
import Lcapy.Model.Netlist
namespace Lcapy.Driver.C05
open Lcapy Lcapy.Rewrite

def splitOnTok (sep : String) (toks : List String) : List (List String) :=
  toks.foldr (fun t acc =>
    if t = sep then [] :: acc
    else match acc with
      | [] => [[t]]
      | h :: r => (t :: h) :: r) [[]]

def tyOf (name : String) : String :=
  if name.startsWith "NR" then "NR" else if name.startsWith "SW" then "SW"
  else if name.startsWith "XX" then "XX" else (name.take 1).toString

def nNodes (ty : String) : Nat := if ty = "E" || ty = "G" then 4 else 2

def keywords : List String := ["dc", "ac", "step", "s", "noise"]

def parseElt (toks : List String) : Except String (Elt CRat) :=
  match toks with
  | [] => .error "syntax:empty"
  | name :: rest =>
    let ty := tyOf name
    let nn := nNodes ty
    if rest.length < nn then .error s!"syntax:nodes:{name}"
    else
      let nodes := rest.take nn
      let args := rest.drop nn
      let (kw, args) := match args with
        | k :: r => if (ty = "V" || ty = "I") && keywords.contains k then (k, r)
                    else if ty = "SW" && ["no", "nc", "push", "spdt"].contains k then (k, r)
                    else if ty = "E" && k = "opamp" then (k, r) else ("", args)
        | [] => ("", [])
      -- F and H carry the controlling source name before the value
      let (pre, args) := if ty = "F" || ty = "H" then (args.take 1, args.drop 1) else ([], args)
      match args with
      | [] => .ok { name := name, ty := ty, nodes := nodes, kw := kw, extra := pre }
      | v :: r =>
        match parseCRat v with
        | none => .error s!"syntax:value:{name}"
        | some val =>
          if ty = "L" || ty = "C" then
            match r with
            | [] => .ok { name := name, ty := ty, nodes := nodes, kw := kw, val := some val, extra := pre }
            | i :: r2 =>
              match parseCRat i with
              | none => .error s!"syntax:ic:{name}"
              | some ic => .ok { name := name, ty := ty, nodes := nodes, kw := kw, val := some val, ic := some ic, extra := pre ++ r2 }
          else .ok { name := name, ty := ty, nodes := nodes, kw := kw, val := some val, extra := pre ++ r }

def parseNet (lines : List (List String)) : Except String (Net CRat) :=
  (lines.filter (· ≠ [])).mapM parseElt

def optStr (o : Option CRat) : String := match o with | some v => toString v | none => "-"

def eltStr (e : Elt CRat) : String :=
  e.name ++ "|" ++ ",".intercalate e.nodes ++ "|" ++ (if e.kw = "" then "-" else e.kw) ++ "|" ++ optStr e.val ++ "|" ++
    optStr e.ic ++ "|" ++ (if e.extra = [] then "-" else ",".intercalate e.extra)

def netStr (n : Net CRat) : String := ";".intercalate (n.map eltStr)

def csv (s : String) : List String := (s.splitOn ",").filter (· ≠ "")

def parseOpts (toks : List String) : Opts :=
  toks.foldl (fun o t =>
    match t.splitOn "=" with
    | ["select", v] => { o with select := some (csv v) }
    | ["ignore", v] => { o with ignore := csv v }
    | ["keep", v] => { o with keep := some (csv v) }
    | ["passes", v] => { o with passes := v.toNat?.getD 0 }
    | ["series", v] => { o with series := v = "1" }
    | ["parallel", v] => { o with parallel := v = "1" }
    | ["dangling", v] => { o with dangling := v = "1" }
    | ["disconnected", v] => { o with disconnected := v = "1" }
    | _ => o) {}

def parseMap (toks : List String) : List (String × String) :=
  toks.filterMap (fun t => match t.splitOn ":" with | [a, b] => some (a, b) | _ => none)

def parseSol (vt it : List String) : Option (Sol CRat) := do
  let kv (t : String) : Option (String × CRat) :=
    match t.splitOn "=" with
    | [k, v] => (parseCRat v).map (fun x => (k, x))
    | _ => none
  let vs ← (vt.drop 1).mapM kv
  let is ← (it.drop 1).mapM kv
  pure ⟨vs, is⟩

def insertSorted (x : String) : List String → List String
  | [] => [x]
  | y :: t => if x < y then x :: y :: t else y :: insertSorted x t
def sortStrs (l : List String) : List String := l.foldr insertSorted []

def handle (toks : List String) : Option String :=
  match toks with
  | cmd :: rest =>
    if !(cmd.startsWith "rw.") then none else some <| Id.run do
      match splitOnTok "||" rest with
      | [head, body] =>
        if cmd = "rw.simplify" then
          match parseNet (splitOnTok "|" body) with
          | .error e => "bad-net:" ++ e
          | .ok net =>
            let outs := simplify (parseOpts head) net
            let strs := outs.map (fun r => match r with
              | .error e => "err:" ++ e
              | .ok (n, log) => netStr n ++ " @@ " ++ ";".intercalate log)
            " ## ".intercalate strs.eraseDups
        else if cmd = "rw.sets" then
          match parseNet (splitOnTok "|" body) with
          | .error e => "bad-net:" ++ e
          | .ok net =>
            let sets := if head = ["series"] then seriesSets net else parallelSets net
            ";".intercalate (sets.map (fun s => ",".intercalate (sortStrs s)))
        else if cmd = "rw.renumber" then
          match parseNet (splitOnTok "|" body) with
          | .error e => "bad-net:" ++ e
          | .ok net =>
            match renumber net (parseMap head) with
            | .error e => "err:" ++ e
            | .ok n => netStr n
        else if cmd = "rw.nodemap" then
          match parseNet (splitOnTok "|" body) with
          | .error e => "bad-net:" ++ e
          | .ok net =>
            match augmentNodeMap net (parseMap head) with
            | .error e => "err:" ++ e
            | .ok m => ",".intercalate ((allNodes net).map (fun n => n ++ ":" ++ lookupLast m n))
        else if cmd = "rw.renaming" then
          match splitOnTok "###" body with
          | [o, n] =>
            match parseNet (splitOnTok "|" o), parseNet (splitOnTok "|" n) with
            | .ok orig, .ok new =>
              match renamingOf orig new with
              | none => "shape"
              | some m =>
                match notFunction m, notInjective m with
                | some x, _ => "not-a-function " ++ x
                | none, some (x, y) => "not-injective " ++ x ++ " " ++ y
                | none, none => "ok " ++ ",".intercalate (m.map (fun p => p.1 ++ ":" ++ p.2))
            | .error e, _ => "bad-net:" ++ e
            | _, .error e => "bad-net:" ++ e
          | _ => "bad-request"
        else if cmd = "rw.preserved" || cmd = "rw.retained" then
          let mode : Mode := if head.contains "componentwise" then .componentwise else .strict
          let m := parseMap head
          let ren := fun n => match m.find? (·.1 = n) with | some p => p.2 | none => n
          match splitOnTok "###" body with
          | o :: n :: more =>
            match parseNet (splitOnTok "|" o), parseNet (splitOnTok "|" n) with
            | .ok orig, .ok new =>
              if cmd = "rw.retained" then
                "nodes " ++ ",".intercalate (retainedNodes mode ren orig new) ++ " cpts " ++
                  ",".intercalate ((untouched mode ren orig new).map (·.name))
              else
                match more with
                | [v1, i1, v2, i2] =>
                  match parseSol v1 i1, parseSol v2 i2 with
                  | some so, some sn =>
                    let d := if head.contains "branch" then firstBranchDifference mode ren orig new so sn
                             else firstDifference mode ren orig new so sn
                    match d with
                    | none => "ok"
                    | some d => d
                  | _, _ => "bad-solution"
                | _ => "bad-request"
            | .error e, _ => "bad-net:" ++ e
            | _, .error e => "bad-net:" ++ e
          | _ => "bad-request"
        else if cmd = "rw.smodel" then
          match head.head? >>= parseCRat, parseNet (splitOnTok "|" body) with
          | some s, .ok net => netStr (sModelNet s net)
          | none, _ => "bad-request"
          | _, .error e => "bad-net:" ++ e
        else if cmd = "rw.noise" then
          match parseNet (splitOnTok "|" body) with
          | .error e => "bad-net:" ++ e
          | .ok net => netStr (if head = ["killed"] then noiseModelKilled net else noiseModel net)
        else if cmd = "rw.kill" then
          match parseNet (splitOnTok "|" body) with
          | .error e => "bad-net:" ++ e
          | .ok net => netStr (killSources net)
        else if cmd = "rw.switches" then
          match head with
          | [t, when_] =>
            match parseRat t, parseNet (splitOnTok "|" body) with
            | some t, .ok net =>
              -- times are plain rationals here (an undefined value never occurs in a switch line)
              let netR : Net Rat := net.map (fun e => { name := e.name, ty := e.ty, nodes := e.nodes, kw := e.kw,
                                                         val := e.val.bind (·.v), ic := e.ic.bind (·.v), extra := e.extra })
              let out := replaceSwitches t (when_ = "before") netR
              ";".intercalate (out.map (fun e => e.name ++ "|" ++ ",".intercalate e.nodes ++ "|" ++ (if e.kw = "" then "-" else e.kw) ++ "|" ++
                (match e.val with | some v => ratToStr v | none => "-") ++ "|" ++ (match e.ic with | some v => ratToStr v | none => "-") ++ "|" ++ (if e.extra = [] then "-" else ",".intercalate e.extra)))
            | none, _ => "bad-request"
            | _, .error e => "bad-net:" ++ e
          | _ => "bad-request"
        else if cmd = "rw.expand" then
          match (splitOnTok "|" body).filter (· ≠ []) |>.mapM (fun l => Lcapy.Netlist.parseLine (" ".intercalate l)) with
          | .error e => "bad-net:" ++ e
          | .ok raw =>
            " | ".intercalate ((raw.flatMap Lcapy.Netlist.expandRaw).map (fun c =>
              " ".intercalate ([c.name] ++ (if c.ty = "Eopamp" then c.nodes.take 2 ++ ["opamp"] ++ c.nodes.drop 2 else c.nodes) ++ c.args)))
        else "unknown-rw"
      | _ => "bad-request"
  | _ => none

end Lcapy.Driver.C05
