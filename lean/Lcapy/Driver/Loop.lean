/-
  Generic line-protocol loop.  One request per line on stdin, one reply line on stdout.
  Every request is self-contained (no driver state), so replies depend only on the request.
  Each property has its own small executable `drv_cXX` (root `DrvCXX.lean`) that plugs its
  handlers into this loop; only Mathlib-free modules may be imported there.
-/
namespace Lcapy.Driver

def dispatch (handlers : List (List String → Option String)) (line : String) : String :=
  let toks := (line.trimAscii.toString.splitOn " ").filter (· ≠ "")
  match toks with
  | [] => "empty"
  | ["ping"] => "pong"
  | _ =>
    match handlers.findSome? (fun h => h toks) with
    | some r => r
    | none => "unknown-request"

partial def loop (handlers : List (List String → Option String)) (hin hout : IO.FS.Stream) : IO Unit := do
  let line ← hin.getLine
  if line.isEmpty then return ()
  hout.putStrLn (dispatch handlers line)
  hout.flush
  loop handlers hin hout

def runDriver (handlers : List (List String → Option String)) : IO Unit := do
  loop handlers (← IO.getStdin) (← IO.getStdout)

end Lcapy.Driver
