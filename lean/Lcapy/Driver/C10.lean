/-
  Line-protocol handler for C10 (inverse Laplace transform) over the checked Gaussian rationals.

    pf.check ; <B coeffs> ; <A coeffs> ; <Q coeffs> ; <r p o>* ; <pole mult>*      -> true | false
        (coefficients constant term first; the verified checker `pfCheck` with cofactors from `mkCofs`)
    ilt.model <s> <T0> <w> <g> <v> <g2> <u> <causal 0|1> <T> ; <Q coeffs> ; <r p o>*
        -> <L(model result)(s)> <guarded 0|1> <unilateral-part-empty 0|1>
    series.check ; <P(w)> ; <Q(w)> ; <c k>* ; <K>   -> true | false   (first terms of a returned series vs the power series of P/Q, w = e^{-sT})
    tline.end <a> <b> <N>                           -> <c k>*          (model of tline_end, generated echo ratio / delays)
    ilt.deriv <env> <zic 0|1> <n> ; <g items>                  -> L(derivEntry zic n g)(s)      (s**n * V(s), concrete g for v)
    ilt.conv <env> <causal 0|1> ; <Q coeffs> ; <r p o>* ; <g items>   -> <t|inf> L(conv (ilt F) g)(s)   (F(s) * V(s))
    res.sub ; <B coeffs> ; <pole mult>*        -> hyp=<bool> | <r p o>*    (model of Ratfun._find_residues_sub, theorem find_residues_sub_sound)
    res.ec ; <B coeffs> ; <pole mult>* ; <r>*  -> true | false            (cofactors by the rule of _find_residues_ec, checked by pfCheck)
    ilt.ds <s> <T0> <w> <g> <v> <g2> <u> <causal 0|1> <T> ; <ncoeffs highest first> ; <dcoeffs> ; <omega1>
        -> as ilt.model, for `do_damped_sin` | fallback (its guards send the input to the partial-fraction route) | bad-omega1
    asm.causal <name>=<0|1>*   -> true | false   (Assumptions.merge in keyword order, then `causal` present?)
    rat.eval <s> <T0> <w> <g> <v> <g2> <u> <T> ; <B coeffs> ; <A coeffs>           -> E(-sT)·B(s)/A(s)
    sig.val0 ; <items>      -> f(0+)        sig.valinf ; <items>   -> sum of the step coefficients
    sig.causal ; <items>    -> true | false   (all delays >= 0)
  (`sig.L` is answered by the C09 handler, which is linked into the same executable.)
-/
import Lcapy.Model.CRat
import Lcapy.Model.ExpPoly
import Lcapy.Model.ILT
import Lcapy.Model.ResidueSub
import Lcapy.Model.TLine
import Lcapy.Driver.C09
namespace Lcapy.Driver.C10
open Lcapy Lcapy.Laplace Lcapy.Driver.C09

def parseList (l : List String) : Option (List GQ) := l.mapM parseGQ

def parseRPO : List String → Option (List (GQ × GQ × Nat))
  | [] => some []
  | r :: p :: o :: rest => do
      let r ← parseGQ r; let p ← parseGQ p; let o ← o.toNat?
      let tl ← parseRPO rest
      some ((r, p, o) :: tl)
  | _ => none

def parsePoles : List String → Option (List (GQ × Nat))
  | [] => some []
  | p :: m :: rest => do
      let p ← parseGQ p; let m ← m.toNat?
      let tl ← parsePoles rest
      some ((p, m) :: tl)
  | _ => none

def leadCoeff (A : Poly GQ) : GQ :=
  match (A.reverse.dropWhile (fun a => a = 0)) with
  | [] => 0
  | a :: _ => a

instance : DecidableEq (GQ × GQ × Nat) := inferInstance

def handle (toks : List String) : Option String :=
  match toks with
  | "pf.check" :: rest => some <| Id.run do
      match splitOn ";" rest with
      | [_, bT, aT, qT, rT, pT] =>
        match parseList bT, parseList aT, parseList qT, parseRPO rT, parsePoles pT with
        | some B, some A, some Q, some R, some poles =>
          let cofs := mkCofs (leadCoeff A) poles R
          toString (pfCheck B A Q R cofs)
        | _, _, _, _, _ => "bad-op"
      | _ => "bad-op"
  | "ilt.model" :: rest => some <| Id.run do
      match splitOn ";" rest with
      | [envT, qT, rT] =>
        match envT.reverse with
        | tT :: causal :: envR =>
          match parseEPar envR.reverse, parseGQ tT, parseList qT, parseRPO rT with
          | some ep, some T, some Q, some R =>
            let E := mkE ep
            let isCausal := causal = "1"
            let c := iltQsrc T Q
            let u := ratfunLoop GQ.J GQ.conj T (R.length + 1) R
            let part := termModel isCausal (T ≠ 0) c u
            let res := makeModel isCausal [part]
            let v := L E (res.cpart ++ res.upart) (GQ.ofRat ep.s)
            s!"{v} {if res.guarded then 1 else 0} {if res.upart.isEmpty then 1 else 0}"
          | _, _, _, _ => "bad-op"
        | _ => "bad-op"
      | _ => "bad-op"
  | "series.check" :: rest => some <| Id.run do
      -- ; <P coeffs in w> ; <Q coeffs in w> ; <c k>* ; <K>   -> true | false   (oracle `seriesCheck`, theorem series_check_sound)
      match splitOn ";" rest with
      | [_, pT, qT, tT, [kT]] =>
        match parseList pT, parseList qT, parsePoles tT, kT.toNat? with
        | some P, some Q, some terms, some k => toString (seriesCheck P Q terms k)
        | _, _, _, _ => "bad-op"
      | _ => "bad-op"
  | ["tline.end", aT, bT, nT] => some <|
      -- model of tline_end for 1/(a cosh(sT) + b sinh(sT)): the first N terms `c k c k ...`
      match parseGQ aT, parseGQ bT, nT.toNat? with
      | some a, some b, some n => " ".intercalate ((tlineEndTerms a b n).map (fun (c, k) => s!"{c} {k}"))
      | _, _, _ => "bad-op"
  | "ilt.deriv" :: rest => some <| Id.run do
      -- <env> <zic 0|1> <n> ; <items of the concrete signal g put for v(t)>   ->  L(derivEntry zic n g)(s)
      match splitOn ";" rest with
      | [envT, gT] =>
        match envT.reverse with
        | nT :: zic :: envR =>
          match parseEPar envR.reverse, nT.toNat?, parseItems gT [] [] with
          | some ep, some n, some (_, g) =>
            toString (L (mkE ep) (derivEntry (zic = "1") n g) (GQ.ofRat ep.s))
          | _, _, _ => "bad-op"
        | _ => "bad-op"
      | _ => "bad-op"
  | "ilt.conv" :: rest => some <| Id.run do
      -- <env> <causal 0|1> ; <Q coeffs> ; <r p o>* ; <items of g>   ->  <upper limit t|inf> <L(conv (ilt F) g)(s)>
      match splitOn ";" rest with
      | [envT, qT, rT, gT] =>
        match envT.reverse with
        | causal :: envR =>
          match parseEPar envR.reverse, parseList qT, parseRPO rT, parseItems gT [] [] with
          | some ep, some Q, some R, some (_, g) =>
            let f := iltQsrc 0 Q ++ ratfunLoop GQ.J GQ.conj 0 (R.length + 1) R
            let up := match convUpper (causal = "1") with | .t => "t" | .inf => "inf"
            s!"{up} {L (mkE ep) (convEntry f g) (GQ.ofRat ep.s)}"
          | _, _, _, _ => "bad-op"
        | _ => "bad-op"
      | _ => "bad-op"
  | "res.sub" :: rest => some <| Id.run do
      -- ; <B coeffs (already divided by the leading coefficient of A)> ; <pole mult>*
      --   -> hyp=<distinct poles and deg B < sum of multiplicities> | r p o r p o ...   (model of _find_residues_sub)
      match splitOn ";" rest with
      | [_, bT, pT] =>
        match parseList bT, parsePoles pT with
        | some B, some poles =>
          let hyp := (poles.map Prod.fst).Nodup && decide (B.length ≤ (poles.map Prod.snd).sum)
          let R := findResiduesSub B poles
          s!"hyp={hyp} | " ++ " ".intercalate (R.map (fun (r, p, o) => s!"{r} {p} {o}"))
        | _, _ => "bad-op"
      | _ => "bad-op"
  | "res.ec" :: rest => some <| Id.run do
      -- ; <B coeffs> ; <pole mult>* ; <r>*      the solution of the equating-coefficients system, entry by entry:
      --   cofactors built by the source's rule (`ecCofactors`), every claim verified by the checker `pfCheck`
      match splitOn ";" rest with
      | [_, bT, pT, rT] =>
        match parseList bT, parsePoles pT, parseList rT with
        | some B, some poles, some rs =>
          let entries := entriesOf poles
          if entries.length ≠ rs.length then "length-mismatch" else
          let R := (rs.zip entries).map (fun (r, (p, o)) => (r, p, o))
          toString (pfCheck B (factoredDenominator poles) [] R (ecCofactors entries))
        | _, _, _ => "bad-op"
      | _ => "bad-op"
  | "ilt.ds" :: rest => some <| Id.run do
      -- <env> <causal 0|1> <T> ; <ncoeffs, highest power first> ; <dcoeffs> ; <omega1>
      match splitOn ";" rest with
      | [envT, nT, dT, [oT]] =>
        match envT.reverse with
        | tT :: causal :: envR =>
          match parseEPar envR.reverse, parseGQ tT, parseList nT, parseList dT, parseGQ oT with
          | some ep, some T, some nc, some dc, some om =>
            -- the square roots: any (sq1, sq2) with sq1 ≠ 0 and (sq1 sq2)² = d2 − (d1/2)² (theorem damped_sin_value*);
            -- here sq1 = 1, sq2 = ω1, and the condition on ω1 is checked, not assumed
            match dc with
            | [a2, a1, a0] =>
              let two : GQ := 1 + 1
              if (om * om == a0 / a2 - (a1 / a2 / two) * (a1 / a2 / two)) = false then "bad-omega1" else
              match dampedSin GQ.J nc dc 1 om T with
              | none => "fallback"
              | some (c, u) =>
                let E := mkE ep
                let isCausal := causal = "1"
                let part := termModel isCausal (T ≠ 0) c u
                let res := makeModel isCausal [part]
                let v := L E (res.cpart ++ res.upart) (GQ.ofRat ep.s)
                s!"{v} {if res.guarded then 1 else 0} {if res.upart.isEmpty then 1 else 0}"
            | _ => "fallback"
          | _, _, _, _, _ => "bad-op"
        | _ => "bad-op"
      | _ => "bad-op"
  | "asm.causal" :: rest =>
      -- <name>=<0|1> ... in keyword order  ->  true | false   (`kwargs.get('causal')` after Assumptions.merge)
      some <| match rest.mapM (fun t => match t.splitOn "=" with
                | [a, "1"] => some (a, true)
                | [a, "0"] => some (a, false)
                | _ => none) with
        | some kw => toString (effectiveCausal kw)
        | none => "bad-op"
  | "rat.eval" :: rest => some <| Id.run do
      match splitOn ";" rest with
      | [envT, bT, aT] =>
        match envT.reverse with
        | tT :: envR =>
          match parseEPar envR.reverse, parseGQ tT, parseList bT, parseList aT with
          | some ep, some T, some B, some A =>
            let s := GQ.ofRat ep.s
            toString (mkE ep (-(s * T)) * (Poly.eval B s / Poly.eval A s))
          | _, _, _, _ => "bad-op"
        | _ => "bad-op"
      | _ => "bad-op"
  | "sig.val0" :: ";" :: rest => some <|
      match parseItems rest [] [] with
      | some (_, post) => toString (val0plus post)
      | none => "bad-op"
  | "sig.valinf" :: ";" :: rest => some <|
      match parseItems rest [] [] with
      | some (_, post) => toString (valInf post)
      | none => "bad-op"
  | "sig.causal" :: ";" :: rest => some <|
      match parseItems rest [] [] with
      | some (_, post) => toString (post.all (fun t => decide ((0 : GQ) ≤ t.delayOf)))
      | none => "bad-op"
  | _ => none

end Lcapy.Driver.C10
