/-
  Line-protocol handler for C10 (inverse Laplace transform) over the checked Gaussian rationals.

    pf.check ; <B coeffs> ; <A coeffs> ; <Q coeffs> ; <r p o>* ; <pole mult>*      -> true | false
        (coefficients constant term first; the verified checker `pfCheck` with cofactors from `mkCofs`)
    ilt.model <s> <T0> <w> <g> <v> <g2> <u> <causal 0|1> <T> ; <Q coeffs> ; <r p o>*
        -> <L(model result)(s)> <guarded 0|1> <unilateral-part-empty 0|1>
    rat.eval <s> <T0> <w> <g> <v> <g2> <u> <T> ; <B coeffs> ; <A coeffs>           -> E(-sT)·B(s)/A(s)
    sig.val0 ; <items>      -> f(0+)        sig.valinf ; <items>   -> sum of the step coefficients
    sig.causal ; <items>    -> true | false   (all delays >= 0)
  (`sig.L` is answered by the C09 handler, which is linked into the same executable.)
-/
import Lcapy.Model.CRat
import Lcapy.Model.ExpPoly
import Lcapy.Model.ILT
import Lcapy.Driver.C09
namespace Lcapy.Driver.C10
open Lcapy Lcapy.Laplace Lcapy.Driver.C09

def parseList (l : List String) : Option (List GQ) := l.mapM parseGQ

def parseRPO : List String → Option (List (GQ × GQ × Nat))
  | [] => some []
  | r :: p :: o :: rest => do
      let r ← parseGQ r; let p ← parseGQ p; let o ← o.toNat?
      let tl ← parseRPO rest
      some ((r, p, o) :: tl)
  | _ => none

def parsePoles : List String → Option (List (GQ × Nat))
  | [] => some []
  | p :: m :: rest => do
      let p ← parseGQ p; let m ← m.toNat?
      let tl ← parsePoles rest
      some ((p, m) :: tl)
  | _ => none

def leadCoeff (A : Poly GQ) : GQ :=
  match (A.reverse.dropWhile (fun a => a = 0)) with
  | [] => 0
  | a :: _ => a

instance : DecidableEq (GQ × GQ × Nat) := inferInstance

def handle (toks : List String) : Option String :=
  match toks with
  | "pf.check" :: rest => some <| Id.run do
      match splitOn ";" rest with
      | [_, bT, aT, qT, rT, pT] =>
        match parseList bT, parseList aT, parseList qT, parseRPO rT, parsePoles pT with
        | some B, some A, some Q, some R, some poles =>
          let cofs := mkCofs (leadCoeff A) poles R
          toString (pfCheck B A Q R cofs)
        | _, _, _, _, _ => "bad-op"
      | _ => "bad-op"
  | "ilt.model" :: rest => some <| Id.run do
      match splitOn ";" rest with
      | [envT, qT, rT] =>
        match envT.reverse with
        | tT :: causal :: envR =>
          match parseEPar envR.reverse, parseGQ tT, parseList qT, parseRPO rT with
          | some ep, some T, some Q, some R =>
            let E := mkE ep
            let isCausal := causal = "1"
            let c := iltQ T 0 Q
            let u := ratfunLoop GQ.J GQ.conj T (R.length + 1) R
            let part := termModel isCausal (T ≠ 0) c u
            let res := makeModel isCausal [part]
            let v := L E (res.cpart ++ res.upart) (GQ.ofRat ep.s)
            s!"{v} {if res.guarded then 1 else 0} {if res.upart.isEmpty then 1 else 0}"
          | _, _, _, _ => "bad-op"
        | _ => "bad-op"
      | _ => "bad-op"
  | "rat.eval" :: rest => some <| Id.run do
      match splitOn ";" rest with
      | [envT, bT, aT] =>
        match envT.reverse with
        | tT :: envR =>
          match parseEPar envR.reverse, parseGQ tT, parseList bT, parseList aT with
          | some ep, some T, some B, some A =>
            let s := GQ.ofRat ep.s
            toString (mkE ep (-(s * T)) * (Poly.eval B s / Poly.eval A s))
          | _, _, _, _ => "bad-op"
        | _ => "bad-op"
      | _ => "bad-op"
  | "sig.val0" :: ";" :: rest => some <|
      match parseItems rest [] [] with
      | some (_, post) => toString (val0plus post)
      | none => "bad-op"
  | "sig.valinf" :: ";" :: rest => some <|
      match parseItems rest [] [] with
      | some (_, post) => toString (valInf post)
      | none => "bad-op"
  | "sig.causal" :: ";" :: rest => some <|
      match parseItems rest [] [] with
      | some (_, post) => toString (post.all (fun t => decide ((0 : GQ) ≤ t.delayOf)))
      | none => "bad-op"
  | _ => none

end Lcapy.Driver.C10
