/- Line-protocol handler for the Fourier spec and model (C12).

   term   := <c.re> <c.im> <ph> <th> <kind> <a> <b>          terms separated by `;`
   kind   := one | delta:n | pw:n | inv1 | inv2 | sgn | step | abs | ramp | rect | tri | sinc | sinc2 | gauss | sincu | trap:al | sincp:al
             | expu:k:<re>:<im> | cpole:n:<re>:<im>
   entry  := R <lam.re> <lam.im> <mu.re> <mu.im> <phase> <v.re> <v.im> <ts>     ts := - | sinc:a:b,gauss:a:b,...
           | D <n> <loc> <phase> <v.re> <v.im>                                  entries separated by `;`

   ft.spec  fwd|inv <dom> <pi> <dt> <x0> | terms                 -> observation of the spec transform
   ft.model fwd|inv <dom> <alt> <pi> <dt> <x0> | terms           -> observation of the model of the code | sympy
   ft.judge fwd|inv <dom> <pi> <dt> <x0> | terms | entries       -> true | false <key> spec=<sum> got=<sum> | resample | unsupported
   ft.same  <pi> <x0> | terms | entries                          -> same, for the identity (round trips)
   ft.convjudge <D> <E> <pi> <dt> <x0> | terms | entries         -> spec re-expression D→E of `terms` against entries
   ft.convmodel <D> <E> <pi> <dt> <x0> | terms                   -> observation of the model's conversion
   ft.convfactor spec|model <D> <E> <pi> <dt>                    -> the substitution factor
-/
import Lcapy.Model.CRat
import Lcapy.Spec.FourierExec
import Lcapy.Model.Fourier
namespace Lcapy.Driver.C12
open Lcapy Lcapy.Fourier

def parseKind (s : String) : Option Kind :=
  match s.splitOn ":" with
  | ["one"] => some .one
  | ["delta", n] => n.toNat?.map .delta
  | ["pw", n] => n.toNat?.map .pw
  | ["inv1"] => some .inv1
  | ["inv2"] => some .inv2
  | ["sgn"] => some .sgn
  | ["step"] => some .step
  | ["abs"] => some .absx
  | ["ramp"] => some .ramp
  | ["rect"] => some .rect
  | ["tri"] => some .tri
  | ["sinc"] => some .sinc
  | ["sinc2"] => some .sinc2
  | ["gauss"] => some .gauss
  | ["sincu"] => some .sincu
  | ["trap", al] => (parseRat al).map .trap
  | ["sincp", al] => (parseRat al).map .sincp
  | ["expu", k, re, im] => do some (.expu (← k.toNat?) ⟨← parseRat re, ← parseRat im⟩)
  | ["cpole", n, re, im] => do some (.cpole (← n.toNat?) ⟨← parseRat re, ← parseRat im⟩)
  | _ => none

def parseTerm : List String → Option Term
  | [cr, ci, ph, th, k, a, b] => do
      some ⟨⟨← parseRat cr, ← parseRat ci⟩, ← parseRat ph, ← parseRat th, ← parseKind k, ← parseRat a, ← parseRat b⟩
  | _ => none

/-- split a token list at a separator token -/
def splitAt (sep : String) (l : List String) : List (List String) :=
  l.foldr (fun t acc =>
    if t == sep then [] :: acc else
      match acc with
      | [] => [[t]]
      | h :: r => (t :: h) :: r) [[]]

def parseTerms (l : List String) : Option E :=
  ((splitAt ";" l).filter (· ≠ [])).mapM parseTerm

def parseTAtom (s : String) : Option TAtom :=
  match s.splitOn ":" with
  | ["sinc", a, b] => do some ⟨.sinc, ← parseRat a, ← parseRat b⟩
  | ["gauss", a, b] => do some ⟨.gauss, ← parseRat a, ← parseRat b⟩
  | _ => none

def parseEntry : List String → Option Entry
  | ["R", lr, li, mr, mi, p, vr, vi, ts] => do
      let tl ← if ts == "-" then some [] else (ts.splitOn ",").mapM parseTAtom
      some ⟨false, 0, 0, ⟨← parseRat lr, ← parseRat li⟩, ⟨← parseRat mr, ← parseRat mi⟩, ← parseRat p, sortT tl,
            ⟨← parseRat vr, ← parseRat vi⟩⟩
  | ["D", n, loc, p, vr, vi] => do
      some ⟨true, ← n.toNat?, ← parseRat loc, 0, 0, ← parseRat p, [], ⟨← parseRat vr, ← parseRat vi⟩⟩
  | _ => none

def parseEntries (l : List String) : Option (List Entry) :=
  ((splitAt ";" l).filter (· ≠ [])).mapM parseEntry

def parseDom : String → Option Dom
  | "f" => some .f | "omega" => some .omega | "F" => some .F | "Omega" => some .Omega | _ => none

def parseDir : String → Option Bool
  | "fwd" => some false | "inv" => some true | _ => none

def cqStr (z : CQ) : String := s!"{ratToStr z.re} {ratToStr z.im}"
def tsStr (l : List TAtom) : String :=
  if l.isEmpty then "-" else
    ",".intercalate (l.map fun t => s!"{if t.k == .sinc then "sinc" else "gauss"}:{ratToStr t.a}:{ratToStr t.b}")
def entryStr (e : Entry) : String :=
  if e.isDelta then s!"D {e.n} {ratToStr e.loc} {ratToStr e.phase} {cqStr e.v}"
  else s!"R {cqStr e.lam} {cqStr e.mu} {ratToStr e.phase} {cqStr e.v} {tsStr e.ts}"
def obsStr : Obs → String
  | .ok es => "ok " ++ " ; ".intercalate ((mergeObs es).map entryStr)
  | .resample => "resample"
  | .unsupported => "unsupported"

def judge (o : Obs) (got : List Entry) : String :=
  match o with
  | .resample => "resample"
  | .unsupported => "unsupported"
  | .ok es =>
    if sameObs es got then "true" else
      match firstDiff es got with
      | some (k, a, b) => s!"false key=[{entryStr { k with v := 0 }}] spec={cqStr a} got={cqStr b}"
      | none => "false"

def specT (inv : Bool) (pi dt : Rat) (d : Dom) (x : E) : E :=
  if inv then iftDom pi dt d x else ftDom pi dt d x

def handle (toks : List String) : Option String :=
  match toks with
  | "ft.spec" :: dir :: dom :: pi :: dt :: x0 :: "|" :: rest => some <| Id.run do
      match parseDir dir, parseDom dom, parseRat pi, parseRat dt, parseRat x0, parseTerms rest with
      | some inv, some d, some pi, some dt, some x0, some x => obsStr (sample pi x0 (specT inv pi dt d x))
      | _, _, _, _, _, _ => "bad-op"
  | "ft.model" :: dir :: dom :: alt :: pi :: dt :: x0 :: "|" :: rest => some <| Id.run do
      match parseDir dir, parseDom dom, alt.toNat?, parseRat pi, parseRat dt, parseRat x0, parseTerms rest with
      | some inv, some d, some alt, some pi, some dt, some x0, some x =>
        match (if inv then Model.modelIFT pi dt d alt x else Model.modelFT pi dt d alt x) with
        | some s => obsStr (sample pi x0 s)
        | none => "sympy"
      | _, _, _, _, _, _, _ => "bad-op"
  | "ft.judge" :: dir :: dom :: pi :: dt :: x0 :: "|" :: rest => some <| Id.run do
      match splitAt "|" rest with
      | [ts, es] =>
        match parseDir dir, parseDom dom, parseRat pi, parseRat dt, parseRat x0, parseTerms ts, parseEntries es with
        | some inv, some d, some pi, some dt, some x0, some x, some got =>
          judge (sample pi x0 (specT inv pi dt d x)) got
        | _, _, _, _, _, _, _ => "bad-op"
      | _ => "bad-op"
  | "ft.same" :: pi :: x0 :: "|" :: rest => some <| Id.run do
      match splitAt "|" rest with
      | [ts, es] =>
        match parseRat pi, parseRat x0, parseTerms ts, parseEntries es with
        | some pi, some x0, some x, some got => judge (sample pi x0 x) got
        | _, _, _, _ => "bad-op"
      | _ => "bad-op"
  | "ft.convjudge" :: d :: e :: pi :: dt :: x0 :: "|" :: rest => some <| Id.run do
      match splitAt "|" rest with
      | [ts, es] =>
        match parseDom d, parseDom e, parseRat pi, parseRat dt, parseRat x0, parseTerms ts, parseEntries es with
        | some d, some e, some pi, some dt, some x0, some x, some got =>
          judge (sample pi x0 (convDom pi dt d e x)) got
        | _, _, _, _, _, _, _ => "bad-op"
      | _ => "bad-op"
  | "ft.convmodel" :: d :: e :: pi :: dt :: x0 :: "|" :: rest => some <| Id.run do
      match parseDom d, parseDom e, parseRat pi, parseRat dt, parseRat x0, parseTerms rest with
      | some d, some e, some pi, some dt, some x0, some x =>
        match Model.modelConv pi dt d e x with
        | some s => obsStr (sample pi x0 s)
        | none => "unknown-conversion"
      | _, _, _, _, _, _ => "bad-op"
  | ["ft.convfactor", which, d, e, pi, dt] => some <| Id.run do
      match parseDom d, parseDom e, parseRat pi, parseRat dt with
      | some d, some e, some pi, some dt =>
        if which == "spec" then ratToStr (d.k pi dt / e.k pi dt)
        else match Model.findConv d (some e) with
          | some c => ratToStr (Model.convFactor pi dt c) ++ (if c.returnsSelf then " self" else "")
          | none => "unknown-conversion"
      | _, _, _, _ => "bad-op"
  | "ft.modeljudge" :: dir :: dom :: alt :: pi :: dt :: x0 :: "|" :: rest => some <| Id.run do
      match splitAt "|" rest with
      | [ts, es] =>
        match parseDir dir, parseDom dom, alt.toNat?, parseRat pi, parseRat dt, parseRat x0, parseTerms ts, parseEntries es with
        | some inv, some d, some alt, some pi, some dt, some x0, some x, some got =>
          match (if inv then Model.modelIFT pi dt d alt x else Model.modelFT pi dt d alt x) with
          | some s => judge (sample pi x0 s) got
          | none => "sympy"
        | _, _, _, _, _, _, _, _ => "bad-op"
      | _ => "bad-op"
  | "ft.convmodeljudge" :: d :: e :: pi :: dt :: x0 :: "|" :: rest => some <| Id.run do
      match splitAt "|" rest with
      | [ts, es] =>
        match parseDom d, parseDom e, parseRat pi, parseRat dt, parseRat x0, parseTerms ts, parseEntries es with
        | some d, some e, some pi, some dt, some x0, some x, some got =>
          match Model.modelConv pi dt d e x with
          | some s => judge (sample pi x0 s) got
          | none => "unknown-conversion"
        | _, _, _, _, _, _, _ => "bad-op"
      | _ => "bad-op"
  | "ft.laplacejudge" :: dom :: pi :: dt :: x0 :: "|" :: rest => some <| Id.run do
      match splitAt "|" rest with
      | [ts, es] =>
        match parseDom dom, parseRat pi, parseRat dt, parseRat x0, parseTerms ts, parseEntries es with
        | some d, some pi, some dt, some x0, some x, some got =>
          match x.mapM (fun t => match t.k with
                                 | .expu k al => if t.a == 1 && t.b == 0 && t.th == 0 && t.ph == 0 then some (⟨t.c, k, al⟩ : EPTerm) else none
                                 | _ => none) with
          | some ep =>
            let s : CQ := ⟨0, 2 * pi * (x0 / d.k pi dt)⟩
            if ep.any (fun p => (s + p.al).isZero) then "resample" else
            let v := laplaceAt s ep
            judge (.ok (if v.isZero then [] else [⟨false, 0, 0, 0, 0, 0, [], v⟩])) got
          | none => "bad-op"
        | _, _, _, _, _, _ => "bad-op"
      | _ => "bad-op"
  | ["ft.tablecheck"] => some <|
      "inverse " ++ " ".intercalate (Gen.table.map fun e => toString (entryInverseOk e)) ++
      " | forward " ++ " ".intercalate (Gen.table.map fun e => toString (entryForwardOk e)) ++
      " | conv " ++ " ".intercalate (Gen.conversions.map fun c => toString (convOk c))
  | ["ft.table"] => some <| toString (Gen.table.length) ++ " " ++
      " ".intercalate (Gen.table.map fun e => toString (e.terms.all (·.useSf)))
  | _ => none

end Lcapy.Driver.C12
