/- Line-protocol handler for the formulation models and spec predicates of C15.

   form.nodal x || <analysis> || line || line …          nodal equations of the model
   form.mesh  <e0|e1> || <analysis> || line … || loops || n n n || n n n …   mesh equations
   form.cycles || <analysis> || line … || loops || …                   isSimpleCycle per loop
   form.basis  || <analysis> || line … || loops || …                   do the loops span the cycle space of the circuit graph
                                                                       (certificate found here, judged by `checkBasis`)
   form.eval || c c c … || const || x x x …                            Σ cᵢ·xᵢ + const  (spec: equation holds iff 0)
   ss.form <ccf|ocf> || b … || a …                                     realisation of the model
   ss.dcf || b … || a … || poles … || residues …
   ss.realises || n || A row-major || B || C || D || b … || a … || s   spec predicate `Realises` at s
   ss.resp || n m p || A || B || C || D || s || U … || x0 …            Y = C (sI−A)⁻¹ (B U + x0) + D U
   ss.det || n || A || s                                               det (sI − A)
   ss.maker || line || line …                                          A, B, C, D of the StateSpaceMaker model
   ss.singular || s || line || line …                                  is the Laplace-domain MNA matrix singular at s (natural frequency)
   Values are checked Gaussian rationals `p/q` or `p/q,r/t`.                                         -/
import Lcapy.Model.Netlist
import Lcapy.Model.Formulations
import Lcapy.Model.Realisations
import Lcapy.Model.StateSpaceMaker
import Lcapy.Model.MeshComplete
import Lcapy.Driver.C01
namespace Lcapy.Driver.C15
open Lcapy Lcapy.MNA Lcapy.Netlist Lcapy.Formulations Lcapy.StateSpace
open Lcapy.Driver.C01 (splitSep parseAnalysis className)

def gq (v : GQ) : String := toString v

/-- sum coefficients per key, drop zeros, sort by key name -/
def canonCoeffs (l : List (String × GQ)) : List (String × GQ) :=
  let keys := l.foldl (fun acc p => if acc.contains p.1 then acc else acc ++ [p.1]) ([] : List String)
  let summed := keys.map (fun k => (k, (l.filter (fun p => p.1 = k)).foldl (fun acc p => acc + p.2) (0 : GQ)))
  let nz := summed.filter (fun p => !p.2.isZero)
  nz.toArray.qsort (fun a b => a.1 < b.1) |>.toList

def formStr (coeffs : List (String × GQ)) (const : GQ) : String :=
  " ".intercalate ((canonCoeffs coeffs).map (fun p => s!"{p.1}:{gq p.2}")) ++ " ; " ++ gq const

def parseGNode (g : List (Edge GQ)) (e : Elab) (t : String) : Option GNode :=
  if t.startsWith "*" then
    match (t.drop 1).toString.toNat? with
    | some d => g.findSome? (fun ed => match ed.a with
        | .dummy d' n => if d' = d then some (.dummy d' n) else none
        | _ => none)
    | none => none
  else (findClass e.cls t).map .real

def parseList (toks : List String) : Option (List GQ) := toks.mapM GQ.parse

/-- determinant by fraction-free-less Gaussian elimination over checked Gaussian rationals -/
def det (n : Nat) (rows : List (List GQ)) : GQ :=
  let r := (List.range n).foldl (fun (st : List (List GQ) × GQ) (col : Nat) =>
    let (rows, d) := st
    match (List.range n).find? (fun r => r ≥ col && !((rows.getD r []).getD col 0).isZero) with
    | none => (rows, 0)
    | some p =>
      let rows := swapRows rows col p
      let d := if p = col then d else -d
      let prow := rows.getD col []
      let pv := prow.getD col 0
      let rows := rows.mapIdx (fun r row =>
        if r ≤ col then row
        else
          let f := row.getD col 0 / pv
          (row.zip prow).map (fun (a, b) => a - f * b))
      (rows, d * pv)) (rows, (1 : GQ))
  r.2

def chunk (n : Nat) (l : List GQ) : List (List GQ) :=
  if n = 0 then [] else (List.range (l.length / n)).map (fun i => (l.drop (i * n)).take n)

/-- solve (sI − A) X = rhs -/
def solveState (n : Nat) (A : List (List GQ)) (s : GQ) (rhs : List GQ) : Option (List GQ) :=
  let rows := (List.range n).map (fun i =>
    (List.range n).map (fun j => (if i = j then s else 0) - (A.getD i []).getD j 0) ++ [rhs.getD i 0])
  match gaussJordan n rows with
  | none => none
  | some rows => some (rows.map (fun r => r.getD n 0))

def ssStr (sys : SS GQ) : String :=
  s!"{sys.n} ; " ++ " ".intercalate (sys.Arows.flatten.map gq) ++ " ; " ++ " ".intercalate (sys.Bcol.map gq) ++
    " ; " ++ " ".intercalate (sys.Crow.map gq) ++ " ; " ++ gq sys.D

def ssOfLists (n : Nat) (A B C : List GQ) (D : GQ) : SS GQ :=
  { n := n, A := fun i j => A.getD (i * n + j) 0, B := fun i => B.getD i 0, C := fun j => C.getD j 0, D := D }

/-! ### cycle-basis certificate (untrusted search; `Formulations.checkBasis` is the judge) -/

/-- reduced row echelon form of a rectangular augmented system; returns (solution with free variables 0, rank) -/
def solveRect (rows : List (List GQ)) (ncols : Nat) : List GQ × Nat := Id.run do
  let mut rows := rows
  let mut pivots : List (Nat × Nat) := []
  let mut r := 0
  for col in List.range ncols do
    match (List.range rows.length).find? (fun i => i ≥ r && !((rows.getD i []).getD col 0).isZero) with
    | none => pure ()
    | some p =>
      rows := swapRows rows r p
      let prow := rows.getD r []
      let pv := prow.getD col 0
      let prow := prow.map (fun v => v / pv)
      rows := rows.set r prow
      let rr := r
      rows := rows.mapIdx (fun i row =>
        if i = rr then row
        else
          let f := row.getD col 0
          if f.isZero then row else (row.zip prow).map (fun (a, b) => a - f * b))
      pivots := pivots ++ [(col, r)]
      r := r + 1
  let sol := (List.range ncols).map (fun col =>
    match pivots.find? (fun pr => pr.1 = col) with
    | some (_, ri) => (rows.getD ri []).getD ncols 0
    | none => 0)
  return (sol, r)

def dedupG (l : List GNode) : List GNode := l.foldl (fun acc i => if acc.contains i then acc else acc ++ [i]) []

/-- walks from a root of every connected component of the graph to each of its nodes (ground first) -/
def findPaths (g : List (Edge GQ)) : List (GNode × List GNode) := Id.run do
  let nodes := dedupG ([GNode.real 0] ++ g.flatMap (fun e => [e.a, e.b]))
  let mut paths : List (GNode × List GNode) := []
  for root in nodes do
    if !(paths.any (fun p => p.1 == root)) then
      paths := paths ++ [(root, [root])]
      for _ in List.range nodes.length do
        for e in g do
          match paths.find? (fun p => p.1 == e.a), paths.find? (fun p => p.1 == e.b) with
          | some pa, none => paths := paths ++ [(e.b, pa.2 ++ [e.b])]
          | none, some pb => paths := paths ++ [(e.a, pb.2 ++ [e.a])]
          | _, _ => pure ()
  return paths

def findCert (cs : List (Cpt GQ)) (loops : List (List GNode)) : BasisCert GQ × Nat :=
  let g := buildGraph cs
  let N := cs.length
  let paths := findPaths g
  let pathOf (v : GNode) : List GNode := match paths.find? (fun p => p.1 == v) with | some p => p.2 | none => []
  let L : List (List GQ) := loops.map (fun l => (List.range N).map (fun idx => inc g (loopPairs l) idx))
  let rank := (solveRect (L.map (fun row => row ++ [0])) N).2
  let coefs := g.map (fun e =>
    let tgt := (List.range N).map (fun idx =>
      inc g (openPairs (pathOf e.a)) idx + edgeUnit e idx - inc g (openPairs (pathOf e.b)) idx)
    if tgt.all GQ.isZero then loops.map (fun _ => (0 : GQ))
    else
      let rows := (List.range N).map (fun idx => L.map (fun row => row.getD idx 0) ++ [tgt.getD idx 0])
      (solveRect rows loops.length).1)
  (⟨paths, coefs⟩, rank)

/-! ### StateSpaceMaker -/

def dedupIx (l : List Ix) : List Ix := l.foldl (fun acc i => if acc.contains i then acc else acc ++ [i]) []

/-- the (untrusted) linear solver handed to `SSMaker.ssModel`: Gauss–Jordan over the indices that occur -/
def gjSolver (cs : List (Cpt GQ)) : Ix → GQ :=
  let st := stampAll .time 0 cs
  let us := (dedupIx (st.lhs.map (fun e => e.1) ++ st.lhs.map (fun e => e.2.1) ++ st.rhs.map (fun e => e.1))).filter
    (fun i => i != Ix.node 0)
  let rows := us.map (fun r => us.map (fun c => entryA st r c) ++ [entryZ st r])
  match gaussJordan us.length rows with
  | none => fun _ => 0
  | some rows =>
    let sol := rows.map (fun row => row.getD us.length 0)
    fun ix => match us.idxOf? ix with | some i => sol.getD i 0 | none => 0

/-- why `cct.ss` refuses a netlist before / while building the model (mirrors the real code's error branches):
    F, H, K lose their control / inductor names in `cct.sympify()` (syntax error); the MNA results hold no
    current for a VCCS, which `cct.ss` asks for (KeyError) -/
def ssRefusal (raw : List RawCpt) : Option String :=
  if raw.any (fun c => c.ty = "F" || c.ty = "H" || c.ty = "K") then some "refused sympify-drops-names"
  else if raw.any (fun c => c.ty = "G") then some "refused no-branch-current"
  else if raw.any (fun c => !(["R", "C", "L", "V", "I", "E", "TF", "W"].contains c.ty)) then some "error unsupported-type"
  else none

def handleMaker (secs : List (List String)) : String := Id.run do
  let lines := secs.map (fun l => " ".intercalate l)
  match elaborate .dc lines with
  | .error msg => s!"error {msg}"
  | .ok e =>
    match ssRefusal e.raw with
    | some r => r
    | none =>
      let named := e.cpts
      let cs := named.map (·.2)
      match SSMaker.ssModel gjSolver cs with
      | none => "refused singular"
      | some M =>
        let en := (List.range cs.length).zip named
        let nameAt (p : Nat) : String := ((named.getD p ("?", Cpt.Open 0 0)).1)
        let cptAt (p : Nat) : Cpt GQ := ((named.getD p ("?", Cpt.Open 0 0)).2)
        let sp := SSMaker.statePos cs
        let ip := SSMaker.inputPos cs
        let stName (p : Nat) : String := (match cptAt p with | .Cap _ _ _ _ => "v_" | _ => "i_") ++ nameAt p
        let rowOf (F : (Ix → GQ) → (Nat → GQ) → GQ) (L : List Nat) : List String := L.map (fun q => gq (SSMaker.entry F M q))
        let A := sp.flatMap (fun p => rowOf (SSMaker.dotx M.base p (cptAt p)) sp)
        let B := sp.flatMap (fun p => rowOf (SSMaker.dotx M.base p (cptAt p)) ip)
        let nodes := (List.range (e.cls.length - 1)).map (· + 1)
        let outs : List (String × ((Ix → GQ) → (Nat → GQ) → GQ)) :=
          nodes.map (fun k => ("v_" ++ className e k, SSMaker.outV k)) ++
          (en.filter (fun pc => SSMaker.hasCurrent pc.2.2 && !(match pc.2.2 with | .TF _ _ _ _ _ _ => true | _ => false))).map
            (fun pc => ("i_" ++ pc.2.1, SSMaker.outI M.base pc.1 pc.2.2))
        let C := outs.flatMap (fun o => rowOf o.2 sp)
        let D := outs.flatMap (fun o => rowOf o.2 ip)
        s!"ok || {" ".intercalate (sp.map stName)} || {" ".intercalate (ip.map nameAt)} || {" ".intercalate A} || " ++
          s!"{" ".intercalate B} || {" ".intercalate (outs.map (·.1))} || {" ".intercalate C} || {" ".intercalate D}"

def handleForm (cmd : String) (variant : List String) (secs : List (List String)) : String := Id.run do
  match secs with
  | anToks :: more =>
    match parseAnalysis anToks with
    | none => "bad-analysis"
    | some an =>
      let (lineToks, loopToks) :=
        match more.idxOf? ["loops"] with
        | some i => (more.take i, more.drop (i + 1))
        | none => (more, [])
      let lines := lineToks.map (fun l => " ".intercalate l)
      match elaborate an lines with
      | .error msg => s!"error {msg}"
      | .ok e =>
        -- `CircuitGraph.from_circuit`: 'Cannot create CircuitGraph with twoport components'
        if e.raw.any (fun c => ["TF", "GY", "TP", "TL"].contains c.ty) then "error twoport" else
        let cs := e.cpts.map (·.2)
        -- one switch is left: e1 / "patched" = components identified by graph edge (proposed patch for
        -- the open finding C15-c), e0 / "asis" = by node names (code as it is)
        let v := (variant.head?).getD "asis"
        let pe : Bool := v = "patched" || (v.splitOn "e1").length > 1
        let sF : GQ := an.s
        if cmd = "form.nodal" then
          match nodalEqs an.kind sF cs with
          | none => "error unsupported"
          | some eqs =>
            " || ".intercalate (eqs.map (fun (k, f) =>
              className e k ++ " = " ++
                formStr ((f.coeffs.filter (fun p => p.1 ≠ 0)).map (fun p => (className e p.1, p.2))) f.const))
        else
          let g := buildGraph cs
          match loopToks.mapM (fun l => l.mapM (parseGNode g e)) with
          | none => "error bad-loop"
          | some loops =>
            if cmd = "form.cycles" then
              " ".intercalate (loops.map (fun l => toString (isSimpleCycle g l)))
            else if cmd = "form.basis" then
              let (cert, rank) := findCert cs loops
              let nul := g.length + 1 - (dedupG ([GNode.real 0] ++ g.flatMap (fun e => [e.a, e.b]))).length
              s!"{checkBasis cs loops cert} loops={loops.length} rank={rank} edges-nodes+1={nul}"
            else
              " || ".intercalate (loops.map (fun l =>
                match meshEq pe an.kind sF g loops l with
                | none => "error unsupported"
                | some f => formStr (f.coeffs.map (fun p => (toString p.1, p.2))) f.const))
  | [] => "bad-op"

def handle (toks : List String) : Option String :=
  match toks with
  | cmd :: rest =>
    if cmd.startsWith "form." then some <| Id.run do
      match splitSep rest with
      | variant :: secs =>
        if cmd = "form.eval" then
          match secs with
          | [cs, [c0], xs] =>
            match parseList cs, GQ.parse c0, parseList xs with
            | some cs, some c0, some xs =>
              if cs.length ≠ xs.length then "bad-op"
              else gq ((cs.zip xs).foldl (fun acc p => acc + p.1 * p.2) c0)
            | _, _, _ => "bad-op"
          | _ => "bad-op"
        else handleForm cmd variant secs
      | [] => "bad-op"
    else if cmd.startsWith "ss." then some <| Id.run do
      match splitSep rest with
      | _ :: secs =>
        if cmd = "ss.maker" then handleMaker secs
        else if cmd = "ss.singular" then
          match secs with
          | [sv] :: lineToks =>
            match GQ.parse sv with
            | none => "bad-op"
            | some sp =>
              match elaborate (.lap sp) (lineToks.map (fun l => " ".intercalate l)) with
              | .error msg => s!"error {msg}"
              | .ok e =>
                let st := stampAll .lap sp (e.cpts.map (·.2))
                let us := unknowns e
                let rows := us.map (fun r => us.map (fun c => entryA st r c) ++ [(0 : GQ)])
                match gaussJordan us.length rows with
                | none => "singular"
                | some _ => "regular"
          | _ => "bad-op"
        else if cmd = "ss.form" then
          match rest.head?, secs with
          | some form, [b, a] =>
            match parseList b, parseList a with
            | some b, some a =>
              match (if form = "ccf" then ccf b a else if form = "ocf" then ocf b a else none) with
              | some sys => if sys.n = 0 then "error degree-zero" else ssStr sys
              | none => "error improper"
            | _, _ => "bad-op"
          | _, _ => "bad-op"
        else if cmd = "ss.dcf" then
          match secs with
          | [b, a, p, r] =>
            match parseList b, parseList a, parseList p, parseList r with
            | some b, some a, some p, some r =>
              match dcf b a p r with
              | some sys => ssStr sys
              | none => "error improper"
            | _, _, _, _ => "bad-op"
          | _ => "bad-op"
        else if cmd = "ss.realises" then
          match secs with
          | [[n], A, B, C, [D], b, a, [s]] =>
            match n.toNat?, parseList A, parseList B, parseList C, GQ.parse D, parseList b, parseList a, GQ.parse s with
            | some n, some A, some B, some C, some D, some b, some a, some s =>
              let sys := ssOfLists n A B C D
              match solveState n (chunk n A) s B with
              | none => "singular"
              | some X =>
                if !((sys.residuals s X).all GQ.isZero) then "solver-failed"
                else
                  let d := sys.outputAt X * polyEval a s - polyEval b s
                  if d.isZero then "true" else s!"false {gq d}"
            | _, _, _, _, _, _, _, _ => "bad-op"
          | _ => "bad-op"
        else if cmd = "ss.resp" then
          match secs with
          | [[n, m, p], A, B, C, D, [s], U, x0] =>
            match n.toNat?, m.toNat?, p.toNat?, parseList A, parseList B, parseList C, parseList D, GQ.parse s,
                  parseList U, parseList x0 with
            | some n, some m, some _, some A, some B, some C, some D, some s, some U, some x0 =>
              let sys : MIMO GQ := ⟨chunk n A, chunk m B, chunk n C, chunk m D⟩
              let BU := matVec sys.B U
              let rhs := (List.range n).map (fun i => BU.getD i 0 + x0.getD i 0)
              match solveState n sys.A s rhs with
              | none => "singular"
              | some X =>
                if !((stateResidual sys s X U x0).all GQ.isZero) then "solver-failed"
                else "ok " ++ " ".intercalate ((outputs sys X U).map gq)
            | _, _, _, _, _, _, _, _, _, _ => "bad-op"
          | _ => "bad-op"
        else if cmd = "ss.det" then
          match secs with
          | [[n], A, [s]] =>
            match n.toNat?, parseList A, GQ.parse s with
            | some n, some A, some s =>
              let rows := (List.range n).map (fun i =>
                (List.range n).map (fun j => (if i = j then s else 0) - A.getD (i * n + j) 0))
              gq (det n rows)
            | _, _, _ => "bad-op"
          | _ => "bad-op"
        else "unknown-request"
      | [] => "bad-op"
    else none
  | [] => none

end Lcapy.Driver.C15
