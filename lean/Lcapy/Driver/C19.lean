/-
  Line-protocol handler for the synthesis model and its spec (C19).  Carrier `Poly.CQ`.
  Sections separated by `|`, coefficient lists low-order first.

    syn.cauerI | N | D | x         ok <Z at x> <leaves>  |  raise  |  negpower  |  fuelout  |  empty
    syn.cauerII | N | D | x        same, from the inverse coefficients of D/N
    syn.cfcoeffs | N | D           (as rf.cfcoeffs)
    syn.pattern <form> | c0 cp cm other | x      c? = number or `-` (absent), other = 0/1
                                    ok <Z at x> <leaves>  |  raise  |  empty
    syn.same | N | D | x | got     SPEC predicate:  N(x)/D(x) = got   (undef if D(x) = 0)
    syn.value | N | D | x
    syn.foster I|II | N | D | roots | x      roots = `r n r n …`: root table of D (Foster I) or of N (Foster II)
                                    ok <Z at x> <shape> <leaves>  |  raise  |  badtable
    syn.secs | N | D | roots       the terms of partfrac(combine_conjugates=True): `m q k`, `s r p o`, `p n1 n0 a b` separated by `;`
    syn.form <form> | N | D | x    the pattern forms and RLC decided FROM N/D (collOf):  ok …  |  raise  |  empty
    syn.coll | N | D               the dictionary collOf N D:  c0 cp cm other
    syn.network <Z|Y|other> <form> | N | D | poles | zeros | x
                                    ok …  |  empty  |  err:<notImpedance|unknownForm|cannotRealise>  |  badtable  |  outside
    syn.transform <form> | <net, prefix notation: S a b, P a b, R:v L:v C:v G:v> | poles | zeros | x
                                    <N of net.Z> ; <D of net.Z> ; <network reply>   (N, D cancelled, low order first)
    syn.netZ | <net> | x           value of Net.Z and of ratZ at x:  <Z> <N(x)/D(x)>
-/
import Lcapy.Model.PolySynth
import Lcapy.Model.PolyFoster
import Lcapy.Driver.C11
namespace Lcapy.Driver.C19
open Lcapy.Poly Lcapy.Ratfun Lcapy.Synth Lcapy.Driver.C11

def leaves : Net CQ → List String
  | .R r => [s!"R:{r}"]
  | .L l => [s!"L:{l}"]
  | .C c => [s!"C:{c}"]
  | .G g => [s!"G:{g}"]
  | .ser a b => leaves a ++ leaves b
  | .par a b => leaves a ++ leaves b

def shape : Net CQ → String
  | .R r => s!"R({r})"
  | .L l => s!"L({l})"
  | .C c => s!"C({c})"
  | .G g => s!"G({g})"
  | .ser a b => s!"({shape a}+{shape b})"
  | .par a b => s!"({shape a}|{shape b})"

def netReply (x : CQ) : Option (Option (Net CQ)) → String
  | none => "raise"
  | some none => "empty"
  | some (some n) => s!"ok {n.Z x} {shape n} " ++ " ".intercalate (leaves n)

def parseOptC (s : String) : Option (Option CQ) :=
  if s == "-" then some none else (CQ.parse s).map some

def patternTable : List (String × (Coll CQ → Option (Option (Net CQ)))) :=
  [("seriesRL", seriesRL), ("seriesRC", seriesRC), ("seriesGC", seriesGC), ("seriesLC", seriesLC),
   ("seriesRLC", seriesRLC), ("parallelRL", parallelRL), ("parallelRC", parallelRC),
   ("parallelGC", parallelGC), ("parallelLC", parallelLC), ("parallelRLC", parallelRLC)]

def conjCQ (a : CQ) : CQ := ⟨a.v.map (fun x => (x.1, -x.2))⟩
/-- `Root.is_conjugate_pair`: `self.expr == root.conj` -/
def isConjCQ (p q : CQ) : Bool := decide (q = conjCQ p)

def fresReply (x : CQ) : FRes CQ → String
  | .ok n => netReply x (some (some n))
  | .raises => "raise"
  | .badTable => "badtable"

def errStr : ErrKind → String
  | .notImpedance => "notImpedance"
  | .unknownForm => "unknownForm"
  | .cannotRealise => "cannotRealise"

def nresReply (x : CQ) : NRes CQ → String
  | .ok n => netReply x (some (some n))
  | .empty => "empty"
  | .err e => "err:" ++ errStr e
  | .badTable => "badtable"
  | .outside => "outside"

def secStr : Sec CQ → String
  | .mono q k => s!"m {q} {k}"
  | .single r p o => s!"s {r} {p} {o}"
  | .pair n1 n0 a b => s!"p {n1} {n0} {a} {b}"

def optStr : Option CQ → String
  | none => "-"
  | some a => toString a

/-- prefix notation of a network: `S a b`, `P a b`, `R:v` … ; returns the network and the unread tokens -/
def parseNet : Nat → List String → Option (Net CQ × List String)
  | 0, _ => none
  | _, [] => none
  | f + 1, t :: rest =>
    if t == "S" || t == "P" then
      match parseNet f rest with
      | some (a, r1) =>
        match parseNet f r1 with
        | some (b, r2) => some (if t == "S" then .ser a b else .par a b, r2)
        | none => none
      | none => none
    else
      match t.splitOn ":" with
      | [k, v] =>
        match CQ.parse v with
        | some c =>
          if k == "R" then some (.R c, rest) else if k == "L" then some (.L c, rest)
          else if k == "C" then some (.C c, rest) else if k == "G" then some (.G c, rest) else none
        | none => none
      | _ => none

def parseKind : String → Option Kind
  | "Z" => some .impedance
  | "Y" => some .admittance
  | "other" => some .other
  | _ => none

def handle2 (toks : List String) : Option String :=
  match toks with
  | "syn.foster" :: which :: "|" :: rest => some <|
      match splitBar rest with
      | [n, d, roots, [x]] =>
        match parseList n, parseList d, parseTable roots, CQ.parse x with
        | some n, some d, some t, some x =>
          if which == "I" then fresReply x (fosterI isConjCQ n d t)
          else if which == "II" then fresReply x (fosterII isConjCQ n d t) else "bad-op"
        | _, _, _, _ => "bad-op"
      | _ => "bad-op"
  | "syn.secs" :: "|" :: rest => some <|
      match splitBar rest with
      | [n, d, roots] =>
        match parseList n, parseList d, parseTable roots with
        | some n, some d, some t =>
          match fosterSecs isConjCQ n d t with
          | some secs => "ok " ++ " ; ".intercalate (secs.map secStr)
          | none => "badtable"
        | _, _, _ => "bad-op"
      | _ => "bad-op"
  | "syn.form" :: form :: "|" :: rest => some <|
      match splitBar rest with
      | [n, d, [x]] =>
        match parseList n, parseList d, CQ.parse x, Form.ofString form with
        | some n, some d, some x, some f =>
          if f = .RLC then netReply x (rlcForm n d)
          else match patternOf f with
            | some g => netReply x (g n d)
            | none => "unknown-form"
        | _, _, _, none => "unknown-form"
        | _, _, _, _ => "bad-op"
      | _ => "bad-op"
  | "syn.coll" :: "|" :: rest => some <|
      match splitBar rest with
      | [n, d] =>
        match parseList n, parseList d with
        | some n, some d =>
          let c := collOf n d
          s!"{optStr c.c0} {optStr c.cp} {optStr c.cm} {if c.other then 1 else 0}"
        | _, _ => "bad-op"
      | _ => "bad-op"
  | "syn.network" :: kind :: form :: "|" :: rest => some <|
      match splitBar rest with
      | [n, d, poles, zeros, [x]] =>
        match parseKind kind, parseList n, parseList d, parseTable poles, parseTable zeros, CQ.parse x with
        | some k, some n, some d, some p, some z, some x => nresReply x (network isConjCQ k form n d p z)
        | _, _, _, _, _, _ => "bad-op"
      | _ => "bad-op"
  | "syn.transform" :: form :: "|" :: rest => some <|
      match splitBar rest with
      | [net, poles, zeros, [x]] =>
        match parseNet (net.length + 1) net, parseTable poles, parseTable zeros, CQ.parse x with
        | some (nt, []), some p, some z, some x =>
          let c := Poly.cancel nt.ratZ.1 nt.ratZ.2
          s!"{listStr c.1} ; {listStr c.2} ; {nresReply x (transform isConjCQ form nt p z)}"
        | _, _, _, _ => "bad-op"
      | _ => "bad-op"
  | "syn.ratZ" :: "|" :: rest => some <|
      match parseNet (rest.length + 1) rest with
      | some (nt, []) =>
        let c := Poly.cancel nt.ratZ.1 nt.ratZ.2
        s!"{listStr c.1} ; {listStr c.2}"
      | _ => "bad-op"
  | "syn.netZ" :: "|" :: rest => some <|
      match splitBar rest with
      | [net, [x]] =>
        match parseNet (net.length + 1) net, CQ.parse x with
        | some (nt, []), some x => s!"{nt.Z x} {Poly.eval nt.ratZ.1 x / Poly.eval nt.ratZ.2 x}"
        | _, _ => "bad-op"
      | _ => "bad-op"
  | _ => none

def handle (toks : List String) : Option String :=
  match handle2 toks with
  | some r => some r
  | none =>
  match toks with
  | "syn.cauerI" :: "|" :: rest => some <|
      match splitBar rest with
      | [n, d, [x]] =>
        match parseList n, parseList d, CQ.parse x with
        | some n, some d, some x =>
          match cfCoeffs n d with
          | .ok cs => netReply x (cauerI true cs)
          | .negPower => "negpower"
          | .fuelOut => "fuelout"
        | _, _, _ => "bad-op"
      | _ => "bad-op"
  | "syn.cauerII" :: "|" :: rest => some <|
      match splitBar rest with
      | [n, d, [x]] =>
        match parseList n, parseList d, CQ.parse x with
        | some n, some d, some x =>
          -- coefficients of the ADMITTANCE D/N
          match cfiCoeffs d n with
          | .ok cs => netReply x (cauerII true true cs)
          | .negPower => "negpower"
          | .fuelOut => "fuelout"
        | _, _, _ => "bad-op"
      | _ => "bad-op"
  | "syn.pattern" :: form :: "|" :: rest => some <|
      match splitBar rest with
      | [[c0, cp, cm, other], [x]] =>
        match parseOptC c0, parseOptC cp, parseOptC cm, CQ.parse x, patternTable.lookup form with
        | some c0, some cp, some cm, some x, some f => netReply x (f ⟨c0, cp, cm, other == "1"⟩)
        | _, _, _, _, none => "unknown-form"
        | _, _, _, _, _ => "bad-op"
      | _ => "bad-op"
  | "syn.same" :: "|" :: rest => some <|
      match splitBar rest with
      | [n, d, [x], [got]] =>
        match parseList n, parseList d, CQ.parse x, CQ.parse got with
        | some n, some d, some x, some g =>
          let v := Poly.eval n x / Poly.eval d x
          if v.v.isNone then "undef" else toString (decide (v = g))
        | _, _, _, _ => "bad-op"
      | _ => "bad-op"
  | "syn.value" :: "|" :: rest => some <|
      match splitBar rest with
      | [n, d, [x]] =>
        match parseList n, parseList d, CQ.parse x with
        | some n, some d, some x => toString (Poly.eval n x / Poly.eval d x)
        | _, _, _ => "bad-op"
      | _ => "bad-op"
  | "syn.cfcoeffs" :: "|" :: rest => some <|
      match splitBar rest with
      | [n, d] =>
        match parseList n, parseList d with
        | some n, some d => cfResStr (cfCoeffs n d)
        | _, _ => "bad-op"
      | _ => "bad-op"
  | _ => none

end Lcapy.Driver.C19
