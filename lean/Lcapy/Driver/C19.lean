/-
  Line-protocol handler for the synthesis model and its spec (C19).  Carrier `Poly.CQ`.
  Sections separated by `|`, coefficient lists low-order first.

    syn.cauerI | N | D | x         ok <Z at x> <leaves>  |  raise  |  negpower  |  fuelout  |  empty
    syn.cauerII | N | D | x        same, from the inverse coefficients of D/N
    syn.cfcoeffs | N | D           (as rf.cfcoeffs)
    syn.pattern <form> | c0 cp cm other | x      c? = number or `-` (absent), other = 0/1
                                    ok <Z at x> <leaves>  |  raise  |  empty
    syn.same | N | D | x | got     SPEC predicate:  N(x)/D(x) = got   (undef if D(x) = 0)
    syn.value | N | D | x
-/
import Lcapy.Model.PolySynth
import Lcapy.Driver.C11
namespace Lcapy.Driver.C19
open Lcapy.Poly Lcapy.Ratfun Lcapy.Synth Lcapy.Driver.C11

def leaves : Net CQ → List String
  | .R r => [s!"R:{r}"]
  | .L l => [s!"L:{l}"]
  | .C c => [s!"C:{c}"]
  | .G g => [s!"G:{g}"]
  | .ser a b => leaves a ++ leaves b
  | .par a b => leaves a ++ leaves b

def shape : Net CQ → String
  | .R r => s!"R({r})"
  | .L l => s!"L({l})"
  | .C c => s!"C({c})"
  | .G g => s!"G({g})"
  | .ser a b => s!"({shape a}+{shape b})"
  | .par a b => s!"({shape a}|{shape b})"

def netReply (x : CQ) : Option (Option (Net CQ)) → String
  | none => "raise"
  | some none => "empty"
  | some (some n) => s!"ok {n.Z x} {shape n} " ++ " ".intercalate (leaves n)

def parseOptC (s : String) : Option (Option CQ) :=
  if s == "-" then some none else (CQ.parse s).map some

def patternTable : List (String × (Coll CQ → Option (Option (Net CQ)))) :=
  [("seriesRL", seriesRL), ("seriesRC", seriesRC), ("seriesGC", seriesGC), ("seriesLC", seriesLC),
   ("seriesRLC", seriesRLC), ("parallelRL", parallelRL), ("parallelRC", parallelRC),
   ("parallelGC", parallelGC), ("parallelLC", parallelLC), ("parallelRLC", parallelRLC)]

def handle (toks : List String) : Option String :=
  match toks with
  | "syn.cauerI" :: "|" :: rest => some <|
      match splitBar rest with
      | [n, d, [x]] =>
        match parseList n, parseList d, CQ.parse x with
        | some n, some d, some x =>
          match cfCoeffs n d with
          | .ok cs => netReply x (cauerI true cs)
          | .negPower => "negpower"
          | .fuelOut => "fuelout"
        | _, _, _ => "bad-op"
      | _ => "bad-op"
  | "syn.cauerII" :: "|" :: rest => some <|
      match splitBar rest with
      | [n, d, [x]] =>
        match parseList n, parseList d, CQ.parse x with
        | some n, some d, some x =>
          -- coefficients of the ADMITTANCE D/N
          match cfiCoeffs d n with
          | .ok cs => netReply x (cauerII true true cs)
          | .negPower => "negpower"
          | .fuelOut => "fuelout"
        | _, _, _ => "bad-op"
      | _ => "bad-op"
  | "syn.pattern" :: form :: "|" :: rest => some <|
      match splitBar rest with
      | [[c0, cp, cm, other], [x]] =>
        match parseOptC c0, parseOptC cp, parseOptC cm, CQ.parse x, patternTable.lookup form with
        | some c0, some cp, some cm, some x, some f => netReply x (f ⟨c0, cp, cm, other == "1"⟩)
        | _, _, _, _, none => "unknown-form"
        | _, _, _, _, _ => "bad-op"
      | _ => "bad-op"
  | "syn.same" :: "|" :: rest => some <|
      match splitBar rest with
      | [n, d, [x], [got]] =>
        match parseList n, parseList d, CQ.parse x, CQ.parse got with
        | some n, some d, some x, some g =>
          let v := Poly.eval n x / Poly.eval d x
          if v.v.isNone then "undef" else toString (decide (v = g))
        | _, _, _, _ => "bad-op"
      | _ => "bad-op"
  | "syn.value" :: "|" :: rest => some <|
      match splitBar rest with
      | [n, d, [x]] =>
        match parseList n, parseList d, CQ.parse x with
        | some n, some d, some x => toString (Poly.eval n x / Poly.eval d x)
        | _, _, _ => "bad-op"
      | _ => "bad-op"
  | "syn.cfcoeffs" :: "|" :: rest => some <|
      match splitBar rest with
      | [n, d] =>
        match parseList n, parseList d with
        | some n, some d => cfResStr (cfCoeffs n d)
        | _, _ => "bad-op"
      | _ => "bad-op"
  | _ => none

end Lcapy.Driver.C19
