/- Line-protocol handler for the TwoPort NETWORK level (C08 round 3): generated model over checked
   rationals, spec predicates over `Rat`. -/
import Lcapy.Model.CRat
import Lcapy.Generated.TwoPortNet
import Lcapy.Spec.TwoPortNetExec
namespace Lcapy.Driver.C08Net
open Lcapy Lcapy.Spec

def stageStr (t : Stage CRat) : String :=
  s!"{t.rep.name} {t.m.a11} {t.m.a12} {t.m.a21} {t.m.a22} {t.s1} {t.s2}"

/-- `N m11 m12 m21 m22 s1 s2` -/
def parseStageC (l : List String) : Option (Stage CRat × List String) :=
  match l with
  | n :: a :: b :: c :: d :: s1 :: s2 :: rest => do
      let n ← MRep.ofString? n
      let a ← parseCRat a; let b ← parseCRat b; let c ← parseCRat c; let d ← parseCRat d
      let s1 ← parseCRat s1; let s2 ← parseCRat s2
      some (⟨n, ⟨a, b, c, d⟩, s1, s2⟩, rest)
  | _ => none

def parseStageR (l : List String) : Option (Stage Rat × List String) :=
  match l with
  | n :: a :: b :: c :: d :: s1 :: s2 :: rest => do
      let n ← MRep.ofString? n
      let a ← parseRat a; let b ← parseRat b; let c ← parseRat c; let d ← parseRat d
      let s1 ← parseRat s1; let s2 ← parseRat s2
      some (⟨n, ⟨a, b, c, d⟩, s1, s2⟩, rest)
  | _ => none

def parsePort (l : List String) : Option (Port Rat × List String) :=
  match l with
  | a :: b :: c :: d :: rest => do
      let a ← parseRat a; let b ← parseRat b; let c ← parseRat c; let d ← parseRat d
      some (⟨a, b, c, d⟩, rest)
  | _ => none

/-- split a token list at the separator tokens `;` -/
def groups (l : List String) : List (List String) :=
  l.foldr (fun tok acc =>
    if tok == ";" then [] :: acc
    else match acc with
      | g :: rest => (tok :: g) :: rest
      | [] => [[tok]]) [[]]

/-- one cascade group `N m11 m12 m21 m22 s1 s2 Vm Im` -/
def parseCascGroup (g : List String) : Option (Stage Rat × (Rat × Rat)) := do
  let (t, r) ← parseStageR g
  match r with
  | [vm, im] => do
      let vm ← parseRat vm; let im ← parseRat im
      some (t, (vm, im))
  | _ => none

def binLookup (name : String) : Option (Stage CRat → Stage CRat → CRat → Stage CRat) :=
  (Gen.tpnBinaryTable (K := CRat)).lookup name

/-- postfix evaluation: `S N m.. s1 s2` pushes a stage, a method name pops b then a and pushes `a.name(b)` -/
def evalPostfix (Z0 : CRat) : Nat → List String → List (Stage CRat) → Option (Stage CRat)
  | 0, _, _ => none
  | _ + 1, [], [t] => some t
  | _ + 1, [], _ => none
  | fuel + 1, "S" :: rest, st =>
      match parseStageC rest with
      | some (t, r) => evalPostfix Z0 fuel r (t :: st)
      | none => none
  | fuel + 1, op :: rest, b :: a :: st =>
      match binLookup op with
      | some f => evalPostfix Z0 fuel rest (f a b Z0 :: st)
      | none => none
  | _ + 1, _ :: _, _ => none

def boolStr (b : Bool) : String := toString b

def handle (toks : List String) : Option String :=
  match toks with
  | "tpn.arel" :: rest => some <| Id.run do
      match parseStageR rest with
      | some (t, r) =>
        match parsePort r with
        | some (p, []) => boolStr (decide (t.rel p))
        | _ => "bad-op"
      | none => "bad-op"
  | "tpn.casc" :: rest => some <| Id.run do
      -- tpn.casc V1 I1 V2 I2 ; N m.. s1 s2 Vm Im ; ...
      match parsePort rest with
      | some (p, ";" :: r) =>
        match (groups r).mapM parseCascGroup with
        | some gs => boolStr (decide (cascWit (gs.map (·.1)) (gs.map (·.2)) p.V1 p.I1 p.V2 p.I2))
        | none => "bad-op"
      | _ => "bad-op"
  | "tpn.relN" :: rep :: rest => some <| Id.run do
      -- tpn.relN X m11 m12 m21 m22 Z0 r V1 I1 V2 I2
      match Rep.ofString? rep, rest with
      | some X, a :: b :: c :: d :: z :: r :: pr =>
        match parseRat a, parseRat b, parseRat c, parseRat d, parseRat z, parseRat r, parsePort pr with
        | some a, some b, some c, some d, some z, some r, some (p, []) =>
          boolStr (decide (relN X ⟨a, b, c, d⟩ z r p))
        | _, _, _, _, _, _, _ => "bad-op"
      | _, _ => "bad-op"
  | "tpn.conn" :: kind :: rest => some <| Id.run do
      -- tpn.conn par|ser|hyb|invhyb  p(4) q(4) r(4)
      match parsePort rest with
      | some (p, r1) =>
        match parsePort r1 with
        | some (q, r2) =>
          match parsePort r2 with
          | some (r, []) =>
            let c : Conn Rat := ⟨p, q, r⟩
            match kind with
            | "par" => boolStr (decide c.par)
            | "ser" => boolStr (decide c.ser)
            | "hyb" => boolStr (decide c.hyb)
            | "invhyb" => boolStr (decide c.invhyb)
            | _ => "bad-op"
          | _ => "bad-op"
        | none => "bad-op"
      | none => "bad-op"
  | "tpn.pivot" :: x :: p :: rest => some <| Id.run do
      -- tpn.pivot X P m11 m12 m21 m22  (value of the existence pivot)
      match MRep.ofString? x, MRep.ofString? p, rest with
      | some X, some P, [a, b, c, d] =>
        match parseRat a, parseRat b, parseRat c, parseRat d with
        | some a, some b, some c, some d => ratToStr (pivot X P (⟨a, b, c, d⟩ : M2 Rat))
        | _, _, _, _ => "bad-op"
      | _, _, _ => "bad-op"
  | "tpn.model" :: name :: rest => some <| Id.run do
      -- tpn.model Hmodel N m.. s1 s2 Z0
      match parseStageC rest with
      | some (t, [z]) =>
        match parseCRat z, (Gen.tpnModelTable (K := CRat)).lookup name with
        | some z, some f => stageStr (f t z)
        | _, none => "unknown-def"
        | none, _ => "bad-op"
      | _ => "bad-op"
  | "tpn.src" :: name :: rest => some <| Id.run do
      match parseStageC rest with
      | some (t, [z]) =>
        match parseCRat z, (Gen.tpnSourceTable (K := CRat)).lookup name with
        | some z, some f => toString (f t z)
        | _, none => "unknown-def"
        | none, _ => "bad-op"
      | _ => "bad-op"
  | "tpn.params" :: name :: rest => some <| Id.run do
      match parseStageC rest with
      | some (t, [z]) =>
        match parseCRat z, (Gen.tpnParamsTable (K := CRat)).lookup name with
        | some z, some f => let m := f t z; s!"{m.a11} {m.a12} {m.a21} {m.a22}"
        | _, none => "unknown-def"
        | none, _ => "bad-op"
      | _ => "bad-op"
  | "tpn.tree" :: z :: rest => some <| Id.run do
      -- tpn.tree Z0 <postfix: S N m.. s1 s2 | chain | append | prepend | cascade | mul | Par2 ...>
      match parseCRat z with
      | some z =>
        if rest.any (fun t => t != "S" && (binLookup t).isNone && (parseCRat t).isNone && (MRep.ofString? t).isNone)
        then "unknown-def"
        else match evalPostfix z (rest.length + 2) rest [] with
          | some t => stageStr t
          | none => "bad-op"
      | none => "bad-op"
  | "tpn.ctor" :: n :: rest => some <| Id.run do
      -- tpn.ctor N x11 x12 x21 x22 s1 s2   (each a rational or `none`): what the constructor keeps (`sym` = defaulted)
      let parseArg (t : String) : Option (Option Rat) := if t == "none" then some none else (parseRat t).map some
      match (Gen.ctorRules).lookup n, rest.mapM parseArg with
      | some (er, sr), some args =>
        if args.length != 6 || er.length != 4 || sr.length != 2 then "bad-op"
        else
          let rules := er ++ sr
          let outs := (rules.zip args).map fun (r, a) =>
            match r.apply a with
            | some v => ratToStr v
            | none => "sym"
          " ".intercalate outs
      | none, _ => "unknown-def"
      | _, none => "bad-op"
  | ["tp.chainconv"] => some (toString (repr Gen.chainArgConv))
  | ["tpn.eqvec"] => some (toString (repr (Gen.equationVectors)))
  | _ => none

end Lcapy.Driver.C08Net
