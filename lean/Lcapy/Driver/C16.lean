/- Line-protocol handler for the cache model and spec (C16). -/
import Lcapy.Model.Cache
import Lcapy.Model.CacheAux
import Lcapy.Model.SymReg
import Lcapy.Model.Alias
import Lcapy.Spec.Cache
import Lcapy.Generated.Caches
namespace Lcapy.Driver.C16
open Lcapy Lcapy.Cache

/-- split a token list at every occurrence of `sep` -/
def splitAt (sep : String) (toks : List String) : List (List String) :=
  let (cur, acc) := toks.foldl (fun (p : List String × List (List String)) t =>
    if t = sep then ([], p.2 ++ [p.1]) else (p.1 ++ [t], p.2)) ([], [])
  acc ++ [cur]

/-! ### netlist lines: the fields that are nodes are read off the GENERATED grammar table -/

/-- `k:<keyword>` / `n` / `x`, optional marker stripped -/
def codeBase (c : String) : String := if c.endsWith "?" then (c.dropEnd 1).toString else c
def codeOptional (c : String) : Bool := c.endsWith "?"
def codeKeyword (c : String) : Option String :=
  let b := codeBase c
  if b.startsWith "k:" then some (b.drop 2).toString else none

/-- component type of a name: the LONGEST rule type that is a prefix of the name
    (parser.py: `re.compile("(%s)([#_\w'?]+)?" % '|'.join(sorted(types, key=len, reverse=True))).match`) -/
def typeOfName (nm : String) : Option String :=
  let types := (Gen.Caches.rules.map (·.1)).eraseDups
  let cands := types.filter (fun t => nm.startsWith t)
  cands.foldl (fun best t => match best with
    | none => some t
    | some b => if t.length > b.length then some t else some b) none

/-- rule selection of `Parser.parse`: the first rule of the type, unless a rule with a keyword at position `pos`
    finds that keyword (case-insensitively) in the fields: the first such rule -/
def selectRule (ty : String) (fields : List String) : Option (List String) :=
  let rs := (Gen.Caches.rules.filter (fun r => r.1 = ty)).map (·.2)
  match rs with
  | [] => none
  | r0 :: _ =>
    let kw := rs.find? (fun r =>
      match r.findIdx? (fun c => (codeKeyword c).isSome) with
      | none => false
      | some pos =>
        match fields[pos]?, (r[pos]?).bind codeKeyword with
        | some f, some k => f.toLower = k.toLower
        | _, _ => false)
    some (kw.getD r0)

inductive Line where
  | ok (e : Elt)
  /-- raises before the component is constructed -/
  | early
  /-- raises after the constructor attached the component to its nodes -/
  | late (e : Elt)

/-- a value the expression parser rejects: `{...}` whose last character before the brace is an operator -/
def badValue (t : String) : Bool :=
  t.startsWith "{" && t.endsWith "}" &&
    (match ((t.dropEnd 1).toString.toList.reverse.head?) with
     | some c => c == '+' || c == '-' || c == '*' || c == '/' || c == '('
     | none => false)

/-- one netlist line (fields already split at blanks) -/
def parseLine (toks : List String) : Line :=
  match toks with
  | [] => .early
  | nm :: fields =>
    match typeOfName nm with
    | none => .early                                   -- Unknown component
    | some ty =>
      match selectRule ty fields with
      | none => .early
      | some rule =>
        if fields.length > rule.length then .early       -- Too many args
        else
          let idx := List.range rule.length
          let missing := idx.any (fun m =>
            match rule[m]? with
            | some c => (codeBase c = "n" || (codeBase c = "x" && !codeOptional c)) && m ≥ fields.length
            | none => false)
          if missing then .early                          -- Missing node / Missing arg
          else
            let nodes := idx.filterMap (fun m =>
              match rule[m]?, fields[m]? with
              | some c, some f => if codeBase c = "n" then some f else none
              | _, _ => none)
            let args := idx.filterMap (fun m =>
              match rule[m]?, fields[m]? with
              | some c, some f => if codeBase c = "n" then none else some f
              | _, _ => none)
            let e : Elt := ⟨nm, ty, nodes, " ".intercalate args⟩
            if args.any badValue then .late e             -- Invalid expression (raised inside Cpt.__init__)
            else if Gen.Caches.reserved.contains nm then .late e   -- Invalid component name (raised by _cpt_add)
            else .ok e

def parseElt (toks : List String) : Option Elt :=
  match parseLine toks with
  | .ok e => some e
  | _ => none

/-- `add` of one or several lines: the lines before the first raising one, and how it raises -/
def splitLines (lines : List (List String)) : List Elt × Option (Elt × Bool) :=
  let rec go : List (List String) → List Elt → List Elt × Option (Elt × Bool)
    | [], acc => (acc.reverse, none)
    | l :: ls, acc =>
      match parseLine l with
      | .ok e => go ls (e :: acc)
      | .early => (acc.reverse, some (⟨(l.head?).getD "", "", [], ""⟩, false))
      | .late e => (acc.reverse, some (e, true))
  go lines []

def parseOp (toks : List String) : Option Op :=
  match toks with
  | ["new"] => some .new
  | "add" :: i :: rest =>
    match parseLine rest with
    | .ok e => some (.add i.toNat! e)
    | .early => some (.addFail i.toNat! [] ⟨(rest.head?).getD "", "", [], ""⟩ false)
    | .late e => some (.addFail i.toNat! [] e true)
  | "addraw" :: i :: rest => do let e ← parseElt rest; some (.addRaw i.toNat! e)
  | "addlines" :: i :: rest =>
    let lines := (splitAt "|" rest).filter (· ≠ [])
    match splitLines lines with
    | (es, none) => some (.addLines i.toNat! es)
    | (es, some (e, late)) => some (.addFail i.toNat! es e late)
  | ["remove", i, nm] => some (.remove i.toNat! nm)
  | "query" :: i :: q :: _ => some (.query i.toNat! q)
  | "derive" :: i :: pre :: rest =>
    let lines := (splitAt "|" rest).filter (· ≠ [])
    do let es ← lines.mapM parseElt; some (.derive i.toNat! pre es)
  | _ => none

def parseOps (toks : List String) : Option (List Op) :=
  ((splitAt ";" toks).filter (· ≠ [])).mapM parseOp

def cfg : Config := Gen.Caches.config

def provStr (E : Ver) (p : String × Option Memo) : String :=
  match p.2 with
  | none => s!"{p.1}=none"
  | some m => s!"{p.1}={if m.ver = E then "cur" else "stale"}@{m.stamp}:{if m.clean then "clean" else "dirty"}"

/-- like `readSlots` but keeps the entries (with stamps) for printing -/
def readSlotsM (i : Nat) : World → List String → World × List (String × Option Memo)
  | w, [] => (w, [])
  | w, d :: ds =>
    let (w1, m) := readSlot cfg w i d
    let (w2, ps) := readSlotsM i w1 ds
    (w2, (d, m) :: ps)

/-- run a history, producing one record per op -/
def trace : World → List Op → List String → World × List String
  | w, [], acc => (w, acc)
  | w, op :: ops, acc =>
    let (w', ok) := step cfg w op
    let rec1 := match op with
      | .query i q =>
        let w0 := { w with clock := w.clock + 1 }
        let ps := (readSlotsM i w0 (cfg.readsOf q)).2
        let E := eltsOf w0 i
        if ps.isEmpty then "-" else ",".intercalate (ps.map (provStr E))
      | _ => if ok then "ok" else "raise"
    trace w' ops (acc ++ [rec1])

def sortStrs (l : List String) : List String := (l.toArray.qsort (· < ·)).toList

def nodeNames (inst : Inst) : List String := sortStrs (inst.tab.map (·.name))

def obsStr (w : World) (i : Nat) : String :=
  match w.insts[i]? with
  | none => "no-instance"
  | some inst =>
    let names := inst.elts.map (·.name)
    let counts := (nodeNames inst).map (fun n => s!"{n}:{countOf inst.tab n}")
    let degs := (nodeNames inst).map (fun n => s!"{n}:{degOf inst.tab n}")
    let unconn := (nodeNames inst).filter (fun n => countOf inst.tab n ≤ 1)
    let dang := (inst.elts.filter (cptDangling inst.tab)).map (·.name)
    let rd := structural removeDanglingPass inst
    let memo := sortStrs (inst.memo.map (·.slot))
    let lru := sortStrs ((w.lru.filter (fun p => p.1 = i)).map (·.2.slot))
    let j (l : List String) := if l.isEmpty then "-" else ",".intercalate l
    s!"elts={j names} counts={j counts} degs={j degs} unconn={j unconn} dang={j dang} rd={j rd} memo={j memo} lru={j lru} n={w.insts.length}"

/-! ### symbol registry / context machine -/

def symCfg : SymReg.Cfg := ⟨Gen.Caches.deleteCleansKinds, Gen.Caches.addRestoresContextOnError⟩

def parseSymOp (toks : List String) : Option SymReg.Op :=
  match toks with
  | ["declare", n, a] => some (.declare n a)
  | ["use", n, a] => some (.use n a)
  | ["delete", n] => some (.delete n)
  | ["add", c, ns, ok] => some (.add c.toNat! ((ns.splitOn ",").filter (· ≠ "-")) (ok = "ok"))
  | ["enter", c] => some (.enter c.toNat!)
  | ["leave"] => some .leave
  | _ => none

def parseSymOps (toks : List String) : Option (List SymReg.Op) :=
  ((splitAt ";" toks).filter (· ≠ [])).mapM parseSymOp

def handle (toks : List String) : Option String :=
  match toks with
  | "c16.trace" :: rest => some <|
      match parseOps rest with
      | none => "bad-op"
      | some ops => " | ".intercalate (trace World.empty ops []).2
  | "c16.obs" :: i :: rest => some <|
      match parseOps rest with
      | none => "bad-op"
      | some ops => obsStr (run cfg World.empty ops) i.toNat!
  | "c16.fresh" :: rest => some <|
      -- observation of a freshly built circuit: lines separated by `|`
      match ((splitAt "|" rest).filter (· ≠ [])).mapM parseElt with
      | none => "bad-op"
      | some es => obsStr (build es) 0
  | ["c16.cfg"] => some <|
      let unc := (cfg.memoised.filter (fun p => !cfg.isCleared p.1)).map (·.1)
      let j (l : List String) := if l.isEmpty then "-" else ",".intercalate l
      s!"uncleared={j unc} removesel={if cfg.removeSel = .all then "all" else "slice"} damages={cfg.damages.length} faildetach={cfg.failedAddDetaches} errinv={cfg.addInvalidatesOnError} add={cfg.addInvalidates} addmulti={cfg.addMultiInvalidates} remove={cfg.removeInvalidates} init={cfg.initInvalidates} detach={cfg.overrideDetaches} hashsites={Gen.Caches.hashOrderSites.length} full={cfgOKb cfg (fun _ => true) && cfg.overrideDetaches} partial={cfgOKb cfg (Gexcl cfg knownUncleared)}"
  | "c16.sym" :: rest => some <|
      match parseSymOps rest with
      | none => "bad-op"
      | some ops =>
        let st := SymReg.run symCfg SymReg.St.init ops
        let ans := SymReg.answers symCfg SymReg.St.init ops
        s!"ans={if ans.isEmpty then "-" else ",".intercalate ans} cur={st.cur} depth={st.stack.length}"
  | "c16.symfresh" :: n :: a :: rest => some <|
      match parseSymOps rest with
      | none => "bad-op"
      | some ops => toString (SymReg.freshLike symCfg ops n a)
  | "c16.symstable" :: ns :: rest => some <|
      match parseSymOps rest with
      | none => "bad-op"
      | some ops => toString (SymReg.stableOver ops ((ns.splitOn ",").filter (· ≠ "-")))
  | "c16.alias" :: c :: d :: a :: rest => some <|
      -- derivations from a kept expression with assumptions (causal, dc, ac): `c` = always-causal class, `n` = other
      let copies := Gen.Caches.argAliasMutations.isEmpty
      let b (t : String) : Bool := t == "1"
      let h0 : Alias.Heap := ⟨[⟨b c, b d, b a⟩]⟩
      let src : Alias.ExprRef := ⟨0⟩
      let ds : List Bool := (rest.filter (· ≠ ";")).map (fun t => t == "c")
      let (hN, outs) := ds.foldl (fun (acc : Alias.Heap × List String) ac =>
        let r := Alias.derive copies acc.1 src ac
        let f := r.1.get r.2.ass
        (r.1, acc.2 ++ [s!"{if f.causal then 1 else 0}{if f.dc then 1 else 0}{if f.ac then 1 else 0}"])) (h0, [])
      let f := hN.get 0
      s!"src={if f.causal then 1 else 0}{if f.dc then 1 else 0}{if f.ac then 1 else 0} derived={if outs.isEmpty then "-" else ",".intercalate outs}"
  | "c16.renumber" :: rest => some <|
      -- a sequence of `renumber()` calls in one process: node lists separated by `;`
      let mutableDefault := !Gen.Caches.mutableDefaults.isEmpty
      let calls := (splitAt ";" rest).filter (· ≠ [])
      let outs := Alias.callsS mutableDefault ⟨[]⟩ calls
      " ; ".intercalate (outs.map (fun o => match o with
        | none => "raise"
        | some m => if m.isEmpty then "-" else ",".intercalate (m.map (fun p => s!"{p.1}>{p.2}"))))
  | ["c16.symcfg"] => some s!"deleteCleansKinds={symCfg.deleteCleansKinds} restoreOnError={symCfg.restoreOnError} share={Gen.Caches.contextsShareSymbols}"
  | "c16.line" :: rest => some <|
      match parseLine rest with
      | .ok e => s!"ok {e.kind} {",".intercalate e.nodes}"
      | .early => "early"
      | .late e => s!"late {e.kind} {",".intercalate e.nodes}"
  | ["c16.covered", q] => some <|
      if (cfg.reads.lookup q).isNone then "unknown-query"
      else toString ((cfg.readsOf q).all (Gexcl cfg knownUncleared))
  | ["c16.reads", q] => some <|
      match cfg.reads.lookup q with
      | none => "unknown-query"
      | some ds => if ds.isEmpty then "-" else ",".intercalate ds
  | "c16.same" :: rest => some <|
      match splitAt "==" rest with
      | [a, b] => toString (sameObservations (a.map (fun t => (t, ""))) (b.map (fun t => (t, ""))))
      | _ => "bad-op"
  | "c16.tkey" :: tr :: expr :: kws => some <|
      match Gen.Caches.transformers.lookup tr with
      | none => "unknown-transformer"
      | some (keyPairs, _) =>
        let kw := kws.filterMap (fun t => match t.splitOn "=" with | [a, b] => some (a, b) | _ => none)
        let k := TCache.keyOf keyPairs expr kw
        s!"{k.1}|{",".intercalate k.2}"
  | _ => none

end Lcapy.Driver.C16
