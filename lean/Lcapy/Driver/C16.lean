/- Line-protocol handler for the cache model and spec (C16). -/
import Lcapy.Model.Cache
import Lcapy.Model.CacheAux
import Lcapy.Spec.Cache
import Lcapy.Generated.Caches
namespace Lcapy.Driver.C16
open Lcapy Lcapy.Cache

/-- split a token list at every occurrence of `sep` -/
def splitAt (sep : String) (toks : List String) : List (List String) :=
  let (cur, acc) := toks.foldl (fun (p : List String × List (List String)) t =>
    if t = sep then ([], p.2 ++ [p.1]) else (p.1 ++ [t], p.2)) ([], [])
  acc ++ [cur]

/-- component type = leading letters of the name (`R1` ↦ `R`, `Vs` ↦ `V`): first letter suffices
    for the one-letter kinds used by the harness -/
def kindOfName (nm : String) : String := (nm.take 1).toString

/-- `name n1 n2 args...` (two-terminal components only) -/
def parseElt : List String → Option Elt
  | nm :: n1 :: n2 :: rest => some ⟨nm, kindOfName nm, [n1, n2], " ".intercalate rest⟩
  | _ => none

def parseOp (toks : List String) : Option Op :=
  match toks with
  | ["new"] => some .new
  | "add" :: i :: rest => do let e ← parseElt rest; some (.add i.toNat! e)
  | "addraw" :: i :: rest => do let e ← parseElt rest; some (.addRaw i.toNat! e)
  | "addlines" :: i :: rest =>
    let lines := (splitAt "|" rest).filter (· ≠ [])
    do let es ← lines.mapM parseElt; some (.addLines i.toNat! es)
  | ["remove", i, nm] => some (.remove i.toNat! nm)
  | ["query", i, q] => some (.query i.toNat! q)
  | "derive" :: i :: pre :: rest =>
    let lines := (splitAt "|" rest).filter (· ≠ [])
    do let es ← lines.mapM parseElt; some (.derive i.toNat! pre es)
  | _ => none

def parseOps (toks : List String) : Option (List Op) :=
  ((splitAt ";" toks).filter (· ≠ [])).mapM parseOp

def cfg : Config := Gen.Caches.config

def provStr (E : Ver) (p : String × Option Memo) : String :=
  match p.2 with
  | none => s!"{p.1}=none"
  | some m => s!"{p.1}={if m.ver = E then "cur" else "stale"}@{m.stamp}:{if m.clean then "clean" else "dirty"}"

/-- like `readSlots` but keeps the entries (with stamps) for printing -/
def readSlotsM (i : Nat) : World → List String → World × List (String × Option Memo)
  | w, [] => (w, [])
  | w, d :: ds =>
    let (w1, m) := readSlot cfg w i d
    let (w2, ps) := readSlotsM i w1 ds
    (w2, (d, m) :: ps)

/-- run a history, producing one record per op -/
def trace : World → List Op → List String → World × List String
  | w, [], acc => (w, acc)
  | w, op :: ops, acc =>
    let (w', ok) := step cfg w op
    let rec1 := match op with
      | .query i q =>
        let w0 := { w with clock := w.clock + 1 }
        let ps := (readSlotsM i w0 (cfg.readsOf q)).2
        let E := eltsOf w0 i
        if ps.isEmpty then "-" else ",".intercalate (ps.map (provStr E))
      | _ => if ok then "ok" else "raise"
    trace w' ops (acc ++ [rec1])

def sortStrs (l : List String) : List String := (l.toArray.qsort (· < ·)).toList

def nodeNames (inst : Inst) : List String := sortStrs (inst.tab.map (·.name))

def obsStr (w : World) (i : Nat) : String :=
  match w.insts[i]? with
  | none => "no-instance"
  | some inst =>
    let names := inst.elts.map (·.name)
    let counts := (nodeNames inst).map (fun n => s!"{n}:{countOf inst.tab n}")
    let dang := (inst.elts.filter (cptDangling inst.tab)).map (·.name)
    let rd := structural removeDanglingPass inst
    let memo := sortStrs (inst.memo.map (·.slot))
    let lru := sortStrs ((w.lru.filter (fun p => p.1 = i)).map (·.2.slot))
    let j (l : List String) := if l.isEmpty then "-" else ",".intercalate l
    s!"elts={j names} counts={j counts} dang={j dang} rd={j rd} memo={j memo} lru={j lru} n={w.insts.length}"

def handle (toks : List String) : Option String :=
  match toks with
  | "c16.trace" :: rest => some <|
      match parseOps rest with
      | none => "bad-op"
      | some ops => " | ".intercalate (trace World.empty ops []).2
  | "c16.obs" :: i :: rest => some <|
      match parseOps rest with
      | none => "bad-op"
      | some ops => obsStr (run cfg World.empty ops) i.toNat!
  | "c16.fresh" :: rest => some <|
      -- observation of a freshly built circuit: lines separated by `|`
      match ((splitAt "|" rest).filter (· ≠ [])).mapM parseElt with
      | none => "bad-op"
      | some es => obsStr (build es) 0
  | ["c16.cfg"] => some <|
      let unc := (cfg.memoised.filter (fun p => !cfg.isCleared p.1)).map (·.1)
      let j (l : List String) := if l.isEmpty then "-" else ",".intercalate l
      s!"uncleared={j unc} add={cfg.addInvalidates} addmulti={cfg.addMultiInvalidates} remove={cfg.removeInvalidates} init={cfg.initInvalidates} detach={cfg.overrideDetaches} hashsites={Gen.Caches.hashOrderSites.length} full={cfgOKb cfg (fun _ => true) && cfg.overrideDetaches} partial={cfgOKb cfg (Gexcl cfg knownUncleared)}"
  | ["c16.covered", q] => some <|
      if (cfg.reads.lookup q).isNone then "unknown-query"
      else toString ((cfg.readsOf q).all (Gexcl cfg knownUncleared))
  | ["c16.reads", q] => some <|
      match cfg.reads.lookup q with
      | none => "unknown-query"
      | some ds => if ds.isEmpty then "-" else ",".intercalate ds
  | "c16.same" :: rest => some <|
      match splitAt "==" rest with
      | [a, b] => toString (sameObservations (a.map (fun t => (t, ""))) (b.map (fun t => (t, ""))))
      | _ => "bad-op"
  | "c16.tkey" :: tr :: expr :: kws => some <|
      match Gen.Caches.transformers.lookup tr with
      | none => "unknown-transformer"
      | some (keyPairs, _) =>
        let kw := kws.filterMap (fun t => match t.splitOn "=" with | [a, b] => some (a, b) | _ => none)
        let k := TCache.keyOf keyPairs expr kw
        s!"{k.1}|{",".intercalate k.2}"
  | _ => none

end Lcapy.Driver.C16
