/-
  C10 — hyperbolic (lossless transmission-line) forms of `inverse_laplace.py`: `tline_end`, `tline_start`, `1/cosh`, `1/sinh`,
  `1/tanh`.  With `w = e^{−sT}`: `cosh(sT) = (w⁻¹ + w)/2`, `sinh(sT) = (w⁻¹ − w)/2`, so

      (c cosh + d sinh)/(a cosh + b sinh) = ((c+d) + (c−d) w²)/((a+b) + (a−b) w²) = P(w)/Q(w)       (1/(a cosh + b sinh): P = 2w)

  is a rational function of `w`, and the returned infinite sum of delayed impulses / steps `Σ c_k · func(t − k T)` transforms
  to the power series `Σ c_k w^k` (times 1/s for steps).  No Mathlib import.
    * `seriesCheck P Q terms K`  exact oracle: the first terms of a returned series agree with the power series of `P/Q`
                                 up to order `K`  ⇔  `Q·(Σ c_k w^k) − P` has no coefficient of order ≤ K;
    * `tlineEndTerms a b N`      the model of `tline_end` (echo ratio, scale, coefficient, delay multiple, start index GENERATED
                                 from the source by tx_ilt).
-/
import Lcapy.Model.ILT
namespace Lcapy.Laplace
section
variable {K : Type} [Add K] [Mul K] [Neg K] [Sub K] [Div K] [OfNat K 0] [OfNat K 1]

/-- the monomial `c w^k` as a coefficient list -/
def monomial (c : K) : Nat → Poly K
  | 0 => [c]
  | k + 1 => 0 :: monomial c k

/-- `Σ c_k w^k` for a list of (coefficient, order) -/
def seriesPoly : List (K × Nat) → Poly K
  | [] => []
  | (c, k) :: r => Poly.add (monomial c k) (seriesPoly r)

variable [DecidableEq K]

/-- all coefficients of order ≤ K vanish -/
def lowZero : Nat → Poly K → Bool
  | _, [] => true
  | 0, a :: _ => a = 0
  | k + 1, a :: p => a = 0 && lowZero k p

/-- the returned terms agree with the power series of `P/Q` up to order `K` -/
def seriesCheck (P Q : Poly K) (terms : List (K × Nat)) (K' : Nat) : Bool :=
  lowZero K' (Poly.add (Poly.mul Q (seriesPoly terms)) (Poly.smul (-1) P))

/-- model of `tline_end` for `1/(a cosh(sT) + b sinh(sT))`: the first `N` terms `(coefficient, delay multiple)` -/
def tlineEndTerms (a b : K) (N : Nat) : List (K × Nat) :=
  let g := Gen.tlineEndG a b
  let d := Gen.tlineEndD a b
  if g = 0 then (if N = 0 then [] else [(1 / d, 1)])
  else (List.range N).map (fun i =>
    let m := Gen.tlineEndStart + i
    (Gen.tlineEndPref g d * Gen.tlineEndCoef g d m, Gen.tlineEndDelay m))

end
end Lcapy.Laplace
