/-
  Executable model of lcapy/ratfun.py (`Ratfun`) and of the `Expr` wrappers in lcapy/expr.py that
  re-format a generalised rational function
        R(var) = B(var)/A(var) · exp(−delay·var) · U(var)^nu
  (C11).  No Mathlib import (linked into `drv_c11`).

  Every format builder returns an EXPRESSION TREE (`RExpr`) shaped like the SymPy expression the code
  builds (constant · monic/monic, quotient + remainder/denominator, Σ residue/(var−pole)^o, Π (var−zero) …)
  with an explicit delay factor `exp(c·var)` and an opaque undefined-function factor.  What Lcapy delegates
  to SymPy root finding (`sym.roots`) is NOT modelled: root tables and residues are inputs, checked by
  `Poly.rootsCheck` / `pfCheck`.

  The sign with which a builder re-attaches the delay (`sym.exp(±self.var * delay)`) is a parameter `σ`
  of the builder; the value used by the code is read from the source text by harness/translate/tx_ratfun.py
  (Lcapy/Generated/RatfunSrc.lean).
-/
import Lcapy.Model.Poly
namespace Lcapy.Ratfun
open Lcapy.Poly

variable {K : Type} [Add K] [Mul K] [Neg K] [Sub K] [Div K] [OfNat K 0] [OfNat K 1]

/-- the shapes of expression the format builders produce -/
inductive RExpr (K : Type) where
  | const (c : K)
  | var
  | poly (p : List K)            -- `Poly.as_expr()`
  | add (a b : RExpr K)
  | mul (a b : RExpr K)
  | inv (a : RExpr K)            -- `1 / a`, `Pow(a, -1)`
  | pow (a : RExpr K) (n : Nat)
  | expv (c : K)                 -- `exp(c * var)`
  | undef                        -- the undefined-function factor `U(var)`

/-- a sample point: the value of the variable, of `exp(c·var)` for every `c`, and of `U(var)` -/
structure Env (K : Type) where
  x : K
  E : K → K
  u : K

def RExpr.eval (env : Env K) : RExpr K → K
  | .const c => c
  | .var => env.x
  | .poly p => Poly.eval p env.x
  | .add a b => a.eval env + b.eval env
  | .mul a b => a.eval env * b.eval env
  | .inv a => 1 / a.eval env
  | .pow a n => npow (a.eval env) n
  | .expv c => env.E (c * env.x)
  | .undef => env.u

/-- `Ratfun.__init__` / `as_B_A_delay_undef`: the decomposition the builders start from -/
structure RF (K : Type) where
  B : List K
  A : List K
  delay : K
  nu : Nat            -- number of undefined-function factors

/-- SPEC value of the generalised rational function: `B/A · exp(−delay·var) · U^nu` -/
def RF.value (R : RF K) (env : Env K) : K :=
  Poly.eval R.B env.x / Poly.eval R.A env.x * env.E (-R.delay * env.x) * npow env.u R.nu

/-! ### `as_B_A_delay_undef` on a product of factors -/

/-- the factors `sym.factor(expr).as_ordered_factors()` can contain -/
inductive Factor (K : Type) where
  | rat (n d : List K)     -- a rational factor n/d
  | expf (c : K)           -- exp(c * var)   (degree-1 exponent, zero constant term)
  | undefF                 -- an AppliedUndef factor

def Factor.eval (env : Env K) : Factor K → K
  | .rat n d => Poly.eval n env.x / Poly.eval d env.x
  | .expf c => env.E (c * env.x)
  | .undefF => env.u

def factorsValue (env : Env K) : List (Factor K) → K
  | [] => 1
  | f :: fs => f.eval env * factorsValue env fs

/-- the scan loop of `as_B_A_delay_undef`: `delay -= c[0]`, `undef *= f`, `rf *= f` -/
def decompose : List (Factor K) → RF K
  | [] => ⟨[1], [1], 0, 0⟩
  | .rat n d :: fs => let R := decompose fs; ⟨Poly.mul n R.B, Poly.mul d R.A, R.delay, R.nu⟩
  | .expf c :: fs => let R := decompose fs; ⟨R.B, R.A, R.delay - c, R.nu⟩
  | .undefF :: fs => let R := decompose fs; ⟨R.B, R.A, R.delay, R.nu + 1⟩

section dec
variable [DecidableEq K]

/-- `if delay != 0: expr *= sym.exp(σ * var * delay)` -/
def delayFactor (σ : K) (R : RF K) : RExpr K :=
  if R.delay = 0 then .const 1 else .expv (σ * R.delay)

def undefFactor (R : RF K) : RExpr K := .pow .undef R.nu

/-- `Ratfun.canonical(factor_const)`; `σ` = sign of `var*delay` inside `exp` in the source -/
def canonical (σ : K) (factorConst : Bool) (R : RF K) : RExpr K :=
  if factorConst then
    -- K = cancel(B.LC / A.LC) [* exp(σ var delay)];  N = B.monic, D = A.monic;  K * (N * 1/D) * undef
    .mul (.mul (.mul (.const (lc R.B / lc R.A)) (delayFactor σ R))
               (.mul (.poly (monic R.B)) (.inv (.poly (monic R.A)))))
         (undefFactor R)
  else
    -- C = A.LC; D = A.monic; N = B / C;  N * 1/D [* exp(σ var delay)] * undef
    .mul (.mul (.mul (.poly (smul (1 / lc R.A) R.B)) (.inv (.poly (monic R.A)))) (delayFactor σ R))
         (undefFactor R)

/-- `Ratfun.general()`: `cancel(B / A) [* exp(σ var delay)] * undef` -/
def general (σ : K) (R : RF K) : RExpr K :=
  let c := Poly.cancel R.B R.A
  .mul (.mul (.mul (.poly c.1) (.inv (.poly c.2))) (delayFactor σ R)) (undefFactor R)

/-- terms `c_m * var^m * 1/A` of `expandcanonical` -/
def expandTerms (A : List K) : List K → Nat → RExpr K
  | [], _ => .const 0
  | c :: cs, m => .add (.mul (.mul (.const c) (.pow .var m)) (.inv (.poly A))) (expandTerms A cs (m + 1))

/-- `Ratfun.expandcanonical()` -/
def expandcanonical (σ : K) (R : RF K) : RExpr K :=
  .mul (.mul (expandTerms R.A R.B 0) (delayFactor σ R)) (undefFactor R)

/-- `Ratfun.as_QMA()`: `Q, M = sym.div(B, A)` -/
def asQMA (R : RF K) : List K × List K × List K :=
  let qm := Poly.divmod R.B R.A
  (qm.1, qm.2, R.A)

/-- `Ratfun.standard()`: `(Q + cancel(M / A)) [* exp(σ var delay)] * undef` -/
def standard (σ : K) (R : RF K) : RExpr K :=
  let q := asQMA R
  let c := Poly.cancel q.2.1 q.2.2
  .mul (.mul (.add (.poly q.1) (.mul (.poly c.1) (.inv (.poly c.2)))) (delayFactor σ R)) (undefFactor R)

/-- `Ratfun.timeconst()`: `K = A.EC(); (B/K) * (A/K)^-1 * exp(σ var delay) * undef`
    (this builder multiplies by the exponential unconditionally) -/
def timeconst (σ : K) (R : RF K) : RExpr K :=
  .mul (.mul (.mul (.poly (smul (1 / ec R.A) R.B)) (.inv (.poly (smul (1 / ec R.A) R.A)))) (.expv (σ * R.delay)))
       (undefFactor R)

/-- `Π (var − r)^n` as an expression (numerator part of `_zp2tf` with dictionaries) -/
def rootsExpr : List (K × Nat) → RExpr K
  | [] => .const 1
  | (r, n) :: rest => .mul (.pow (.add .var (.const (-r))) n) (rootsExpr rest)

/-- `Π 1/(var − r)^n` (denominator part of `_zp2tf` with dictionaries) -/
def invRootsExpr : List (K × Nat) → RExpr K
  | [] => .const 1
  | (r, n) :: rest => .mul (.inv (.pow (.add .var (.const (-r))) n)) (invRootsExpr rest)

/-- `_zp2tf(zeros, poles, K, var)` with both arguments dictionaries (as `Ratfun.ZPK` calls it) -/
def zp2tf (zeros poles : List (K × Nat)) (g : RExpr K) : RExpr K :=
  .mul g (.mul (rootsExpr zeros) (invRootsExpr poles))

/-- `_zp2tf` when each argument is either a list (every entry has multiplicity 1) or a dictionary.
    `pTestP`: the poles loop is selected by `isinstance(poles, (tuple, list))` (otherwise by the type of
    `zeros`, as read from the source).  The list loop run on a dictionary iterates its keys, so the
    multiplicities are dropped; the dictionary loop run on a list indexes the list with a pole: an error. -/
def zp2tfMixed (pTestP : Bool) (zIsList pIsList : Bool) (zeros poles : List (K × Nat)) (g : RExpr K) :
    Option (RExpr K) :=
  let pListBranch := if pTestP then pIsList else zIsList
  if pListBranch then some (zp2tf zeros (poles.map (fun rn => (rn.1, 1))) g)
  else if pIsList then none else some (zp2tf zeros poles g)

/-- the sign constant read from the source, as an element of the carrier -/
def sgn (i : Int) : K := if i = -1 then -1 else if i = 1 then 1 else 0

/-- `Ratfun.as_ZPK()` gain: `K = cancel(B.LC / A.LC) [* exp(σ var delay)]` -/
def zpkGain (σ : K) (R : RF K) : RExpr K := .mul (.const (lc R.B / lc R.A)) (delayFactor σ R)

/-- `Ratfun.ZPK()` (also `Expr.factored`): `_zp2tf(zeros, poles, K) * undef`, root tables from `sym.roots` -/
def zpk (σ : K) (R : RF K) (zeros poles : List (K × Nat)) : RExpr K :=
  .mul (zp2tf zeros poles (zpkGain σ R)) (undefFactor R)

/-- a conjugate pair section `(var² − z0 var − z1 var + z0 z1)` of `Ratfun.ZPK(combine_conjugates=True)` -/
def pairExpr (z0 z1 : K) : RExpr K :=
  .add (.add (.add (.pow .var 2) (.mul (.const (-z0)) .var)) (.mul (.const (-z1)) .var)) (.const (z0 * z1))

def pairsExpr : List ((K × K) × Nat) → RExpr K
  | [] => .const 1
  | ((z0, z1), n) :: rest => .mul (.pow (pairExpr z0 z1) n) (pairsExpr rest)

/-- `Ratfun.ZPK(combine_conjugates=True)`: `K * (num/den) * (_zp2tf(singles) * undef)` -/
def zpkPairs (σ : K) (R : RF K) (zpairs ppairs : List ((K × K) × Nat)) (zsingles psingles : List (K × Nat)) : RExpr K :=
  .mul (.mul (zpkGain σ R) (.mul (pairsExpr zpairs) (.inv (pairsExpr ppairs))))
       (.mul (zp2tf zsingles psingles (.const 1)) (undefFactor R))

/-- expand conjugate pairs back into a root table (used by the checker of `zpkPairs`) -/
def pairsRoots : List ((K × K) × Nat) → List (K × Nat)
  | [] => []
  | ((z0, z1), n) :: rest => (z0, n) :: (z1, n) :: pairsRoots rest

/-- `Σ r/(var − p)^o` -/
def pfTerms : List (K × K × Nat) → RExpr K
  | [] => .const 0
  | (r, p, o) :: rest => .add (.mul (.const r) (.inv (.pow (.add .var (.const (-p))) o))) (pfTerms rest)

/-- `Ratfun.partfrac()` from `as_QRPO` data: `(Q + Σ r/(var−p)^o) [* exp(σ var delay)] * undef` -/
def partfrac (σ : K) (R : RF K) (Q : List K) (terms : List (K × K × Nat)) : RExpr K :=
  .mul (.mul (.add (.poly Q) (pfTerms terms)) (delayFactor σ R)) (undefFactor R)

/-- polynomial cofactor `A_monic / (x − p)^o` built by multiplication only:
    `(x − p)^(n − o) · Π_{others} (x − q)^m`; `none` if `p` is not in the table or `o > n` -/
def cofactor (poles : List (K × Nat)) (p : K) (o : Nat) : Option (List K) :=
  match poles with
  | [] => none
  | (q, n) :: rest =>
    if q = p then
      if o ≤ n then some (mulLinearPow q (n - o) (prodRoots rest)) else none
    else (cofactor rest p o).map (fun c => mulLinearPow q n c)

/-- `Σ r · cofactor(p, o)`; `none` if some term refers to a pole that is not in the table -/
def pfNumer (poles : List (K × Nat)) : List (K × K × Nat) → Option (List K)
  | [] => some []
  | (r, p, o) :: rest =>
    match cofactor poles p o, pfNumer poles rest with
    | some c, some s => some (Poly.add (smul r c) s)
    | _, _ => none

/-- **pfCheck**: the poles factorise `A` (`rootsCheck`) and
    `B = Q·A + LC(A)·Σ r·A_monic/(x−p)^o` as polynomials. -/
def pfCheck (B A Q : List K) (poles : List (K × Nat)) (terms : List (K × K × Nat)) : Bool :=
  rootsCheck A poles &&
  match pfNumer poles terms with
  | some s => polyEq B (Poly.add (Poly.mul Q A) (smul (lc A) s))
  | none => false

/-- `Expr.N` (utils.as_N_D): numerator carrying the delay and undefined factors -/
def exprN (R : RF K) : RExpr K := .mul (.mul (.poly R.B) (delayFactor (-1) R)) (undefFactor R)
/-- `Expr.D`: the polynomial denominator -/
def exprD (R : RF K) : RExpr K := .poly R.A

/-- `Expr.multiply_top_and_bottom(factor)`: `(N * factor) * (D * factor)^-1` -/
def multiplyTopBottom (R : RF K) (f : List K) : RExpr K :=
  .mul (.mul (exprN R) (.poly f)) (.inv (.mul (exprD R) (.poly f)))

/-! ### continued fractions (`Expr.continued_fraction_coeffs`, shared with C19) -/

/-- outcome of the coefficient recursion -/
inductive CFRes (K : Type) where
  | ok (cs : List (K × Nat))     -- coefficients `q x^k`, first one outermost
  | negPower                     -- `LT(N)/LT(D)` is a negative power (`deg N < deg D` inside `foo`)
  | fuelOut                      -- the explicit fuel ran out (never happens: `cf_terminates`)
deriving DecidableEq

/-- one Euclid step of `continued_fraction_coeffs.foo`: `Q = LT(N)/LT(D)` (a monomial `q x^k`),
    returns `(q, k, N − Q·D)`; `none` when `deg N < deg D` (the code would produce a negative power).
    `N − Q·D` is computed on the coefficient lists without their leading entries, which cancel exactly
    (`q = LC N / LC D`), so that the drop in degree is evident from the shape. -/
def cfStep (N D : List K) : Option (K × Nat × List K) :=
  let N' := trim N
  let D' := trim D
  if N'.length < D'.length then none
  else
    let q := lc N / lc D
    let k := N'.length - D'.length
    some (q, k, trim (Poly.sub N'.dropLast (List.replicate k 0 ++ smul q D'.dropLast)))

/-- `foo(Npoly, Dpoly)` with explicit fuel -/
def cfRun : Nat → List K → List K → CFRes K
  | 0, _, _ => .fuelOut
  | fuel + 1, N, D =>
    match cfStep N D with
    | none => .negPower
    | some (q, k, N2) =>
      if isZero N2 then .ok [(q, k)]
      else
        match cfRun fuel D N2 with
        | .ok rest => .ok ((q, k) :: rest)
        | e => e

/-- `Expr.continued_fraction_coeffs()` for `N/D`; the leading `0` coefficient the code inserts when
    `deg D > deg N` is represented as the monomial `(0, 0)` -/
def cfCoeffs (N D : List K) : CFRes K :=
  let fuel := (trim N).length + (trim D).length + 1
  if degree D > degree N then
    match cfRun fuel D N with
    | .ok cs => .ok ((0, 0) :: cs)
    | e => e
  else cfRun fuel N D

/-! ### inverse continued fraction (`Expr.continued_fraction_inverse_coeffs`, Cauer II) -/

/-- `foo` of `continued_fraction_inverse_coeffs`, in the variable `y = 1/var`: the forward Euclid step
    `cfStep`, except that when the dividend is shorter (`degree(NET) > degree(DET)` in the code) a zero
    coefficient is emitted and the arguments are swapped. -/
def cfRunSwap : Nat → List K → List K → CFRes K
  | 0, _, _ => .fuelOut
  | fuel + 1, N, D =>
    match cfStep N D with
    | none =>
      match cfRunSwap fuel D N with
      | .ok rest => .ok ((0, 0) :: rest)
      | e => e
    | some (q, k, N2) =>
      if isZero N2 then .ok [(q, k)]
      else
        match cfRunSwap fuel D N2 with
        | .ok rest => .ok ((q, k) :: rest)
        | e => e

/-- pad with high-order zeros to `m` coefficients and reverse: the coefficients of `var^(m−1)·P(1/var)` -/
def revPad (P : List K) (m : Nat) : List K := (P ++ List.replicate (m - P.length) 0).reverse

/-- `Expr.continued_fraction_inverse_coeffs()` for `N/D`: coefficients `q·var^(−k)`, obtained by
    expanding in `y = 1/var` (the `ET()` of a polynomial in `var` is the `LT()` of its reversal in `y`). -/
def cfiCoeffs (N D : List K) : CFRes K :=
  let m := max N.length D.length
  cfRunSwap (2 * (m + m) + 3) (revPad N m) (revPad D m)

/-- `Expr.as_continued_fraction().foo`: `c0 + 1/(c1 + 1/(c2 + …))` as an expression -/
def cfExpr : List (K × Nat) → RExpr K
  | [] => .const 0
  | [(q, k)] => .mul (.const q) (.pow .var k)
  | (q, k) :: rest => .add (.mul (.const q) (.pow .var k)) (.inv (cfExpr rest))

end dec
end Lcapy.Ratfun
