/-
  MODEL side of the completeness of the mesh formulation (property C15, G4): executable definitions that
  turn mesh currents into node voltages and branch currents, and the decidable certificate check that the
  loops handed to `LoopAnalysis` are a cycle basis of the circuit graph.

  * `pairSgn g pq idx` -- signed incidence of the ordered pair of graph nodes `pq` with component number
    `idx`: +1 when the edge that joins the pair (`component g`, the same lookup `_process_loop` and
    `_add_mesh_currents` do) holds component `idx` and the pair leaves the component's first node, −1 when
    it arrives there, 0 otherwise (dummy wire, no edge, another component);
  * `inc g pairs idx` -- incidence of a walk (list of ordered pairs) with component `idx`;
  * `branchJ g loops im idx` -- current through component `idx` from its first to its second node: the signed
    sum of the mesh currents of the loops through its edge (the code's `current` with the opposite sign);
  * `edgeRise` -- potential rise first node → second node of component `idx`: −(z·J + v0) with
    `voltage_equation` = (z, v0);
  * `BasisCert`, `checkBasis` -- the certificate (computed by an untrusted routine, checked here): for
    every graph node a walk from the reference node, for every graph edge a → b the coefficients over the
    loops with   inc(walk a) + [edge] − inc(walk b) = Σ_m coef[m] · inc(loop m)   (as vectors over the
    components).  When it holds, every closed walk of the graph is a combination of the loops;
  * `meshSolution` -- the assignment of node voltages and branch currents the mesh currents determine.
  No Mathlib import.
-/
import Lcapy.Model.Formulations
import Lcapy.Model.MNA
import Lcapy.Spec.StateSpace
namespace Lcapy.Formulations
open Lcapy.MNA Lcapy.StateSpace

variable {K : Type} [Add K] [Mul K] [Neg K] [Sub K] [Div K] [OfNat K 0] [OfNat K 1] [OfNat K 2]

/-- signed incidence of the ordered pair `pq` with component number `idx` -/
def pairSgn (g : List (Edge K)) (pq : GNode × GNode) (idx : Nat) : K :=
  match component g pq.1 pq.2 with
  | some (i, c) =>
    if i = idx then
      match nodes2 c with
      | some (n0, _) => if pq.1 = .real n0 then 1 else -1
      | none => 0
    else 0
  | none => 0

/-- incidence of a walk, given by its ordered pairs, with component number `idx` -/
def inc (g : List (Edge K)) (pairs : List (GNode × GNode)) (idx : Nat) : K :=
  lsum (pairs.map (fun pq => pairSgn g pq idx))

/-- consecutive pairs of an open walk `[A, B, C] ↦ (A,B), (B,C)` -/
def openPairs : List GNode → List (GNode × GNode)
  | a :: b :: t => (a, b) :: openPairs (b :: t)
  | _ => []

/-- current through component `idx` from its first to its second node: Σ_m inc(loop m) · I_m -/
def branchJ (g : List (Edge K)) (loops : List (List GNode)) (im : Nat → K) (idx : Nat) : K :=
  lsum (((List.range loops.length).zip loops).map (fun ml => inc g (loopPairs ml.2) idx * im ml.1))

/-- potential rise from the first to the second node of component `idx`: −(z·J + v0) -/
def edgeRise (kind : Kind) (s : K) (cs : List (Cpt K)) (g : List (Edge K)) (loops : List (List GNode))
    (im : Nat → K) (idx : Nat) : K :=
  match cs[idx]? with
  | some c =>
    match volEq kind s c with
    | some (z, v0) => -(z * branchJ g loops im idx + v0)
    | none => 0
  | none => 0

/-- potential rise along a walk for the component rises `u`: Σ_idx inc(walk) idx · u idx -/
def walkRise (N : Nat) (g : List (Edge K)) (u : Nat → K) (pairs : List (GNode × GNode)) : K :=
  sumTo N (fun idx => inc g pairs idx * u idx)

/-- the cycle-basis certificate: `paths` -- for every graph node a walk (node list) from the reference
    node to it (nodes that are not listed get the empty walk); `coefs` -- for every edge of the graph, in
    graph order, the coefficients over `loops` (missing ones read as an empty list) -/
structure BasisCert (K : Type) where
  paths : List (GNode × List GNode)
  coefs : List (List K)

def BasisCert.path (cert : BasisCert K) (v : GNode) : List GNode :=
  match cert.paths.find? (fun p => p.1 == v) with
  | some p => p.2
  | none => []

/-- 1 at the component the edge holds -/
def edgeUnit (e : Edge K) (idx : Nat) : K :=
  match e.cpt with
  | some (i, _) => if i = idx then 1 else 0
  | none => 0

/-- Σ_m coef[m] · inc(loop m) idx -/
def loopComb (g : List (Edge K)) (loops : List (List GNode)) (coef : List K) (idx : Nat) : K :=
  lsum ((coef.zip loops).map (fun cl => cl.1 * inc g (loopPairs cl.2) idx))

variable [DecidableEq K]

/-- the certificate identity of one edge, at every component number below `N` -/
def checkEdge (g : List (Edge K)) (N : Nat) (loops : List (List GNode)) (cert : BasisCert K)
    (e : Edge K) (coef : List K) : Bool :=
  (List.range N).all (fun idx =>
    decide (inc g (openPairs (cert.path e.a)) idx + edgeUnit e idx - inc g (openPairs (cert.path e.b)) idx
            = loopComb g loops coef idx))

def checkEdges (g : List (Edge K)) (N : Nat) (loops : List (List GNode)) (cert : BasisCert K) :
    List (Edge K) → List (List K) → Bool
  | [], _ => true
  | e :: es, cfs => checkEdge g N loops cert e (cfs.headD []) && checkEdges g N loops cert es cfs.tail

/-- the certificate check over a graph `g` whose components are numbered below `N` -/
def checkBasisG (g : List (Edge K)) (N : Nat) (loops : List (List GNode)) (cert : BasisCert K) : Bool :=
  checkEdges g N loops cert g cert.coefs

/-- **the decidable cycle-basis condition**: the loops span the cycle space of the circuit graph of `cs` -/
def checkBasis (cs : List (Cpt K)) (loops : List (List GNode)) (cert : BasisCert K) : Bool :=
  checkBasisG (buildGraph cs) cs.length loops cert

omit [DecidableEq K]

/-- potential of a graph node: the rise along the certificate's walk to it -/
def potential (kind : Kind) (s : K) (cs : List (Cpt K)) (loops : List (List GNode)) (im : Nat → K)
    (cert : BasisCert K) (v : GNode) : K :=
  walkRise cs.length (buildGraph cs) (edgeRise kind s cs (buildGraph cs) loops im) (openPairs (cert.path v))

/-- number of the component that owns branch current `m` -/
def ownerIdx (cs : List (Cpt K)) (m : Nat) : Option Nat := cs.findIdx? (fun c => (owned c).contains m)

/-- the node voltages (relative to node 0) and branch currents determined by the mesh currents `im` -/
def meshSolution (kind : Kind) (s : K) (cs : List (Cpt K)) (loops : List (List GNode)) (im : Nat → K)
    (cert : BasisCert K) : Ix → K
  | .node k => potential kind s cs loops im cert (.real k) - potential kind s cs loops im cert (.real 0)
  | .br m =>
    match ownerIdx cs m with
    | some idx => branchJ (buildGraph cs) loops im idx
    | none => 0

end Lcapy.Formulations
