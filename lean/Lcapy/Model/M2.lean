/-
  2x2 parameter matrices over any field-like carrier.  No Mathlib import: this file is
  linked into the native driver and instantiated at `Rat`.
  Mirrors what lcapy/twoport.py gets from lcapy/matrix.py (`det`, `inv`, `*`, `/ scalar`).
-/
namespace Lcapy

structure M2 (K : Type) where
  a11 : K
  a12 : K
  a21 : K
  a22 : K
deriving Repr, DecidableEq

namespace M2
variable {K : Type} [Add K] [Mul K] [Neg K] [Sub K] [Div K]

def det (m : M2 K) : K := m.a11 * m.a22 - m.a12 * m.a21

/-- `Matrix.inv()` of a 2x2 matrix (adjugate over determinant). -/
def inv (m : M2 K) : M2 K :=
  ⟨m.a22 / m.det, -m.a12 / m.det, -m.a21 / m.det, m.a11 / m.det⟩

/-- matrix product `self * other` -/
def mul (a b : M2 K) : M2 K :=
  ⟨a.a11 * b.a11 + a.a12 * b.a21, a.a11 * b.a12 + a.a12 * b.a22,
   a.a21 * b.a11 + a.a22 * b.a21, a.a21 * b.a12 + a.a22 * b.a22⟩

def add (a b : M2 K) : M2 K := ⟨a.a11 + b.a11, a.a12 + b.a12, a.a21 + b.a21, a.a22 + b.a22⟩

/-- `matrix / scalar` -/
def sdiv (a : M2 K) (c : K) : M2 K := ⟨a.a11 / c, a.a12 / c, a.a21 / c, a.a22 / c⟩

end M2
end Lcapy
