/-
  Executable model of Lcapy's netlist parser and printer (property C06).  Mathlib-free.

  Mirrors, function by function:
    lcapy/parser.py      split, Param, Arg, Args.index, Rule.process / extract_nodes / extract_args,
                         Parser._add_param / _add_rule / parse
    lcapy/mnacpts.py     Cpt.__init__ (name / namespace split), _arg_format, _netmake1, _netmake, XX.__str__
    lcapy/opts.py        Opts.add, Opts.format
    lcapy/netfile.py     _parse (leading "..."), _add (line splitting), _make_anon_cpt_name
    lcapy/componentnamer.py  ComponentNamer.name
    lcapy/netlist.py     _cpt_add (dict semantics of the element table)
    lcapy/valueparser.py value_parser

  Strings are `List Char` (ASCII inputs only).  Python exceptions are an error enum.
  Not modelled: `.include`, `.pdb`, file I/O, `allow_anon=True`, non-ASCII `\w`, Python float
  literals with underscores / inf / nan.
-/
import Lcapy.Generated.Grammar
namespace Lcapy.Parser

abbrev Str := List Char

/-! ### small string helpers (Python `str` methods) -/

/-- characters removed by Python's `str.strip()` (ASCII range) -/
def isWs (c : Char) : Bool :=
  c == ' ' || (9 ≤ c.toNat && c.toNat ≤ 13) || (28 ≤ c.toNat && c.toNat ≤ 31)

def lstrip (s : Str) : Str := s.dropWhile isWs
def rstrip (s : Str) : Str := (s.reverse.dropWhile isWs).reverse
/-- `s.strip()` -/
def strip (s : Str) : Str := rstrip (lstrip s)

/-- `s.lower()` (ASCII) -/
def lower (s : Str) : Str := s.map Char.toLower

/-- `s.split(sep)` for a one-character separator: keeps empty pieces, never returns `[]` -/
def splitOn (sep : Char) : Str → List Str
  | [] => [[]]
  | c :: cs =>
    if c == sep then [] :: splitOn sep cs
    else match splitOn sep cs with
      | [] => [[c]]
      | h :: t => (c :: h) :: t

/-- `s.split(sep, 1)`: the part before the first `sep`, and the rest if there is a `sep` -/
def splitFirst (sep : Char) : Str → Str × Option Str
  | [] => ([], none)
  | c :: cs =>
    if c == sep then ([], some cs)
    else let (a, b) := splitFirst sep cs; (c :: a, b)

/-- `sep.join(parts)` -/
def joinWith (sep : Str) : List Str → Str
  | [] => []
  | [t] => t
  | t :: ts => t ++ sep ++ joinWith sep ts

def startsWith (s p : Str) : Bool := p.isPrefixOf s

/-! ### errors -/

inductive Err
  | unbalanced      -- split: "Missing } in ..."
  | unknownCpt      -- "Unknown component"
  | tooMany         -- "Too many args"
  | missingNode     -- "Missing node"
  | missingArg      -- "Missing arg"
  | valueAfterNamed -- "Cannot have value ... after named param"
  | unknownParam    -- "Unknown param"
  | alreadyAssigned -- "Param ... already assigned"
  | indexError      -- Python IndexError (empty field list, positional overflow)
  | optsBraces      -- Opts.add: "Mismatched braces"
  | grammar         -- the grammar table itself cannot be built
  deriving DecidableEq, Repr

def Err.toString : Err → String
  | .unbalanced => "unbalanced" | .unknownCpt => "unknown-cpt" | .tooMany => "too-many"
  | .missingNode => "missing-node" | .missingArg => "missing-arg" | .valueAfterNamed => "value-after-named"
  | .unknownParam => "unknown-param" | .alreadyAssigned => "already-assigned" | .indexError => "index-error"
  | .optsBraces => "opts-braces" | .grammar => "grammar"

/-! ### `split` (parser.py) -/

/-- scanner state of `split`: parts (reversed), current token (reversed), `close_bracket`
    (`none` = Python's `''`), `bracket_stack` -/
structure St where
  parts : List Str
  cur   : Str
  close : Option Char
  stack : List (Option Char)
  bad   : Bool              -- a `}` was met outside any bracket: Python raises "Unmatched }"
  deriving Repr

def step (ds : List Char) (s : St) (c : Char) : St :=
  if ds.contains c && s.stack.isEmpty then
    if s.cur.isEmpty then s else { s with parts := s.cur.reverse :: s.parts, cur := [] }
  else
    if some c == s.close then
      match s.stack with
      | [] => { s with cur := c :: s.cur }     -- unreachable: close ≠ none ⇒ stack ≠ []
      | x :: rest => { s with close := x, stack := rest, cur := c :: s.cur }
    else if c == '{' then { s with stack := s.close :: s.stack, close := some '}', cur := c :: s.cur }
    else if c == '"' then { s with stack := s.close :: s.stack, close := some '"', cur := c :: s.cur }
    else if c == '}' && s.close.isNone then { s with bad := true, cur := c :: s.cur }
    else { s with cur := c :: s.cur }

/-- `split(s, delimiters)`; `none` = ValueError("Missing ..." / "Unmatched }") -/
def split (ds : List Char) (s : Str) : Option (List Str) :=
  let st := (s ++ [ds.headD ' ']).foldl (step ds) ⟨[], [], none, [], false⟩
  if st.close.isSome || st.bad then none else some st.parts.reverse

/-! ### grammar table (parser.py: Param, Parser._add_param, Parser._add_rule) -/

inductive Kind | keyword | node | pin | value | name | other
  deriving DecidableEq, Repr

def Kind.ofBase (b : Str) : Kind :=
  if b == ['k','e','y','w','o','r','d'] then .keyword
  else if b == ['n','o','d','e'] then .node
  else if b == ['p','i','n'] then .pin
  else if b == ['v','a','l','u','e'] then .value
  else if b == ['n','a','m','e'] then .name
  else .other

structure Param where
  name     : Str
  kind     : Kind
  optional : Bool
  default  : Option Str
  deriving DecidableEq, Repr

structure Rule where
  type      : Str
  classname : Str
  params    : List Param
  pos       : Option Nat
  deriving DecidableEq, Repr

/-- `paramdict[name].base`; a Python dict: the last definition of a name wins -/
def paramBase (src : List (Str × Str)) (n : Str) : Option Str :=
  (src.reverse.find? (fun p => p.1 == n)).map (·.2)

/-- `Param.__init__` -/
def mkParam (src : List (Str × Str)) (ps : Str) : Option Param :=
  let optional := ps.head? == some '['
  let body := if optional then (ps.drop 1).dropLast else ps
  let parts := splitOn '=' body
  let name := parts.headD []
  match paramBase src name with
  | none => none
  | some b =>
    some { name := name, kind := Kind.ofBase b, optional := optional,
           default := match parts with
             | _ :: d :: _ => some d
             | _ => none }

/-- position of the first keyword parameter -/
def firstKeyword : List Param → Nat → Option Nat
  | [], _ => none
  | p :: ps, m => if p.kind == .keyword then some m else firstKeyword ps (m + 1)

/-- `Parser._add_rule` on a pre-split line `(classname, fields)` -/
def mkRule (src : List (Str × Str)) (r : Str × List Str) : Option Rule :=
  match r.2 with
  | [] => none
  | f0 :: rest =>
    match rest.mapM (mkParam src) with
    | none => none
    | some ps => some { type := f0.take (f0.length - 4), classname := r.1, params := ps, pos := firstKeyword ps 0 }

structure Grammar where
  delimiters : List Char
  comments   : List Char
  rules      : List Rule
  ok         : Bool          -- every line could be interpreted (else `Parser.__init__` raises)
  deriving Repr

def mkGrammar (ds cs : List Char) (psrc : List (Str × Str)) (rsrc : List (Str × List Str)) : Grammar :=
  { delimiters := ds, comments := cs, rules := rsrc.filterMap (mkRule psrc),
    ok := rsrc.all (fun r => (mkRule psrc r).isSome) }

/-- the grammar of the checked-out Lcapy -/
def theGrammar : Grammar :=
  mkGrammar Gen.Grammar.delimiters Gen.Grammar.comments Gen.Grammar.paramSrc Gen.Grammar.ruleSrc

/-- `ruledict[type]` (rules of a type in source order) -/
def rulesOf (g : Grammar) (ty : Str) : List Rule := g.rules.filter (fun r => r.type == ty)

/-- `cpt_pattern`: alternation of all types, longest first ⇒ the longest type that is a prefix -/
def matchType (g : Grammar) (relname : Str) : Option Str :=
  (g.rules.map (·.type)).foldl
    (fun best ty =>
      if ty.isPrefixOf relname then
        match best with
        | none => some ty
        | some b => if b.length < ty.length then some ty else some b
      else best) none

/-- `[#_\w'?]` (ASCII) -/
def isIdChar (c : Char) : Bool :=
  c.isAlphanum || c == '_' || c == '#' || c == '\'' || c == '?'

/-! ### rule selection by keyword (Parser.parse) -/

/-- the `for rule1 in ruledict[type]` loop; also returns the value the loop variable `pos`
    is left with (it is what ends up in `keyword[0]`) -/
def selectLoop (fields : List Str) : List Rule → Option Nat → Option (Rule × Str) × Option Nat
  | [], last => (none, last)
  | r :: rs, _ =>
    match r.pos with
    | none => selectLoop fields rs none
    | some p =>
      match fields[p]?, r.params[p]? with
      | some f, some prm =>
        if lower f == lower prm.name then (some (r, prm.name), some p)
        else selectLoop fields rs (some p)
      | _, _ => selectLoop fields rs (some p)

/-! ### Rule.process -/

def Kind.isNode (k : Kind) : Bool := k == .pin || k == .node
def Kind.isArg (k : Kind) : Bool := k == .name || k == .value

/-- `extract_nodes`; `fields` are consumed in step with the parameters -/
def extractNodes (name ns : Str) : List Param → List Str → Except Err (List Str)
  | [], _ => .ok []
  | p :: ps, fs =>
    if p.kind.isNode then
      match fs with
      | [] => .error .missingNode
      | f :: fs' =>
        match extractNodes name ns ps fs' with
        | .error e => .error e
        | .ok rest => .ok ((if f.head? == some '.' then name ++ f else ns ++ f) :: rest)
    else extractNodes name ns ps fs.tail

/-- `m2`: one past the index of the last parameter that is not a name / value -/
def m2Of : List Param → Nat → Nat → Nat
  | [], _, acc => acc
  | p :: ps, m, acc => if p.kind.isArg then m2Of ps (m + 1) acc else m2Of ps (m + 1) (m + 1)

/-- is some required name / value parameter at an index ≥ `n` (the number of fields)? -/
def missingArg : List Param → Nat → Nat → Bool
  | [], _, _ => false
  | p :: ps, m, n => (p.kind.isArg && n ≤ m && !p.optional) || missingArg ps (m + 1) n

structure Arg where
  name     : Str
  value    : Option Str
  assigned : Bool
  deriving DecidableEq, Repr

/-- `Arg.__init__` -/
def Arg.init (p : Param) (defaultValue : Str) : Arg :=
  { name := p.name, assigned := false,
    value := if p.default == some ['n','a','m','e'] then some defaultValue else p.default }

/-- the text kept by `Arg.assign`: outer `{}` / `""` removed -/
def unquote (v : Str) : Str :=
  match v with
  | c :: rest => if c == '{' || c == '"' then rest.dropLast else v
  | [] => v

/-- `Arg.assign` -/
def Arg.assign (a : Arg) (v : Str) : Except Err Arg :=
  if a.assigned then .error .alreadyAssigned else .ok { a with value := some (unquote v), assigned := true }

/-- `split(field, '=')`; fields come out of a successful `split`, so the error branch is dead -/
def splitEq (f : Str) : List Str := (split ['='] f).getD [f]

/-- "Handle unnamed params": returns the updated args and the number of fields consumed -/
def assignPos : List Arg → List Str → Except Err (List Arg × List Str)
  | args, [] => .ok (args, [])
  | args, f :: fs =>
    if (splitEq f).length > 1 then .ok (args, f :: fs)
    else match args with
      | [] => .error .indexError
      | a :: as =>
        match a.assign f with
        | .error e => .error e
        | .ok a' =>
          match assignPos as fs with
          | .error e => .error e
          | .ok (as', rest) => .ok (a' :: as', rest)

/-- `Args.index` -/
def argIndex (args : List Arg) (n : Str) : Option Nat :=
  let i := args.findIdx (fun a => lower a.name == lower n)
  if i < args.length then some i else none

/-- "Handle named params" -/
def assignNamed : List Arg → List Str → Except Err (List Arg)
  | args, [] => .ok args
  | args, f :: fs =>
    match splitEq f with
    | k :: v :: _ =>
      match argIndex args k with
      | none => .error .unknownParam
      | some i =>
        match args[i]? with
        | none => .error .unknownParam
        | some a =>
          match a.assign v with
          | .error e => .error e
          | .ok a' => assignNamed (args.set i a') fs
    | _ => .error .valueAfterNamed

/-- `extract_args` -/
def extractArgs (r : Rule) (fields : List Str) (defaultValue : Str) : Except Err (List (Option Str)) :=
  if missingArg r.params 0 fields.length then .error .missingArg
  else
    let args := (r.params.filter (·.kind.isArg)).map (Arg.init · defaultValue)
    match assignPos args (fields.drop (m2Of r.params 0 0)) with
    | .error e => .error e
    | .ok (args1, rest) =>
      match assignNamed args1 rest with
      | .error e => .error e
      | .ok args2 => .ok (args2.map (·.value))

/-- `Rule.process` -/
def process (r : Rule) (fields : List Str) (name ns defaultValue : Str) :
    Except Err (List Str × List (Option Str)) :=
  if fields.length > r.params.length then .error .tooMany
  else match extractNodes name ns r.params fields with
    | .error e => .error e
    | .ok nodes =>
      match extractArgs r fields defaultValue with
      | .error e => .error e
      | .ok args => .ok (nodes, args)

/-! ### components -/

/-- the arguments of `cpts.make(...)` that describe a component -/
structure Cpt where
  classname : Str
  name      : Str
  ctype     : Str
  cid       : Str
  nodes     : List Str
  args      : List (Option Str)
  kwpos     : Option Nat
  kw        : Str
  opts      : Str          -- opts_string
  string    : Str          -- the `string` argument (printed verbatim by XX)
  deriving DecidableEq, Repr

/-! ### anonymous names (netfile._make_anon_cpt_name, ComponentNamer.name) -/

def natToStr (n : Nat) : Str := (toString n).toList

/-- first `ty ++ "anon" ++ m` (m = 1, 2, …) not in `used` -/
def anonName (ty : Str) (used : List Str) : Str :=
  let cand (m : Nat) : Str := ty ++ ['a','n','o','n'] ++ natToStr (m + 1)
  match (List.range (used.length + 1)).find? (fun m => !used.contains (cand m)) with
  | some m => cand m
  | none => cand used.length      -- unreachable (pigeonhole)

/-! ### Parser.parse -/

def isDirective (g : Grammar) (net : Str) : Bool :=
  match net with
  | [] => true
  | c :: _ => g.comments.contains c || c == ';' || c == '.'

/-- `Parser.parse(string, namespace, parent)` with `allow_anon = False`, `parent` not None.
    `used` = names of the elements of `parent` ∪ names handed out by its namer.
    Returns the component and the anonymous name that was generated, if any. -/
def parse (g : Grammar) (used : List Str) (ns : Str) (string : Str) : Except Err (Cpt × Option Str) :=
  if !g.ok then .error .grammar else
  let net := strip string
  if isDirective g net then
    let relname := anonName ['X','X'] used
    let optsString := if startsWith string [';'] && !startsWith string [';', ';'] then string.drop 1 else []
    .ok ({ classname := ['X','X'], name := ns ++ relname, ctype := ['X','X'], cid := relname.drop 2,
           nodes := [], args := [], kwpos := none, kw := [], opts := optsString, string := string }, some relname)
  else
    let (head, tail) := splitFirst ';' net
    match split g.delimiters head with
    | none => .error .unbalanced
    | some [] => .error .indexError
    | some (name0 :: fields) =>
      let parts := splitOn '.' name0
      let relname0 := parts.getLastD []
      let currentNs := if parts.length > 1 then joinWith ['.'] parts.dropLast ++ ['.'] else []
      match matchType g relname0 with
      | none => .error .unknownCpt
      | some ty =>
        let cid := (relname0.drop ty.length).takeWhile isIdChar
        let rules := rulesOf g ty
        match rules with
        | [] => .error .unknownCpt      -- unreachable: `ty` is the type of some rule
        | r0 :: _ =>
          let (sel, lastPos) := selectLoop fields rules none
          let rule := match sel with | some (r, _) => r | none => r0
          let kw := match sel with | some (_, k) => k | none => []
          let anon : Option Str :=
            if (cid.isEmpty && (ty == ['A'] || ty == ['W'] || ty == ['O'] || ty == ['P'])) || cid == ['?']
            then some (anonName ty used) else none
          let relname := anon.getD relname0
          let name := ns ++ currentNs ++ relname
          match process rule fields name ns relname with
          | .error e => .error e
          | .ok (nodes, args) =>
            .ok ({ classname := rule.classname, name := name, ctype := ty, cid := cid, nodes := nodes, args := args,
                   kwpos := lastPos, kw := kw, opts := match tail with | some t => strip t | none => [],
                   string := net }, anon)

/-! ### Opts (opts.py) -/

inductive OptVal
  | s (v : Str)
  | b (v : Bool)
  | defs (vs : List OptVal)     -- key `def` accumulates a list
  deriving Repr

def OptVal.beq : OptVal → OptVal → Bool
  | .s x, .s y => x == y
  | .b x, .b y => x == y
  | .defs xs, .defs ys => xs.length == ys.length && (xs.zip ys).all (fun p =>
      match p.1, p.2 with
      | .s x, .s y => x == y
      | .b x, .b y => x == y
      | _, _ => false)
  | _, _ => false

abbrev Opts := List (Str × OptVal)

/-- the local `split` of `Opts.add`: by ',' outside braces; `none` = "Mismatched braces".
    `lvl` is an `Int`: a stray `}` makes it negative, which also stops splitting. -/
def optsSplitAux : Str → Int → Str → List Str → Option (List Str)
  | [], lvl, _, acc => if lvl != 0 then none else some acc.reverse
  | c :: cs, lvl, cur, acc =>
    if c == ',' && lvl == 0 then optsSplitAux cs lvl [] (cur.reverse :: acc)
    else
      let lvl' := if c == '{' then lvl + 1 else if c == '}' then lvl - 1 else lvl
      optsSplitAux cs lvl' (c :: cur) acc

def optsSplit (s : Str) : Option (List Str) := optsSplitAux (s ++ [',']) 0 [] []

/-- `dict.__setitem__`: keeps the position of an existing key -/
def optsSet (o : Opts) (k : Str) (v : OptVal) : Opts :=
  if o.any (fun p => p.1 == k) then o.map (fun p => if p.1 == k then (k, v) else p) else o ++ [(k, v)]

def optsAddPart (o : Opts) (part0 : Str) : Opts :=
  let part := strip part0
  if part.isEmpty then o else
  let fields := splitOn '=' part
  let key := strip (fields.headD [])
  let argS := if fields.length > 1 then strip (joinWith ['='] (fields.drop 1)) else []
  let arg : OptVal :=
    if argS == ['t','r','u','e'] || argS == ['T','r','u','e'] then .b true
    else if argS == ['f','a','l','s','e'] || argS == ['F','a','l','s','e'] then .b false
    else .s argS
  if key == ['d','e','f'] then
    match o.find? (fun p => p.1 == key) with
    | some (_, .defs vs) => optsSet o key (.defs (vs ++ [arg]))
    | _ => optsSet o key (.defs [arg])
  else optsSet o key arg

/-- `Opts(string)` -/
def optsParse (s : Str) : Except Err Opts :=
  if s.isEmpty then .ok [] else
  match optsSplit s with
  | none => .error .optsBraces
  | some parts => .ok (parts.foldl optsAddPart [])

/-- the text `Opts.format` writes for one value (`fmt`): `key` for an empty value, else `key=value` -/
def optFmt1 (k : Str) : OptVal → Option Str
  | .s v => some (if v.isEmpty then k else k ++ ['='] ++ v)
  | .b true => some (k ++ ['=','T','r','u','e'])
  | .b false => some (k ++ ['=','F','a','l','s','e'])
  | .defs _ => none

/-- one dict item: one `def=...` per definition of the `def` key, one text otherwise -/
def optFmtEntry (p : Str × OptVal) : Option (List Str) :=
  match p.2 with
  | .defs vs => vs.mapM (optFmt1 p.1)
  | v => (optFmt1 p.1 v).map (fun x => [x])

/-- `Opts.format` -/
def optsFormat (o : Opts) : Option Str :=
  (o.mapM optFmtEntry).map (fun ls => joinWith [',', ' '] ls.flatten)

/-! ### printer (mnacpts.py: _arg_format, _netmake1) -/

/-- lower-case keywords of a component type (used in theorem hypotheses: a value that equals one of
    them is printed without braces and re-read as a keyword -- known finding C06-a) -/
def typeKeywords (g : Grammar) (ty : Str) : List Str :=
  (rulesOf g ty).flatMap (fun r => (r.params.filter (·.kind == .keyword)).map (fun p => lower p.name))

/-- does a sole argument of every rule of this type default to the component name?  (used in theorem
    hypotheses: the printer drops a sole argument equal to the name for every type -- known finding C06-b) -/
def typeNameDefault (g : Grammar) (ty : Str) : Bool :=
  let rs := rulesOf g ty
  !rs.isEmpty && rs.all (fun r =>
    match r.params.filter (·.kind.isArg) with
    | [] => true
    | p :: _ => !p.optional || p.default == some ['n','a','m','e'])

/-- `_arg_format` on a string value -/
def argFormat (ds : List Char) (v : Str) : Str :=
  if v.head? == some '{' then v
  else if v.any ds.contains then '{' :: (v ++ ['}'])
  else v

/-- the `fmtargs` loop of `_netmake1`: a `None` in last position is dropped, elsewhere it is 0 -/
def fmtArgs (ds : List Char) : List (Option Str) → List Str
  | [] => []
  | [none] => []
  | none :: rest => argFormat ds ['0'] :: fmtArgs ds rest
  | some v :: rest => argFormat ds v :: fmtArgs ds rest

/-- nodes with the keyword inserted after node number `kwpos` (1-based) -/
def nodesWithKw (kwpos : Option Nat) (kw : Str) : List Str → Nat → List Str
  | [], _ => []
  | n :: ns, m =>
    if kwpos == some (m + 1) && !kw.isEmpty then n :: kw :: nodesWithKw kwpos kw ns (m + 1)
    else n :: nodesWithKw kwpos kw ns (m + 1)

/-- the token list of `_netmake1(name)` (before `' '.join`), for the component's own args -/
def netTokens (g : Grammar) (c : Cpt) : List Str :=
  let parts := splitOn '.' c.name
  let relname := parts.getLastD []
  let nsp := joinWith ['.'] parts.dropLast
  let fa := fmtArgs g.delimiters c.args
  let fa := if fa.length == 1 && fa.head? == some relname then [] else fa
  let relname :=
    match relname with
    | c0 :: rest =>
      if (c0 == 'A' || c0 == 'O' || c0 == 'W' || c0 == 'P') && startsWith rest ['a','n','o','n'] then [c0] else relname
    | [] => relname
  let name := if nsp.isEmpty then relname else nsp ++ ['.'] ++ relname
  [name] ++ (if c.kwpos == some 0 && !c.kw.isEmpty then [c.kw] else [])
    ++ nodesWithKw c.kwpos c.kw c.nodes 0 ++ fa

/-- `str(cpt)`; `none`: not printable by the model (`def` option) or the option string is malformed -/
def printCpt (g : Grammar) (c : Cpt) : Option Str :=
  if c.ctype == ['X','X'] then some c.string
  else
    match optsParse c.opts with
    | .error _ => none
    | .ok o =>
      match optsFormat o with
      | none => none
      | some os =>
        let net := joinWith [' '] (netTokens g c)
        let os := strip os
        some (if os.isEmpty then net else net ++ [';', ' '] ++ os)

/-! ### the printer with its repairs (round 3)

  `_arg_format` / `_netmake1` as they are after the proposed fixes for the findings C06-e, C06-a, C06-b;
  which of them the checked-out source contains is read from the source by the translator
  (`Gen.Grammar.printerFix`).  With all three flags off this is the printer above
  (`C06Fixed.printCptC_current`). -/

structure PrinterCfg where
  fixE : Bool   -- `_arg_format` braces an empty value, a value that starts with `{` or `"`, a value with `=`
  fixA : Bool   -- `_arg_format` braces a value spelt like a keyword of the component type
  fixB : Bool   -- `_netmake1` omits an argument equal to the name only if the rule's default is the name
  deriving Repr, DecidableEq

/-- the repairs found in the checked-out source -/
def theCfg : PrinterCfg := ⟨Gen.Grammar.printerFix.1, Gen.Grammar.printerFix.2.1, Gen.Grammar.printerFix.2.2⟩

def argFormatC0 (cfg : PrinterCfg) (ds : List Char) (kws : List Str) (v : Str) : Str :=
  if cfg.fixE && (v.isEmpty || v.head? == some '{' || v.head? == some '"' || v.contains '=') then '{' :: (v ++ ['}'])
  else if !cfg.fixE && v.head? == some '{' then v
  else if cfg.fixA && kws.contains (lower v) then '{' :: (v ++ ['}'])
  else if v.any ds.contains then '{' :: (v ++ ['}'])
  else v

/-- `_arg_format` of the checked-out code: since the (proposed) repair of "a value with `=` is read back as a named
    parameter" a value that contains `=` and does not start with `{` is enclosed in braces first
    (`Gen.Grammar.printerBracesEquals`, read from the source) -/
def argFormatC (cfg : PrinterCfg) (ds : List Char) (kws : List Str) (v : Str) : Str :=
  if Gen.Grammar.printerBracesEquals && !(v.head? == some '{') && v.contains '=' then '{' :: (v ++ ['}'])
  else argFormatC0 cfg ds kws v

def fmtArgsC (cfg : PrinterCfg) (ds : List Char) (kws : List Str) : List (Option Str) → List Str
  | [] => []
  | [none] => []
  | none :: rest => argFormatC cfg ds kws ['0'] :: fmtArgsC cfg ds kws rest
  | some v :: rest => argFormatC cfg ds kws v :: fmtArgsC cfg ds kws rest

/-- `Parser.rule(relname, keyword)` (fix C06-b): the rule a line with this name and keyword selects -/
def ruleFor (g : Grammar) (relname kw : Str) : Option Rule :=
  match matchType g relname with
  | none => none
  | some ty =>
    let rules := rulesOf g ty
    let hit := if kw.isEmpty then none else
      rules.find? (fun r => match r.pos with
        | some p => (r.params[p]?.map (fun q => lower q.name)) == some (lower kw)
        | none => false)
    match hit with
    | some r => some r
    | none => rules.head?

/-- `Parser.default_is_name(relname, keyword)` (fix C06-b) -/
def defaultIsName (g : Grammar) (relname kw : Str) : Bool :=
  match ruleFor g relname kw with
  | none => false
  | some r =>
    match r.params.find? (·.kind.isArg) with
    | some p => p.default == some ['n','a','m','e']
    | none => true

def netTokensC (cfg : PrinterCfg) (g : Grammar) (c : Cpt) : List Str :=
  let parts := splitOn '.' c.name
  let relname := parts.getLastD []
  let nsp := joinWith ['.'] parts.dropLast
  let fa := fmtArgsC cfg g.delimiters (typeKeywords g c.ctype) c.args
  let fa := if fa.length == 1 && fa.head? == some relname && (!cfg.fixB || defaultIsName g relname c.kw) then [] else fa
  let relname :=
    match relname with
    | c0 :: rest =>
      if (c0 == 'A' || c0 == 'O' || c0 == 'W' || c0 == 'P') && startsWith rest ['a','n','o','n'] then [c0] else relname
    | [] => relname
  let name := if nsp.isEmpty then relname else nsp ++ ['.'] ++ relname
  [name] ++ (if c.kwpos == some 0 && !c.kw.isEmpty then [c.kw] else [])
    ++ nodesWithKw c.kwpos c.kw c.nodes 0 ++ fa

def printCptC (cfg : PrinterCfg) (g : Grammar) (c : Cpt) : Option Str :=
  if c.ctype == ['X','X'] then some c.string
  else
    match optsParse c.opts with
    | .error _ => none
    | .ok o =>
      match optsFormat o with
      | none => none
      | some os =>
        let net := joinWith [' '] (netTokensC cfg g c)
        let os := strip os
        some (if os.isEmpty then net else net ++ [';', ' '] ++ os)

/-! ### the second printer: `Cpt._netsubs` with no substitution (used by `subs`, `rename_nodes`)

  Since fix 8b2a96c it builds the node / argument lists and prints through `_netmake1`; before, it had
  its own loop (keyword after node number `keyword[0]`, counted together with the arguments; undefined
  arguments skipped; no elision, no anonymous renaming).  Which one the checked-out source has is read
  from the source by the translator (`Gen.Grammar.netsubsDelegates`). -/

/-- legacy loop over the nodes: `field` counts nodes and the keyword -/
def netSubsNodes (kwpos : Option Nat) (kw : Str) : List Str → Nat → List Str × Nat
  | [], field => ([], field)
  | n :: ns, field =>
    if kwpos == some (field + 1) then
      let (r, f) := netSubsNodes kwpos kw ns (field + 2)
      (n :: kw :: r, f)
    else
      let (r, f) := netSubsNodes kwpos kw ns (field + 1)
      (n :: r, f)

/-- legacy loop over the arguments: `None` is skipped -/
def netSubsArgs (cfg : PrinterCfg) (ds : List Char) (kws : List Str) (kwpos : Option Nat) (kw : Str) :
    List (Option Str) → Nat → List Str
  | [], _ => []
  | none :: rest, field => netSubsArgs cfg ds kws kwpos kw rest field
  | some v :: rest, field =>
    if kwpos == some (field + 1) then argFormatC cfg ds kws v :: kw :: netSubsArgs cfg ds kws kwpos kw rest (field + 1)
    else argFormatC cfg ds kws v :: netSubsArgs cfg ds kws kwpos kw rest (field + 1)

def netSubsLegacyTokens (cfg : PrinterCfg) (g : Grammar) (c : Cpt) : List Str :=
  let (ns, field) := netSubsNodes c.kwpos c.kw c.nodes 0
  [c.name] ++ ns ++ netSubsArgs cfg g.delimiters (typeKeywords g c.ctype) c.kwpos c.kw c.args field
    ++ (if c.args.isEmpty && c.kwpos == some 0 then [c.kw] else [])

/-- `cpt._netsubs()`; `deleg`: the source prints through `_netmake1` -/
def netSubs (deleg : Bool) (cfg : PrinterCfg) (g : Grammar) (c : Cpt) : Option Str :=
  if deleg then printCptC cfg g c
  else if c.ctype == ['X','X'] then some c.string
  else
    match optsParse c.opts with
    | .error _ => none
    | .ok o =>
      match optsFormat o with
      | none => none
      | some os =>
        let net := joinWith [' '] (netSubsLegacyTokens cfg g c)
        let os := strip os
        some (if os.isEmpty then net else net ++ [';', ' '] ++ os)

/-! ### netlists (netfile._add / _parse, netlist._cpt_add) -/

structure NState where
  elts  : List Cpt          -- insertion-ordered dict keyed by name
  namer : List Str          -- ComponentNamer.names
  deriving Repr

def NState.empty : NState := ⟨[], []⟩

def NState.used (s : NState) : List Str := s.elts.map (·.name) ++ s.namer

/-- `_elements[cpt.name] = cpt` -/
def eltsSet (es : List Cpt) (c : Cpt) : List Cpt :=
  if es.any (fun e => e.name == c.name) then es.map (fun e => if e.name == c.name then c else e) else es ++ [c]

/-- `_parse`: leading "..." removed -/
def preLine (s : Str) : Str := if startsWith s ['.', '.', '.'] then strip (s.drop 3) else s

/-- add one (already stripped) line -/
def addLine (g : Grammar) (s : NState) (line : Str) : Except Err NState :=
  match parse g s.used [] (preLine line) with
  | .error e => .error e
  | .ok (c, anon) =>
    match optsParse c.opts with
    | .error e => .error e
    | .ok _ => .ok { elts := eltsSet s.elts c, namer := match anon with | some a => s.namer ++ [a] | none => s.namer }

/-- `_add(string)`: split into lines, strip each, add -/
def addLines (g : Grammar) : NState → List Str → Except Err NState
  | s, [] => .ok s
  | s, l :: ls =>
    match addLine g s (strip l) with
    | .error e => .error e
    | .ok s' => addLines g s' ls

def parseNetlist (g : Grammar) (text : Str) : Except Err NState :=
  addLines g NState.empty (splitOn '\n' (strip text))

/-- `netlist()`: one printed component per line -/
def printNetlist (g : Grammar) (s : NState) : Option Str :=
  (s.elts.mapM (printCpt g)).map (joinWith ['\n'])

/-- `netlist()` of the checked-out code (with whatever repairs it contains) -/
def printNetlistC (cfg : PrinterCfg) (g : Grammar) (s : NState) : Option Str :=
  (s.elts.mapM (printCptC cfg g)).map (joinWith ['\n'])

/-! ### value_parser (valueparser.py) -/

def digitsVal : Str → Nat → Nat
  | [], acc => acc
  | c :: cs, acc => digitsVal cs (acc * 10 + (c.toNat - '0'.toNat))

def allDigits (s : Str) : Bool := s.all Char.isDigit

def pow10 (e : Int) : Rat := if e ≥ 0 then ((10 ^ e.toNat : Nat) : Rat) else 1 / ((10 ^ (-e).toNat : Nat) : Rat)

/-- decimal literal `[+-]? (d+ (. d*)? | . d+) ([eE] [+-]? d+)?` → exact value.
    (the subset of Python's `float()` grammar that is modelled) -/
def parseDecimal (s : Str) : Option Rat :=
  let (neg, s) := match s with
    | '-' :: r => (true, r)
    | '+' :: r => (false, r)
    | _ => (false, s)
  let mant := s.takeWhile (fun c => c != 'e' && c != 'E')
  let expPart := s.drop mant.length
  let ip := mant.takeWhile (· != '.')
  let fpd := mant.drop ip.length
  let fp := fpd.drop 1
  let mantOk := allDigits ip && allDigits fp && (!ip.isEmpty || !fp.isEmpty) && (fpd.isEmpty || fpd.head? == some '.')
  let e? : Option Int :=
    match expPart with
    | [] => some 0
    | _ :: r =>
      let (eneg, r) := match r with
        | '-' :: q => (true, q)
        | '+' :: q => (false, q)
        | _ => (false, r)
      if r.isEmpty || !allDigits r then none
      else some (if eneg then -((digitsVal r 0 : Nat) : Int) else ((digitsVal r 0 : Nat) : Int))
  match mantOk, e? with
  | true, some e =>
    let m : Rat := ((digitsVal (ip ++ fp) 0 : Nat) : Rat) * pow10 (-(fp.length : Int))
    some ((if neg then -m else m) * pow10 e)
  | _, _ => none

inductive Value
  | num (q : Rat)
  | str (s : Str)
  deriving Repr

def endsWith (s suf : Str) : Bool := suf.reverse.isPrefixOf s.reverse

/-- `value_parser(arg)` for a string `arg` -/
def valueParser (suffixes : List (Char × Int)) (arg : Str) : Value :=
  if arg.length < 2 then .str arg else
  let arg :=
    if endsWith arg ['M','e','g'] then arg.take (arg.length - 3) ++ ['M']
    else if endsWith arg ['K'] then arg.dropLast ++ ['k']
    else arg
  match arg.getLast?, parseDecimal arg.dropLast with
  | some c, some m =>
    match suffixes.find? (fun p => p.1 == c) with
    | some (_, e) => .num (m * pow10 e)
    | none => .str arg
  | _, _ => .str arg

end Lcapy.Parser
