/-
  C20 -- executable model of Lcapy's schematic constraint generation and a longest-path placer.
  Mirrors (file : function):
    lcapy/opts.py                       : Opts.add
    lcapy/schematics/components/cpt.py  : Cpt.size, angle, stretch, fixed, free, ignore, offset, scale, aspect, h,
                                          required_node_names, nodes, required_pins, coords, scales, tcoords, R, tf
    lcapy/schematics/components/fixedcpt.py : FixedCpt.tf (same formula once `scale` is given)
    lcapy/schematic.py                  : Schematic._cpt_add (offset expansion, node registration)
    lcapy/schemplacerbase.py            : SchemPlacerBase._xlink/_ylink/_place/_make_graphs
    lcapy/schemgraph.py                 : Graph.add (sign handling, zero skipped), Cnodes.link
  The class attributes come from the generated table (Generated/LayoutTable.lean).
  No Mathlib import.
-/
import Lcapy.Model.LayoutTypes
import Lcapy.Generated.LayoutTable
import Lcapy.Spec.Layout

namespace Lcapy.Layout

/-! ### small string helpers (List Char based, independent of the String API flavour) -/

def trimL (l : List Char) : List Char := l.dropWhile (fun c => c == ' ' || c == '\t')
def trimC (l : List Char) : List Char := (trimL (trimL l).reverse).reverse
def strTrim (s : String) : String := String.ofList (trimC s.toList)

/-- split on a character at brace level 0 (Opts.add.split) -/
def splitTop (sep : Char) (l : List Char) : List (List Char) :=
  let rec go (l : List Char) (lvl : Nat) (cur : List Char) (acc : List (List Char)) : List (List Char) :=
    match l with
    | [] => (cur.reverse :: acc).reverse
    | c :: rest =>
      if c == sep && lvl == 0 then go rest lvl [] (cur.reverse :: acc)
      else if c == '{' then go rest (lvl + 1) (c :: cur) acc
      else if c == '}' then go rest (lvl - 1) (c :: cur) acc
      else go rest lvl (c :: cur) acc
  go l 0 [] []

def digitsToNat (l : List Char) : Option Nat :=
  if l.isEmpty then none else
  l.foldl (fun acc c => match acc with
    | none => none
    | some n => if c.isDigit then some (n * 10 + (c.toNat - '0'.toNat)) else none) (some 0)

/-- `float(str)` for plain decimal strings `[+-]ddd[.ddd]` -/
def parseDec (s : String) : Option Rat :=
  let l := trimC s.toList
  let (neg, body) := match l with
    | '-' :: r => (true, r)
    | '+' :: r => (false, r)
    | r => (false, r)
  let ip := body.takeWhile (· != '.')
  let fp := (body.dropWhile (· != '.')).drop 1
  let hasDot := body.contains '.'
  let v : Option Rat :=
    if !hasDot then (digitsToNat ip).map (fun n => (n : Rat))
    else if ip.isEmpty && fp.isEmpty then none
    else do
      let i ← if ip.isEmpty then some 0 else digitsToNat ip
      let f ← if fp.isEmpty then some 0 else digitsToNat fp
      some (((i * 10 ^ fp.length + f : Nat) : Rat) / ((10 ^ fp.length : Nat) : Rat))
  v.map (fun x => if neg then -x else x)

/-! ### options (lcapy/opts.py) -/

abbrev Opts := List (String × String)

def Opts.has (o : Opts) (k : String) : Bool := o.any (fun e => e.1 == k)
/-- dict semantics: the last assignment of a key wins -/
def Opts.get? (o : Opts) (k : String) : Option String := (o.reverse.find? (fun e => e.1 == k)).map (·.2)
/-- Cpt.boolattr: absent ↦ False, '' ↦ True, 'false' ↦ False, anything else is truthy -/
def Opts.boolattr (o : Opts) (k : String) : Bool :=
  match o.get? k with
  | none => false
  | some v => !(v == "false" || v == "False")

/-- Opts.add on the text after `;` -/
def parseOpts (s : String) : Opts :=
  (splitTop ',' s.toList).filterMap fun part =>
    let p := trimC part
    if p.isEmpty then none else
    let key := trimC (p.takeWhile (· != '='))
    let arg := trimC ((p.dropWhile (· != '=')).drop 1)
    some (String.ofList key, String.ofList arg)

/-! ### elements -/

structure Elt where
  name : String
  /-- component type letters (`R`, `W`, `P`, `U`, `E`, `TF` ...) -/
  typ : String
  /-- schematic class (`R`, `W`, `Uchip2121`, `Eopamp`, `TF` ...) -/
  cls : String
  /-- `node_names` -/
  nodes : List String
  opts : Opts
deriving Repr

def lookupRow (cls : String) : Option ClassRow :=
  (Gen.table.find? (fun g => g.1.contains cls)).map (·.2)

def Elt.right (e : Elt) : Bool := e.opts.has "right"
def Elt.left (e : Elt) : Bool := e.opts.has "left"
def Elt.up (e : Elt) : Bool := e.opts.has "up"
def Elt.down (e : Elt) : Bool := e.opts.has "down"

/-- Cpt.angle -/
def Elt.angle (e : Elt) : Option Rat :=
  let base : Rat :=
    if e.right then 0 else if e.down then -90 else if e.left then 180 else if e.up then 90
    else if e.typ == "P" then -90 else 0
  match e.opts.get? "rotate" with
  | none => some base
  | some r => (parseDec r).map (fun x => base + x)

/-- Cpt.size -/
def Elt.size (e : Elt) (row : ClassRow) : Option Rat :=
  let val : Option String :=
    if e.opts.has "size" then e.opts.get? "size"
    else if e.right then e.opts.get? "right"
    else if e.down then e.opts.get? "down"
    else if e.left then e.opts.get? "left"
    else if e.up then e.opts.get? "up"
    else none
  match val with
  | none => some (row.defaultWidth * row.shapeScale)
  | some "" => some (row.defaultWidth * row.shapeScale)
  | some v => (parseDec v).map (· * row.shapeScale)

def Elt.fixed (e : Elt) : Bool := e.opts.boolattr "fixed"
def Elt.free (e : Elt) : Bool := e.opts.boolattr "free"
def Elt.ignore (e : Elt) : Bool := e.opts.boolattr "ignore"
def Elt.stretch (e : Elt) (row : ClassRow) : Bool := row.canStretch && !e.fixed
/-- `Cpt.mirror` = `boolattr('mirror') or flipud`, `Cpt.invert` = `boolattr('invert') or fliplr` -/
def Elt.mirror (e : Elt) : Bool := e.opts.boolattr "mirror" || e.opts.boolattr "flipud"
def Elt.invert (e : Elt) : Bool := e.opts.boolattr "invert" || e.opts.boolattr "fliplr"
def Elt.mirrorinputs (e : Elt) : Bool := e.opts.boolattr "mirrorinputs"
def Elt.kind (e : Elt) : Option String := e.opts.get? "kind"

def optNum (o : Opts) (k : String) (dflt : Rat) : Option Rat :=
  match o.get? k with
  | none => some dflt
  | some v => parseDec v

def Elt.offset (e : Elt) : Option Rat := optNum e.opts "offset" 0
def Elt.scale (e : Elt) : Option Rat := optNum e.opts "scale" 1

/-- Cpt.required_node_names -/
def requiredNodeNames (row : ClassRow) (nodes : List String) : List String :=
  (row.nodePinnames.zip nodes).filterMap (fun pn => if pn.1 == "" then none else some pn.2)

/-- options whose presence changes pin geometry or the node set in ways that are not modelled -/
def unsupportedOpts : List String :=
  ["pinnodes", "pinnames", "pinlabels", "pindefs", "anchors", "def", "nodes"]

/-! ### Cpt.R : the rotation table (generated: `Gen.rotTable`, `Gen.rotNormalise`); any angle that misses the table
     goes through cos/sin floats in the code and is not modelled -/

/-- `angle = (angle + 180) % 360 - 180` when Cpt.R normalises (Python `%` = Lean `Int.emod` for a positive modulus) -/
def normKey (norm : Bool) (n : Int) : Int := if norm then (n + 180) % 360 - 180 else n

def rotMatrix? (k : Int) : Option (Int × Int × Int × Int) :=
  (Gen.rotTable.find? (fun e => e.1 == k)).map (·.2)

/-- `dot(v, R)` with the matrix found in `Rdict`; non-integral angles never hit the table -/
def rotCode (angle : Rat) (v : Rat × Rat) : Option (Rat × Rat) :=
  if angle.den = 1 then
    match rotMatrix? (normKey Gen.rotNormalise angle.num) with
    | some (a, b, c, d) => some (v.1 * (a : Rat) + v.2 * (c : Rat), v.1 * (b : Rat) + v.2 * (d : Rat))
    | none => none
  else none

/-- number of quarter turns (0..3) of an angle that is a multiple of 90 degrees -/
def quarter (angle : Rat) : Option Int :=
  if angle.den = 1 ∧ angle.num % 90 = 0 then some ((angle.num / 90) % 4) else none

/-- the rotation a hint *means*: quarter turns, for every multiple of 90 degrees (spec side) -/
def rotExact (angle : Rat) (v : Rat × Rat) : Option (Rat × Rat) :=
  match quarter angle with
  | some 0 => some v
  | some 1 => some (-v.2, v.1)
  | some 2 => some (-v.1, -v.2)
  | some _ => some (v.2, -v.1)
  | none => none

/-! ### angles that are not multiples of 90 degrees: the code uses `cos`/`sin` of the angle.  The model takes the two
     matrix entries as PARAMETERS (`rots`: total angle ↦ (cos, sin)), supplied by the harness as exact rationals -/

abbrev RotTable := List (Rat × Rat × Rat)

/-- `dot(v, ((c, s), (−s, c)))` -/
def rotParam (rots : RotTable) (angle : Rat) (v : Rat × Rat) : Option (Rat × Rat) :=
  (rots.find? (fun e => e.1 == angle)).map fun e => (v.1 * e.2.1 - v.2 * e.2.2, v.1 * e.2.2 + v.2 * e.2.1)

/-- the rotation of the code: `Rdict` where it applies; cos/sin parameters for an angle that is not a multiple of 90;
    a multiple of 90 that misses the table (possible only if the normalisation is removed) stays unmodelled -/
def rotCodeP (rots : RotTable) (angle : Rat) (v : Rat × Rat) : Option (Rat × Rat) :=
  match rotCode angle v with
  | some w => some w
  | none => if (quarter angle).isSome then none else rotParam rots angle v

/-- the rotation a hint means: quarter turns exactly, other angles through the same parameters -/
def rotMeanP (rots : RotTable) (angle : Rat) (v : Rat × Rat) : Option (Rat × Rat) :=
  match rotExact angle v with
  | some w => some w
  | none => rotParam rots angle v

def dirOfAngle (angle : Rat) : Option Dir :=
  match quarter angle with
  | some 0 => some .right
  | some 1 => some .up
  | some 2 => some .left
  | some _ => some .down
  | none => none

/-! ### schematic assembly (Schematic._cpt_add) -/

def fmtNum (x : Rat) : String := if x.den = 1 then toString x.num else s!"{x.num}/{x.den}"

/-- `_cpt_add` for an element with a non-zero `offset` and two nodes: two wires, an open circuit and the
    component moved onto the offset nodes.  `dummy` is `Schematic.dummy_node`.  Numeric option values are kept
    as exact rationals written `p/q` only when not integral (the generators use values where Python's
    `'%s' % float` round-trips). -/
def expandElt (dummy : Nat) (e : Elt) (row : ClassRow) : Except String (Nat × List Elt) := do
  let some off := e.offset | throw "bad-offset"
  if off == 0 || e.nodes.length != 2 then return (dummy, [e])
  let some ang := e.angle | throw "bad-rotate"
  let some sz := e.size row | throw "bad-size"
  let n1 := e.nodes[0]!
  let n2 := e.nodes[1]!
  let on1 := n1 ++ "off" ++ toString (dummy + 1)
  let on2 := n2 ++ "off" ++ toString (dummy + 2)
  let (size, dang) : Rat × Rat := if off < 0 then (-off, -90) else (off, 90)
  let w1 : Elt := ⟨"W#" ++ on1, "W", "W", [n1, on1], [("rotate", decStr (ang + dang)), ("size", decStr size)]⟩
  let w2 : Elt := ⟨"W#" ++ on2, "W", "W", [n2, on2], [("rotate", decStr (ang + dang)), ("size", decStr size)]⟩
  let o : Elt := ⟨"O#" ++ n1 ++ "_" ++ n2, "O", "O", [n1, n2], [("rotate", decStr ang), ("size", decStr sz)]⟩
  let moved : Elt := { e with nodes := [on1, on2], opts := e.opts.filter (fun kv => kv.1 != "offset") }
  return (dummy + 2, [w1, w2, o, moved])
where
  /-- decimal text of a rational with a power-of-ten denominator (what `parseDec` reads back) -/
  decStr (x : Rat) : String :=
    let neg := x < 0
    let a := if neg then -x else x
    -- scale to 6 decimals (exact for the values produced here: sums/differences of parsed decimals ≤ 6 places)
    let n := (a * 1000000).floor.toNat
    let ip := n / 1000000
    let fp := n % 1000000
    let fs := toString fp
    let pad := String.ofList (List.replicate (6 - fs.length) '0')
    (if neg then "-" else "") ++ toString ip ++ "." ++ pad ++ fs

def expandAll (elts : List Elt) : Except String (List Elt) := do
  let mut dummy := 0
  let mut out : List Elt := []
  for e in elts do
    let some row := lookupRow e.cls | throw s!"unknown-class:{e.cls}"
    let (d, es) ← expandElt dummy e row
    dummy := d
    out := out ++ es
  return out

/-! ### implicit nodes (`Cpt.process_implicit_nodes`, `Node.split`) -/

/-- `Cpt.implicit_key`: the implicit / connection key among the options (two of them raise ValueError) -/
def implicitKey (e : Elt) : Except String (Option String) :=
  match (Gen.implicitKeys ++ Gen.connectionKeys).filter e.opts.has with
  | [] => .ok none
  | [k] => .ok (some k)
  | _ => .error "multiple-implicit-options"

structure SplitSt where
  /-- `Node._count`: elements other than annotations and open circuits attached to the node -/
  counts : List (String × Nat)
  splitCount : List (String × Nat)
  implicit : List String
  newNodes : List String

def cget (m : List (String × Nat)) (k : String) : Nat := ((m.find? (fun e => e.1 == k)).map (·.2)).getD 0
def cset (m : List (String × Nat)) (k : String) (v : Nat) : List (String × Nat) :=
  if m.any (fun e => e.1 == k) then m.map (fun e => if e.1 == k then (k, v) else e) else m ++ [(k, v)]

/-- `_cpt_add` → `_node_add` → `Node.append`: attachment counts of all registered nodes -/
def nodeCounts (elts : List Elt) : List (String × Nat) :=
  elts.foldl (fun m e =>
    match lookupRow e.cls with
    | none => m
    | some row =>
      if e.ignore || e.typ == "A" || e.typ == "O" then m else
      ((row.aux.filter (row.requiredAux.contains ·)).map (e.name ++ "." ++ ·) ++
        (row.nodePinnames.zip e.nodes).filterMap (fun pn => if pn.1 == "" then none else some pn.2)).foldl
        (fun m n => cset m n (cget m n + 1)) m) []

def setNth (l : List String) (i : Nat) (v : String) : List String := (l.zipIdx).map (fun x => if x.2 == i then v else x.1)

/-- one element of `for elt in elements.values(): elt.process_implicit_nodes()` (old syntax: the key is an option of the
    component).  The node at index 0 (positive supplies) or at the last index is detached from the net: unless it is the
    only connection of that node it is replaced by a new node `<name>_split<k>`. -/
def splitOne (st : SplitSt) (e : Elt) : Except String (SplitSt × Elt) :=
  match implicitKey e with
  | .error m => .error m
  | .ok none => .ok (st, e)
  | .ok (some key) =>
    match lookupRow e.cls with
    | none => .error s!"unknown-class:{e.cls}"
    | some row =>
      if e.nodes.isEmpty then .error "implicit-without-nodes" else
      let m := if Gen.supplyPositiveKeys.contains key then 0 else e.nodes.length - 1
      if (row.nodePinnames[m]?).getD "" == "" then .error "implicit-on-undrawn-node" else
      let n := (e.nodes[m]?).getD ""
      if n.toList.contains '.' then .error "cannot-split-pin" else
      let count := cget st.counts n + (if st.implicit.contains n then 1 else 0)
      if e.typ == "A" || count == 1 then
        .ok ({ st with implicit := st.implicit ++ [n] }, e)
      else
        let k := cget st.splitCount n
        let new := n ++ "_split" ++ toString k
        .ok ({ counts := cset (cset st.counts n (cget st.counts n - 1)) new 1,
               splitCount := cset st.splitCount n (k + 1),
               implicit := st.implicit ++ [new],
               newNodes := st.newNodes ++ [new] },
             { e with nodes := setNth e.nodes m new })

def splitImplicit (elts : List Elt) : Except String (List Elt × List String) :=
  let rec go (st : SplitSt) (todo : List Elt) (done : List Elt) : Except String (List Elt × List String) :=
    match todo with
    | [] => .ok (done, st.newNodes)
    | e :: rest =>
      match splitOne st e with
      | .error m => .error m
      | .ok (st', e') => go st' rest (done ++ [e'])
  go ⟨nodeCounts elts, [], [], []⟩ elts []

def dedup (l : List String) : List String :=
  l.foldl (fun acc x => if acc.contains x then acc else acc ++ [x]) []

/-- `sch.nodes` after all `_cpt_add` calls: required auxiliary nodes then required nodes of every non-ignored element -/
def schNodes (elts : List Elt) : List String :=
  dedup (elts.flatMap fun e =>
    match lookupRow e.cls with
    | none => []
    | some row =>
      if e.ignore then [] else
      (row.aux.filter (row.requiredAux.contains ·)).map (e.name ++ "." ++ ·) ++ requiredNodeNames row e.nodes)

/-- one of the pin tables of a class whose `pins` is a property -/
def variant (row : ClassRow) (name : String) : Option (List PinRow × List String) :=
  (row.variants.find? (fun v => v.1 == name)).map (·.2)

/-- the `pins` property (`allpins` = `pins` merged with `auxiliary`, and the key order of `pins`): the table chosen by
    `mirror` / `invert` / `mirrorinputs` / `kind` / class name, as the class' property does (the rule is recognised
    from the source by the translator).  Transistors: P-type devices are drawn with `mirror` reversed, insulated-gate
    kinds use the `*_pins2` tables, and the gate pin is moved when `size ≠ 1` or `scale ≠ 1`. -/
def pinsOf (row : ClassRow) (e : Elt) (size scale : Rat) : Option (List PinRow × List String) :=
  if row.pinsRule == "literal" then some (row.pins, row.pinOrder)
  else if row.pinsRule == "mirror" then variant row (if e.mirror then "mirror_pins" else "normal_pins")
  else if row.pinsRule == "invert" then variant row (if e.invert then "invert_pins" else "normal_pins")
  else if row.pinsRule == "mirrorinputs" then variant row (if e.mirrorinputs then "mirror_pins" else "normal_pins")
  else if row.pinsRule == "mirrorinputs-xor-mirror" then
    variant row (if e.mirrorinputs != e.mirror then "mirror_pins" else "normal_pins")
  else if row.pinsRule == "transistor" then
    let two := match e.kind with
      | some k => Gen.transistorPins2Prefixes.any (fun p => k.startsWith p)
      | none => false
    let ptype := Gen.transistorPClasses.contains e.cls ||
      (match e.kind with | some k => Gen.transistorPKinds.contains k | none => false)
    let m := if ptype then !e.mirror else e.mirror
    let base := if m then (if e.invert then "mirror_invert_pins" else "mirror_pins")
                else (if e.invert then "invert_pins" else "normal_pins")
    if size == 0 then none else
    (variant row (if two then base ++ "2" else base)).map fun ro =>
      if size != 1 || scale != 1 then
        (ro.1.map fun p => if p.name == "g" then { p with y := ((1 - scale) / 2 + p.y * scale + (size - 1) / 2) / size } else p, ro.2)
      else ro
  else none

/-- Cpt.nodes: `all_node_names` restricted to registered nodes, in order, duplicates kept -/
def eltNodes (all : List String) (e : Elt) (row : ClassRow) (pinOrder : List String) : List String :=
  let pre := e.name ++ "."
  let names := requiredNodeNames row e.nodes ++ row.aux.map (pre ++ ·) ++ pinOrder.map (pre ++ ·)
               ++ row.aliases.map (pre ++ ·.1)
  names.filter (all.contains ·)

def lastField (s : String) : String :=
  match (s.splitOn ".").getLast? with
  | some f => f
  | none => s

def listIdx (l : List String) (x : String) : Option Nat :=
  let rec go (l : List String) (i : Nat) : Option Nat :=
    match l with
    | [] => none
    | y :: r => if y == x then some i else go r (i + 1)
  go l 0

/-- `[m for m, name in enumerate(node_names) if name == node_name and node_pinnames[m] != ''][0]` if there is one, else
    `node_names.index(node_name)`: a node name that occurs both at an undrawn position and at a drawn pin means the pin -/
def drawnIdx (nodes pinnames : List String) (x : String) : Option Nat :=
  match ((nodes.zip pinnames).zipIdx).find? (fun t => t.1.1 == x && t.1.2 != "") with
  | some t => some t.2
  | none => listIdx nodes x

/-- Cpt.required_pins -/
def requiredPins (e : Elt) (row : ClassRow) (allpins : List PinRow) (nodes : List String) : Except String (List PinRow) :=
  nodes.foldlM (fun acc n => do
    let pinname ← match drawnIdx e.nodes row.nodePinnames n with
      | some i => match row.nodePinnames[i]? with
                  | some p => pure p
                  | none => throw "pin-index"
      | none =>
        let f := lastField n
        pure (match row.aliases.find? (·.1 == f) with | some a => a.2 | none => f)
    if pinname == "" then pure acc else
    match allpins.find? (·.name == pinname) with
    | some p => pure (acc ++ [p])
    | none => throw s!"unknown-pin:{pinname}") []

/-- what the placement code reads from one element -/
structure Resolved where
  name : String
  cls : String
  /-- the nodes of the element (Cpt.nodes) with their transformed pin coordinates (Cpt.tcoords) -/
  pins : List (String × Rat × Rat)
  angle : Rat
  size : Rat
  stretch : Bool
  /-- `directive or ignore or not place or free`: contributes nothing to the graphs -/
  skip : Bool
  /-- the class is a plain two-node component (`node_pinnames = ('+', '-')`, no auxiliary nodes): the Bipole family -/
  onePort : Bool
deriving Repr

/-- `mapM` in `Except`, written structurally -/
def mapE {α β : Type} (f : α → Except String β) : List α → Except String (List β)
  | [] => .ok []
  | a :: l =>
    match f a with
    | .error e => .error e
    | .ok b =>
      match mapE f l with
      | .error e => .error e
      | .ok bs => .ok (b :: bs)

/-- everything `Cpt.tcoords` needs except the rotation -/
structure PreResolved where
  name : String
  cls : String
  nodes : List String
  pinRows : List PinRow
  row : ClassRow
  angle : Rat
  size : Rat
  scale : Rat
  h : Rat
  width : Rat
  stretch : Bool
  skip : Bool
  ignored : Bool
  onePort : Bool
  /-- `Cpt.tf`: `do_transpose and invert` negates x, `do_transpose and mirror` negates y -/
  flipX : Bool
  flipY : Bool

def resolvePre (spacing : Rat) (all : List String) (e : Elt) : Except String PreResolved := do
  let some row := lookupRow e.cls | throw s!"unknown-class:{e.cls}"
  if row.hasDefaultPins then throw s!"unsupported-class:{e.cls}"
  if unsupportedOpts.any e.opts.has then throw "unsupported-opt"
  if e.opts.any (fun kv => kv.1.startsWith ".") then throw "unsupported-opt"
  let skip := row.directive || e.ignore || !row.place || e.free
  let some ang := e.angle | throw "bad-rotate"
  let some sz := e.size row | throw "bad-size"
  let some sc := e.scale | throw "bad-scale"
  -- Cpt.aspect = float(opts.get('aspect', default_aspect));  Cpt.h = w / aspect
  let some asp := optNum e.opts "aspect" row.defaultAspect | throw "bad-aspect"
  if e.ignore then
    return ⟨e.name, e.cls, [], [], row, ang, sz, sc, 0, 0, e.stretch row, true, true, false, false, false⟩
  let some (allpins, pinOrder) := pinsOf row e sz sc | throw s!"no-pin-table:{e.cls}"
  let nodes := eltNodes all e row pinOrder
  let pins ← requiredPins e row allpins nodes
  if pins.length != nodes.length then throw "pin-mismatch"
  if asp == 0 then throw "zero-aspect"
  return ⟨e.name, e.cls, nodes, pins, row, ang, sz, sc, row.w / asp, row.w * sz * spacing, e.stretch row, skip,
          false, row.nodePinnames == ["+", "-"] && row.aux.isEmpty, row.doTranspose && e.invert, row.doTranspose && e.mirror⟩

/-- Cpt.scales for one pin -/
def pinScale (p : PreResolved) (pin : PinRow) : Except String Rat :=
  if !p.row.canScale then .ok 1
  else if pin.scalable then .ok 1
  else if p.width == 0 then .error "zero-width" else .ok (2 * p.scale / p.width)

/-- one row of Cpt.tcoords: `tf((0, 0), coord, scale)` -/
def pinCoord (rot : Rat → Rat × Rat → Option (Rat × Rat)) (p : PreResolved) (pin : PinRow) : Except String (Rat × Rat) :=
  match pinScale p pin with
  | .error e => .error e
  | .ok s =>
    match rot p.angle ((if p.flipX then -pin.x else pin.x) * p.row.w, (if p.flipY then -pin.y else pin.y) * p.h) with
    | some v => .ok (v.1 * s, v.2 * s)
    | none => .error "unsupported-angle"

/-- Cpt.tcoords with a given rotation function (`rotCode` = the code, `rotExact` = the meaning) -/
def resolveWith (rot : Rat → Rat × Rat → Option (Rat × Rat)) (spacing : Rat) (all : List String) (e : Elt) :
    Except String Resolved :=
  match resolvePre spacing all e with
  | .error m => .error m
  | .ok p =>
    if p.ignored then .ok ⟨p.name, p.cls, [], p.angle, p.size, p.stretch, true, false⟩ else
    match mapE (pinCoord rot p) p.pinRows with
    | .error m => .error m
    | .ok tc => .ok ⟨p.name, p.cls, p.nodes.zip tc, p.angle, p.size, p.stretch, p.skip, p.onePort⟩

/-! ### graphs (SchemPlacerBase._make_graphs) -/

structure Edge where
  src : String
  dst : String
  size : Rat
  stretch : Bool
deriving Repr, DecidableEq

/-- `_xlink`: every pair of node positions m1 < m2 with equal value -/
def linkPairs : List (Rat × String) → List (String × String)
  | [] => []
  | a :: rest => (rest.filterMap fun b => if b.1 = a.1 then some (a.2, b.2) else none) ++ linkPairs rest

/-- `argsort(vals)[::-1]` (ties in arbitrary order in numpy; tied nodes are linked, see `place_pairwise`) -/
def sortDesc (l : List (Rat × String)) : List (Rat × String) := l.mergeSort (fun a b => decide (b.1 ≤ a.1))

/-- one `graph.add(elt, n1, n2, (vals[m2] - vals[m1]) * size, stretch)` with `Graph.add`'s handling of
    zero (dropped) and negative (swapped) values; `size == 0` is replaced by `1e-9` in `_place`, which keeps the
    direction and is recorded here as a zero-length edge -/
def edgeOf (a b : Rat × String) (size : Rat) (stretch : Bool) : List Edge :=
  let d := b.1 - a.1
  if d = 0 then []
  else if size = 0 then (if d < 0 then [⟨b.2, a.2, 0, stretch⟩] else [⟨a.2, b.2, 0, stretch⟩])
  else
    let value := d * size
    if value < 0 then [⟨b.2, a.2, -value, stretch⟩] else [⟨a.2, b.2, value, stretch⟩]

def chainEdges (size : Rat) (stretch : Bool) : List (Rat × String) → List Edge
  | a :: b :: rest => edgeOf a b size stretch ++ chainEdges size stretch (b :: rest)
  | _ => []

structure Graphs where
  xlinks : List (String × String)
  ylinks : List (String × String)
  xedges : List Edge
  yedges : List Edge
deriving Repr

def Resolved.xs (r : Resolved) : List (Rat × String) := r.pins.map (fun p => (p.2.1, p.1))
def Resolved.ys (r : Resolved) : List (Rat × String) := r.pins.map (fun p => (p.2.2, p.1))

def Resolved.graphs (r : Resolved) : Graphs :=
  if r.skip then ⟨[], [], [], []⟩ else
  ⟨linkPairs r.xs, linkPairs r.ys, chainEdges r.size r.stretch (sortDesc r.xs), chainEdges r.size r.stretch (sortDesc r.ys)⟩

def Graphs.append (a b : Graphs) : Graphs :=
  ⟨a.xlinks ++ b.xlinks, a.ylinks ++ b.ylinks, a.xedges ++ b.xedges, a.yedges ++ b.yedges⟩

def makeGraphs (rs : List Resolved) : Graphs := rs.foldr (fun r g => r.graphs.append g) ⟨[], [], [], []⟩

/-- an edge of the unit graph, read on final positions (`pos = unit position · node_spacing`) -/
def Edge.Sat (k : Rat) (c : String → Rat) (e : Edge) : Prop := Reach (!e.stretch) (c e.dst - c e.src) (e.size * k)

def Graphs.Sat (k : Rat) (L : Layout) (g : Graphs) : Prop :=
  (∀ p ∈ g.xlinks, L.x p.1 = L.x p.2) ∧ (∀ p ∈ g.ylinks, L.y p.1 = L.y p.2) ∧
  (∀ e ∈ g.xedges, e.Sat k L.x) ∧ (∀ e ∈ g.yedges, e.Sat k L.y)

/-! ### the meaning of the hints of one element (spec items) -/

/-- offsets of a multi-pin body: `tcoords · size · node_spacing` -/
def Resolved.body (k : Rat) (r : Resolved) : Body :=
  ⟨r.pins.map (fun p => (p.1, p.2.1 * r.size * k, p.2.2 * r.size * k)), r.stretch⟩

/-- the spec item of a resolved element: a `Hint` for a two-node component lying along an axis (the first node is
    the tail, the length is |Δtcoord| · size · node_spacing), a `Body` otherwise. -/
def Resolved.item (k : Rat) (r : Resolved) : Option Item :=
  if r.skip then none else
  match r.pins with
  | [(a, ta), (b, tb)] =>
    if ta.2 = tb.2 ∧ ta.1 < tb.1 then some (.hint ⟨a, b, .right, (tb.1 - ta.1) * r.size * k, !r.stretch⟩)
    else if ta.2 = tb.2 ∧ tb.1 < ta.1 then some (.hint ⟨a, b, .left, (ta.1 - tb.1) * r.size * k, !r.stretch⟩)
    else if ta.1 = tb.1 ∧ ta.2 < tb.2 then some (.hint ⟨a, b, .up, (tb.2 - ta.2) * r.size * k, !r.stretch⟩)
    else if ta.1 = tb.1 ∧ tb.2 < ta.2 then some (.hint ⟨a, b, .down, (ta.2 - tb.2) * r.size * k, !r.stretch⟩)
    else some (.body (r.body k))
  | _ => some (.body (r.body k))

/-- the meaning of the hints of an element, as the property states it: for a two-node component the direction is
    read off the hinted angle alone (`right`/`up`/`left`/`down` + `rotate`, any multiple of 90 degrees) and the length
    is size · node_spacing -- no pin table involved; a multi-pin component is a rigid/stretchy body of its pins. -/
def Resolved.specItem (k : Rat) (r : Resolved) : Option Item :=
  if r.skip then none else
  match r.onePort, r.pins with
  | true, [(a, _), (b, _)] =>
    match dirOfAngle r.angle with
    | some d => some (.hint ⟨a, b, d, r.size * k, !r.stretch⟩)
    | none => r.item k
  | _, _ => r.item k

/-- sizes for which the hints have the meaning stated by the property: non-negative for two-node hints,
    positive for multi-pin bodies -/
def Resolved.sizeOk (k : Rat) (r : Resolved) : Bool :=
  r.skip ||
  match r.item k with
  | some (.hint _) => decide (0 ≤ r.size)
  | _ => decide (0 < r.size)

/-! ### whole netlist -/

structure Netlist where
  spacing : Rat
  elts : List Elt
  /-- cos / sin of the total angles that are not multiples of 90 degrees (parameters) -/
  rots : RotTable := []
  /-- the keyword arguments given to `Schematic.draw(**kwargs)`: options of the same name are REMOVED from every component
      before the layout ("Remove options that may be overridden by arguments to draw"; `style` excepted) -- so
      `draw(scale=2)` discards a component's own `scale=1.5` -/
  drawKeys : List String := []
deriving Repr

def resolveAll (rot : Rat → Rat × Rat → Option (Rat × Rat)) (n : Netlist) : Except String (List String × List Resolved) :=
  match expandAll n.elts with
  | .error m => .error m
  | .ok elts0 =>
    match splitImplicit (elts0.map fun e =>
        { e with opts := e.opts.filter (fun kv => !(n.drawKeys.contains kv.1) || kv.1 == "style") }) with
    | .error m => .error m
    | .ok (elts, newNodes) =>
      let all := schNodes elts0 ++ newNodes
      match mapE (resolveWith rot n.spacing all) elts with
      | .error m => .error m
      | .ok rs => .ok (all, rs)

/-- A node name may occur twice in one component: at an UNDRAWN position (`node_pinnames` entry `''`, e.g. the reference
    node of an E-opamp) and at a drawn pin (`E1 out 0 opamp 0 in`: non-inverting input grounded).  The hints mean the
    drawn pin; `Cpt.required_pins` looks the name up with `node_names.index(name)`, finds the undrawn position first and
    drops the pin (then `_xlink` raises IndexError).  For the MEANING of the hints the undrawn occurrence is renamed. -/
def dedupUndrawn (e : Elt) : Elt :=
  match lookupRow e.cls with
  | none => e
  | some row =>
    let drawn := (row.nodePinnames.zip e.nodes).filterMap (fun pn => if pn.1 == "" then none else some pn.2)
    { e with nodes := (row.nodePinnames.zip e.nodes).map (fun pn => if pn.1 == "" && drawn.contains pn.2 then pn.2 ++ "#ref" else pn.2)
                      ++ e.nodes.drop row.nodePinnames.length }

def Netlist.meaning (n : Netlist) : Netlist := { n with elts := n.elts.map dedupUndrawn }

/-- spec of a netlist: drawn nodes and hint items, with the rotation a hint *means* -/
def specOf (n0 : Netlist) : Except String Spec := do
  let n := n0.meaning
  let (all, rs) ← resolveAll (rotMeanP n.rots) n
  if !(decide (0 < n.spacing)) then throw "bad-spacing"
  if !(rs.all (fun r => r.skip || match r.specItem n.spacing with
        | some (.hint _) => decide (0 ≤ r.size)
        | _ => decide (0 < r.size))) then throw "size-outside-spec"
  return ⟨all, rs.filterMap (Resolved.specItem n.spacing)⟩

/-- the model of what the code builds -/
def graphsOf (n : Netlist) : Except String (List String × Graphs) := do
  let (all, rs) ← resolveAll (rotCodeP n.rots) n
  return (all, makeGraphs rs)

/-! ### partition of nodes (Cnodes) and canonical form of the graphs -/

def findClass (parts : List (List String)) (n : String) : List String :=
  (parts.find? (·.contains n)).getD [n]

def link (parts : List (List String)) (a b : String) : List (List String) :=
  let ca := findClass parts a
  let cb := findClass parts b
  if ca == cb then parts else (ca ++ cb) :: parts.filter (fun c => c != ca && c != cb)

def partition (nodes : List String) (links : List (String × String)) : List (List String) :=
  links.foldl (fun p l => link p l.1 l.2) (nodes.map ([·]))

def sortStr (l : List String) : List String := l.mergeSort (fun a b => decide (a ≤ b))

def repOf (parts : List (List String)) (n : String) : String :=
  match sortStr (findClass parts n) with
  | r :: _ => r
  | [] => n

/-! ### longest-path placement on a DAG (the model's own placer; cf. schemgraph.Graph.longest_path) -/

structure WEdge where
  src : String
  dst : String
  size : Rat
deriving Repr, DecidableEq

/-- longest distance into `v` given the distances `d` of the nodes processed before -/
def inMax (edges : List WEdge) (d : String → Rat) (v : String) : Rat :=
  edges.foldl (fun acc e => if e.dst = v then max acc (d e.src + e.size) else acc) 0

/-- `rev` lists the nodes in reverse processing order (last processed first) -/
def lp (edges : List WEdge) : List String → String → Rat
  | [] => fun _ => 0
  | v :: earlier => fun u => if u = v then inMax edges (lp edges earlier) v else lp edges earlier u

/-- Kahn's algorithm with fuel; returns the nodes in processing order, or none if a cycle remains -/
def topo (nodes : List String) (edges : List WEdge) : Option (List String) :=
  let rec go (fuel : Nat) (todo : List String) (done : List String) : Option (List String) :=
    match fuel with
    | 0 => if todo.isEmpty then some done else none
    | fuel + 1 =>
      if todo.isEmpty then some done else
      match todo.find? (fun v => edges.all (fun e => !(e.dst == v) || done.contains e.src || !(nodes.contains e.src))) with
      | none => none
      | some v => go fuel (todo.filter (· != v)) (done ++ [v])
  go (nodes.length + 1) nodes []

/-- reverse-topological well-formedness, checked executably: every edge leaving the head goes nowhere in the list -/
def revTopoB (edges : List WEdge) : List String → Bool
  | [] => true
  | v :: earlier => edges.all (fun e => !(e.src == v) || !((v :: earlier).contains e.dst)) && revTopoB edges earlier

/-- reverse-topological order (last processed first): every edge leaving the head goes nowhere in the list -/
def RevTopo (edges : List WEdge) : List String → Prop
  | [] => True
  | v :: earlier => (∀ e ∈ edges, e.src = v → e.dst ∉ v :: earlier) ∧ RevTopo edges earlier

/-- `path` is a walk starting at `s` -/
def PathFrom : String → List WEdge → Prop
  | _, [] => True
  | s, e :: rest => e.src = s ∧ PathFrom e.dst rest

def pathEnd : String → List WEdge → String
  | s, [] => s
  | _, e :: rest => pathEnd e.dst rest

/-- the model's layout of one axis: contract linked nodes, longest path over class representatives -/
def placeAxis (k : Rat) (nodes : List String) (links : List (String × String)) (edges : List Edge) :
    Option (List (String × Rat)) :=
  let parts := partition nodes links
  let reps := dedup (nodes.map (repOf parts))
  let wes : List WEdge := edges.map (fun e => ⟨repOf parts e.src, repOf parts e.dst, e.size * k⟩)
  match topo reps wes with
  | none => none
  | some order =>
    -- side conditions of `longest_path_feasible`, checked executably
    if !(revTopoB wes order.reverse) || order.length != (dedup order).length then none else
    let d := lp wes order.reverse
    some (nodes.map (fun n => (n, d (repOf parts n))))

/-- witness layout for the consistency of a hint set: longest path over the graphs the hints *mean*
    (exact quarter-turn rotation), so that it also exists where the code's rotation table does not apply -/
def placeModel (n0 : Netlist) : Except String Layout := do
  let n := n0.meaning
  let (all, rs) ← resolveAll (rotMeanP n.rots) n
  let g := makeGraphs rs
  let some xs := placeAxis n.spacing all g.xlinks g.xedges | throw "x-cycle"
  let some ys := placeAxis n.spacing all g.ylinks g.yedges | throw "y-cycle"
  return all.map (fun nd => (nd, ((xs.lookup nd).getD 0, (ys.lookup nd).getD 0)))

end Lcapy.Layout
