/-
  MODEL of lcapy/statespacemaker.py `StateSpaceMaker.from_circuit` (property C15, state space of a circuit).

  The code
    1. replaces every capacitor by a voltage source `V_C n1 n2 {v_C(t)}` and every inductor by a current source
       `I_L n1 n2 {-i_L(t)}` (`C._ss_model`, `L._ss_model`); independent sources keep their place with a symbolic
       value; everything else is copied (`Cpt._ss_model`);
    2. solves the resulting resistive circuit in the time domain (MNA, lcapy/mna.py) with the state variables and
       the source values as symbols;
    3. reads   d i_L/dt = v_L / L   (voltage across the substituted current source)   and
               d v_C/dt = i_C / C   (current through the substituted voltage source),
       the node voltages and the branch currents (passive sign convention) off that solution, and
    4. extracts A, B (C, D) as the coefficients of the state (source) symbols with `sympy.linear_eq_to_matrix`.

  Here: `subst base w cs` is the substituted netlist for the VALUES `w p` (by position `p` in the netlist) of the
  state variables / source values; the solution of step 2 is linear in `w`, so the coefficient of the symbol at
  position `q` in any quantity read off the solution is that quantity at the UNIT solution `zs q` (the solution for
  `w = ind q`): `entry F M q`.  The linear solver is a parameter of the model (`solver`): its result is checked row by
  row (`checkSolves`) and the model refuses when a check fails, so nothing about the solver is trusted.
  States are ordered inductors first, then capacitors (`inductors + capacitors`), inputs voltage sources first.
  No Mathlib import.
-/
import Lcapy.Model.MNA
namespace Lcapy.SSMaker
open Lcapy.MNA Ix

variable {K : Type} [Add K] [Mul K] [Neg K] [Sub K] [Div K] [OfNat K 0] [OfNat K 1] [OfNat K 2]

/-- `_ss_model` of the component at position `p`: `w p` is the value of its state variable / source.
    A capacitor becomes a voltage source on the fresh branch `base + p`. -/
def substC (base : Nat) (w : Nat → K) (p : Nat) : Cpt K → Cpt K
  | .Cap n1 n2 _ _ => .V n1 n2 (base + p) (w p)
  | .Ind n1 n2 _ _ _ _ => .I n1 n2 (-(w p))
  | .V n1 n2 m _ => .V n1 n2 m (w p)
  | .I n1 n2 _ => .I n1 n2 (w p)
  | .HY n1 n2 m n3 n4 mc y _ h => .HY n1 n2 m n3 n4 mc y 0 h      -- no initial-condition term in the time domain
  | c => c

def substFrom (base : Nat) (w : Nat → K) : Nat → List (Cpt K) → List (Cpt K)
  | _, [] => []
  | p, c :: t => substC base w p c :: substFrom base w (p + 1) t

/-- the resistive netlist `sscct` for the values `w` -/
def subst (base : Nat) (w : Nat → K) (cs : List (Cpt K)) : List (Cpt K) := substFrom base w 0 cs

inductive Role where
  | ind | cap | vsrc | isrc | other
deriving DecidableEq, Repr

def role : Cpt K → Role
  | .Ind _ _ _ _ _ _ => .ind
  | .Cap _ _ _ _ => .cap
  | .V _ _ _ _ => .vsrc
  | .I _ _ _ => .isrc
  | _ => .other

/-- positions (from `p`) of the components with role `r`, ascending -/
def posFrom (r : Role) : Nat → List (Cpt K) → List Nat
  | _, [] => []
  | p, c :: t => if role c = r then p :: posFrom r (p + 1) t else posFrom r (p + 1) t

/-- `inductors + capacitors` -/
def statePos (cs : List (Cpt K)) : List Nat := posFrom .ind 0 cs ++ posFrom .cap 0 cs
/-- `independent_voltage_sources + independent_current_sources` -/
def inputPos (cs : List (Cpt K)) : List Nat := posFrom .vsrc 0 cs ++ posFrom .isrc 0 cs
/-- every position whose value `subst` reads -/
def srcPos (cs : List (Cpt K)) : List Nat := statePos cs ++ inputPos cs

/-- unit value vector -/
def ind (q : Nat) : Nat → K := fun p => if p = q then 1 else 0

/-- `dotx_exprs`: derivative of the state variable of the component at position `p`, read off the solution `z`
    of the substituted circuit:  v_L / L  resp.  i_C / C -/
def dotx (base : Nat) (p : Nat) (c : Cpt K) (z : Ix → K) (_w : Nat → K) : K :=
  match c with
  | .Cap _ _ cv _ => z (br (base + p)) / cv
  | .Ind n1 n2 _ l _ _ => vd z n1 n2 / l
  | _ => 0

/-- output `v_k(t)`: node voltage -/
def outV (k : Nat) (z : Ix → K) (_w : Nat → K) : K := volt z k

/-- output `i_name(t)`: current through the component at position `p` from its first to its second node in the
    substituted circuit (passive sign convention, `state.current_sign_convention = 'passive'`) -/
def outI (base : Nat) (p : Nat) (c : Cpt K) (z : Ix → K) (w : Nat → K) : K :=
  match c with
  | .R n1 n2 r => vd z n1 n2 / r
  | .Y n1 n2 y => y * vd z n1 n2
  | .Cap _ _ _ _ => z (br (base + p))
  | .Ind _ _ _ _ _ _ => w p
  | .V _ _ m _ => z (br m)
  | .I _ _ _ => -(w p)
  | .E _ _ _ _ m _ _ => z (br m)
  | .H _ _ m _ _ => z (br m)
  | .TF _ _ _ _ m _ => z (br m)
  | .AM _ _ m => z (br m)
  | _ => 0

/-- `cct.ss` asks for the current of EVERY component: the MNA results have none for these (`KeyError`) -/
def hasCurrent : Cpt K → Bool
  | .R _ _ _ | .Y _ _ _ | .Cap _ _ _ _ | .Ind _ _ _ _ _ _ | .V _ _ _ _ | .I _ _ _ | .E _ _ _ _ _ _ _ | .H _ _ _ _ _
  | .TF _ _ _ _ _ _ | .AM _ _ _ => true
  | _ => false

/-- rows that occur in a stamp -/
def rowsOf (st : Stamp K) : List Ix := st.lhs.map (fun e => e.1) ++ st.rhs.map (fun e => e.1)

/-- exact check that `z` solves the assembled system of the netlist (every row that occurs) -/
def checkSolves [DecidableEq K] (cs : List (Cpt K)) (z : Ix → K) : Bool :=
  (rowsOf (stampAll .time 0 cs)).all (fun r => decide (r = node 0) || decide (residual (stampAll .time 0 cs) z r = 0))

/-- result of the construction: the fresh-branch base and the unit solutions by source position -/
structure SSM (K : Type) where
  base : Nat
  zs : Nat → Ix → K

/-- first branch index not owned by any component -/
def freshBase (cs : List (Cpt K)) : Nat :=
  (cs.flatMap owned).foldl (fun a m => if a ≤ m then m + 1 else a) 0

/-- the model: unit solutions from the (untrusted) `solver`, each checked; `none` = refused -/
def ssModel [DecidableEq K] (solver : List (Cpt K) → Ix → K) (cs : List (Cpt K)) : Option (SSM K) :=
  let base := freshBase cs
  let zs : Nat → Ix → K := fun q => solver (subst base (ind q) cs)
  if (srcPos cs).all (fun q => checkSolves (subst base (ind q) cs) (zs q)) then some ⟨base, zs⟩ else none

/-- coefficient of the symbol at position `q` in the quantity `F`: what `linear_eq_to_matrix` extracts -/
def entry (F : (Ix → K) → (Nat → K) → K) (M : SSM K) (q : Nat) : K := F (M.zs q) (ind q)

/-- the quantity `F` as the state-space model gives it: Σ_states A·x + Σ_inputs B·u -/
def ssValue (F : (Ix → K) → (Nat → K) → K) (M : SSM K) (cs : List (Cpt K)) (w : Nat → K) : K :=
  lsum ((statePos cs).map (fun q => entry F M q * w q)) + lsum ((inputPos cs).map (fun k => entry F M k * w k))

/-- components with their positions -/
def enumFrom : Nat → List (Cpt K) → List (Nat × Cpt K)
  | _, [] => []
  | p, c :: t => (p, c) :: enumFrom (p + 1) t

end Lcapy.SSMaker
