/-
  Checked rationals: exact `Rat` arithmetic in which division by zero is an error value
  instead of Lean's totalised `x / 0 = 0`.  The executable models are generic over the
  arithmetic operations, and the driver instantiates them at `CRat`, so that a model can
  never agree with the implementation "for the wrong reason" at a pole.
  No Mathlib import.
-/
namespace Lcapy

structure CRat where
  v : Option Rat
deriving DecidableEq

namespace CRat
def ofRat (r : Rat) : CRat := ⟨some r⟩
def undef : CRat := ⟨none⟩
def lift2 (f : Rat → Rat → Rat) (a b : CRat) : CRat :=
  match a.v, b.v with
  | some x, some y => ⟨some (f x y)⟩
  | _, _ => ⟨none⟩
instance : Add CRat := ⟨lift2 (· + ·)⟩
instance : Sub CRat := ⟨lift2 (· - ·)⟩
instance : Mul CRat := ⟨lift2 (· * ·)⟩
instance : Neg CRat := ⟨fun a => ⟨a.v.map (fun x => -x)⟩⟩
instance : Div CRat := ⟨fun a b =>
  match a.v, b.v with
  | some x, some y => if y = 0 then ⟨none⟩ else ⟨some (x / y)⟩
  | _, _ => ⟨none⟩⟩
instance (n : Nat) : OfNat CRat n := ⟨⟨some (n : Rat)⟩⟩

def toStr (a : CRat) : String :=
  match a.v with
  | some x => if x.den = 1 then toString x.num else s!"{x.num}/{x.den}"
  | none => "undef"
instance : ToString CRat := ⟨toStr⟩
end CRat

def ratToStr (x : Rat) : String := if x.den = 1 then toString x.num else s!"{x.num}/{x.den}"

/-- parse `p`, `-p`, `p/q` -/
def parseRat (s : String) : Option Rat :=
  match s.splitOn "/" with
  | [n] => n.toInt?.map (fun i => (i : Rat))
  | [n, d] => do
      let a ← n.toInt?
      let b ← d.toNat?
      if b = 0 then none else some ((a : Rat) / (b : Rat))
  | _ => none

def parseCRat (s : String) : Option CRat := (parseRat s).map CRat.ofRat

end Lcapy
