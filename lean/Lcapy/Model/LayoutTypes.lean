/-
  Types shared by the generated component table (Generated/LayoutTable.lean, rewritten from
  /repo/lcapy/schemcpts.py + schematics/components/*.py by harness/translate/tx_layout.py)
  and the layout model.  No Mathlib import.
-/
namespace Lcapy.Layout

/-- exact rational literal `n/d` used by the generated table -/
def mkR (n : Int) (d : Nat) : Rat := (n : Rat) / (d : Rat)

/-- one entry of a class' `pins` / `auxiliary` dictionary: `name: (pinpos, x, y)`;
    `scalable` records whether `pinpos` ends with `'x'` (Cpt.scales) -/
structure PinRow where
  name : String
  scalable : Bool
  x : Rat
  y : Rat
deriving Repr, DecidableEq

/-- the class attributes of a schematic component class that the placement code reads -/
structure ClassRow where
  nodePinnames : List String
  /-- `allpins` = `pins` updated with `auxiliary` -/
  pins : List PinRow
  /-- keys of `pins` in definition order (`pin_node_names`) -/
  pinOrder : List String
  /-- keys of `auxiliary` in definition order (`auxiliary_node_names`) -/
  aux : List String
  requiredAux : List String
  aliases : List (String × String)
  canStretch : Bool
  canScale : Bool
  doTranspose : Bool
  place : Bool
  directive : Bool
  defaultWidth : Rat
  defaultAspect : Rat
  shapeScale : Rat
  w : Rat
  /-- `false` when `pins` is a property choosing between mirror/invert variants (the table then holds `normal_pins`) -/
  pinsLiteral : Bool
  /-- `default_pins` is non-empty (pin labels add nodes; not modelled) -/
  hasDefaultPins : Bool
  /-- which `pins` property applies (`literal`, `mirror`, `invert`, `mirrorinputs`, `mirrorinputs-xor-mirror`,
      `transistor`): recognised by the translator from the source text of the property -/
  pinsRule : String
  /-- the `normal_pins`, `mirror_pins`, `invert_pins`, `mirror_invert_pins`, `…_pins2` tables of the class (each
      merged with `auxiliary`) with their key order -/
  variants : List (String × List PinRow × List String)
deriving Repr, DecidableEq

end Lcapy.Layout
