/-
  MODEL of what Lcapy does to the independent quantities of a netlist: scaling a source,
  killing sources (`kill`, `kill_except`: V ↦ 0 V i.e. a short, I ↦ 0 A i.e. an open),
  zeroing initial conditions, and combining two copies of one circuit that differ only in
  their independent source values / initial conditions (superposition).
  "Independent quantities" = V.v, I.i, Cap.v0, Ind.i0.  No Mathlib import.
-/
import Lcapy.Model.MNA
namespace Lcapy.MNA
variable {K : Type} [Add K] [Mul K] [Neg K] [Sub K] [Div K] [OfNat K 0] [OfNat K 1] [OfNat K 2]

/-- apply `f` to the initial currents recorded in a coupling list -/
def coupMap (f : K → K) (coup : List (Nat × K × Option K)) : List (Nat × K × Option K) :=
  coup.map (fun p => (p.1, p.2.1, p.2.2.map f))

/-- apply `f` to every independent quantity of a component -/
def Cpt.mapSrc (f : K → K) : Cpt K → Cpt K
  | .V n1 n2 m v => .V n1 n2 m (f v)
  | .I n1 n2 i => .I n1 n2 (f i)
  | .Cap n1 n2 c v0 => .Cap n1 n2 c (v0.map f)
  | .Ind n1 n2 m l i0 coup => .Ind n1 n2 m l (i0.map f) (coupMap f coup)
  | .HY n1 n2 m n3 n4 mc y isc h => .HY n1 n2 m n3 n4 mc y (f isc) h      -- isc = C·v0 of the controlling capacitor
  | c => c

/-- value-wise sum of two components of the same shape (the second is ignored where shapes differ) -/
def optAdd (a b : Option K) : Option K :=
  match a, b with
  | some x, some y => some (x + y)
  | some x, none => some x
  | none, some y => some y
  | none, none => none

def coupAdd (c c' : List (Nat × K × Option K)) : List (Nat × K × Option K) :=
  List.zipWith (fun p q => (p.1, p.2.1, optAdd p.2.2 q.2.2)) c c'

def Cpt.addSrc : Cpt K → Cpt K → Cpt K
  | .V n1 n2 m v, .V _ _ _ v' => .V n1 n2 m (v + v')
  | .I n1 n2 i, .I _ _ i' => .I n1 n2 (i + i')
  | .Cap n1 n2 c v0, .Cap _ _ _ v0' => .Cap n1 n2 c (optAdd v0 v0')
  | .Ind n1 n2 m l i0 coup, .Ind _ _ _ _ i0' coup' => .Ind n1 n2 m l (optAdd i0 i0') (coupAdd coup coup')
  | .HY n1 n2 m n3 n4 mc y isc h, .HY _ _ _ _ _ _ _ isc' _ => .HY n1 n2 m n3 n4 mc y (isc + isc') h
  | c, _ => c

/-- two components differ at most in their independent quantities -/
def Cpt.sameShape [DecidableEq K] : Cpt K → Cpt K → Bool
  | .V n1 n2 m _, .V n1' n2' m' _ => n1 == n1' && n2 == n2' && m == m'
  | .I n1 n2 _, .I n1' n2' _ => n1 == n1' && n2 == n2'
  | .Cap n1 n2 c _, .Cap n1' n2' c' _ => n1 == n1' && n2 == n2' && c == c'
  | .Ind n1 n2 m l _ coup, .Ind n1' n2' m' l' _ coup' =>
      n1 == n1' && n2 == n2' && m == m' && l == l' && coup == coup'
  | .R n1 n2 r, .R n1' n2' r' => n1 == n1' && n2 == n2' && r == r'
  | .Y n1 n2 r, .Y n1' n2' r' => n1 == n1' && n2 == n2' && r == r'
  | .E a b c d m x y, .E a' b' c' d' m' x' y' => a == a' && b == b' && c == c' && d == d' && m == m' && x == x' && y == y'
  | .G a b c d g, .G a' b' c' d' g' => a == a' && b == b' && c == c' && d == d' && g == g'
  | .F a b m f, .F a' b' m' f' => a == a' && b == b' && m == m' && f == f'
  | .H a b m mc h, .H a' b' m' mc' h' => a == a' && b == b' && m == m' && mc == mc' && h == h'
  | .TF a b c d m t, .TF a' b' c' d' m' t' => a == a' && b == b' && c == c' && d == d' && m == m' && t == t'
  | .GY a b c d m1 m2 r, .GY a' b' c' d' m1' m2' r' =>
      a == a' && b == b' && c == c' && d == d' && m1 == m1' && m2 == m2' && r == r'
  | .AM a b m, .AM a' b' m' => a == a' && b == b' && m == m'
  | .TR a b m t, .TR a' b' m' t' => a == a' && b == b' && m == m' && t == t'
  | .Open a b, .Open a' b' => a == a' && b == b'
  | .TPA a b c d m p q r t, .TPA a' b' c' d' m' p' q' r' t' =>
      a == a' && b == b' && c == c' && d == d' && m == m' && p == p' && q == q' && r == r' && t == t'
  | .TPY a b c d p q r t, .TPY a' b' c' d' p' q' r' t' =>
      a == a' && b == b' && c == c' && d == d' && p == p' && q == q' && r == r' && t == t'
  | .HY a b m c d mc p q r, .HY a' b' m' c' d' mc' p' q' r' =>
      a == a' && b == b' && c == c' && d == d' && m == m' && mc == mc' && p == p' && r == r'
  | .SP a b c d m p q r, .SP a' b' c' d' m' p' q' r' =>
      a == a' && b == b' && c == c' && d == d' && m == m' && p == p' && q == q' && r == r'
  | _, _ => false

/-- kill every independent source and initial condition -/
def killAll (cs : List (Cpt K)) : List (Cpt K) := cs.map (Cpt.mapSrc (fun _ => 0))

end Lcapy.MNA
