/-
  MODEL of the sinusoid ↔ phasor correspondence used by Lcapy's AC analysis (lcapy/phasor.py, lcapy/oneport.py
  `Vac`/`Iac`, lcapy/netlist.py `ac`, `select`):

     a·cos ωt + b·sin ωt   ↦   a − j·b                      (`TimeDomainExpression.phasor`, `toPh`)
     P                     ↦   Re(P)·cos ωt − Im(P)·sin ωt   (`PhasorDomainExpression.time`, `toTime`)

  and of the phasor-domain netlist Lcapy analyses at angular frequency ω: every component value as it is (a real
  number), every independent source replaced by the phasor of its waveform (`phasorCpt`).
  No Mathlib import.
-/
import Lcapy.Model.Cx
import Lcapy.Spec.LawsTD
namespace Lcapy.TDS
open Lcapy.MNA
variable {K : Type} [Add K] [Mul K] [Neg K] [Sub K] [Div K] [OfNat K 0] [OfNat K 1] [OfNat K 2]

def toPh (v : Sinus K) : Cx K := ⟨v.a, -v.b⟩
def toTime (p : Cx K) : Sinus K := ⟨p.re, -p.im⟩

/-- every value of a component sent through `f` (nodes and branch indices untouched) -/
def embed {A B : Type} (f : A → B) : Cpt A → Cpt B
  | .R n1 n2 r => .R n1 n2 (f r)
  | .Cap n1 n2 c v0 => .Cap n1 n2 (f c) (v0.map f)
  | .Ind n1 n2 m l i0 coup => .Ind n1 n2 m (f l) (i0.map f) (coup.map (fun p => (p.1, f p.2.1, p.2.2.map f)))
  | .V n1 n2 m v => .V n1 n2 m (f v)
  | .I n1 n2 i => .I n1 n2 (f i)
  | .E n1 n2 n3 n4 m a c => .E n1 n2 n3 n4 m (f a) (f c)
  | .G n1 n2 n3 n4 g => .G n1 n2 n3 n4 (f g)
  | .F n1 n2 mc g => .F n1 n2 mc (f g)
  | .H n1 n2 m mc h => .H n1 n2 m mc (f h)
  | .TF n1 n2 n3 n4 m a => .TF n1 n2 n3 n4 m (f a)
  | .GY n1 n2 n3 n4 m1 m2 r => .GY n1 n2 n3 n4 m1 m2 (f r)
  | .AM n1 n2 m => .AM n1 n2 m
  | .TR n1 n2 m a => .TR n1 n2 m (f a)
  | .Y n1 n2 y => .Y n1 n2 (f y)
  | .Open n1 n2 => .Open n1 n2
  | .TPA n1 n2 n3 n4 m a b c d => .TPA n1 n2 n3 n4 m (f a) (f b) (f c) (f d)
  | .TPY n1 n2 n3 n4 a b c d => .TPY n1 n2 n3 n4 (f a) (f b) (f c) (f d)
  | .HY n1 n2 m n3 n4 mc y isc h => .HY n1 n2 m n3 n4 mc (f y) (f isc) (f h)
  | .SP n1 n2 n3 n4 m a b c => .SP n1 n2 n3 n4 m (f a) (f b) (f c)

/-- the component Lcapy stamps in the phasor analysis: real values as they are, the source's waveform replaced
    by its phasor; the initial-condition term of a capacitor that controls a CCVS plays no role (zero) -/
def phasorCpt : SCpt K (Sinus K) → Cpt (Cx K)
  | (.V n1 n2 m _, w) => .V n1 n2 m (toPh w)
  | (.I n1 n2 _, w) => .I n1 n2 (toPh w)
  | (.HY n1 n2 m n3 n4 mc y _ h, _) => .HY n1 n2 m n3 n4 mc (Cx.ofReal y) 0 (Cx.ofReal h)
  | (c, _) => embed Cx.ofReal c

/-- the netlist at one frequency of a multi-frequency netlist: each source keeps its component at that frequency -/
def atFreq (w : K) (c : SCpt K (K → Sinus K)) : SCpt K (Sinus K) := (c.1, c.2 w)

/-- the DC netlist: a source's constant is its value -/
def dcCpt : SCpt K K → Cpt K
  | (.V n1 n2 m _, w) => .V n1 n2 m w
  | (.I n1 n2 _, w) => .I n1 n2 w
  | (.HY n1 n2 m n3 n4 mc y _ h, _) => .HY n1 n2 m n3 n4 mc y 0 h
  | (c, _) => c

end Lcapy.TDS
