/-
  C17 -- executable model of `LaplaceDomainExpression.response` (lcapy/sexpr.py): the two numerical routes
  `_response_bilinear` (all of 'bilinear', 'tustin', 'trapezoidal', 'gbf', 'euler', 'backward-euler', ...) and
  `_response_impulse_invariance`.

  H(s) = exp(-s T) num(s)/den(s), coefficient lists LOWEST power first (the C13 convention, `Model/DT.lean`).

  * bilinear family: `Ndelay = T/dt` (an integer, otherwise the code switches to a Pade approximation: not
    modelled), `xvector[:-Ndelay]`, the substitution `s = (1/dt)(1 - w)/(alpha + (1 - alpha) w)`, w = 1/z
    (`generalized_bilinear_transform`; the `* scale` / `* dtval` pair cancels: plain substitution), the
    coefficient lists of `Hz.dlti_filter()`, `scipy.signal.lfilter(b, a, x)` from rest, `Ndelay` leading zeros.
    `discretizeGBT`, `lfilterPy` are the C13 definitions (Props/C13b: `discretize_is_substitution`,
    `gbt_documented_map`, `lfilter_eq_series`).
  * impulse invariance: `expr1 = M/A` after the polynomial division `B = Q A + M`; the kernel is sampled at the times
    `iiKernelTimes tv dt` (GENERATED from the source: `arange(Nt) * dtval`), `convolve(x, h)[0:Nt] * dtval`, then
    the direct terms `Q = c0 + c1 s + ...` on the running finite differences of x.  The interpolated delay
    (`interp1d`) is not modelled.
  No Mathlib import.
-/
import Lcapy.Model.DT
import Lcapy.Generated.SimCompanion
namespace Lcapy.Resp
open Lcapy.DT Lcapy.SimBase Lcapy.Gen.Sim

variable {K : Type} [Add K] [Mul K] [Neg K] [Sub K] [Div K] [OfNat K 0] [OfNat K 1] [OfNat K 2]

/-- numerator and denominator (in w = 1/z, lowest power first) of the filter `_response_bilinear` runs -/
def respCoeffs (alpha dt : K) (num den : List K) : List K × List K := discretizeGBT alpha dt num den

/-- `_response_bilinear` with a delay of `ndelay` whole samples -/
def respBilinear (alpha dt : K) (num den : List K) (ndelay : Nat) (x : List K) : List K :=
  let ba := respCoeffs alpha dt num den
  List.replicate ndelay 0 ++ lfilterPy ba.1 ba.2 (if ndelay = 0 then x else x.take (x.length - ndelay))

/-- `diff(x) / dt` followed by `hstack((., 0))` -/
def diffPad (dt : K) : List K → List K
  | a :: b :: t => (b - a) / dt :: diffPad dt (b :: t)
  | [_] => [0]
  | [] => []

def vadd : List K → List K → List K
  | a :: as, b :: bs => (a + b) :: vadd as bs
  | _, _ => []

/-- the direct terms: `for c in reversed(Q.coeffs()): y += c * x; x = diffPad x` (`q` lowest power first) -/
def directTerms (dt : K) : List K → List K → List K → List K
  | [], _, y => y
  | c :: q, x, y => directTerms dt q (diffPad dt x) (vadd y (x.map (fun v => c * v)))

/-- the convolution part of `_response_impulse_invariance`: `kernel` is the impulse response of M/A as a function
    of time, `tv` the caller's time vector -/
def respIIConv (kernel : K → K) (x tv : List K) (dt : K) : List K :=
  ((convolvePy x ((iiKernelTimes tv dt).map kernel)).take tv.length).map (fun v => v * iiScale dt)

/-- `_response_impulse_invariance` without a delay; `q` = the polynomial part Q of H -/
def respII (kernel : K → K) (q : List K) (x tv : List K) (dt : K) : List K :=
  directTerms dt q x (respIIConv kernel x tv dt)

/-- Spec side: the causal convolution sum with the kernel sampled at LAGS, `dt Σ_{k=0}^{n} x[n-k] h(k dt)` -/
def convSum (kernel : K → K) (x : List K) (dt : K) (n : Nat) : K :=
  dt * lsum ((List.range (n + 1)).map (fun k => x.getD (n - k) 0 * kernel (SimBase.natK k * dt)))

end Lcapy.Resp
