/-
  C17 -- hand-written fallback definitions.  The translator (tx_specialfn.py) aliases a
  generated name to the definition of the same name here when it meets source text outside
  the fragment it understands (it then records `translator-unparsed:<name>`); the item is
  then vouched for by the correspondence run only.  Written to the *documented* behaviour.
-/
import Lcapy.Model.EvalBase
import Lcapy.Spec.SpecialFn
namespace Lcapy.EvalFallback
open Lcapy.EvalBase
open Lcapy.Spec.SpecialFn (Fn spec)

def heavisideZero : Rat := 1/2
def unitstepZero : Rat := 1

def num_heaviside (arg : Rat) (zero : Option Rat) : Option Rat :=
  if arg = 0 then some (zero.getD heavisideZero) else spec .heaviside arg
def num_unitstep (arg : Rat) (zero : Option Rat) : Option Rat :=
  if arg = 0 then some (zero.getD unitstepZero) else spec .unitstep arg
def num_unitimpulse (arg : Rat) : Option Rat := spec .unitimpulse arg
def num_dirac (arg : Rat) : Option Rat := spec .dirac arg
def num_rect (arg : Rat) : Option Rat := spec .rect arg
def num_sign (arg : Rat) : Option Rat := spec .sign arg
def num_dtsign (arg : Rat) : Option Rat := spec .dtsign arg
def num_dtrect (arg : Rat) : Option Rat := spec .dtrect arg
def num_tri (arg : Rat) : Option Rat := spec .tri arg
def num_trap (arg alpha : Rat) : Option Rat := spec (.trap alpha) arg
def num_ramp (arg : Rat) : Option Rat := spec .ramp arg
def num_rampstep (arg : Rat) : Option Rat := spec .rampstep arg
def num_sincn (arg : Rat) : Option Rat := spec .sincn arg
def num_sincu (arg : Rat) : Option Rat := spec .sincu arg
def num_sinc (arg : Rat) : Option Rat := spec .sinc arg
def num_psinc (M arg : Rat) : Option Rat := spec (.psinc M) arg

def causalMask (is_causal : Bool) (arg : Rat) : Option Rat :=
  if is_causal = true ∧ arg < 0 then some 0 else none
def causalFlag (is_time self_is_causal : Bool) : Bool := is_time && self_is_causal

def sym_UnitImpulse (nval : Rat) : Option Rat := spec .unitimpulse nval
def sym_UnitStep (nval : Rat) (zero : Option Rat) : Option Rat :=
  if nval = 0 then some (zero.getD unitstepZero) else spec .unitstep nval
/-- the symbolic rect keeps the closed interval (value 1 at the two discontinuities) -/
def sym_rect (val : Rat) : Option Rat := if val < -1/2 ∨ val > 1/2 then some 0 else some 1
def sym_dtrect (val : Rat) : Option Rat := spec .dtrect val
def sym_dtsign (val : Rat) : Option Rat := spec .dtsign val
def sym_sincn (val : Rat) : Option Rat := spec .sincn val
def sym_sincu (val : Rat) : Option Rat := spec .sincu val
def sym_psinc (M val : Rat) : Option Rat := spec (.psinc M) val
def sym_tri (val : Rat) : Option Rat := spec .tri val
def sym_trap (val alpha : Rat) : Option Rat :=
  if alpha = 0 then sym_rect val else spec (.trap alpha) val
def sym_ramp (val : Rat) : Option Rat := spec .ramp val
def sym_rampstep (val : Rat) : Option Rat := spec .rampstep val

end Lcapy.EvalFallback
