/-
  C17 -- executable model of the time-stepping simulator (lcapy/simulator.py `Simulator.__call__/_step`,
  lcapy/mnacpts.py `C._r_model / L._r_model`).

  The code replaces every capacitor / inductor `X n1 n2` by its Thevenin companion
      RXeq n1 d      VXeq d n2          (d = a fresh dummy node, branch current m of VXeq = current through X)
  solves the resulting RESISTIVE circuit by MNA (the C01 model at kind `.time`) once per time step, with
      A[..] += geq(dt_n)   (`SimulatedComponent.stamp`: the admittance pattern of `Y n1 d geq`)
      Z[m]  += veq(dt_n, v_{n-1}, i_{n-1})
  and the previous step's voltage `v1[n-1] - v2[n-1]` and current `i[n-1]` as the only state.  `geq/veq` and the
  step size used at step n (`stepDt`) are GENERATED from the source text (Generated/SimCompanion.lean).
  The linear solver (`numpy.linalg.inv`) is a parameter: its result is checked row by row (`SSMaker.checkSolves`)
  and the model refuses when the check fails, so nothing about the solver is trusted.
  Step 0 leaves every voltage and current at zero (`if n == 0: ... return`, no initial-value problem).
  No Mathlib import.
-/
import Lcapy.Model.StateSpaceMaker
import Lcapy.Generated.SimCompanion
namespace Lcapy.Sim
open Lcapy.MNA Ix Lcapy.Gen.Sim

deriving instance DecidableEq for Lcapy.MNA.Cpt

variable {K : Type} [Add K] [Mul K] [Neg K] [Sub K] [Div K] [OfNat K 0] [OfNat K 1] [OfNat K 2]

inductive Method where
  | trapezoid | backwardEuler
deriving DecidableEq, Repr

/-- a capacitor (`isInd = false`, `val = C`) or inductor (`val = L`) between `n1` and `n2` with the dummy node `d`
    and the branch index `m` of its companion voltage source -/
structure React (K : Type) where
  isInd : Bool
  n1 : Nat
  n2 : Nat
  d : Nat
  m : Nat
  val : K
deriving Repr

/-- `cls.geq(n, dt, v1, v2, i)` for the class selected by the integrator and the component type -/
def geq (meth : Method) (r : React K) (dt v i : K) : K :=
  match meth, r.isInd with
  | .trapezoid, false => geq_CapacitorTrapezoid r.val dt v i
  | .trapezoid, true => geq_InductorTrapezoid r.val dt v i
  | .backwardEuler, false => geq_CapacitorBackwardEuler r.val dt v i
  | .backwardEuler, true => geq_InductorBackwardEuler r.val dt v i

/-- `cls.veq(n, dt, v1, v2, i)`, `v = v1[n-1] - v2[n-1]`, `i = i[n-1]` -/
def veq (meth : Method) (r : React K) (dt v i : K) : K :=
  match meth, r.isInd with
  | .trapezoid, false => veq_CapacitorTrapezoid r.val dt v i
  | .trapezoid, true => veq_InductorTrapezoid r.val dt v i
  | .backwardEuler, false => veq_CapacitorBackwardEuler r.val dt v i
  | .backwardEuler, true => veq_InductorBackwardEuler r.val dt v i

/-- the companion pair as stamped at one step; `s = (v_{n-1}, i_{n-1})` -/
def companion (meth : Method) (r : React K) (dt : K) (s : K × K) : List (Cpt K) :=
  [.Y r.n1 r.d (geq meth r dt s.1 s.2), .V r.d r.n2 r.m (veq meth r dt s.1 s.2)]

def companions (meth : Method) : List (React K) → K → List (K × K) → List (Cpt K)
  | r :: rs, dt, s :: ss => companion meth r dt s ++ companions meth rs dt ss
  | _, _, _ => []

/-- every node argument of a component (ground included for the blocks referred to ground) -/
def cptNodes : Cpt K → List Nat
  | .R n1 n2 _ => [n1, n2]
  | .Cap n1 n2 _ _ => [n1, n2]
  | .Ind n1 n2 _ _ _ _ => [n1, n2]
  | .V n1 n2 _ _ => [n1, n2]
  | .I n1 n2 _ => [n1, n2]
  | .E n1 n2 n3 n4 _ _ _ => [n1, n2, n3, n4]
  | .G n1 n2 n3 n4 _ => [n1, n2, n3, n4]
  | .F n1 n2 _ _ => [n1, n2]
  | .H n1 n2 _ _ _ => [n1, n2]
  | .TF n1 n2 n3 n4 _ _ => [n1, n2, n3, n4]
  | .GY n1 n2 n3 n4 _ _ _ => [n1, n2, n3, n4]
  | .AM n1 n2 _ => [n1, n2]
  | .TR n1 n2 _ _ => [n1, n2]
  | .Y n1 n2 _ => [n1, n2]
  | .Open n1 n2 => [n1, n2]
  | .TPA n1 n2 n3 n4 _ _ _ _ _ => [n1, n2, n3, n4]
  | .TPY n1 n2 n3 n4 _ _ _ _ => [n1, n2, n3, n4]
  | .SP n1 n2 n3 n4 _ _ _ _ => [n1, n2, n3, n4]
  | .HY n1 n2 _ n3 n4 _ _ _ _ => [n1, n2, n3, n4]

def touches (d : Nat) (c : Cpt K) : Bool := (cptNodes c).contains d

/-- `_dummy_node()` made `r.d` fresh: in the whole companion netlist `L` exactly the two companion components of `r`
    touch it, and it is neither ground nor a terminal of `r` -/
def dummyOK [DecidableEq K] (meth : Method) (L : List (Cpt K)) (dt : K) (r : React K) (s : K × K) : Bool :=
  decide (r.d ≠ 0) && decide (r.d ≠ r.n1) && decide (r.d ≠ r.n2) &&
  decide (L.filter (touches r.d) = companion meth r dt s)

def dummiesOK [DecidableEq K] (meth : Method) (L : List (Cpt K)) (dt : K) : List (React K) → List (K × K) → Bool
  | r :: rs, s :: ss => dummyOK meth L dt r s && dummiesOK meth L dt rs ss
  | [], [] => true
  | _, _ => false

/-- no branch current is claimed twice (`C01.WF`) -/
def wfB (L : List (Cpt K)) : Bool := decide ((L.flatMap owned).Nodup)

/-- `v1[n] - v2[n]` and `i[n]` of every reactive component, read off the solved step -/
def readState (x : Ix → K) (rs : List (React K)) : List (K × K) :=
  rs.map (fun r => (vd x r.n1 r.n2, x (br r.m)))

/-- one call of `Simulator._step` for n ≥ 1: `others` = the non-reactive components with their source values at
    `t_n`; `st` = the previous step's (v, i) per reactive component; `dt` = the step size the code uses.
    `none` = refused (malformed companion netlist, or the solver's answer does not solve the system: singular A). -/
def simStep [DecidableEq K] (solver : List (Cpt K) → Ix → K) (meth : Method) (others : List (Cpt K))
    (rs : List (React K)) (dt : K) (st : List (K × K)) : Option (Ix → K) :=
  let L := others ++ companions meth rs dt st
  let x := solver L
  if dummiesOK meth L dt rs st && wfB L && SSMaker.checkSolves L x then some x else none

/-- steps n = 1, 2, ... over the remaining grid `ts`; `tp` = previous time, `t1 t0` = `tv[1], tv[0]` -/
def simRun [DecidableEq K] (solver : List (Cpt K) → Ix → K) (meth : Method) (others : K → List (Cpt K))
    (rs : List (React K)) (t1 t0 : K) : K → List (K × K) → List K → Option (List (Ix → K))
  | _, _, [] => some []
  | tp, st, t :: ts =>
    match simStep solver meth (others t) rs (stepDt t tp t1 t0) st with
    | none => none
    | some x =>
      match simRun solver meth others rs t1 t0 t (readState x rs) ts with
      | none => none
      | some xs => some (x :: xs)

/-- `Simulator.__call__(tv)`: step 0 is all zero -/
def sim [DecidableEq K] (solver : List (Cpt K) → Ix → K) (meth : Method) (others : K → List (Cpt K))
    (rs : List (React K)) : List K → Option (List (Ix → K))
  | [] => some []
  | t0 :: ts =>
    match simRun solver meth others rs (ts.headD t0) t0 t0 (rs.map (fun _ => ((0 : K), (0 : K)))) ts with
    | none => none
    | some xs => some ((fun _ => 0) :: xs)

/-! ### the discretised element laws (Spec side: what one step must satisfy, for the step size `h` actually taken) -/

/-- defect of the discretised law of a reactive element over one step of size `h`:
      trapezoidal   C (v₁ - v₀) - h/2 (i₁ + i₀)        L (i₁ - i₀) - h/2 (v₁ + v₀)
      backward Euler C (v₁ - v₀) - h i₁                 L (i₁ - i₀) - h v₁ -/
def lawDefect (meth : Method) (isInd : Bool) (val h v0 i0 v1 i1 : K) : K :=
  match meth, isInd with
  | .trapezoid, false => val * (v1 - v0) - h / 2 * (i1 + i0)
  | .trapezoid, true => val * (i1 - i0) - h / 2 * (v1 + v0)
  | .backwardEuler, false => val * (v1 - v0) - h * i1
  | .backwardEuler, true => val * (i1 - i0) - h * v1

end Lcapy.Sim
