/-
  C16 -- two small executable models besides the netlist cache machine (Mathlib-free):

  * `TCache`: the process-wide memo table of a `Transformer` (transformer.py `doit`):
      key = self.key(expr, var, conjvar, **kwargs); if key in self.cache: return cache[key]
      ... result = <compute> ; self.cache[key] = result
    with `clear_cache()`.  The key function of each transformer class is GENERATED
    (`Gen.Caches.transformers`: which kwargs enter the key, with their defaults).
  * `Combine`: what `_do_simplify_combine` does with a group that arrives as `list(subset)` of a
    Python set, i.e. in hash order: the first name hosts the combined component, the others
    become wires (series) or disappear (parallel).
-/
namespace Lcapy.TCache

inductive Req (A : Type) where
  | tr (a : A)
  | clear
deriving Repr

variable {A K R : Type} [DecidableEq K]

def lookup (c : List (K × R)) (k : K) : Option R := (c.find? (fun p => p.1 = k)).map (·.2)

def stepT (key : A → K) (f : A → R) (c : List (K × R)) : Req A → List (K × R) × Option R
  | .tr a =>
    match lookup c (key a) with
    | some r => (c, some r)
    | none => ((key a, f a) :: c, some (f a))
  | .clear => ([], none)

def runT (key : A → K) (f : A → R) : List (K × R) → List (Req A) → List (Option R)
  | _, [] => []
  | c, r :: rs => (stepT key f c r).2 :: runT key f (stepT key f c r).1 rs

/-- the same request stream answered without any cache -/
def uncached (f : A → R) : Req A → Option R
  | .tr a => some (f a)
  | .clear => none

/-- the key a transformer builds from the keyword arguments of a call:
    for every `(name, default)` of its `key()`, the passed value or the default -/
def keyOf (keyPairs : List (String × String)) (expr : String) (kwargs : List (String × String)) : String × List String :=
  (expr, keyPairs.map (fun p => (kwargs.lookup p.1).getD p.2))

end Lcapy.TCache

namespace Lcapy.Combine

structure Cpt where
  name : String
  n1 : String
  n2 : String
  val : Nat
deriving DecidableEq, Repr

def total (g : List Cpt) : Nat := (g.map (·.val)).foldr (· + ·) 0

/-- series group `g` in iteration order: `net.add(<combined at the first one's nodes>)`,
    `net.remove(first)`, every other member is replaced by a wire across its own nodes -/
def combineSeries (newname : String) : List Cpt → List (String × String × String × Nat)
  | [] => []
  | c :: cs => (newname, c.n1, c.n2, total (c :: cs)) :: cs.map (fun x => ("W", x.n1, x.n2, 0))

/-- parallel group: the others are dropped -/
def combineParallel (newname : String) : List Cpt → List (String × String × String × Nat)
  | [] => []
  | c :: cs => [(newname, c.n1, c.n2, total (c :: cs))]

end Lcapy.Combine
