/-
  The prime field F_P, P = 2305843010009098561 = 2882880 * 799840093937 + 1 (62 bits), used ONLY by the
  C13 driver to run the DFT model and the defining DFT sum where N-th roots of unity exist
  (2882880 = 4 * lcm(1..16) divides P - 1).  The theorems are for every field; this executable
  instance is part of the trusted base of the harness (like `Rat` for the other requests).
  Division by zero is totalised to 0; the DFT model tests its denominators itself.
  No Mathlib.
-/
namespace Lcapy

def FP : Nat := 2305843010009098561

structure Fp where
  v : Nat
deriving DecidableEq

namespace Fp

def powModGo : Nat → Nat → Nat → Nat → Nat
  | 0, _, _, acc => acc
  | fuel + 1, b, e, acc =>
    if e = 0 then acc
    else powModGo fuel (b * b % FP) (e / 2) (if e % 2 = 1 then acc * b % FP else acc)

def powMod (b e : Nat) : Nat := powModGo 80 (b % FP) e 1

def ofNat (n : Nat) : Fp := ⟨n % FP⟩
def ofInt (i : Int) : Fp := ⟨(i % (FP : Int)).toNat⟩

instance : Add Fp := ⟨fun a b => ⟨(a.v + b.v) % FP⟩⟩
instance : Neg Fp := ⟨fun a => ⟨(FP - a.v % FP) % FP⟩⟩
instance : Sub Fp := ⟨fun a b => ⟨(a.v + (FP - b.v % FP)) % FP⟩⟩
instance : Mul Fp := ⟨fun a b => ⟨a.v * b.v % FP⟩⟩
def inv (a : Fp) : Fp := ⟨powMod a.v (FP - 2)⟩
instance : Div Fp := ⟨fun a b => a * inv b⟩
instance (n : Nat) : OfNat Fp n := ⟨ofNat n⟩
instance : ToString Fp := ⟨fun a => toString a.v⟩

/-- `p`, `-p`, `p/q` reduced mod P; a bare natural ≥ 0 is taken mod P -/
def parse (s : String) : Option Fp :=
  match s.splitOn "/" with
  | [n] => n.toInt?.map ofInt
  | [n, d] => do
      let a ← n.toInt?
      let b ← d.toNat?
      if b % FP = 0 then none else some (ofInt a / ofNat b)
  | _ => none

end Fp
end Lcapy
