/-
  Side conditions of `ParSer.simplify` as executable predicates (property C07, round 3).

  `_combine` divides in four of its rules (G+G, C+C, R|R, L|L); the relation of the pair is
  preserved only where those divisions are defined (`combGuardB`).  `Net.simpGuard s n` walks through
  `Net.simplify n` exactly as the model does (same recursion, same intermediate lists) and says that
  every combination actually performed satisfies its side condition at the point `s`.
  No Mathlib import.
-/
import Lcapy.Model.OnePort
namespace Lcapy.OnePort

variable {K : Type} [Add K] [Mul K] [Neg K] [Sub K] [Div K] [OfNat K 0] [OfNat K 1] [DecidableEq K]

/-- the divisions of the rule are defined and reactive elements are evaluated away from s = 0 -/
def combGuardB (s : K) : Op → Leaf K → Leaf K → Bool
  | .ser, .G g1, .G g2 => decide (g1 ≠ 0) && decide (g2 ≠ 0) && decide (g1 + g2 ≠ 0)
  | .ser, .C c1 _, .C c2 _ => decide (s ≠ 0) && decide (c1 ≠ 0) && decide (c2 ≠ 0) && decide (c1 + c2 ≠ 0)
  | .par, .R r1, .R r2 => decide (r1 ≠ 0) && decide (r2 ≠ 0) && decide (r1 + r2 ≠ 0)
  | .par, .L l1 _, .L l2 _ => decide (s ≠ 0) && decide (l1 ≠ 0) && decide (l2 ≠ 0) && decide (l1 + l2 ≠ 0)
  | _, _, _ => true

/-- guard of the inner loop: every `_combine` that returns a component is within its side condition -/
def absorbGuard (s : K) (op : Op) : Leaf K → List (Net K) → Bool
  | _, [] => true
  | acc, .leaf x :: t =>
    match combine op acc x with
    | .one y => combGuardB s op acc x && absorbGuard s op y t
    | _ => absorbGuard s op acc t
  | acc, _ :: t => absorbGuard s op acc t

/-- guard of the outer loop (same fuel and the same intermediate lists as `scan`) -/
def scanGuard (s : K) (op : Op) : Nat → List (Net K) → Bool
  | 0, _ => true
  | _, [] => true
  | f + 1, .leaf a :: t =>
      absorbGuard s op a t &&
        (match absorb op a t with
         | .ok (_, t', _) => scanGuard s op f t'
         | .error _ => true)
  | f + 1, _ :: t => scanGuard s op f t

mutual
def Net.simpGuard (s : K) : Net K → Bool
  | .leaf _ => true
  | .ser as =>
      flattenGuard s as &&
        (match flatten .ser as with
         | .ok (flat, _) => scanGuard s .ser flat.length flat
         | .error _ => true)
  | .par as =>
      flattenGuard s as &&
        (match flatten .par as with
         | .ok (flat, _) => scanGuard s .par flat.length flat
         | .error _ => true)
def flattenGuard (s : K) : List (Net K) → Bool
  | [] => true
  | .leaf _ :: t => flattenGuard s t
  | n :: t => n.simpGuard s && flattenGuard s t
end

end Lcapy.OnePort
