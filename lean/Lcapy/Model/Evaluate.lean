/-
  C17 -- executable model of `Expr.evaluate` (lcapy/expr.py) on the rational / piecewise fragment.

  * `numericDef`   which numeric definition lambdify ends up calling for each function
                   (generated `numFor_*` = the replacement dict of evaluate_expr)
  * `symbolicDef`  what exact substitution gives (generated `sym_*` = extrafunctions.py `eval`;
                   Heaviside / DiracDelta / sign are SymPy's own and are read by hand)
  * `E`            expression AST, `evalNumeric` (lambdified function: eager `select` for Piecewise,
                   `default=nan`), `evalSymbolic` (SymPy `subs`: lazy Piecewise), `specEval` (the
                   mathematical value with the Spec functions)
  * `funcScalar`   the inner `func`: causal mask, then the lambdified function
  * `evaluateArg`  scalar / list dispatch of evaluate_expr
  * `isCausal`     model of acdc.CausalChecker on sums of products (how `is_causal` is inferred)
  No Mathlib import.
-/
import Lcapy.Generated.SpecialFn
import Lcapy.Spec.SpecialFn
namespace Lcapy.Evaluate
open Lcapy.EvalBase
open Lcapy.Spec.SpecialFn (Fn spec disc inDomain)
open Lcapy.Gen.SpecialFn

/-- SymPy's default `H0` carried by every `Heaviside(x)` object (`Heaviside(x).args = (x, 1/2)`);
lambdify prints `Heaviside(t, 1/2)`, so the numeric `heaviside` receives it as `zero`. -/
def sympyH0 : Rat := 1/2

/-- numeric definition reached through the lambdify replacement dict -/
def numericDef : Fn → Rat → Option Rat
  | .heaviside, x => numFor_Heaviside x (some sympyH0)
  | .dirac, x => numFor_DiracDelta x
  | .sign, x => numFor_sign x
  | .rect, x => numFor_rect x
  | .tri, x => numFor_tri x
  | .ramp, x => numFor_ramp x
  | .rampstep, x => numFor_rampstep x
  | .trap a, x => numFor_trap x a
  | .unitstep, x => numFor_UnitStep x none
  | .unitimpulse, x => numFor_UnitImpulse x
  | .dtrect, x => numFor_dtrect x
  | .dtsign, x => numFor_dtsign x
  | .sincn, x => numFor_sincn x
  | .sincu, x => numFor_sincu x
  | .sinc, x => numFor_sinc x
  | .psinc M, x => numFor_psinc M x

/-- SymPy `Heaviside(x)` at a rational (H0 = 1/2) -/
def sympyHeaviside (x : Rat) : Option Rat := if x < 0 then some 0 else if x = 0 then some sympyH0 else some 1
/-- SymPy `DiracDelta(x)`: 0 for x ≠ 0, stays `DiracDelta(0)` at 0 -/
def sympyDirac (x : Rat) : Option Rat := if x = 0 then none else some 0
/-- SymPy `sign(x)` -/
def sympySign (x : Rat) : Option Rat := if x < 0 then some (-1) else if x = 0 then some 0 else some 1

/-- value of exact substitution of a rational number -/
def symbolicDef : Fn → Rat → Option Rat
  | .heaviside, x => sympyHeaviside x
  | .dirac, x => sympyDirac x
  | .sign, x => sympySign x
  | .rect, x => sym_rect x
  | .tri, x => sym_tri x
  | .ramp, x => sym_ramp x
  | .rampstep, x => sym_rampstep x
  | .trap a, x => sym_trap x a
  | .unitstep, x => sym_UnitStep x none
  | .unitimpulse, x => sym_UnitImpulse x
  | .dtrect, x => sym_dtrect x
  | .dtsign, x => sym_dtsign x
  | .sincn, x => sym_sincn x
  | .sincu, x => sym_sincu x
  | .sinc, x => sym_parsedSinc x
  | .psinc M, x => sym_psinc M x

/-! ### expressions -/

inductive Rel where
  | lt | le | gt | ge | eq | ne
deriving DecidableEq, Repr

def Rel.holds : Rel → Rat → Rat → Bool
  | .lt, a, b => a < b
  | .le, a, b => a ≤ b
  | .gt, a, b => a > b
  | .ge, a, b => a ≥ b
  | .eq, a, b => a == b
  | .ne, a, b => a != b

/-- rational functions of the variable, special functions, Piecewise.
`pw r l rhs thn els` is one `(thn, l r rhs)` pair followed by the remaining pairs `els`;
`nan` ends a Piecewise without a catch-all (lambdify: `select(..., default=nan)`). -/
inductive E where
  | var
  | const (c : Rat)
  | add (a b : E)
  | sub (a b : E)
  | mul (a b : E)
  | div (a b : E)
  | neg (a : E)
  | pow (a : E) (n : Nat)
  | app (f : Fn) (a : E)
  | pw (r : Rel) (l rhs thn els : E)
  | nan
deriving Repr

/-- value / not-a-number (exhausted Piecewise) / outside the model (pole, inf, transcendental value,
error raised inside the lambdified function: the real code then enters its SymPy `limit` fallbacks) -/
inductive Out where
  | val (v : Rat)
  | nan
  | other
deriving DecidableEq, Repr

def Out.ofOption : Option Rat → Out
  | some v => .val v
  | none => .other

/-- binary arithmetic: `other` dominates, then `nan` (IEEE / SymPy nan propagation) -/
def arith2 (f : Rat → Rat → Rat) : Out → Out → Out
  | .val a, .val b => .val (f a b)
  | .other, _ => .other
  | _, .other => .other
  | _, _ => .nan

def divOut : Out → Out → Out
  | .val a, .val b => if b = 0 then .other else .val (a / b)
  | .other, _ => .other
  | _, .other => .other
  | .nan, .val b => if b = 0 then .other else .nan
  | _, _ => .nan

def arith1 (f : Rat → Rat) : Out → Out
  | .val a => .val (f a)
  | o => o

def rpow (a : Rat) : Nat → Rat
  | 0 => 1
  | n + 1 => rpow a n * a

def appOut (d : Fn → Rat → Option Rat) (f : Fn) : Out → Out
  | .val v => Out.ofOption (d f v)
  | _ => .other

/-- NumPy `select([cond], [thn], default=els)`: both branches are computed before selecting -/
def selectEager (r : Rel) (l rhs thn els : Out) : Out :=
  match l, rhs with
  | .val a, .val b =>
    if thn = .other ∨ els = .other then .other
    else if r.holds a b then thn else els
  | _, _ => .other

/-- SymPy `Piecewise._eval_subs`: pairs are visited in order, an expression is only substituted when
its condition is not False, and the walk stops at the first True condition -/
def selectLazy (r : Rel) (l rhs : Out) (thn els : Unit → Out) : Out :=
  match l, rhs with
  | .val a, .val b => if r.holds a b then thn () else els ()
  | _, _ => .other

/-- the lambdified function with Lcapy's numeric definitions -/
def evalNumeric : E → Rat → Out
  | .var, x => .val x
  | .const c, _ => .val c
  | .add a b, x => arith2 (· + ·) (evalNumeric a x) (evalNumeric b x)
  | .sub a b, x => arith2 (· - ·) (evalNumeric a x) (evalNumeric b x)
  | .mul a b, x => arith2 (· * ·) (evalNumeric a x) (evalNumeric b x)
  | .div a b, x => divOut (evalNumeric a x) (evalNumeric b x)
  | .neg a, x => arith1 (fun v => -v) (evalNumeric a x)
  | .pow a n, x => arith1 (fun v => rpow v n) (evalNumeric a x)
  | .app f a, x => appOut numericDef f (evalNumeric a x)
  | .pw r l rhs thn els, x =>
      selectEager r (evalNumeric l x) (evalNumeric rhs x) (evalNumeric thn x) (evalNumeric els x)
  | .nan, _ => .nan

/-- exact substitution `expr.subs(var, x)` with Lcapy's symbolic definitions -/
def evalSymbolic : E → Rat → Out
  | .var, x => .val x
  | .const c, _ => .val c
  | .add a b, x => arith2 (· + ·) (evalSymbolic a x) (evalSymbolic b x)
  | .sub a b, x => arith2 (· - ·) (evalSymbolic a x) (evalSymbolic b x)
  | .mul a b, x => arith2 (· * ·) (evalSymbolic a x) (evalSymbolic b x)
  | .div a b, x => divOut (evalSymbolic a x) (evalSymbolic b x)
  | .neg a, x => arith1 (fun v => -v) (evalSymbolic a x)
  | .pow a n, x => arith1 (fun v => rpow v n) (evalSymbolic a x)
  | .app f a, x => appOut symbolicDef f (evalSymbolic a x)
  | .pw r l rhs thn els, x =>
      selectLazy r (evalSymbolic l x) (evalSymbolic rhs x) (fun _ => evalSymbolic thn x) (fun _ => evalSymbolic els x)
  | .nan, _ => .nan

/-- the mathematical value: the Spec functions, Piecewise read as a case distinction -/
def specEval : E → Rat → Out
  | .var, x => .val x
  | .const c, _ => .val c
  | .add a b, x => arith2 (· + ·) (specEval a x) (specEval b x)
  | .sub a b, x => arith2 (· - ·) (specEval a x) (specEval b x)
  | .mul a b, x => arith2 (· * ·) (specEval a x) (specEval b x)
  | .div a b, x => divOut (specEval a x) (specEval b x)
  | .neg a, x => arith1 (fun v => -v) (specEval a x)
  | .pow a n, x => arith1 (fun v => rpow v n) (specEval a x)
  | .app f a, x => appOut spec f (specEval a x)
  | .pw r l rhs thn els, x =>
      selectLazy r (specEval l x) (specEval rhs x) (fun _ => specEval thn x) (fun _ => specEval els x)
  | .nan, _ => .nan

/-- `x` is a regular point of `e`: no special function sits on one of its discontinuities (or outside
its documented parameter domain, or at a point where its value is not rational), no denominator
vanishes -- in *any* branch --, and conditions compare numbers. -/
def regular : E → Rat → Bool
  | .var, _ => true
  | .const _, _ => true
  | .add a b, x => regular a x && regular b x
  | .sub a b, x => regular a x && regular b x
  | .mul a b, x => regular a x && regular b x
  | .div a b, x => regular a x && regular b x && (specEval b x != .val 0)
  | .neg a, x => regular a x
  | .pow a _, x => regular a x
  | .app f a, x =>
      regular a x && inDomain f &&
      (match specEval a x with
       | .val v => !(disc f v) && (spec f v).isSome
       | _ => false)
  | .pw _ l rhs thn els, x =>
      regular l x && regular rhs x && regular thn x && regular els x &&
      (match specEval l x, specEval rhs x with
       | .val _, .val _ => true
       | _, _ => false)
  | .nan, _ => true

/-! ### the inner `func`, and scalar / list dispatch -/

/-- `x` sits on the boundary of a Piecewise condition somewhere in `e` (both sides of a comparison are equal) -/
def onBoundary : E → Rat → Bool
  | .var, _ => false
  | .const _, _ => false
  | .nan, _ => false
  | .add a b, x => onBoundary a x || onBoundary b x
  | .sub a b, x => onBoundary a x || onBoundary b x
  | .mul a b, x => onBoundary a x || onBoundary b x
  | .div a b, x => onBoundary a x || onBoundary b x
  | .neg a, x => onBoundary a x
  | .pow a _, x => onBoundary a x
  | .app _ a, x => onBoundary a x
  | .pw _ l rhs thn els, x =>
      (match specEval l x, specEval rhs x with
       | .val a, .val b => a == b
       | _, _ => false)
      || onBoundary l x || onBoundary rhs x || onBoundary thn x || onBoundary els x

/-- `func(arg)`: causal mask first, otherwise the lambdified function.  A NaN result sends the real code
into `complex(expr.limit(var, arg))`: away from every condition boundary the limit of an exhausted
Piecewise is again nan and the call ends with an exception (`nan` here); on a boundary a one-sided limit
may exist, which the model does not exhibit (`other`). -/
def funcScalar (isCausal : Bool) (e : E) (x : Rat) : Out :=
  match causalMask isCausal x with
  | some v => .val v
  | none =>
    match evalNumeric e x with
    | .nan => if onBoundary e x then .other else .nan
    | o => o

inductive Arg where
  | scalar (x : Rat)
  | list (xs : List Rat)
deriving Repr

/-- result of `evaluate`: a scalar outcome, an array of numbers, or an exception -/
inductive Res where
  | scalar (o : Out)
  | array (vs : List Rat)
  | error
deriving DecidableEq, Repr

def valOf? : Out → Option Rat
  | .val v => some v
  | _ => none

/-- `evaluate_expr`: `arg[0]` decides scalar/array; the first element is evaluated once "to flush out
weirdness" (any exception there is re-raised as RuntimeError), then every element is evaluated with the
same scalar `func`.  A `nan` / `other` outcome of an element stands for the exception the real code
ends with when its `limit` fallback cannot produce a number. -/
def evaluateArg (isCausal : Bool) (e : E) : Arg → Res
  | .scalar x => .scalar (funcScalar isCausal e x)
  | .list [] => .error
  | .list (x0 :: xs) =>
    match funcScalar isCausal e x0 with
    | .val _ =>
      match (x0 :: xs).mapM (fun x => valOf? (funcScalar isCausal e x)) with
      | some vs => .array vs
      | none => .error
    | _ => .error

/-- a result of a one-sided transform: `Piecewise((a, var ≥ 0))` -/
def guarded (a : E) : E := .pw .ge .var (.const 0) a .nan

/-! ### how `is_causal` is inferred: acdc.CausalChecker on an expanded sum of products -/

inductive Factor where
  | fn (f : Fn) (a b : Rat)      -- f(a * var + b)
  | plain (e : E)
deriving Repr

def Factor.toE : Factor → E
  | .fn f a b => .app f (.add (.mul (.const a) .var) (.const b))
  | .plain e => e

def isCausalFn : Fn → Bool
  | .heaviside | .dirac | .unitimpulse | .unitstep => true
  | _ => false

/-- `_has_causal_factor`: scan the factors; a Heaviside/DiracDelta/UnitImpulse/UnitStep of the bare
variable, or of `a*var + b` with `a > 0`, `b ≤ 0`, makes the term causal; a constant argument
(`len(coeffs) != 2`) ends the scan with False. -/
def hasCausalFactor : List Factor → Bool
  | [] => false
  | .plain _ :: rest => hasCausalFactor rest
  | .fn f a b :: rest =>
    if !(isCausalFn f) then hasCausalFactor rest
    else if a == 1 && b == 0 then true
    else if a == 0 then false
    else if a > 0 && b ≤ 0 then true
    else hasCausalFactor rest

def isCausal (terms : List (List Factor)) : Bool := terms.all hasCausalFactor

def prodE : List Factor → E
  | [] => .const 1
  | f :: rest => .mul f.toE (prodE rest)

def sumE : List (List Factor) → E
  | [] => .const 0
  | t :: rest => .add (prodE t) (sumE rest)

end Lcapy.Evaluate
