/-
  Complex numbers a + b·j over an arbitrary carrier `K` (the phasor domain of C14), as a plain structure with
  the textbook rectangular arithmetic.  Over a field, `z / w` multiplies by the conjugate and divides by |w|²;
  with the totalised `x / 0 = 0` of a field, `z / 0 = 0` (the same totalisation, never relied on by the
  theorems that name a non-zero hypothesis).  No Mathlib import: the driver instantiates `Cx Rat`.
-/
namespace Lcapy

structure Cx (K : Type) where
  re : K
  im : K
deriving DecidableEq, Repr

namespace Cx
variable {K : Type} [Add K] [Mul K] [Neg K] [Sub K] [Div K] [OfNat K 0]

instance : Add (Cx K) := ⟨fun z w => ⟨z.re + w.re, z.im + w.im⟩⟩
instance : Sub (Cx K) := ⟨fun z w => ⟨z.re - w.re, z.im - w.im⟩⟩
instance : Neg (Cx K) := ⟨fun z => ⟨-z.re, -z.im⟩⟩
instance : Mul (Cx K) := ⟨fun z w => ⟨z.re * w.re - z.im * w.im, z.re * w.im + z.im * w.re⟩⟩
/-- |w|² -/
def normSq (w : Cx K) : K := w.re * w.re + w.im * w.im
instance : Div (Cx K) := ⟨fun z w =>
  ⟨(z.re * w.re + z.im * w.im) / normSq w, (z.im * w.re - z.re * w.im) / normSq w⟩⟩
instance {n : Nat} [OfNat K n] : OfNat (Cx K) n := ⟨⟨OfNat.ofNat n, 0⟩⟩

/-- a real number as a complex number -/
def ofReal (r : K) : Cx K := ⟨r, 0⟩
/-- j·ω -/
def jw (w : K) : Cx K := ⟨0, w⟩
/-- complex conjugate -/
def conj (z : Cx K) : Cx K := ⟨z.re, -z.im⟩

end Cx
end Lcapy
