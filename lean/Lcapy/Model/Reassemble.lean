/-
  MODEL of the Laplace-domain side of a `Superposition` (lcapy/superposition.py `laplace()`,
  lcapy/phasor.py `PhasorDomainExpression.laplace()`/`time()`, lcapy/cexpr.py `laplace()`):
  the (s) form of a superposition is the SUM of the transforms of its parts,
      dc c            ↦ c / s
      phasor a + j b  ↦ transform of Re((a + j b) e^{jωt}) = a cos ωt − b sin ωt, i.e. (a s − b ω)/(s² + ω²)
      transient       ↦ its own transform
  `decompLap` is that sum for a decomposition `Decomp` (Model/Decompose.lean); `sigTerm`/`sigDecomp`
  give the formal signals (Spec/Signal.lean) the terms denote, over a carrier with a square root `j` of −1.
  No Mathlib import.
-/
import Lcapy.Model.Decompose
import Lcapy.Model.ExpPoly
namespace Lcapy.Decompose
open Lcapy.Laplace (ExpPoly)
variable {K : Type} [Add K] [Mul K] [Neg K] [Sub K] [Div K] [OfNat K 0] [OfNat K 1]

/-- closed-form unilateral transform of `Re((a + j b) e^{jωt}) = a cos ωt − b sin ωt` at the point `s` -/
def phasorLap (a b w s : K) : K := (a * s - b * w) / (s * s + w * w)

/-- transform of one term of a source expression; `XL i` is the transform of the i-th transient waveform at `s`.
    (`Term.ac w a b` is `a cos ωt + b sin ωt`: phasor `a − j b`.) -/
def termLap (XL : Nat → K) (s : K) : Term K → K
  | .dc c => c / s
  | .ac w a b => phasorLap a (-b) w s
  | .tr i c => c * XL i

/-- `Superposition.laplace()` of a decomposition: dc/s + Σ phasor transforms + Σ transient transforms -/
def decompLap (XL : Nat → K) (s : K) (d : Decomp K) : K :=
  d.dc / s + sumK (d.ac.map (fun p => phasorLap p.2.1 (-p.2.2) p.1 s)) + sumK (d.tr.map (fun p => p.2 * XL p.1))

/-- the phasor a source contributes to the group of angular frequency `w` (`select(w)`): its accumulated entry, or 0 -/
def acPart [DecidableEq K] (d : Decomp K) (w : K) : K × K :=
  match d.ac.find? (fun p => decide (p.1 = w)) with
  | some p => p.2
  | none => (0, 0)

/-- the transform of the transient part a source contributes to the 'transient' group -/
def trPart (XL : Nat → K) (d : Decomp K) : K := sumK (d.tr.map (fun p => p.2 * XL p.1))

/-- the parts separately: (dc/s, [(ω, transform of the ω-phasor)], transform of the transient part) -/
def decompLapParts (XL : Nat → K) (s : K) (d : Decomp K) : K × List (K × K) × K :=
  (d.dc / s, d.ac.map (fun p => (p.1, phasorLap p.2.1 (-p.2.2) p.1 s)), sumK (d.tr.map (fun p => p.2 * XL p.1)))

/-! ### the formal signals the terms denote (carrier with `j`, `j² = −1`) -/

/-- `Re((a + j b) e^{jωt}) = ((a + j b) e^{jωt} + (a − j b) e^{−jωt}) / 2` as a formal signal on `t ≥ 0` -/
def phasorSig (j a b w : K) : ExpPoly K :=
  [.ep ((a + j * b) / (1 + 1)) 0 (j * w) 0, .ep ((a - j * b) / (1 + 1)) 0 (-(j * w)) 0]

/-- a constant seen by the unilateral transform -/
def dcSig (c : K) : ExpPoly K := [.ep c 0 0 0]

def sigTerm (j : K) (X : Nat → ExpPoly K) : Term K → ExpPoly K
  | .dc c => dcSig c
  | .ac w a b => phasorSig j a (-b) w
  | .tr i c => Laplace.smul c (X i)

/-- `Superposition.time()` of a decomposition: every part converted to the time domain and added -/
def sigDecomp (j : K) (X : Nat → ExpPoly K) (d : Decomp K) : ExpPoly K :=
  dcSig d.dc ++ d.ac.flatMap (fun p => phasorSig j p.2.1 (-p.2.2) p.1) ++ d.tr.flatMap (fun p => Laplace.smul p.2 (X p.1))

end Lcapy.Decompose
