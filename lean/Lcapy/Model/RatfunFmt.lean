/-
  Executable model of the remaining re-formatting methods of lcapy/expr.py, lcapy/utils.py and lcapy/ratfun.py
  (C11, round 3).  No Mathlib import (linked into `drv_c11`).

    coefficient lists      `Poly.all_coeffs`, `Expr.coeffs`, `Expr.normcoeffs`, `Ratfun.coeffs`, `Expr.ba`
    degrees                `Ratfun.degree`, `Ndegree`, `Ddegree`, `is_strictly_proper`  (−∞ for the zero polynomial)
    N / D                  `utils.as_N_D(monic_denominator=True)`
    top and bottom         `Expr.divide_top_and_bottom`, `Expr.multiply_top_and_bottom` (any factor expression)
    rationalisation        `Expr.rationalize_denominator` (complex polynomials in a REAL variable: ω or f)
    reciprocal variable    `Expr.recippartfrac`
    simplify loops         `Expr.simplify_factors`, `Expr.simplify_terms` (SymPy's simplifier is an opaque function)
    expandcanonical        with the enumeration order read from the source
    root dictionaries      the merging loop of `Expr.poles` / `Ratfun.poles`, `_fmt_roots(aslist=True)`

  Everything the source code decides by a name, an operator or an index (which coefficient normalises, which
  polynomial a degree is taken of, what a side is divided by …) is a PARAMETER of the model, given as the
  Python `ast` string / integer that harness/translate/tx_ratfun.py (scan_fmt) reads from the source text into
  Lcapy/Generated/RatfunFmtSrc.lean.  An unknown string makes the model answer `none` (or the neutral value),
  so a theorem stated for the generated constants fails to build when the source changes meaning.
-/
import Lcapy.Model.Ratfun
namespace Lcapy.RatfunFmt
open Lcapy.Poly Lcapy.Ratfun

variable {K : Type} [Add K] [Mul K] [Neg K] [Sub K] [Div K] [OfNat K 0] [OfNat K 1]

/-! ## coefficient lists (highest power first, as SymPy returns them) -/

/-- value of a HIGHEST-POWER-FIRST coefficient list (Horner, left to right) -/
def evalHigh (cs : List K) (x : K) : K := cs.foldl (fun acc c => acc * x + c) 0

/-- Python indexing `c[i]` (negative `i` counts from the end); `0` when out of range (Python raises) -/
def pyIndex (c : List K) (i : Int) : K :=
  if i ≥ 0 then c.getD i.toNat 0
  else if (-i).toNat ≤ c.length then c.getD (c.length - (-i).toNat) 0 else 0

section dec
variable [DecidableEq K]

/-- `Poly.all_coeffs()`: highest power first, no leading zeros; `[0]` for the zero polynomial -/
def allCoeffs (p : List K) : List K :=
  match trim p with
  | [] => [0]
  | q => q.reverse

/-- `Expr.coeffs(norm=True)` / `normcoeffs()`: `[c1 / c[idx] for c1 in c]` -/
def normCoeffs (idx : Int) (p : List K) : List K :=
  let c := allCoeffs p
  c.map (fun c1 => c1 / pyIndex c idx)

/-- the polynomial a `Ratfun` attribute names -/
def polyNamed (R : RF K) (nm : String) : Option (List K) :=
  if nm == "Bpoly" then some R.B else if nm == "Apoly" then some R.A else none

/-- `Ratfun.coeffs()`: `return <n0>.all_coeffs(), <n1>.all_coeffs()` -/
def rfCoeffs (names : List String) (R : RF K) : Option (List K × List K) :=
  match names with
  | [n0, n1] =>
    match polyNamed R n0, polyNamed R n1 with
    | some p, some q => some (allCoeffs p, allCoeffs q)
    | _, _ => none
  | _ => none

/-- the polynomial behind `self.N` / `self.D` of a delay-free, undef-free expression -/
def sideNamed (R : RF K) (nm : String) : Option (List K) :=
  if nm == "N" then some R.B else if nm == "D" then some R.A else none

/-- `Expr.ba`: `a = self.<an>.coeffs(); b = self.<bn>.coeffs(); a0 = a[idx]; if a0 != 1: divide both by a0`.
    Returns `(b, a)`. -/
def ba (an bn : String) (idx : Int) (R : RF K) : Option (List K × List K) :=
  match sideNamed R an, sideNamed R bn with
  | some pa, some pb =>
    let a := allCoeffs pa
    let b := allCoeffs pb
    let a0 := pyIndex a idx
    if a0 = 1 then some (b, a) else some (b.map (fun x => x / a0), a.map (fun x => x / a0))
  | _, _ => none

/-! ## degrees -/

/-- SymPy's `Poly.degree()`: `−∞` for the zero polynomial -/
inductive Deg where
  | negInf
  | fin (n : Nat)
deriving DecidableEq, Repr

def Deg.lt : Deg → Deg → Bool
  | .negInf, .negInf => false
  | .negInf, .fin _ => true
  | .fin _, .negInf => false
  | .fin a, .fin b => decide (a < b)

def Deg.max (a b : Deg) : Deg := if Deg.lt a b then b else a
def Deg.min (a b : Deg) : Deg := if Deg.lt a b then a else b

def Deg.toString : Deg → String
  | .negInf => "-oo"
  | .fin n => s!"{n}"

/-- degree of a coefficient list: index of the last non-zero coefficient -/
def sdegree (p : List K) : Deg :=
  match trim p with
  | [] => .negInf
  | q => .fin (q.length - 1)

/-- `self.<nm>.degree()` -/
def degNamed (R : RF K) (nm : String) : Option Deg := (polyNamed R nm).map sdegree

/-- `Ratfun.degree`: `<fn>(self.<a0>.degree(), self.<a1>.degree())` -/
def rfDegree (fn : String) (args : List String) (R : RF K) : Option Deg :=
  match args with
  | [a0, a1] =>
    match degNamed R a0, degNamed R a1 with
    | some d0, some d1 =>
      if fn == "max" then some (Deg.max d0 d1) else if fn == "min" then some (Deg.min d0 d1) else none
    | _, _ => none
  | _ => none

/-- `self.Ndegree` / `self.Ddegree` with the polynomial each of them reads -/
def propNamed (nArg dArg : String) (R : RF K) (nm : String) : Option Deg :=
  if nm == "Ndegree" then degNamed R nArg else if nm == "Ddegree" then degNamed R dArg else none

def cmpNamed (op : String) (a b : Deg) : Option Bool :=
  if op == "Gt" then some (Deg.lt b a) else if op == "Lt" then some (Deg.lt a b)
  else if op == "GtE" then some (!Deg.lt a b) else if op == "LtE" then some (!Deg.lt b a) else none

/-- `Ratfun.is_strictly_proper`: `self.<l> <op> self.<r>` -/
def isStrictlyProper (nArg dArg : String) (src : List String) (R : RF K) : Option Bool :=
  match src with
  | [l, op, r] =>
    match propNamed nArg dArg R l, propNamed nArg dArg R r with
    | some a, some b => cmpNamed op a b
    | _, _ => none
  | _ => none

/-! ## `utils.as_N_D(monic_denominator=True)` -/

/-- `Dpoly.<nm>()` for the coefficient used as divisor of the numerator -/
def coeffNamed (A : List K) (nm : String) : Option K :=
  if nm == "LC" then some (lc A) else if nm == "EC" then some (ec A) else none

/-- `N, D` of `as_N_D(monic_denominator=True)`: `D = Dpoly.<dFn>()`, `N = N / Dpoly.<divFn>()` -/
def asNDMonic (divFn dFn : String) (R : RF K) : Option (RExpr K × RExpr K) :=
  match coeffNamed R.A divFn with
  | some c =>
    if dFn == "monic" then
      some (.mul (.mul (.poly (smul (1 / c) R.B)) (delayFactor (-1) R)) (undefFactor R), .poly (monic R.A))
    else none
  | none => none

/-! ## multiplying / dividing top and bottom by a factor -/

/-- `Σ c_m var^m · 1/f`: what `(P / f).expand()` produces for a polynomial `P` -/
def expandOver (f : RExpr K) : List K → Nat → RExpr K
  | [], _ => .const 0
  | c :: cs, m => .add (.mul (.mul (.const c) (.pow .var m)) (.inv f)) (expandOver f cs (m + 1))

/-- one side: the polynomial `p` combined with the factor by the operator the source uses -/
def scaleBy (op : String) (f : RExpr K) (p : List K) : Option (RExpr K) :=
  if op == "Div" then some (expandOver f p 0)
  else if op == "Mult" then some (.mul (.poly p) f)
  else none

/-- a side `[attribute, operator, operand]`: `self.N` carries the delay and undefined factors -/
def tbSide (R : RF K) (f : RExpr K) (src : List String) : Option (RExpr K) :=
  match src with
  | [attr, op, operand] =>
    if operand == "factor" then
      if attr == "N" then
        (scaleBy op f R.B).map (fun e => .mul (.mul e (delayFactor (-1) R)) (undefFactor R))
      else if attr == "D" then scaleBy op f R.A
      else none
    else none
  | _ => none

/-- `divide_top_and_bottom` / `multiply_top_and_bottom`: the two sides and how the result combines them -/
def topBottom (numer denom ret : List String) (R : RF K) (f : RExpr K) : Option (RExpr K) :=
  match tbSide R f numer, tbSide R f denom with
  | some n, some d =>
    if ret == [numer.headD "", "Div", denom.headD ""] && numer.headD "" == "N" && denom.headD "" == "D"
    then some (.mul n (.inv d)) else none
  | _, _ => none

/-! ## `rationalize_denominator`: complex polynomials in a real variable -/

/-- a polynomial with complex coefficients in a REAL variable: real-part and imaginary-part coefficient lists -/
structure CP (K : Type) where
  re : List K
  im : List K

def CP.conj (p : CP K) : CP K := ⟨p.re, Poly.neg p.im⟩

def CP.mul (p q : CP K) : CP K :=
  ⟨Poly.sub (Poly.mul p.re q.re) (Poly.mul p.im q.im), Poly.add (Poly.mul p.re q.im) (Poly.mul p.im q.re)⟩

/-- value at a real point, as a pair (real part, imaginary part) -/
def CP.eval (p : CP K) (x : K) : K × K := (Poly.eval p.re x, Poly.eval p.im x)

/-- complex multiplication on pairs -/
def cmul (a b : K × K) : K × K := (a.1 * b.1 - a.2 * b.2, a.1 * b.2 + a.2 * b.1)

/-- `D.<nm>` for `nm` in conj / real / imag -/
def cpPart (D : CP K) (nm : String) : Option (CP K) :=
  if nm == "conj" then some D.conj
  else if nm == "real" then some ⟨D.re, []⟩
  else if nm == "imag" then some ⟨D.im, []⟩
  else none

/-- `Nnew = N * D.<mult>`;  `Dnew = D.<p0>**k0 <op> D.<p1>**k1` (a real polynomial);  `return Nnew / Dnew` -/
def rationalize (mult : String) (parts : List String) (pows : List Int) (op : String) (ret : List String)
    (N D : CP K) : Option (CP K × List K) :=
  match cpPart D mult, parts, pows with
  | some m, [p0, p1], [k0, k1] =>
    match cpPart D p0, cpPart D p1 with
    | some a, some b =>
      if k0 ≥ 0 && k1 ≥ 0 && ret == ["N", "Div", "D"] then
        let a2 := Poly.pow a.re k0.toNat
        let b2 := Poly.pow b.re k1.toNat
        if op == "Add" then some (CP.mul N m, Poly.add a2 b2)
        else if op == "Sub" then some (CP.mul N m, Poly.sub a2 b2)
        else none
      else none
    | _, _ => none
  | _, _, _ => none

/-- value of the rationalised quotient `Nnew / Dnew` at a real point -/
def rationalizeValue (r : CP K × List K) (x : K) : K × K :=
  ((r.1.eval x).1 / Poly.eval r.2 x, (r.1.eval x).2 / Poly.eval r.2 x)

/-! ## `recippartfrac`: partial fractions in the reciprocal variable -/

/-- `expr.subs(1/q)` as a rational function of `q`: with `n = max(|B|, |A|)` coefficients,
    `B(1/q)/A(1/q) = (q^(n−1) B(1/q)) / (q^(n−1) A(1/q))`, both reversed coefficient lists -/
def recipRF (R : RF K) : RF K :=
  let n := max R.B.length R.A.length
  ⟨revPad R.B n, revPad R.A n, R.delay, R.nu⟩

/-- the substitution applied to the expression before expanding ("inv" = `1/tmpsym`) -/
def recipRFNamed (how : String) (R : RF K) : Option (RF K) :=
  if how == "inv" then some (recipRF R) else if how == "id" then some R else none

/-- the sample point after `nexpr.subs(tmpsym, 1/var)` ("inv") -/
def recipEnvNamed (how : String) (env : Env K) : Option (Env K) :=
  if how == "inv" then some ⟨1 / env.x, env.E, env.u⟩ else if how == "id" then some env else none

/-- `Expr.recippartfrac()`: substitute, expand with the `as_QRPO` data of the substituted function, substitute
    back; returns the expression (in the temporary variable) and the point it is to be read at.  A delay factor
    `exp(−T/q)` is not polynomial in `q`: `Ratfun(...)` raises (`none`). -/
def recippartfrac (σ : K) (howIn howOut : String) (R : RF K) (Q : List K) (terms : List (K × K × Nat))
    (env : Env K) : Option (RExpr K × Env K) :=
  if R.delay = 0 then
    match recipRFNamed howIn R, recipEnvNamed howOut env with
    | some R', some env' => some (partfrac σ R' Q terms, env')
    | _, _ => none
  else none

/-! ## `simplify_factors` / `simplify_terms`: the loops around SymPy's simplifier -/

/-- `result = factors[init]; for factor in factors[from:]: result *= simp(factor)` -/
def simplifyFactors (init from_ : Int) (op : String) (simp : RExpr K → RExpr K) (fs : List (RExpr K)) :
    Option (RExpr K) :=
  if init ≥ 0 && from_ ≥ 0 && op == "Mult" then
    match fs[init.toNat]? with
    | some f0 => some (((fs.drop from_.toNat).map simp).foldl .mul f0)
    | none => none
  else none

/-- `result = init; for term in terms: result += simp(term)` -/
def simplifyTerms (init : Int) (op : String) (simp : RExpr K → RExpr K) (ts : List (RExpr K)) : Option (RExpr K) :=
  if op == "Add" then
    some ((ts.map simp).foldl .add (.const (if init = 0 then 0 else if init = 1 then 1 else 0)))
  else none

/-- the factors of `B/A · exp(−delay·var) · U^nu` the simplify loops are run on in the driver -/
def rfFactors (R : RF K) : List (RExpr K) :=
  [.poly R.B, .inv (.poly R.A), delayFactor (-1) R, undefFactor R]

/-- the terms `c_m var^m / A · exp · U` of the expanded expression -/
def rfTerms (R : RF K) : List K → Nat → List (RExpr K)
  | [], _ => []
  | c :: cs, m =>
    .mul (.mul (.mul (.mul (.const c) (.pow .var m)) (.inv (.poly R.A))) (delayFactor (-1) R)) (undefFactor R)
      :: rfTerms R cs (m + 1)

/-- `Expr.expand_response()` / `Expr.as_sum()`: the numerator `N = B·exp·U` expanded into terms, each divided by the
    polynomial denominator `D`, and summed -/
def expandResponse (R : RF K) : RExpr K := (rfTerms R R.B 0).foldl .add (.const 0)

/-! ## `expandcanonical` with the enumeration order of the source -/

/-- `for m, c in enumerate(reversed(Bpoly.all_coeffs()))` (low power first) or without `reversed`
    (the highest coefficient would be paired with `var**0`) -/
def expandcanonicalSrc (σ : K) (reversed : Bool) (den : String) (R : RF K) : Option (RExpr K) :=
  if den == "A" then
    let cs := if reversed then R.B else allCoeffs R.B
    some (.mul (.mul (expandTerms R.A cs 0) (delayFactor σ R)) (undefFactor R))
  else none

/-! ## `Ratfun.canonical` with its unit-factor branches -/

/-- the constants `0`, `1` of the carrier named by a source integer (anything else: no such constant / no such test) -/
def intK (i : Int) : Option K := if i = 1 then some 1 else if i = 0 then some 0 else none

/-- `P.as_expr() == c` for a polynomial `P` and the source constant `c` -/
def polyIsConst (p : List K) (c : Int) : Bool :=
  match intK (K := K) c with
  | some k => trim p == (if k = 0 then [] else [k])
  | none => false

/-- `g == c` for the source constant `c` -/
def eqConst (g : K) (c : Int) : Bool :=
  match intK (K := K) c with
  | some k => decide (g = k)
  | none => false

/-- `Ratfun.canonical(factor_const)` WITH the branches of the code: `if D == dSkip: expr = N`, `if N == nSkip: expr = 1/D`
    (factor_const=False only), `if K != kSkip: expr = K·expr` (factor_const=True; `K` is the gain times the delay factor, so
    `K == 1` needs gain 1 AND no delay), and the undefined factor attached where the source attaches it:
    "top" = unconditionally, "gain" = inside the `K != …` branch, anything else = nowhere. -/
def canonicalBr (σ : K) (factorConst : Bool) (skip : List Int) (undefAt : String) (R : RF K) : RExpr K :=
  let kSkip := skip.getD 0 (-99)
  let dSkip := skip.getD 1 (-99)
  let nSkip := skip.getD 2 (-99)
  if factorConst then
    let g := lc R.B / lc R.A
    let N := monic R.B
    let D := monic R.A
    let core : RExpr K := if polyIsConst D dSkip then .poly N else .mul (.poly N) (.inv (.poly D))
    let kIs : Bool := decide (R.delay = 0) && eqConst g kSkip
    let gain : RExpr K := .mul (.const g) (delayFactor σ R)
    if undefAt == "top" then .mul (if kIs then core else .mul gain core) (undefFactor R)
    else if undefAt == "gain" then (if kIs then core else .mul (.mul gain (undefFactor R)) core)
    else (if kIs then core else .mul gain core)
  else
    let N := smul (1 / lc R.A) R.B
    let D := monic R.A
    let core : RExpr K :=
      if polyIsConst D dSkip then .poly N
      else if polyIsConst N nSkip then .inv (.poly D)
      else .mul (.poly N) (.inv (.poly D))
    let e : RExpr K := .mul core (delayFactor σ R)
    if undefAt == "top" then .mul e (undefFactor R) else e

/-! ## root dictionaries -/

/-- `polesdict[key] += n` (`key in polesdict`) / `polesdict[key] = n` -/
def addRoot (r : K) (n : Nat) : List (K × Nat) → List (K × Nat)
  | [] => [(r, n)]
  | (q, m) :: rest => if q = r then (q, m + n) :: rest else (q, m) :: addRoot r n rest

/-- the merging loop of `Expr.poles` (and of `Ratfun.poles`): equal roots are collected, multiplicities combined
    by the operator of the source (`+=`) -/
def mergeRoots (op : String) (l : List (K × Nat)) : Option (List (K × Nat)) :=
  if op == "Add" then some (l.foldl (fun acc rn => addRoot rn.1 rn.2 acc) []) else none

/-- `_fmt_roots(aslist=True)`: `rootslist += [root] * n` -/
def rootsAsList (rep : String) (l : List (K × Nat)) : Option (List K) :=
  if rep == "n" then some (l.flatMap (fun rn => List.replicate rn.2 rn.1)) else none

end dec
end Lcapy.RatfunFmt
