/-
  Executable model of the Foster forms and of the entry points of lcapy/synthesis.py (C19, round 3),
  END TO END from the coefficient lists of `Z = N/D`.  No Mathlib import (linked into `drv_c19`).

  Mirrors
    lcapy/ratfun.py   : Ratfun.as_QMA (sym.div), as_QRPO (residues of every pole order, zero residues pruned),
                        as_QRF(combine_conjugates=True) (pairing loop), partfrac (Q + Σ R/F)
    lcapy/synthesis.py: fosterI / fosterII (one `parallelRLC` / `seriesRLC` section per ordered term),
                        the ten pattern forms on `partfrac()` + `collect(var)` of `N/D`, `RLC`, `network`
    lcapy/immittancemixin.py : network (= synthesis.network(self.Z, form));  lcapy/network.py : transform

  What Lcapy delegates to SymPy's root finder is an INPUT (the pole table of the denominator), checked by
  `Poly.rootsCheck` and `distinctB`; everything after that is computed here:
    * residues by peeling one factor `(x − p)` at a time (`peelPole`): with `A = lc·(x−p)^n·C`,
          r = M(p) / (lc·C(p)),     M = r·lc·C + (x − p)·M₁          (synthetic division, remainder 0)
      which is the partial-fraction expansion SymPy/Lcapy obtain by substitution + differentiation
      (the expansion is unique, so the numbers agree);
    * the dictionary `collect(partfrac(N/D), var)` without any root finding (`collOf`): `N/D` is
      `cm/var + c0 + cp·var` iff `var·N = (cm + c0·var + cp·var²)·D`, i.e. iff the long division of `var·N` by `D`
      is exact with a quotient of degree ≤ 2.
-/
import Lcapy.Model.PolySynth
namespace Lcapy.Synth
open Lcapy.Poly

variable {K : Type} [Add K] [Mul K] [Neg K] [Sub K] [Div K] [OfNat K 0] [OfNat K 1]

/-- synthetic division by `x − p`: `P = (x − p)·Q + r` -/
def divLinear (p : K) : List K → List K × K
  | [] => ([], 0)
  | a :: P => let qr := divLinear p P; (qr.2 :: qr.1, a + p * qr.2)

/-- one term of a partial-fraction expansion and the polynomial part, as Foster sections -/
inductive Sec (K : Type) where
  | mono (q : K) (k : Nat)          -- `q·var^k` (a term of the quotient `Q`)
  | single (r p : K) (o : Nat)      -- `r/(var − p)^o`
  | pair (n1 n0 a b : K)            -- `(n1·var + n0)/(var² + a·var + b)` (a combined conjugate pair)

def Sec.value (x : K) : Sec K → K
  | .mono q k => q * npow x k
  | .single r p o => r / npow (x - p) o
  | .pair n1 n0 a b => (n1 * x + n0) / (x * x + a * x + b)

/-- outcome of a Foster synthesis -/
inductive FRes (K : Type) where
  | ok (n : Net K)
  | raises                           -- Lcapy raises (the form cannot realise the expression)
  | badTable                         -- the supplied pole table is not a factorisation into distinct roots

def FRes.isOk : FRes K → Bool
  | .ok _ => true
  | _ => false

section dec
variable [DecidableEq K]

/-- the residues of the pole `p` of multiplicity `n` (orders `n, n−1, …, 1`, the order of
    `_find_residues_sub`) and the numerator left over for the remaining poles.  `C` is the cofactor
    `Π_{other poles} (x − q)^m`, `lcA` the leading coefficient of the denominator. -/
def peelPole (lcA : K) (p : K) (C : List K) : Nat → List K → List (K × K × Nat) × List K
  | 0, M => ([], M)
  | n + 1, M =>
    let r := Poly.eval M p / (lcA * Poly.eval C p)
    let M1 := (divLinear p (Poly.sub M (smul (r * lcA) C))).1
    let rest := peelPole lcA p C n M1
    ((r, p, n + 1) :: rest.1, rest.2)

/-- all poles in table order (`for pole in poles: for m in range(pole.n)`) -/
def peelAll (lcA : K) : List (K × Nat) → List K → List (K × K × Nat) × List K
  | [], M => ([], M)
  | (p, n) :: rest, M =>
    let a := peelPole lcA p (prodRoots rest) n M
    let b := peelAll lcA rest a.2
    (a.1 ++ b.1, b.2)

/-- the entries of a root table are pairwise different -/
def distinctB : List (K × Nat) → Bool
  | [] => true
  | (p, _) :: rest => rest.all (fun q => decide (q.1 ≠ p)) && distinctB rest

/-- `Ratfun.as_QRPO`: `Q, M = div(N, D)`, residues of `M/D`, zero residues pruned.
    `none`: the table does not factorise `D` into distinct roots (or `D = 0`), or the peeling leaves a
    numerator behind (impossible for a correct table: `deg M < deg D`). -/
def pfData (N D : List K) (poles : List (K × Nat)) : Option (List K × List (K × K × Nat)) :=
  if rootsCheck D poles && distinctB poles && !(isZero D) then
    let qm := divmod N D
    let pr := peelAll (lc D) poles qm.2
    if isZero pr.2 then some (qm.1, pr.1.filter (fun t => decide (t.1 ≠ 0))) else none
  else none

/-- the monomials of the quotient (`as_ordered_terms` of an expanded polynomial), zero coefficients skipped -/
def monoSecs : List K → Nat → List (Sec K)
  | [], _ => []
  | q :: rest, k => if q = 0 then monoSecs rest (k + 1) else .mono q k :: monoSecs rest (k + 1)

/-- the search `for n in range(m + 1, len(R))` of `as_QRF`: the first later term of order 1 whose pole is the
    conjugate of `p`; returns its residue and pole and the list without it (`R[n] = None`) -/
def takeConj (isConj : K → K → Bool) (p : K) : List (K × K × Nat) → Option ((K × K) × List (K × K × Nat))
  | [] => none
  | t :: rest =>
    if t.2.2 = 1 && isConj p t.2.1 then some ((t.1, t.2.1), rest)
    else (takeConj isConj p rest).map (fun x => (x.1, t :: x.2))

/-- `as_QRF(combine_conjugates=True)`: a term of order 1 is merged with the first later conjugate term of order 1
    into `((var − pc)·r + (var − p)·rc) / ((var − p)(var − pc))`, expanded.  Explicit fuel (`terms.length`). -/
def combine (isConj : K → K → Bool) : Nat → List (K × K × Nat) → List (Sec K)
  | 0, _ => []
  | _, [] => []
  | f + 1, (r, p, o) :: rest =>
    if o = 1 then
      match takeConj isConj p rest with
      | some ((rc, pc), rest') =>
        .pair (r + rc) (-(r * pc + rc * p)) (-(p + pc)) (p * pc) :: combine isConj f rest'
      | none => .single r p o :: combine isConj f rest
    else .single r p o :: combine isConj f rest

/-- the terms of `lexpr.partfrac(combine_conjugates=True)` -/
def fosterSecs (isConj : K → K → Bool) (N D : List K) (poles : List (K × Nat)) : Option (List (Sec K)) :=
  (pfData N D poles).map (fun qt => monoSecs qt.1 0 ++ combine isConj qt.2.length qt.2)

/-- `parallelRLC(term)`: the admittance `1/term` must be `a + b·var + c/var` -/
def secNetI : Sec K → Option (Net K)
  | .mono q 0 => some (.R q)
  | .mono q 1 => some (.L q)
  | .mono _ _ => none
  | .single r p 1 =>
    if r = 0 then none
    else if p = 0 then some (.C (1 / r)) else some (.par (.R (-(r / p))) (.C (1 / r)))
  | .single _ _ _ => none
  | .pair n1 n0 a b =>
    if n0 = 0 && decide (n1 ≠ 0) then
      parO (parO (if a = 0 then none else some (.R (n1 / a))) (if b = 0 then none else some (.L (n1 / b))))
           (some (.C (1 / n1)))
    else none

/-- `seriesRLC(1/term)`: the impedance `1/term` must be `a + b·var + c/var` -/
def secNetII : Sec K → Option (Net K)
  | .mono q 0 => some (.R (1 / q))
  | .mono q 1 => some (.C q)
  | .mono _ _ => none
  | .single r p 1 =>
    if r = 0 then none
    else if p = 0 then some (.L (1 / r)) else some (.ser (.R (-(p / r))) (.L (1 / r)))
  | .single _ _ _ => none
  | .pair n1 n0 a b =>
    if n0 = 0 && decide (n1 ≠ 0) then
      serO (serO (if a = 0 then none else some (.R (a / n1))) (if b = 0 then none else some (.C (n1 / b))))
           (some (.L (1 / n1)))
    else none

def mapOpt {α β : Type} (f : α → Option β) : List α → Option (List β)
  | [] => some []
  | a :: l =>
    match f a, mapOpt f l with
    | some b, some bs => some (b :: bs)
    | _, _ => none

/-- `fosterI(N/D)`: sections in series.  `poles` = root table of `D`. -/
def fosterI (isConj : K → K → Bool) (N D : List K) (poles : List (K × Nat)) : FRes K :=
  match fosterSecs isConj N D poles with
  | none => .badTable
  | some secs =>
    match mapOpt secNetI secs with
    | none => .raises
    | some nets =>
      match serAll nets with
      | some n => .ok n
      | none => .raises        -- `Z = 0`: the single term `0` is rejected by `parallelRLC`

/-- `fosterII(N/D)`: sections of the admittance `D/N` in parallel.  `zeros` = root table of `N`. -/
def fosterII (isConj : K → K → Bool) (N D : List K) (zeros : List (K × Nat)) : FRes K :=
  if isZero N then .raises else
  match fosterSecs isConj D N zeros with
  | none => .badTable
  | some secs =>
    match mapOpt secNetII secs with
    | none => .raises
    | some nets =>
      match parAll nets with
      | some n => .ok n
      | none => .raises

/-! ### the pattern forms from `N/D` -/

def nz (a : K) : Option K := if a = 0 then none else some a

/-- `collect(partfrac(N/D), var, evaluate=False)` reduced to what the patterns look at (see the file header):
    exact division of `var·N` by `D` with a quotient `cm + c0·var + cp·var²`; anything else leaves a key
    the patterns cannot consume (`other`). -/
def collOf (N D : List K) : Coll K :=
  let qr := divmod (0 :: N) D
  let q := trim qr.1
  if isZero qr.2 && decide (q.length ≤ 3) then ⟨nz (q.getD 1 0), nz (q.getD 2 0), nz (q.getD 0 0), false⟩
  else ⟨none, none, none, true⟩

/-- the forms of `Synthesis` -/
inductive Form where
  | cauerI | cauerII | fosterI | fosterII
  | seriesRL | seriesRC | seriesGC | seriesLC | seriesRLC
  | parallelRL | parallelRC | parallelGC | parallelLC | parallelRLC
  | RLC
deriving DecidableEq, Repr

def Form.ofString : String → Option Form
  | "default" => some .cauerI
  | "cauerI" => some .cauerI | "cauerII" => some .cauerII
  | "fosterI" => some .fosterI | "fosterII" => some .fosterII
  | "seriesRL" => some .seriesRL | "seriesRC" => some .seriesRC | "seriesGC" => some .seriesGC
  | "seriesLC" => some .seriesLC | "seriesRLC" => some .seriesRLC
  | "parallelRL" => some .parallelRL | "parallelRC" => some .parallelRC | "parallelGC" => some .parallelGC
  | "parallelLC" => some .parallelLC | "parallelRLC" => some .parallelRLC
  | "RLC" => some .RLC
  | _ => none

/-- a series-type pattern applied to the impedance `N/D` (`lexpr == 0` is tested first by the code:
    `seriesRL` returns `None`, the others raise) -/
def seriesForm (f : Coll K → Option (Option (Net K))) (zeroIsEmpty : Bool) (N D : List K) : Option (Option (Net K)) :=
  if isZero N then (if zeroIsEmpty then some none else none)
  else if isZero D then none
  else f (collOf N D)

/-- a parallel-type pattern: the dictionary of the admittance `D/N` -/
def parallelForm (f : Coll K → Option (Option (Net K))) (zeroIsEmpty : Bool) (N D : List K) : Option (Option (Net K)) :=
  if isZero N then (if zeroIsEmpty then some none else none)
  else if isZero D then none
  else f (collOf D N)

/-- the pattern forms as functions of `N/D` -/
def patternOf : Form → Option (List K → List K → Option (Option (Net K)))
  | .seriesRL => some (seriesForm seriesRL true)
  | .seriesRC => some (seriesForm seriesRC false)
  | .seriesGC => some (seriesForm seriesGC false)
  | .seriesLC => some (seriesForm seriesLC false)
  | .seriesRLC => some (seriesForm seriesRLC false)
  | .parallelRL => some (parallelForm parallelRL true)
  | .parallelRC => some (parallelForm parallelRC false)
  | .parallelGC => some (parallelForm parallelGC false)
  | .parallelLC => some (parallelForm parallelLC false)
  | .parallelRLC => some (parallelForm parallelRLC false)
  | _ => none

/-- `RLC`: `try: seriesRLC except: parallelRLC` -/
def rlcForm (N D : List K) : Option (Option (Net K)) :=
  match seriesForm seriesRLC false N D with
  | some r => some r
  | none => parallelForm parallelRLC false N D

/-! ### `network(lexpr, form)` -/

/-- the quantity of the expression handed to `synthesis.network` -/
inductive Kind where
  | impedance | admittance | other
deriving DecidableEq, Repr

/-- the errors `network` can report, as an enum -/
inductive ErrKind where
  | notImpedance        -- `ValueError('Expression needs to be an impedance')`
  | unknownForm         -- `ValueError('Unknown form …')`
  | cannotRealise       -- the method of the form raises
deriving DecidableEq, Repr

inductive NRes (K : Type) where
  | ok (n : Net K)
  | empty                           -- the method returns `None`
  | err (e : ErrKind)
  | badTable                        -- wrong root table supplied to the model
  | outside                         -- continued fraction with a negative power / out of fuel: not modelled

def NRes.isOk : NRes K → Bool
  | .ok _ => true
  | _ => false

def ofOO : Option (Option (Net K)) → NRes K
  | none => .err .cannotRealise
  | some none => .empty
  | some (some n) => .ok n

def ofF : FRes K → NRes K
  | .ok n => .ok n
  | .raises => .err .cannotRealise
  | .badTable => .badTable

/-- `Synthesis.network(lexpr, form)` for `lexpr = N/D` of quantity `kind`; `poles`/`zeros` = root tables of
    `D`/`N` (only read by the Foster forms) -/
def network (isConj : K → K → Bool) (kind : Kind) (form : String) (N D : List K)
    (poles zeros : List (K × Nat)) : NRes K :=
  if kind ≠ .impedance then .err .notImpedance else
  match Form.ofString form with
  | none => .err .unknownForm
  | some .cauerI =>
    match Ratfun.cfCoeffs N D with
    | .ok cs => ofOO (cauerI true cs)
    | _ => .outside
  | some .cauerII =>
    match Ratfun.cfiCoeffs D N with
    | .ok cs => ofOO (cauerII true true cs)
    | _ => .outside
  | some .fosterI => ofF (fosterI isConj N D poles)
  | some .fosterII => ofF (fosterII isConj N D zeros)
  | some .RLC => ofOO (rlcForm N D)
  | some f =>
    match patternOf f with
    | some g => ofOO (g N D)
    | none => .err .unknownForm

/-! ### `Network.transform(form)` = `network(self.Z, form)`: the impedance of a network as `N/D` -/

/-- numerator and denominator of the driving-point impedance, built as SymPy would add fractions -/
def Net.ratZ : Net K → List K × List K
  | .R r => ([r], [1])
  | .L l => ([0, l], [1])
  | .C c => ([1], [0, c])
  | .G g => ([1], [g])
  | .ser a b =>
    let A := a.ratZ; let B := b.ratZ
    (Poly.add (Poly.mul A.1 B.2) (Poly.mul B.1 A.2), Poly.mul A.2 B.2)
  | .par a b =>
    let A := a.ratZ; let B := b.ratZ
    (Poly.mul A.1 B.1, Poly.add (Poly.mul A.1 B.2) (Poly.mul B.1 A.2))

/-- `net.transform(form)`; the root tables are those of the cancelled `net.Z` (input, checked) -/
def transform (isConj : K → K → Bool) (form : String) (net : Net K) (poles zeros : List (K × Nat)) : NRes K :=
  let nd := net.ratZ
  let c := Poly.cancel nd.1 nd.2
  network isConj .impedance form c.1 c.2 poles zeros

end dec
end Lcapy.Synth
