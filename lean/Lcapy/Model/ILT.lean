/-
  C10 (and C02) — inverse Laplace transform of a rational function times a delay factor, mirroring
  lcapy/inverse_laplace.py `InverseLaplaceTransformer.ratfun / term` and
  lcapy/transformer.py `UnilateralInverseTransformer.make`.  No Mathlib import.

  * `Poly K`      coefficient lists (constant term first) with `eval`, `add`, `smul`, `mul`, `linPow p n = (x−p)^n`,
                  `eqv` (equality up to trailing zeros);
  * `pfCheck`     the verified checker for the partial-fraction data `(Q, R, P, O)` that `Ratfun.as_QRPO`
                  returns (SymPy's root finding / residue computation is taken as an input and checked):
                  `B = Q·A + Σ r_i·C_i` and `C_i·(x−p_i)^{o_i} = A` as coefficient lists;
  * `ilt`         polynomial part ↦ delta derivatives; residue `r` at pole `p` of order `o` ↦ `r·t^{o−1}/(o−1)!·e^{pt}`;
                  delay factor `e^{−sT}` ↦ shift by `T`;
  * `conjPair`    the code's combination of a conjugate pole pair into `(Ac cos ωt + As sin ωt) e^{−αt}`;
  * `termModel / makeModel`   the `causal` / `t ≥ 0` bookkeeping of `term` and `make`.
-/
import Lcapy.Spec.Signal
import Lcapy.Model.ExpPoly
import Lcapy.Generated.ILTFlags
namespace Lcapy.Laplace

abbrev Poly (K : Type) := List K

section
variable {K : Type} [Add K] [Mul K] [Neg K] [Sub K] [Div K] [OfNat K 0] [OfNat K 1]

namespace Poly
def eval : Poly K → K → K
  | [], _ => 0
  | a :: p, x => a + x * eval p x

def add : Poly K → Poly K → Poly K
  | [], q => q
  | p, [] => p
  | a :: p, b :: q => (a + b) :: add p q

def smul (c : K) (p : Poly K) : Poly K := p.map (fun a => c * a)

def mul : Poly K → Poly K → Poly K
  | [], _ => []
  | a :: p, q => add (smul a q) (0 :: mul p q)

/-- `(x − p)^n` -/
def linPow (p : K) : Nat → Poly K
  | 0 => [1]
  | n + 1 => mul [-p, 1] (linPow p n)

variable [DecidableEq K]
/-- equality of coefficient lists up to trailing zeros -/
def eqv : Poly K → Poly K → Bool
  | [], [] => true
  | [], b :: q => b = 0 && eqv [] q
  | a :: p, [] => a = 0 && eqv p []
  | a :: p, b :: q => a = b && eqv p q
end Poly

/-- `Σ r_i / (s − p_i)^{o_i}` -/
def sumPF : List (K × K × Nat) → K → K
  | [], _ => 0
  | (r, p, o) :: R, s => r / pw (s - p) o + sumPF R s

def sumCof : List (K × K × Nat) → List (Poly K) → Poly K
  | (r, _, _) :: R, c :: cs => Poly.add (Poly.smul r c) (sumCof R cs)
  | _, _ => []

variable [DecidableEq K]

def checkCofs (A : Poly K) : List (K × K × Nat) → List (Poly K) → Bool
  | [], [] => true
  | (_, p, o) :: R, c :: cs => Poly.eqv (Poly.mul c (Poly.linPow p o)) A && checkCofs A R cs
  | _, _ => false

/-- Checker for `B/A = Q + Σ r_i/(x−p_i)^{o_i}`, given candidate cofactors `C_i = A/(x−p_i)^{o_i}`
    (computed by anybody, e.g. `mkCofs`): every claim is verified by exact polynomial multiplication. -/
def pfCheck (B A Q : Poly K) (R : List (K × K × Nat)) (cofs : List (Poly K)) : Bool :=
  checkCofs A R cofs && Poly.eqv B (Poly.add (Poly.mul Q A) (sumCof R cofs))

/-- candidate cofactors from the leading coefficient and a pole/multiplicity list (untrusted helper) -/
def mkCofs (lc : K) (poles : List (K × Nat)) (R : List (K × K × Nat)) : List (Poly K) :=
  R.map (fun (_, p, o) =>
    poles.foldl (fun acc (q, m) => Poly.mul acc (Poly.linPow q (if q = p then m - o else m))) [lc])

/-! ### synthesis of the time function -/

structure PF (K : Type) where
  Q : Poly K
  R : List (K × K × Nat)
  T : K

def evalPF (E : K → K) (pf : PF K) (s : K) : K :=
  E (-(s * pf.T)) * (Poly.eval pf.Q s + sumPF pf.R s)

/-- polynomial part: coefficient of `s^n` ↦ `c·δ^{(n)}(t − T)` (the loop over `Qpoly.all_coeffs()`) -/
def iltQ (T : K) : Nat → Poly K → ExpPoly K
  | _, [] => []
  | n, c :: q => .dl c n T :: iltQ T (n + 1) q

/-- residue `r` at pole `p` of order `o` ↦ `r · t^{o−1}/(o−1)! · e^{pt}` -/
def iltR (T : K) (R : List (K × K × Nat)) : ExpPoly K :=
  R.map (fun (r, p, o) => Term.ep r (o - 1) p T)

def ilt (pf : PF K) : ExpPoly K := iltQ pf.T 0 pf.Q ++ iltR pf.T pf.R

/-- `(Ac cos ωt + As sin ωt) e^{−αt}` as two complex exponentials -/
def cosSin (J : K) (Ac As alpha omega T : K) : ExpPoly K :=
  [.ep (Ac / (1 + 1) + As / ((1 + 1) * J)) 0 (-alpha + J * omega) T,
   .ep (Ac / (1 + 1) - As / ((1 + 1) * J)) 0 (-alpha - J * omega) T]

/-- the conjugate-pair branch of `ratfun`: residues `r, rc` at the simple poles `p, pc`:
    `q = (s − pc) r + (s − p) rc = b0 s + b1`, `α = −(p+pc)/2`, `ω = −(p−pc)/(2j)`;
    `len(b) == 1` (i.e. `b0 = 0`): `Ac = 0, As = b1/ω`; else `Ac = b0, As = (b1 − α Ac)/ω`. -/
def conjPair (J : K) (r rc p pc T : K) : ExpPoly K :=
  let b0 := r + rc
  let b1 := -(pc * r + p * rc)
  let alpha := -(p + pc) / (1 + 1)
  let omega := -(p - pc) / ((1 + 1) * J)
  if b0 = 0 then cosSin J 0 (b1 / omega) alpha omega T
  else cosSin J b0 ((b1 - alpha * b0) / omega) alpha omega T

/-- the loop of `ratfun` over the residues: an entry of order 1 followed (anywhere later) by an entry whose
    pole is the conjugate `conj p` is combined with it.  Whether that later entry must itself be of order 1 is
    read from the source text on every run (`Gen.conjPartnerMustBeSimple`, translator tx_ilt): code that only
    consults `is_conjugate_pair` (it carries the remark "TODO fix for repeated complex poles") takes ANY later
    entry with the conjugate pole.  Everything else is `r t^{o−1}/(o−1)! e^{pt}`.
    For data in which every complex pole is simple this is the decomposition of `conj_pair_combine`; with the
    unfiltered partner search and repeated complex-conjugate poles a first-order residue is paired with a
    higher-order one (finding F21), so the full statement `L (ratfunLoop …) s = E(−sT)·sumPF R s` needs
    `Gen.conjPartnerMustBeSimple = true` or `∀ complex p, order p = 1`; the oracle covers that region. -/
def ratfunLoop (J : K) (conj : K → K) (T : K) : Nat → List (K × K × Nat) → ExpPoly K
  | 0, _ => []
  | _, [] => []
  | fuel + 1, (r, p, o) :: R =>
    if o = 1 then
      match R.find? (fun (_, p2, o2) => p2 = conj p ∧ p2 ≠ p ∧ (o2 = 1 ∨ !Gen.conjPartnerMustBeSimple)) with
      | some (rc, pc, oc) =>
          conjPair J r rc p pc T ++ ratfunLoop J conj T fuel (R.erase (rc, pc, oc))
      | none => Term.ep r 0 p T :: ratfunLoop J conj T fuel R
    else Term.ep r (o - 1) p T :: ratfunLoop J conj T fuel R

/-! ### the polynomial-part loop as written in the source (flags read by tx_ilt on every run) -/

/-- `for n, c in enumerate(C): cresult += c * diff(DiracDelta(t), t, <order>)` with `<order>` either
    `len(C) - n - 1` (`byLen`) or `Qpoly.degree() - n` -/
def iltQgo (byLen : Bool) (len deg : Nat) (T : K) : Nat → List K → ExpPoly K
  | _, [] => []
  | n, c :: cs => .dl c (if byLen then len - n - 1 else deg - n) T :: iltQgo byLen len deg T (n + 1) cs

/-- `C = Qpoly.all_coeffs()` (highest power first; `Gen.qCoeffsDense`) or the non-zero coefficients only;
    `q` is the quotient, constant term first, leading coefficient non-zero (so `Qpoly.degree() = q.length - 1`) -/
def iltQsrc (T : K) (q : Poly K) : ExpPoly K :=
  let all := q.reverse
  let C := if Gen.qCoeffsDense then all else all.filter (fun c => c ≠ 0)
  iltQgo Gen.qOrderByLen C.length (q.length - 1) T 0 C

/-- value of a coefficient list given highest power first -/
def evalHF : List K → K → K
  | [], _ => 0
  | c :: cs, s => c * pw s cs.length + evalHF cs s

/-! ### `do_damped_sin`: second-order sections as damped sinusoids (arithmetic GENERATED from the source) -/

/-- `c·cos(ω t)·e^{ρ t}` delayed by `T` -/
def expCos (J c rate om T : K) : ExpPoly K :=
  [.ep (c / (1 + 1)) 0 (rate + J * om) T, .ep (c / (1 + 1)) 0 (rate - J * om) T]

/-- `c·sin(ω t)·e^{ρ t}` delayed by `T` -/
def expSin (J c rate om T : K) : ExpPoly K :=
  [.ep (c / ((1 + 1) * J)) 0 (rate + J * om) T, .ep (-(c / ((1 + 1) * J))) 0 (rate - J * om) T]

/-- the record handed to the generated arithmetic: `nc`, `dc` = `expr.coeffs()` (highest power first),
    `sq1`, `sq2` = the values of the two `sym.sqrt` calls -/
def dsInput (rn0 rn1 rn2 rd0 rd1 rd2 sq1 sq2 : K) : Gen.DSIn K :=
  let nz := fun c => if Gen.dsNumNormalised then c / rn0 else c
  let dz := fun c => if Gen.dsDenNormalised then c / rd0 else c
  { rn0 := rn0, rn1 := rn1, rn2 := rn2, rd0 := rd0, rd1 := rd1, rd2 := rd2,
    n0 := nz rn0, n1 := nz rn1, n2 := nz rn2, d0 := dz rd0, d1 := dz rd1, d2 := dz rd2,
    sq1 := sq1, sq2 := sq2, E := 1, S := 0, C := 0, Dl := 0 }

/-- a returned SymPy expression (linear in the atoms `S`, `C`, `DiracDelta(t)`, with the factor `E`) as a signal:
    the coefficient of each atom is the generated function evaluated with that atom = 1 and the others = 0 -/
def dsSignal (J : K) (f : Gen.DSIn K → K) (x : Gen.DSIn K) (T : K) : ExpPoly K :=
  .dl (f { x with Dl := 1 }) 0 T ::
    (expCos J (f { x with C := 1 }) (Gen.dsRate x) (Gen.dsFreqC x) T ++
     expSin J (f { x with S := 1 }) (Gen.dsRate x) (Gen.dsFreqS x) T)

/-- `do_damped_sin(expr)` for `expr.coeffs() = (nc, dc)`, guarded as in `ratfun` (`Ddegree == 2 and Ndegree <= 2`) and as
    in the function itself (`omega0 == 0 or dcoeffs[1]**2 == 4*dcoeffs[2]` ⇒ error ⇒ the partial-fraction route is taken:
    `none`).  Result: `(cresult, uresult)`. -/
def dampedSin (J : K) (nc dc : List K) (sq1 sq2 T : K) : Option (ExpPoly K × ExpPoly K) :=
  match nc, dc with
  | [rn0], [rd0, rd1, rd2] =>
      let x := dsInput rn0 0 0 rd0 rd1 rd2 sq1 sq2
      if x.d2 = 0 ∨ x.d1 * x.d1 = (1 + 1 + 1 + 1) * x.d2 then none
      else some (dsSignal J Gen.dsRet1c x T, dsSignal J Gen.dsRet1u x T)
  | [rn0, rn1], [rd0, rd1, rd2] =>
      let x := dsInput rn0 rn1 0 rd0 rd1 rd2 sq1 sq2
      if x.d2 = 0 ∨ x.d1 * x.d1 = (1 + 1 + 1 + 1) * x.d2 then none
      else some (dsSignal J Gen.dsRet2c x T, dsSignal J Gen.dsRet2u x T)
  | [rn0, rn1, rn2], [rd0, rd1, rd2] =>
      let x := dsInput rn0 rn1 rn2 rd0 rd1 rd2 sq1 sq2
      if x.d2 = 0 ∨ x.d1 * x.d1 = (1 + 1 + 1 + 1) * x.d2 then none
      else some (dsSignal J Gen.dsRet3c x T, dsSignal J Gen.dsRet3u x T)
  | _, _ => none

/-! ### sums of delayed terms; products with an undefined transform `V(s)` (`product_undef1`), evaluated for a concrete `v` -/

/-- a sum of rational terms, each with its own delay factor: `term` is applied to every term and the results added -/
def iltSum (pfs : List (PF K)) : ExpPoly K := pfs.flatMap ilt

def Term.isEp : Term K → Bool
  | .ep _ _ _ _ => true
  | .dl _ _ _ => false

/-- classical derivative of a regular undelayed signal (`sym.Derivative(v(t), t)` once a concrete `v` is put in) -/
def derivC (f : ExpPoly K) : ExpPoly K := (deriv f).filter Term.isEp

def derivCN : Nat → ExpPoly K → ExpPoly K
  | 0, f => f
  | n + 1, f => derivC (derivCN n f)

/-- `s**n * V(s)`: `Derivative(v(t), t, n)` and, unless `zero_initial_conditions`, the initial-condition impulses
    `Σ_{m<n} v^{(m)}(0) δ^{(n−1−m)}(t)` — for the concrete signal `g` in place of `v` -/
def derivEntry (zic : Bool) (n : Nat) (g : ExpPoly K) : ExpPoly K :=
  derivCN n g ++ (if zic then [] else (List.range n).map (fun m => Term.dl (val0plus (derivCN m g)) (n - 1 - m) 0))

/-- upper limit of the convolution integral `Integral(f(t − τ) v(τ), (τ, 0, ·))` -/
inductive Upper where
  | t | inf
deriving DecidableEq, Repr

/-- `product_undef1`: `t2 = t` if `causal` else `oo` -/
def convUpper (causal : Bool) : Upper := if causal then .t else .inf

/-- `F(s)·V(s)`, `F` rational: the convolution integral with upper limit `t`, for the concrete causal signal `g` -/
def convEntry (f g : ExpPoly K) : ExpPoly K := conv f g

/-! ### the assumptions `causal` / `ac` / `dc` / `unknown` (lcapy/assumptions.py `Assumptions.set`, `merge`) -/

/-- the mutually exclusive time-domain assumptions -/
def exclusiveAssumptions : List String := ["dc", "ac", "causal", "unknown"]

/-- `Assumptions.set(assumption, value)` on the set of assumption names that are present (other assumptions are
    not modelled): a truthy value of an exclusive assumption removes all four and sets that one; a falsy value
    removes it. -/
def assumeSet (st : List String) (a : String) (v : Bool) : List String :=
  if a ∈ exclusiveAssumptions then
    if v then a :: st.filter (fun b => b ∉ exclusiveAssumptions) else st.filter (fun b => b ≠ a)
  else st

/-- `Assumptions.merge(**assumptions)`: keyword order, "the last one overrides" -/
def assumeMerge (st : List String) : List (String × Bool) → List String
  | [] => st
  | (a, v) :: rest => assumeMerge (assumeSet st a v) rest

/-- what the transformer reads: `kwargs.get('causal', False)` -/
def effectiveCausal (kw : List (String × Bool)) : Bool := "causal" ∈ assumeMerge [] kw

/-! ### causality bookkeeping (`term` and `make`) -/

/-- result of the inverse transform as Lcapy represents it: `cpart` is known for all `t`
    (deltas, and responses multiplied by a Heaviside step), `upart` is only known for `t ≥ 0`;
    `guarded` = the whole result is wrapped in `Piecewise((…, t >= 0))`. -/
structure ILTResult (K : Type) where
  cpart : ExpPoly K
  upart : ExpPoly K
  guarded : Bool

/-- one term of the sum, after `ratfun`: with a delay the response is multiplied by `u(t − T)` and
    counted as causal; without a delay it is multiplied by `u(t)` only if `causal` was requested. -/
def termModel (causal : Bool) (hasDelay : Bool) (c u : ExpPoly K) : ExpPoly K × ExpPoly K :=
  if hasDelay then (c ++ u, [])
  else if causal then (c ++ u, [])
  else (c, u)

/-- `make`: the result carries the `t ≥ 0` condition unless it is causal or has no unilateral part -/
def makeModel (causal : Bool) (parts : List (ExpPoly K × ExpPoly K)) : ILTResult K :=
  let c := parts.flatMap (fun x => x.1)
  let u := parts.flatMap (fun x => x.2)
  -- the two conditions under which `make` wraps the result are READ FROM THE SOURCE (tx_ilt: `Gen.makeGuardOnlyIfNotCausal`,
  -- `Gen.makeGuardOnlyIfUnilateral`); a condition that is absent in the source is absent here
  { cpart := c, upart := u,
    guarded := (if Gen.makeGuardOnlyIfNotCausal then !causal else true) &&
               (if Gen.makeGuardOnlyIfUnilateral then !u.isEmpty else true) }

end
end Lcapy.Laplace
