/-
  MODEL of Lcapy's COMPONENTWISE netlist rewrites (property C05, round 3): every component is
  re-emitted individually, possibly as several components on fresh interior nodes.

    lcapy/netlistmixin.py : s_model, ac_model (= s_model(j·omega)), subs, _kill, _noisy
    lcapy/netlist.py      : noise_model / noisy, expand, replace_switches(_before), _replace_switches
    lcapy/mnacpts.py      : Cpt._s_model (copy), RLC._s_model (Z + series V carrying Voc, a plain Z when
                            Voc == 0), V._s_model / I._s_model (the source's Laplace value),
                            RC._noisy (NR + series noise source Vn), V._kill (→ wire), I._kill (→ O),
                            C._kill / L._kill (drop the initial condition), Cpt._subs / _netsubs,
                            SW._replace_switch, Eopamp._expand

  Two levels:
    * evaluated components `Cpt K` of Spec/Laws.lean (what the theorems of Props/C05CW.lean speak about);
    * netlist lines `Elt K` of Spec/Retained.lean with values at a sample point (what the driver
      executes for the correspondence with the printed netlist of the real rewrite).
  No Mathlib import.
-/
import Lcapy.Spec.PortRel
import Lcapy.Spec.Retained
namespace Lcapy.MNA

variable {K : Type} [Add K] [Mul K] [Neg K] [Sub K] [Div K] [OfNat K 0] [OfNat K 1] [OfNat K 2]

/-! ### level 1: evaluated components -/

/-- `_s_model` of one component at the point `s`.  `d` is the dummy node and `b` the branch index
    of the new initial-condition source (an inductor's source inherits the inductor's own branch
    current unknown: the two are in series).
    `RLC._s_model`: `if self.Voc == 0: return Z` else `Z n1 d ; V d n2 s Voc`, with
    Z_R = R, Z_C = 1/(sC), Voc_C = v0/s, Z_L = sL, Voc_L = −L·i0.  A netlist `Z` is stamped as the
    admittance 1/Z.  Sources are re-emitted with their Laplace value (the value the evaluated
    component already carries); every other component is copied.  Coupled inductors are outside
    the model (their `K` line names an inductor that no longer exists after the rewrite). -/
def sModelCpt [DecidableEq K] (s : K) (d b : Nat) : Cpt K → List (Cpt K)
  | .R n1 n2 r => [.Y n1 n2 (1 / r)]
  | .Y n1 n2 y => [.Y n1 n2 (1 / (1 / y))]          -- `Y1 n1 n2 y` ↦ `ZY1 n1 n2 {1/y}`
  | .Cap n1 n2 c v0 =>
      if icv v0 = 0 then [.Y n1 n2 (1 / (1 / (s * c)))]
      else [.Y n1 d (1 / (1 / (s * c))), .V d n2 b (icv v0 / s)]
  | .Ind n1 n2 m l i0 [] =>
      if l * icv i0 = 0 then [.Y n1 n2 (1 / (s * l))]
      else [.Y n1 d (1 / (s * l)), .V d n2 m (-(l * icv i0))]
  | c => [c]

/-- unknowns that exist only on one side of the rewrite of this component: the dummy node, the
    new source's branch, and the branch current of an inductor (`L1` is no longer a component; the
    current of the new source `VL1` equals it, but under another name) -/
def sModelHidden [DecidableEq K] (d b : Nat) : Cpt K → List Ix
  | .Cap _ _ _ v0 => if icv v0 = 0 then [] else [.node d, .br b]
  | .Ind _ _ m l i0 [] => if l * icv i0 = 0 then [.br m] else [.node d, .br m]
  | _ => []

/-- `RC._noisy` followed by killing the noise source (`V._kill`: a wire, i.e. a zero-volt source
    as far as the laws are concerned): `R n1 n2 r` ↦ `NR n1 d r ; Vn d n2 0` -/
def noisyKilledCpt (d b : Nat) : Cpt K → List (Cpt K)
  | .R n1 n2 r => [.R n1 d r, .V d n2 b 0]
  | c => [c]

def noisyHidden (d b : Nat) : Cpt K → List Ix
  | .R _ _ _ => [.node d, .br b]
  | _ => []

/-- `Cpt._subs` on an evaluated component: every VALUE is sent through `φ` (substitution followed
    by evaluation); nodes and branch indices are untouched -/
def Cpt.mapVal {A : Type} (φ : A → K) : Cpt A → Cpt K
  | .R n1 n2 r => .R n1 n2 (φ r)
  | .Cap n1 n2 c v0 => .Cap n1 n2 (φ c) (v0.map φ)
  | .Ind n1 n2 m l i0 coup => .Ind n1 n2 m (φ l) (i0.map φ) (coup.map (fun p => (p.1, φ p.2.1, p.2.2.map φ)))
  | .V n1 n2 m v => .V n1 n2 m (φ v)
  | .I n1 n2 i => .I n1 n2 (φ i)
  | .E n1 n2 n3 n4 m a c => .E n1 n2 n3 n4 m (φ a) (φ c)
  | .G n1 n2 n3 n4 g => .G n1 n2 n3 n4 (φ g)
  | .F n1 n2 mc f => .F n1 n2 mc (φ f)
  | .H n1 n2 m mc h => .H n1 n2 m mc (φ h)
  | .TF n1 n2 n3 n4 m a => .TF n1 n2 n3 n4 m (φ a)
  | .GY n1 n2 n3 n4 m1 m2 r => .GY n1 n2 n3 n4 m1 m2 (φ r)
  | .AM n1 n2 m => .AM n1 n2 m
  | .TR n1 n2 m a => .TR n1 n2 m (φ a)
  | .Y n1 n2 y => .Y n1 n2 (φ y)
  | .Open n1 n2 => .Open n1 n2
  | .TPA n1 n2 n3 n4 m a b c d => .TPA n1 n2 n3 n4 m (φ a) (φ b) (φ c) (φ d)
  | .TPY n1 n2 n3 n4 a b c d => .TPY n1 n2 n3 n4 (φ a) (φ b) (φ c) (φ d)
  | .HY n1 n2 m n3 n4 mc y isc h => .HY n1 n2 m n3 n4 mc (φ y) (φ isc) (φ h)
  | .SP n1 n2 n3 n4 m a b c => .SP n1 n2 n3 n4 m (φ a) (φ b) (φ c)

/-- `Eopamp._expand`: `E out ref opamp inp inm Ad Ac Ro` ↦ the VCVS `E__` and, when `Ro ≠ 0`, the output
    resistor `R__` from the interior node `d` to the output.  An evaluated opamp is the pair
    (VCVS seen from the output terminal, Ro). -/
def opampExpand [DecidableEq K] (n1 n2 n3 n4 m : Nat) (Ad Ac Ro : K) (d : Nat) : List (Cpt K) :=
  if Ro = 0 then [.E n1 n2 n3 n4 m Ad Ac] else [.E d n2 n3 n4 m Ad Ac, .R d n1 Ro]

end Lcapy.MNA

namespace Lcapy.Rewrite
open Lcapy.MNA

variable {K : Type}

/-! ### level 2: netlist lines with values at a sample point -/

/-- how a switch line `SWname n1 n2 [no|nc|push] t_active` is replaced -/
inductive SwKind where
  | no | nc
deriving DecidableEq, Repr

/-- `SW._replace_switch(t, before)`: `active = t > t_a` (just before `t` the switch has operated iff
    its time is earlier than `t`) or `t ≥ t_a` (at or after `t`);
    SW / SWno / SWpush: wire when active else open circuit; SWnc: the other way round -/
def switchClosed [LT K] [DecidableLT K] [LE K] [DecidableLE K] (k : SwKind) (ta t : K) (before : Bool) : Bool :=
  let active : Bool := if before then decide (ta < t) else decide (ta ≤ t)
  match k with
  | .no => active
  | .nc => !active

def swKindOf (e : Elt K) : Option SwKind :=
  if e.ty ≠ "SW" then none
  else if e.kw = "nc" then some .nc
  else if e.kw = "" || e.kw = "no" || e.kw = "push" then some .no
  else none            -- spdt and friends are outside the model

/-- `_replace_switches(t, None, before)` -/
def replaceSwitches [LT K] [DecidableLT K] [LE K] [DecidableLE K] [OfNat K 0]
    (t : K) (before : Bool) (net : Net K) : Net K :=
  net.map (fun e =>
    match swKindOf e with
    | none => e
    | some k =>
      if switchClosed k (e.val.getD 0) t before then { name := "W", ty := "W", nodes := e.nodes.take 2 }
      else { name := "O", ty := "O", nodes := e.nodes.take 2 })

section arith
variable [Add K] [Mul K] [Neg K] [Sub K] [Div K] [OfNat K 0] [OfNat K 1] [DecidableEq K]

/-- the `k`-th dummy node handed out by `Netlist._dummy_node_name` (canonical numbering: the
    harness renames `_nodeanon<N>` in order of first appearance) -/
def dummyName (k : Nat) : String := "_d" ++ toString (k + 1)

/-- `_s_model` of one line; `k` = number of dummy nodes handed out so far.  Returns the emitted lines and the new
    counter.  (`two z voc`: `RLC._s_model` -- a plain `Z` when `Voc == 0`, else `Z n1 d ; V d n2 s Voc`.) -/
def sModelElt (s : K) (k : Nat) (e : Elt K) : Net K × Nat :=
  let two (z voc : K) : Net K × Nat :=
    if voc = 0 then ([{ name := "Z" ++ e.name, ty := "Z", nodes := e.nodes, val := some z }], k)
    else
      let d := dummyName k
      ([{ name := "Z" ++ e.name, ty := "Z", nodes := [e.n1, d], val := some z },
        { name := "V" ++ e.name, ty := "V", nodes := [d, e.n2], kw := "s", val := some voc }], k + 1)
  match e.ty, e.val with
  | "R", some r => two r 0
  | "NR", some r => two r 0
  | "Z", some z => two z 0
  | "Y", some y => two (1 / y) 0
  | "C", some c => two (1 / (s * c)) ((e.ic.getD 0) / s)
  | "L", some l => two (s * l) (-((e.ic.getD 0) * l))
  | _, _ => ([e], k)

def sModelFrom (s : K) : Nat → Net K → Net K
  | _, [] => []
  | k, e :: t => (sModelElt s k e).1 ++ sModelFrom s (sModelElt s k e).2 t

/-- `Netlist.s_model(kind)` at the sample point `s` (`ac_model` is the same function at `s = jω`).
    Source VALUES are not modelled at this level (they are arbitrary time/Laplace expressions; the
    harness compares them through the solve-and-compare oracle); `val` of a source line is kept. -/
def sModelNet (s : K) (net : Net K) : Net K := sModelFrom s 0 net

def noiseKilledFrom : Nat → Net K → Net K
  | _, [] => []
  | k, e :: t =>
    match e.ty, e.val with
    | "R", some r =>
      [{ name := "N" ++ e.name, ty := "NR", nodes := [e.n1, dummyName k], val := some r },
       { name := "W", ty := "W", nodes := [dummyName k, e.n2] }] ++ noiseKilledFrom (k + 1) t
    | _, _ => e :: noiseKilledFrom k t

/-- `Netlist.noise_model()` with the noise sources killed afterwards (`V._kill` ↦ `W`) -/
def noiseModelKilled (net : Net K) : Net K := noiseKilledFrom 0 net

/-- `Netlist.noise_model()` itself, structurally: which resistors are split and where the noise
    sources sit (their values `sqrt(4 k_B T R)` are symbolic and not evaluated) -/
def noiseModel (net : Net K) : Net K :=
  (net.foldl (fun (acc : Net K × Nat) e =>
    match e.ty, e.val with
    | "R", some r =>
      let d := dummyName acc.2
      (acc.1 ++ [{ name := "N" ++ e.name, ty := "NR", nodes := [e.n1, d], val := some r },
                 { name := "Vn" ++ e.name, ty := "V", nodes := [d, e.n2], kw := "noise" }], acc.2 + 1)
    | _, _ => (acc.1 ++ [e], acc.2)) ([], 0)).1

/-- `Netlist.kill()` of every independent source: V ↦ W, I ↦ O; initial conditions stay (`'ICs'`
    is not in the default source list) -/
def killSources (net : Net K) : Net K :=
  net.map (fun e =>
    if e.ty = "V" then { name := "W", ty := "W", nodes := e.nodes.take 2 }
    else if e.ty = "I" then { name := "O", ty := "O", nodes := e.nodes.take 2 }
    else e)

/-- MEANING of a netlist line of the two-terminal fragment as evaluated components of Spec/Laws.lean.
    `ν` sends node names to node indices -- names joined by wires must get the same index (wires are merged
    nodes, as in MNA) -- and `β` sends component names to branch-current indices.  Lines outside the fragment
    (wires, controlled sources, …) contribute nothing here. -/
def Elt.toCpts (ν β : String → Nat) (e : Elt K) : List (Cpt K) :=
  match e.ty, e.val with
  | "R", some r => [.R (ν e.n1) (ν e.n2) r]
  | "NR", some r => [.R (ν e.n1) (ν e.n2) r]
  | "C", some c => [.Cap (ν e.n1) (ν e.n2) c e.ic]
  | "L", some l => [.Ind (ν e.n1) (ν e.n2) (β e.name) l e.ic []]
  | "V", some v => [.V (ν e.n1) (ν e.n2) (β e.name) v]
  | "I", some i => [.I (ν e.n1) (ν e.n2) i]
  | "Y", some y => [.Y (ν e.n1) (ν e.n2) y]
  | "Z", some z => [.Y (ν e.n1) (ν e.n2) (1 / z)]
  | _, _ => []

def Net.toCpts (ν β : String → Nat) (net : Net K) : List (Cpt K) := net.flatMap (Elt.toCpts ν β)

end arith

end Lcapy.Rewrite
