/-
  Checked Gaussian rationals: exact complex numbers a + b·j with rational parts, in which
  division by zero is an error value (never Lean's totalised x/0 = 0).  Used by the drivers
  for phasor (s = jω) analysis; a real rational is (a, 0).  No Mathlib import.
-/
import Lcapy.Model.CRat
namespace Lcapy

structure GQ where
  v : Option (Rat × Rat)
deriving DecidableEq

namespace GQ
def ofRat (r : Rat) : GQ := ⟨some (r, 0)⟩
def mk' (re im : Rat) : GQ := ⟨some (re, im)⟩
def undef : GQ := ⟨none⟩
def j : GQ := ⟨some (0, 1)⟩
def lift2 (f : Rat × Rat → Rat × Rat → Rat × Rat) (a b : GQ) : GQ :=
  match a.v, b.v with
  | some x, some y => ⟨some (f x y)⟩
  | _, _ => ⟨none⟩
instance : Add GQ := ⟨lift2 (fun x y => (x.1 + y.1, x.2 + y.2))⟩
instance : Sub GQ := ⟨lift2 (fun x y => (x.1 - y.1, x.2 - y.2))⟩
instance : Mul GQ := ⟨lift2 (fun x y => (x.1 * y.1 - x.2 * y.2, x.1 * y.2 + x.2 * y.1))⟩
instance : Neg GQ := ⟨fun a => ⟨a.v.map (fun x => (-x.1, -x.2))⟩⟩
instance : Div GQ := ⟨fun a b =>
  match a.v, b.v with
  | some x, some y =>
    let n := y.1 * y.1 + y.2 * y.2
    if n = 0 then ⟨none⟩
    else ⟨some ((x.1 * y.1 + x.2 * y.2) / n, (x.2 * y.1 - x.1 * y.2) / n)⟩
  | _, _ => ⟨none⟩⟩
instance (n : Nat) : OfNat GQ n := ⟨⟨some ((n : Rat), 0)⟩⟩

def isZero (a : GQ) : Bool := a.v == some (0, 0)
def isDef (a : GQ) : Bool := a.v.isSome

def toStr (a : GQ) : String :=
  match a.v with
  | some (x, y) => if y = 0 then ratToStr x else s!"{ratToStr x},{ratToStr y}"
  | none => "undef"
instance : ToString GQ := ⟨toStr⟩

/-- parse `re` or `re,im` (each `p/q`) -/
def parse (s : String) : Option GQ :=
  match s.splitOn "," with
  | [a] => (parseRat a).map ofRat
  | [a, b] => do
      let x ← parseRat a
      let y ← parseRat b
      some (mk' x y)
  | _ => none
end GQ

/-- exact square root of a non-negative rational, if it is rational -/
def ratSqrt? (x : Rat) : Option Rat :=
  if x < 0 then none else
  let n := x.num.toNat
  let d := x.den
  let rn := Nat.sqrt n
  let rd := Nat.sqrt d
  if rn * rn = n ∧ rd * rd = d then some ((rn : Rat) / (rd : Rat)) else none

end Lcapy
