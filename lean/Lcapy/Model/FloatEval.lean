/-
  C17 -- the straight-line floating-point program that `sympy.lambdify` prints for a rational function
  (`+ - * /` and unary minus over the argument and numeric literals), run with Lean's `Float` (IEEE binary64, the same
  arithmetic as CPython / NumPy doubles; Lean 4.33's kernel reduces `Float` `+ - * /`, `ofBits`, `toBits`).
  Used for TESTS (finite tables), not theorems: `evaluate()` of the real Lcapy at a float point must be bit-for-bit the
  value of this program.  Literals arrive as bit patterns (an integer literal `n` as `float(n)`: exact for |n| < 2^53).
  No Mathlib import.
-/
namespace Lcapy.FloatEval

inductive FE where
  | x
  | c (bits : UInt64)
  | add (a b : FE)
  | sub (a b : FE)
  | mul (a b : FE)
  | div (a b : FE)
  | neg (a : FE)
deriving Repr

def FE.eval : FE → Float → Float
  | .x, v => v
  | .c b, _ => Float.ofBits b
  | .add a b, v => a.eval v + b.eval v
  | .sub a b, v => a.eval v - b.eval v
  | .mul a b, v => a.eval v * b.eval v
  | .div a b, v => a.eval v / b.eval v
  | .neg a, v => -(a.eval v)

/-- bits of the result for the argument with bits `xb` -/
def run (e : FE) (xb : UInt64) : UInt64 := (e.eval (Float.ofBits xb)).toBits

/-- a table of (program, argument bits, expected result bits) passes -/
def allPass (tbl : List (FE × UInt64 × UInt64)) : Bool := tbl.all (fun r => run r.1 r.2.1 == r.2.2)

end Lcapy.FloatEval
