/-
  C10 / C11 — `Ratfun._find_residues_sub` (lcapy/ratfun.py): residues of a strictly proper rational function
  `B / Π (x − p)^n` by substitution, repeated poles by repeated differentiation:

      for each pole p of multiplicity n (entries of orders n, n−1, …, 1, in this order):
          first entry:   denom = Π_{other poles q} (x − q)^{n_q};  expr = B/denom;        r = expr(p)
          next entries:  expr = expr.diff(x);                       r = expr(p) / (n − o)!

  The fraction is kept as a pair (numerator, denominator) of coefficient lists and differentiated by the quotient
  rule (`ratDiff`); SymPy differentiates the same function symbolically.  No Mathlib import.
  The `ec` method (`_find_residues_ec`) equates coefficients of `B = Σ r_i · cof_i`; `ecCofactors` builds the `cof_i`
  as the source does (`F[i] is not F[j] or O[j] > O[i]`).
-/
import Lcapy.Model.ILT
namespace Lcapy.Laplace

section
variable {K : Type} [Add K] [Mul K] [Neg K] [Sub K] [Div K] [OfNat K 0] [OfNat K 1]

namespace Poly
def derivAux : Nat → Poly K → Poly K
  | _, [] => []
  | n, a :: p => (ofN n * a) :: derivAux (n + 1) p

/-- formal derivative of a coefficient list (constant term first) -/
def deriv : Poly K → Poly K
  | [] => []
  | _ :: p => derivAux 1 p

def sub (p q : Poly K) : Poly K := add p (smul (-1) q)
end Poly

/-- `expr.diff(var)` for a fraction `N/D` kept as a pair: `(N'D − N D', D·D)` -/
def ratDiff (g : Poly K × Poly K) : Poly K × Poly K :=
  (Poly.sub (Poly.mul (Poly.deriv g.1) g.2) (Poly.mul g.1 (Poly.deriv g.2)), Poly.mul g.2 g.2)

/-- `expr.subs(var, x)` -/
def ratAt (g : Poly K × Poly K) (x : K) : K := Poly.eval g.1 x / Poly.eval g.2 x

/-- `m` times `ratDiff` -/
def ratDiffN : Nat → Poly K × Poly K → Poly K × Poly K
  | 0, g => g
  | m + 1, g => ratDiff (ratDiffN m g)

variable [DecidableEq K]

/-- `denom`: the factors of the OTHER poles (`F[i] is not F[j]`; entries of the same pole never have a higher order
    than its first entry), each as often as its multiplicity -/
def otherFactors (poles : List (K × Nat)) (p : K) : Poly K :=
  (poles.filter (fun x => x.1 ≠ p)).foldr (fun x acc => Poly.mul (Poly.linPow x.1 x.2) acc) [1]

/-- the entries of one pole of multiplicity `n`: `k` entries still to produce, `m` differentiations done so far,
    `g` the current `expr`; entry = (`expr(p)/m!`, `p`, order `n − m`); the divisor is GENERATED from the source
    (`Gen.residueDivisor`, tx_ilt reads `sym.factorial(M[i] - O[i])`) -/
def residuesGo (p : K) (n : Nat) : Nat → Nat → Poly K × Poly K → List (K × K × Nat)
  | 0, _, _ => []
  | k + 1, m, g => (ratAt g p / Gen.residueDivisor m, p, n - m) :: residuesGo p n k (m + 1) (ratDiff g)

def residuesAt (B : Poly K) (poles : List (K × Nat)) (p : K) (n : Nat) : List (K × K × Nat) :=
  residuesGo p n n 0 (B, otherFactors poles p)

/-- `_find_residues_sub(poles, B)` with `B` already divided by the leading coefficient of the denominator:
    `(R, P, O)` zipped, in the code's order -/
def findResiduesSub (B : Poly K) (poles : List (K × Nat)) : List (K × K × Nat) :=
  poles.flatMap (fun x => residuesAt B poles x.1 x.2)

/-- the entries `(p, o)` in the order both residue methods produce them: for each pole the orders n, n−1, …, 1 -/
def entriesOf (poles : List (K × Nat)) : List (K × Nat) :=
  poles.flatMap (fun x => (List.range x.2).map (fun m => (x.1, x.2 - m)))

/-- `_find_residues_ec`: the polynomial that multiplies the unknown `r_i` in `B = Σ r_i · cof_i`:
    the factor `(x − p_j)` of every OTHER entry `j` with `F[i] is not F[j] or O[j] > O[i]` -/
def ecCofactor (entries : List (K × Nat)) (i : Nat) : Poly K :=
  match entries[i]? with
  | none => []
  | some (pi, oi) =>
    (entries.zipIdx.filter (fun ej => ej.2 ≠ i ∧ (ej.1.1 ≠ pi ∨ ej.1.2 > oi))).foldr
      (fun ej acc => Poly.mul [-(ej.1.1), 1] acc) [1]

def ecCofactors (entries : List (K × Nat)) : List (Poly K) :=
  (List.range entries.length).map (ecCofactor entries)

/-- the factored denominator `Π (x − p)^n` -/
def factoredDenominator (poles : List (K × Nat)) : Poly K :=
  poles.foldr (fun x acc => Poly.mul (Poly.linPow x.1 x.2) acc) [1]

/-- `_prune_zero_residues` -/
def pruneZero (R : List (K × K × Nat)) : List (K × K × Nat) := R.filter (fun x => x.1 ≠ 0)

end
end Lcapy.Laplace
