/-
  MODEL of the allocation of unknown branch currents in `MNA.__init__` (lcapy/mna.py):

      for elt in self.cct.elements.values():
          if elt.need_branch_current and elt.name not in self.unknown_branch_currents:
              self.unknown_branch_currents.append(elt.name)          # may already be there as a controlling component
          if elt.need_extra_branch_current:
              self.unknown_branch_currents.append(elt.name + 'X')
          if elt.is_current_controlled:
              cname = elt.args[0]  (must name an element)
              if cname not in self.unknown_branch_currents:
                  self.unknown_branch_currents.append(cname)

  A line is abstracted to what this loop looks at.  No Mathlib import.
-/
namespace Lcapy.Netlist

structure PLine where
  name : String
  needsBranch : Bool
  needsExtra : Bool
  ctrl : Option String
deriving Repr

/-- `if elt.need_branch_current and elt.name not in self.unknown_branch_currents: append(elt.name)` -/
def step1 (c : PLine) (acc : List String) : List String :=
  if c.needsBranch && !acc.contains c.name then acc ++ [c.name] else acc
/-- `if elt.need_extra_branch_current: append(elt.name + 'X')` (unconditional) -/
def step2 (c : PLine) (acc : List String) : List String :=
  if c.needsExtra then acc ++ [c.name ++ "X"] else acc
/-- `if elt.is_current_controlled: cname = elt.args[0]; if cname not in …: append(cname)` -/
def step3 (c : PLine) (acc : List String) : List String :=
  match c.ctrl with
  | some cn => if acc.contains cn then acc else acc ++ [cn]
  | none => acc

def allocStep (acc : List String) (c : PLine) : List String := step3 c (step2 c (step1 c acc))

def alloc (cs : List PLine) : List String := cs.foldl allocStep []

end Lcapy.Netlist
