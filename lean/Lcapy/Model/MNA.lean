/-
  MODEL of modified nodal analysis as lcapy/mna.py + the `_stamp` methods of lcapy/mnacpts.py
  perform it.  A stamp is a sparse list of matrix entries; `lhs` entries (row, column, value)
  accumulate into A = [[G B],[C D]], `rhs` entries (row, value) into Z = [Is; Es].
  The code's `if n >= 0` guards (ground has index −1 and gets no row/column) are modelled by
  emitting every entry and (a) never requiring the ground row, (b) reading the ground voltage
  as 0 (`ground x`).  No Mathlib import.
-/
import Lcapy.Spec.Laws
namespace Lcapy.MNA

structure Stamp (K : Type) where
  lhs : List (Ix × Ix × K) := []
  rhs : List (Ix × K) := []

variable {K : Type} [Add K] [Mul K] [Neg K] [Sub K] [Div K] [OfNat K 0] [OfNat K 1] [OfNat K 2]

def Stamp.append (a b : Stamp K) : Stamp K := ⟨a.lhs ++ b.lhs, a.rhs ++ b.rhs⟩

open Ix

/-- B[n1,m] += 1, C[m,n1] += 1, B[n2,m] -= 1, C[m,n2] -= 1 : a branch current between two nodes
    whose branch row starts with V(n1) − V(n2) -/
def branchPattern (n1 n2 m : Nat) : List (Ix × Ix × K) :=
  [(node n1, br m, 1), (br m, node n1, 1), (node n2, br m, -1), (br m, node n2, -1)]

/-- admittance between two nodes (RC._stamp) -/
def admPattern (n1 n2 : Nat) (Y : K) : List (Ix × Ix × K) :=
  [(node n1, node n2, -Y), (node n2, node n1, -Y), (node n1, node n1, Y), (node n2, node n2, Y)]

/-- admittance of a capacitor in each analysis kind (C in DC: `eps`, then the limit eps → 0) -/
def capY (kind : Kind) (s c : K) : K :=
  match kind with
  | .dc => 0
  | .lap => s * c
  | .ivp => s * c
  | .time => 0

def indZ (kind : Kind) (s l : K) : K :=
  match kind with
  | .dc => 0
  | .lap => s * l
  | .ivp => s * l
  | .time => 0

/-- mirror of each `_stamp` -/
def stamp (kind : Kind) (s : K) : Cpt K → Stamp K
  | .R n1 n2 r => { lhs := admPattern n1 n2 (1 / r) }
  | .Y n1 n2 y => { lhs := admPattern n1 n2 y }
  | .Cap n1 n2 c v0 =>
      { lhs := admPattern n1 n2 (capY kind s c),
        rhs := match kind, v0 with
               | .ivp, some v0 => [(node n1, c * v0), (node n2, -(c * v0))]     -- Isc = C·v0
               | _, _ => [] }
  | .Ind n1 n2 m l i0 coup =>
      { lhs := branchPattern n1 n2 m ++ [(br m, br m, -(indZ kind s l))] ++
               (match kind with
                | .dc => []
                | .time => []
                | _ => coup.map (fun p => (br m, br p.1, -(s * p.2.1)))),        -- K._stamp: D[m1,m2] += −ZM
        rhs := (match kind, i0 with
                | .ivp, some i0 => [(br m, -(l * i0))]                           -- Voc = −L·i0
                | _, _ => []) ++
               (match kind with
                | .ivp => coup.map (fun p => (br m, -(icFlux p.2.1 p.2.2)))  -- K._stamp: Es[m1] += −M·i0'
                | _ => []) }
  | .V n1 n2 m v => { lhs := branchPattern n1 n2 m, rhs := [(br m, v)] }
  | .AM n1 n2 m => { lhs := branchPattern n1 n2 m }
  | .I n1 n2 i => { rhs := [(node n1, i), (node n2, -i)] }
  | .E n1 n2 n3 n4 m Ad Ac =>
      { lhs := branchPattern n1 n2 m ++ [(br m, node n3, -(Ac / 2 + Ad)), (br m, node n4, -(Ac / 2 - Ad))] }
  | .G n1 n2 n3 n4 g =>
      { lhs := [(node n1, node n3, -g), (node n1, node n4, g), (node n2, node n3, g), (node n2, node n4, -g)] }
  | .F n1 n2 mc f => { lhs := [(node n1, br mc, f), (node n2, br mc, -f)] }
  | .H n1 n2 m mc h => { lhs := branchPattern n1 n2 m ++ [(br m, br mc, -h)] }
  | .TF n1 n2 n3 n4 m a =>
      { lhs := branchPattern n1 n2 m ++
               [(node n3, br m, -a), (br m, node n3, -a), (node n4, br m, a), (br m, node n4, a)] }
  | .GY n1 n2 n3 n4 m1 m2 r =>
      { lhs := [(node n1, br m2, 1), (br m1, node n1, 1), (node n2, br m2, -1), (br m1, node n2, -1),
                (node n3, br m1, 1), (br m2, node n3, 1), (node n4, br m1, -1), (br m2, node n4, -1),
                (br m1, br m1, r), (br m2, br m2, -r)] }
  | .TR n1 n2 m a => { lhs := [(node n2, br m, 1), (br m, node n2, 1), (br m, node n1, -a)] }
  | .Open _ _ => {}
  | .TPA n1 n2 n3 n4 m a11 a12 a21 a22 =>
      -- TPA._stamp with its (n4, n3, n2, n1) = our (n1, n2, n3, n4)
      { lhs := [(node n4, node n2, a21), (node n4, node n1, -a21), (node n4, br m, a22),
                (node n3, node n2, -a21), (node n3, node n1, a21), (node n3, br m, -a22),
                (node n2, br m, -1), (node n1, br m, 1),
                (br m, node n4, -1), (br m, node n3, 1), (br m, node n2, a11), (br m, node n1, -a11),
                (br m, br m, a12)] }
  | .TPY n1 n2 n3 n4 y11 y12 y21 y22 =>
      -- TPY._stamp with its (n3, n4, n1, n2) = our (n1, n2, n3, n4)
      { lhs := [(node n3, node n3, y11), (node n3, node n4, -y11), (node n3, node n1, y12), (node n3, node n2, -y12),
                (node n4, node n3, -y11), (node n4, node n4, y11), (node n4, node n1, -y12), (node n4, node n2, y12),
                (node n1, node n3, y21), (node n1, node n4, -y21), (node n1, node n1, y22), (node n1, node n2, -y22),
                (node n2, node n3, -y21), (node n2, node n4, y21), (node n2, node n1, -y22), (node n2, node n2, y22)] }
  | .HY n1 n2 m n3 n4 mc y isc h =>
      -- CCVS._stamp with a controlling component that has no branch current of its own
      { lhs := branchPattern n1 n2 m ++ [(br m, br mc, -h), (br mc, br mc, 1), (br mc, node n3, -y), (br mc, node n4, y)],
        rhs := [(br mc, -isc)] }
  | .SP n1 n2 n3 n4 m c1 c2 c4 =>
      { lhs := [(node n3, br m, 1), (br m, node n3, 1), (br m, node n1, -c1), (br m, node n2, -c2), (br m, node n4, -c4)] }

/-- the extra row by which `CCVS._stamp` defines the current through an admittance-type controlling component,
    `D[mc,mc] += 1, C[mc,n3] -= Y, C[mc,n4] += Y, Es[mc] -= Isc`.  EVERY CCVS that names the component stamps it
    (`+=`), so with several of them the row is a multiple of itself: the solutions do not change
    (`Props/C01.lean: dup_row_same_solutions`) but the assembled matrix does. -/
def ctrlRow (n3 n4 mc : Nat) (y isc : K) : Stamp K :=
  { lhs := [(br mc, br mc, 1), (br mc, node n3, -y), (br mc, node n4, y)], rhs := [(br mc, -isc)] }

def stampAll (kind : Kind) (s : K) (cs : List (Cpt K)) : Stamp K :=
  cs.foldr (fun c acc => (stamp kind s c).append acc) {}

/-- read the unknown vector with the ground voltage forced to zero -/
def ground (x : Ix → K) : Ix → K
  | node 0 => 0
  | i => x i

def lhsSum (r : Ix) (x : Ix → K) : List (Ix × Ix × K) → K
  | [] => 0
  | (r', c, v) :: t => (if r' = r then v * x c else 0) + lhsSum r x t

def rhsSum (r : Ix) : List (Ix × K) → K
  | [] => 0
  | (r', v) :: t => (if r' = r then v else 0) + rhsSum r t

/-- row `r` of `A x − Z` -/
def residual (st : Stamp K) (x : Ix → K) (r : Ix) : K :=
  lhsSum r (ground x) st.lhs - rhsSum r st.rhs

/-- `x` solves the MNA system: every row except the (absent) ground row vanishes -/
def Solves (kind : Kind) (s : K) (cs : List (Cpt K)) (x : Ix → K) : Prop :=
  ∀ r, r ≠ node 0 → residual (stampAll kind s cs) x r = 0

/-- branch currents owned by a component (`need_branch_current`, `need_extra_branch_current`) -/
def owned : Cpt K → List Nat
  | .Ind _ _ m _ _ _ => [m]
  | .V _ _ m _ => [m]
  | .E _ _ _ _ m _ _ => [m]
  | .H _ _ m _ _ => [m]
  | .TF _ _ _ _ m _ => [m]
  | .GY _ _ _ _ m1 m2 _ => [m1, m2]
  | .AM _ _ m => [m]
  | .TR _ _ m _ => [m]
  | .TPA _ _ _ _ m _ _ _ _ => [m]
  | .SP _ _ _ _ m _ _ _ => [m]
  | .HY _ _ m _ _ mc _ _ _ => [m, mc]
  | _ => []

/-- impedance and initial-voltage term that `MNA._solve` uses to reconstruct the current of a component that has
    no unknown branch current: `I = (V1 − V2 − elt.V0) / elt.Z` for types R, NR, C, Y, Z.  `none`: infinite impedance
    (a capacitor at dc, `Z = zoo`, for which Lcapy reports 0). -/
def solveZV0 (kind : Kind) (s : K) : Cpt K → Option (Option K × K)
  | .R _ _ r => some (some r, 0)
  | .Y _ _ y => some (some (1 / y), 0)
  | .Cap _ _ c v0 =>
      match kind with
      | .dc => some (none, 0)
      | .time => some (none, 0)
      | .lap => some (some (1 / (s * c)), 0)
      | .ivp => some (some (1 / (s * c)), match v0 with | some v0 => v0 / s | none => 0)   -- C.V0 = v0/s
  | _ => none

/-- the current `MNA._solve` stores in `_Idict` for each component (passive sign convention: `current_sign` is the
    identity): the solved unknown for components that own a branch current, the reconstruction formula for R/C/Y,
    `−Isc` for a current source; `none`: no entry (`G`, `F`, `O`, two-port and summing blocks without a branch …) -/
def reportedCurrent (kind : Kind) (s : K) (x : Ix → K) (c : Cpt K) : Option K :=
  match c with
  | .Ind _ _ m _ _ _ => some (x (br m))
  | .V _ _ m _ => some (x (br m))
  | .E _ _ _ _ m _ _ => some (x (br m))
  | .H _ _ m _ _ => some (x (br m))
  | .HY _ _ m _ _ _ _ _ _ => some (x (br m))
  | .AM _ _ m => some (x (br m))
  | .TF _ _ _ _ m _ => some (x (br m))
  | .GY _ _ _ _ _ m2 _ => some (x (br m2))
  | .TR _ _ m _ => some (x (br m))
  | .TPA _ _ _ _ m _ _ _ _ => some (x (br m))
  | .SP _ _ _ _ m _ _ _ => some (x (br m))
  | .I _ _ i => some (-i)
  | .R n1 n2 _ | .Y n1 n2 _ | .Cap n1 n2 _ _ =>
      match solveZV0 kind s c with
      | some (some z, v0) => some ((volt x n1 - volt x n2 - v0) / z)
      | some (none, _) => some 0
      | none => none
  | _ => none
/-- entry (r, c) of the assembled matrix, and entry r of the right-hand side (diagnostics) -/
def entryA (st : Stamp K) (r c : Ix) : K :=
  st.lhs.foldr (fun e acc => (if e.1 = r ∧ e.2.1 = c then e.2.2 else 0) + acc) 0
def entryZ (st : Stamp K) (r : Ix) : K := rhsSum r st.rhs

end Lcapy.MNA
