/-
  MODEL of the classification of a netlist into analysis kinds and of source killing
  (lcapy/netlistmixin.py `independent_source_groups`, `kill`, `kill_except`, `_kill`, `sources`;
   lcapy/netlist.py `_analysis_groups`, `_subcircuits_make` (keys of `cct.sub`); lcapy/analysis.py `Analysis`;
   lcapy/superposition.py `kinds`, `has_dc`, `has_ac`, `is_dc`, `is_ac`, `has_transient`, `is_causal`;
   lcapy/mnacpts.py `_kill` / `_zero` of V, I, C, L).

  A source is given by the FORM in which its value is written (keyword `dc`, `ac`, `step`, `s`, `noise`, or a
  time-domain expression in braces) and by its raw term list (Model/Decompose.lean).  The kinds a source takes
  part in are the keys of its decomposition: 'dc' when the dc sum is non-zero, one angular frequency per
  non-zero accumulated phasor, 'transient' when transient terms are present, its identifier for a noise source.
    * initial-value problem (some C/L has an initial condition): ONE group 'ivp' listing every source once per
      kind it has, noise sources dropped;
    * no reactive component and no s-domain source: ONE group 'time' (same listing) + one group per noise identifier;
    * otherwise one group per kind.
  No Mathlib import.
-/
import Lcapy.Model.Decompose
import Lcapy.Model.Reassemble
import Lcapy.Model.CRat
namespace Lcapy.Groups
open Lcapy Lcapy.Decompose

inductive Form where
  | kwdc | kwac | kwstep | kws | texpr
  | noise (nid : String)
deriving DecidableEq, Repr

structure Src where
  name : String
  n1 : String
  n2 : String
  form : Form
  terms : List (Term Rat)

inductive Line where
  | src (s : Src)
  | react (name n1 n2 val : String) (ic : Option Rat)            -- C, L
  | dep (name : String) (rest : List String) (ctrl : Option String)  -- E, G (no control name); F, H (control name)
  | other (name : String) (rest : List String)

inductive Key where
  | dc | ac (w : Rat) | transient | noise (nid : String) | ivp | time
deriving DecidableEq, Repr

/-- the kind a single term belongs to -/
def kindOf : Term Rat → Key
  | .dc _ => .dc
  | .ac w _ _ => .ac w
  | .tr _ _ => .transient

/-- `Voc.kinds(transform=True)` / `Isc.kinds(transform=True)`: keys of the decomposition -/
def srcKinds (s : Src) : List Key :=
  match s.form with
  | .noise nid => [.noise nid]
  | _ =>
    let d := decompose s.terms
    (if d.dc != 0 then [Key.dc] else []) ++
    ((d.ac.filter (fun p => p.2.1 != 0 || p.2.2 != 0)).map (fun p => Key.ac p.1)) ++
    (if d.tr.isEmpty then [] else [Key.transient])

/-- the Laplace-domain value (at the point `s0`) of the part of a source value that the group of kind `k` takes:
    what `SuperSolve.run` feeds to the group's sub-netlist (`dc` sum, accumulated phasor of ω, transient part),
    transformed as `Superposition.laplace()` transforms it -/
def partLap (XL : Nat → Rat) (s0 : Rat) (d : Decomp Rat) : Key → Rat
  | .dc => d.dc / s0
  | .ac w => phasorLap (acPart d w).1 (-(acPart d w).2) w s0
  | .transient => trPart XL d
  | _ => 0

/-- group `k` of `g` lists the source name `n` -/
def listed (g : List (Key × List String)) (k : Key) (n : String) : Prop := ∃ l, (k, l) ∈ g ∧ n ∈ l

def Key.isNoise : Key → Bool
  | .noise _ => true
  | _ => false

def insertG (g : List (Key × List String)) (k : Key) (name : String) : List (Key × List String) :=
  match g with
  | [] => [(k, [name])]
  | (k', l) :: t => if k' = k then (k', l ++ [name]) :: t else (k', l) :: insertG t k name

def sources (ls : List Line) : List Src :=
  ls.filterMap (fun l => match l with | .src s => some s | _ => none)

/-- `independent_source_groups(transform=True)` -/
def sourceGroups (ls : List Line) : List (Key × List String) :=
  (sources ls).foldl (fun g s => (srcKinds s).foldl (fun g k => insertG g k s.name) g) []

def hasIC (ls : List Line) : Bool :=
  ls.any (fun l => match l with | .react _ _ _ _ (some _) => true | _ => false)

def zeroIC (ls : List Line) : Bool :=
  ls.all (fun l => match l with | .react _ _ _ _ (some v) => v == 0 | _ => true)

def reactive (ls : List Line) : Bool :=
  ls.any (fun l => match l with | .react .. => true | _ => false)

def hasS (ls : List Line) : Bool := (sources ls).any (fun s => s.form == .kws)

/-- `_analysis_groups()`: the sub-netlists Lcapy builds (keys of `cct.sub`) with their source lists -/
def analysisGroups (ls : List Line) : List (Key × List String) :=
  let g := sourceGroups ls
  let plain := (g.filter (fun p => !p.1.isNoise)).flatMap (·.2)
  if hasIC ls then [(Key.ivp, plain)]
  else if !(reactive ls) && !(hasS ls) then (Key.time, plain) :: g.filter (fun p => p.1.isNoise)
  else g

/-! ### the `Analysis` record -/

def srcIsNoise (s : Src) : Bool := match s.form with | .noise _ => true | _ => false
def srcHasDc (s : Src) : Bool := !(srcIsNoise s) && (decompose s.terms).dc != 0
def srcHasAc (s : Src) : Bool := !(srcIsNoise s) && (decompose s.terms).ac.any (fun p => p.2.1 != 0 || p.2.2 != 0)
def srcHasTr (s : Src) : Bool := !(srcIsNoise s) && !(decompose s.terms).tr.isEmpty
/-- `is_dc`: only a dc part -/
def srcIsDc (s : Src) : Bool := srcHasDc s && !(srcHasAc s) && !(srcHasTr s)
/-- `is_ac`: the value is STORED as phasors only — true for the `ac` keyword, false for a sinusoid written as a
    time-domain expression (it is stored under the key 't') -/
def srcIsAc (s : Src) : Bool := s.form == .kwac
/-- `has_transient` of the source value: a component stored in the time domain ('t') or in the s-domain ('s');
    every form except the `ac` keyword and noise is stored that way -/
def srcHasTransientKey (s : Src) : Bool := !(srcIsNoise s) && s.form != .kwac
/-- `is_causal`: only a time-domain transient part (s-domain values do not carry the causal assumption) -/
def srcIsCausal (s : Src) : Bool := srcHasTr s && !(srcHasDc s) && !(srcHasAc s) && s.form != .kws

structure Flags where
  has_ic : Bool
  zeroic : Bool
  has_s : Bool
  has_ac : Bool
  has_dc : Bool
  has_transient : Bool
  ac_count : Nat
  dc_count : Nat
  causal : Bool
  reactive : Bool
  ac : Bool
  dc : Bool
  time_domain : Bool
  ivp : Bool
  independent_sources : List String
  dependent_sources : List String
  control_sources : List String
  reactances : List String
  ics : List String

def flags (ls : List Line) : Flags :=
  let ss := sources ls
  let n := ss.length
  let acn := (ss.filter srcIsAc).length
  let dcn := (ss.filter srcIsDc).length
  let ic := hasIC ls
  { has_ic := ic, zeroic := zeroIC ls, has_s := hasS ls,
    has_ac := ss.any srcHasAc, has_dc := ss.any srcHasDc, has_transient := ss.any srcHasTransientKey,
    ac_count := acn, dc_count := dcn,
    causal := ss.all srcIsCausal && zeroIC ls,
    reactive := reactive ls,
    ac := acn > 0 && n == acn && !ic, dc := dcn > 0 && n == dcn && !ic,
    time_domain := !(reactive ls) && !(hasS ls), ivp := ic,
    independent_sources := ss.map (·.name),
    dependent_sources := ls.filterMap (fun l => match l with | .dep n _ _ => some n | _ => none),
    control_sources := ls.filterMap (fun l => match l with | .dep _ _ (some c) => some c | _ => none),
    reactances := ls.filterMap (fun l => match l with | .react n .. => some n | _ => none),
    ics := ls.filterMap (fun l => match l with | .react n _ _ _ (some _) => some n | _ => none) }

/-! ### kill / kill_except -/

/-- summary of a netlist line after killing: what remains of it -/
inductive Killed where
  | wire (n1 n2 : String)                 -- a killed voltage source (`_netmake_W`)
  | open_ (n1 n2 : String)                -- a killed current source (`_netmake_O`)
  | zeroed (name n1 n2 : String)          -- a killed source that controls an F/H: value zeroed, line kept (`_zero`)
  | kept (name : String)                  -- copied
  | noIC (name : String)                  -- a C/L whose initial condition was removed
deriving DecidableEq, Repr

def controlNames (ls : List Line) : List String :=
  ls.filterMap (fun l => match l with | .dep _ _ (some c) => some c | _ => none)

/-- `_kill(sourcenames)` -/
def killNames (names : List String) (ls : List Line) : List Killed :=
  ls.map (fun l => match l with
    | .src s =>
      if names.contains s.name then
        if (controlNames ls).contains s.name then .zeroed s.name s.n1 s.n2
        else if s.name.startsWith "V" then .wire s.n1 s.n2 else .open_ s.n1 s.n2
      else .kept s.name
    | .react n _ _ _ ic => if names.contains "ICs" && ic.isSome then .noIC n else .kept n
    | .dep n _ _ => .kept n
    | .other n _ => .kept n)

/-- `kill(*args)`: no argument = everything -/
def kill (args : List String) (ls : List Line) : List Killed :=
  if args.isEmpty then killNames ((sources ls).map (·.name) ++ ["ICs"]) ls else killNames args ls

/-- `kill_except(*args)` -/
def killExcept (args : List String) (ls : List Line) : List Killed :=
  killNames (((sources ls).map (·.name)).filter (fun n => !args.contains n) ++ (if args.contains "ICs" then [] else ["ICs"])) ls

end Lcapy.Groups
