/-
  C12 model: what lcapy/fourier.py `FourierTransformer.term` (and `InverseFourierTransformer`, which is the same
  routine with `is_inverse = True`) does with one term

        const · e^{j2πθt} · K(a·t + b)

  of the modelled class, using the table generated from the source (`Gen.table`, source order = dispatch order,
  with the code's per-entry choice of `sf` versus `f`), and the f ↔ ω ↔ F ↔ Ω conversions generated from
  fexpr.py / omegaexpr.py / normfexpr.py / normomegaexpr.py (`Gen.conversions`).

  Mirrored control flow of `term`:
    * `exps` (complex exponential factors) are split off; `foo = args/st`, `st = -t` for the inverse transformer;
      `other == 1`  ⇒ `const1·DiracDelta(f − foo/(j2π))`;  otherwise `Q = term(other)` and `Q.subs(f, f − foo/(j2π))`;
    * constant ⇒ `expr·DiracDelta(f)·const` (raw `f`);
    * table lookup of `other` (first matching branch);
    * otherwise `similarity_shift`: `term(K(t), t, f/scale)/|scale| · exp(j2π·sf/scale·shift)`;
    * anything else goes to SymPy (`none` here: not modelled, only judged by the oracle).
  No Mathlib import.
-/
import Lcapy.Spec.Fourier
import Lcapy.Generated.FourierTable
namespace Lcapy.Fourier.Model
open Lcapy.Fourier

/-- the `alt`-th table branch for atom `k` in dispatch order (`alt = 0`: the branch the dispatcher takes;
    larger values: later branches, reachable only through an alternative spelling such as `t*sign(t)`, or dead) -/
def lookup (k : Kind) (alt : Nat) : Option GEntry := (Gen.table.filter (fun e => e.kind == k))[alt]?

/-- the similarity/shift step of `term` applied to the table value `base` of `K(t)`, with the exponents the source
    actually uses (`Gen.similarity`, `Gen.shiftPhase`, read from the code by the translator):
      `result = self.term(expr2, t, f*scale^se) / abs(scale)^re ;  result *= exp(I*2*pi * v * scale^pe * shift^qe)` -/
def simShift (inv : Bool) (a b : Rat) (base : E) : Option E :=
  match Gen.similarity, Gen.shiftPhase with
  | some (se, re), some (useSf, pe, qe) =>
      let vs : Rat := if useSf && inv then -1 else 1
      some (smulE (CQ.ofRat (1 / zpow (rabs a) re)) (modE (vs * zpow a pe * zpow b qe) (scaleE (zpow a se) base)))
  | _, _ => none

/-- result of `self.term(K(a t + b), t, f)` (unit constant, no complex-exponential factor) -/
def otherTerm (pi : Rat) (inv : Bool) (alt : Nat) (k : Kind) (a b : Rat) : Option E :=
  let sg : Rat := if inv then -1 else 1
  match k with
  | .one => some [⟨1, 0, 0, .delta 0, 1, 0⟩]
  | .cpole 1 al =>
      -- `1/(c1 t + c0)`, c1 = j2πa, c0 = α + j2πb, s = 2πj/c1 = 1/a:  s·exp(c0·v·s)·Heaviside(−v)
      -- pole at −c0/c1 = jα/(2πa) − b/a: imaginary part has the sign of Re(α)·a
      Gen.cpoleUsesSf.map fun useSf =>
        let v : Rat := if useSf && inv then -1 else 1
        if Gen.cpoleThreeWay && al.re * a < 0 then
          -- −s·exp(c0·v·s)·Heaviside(v)
          [⟨CQ.ofRat (-1 / a), 0, v * b / a, .expu 0 (CQ.smul (-1 / a) al), v, 0⟩]
        else
          [⟨CQ.ofRat (1 / a), 0, v * b / a, .expu 0 (CQ.smul (1 / a) al), -v, 0⟩]
  | .expu 0 al =>
      -- `exp(c1 t + c0)·u(t)` branch needs the plain argument (otherwise similarity_shift fails: SymPy)
      if a == 1 && b == 0 then
        Gen.expuUsesSf.map fun useSf => [⟨1, 0, 0, .cpole 1 al, if useSf && inv then -1 else 1, 0⟩]
      else none
  | .ramp =>
      -- `t*Heaviside(t)`: `similarity_shift` only rewrites function arguments, so the bare factor is not rescaled;
      -- only the plain argument is modelled (anything else is left to the oracle)
      if a == 1 && b == 0 then (lookup .ramp alt).map fun e => entryE pi inv e.terms else none
  | .inv1 =>
      if b == 0 then
        -- 1/(a t) = (1/a)·(1/t): constant factor, table branch `other == 1/t`
        (lookup .inv1 alt).map fun e => smulE (CQ.ofRat (1 / a)) (entryE pi inv e.terms)
      else
        -- 1/(a t + b) is taken by the `1/(c1 t + c0)` branch (`foo.is_complex` holds for a real symbol):
        -- s = 2πj/a,  s·exp(b·v·s)·Heaviside(−v)
        Gen.cpoleUsesSf.map fun useSf =>
          let v : Rat := if useSf && inv then -1 else 1
          if Gen.cpoleThreeWay then
            -- real pole: −(s/2)·exp(b·v·s)·sign(v)
            [⟨⟨0, -pi / a⟩, 0, v * b / a, .sgn, v, 0⟩]
          else
            [⟨⟨0, 2 * pi / a⟩, 0, v * b / a, .step, -v, 0⟩]
  | .inv2 =>
      -- 1/(a t)² = (1/a²)·(1/t²); a shifted argument has no function to drive `similarity_shift`: SymPy
      if b == 0 then (lookup .inv2 alt).map fun e => smulE (CQ.ofRat (1 / (a * a))) (entryE pi inv e.terms) else none
  | .trap al =>
      -- `trap(t, alpha)` branch: `alpha^p · sincn(f) · sincn(alpha f)` (the exponent p is read from the source); even in f
      Gen.trapAlphaPow.bind fun p => simShift inv a b [⟨CQ.ofRat (zpow al p), 0, 0, .sincp al, 1, 0⟩]
  | k =>
      (lookup k alt).bind fun e => simShift inv a b (entryE pi inv e.terms)

/-- `const · e^{j2πθt} · K(a t + b)` through `term` -/
def modelTerm (pi : Rat) (inv : Bool) (alt : Nat) (t : Term) : Option E :=
  let sg : Rat := if inv then -1 else 1
  (otherTerm pi inv alt t.k t.a t.b).map fun q =>
    (shiftE (sg * t.th) q).map fun u => { u with c := t.c * u.c, ph := u.ph + t.ph }

def modelSum (pi : Rat) (inv : Bool) (alt : Nat) (x : E) : Option E :=
  (x.mapM (modelTerm pi inv alt)).map List.flatten

def findConv (src : Dom) (dst : Option Dom) : Option GConv :=
  Gen.conversions.find? fun c => c.src == src && c.dst == dst
def convFactor (pi dt : Rat) (c : GConv) : Rat := monomial pi dt (c.e2, c.epi, c.edt)

/-- `x(v_D)`: transform to `f`, then `result(var)` (the conversion method of fexpr.py) -/
def modelFT (pi dt : Rat) (d : Dom) (alt : Nat) (x : E) : Option E := do
  let s ← modelSum pi false alt x
  if d == .f then some s else
    let c ← findConv .f (some d)
    some (scaleE (convFactor pi dt c) s)

/-- `X(t)` for `X` given in the variable of domain `d`: `self.subs(k·f)` then the inverse transformer -/
def modelIFT (pi dt : Rat) (d : Dom) (alt : Nat) (g : E) : Option E := do
  let c ← findConv d none
  modelSum pi true alt (scaleE (convFactor pi dt c) g)

/-- `X_D(v_E)`: conversion method of the class of domain `d` -/
def modelConv (pi dt : Rat) (d e : Dom) (g : E) : Option E :=
  -- transform.py: an argument of the expression's own class is a plain substitution (`expr.subs(arg)`)
  if d == e then some g else do
    let c ← findConv d (some e)
    some (scaleE (convFactor pi dt c) g)

end Lcapy.Fourier.Model
