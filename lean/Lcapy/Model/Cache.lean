/-
  C16 -- executable state-machine model of the caching / bookkeeping layer of lcapy's Netlist
  (netlist.py, netlistmixin.py, netfile.py, nodes.py, node.py).  Mathlib-free.

  What is modelled
  * a *world* of netlist instances; each instance has its ordered element dictionary
    (`_elements`, name ↦ component; re-adding a name keeps the position), its node table
    (`Nodes`: per node `_count` = electrically counted attachments and `len(_connected)`),
    and its per-instance memo slots (`cached_property` entries in `__dict__`, `hasattr` memos);
  * the class-level `lru_cache(1)` slots: one entry per decorated method for the whole process,
    keyed by the instance; `cache_clear()` is class wide;
  * every memo entry records the *version* (element list) it was computed from, the op index,
    and whether every memo it read while being computed was itself up to date (`clean`);
  * `_invalidate` drops exactly the slots in `cfg.cleared`; `add`/`remove` call it iff the
    generated flags say so; `Netlist.__init__` calls it iff `cfg.initInvalidates`;
    overriding a component name detaches the old component iff `cfg.overrideDetaches`.
  The `Config` is GENERATED from the source text (Lcapy/Generated/Caches.lean), so a change to
  `_invalidate`, `add`, `remove`, `_cpt_add`, or a new memoised member changes the model.

  Values of analyses are not modelled: a memoised result is represented by its provenance
  (version, clean).  Two runs that deliver the same provenance for every slot a query reads
  deliver the same answer for every interpretation of the analyses as functions of the elements.
-/
namespace Lcapy.Cache

inductive MemoKind where
  | lru | cprop | hasattr
deriving DecidableEq, Repr

/-- which of a component's nodes a detaching loop `for node in <iter>: node.remove(cpt)` visits:
    `all` for `cpt.nodes`, `slice a b` for `cpt.nodes[a:b]` (GENERATED from the loop's iteration expression) -/
inductive DetachSel where
  | all
  | slice (a : Nat) (b : Option Nat)
deriving DecidableEq, Repr

def DetachSel.pick : DetachSel → List String → List String
  | .all, ns => ns
  | .slice a none, ns => ns.drop a
  | .slice a (some b), ns => (ns.take b).drop a

structure Config where
  memoised : List (String × MemoKind)
  cleared : List String
  addInvalidates : Bool
  /-- `add` of a multi-line string (the form `Circuit(text)` uses; `_add` returns None for it) is
      followed by `_invalidate()` as well, i.e. the call is not conditional on the returned component -/
  addMultiInvalidates : Bool
  removeInvalidates : Bool
  initInvalidates : Bool
  overrideDetaches : Bool
  /-- `Node.remove` deletes a node only when no connection remains (otherwise `_delete` raises
      if an uncounted component, `O`/`A`, is still attached) -/
  keepConnectedNode : Bool
  deps : List (String × List String)
  reads : List (String × List String)
  spawns : List String
  /-- nodes `Netlist.remove` detaches the component from -/
  removeSel : DetachSel := .all
  /-- nodes the override branch of `_cpt_add` detaches the old component from -/
  overrideSel : DetachSel := .all
  /-- `(query, slot)`: the public read-only member `query` hands the cached object of `slot` to a helper that
      calls mutating methods on it (AST scan of the package) -/
  damages : List (String × String) := []
  /-- a component whose construction / registration raises is detached again from the nodes its constructor
      attached it to -/
  failedAddDetaches : Bool := true
  /-- `add` reaches `_invalidate()` also when `_add` raises (it stands in a `finally`) -/
  addInvalidatesOnError : Bool := true

structure Elt where
  name : String
  kind : String
  nodes : List String
  args : String
deriving DecidableEq, Repr

/-- `Node.append`: `if cpt.type not in ('A', 'O'): self._count += 1` -/
def Elt.counted (e : Elt) : Bool := !(e.kind == "A" || e.kind == "O")

abbrev Ver := List Elt

structure Memo where
  slot : String
  ver : Ver
  stamp : Nat
  clean : Bool
deriving DecidableEq, Repr

structure NodeEnt where
  name : String
  count : Nat
  deg : Nat
deriving DecidableEq, Repr

abbrev NodeTab := List NodeEnt

structure Inst where
  elts : List Elt
  tab : NodeTab
  memo : List Memo
deriving DecidableEq, Repr

structure World where
  insts : List Inst
  lru : List (Nat × Memo)
  clock : Nat
deriving DecidableEq, Repr

/-! ### configuration lookups -/

def Config.kindOf (cfg : Config) (s : String) : Option MemoKind := cfg.memoised.lookup s
def Config.depsOf (cfg : Config) (s : String) : List String := (cfg.deps.lookup s).getD []
def Config.readsOf (cfg : Config) (q : String) : List String := (cfg.reads.lookup q).getD []
def Config.isCleared (cfg : Config) (s : String) : Bool := cfg.cleared.contains s

/-! ### element dictionary (`OrderedDict`) -/

/-- `self._elements[cpt.name] = cpt` : an existing key keeps its position -/
def upsert : List Elt → Elt → List Elt
  | [], e => [e]
  | x :: xs, e => if x.name = e.name then e :: xs else x :: upsert xs e

def findElt (es : List Elt) (nm : String) : Option Elt := es.find? (fun e => e.name = nm)

/-- `self._elements.pop(name)` -/
def eraseName : List Elt → String → List Elt
  | [], _ => []
  | x :: xs, nm => if x.name = nm then eraseName xs nm else x :: eraseName xs nm

/-! ### node table -/

def countOf : NodeTab → String → Nat
  | [], _ => 0
  | x :: xs, n => if x.name = n then x.count else countOf xs n

def degOf : NodeTab → String → Nat
  | [], _ => 0
  | x :: xs, n => if x.name = n then x.deg else degOf xs n

/-- `Nodes.add(node_name, cpt, cct)` followed by `Node.append(cpt)` -/
def attach : NodeTab → String → Bool → NodeTab
  | [], n, c => [⟨n, if c then 1 else 0, 1⟩]
  | x :: xs, n, c =>
    if x.name = n then ⟨x.name, if c then x.count + 1 else x.count, x.deg + 1⟩ :: xs
    else x :: attach xs n c

def attachElt (t : NodeTab) (e : Elt) : NodeTab := e.nodes.foldl (fun t n => attach t n e.counted) t

def buildTab (es : List Elt) : NodeTab := es.foldl attachElt []

/-- `dict.pop(node_name)` -/
def dropNode : NodeTab → String → NodeTab
  | [], _ => []
  | x :: xs, n => if x.name = n then dropNode xs n else x :: dropNode xs n

/-- `Node.remove(cpt)`: drop one connection, `_count -= 1` when counted, and when the count
    reaches zero `Nodes._delete` (`dict.pop`: no entry with that key remains), which raises if
    connections remain.  `none` = the raise. -/
def detach (keep : Bool) : NodeTab → String → Bool → Option NodeTab
  | [], _, _ => some []
  | x :: xs, n, c =>
    if x.name = n then
      let cnt := if c then x.count - 1 else x.count
      let dg := x.deg - 1
      if cnt = 0 then
        (if dg = 0 then some (dropNode xs n)
         else if keep then some (⟨x.name, cnt, dg⟩ :: xs) else none)
      else some (⟨x.name, cnt, dg⟩ :: xs)
    else (detach keep xs n c).map (x :: ·)

/-- the loop `for node in cpt.nodes: node.remove(cpt)`; on a raise the table is left as it was
    at that moment (`Sum.inl`), which is what Python does -/
def detachAll (keep : Bool) : NodeTab → List String → Bool → NodeTab ⊕ NodeTab
  | t, [], _ => .inr t
  | t, n :: ns, c =>
    match detach keep t n c with
    | none =>
      -- `_delete` raised after `_connected`/`_count` of this node were already updated
      .inl (t.map (fun x => if x.name = n then ⟨x.name, if c then x.count - 1 else x.count, x.deg - 1⟩ else x))
    | some t' => detachAll keep t' ns c

/-! ### memo stores -/

def clearMemos (cfg : Config) (ms : List Memo) : List Memo := ms.filter (fun m => !cfg.isCleared m.slot)
def clearLru (cfg : Config) (l : List (Nat × Memo)) : List (Nat × Memo) := l.filter (fun p => !cfg.isCleared p.2.slot)

/-- `_invalidate()` called on instance `i` -/
def invalidate (cfg : Config) (w : World) (i : Nat) : World :=
  match w.insts[i]? with
  | none => w
  | some inst => { w with insts := w.insts.set i { inst with memo := clearMemos cfg inst.memo },
                          lru := clearLru cfg w.lru }

/-- the memo entry a read of slot `d` on instance `i` would find -/
def liveMemo (cfg : Config) (w : World) (i : Nat) (inst : Inst) (d : String) : Option Memo :=
  match cfg.kindOf d with
  | some .lru => (w.lru.find? (fun p => p.1 = i ∧ p.2.slot = d)).map (·.2)
  | some _ => inst.memo.find? (fun m => m.slot = d)
  | none => none

def memoGood (E : Ver) (m : Memo) : Bool := decide (m.ver = E) && m.clean

/-- read memoised member `d` of instance `i`: use the entry if present, otherwise compute and
    store it.  Returns the entry that was used. -/
def readSlot (cfg : Config) (w : World) (i : Nat) (d : String) : World × Option Memo :=
  match w.insts[i]? with
  | none => (w, none)
  | some inst =>
    match cfg.kindOf d with
    | none => (w, none)
    | some k =>
      match liveMemo cfg w i inst d with
      | some m => (w, some m)
      | none =>
        let E := inst.elts
        let clean := (cfg.depsOf d).all (fun x =>
          match liveMemo cfg w i inst x with
          | some m => memoGood E m
          | none => true)
        let m : Memo := ⟨d, E, w.clock, clean⟩
        -- computing it may construct a Netlist, whose __init__ clears the class-level caches
        let l1 := if cfg.spawns.contains d && cfg.initInvalidates then clearLru cfg w.lru else w.lru
        match k with
        | .lru => ({ w with lru := (i, m) :: l1.filter (fun p => p.2.slot ≠ d) }, some m)
        | _ => ({ w with lru := l1, insts := w.insts.set i { inst with memo := m :: inst.memo } }, some m)

/-- what a query observes of the memo layer: for every slot it reads, the provenance used -/
abbrev Prov := List (String × Option (Ver × Bool))

def readSlots (cfg : Config) (i : Nat) : World → List String → World × Prov
  | w, [] => (w, [])
  | w, d :: ds =>
    let (w1, m) := readSlot cfg w i d
    let (w2, ps) := readSlots cfg i w1 ds
    (w2, (d, m.map (fun m => (m.ver, m.clean))) :: ps)

/-- slots whose cached object the member `q` mutates -/
def Config.damagedBy (cfg : Config) (q : String) : List String := (cfg.damages.filter (fun p => p.1 = q)).map (·.2)

/-- a cached object that was mutated no longer reflects the elements it was computed from -/
def dirty (ds : List String) (m : Memo) : Memo := if ds.contains m.slot then { m with clean := false } else m

/-- effect of a query that mutates cached objects of instance `i` -/
def damage (cfg : Config) (w : World) (i : Nat) (q : String) : World :=
  match w.insts[i]? with
  | none => w
  | some inst =>
    { w with insts := w.insts.set i { inst with memo := inst.memo.map (dirty (cfg.damagedBy q)) },
             lru := w.lru.map (fun p => if p.1 = i then (p.1, dirty (cfg.damagedBy q) p.2) else p) }

def query (cfg : Config) (w : World) (i : Nat) (q : String) : World × Prov :=
  (damage cfg (readSlots cfg i w (cfg.readsOf q)).1 i q, (readSlots cfg i w (cfg.readsOf q)).2)

/-! ### operations -/

inductive Op where
  /-- `Circuit()` -/
  | new
  /-- public `add(line)` on instance `i` -/
  | add (i : Nat) (e : Elt)
  /-- public `add("line1\nline2...")`: `_add` of every line, then one `_invalidate` -/
  | addLines (i : Nat) (es : List Elt)
  /-- `_add(line)`: no `_invalidate` -/
  | addRaw (i : Nat) (e : Elt)
  /-- public `remove(name)` -/
  | remove (i : Nat) (name : String)
  /-- a query / analysis on instance `i` -/
  | query (i : Nat) (q : String)
  /-- `copy`, `subs`, `kill`, `select`, `simplify`, ...: reads `pre` on the source, then builds a
      new instance from `es` with `_new()` and `_add` -/
  | derive (i : Nat) (pre : String) (es : List Elt)
  /-- public `add` of a string whose lines `es` are fine and whose next line raises: before the component is
      constructed (`late = false`: unknown type, missing node, too many fields -- nothing was touched) or after
      its constructor attached it to its nodes (`late = true`: bad value expression, reserved name) -/
  | addFail (i : Nat) (es : List Elt) (e : Elt) (late : Bool)
deriving DecidableEq, Repr

def Op.target : Op → Option Nat
  | .new => none
  | .add i _ => some i
  | .addRaw i _ => some i
  | .addLines i _ => some i
  | .remove i _ => some i
  | .query i _ => some i
  | .derive i _ _ => some i
  | .addFail i _ _ _ => some i

/-- `Netlist.__init__`: a new empty instance; `_invalidate()` there clears the class-level slots -/
def newInst (cfg : Config) (w : World) : World :=
  { w with insts := w.insts ++ [⟨[], [], []⟩],
           lru := if cfg.initInvalidates then clearLru cfg w.lru else w.lru }

/-- `_add` = parse (the new component attaches itself to its nodes) + `_cpt_add`.
    `none` in the second component = an exception escaped. -/
def addRawInst (cfg : Config) (inst : Inst) (e : Elt) : Inst × Bool :=
  let t1 := attachElt inst.tab e
  match findElt inst.elts e.name with
  | some old =>
    if cfg.overrideDetaches then
      match detachAll cfg.keepConnectedNode t1 (cfg.overrideSel.pick old.nodes) old.counted with
      | .inr t2 => ({ inst with elts := upsert inst.elts e, tab := t2 }, true)
      | .inl t2 => ({ inst with tab := t2 }, false)
    else ({ inst with elts := upsert inst.elts e, tab := t1 }, true)
  | none => ({ inst with elts := upsert inst.elts e, tab := t1 }, true)

def addRaw (cfg : Config) (w : World) (i : Nat) (e : Elt) : World × Bool :=
  match w.insts[i]? with
  | none => (w, false)
  | some inst =>
    let (inst', ok) := addRawInst cfg inst e
    ({ w with insts := w.insts.set i inst' }, ok)

def add (cfg : Config) (w : World) (i : Nat) (e : Elt) : World × Bool :=
  let (w1, ok) := addRaw cfg w i e
  -- an exception in `_add` skips the `_invalidate()` that follows it
  if ok && cfg.addInvalidates then (invalidate cfg w1 i, ok) else (w1, ok)

/-- the loop `for line in lines: self._add(line)`; an exception leaves the later lines out -/
def addLinesInst (cfg : Config) : Inst → List Elt → Inst × Bool
  | inst, [] => (inst, true)
  | inst, e :: es =>
    if (addRawInst cfg inst e).2 then addLinesInst cfg (addRawInst cfg inst e).1 es
    else ((addRawInst cfg inst e).1, false)

def addLines (cfg : Config) (w : World) (i : Nat) (es : List Elt) : World × Bool :=
  match w.insts[i]? with
  | none => (w, false)
  | some inst =>
    let r := addLinesInst cfg inst es
    let w1 : World := { w with insts := w.insts.set i r.1 }
    if r.2 && cfg.addMultiInvalidates then (invalidate cfg w1 i, r.2) else (w1, r.2)

/-- the raising line: the constructor attached the component to its nodes and nobody detaches it -/
def failInst (cfg : Config) (inst : Inst) (e : Elt) (late : Bool) : Inst :=
  if late && !cfg.failedAddDetaches then { inst with tab := attachElt inst.tab e } else inst

/-- `add(text)` in which the line after `es` raises: the lines before it were added, the exception skips the
    `_invalidate()` unless it stands in a `finally` -/
def addFail (cfg : Config) (w : World) (i : Nat) (es : List Elt) (e : Elt) (late : Bool) : World × Bool :=
  match w.insts[i]? with
  | none => (w, false)
  | some inst =>
    let r := addLinesInst cfg inst es
    let inst' := if r.2 then failInst cfg r.1 e late else r.1
    let w1 : World := { w with insts := w.insts.set i inst' }
    (if cfg.addInvalidatesOnError then invalidate cfg w1 i else w1, false)

def remove (cfg : Config) (w : World) (i : Nat) (nm : String) : World × Bool :=
  match w.insts[i]? with
  | none => (w, false)
  | some inst =>
    match findElt inst.elts nm with
    | none => (w, false)                       -- ValueError('Unknown component') before any change
    | some e =>
      let w0 := if cfg.removeInvalidates then invalidate cfg w i else w
      match w0.insts[i]? with
      | none => (w0, false)
      | some inst0 =>
        match detachAll cfg.keepConnectedNode inst0.tab (cfg.removeSel.pick e.nodes) e.counted with
        | .inr t => ({ w0 with insts := w0.insts.set i { inst0 with elts := eraseName inst0.elts nm, tab := t } }, true)
        | .inl t => ({ w0 with insts := w0.insts.set i { inst0 with tab := t } }, false)

def derive (cfg : Config) (w : World) (i : Nat) (pre : String) (es : List Elt) : World :=
  let w1 := (query cfg w i pre).1
  let w2 := newInst cfg w1
  let j := w1.insts.length
  es.foldl (fun w e => (addRaw cfg w j e).1) w2

/-- one step; the Bool tells whether the operation completed without an exception -/
def step (cfg : Config) (w : World) (op : Op) : World × Bool :=
  let w := { w with clock := w.clock + 1 }
  match op with
  | .new => (newInst cfg w, true)
  | .add i e => add cfg w i e
  | .addRaw i e => addRaw cfg w i e
  | .addLines i es => addLines cfg w i es
  | .remove i nm => remove cfg w i nm
  | .query i q => ((query cfg w i q).1, true)
  | .derive i pre es => (derive cfg w i pre es, true)
  | .addFail i es e late => addFail cfg w i es e late

def run (cfg : Config) : World → List Op → World
  | w, [] => w
  | w, op :: ops => run cfg (step cfg w op).1 ops

def World.empty : World := ⟨[], [], 0⟩

/-- `Circuit(str(cct))`: a fresh process state holding one instance built from the elements -/
def build (es : List Elt) : World := ⟨[⟨es, buildTab es, []⟩], [], 0⟩

def eltsOf (w : World) (i : Nat) : List Elt := (w.insts[i]?.map (·.elts)).getD []

/-- the ABSTRACT state: what the netlists are (elements and node tables of every instance), without any memo -/
def World.abs (w : World) : List (List Elt × NodeTab) := w.insts.map (fun x => (x.elts, x.tab))

/-- forget every memo entry (per-instance and class-level) and the clock -/
def stripI (x : Inst) : Inst := { x with memo := [] }
def strip (w : World) : World := ⟨w.insts.map stripI, [], 0⟩

/-! ### observations -/

/-- answer of the memo layer to query `q` on instance `i` -/
def answer (cfg : Config) (w : World) (i : Nat) (q : String) : Prov := (query cfg w i q).2

/-- `Node.is_dangling` -/
def nodeDangling (t : NodeTab) (n : String) : Bool := countOf t n ≤ 1

/-- `Cpt.is_dangling` -/
def cptDangling (t : NodeTab) (e : Elt) : Bool :=
  match e.nodes with
  | [a, b] => nodeDangling t a || nodeDangling t b
  | _ => false

/-- names kept by one pass of `_remove_dangling` with the default `keep_nodes`
    (`['0']` when node 0 exists): a dangling component survives iff it hangs on node 0 -/
def removeDanglingPass (es : List Elt) (cnt : String → Nat) (deg : String → Nat) : List String :=
  (es.filter (fun e =>
    let dang := match e.nodes with
      | [a, b] => decide (cnt a ≤ 1) || decide (cnt b ≤ 1)
      | _ => false
    let keep := e.nodes.any (fun n => decide (cnt n ≤ 1) && n == "0" && decide (deg "0" ≠ 0))
    !dang || keep)).map (·.name)

/-- any observation that is a function of the element list and of the node counters -/
def structural {α : Type} (f : List Elt → (String → Nat) → (String → Nat) → α) (inst : Inst) : α :=
  f inst.elts (countOf inst.tab) (degOf inst.tab)

/-! ### specification counters: incidence counts of an element list -/

def occ (n : String) : List String → Nat
  | [] => 0
  | x :: xs => (if x = n then 1 else 0) + occ n xs

/-- number of counted attachments of node `n` -/
def incCount : List Elt → String → Nat
  | [], _ => 0
  | e :: es, n => (if e.counted then occ n e.nodes else 0) + incCount es n


/-- number of attachments of node `n` -/
def incDeg : List Elt → String → Nat
  | [], _ => 0
  | e :: es, n => occ n e.nodes + incDeg es n

/-- contribution of one component to the counters of node `n` -/
def contribC (e : Elt) (n : String) : Nat := if e.counted then occ n e.nodes else 0
def contribD (e : Elt) (n : String) : Nat := occ n e.nodes

/-- dictionary keys are unique -/
def uniqueNames : List Elt → Prop
  | [] => True
  | e :: es => (∀ x ∈ es, x.name ≠ e.name) ∧ uniqueNames es

end Lcapy.Cache
