/-
  C17 -- base vocabulary for the generated special-function definitions
  (`Lcapy/Generated/SpecialFn.lean`, written by harness/translate/tx_specialfn.py).

  All values are exact rationals.  `Option Rat` is used for "value with a hole":
  `none` = the quantity is not a rational number the model can exhibit
  (transcendental value such as sin(pi/3)/(pi/3), +inf, 0/0, an unevaluated SymPy
  function application).  No Mathlib import.
-/
namespace Lcapy.EvalBase

/-- Python/SymPy `abs` on a rational -/
def rabs (x : Rat) : Rat := if x < 0 then -x else x

def oadd : Option Rat → Option Rat → Option Rat
  | some a, some b => some (a + b)
  | _, _ => none
def osub : Option Rat → Option Rat → Option Rat
  | some a, some b => some (a - b)
  | _, _ => none
def omul : Option Rat → Option Rat → Option Rat
  | some a, some b => some (a * b)
  | _, _ => none
/-- division; a zero divisor is `none` (ZeroDivisionError / zoo / inf / nan) -/
def odiv : Option Rat → Option Rat → Option Rat
  | some a, some b => if b = 0 then none else some (a / b)
  | _, _ => none
def oneg : Option Rat → Option Rat
  | some a => some (-a)
  | none => none

/-- SymPy `.is_integer` on a rational number -/
def isInt (x : Rat) : Bool := x.den == 1
/-- SymPy `.is_even` on a rational number (False for non-integers) -/
def isEven (x : Rat) : Bool := x.den == 1 && x.num % 2 == 0
/-- SymPy `.is_odd` on a rational number (False for non-integers) -/
def isOdd (x : Rat) : Bool := x.den == 1 && x.num % 2 != 0

/-- `(-1) ** e` for a rational exponent: defined (rational) only for integer `e` -/
def negOnePow (e : Rat) : Option Rat :=
  if e.den == 1 then (if e.num % 2 == 0 then some 1 else some (-1)) else none

/-- `np.round` / `round`: identity on integers (the only place the code applies it is under an
integrality guard); nearest integer otherwise (ties away from the guard's reach are irrelevant) -/
def rround (x : Rat) : Rat := if x.den == 1 then x else ((x + 1/2).floor : Int)

/-! ### Transcendental tails.

The sinc family leaves the rational world except at a few points.  These helpers are the
hand-written (trusted, validated by the correspondence run) reading of the transcendental
sub-expressions the translator recognises textually. -/

/-- `sin(pi x) / (pi x)` for `x ≠ 0` (numeric: `np.sin(np.pi*arg)/(np.pi*arg)`, a residue of
size 1e-16 at integers, taken as 0; SymPy: exactly 0 at integers).  Irrational elsewhere. -/
def sinPiOverPi (x : Rat) : Option Rat := if isInt x then some 0 else none

/-- `sin(x) / x` for rational `x ≠ 0`: transcendental (Lindemann), never exhibited. -/
def sinOver (_x : Rat) : Option Rat := none

/-- SymPy's own `sinc` (unnormalised): `1` at `0`, `sin(x)/x` elsewhere (hand reading of SymPy) -/
def sympySinc (x : Rat) : Option Rat := if x = 0 then some 1 else sinOver x

/-- exact `sin(M pi x) / (M sin(pi x))` (what SymPy computes): `0/0 = nan` at integer `x`;
`0` when `M x` is an integer and `x` is not; otherwise not exhibited (algebraic, mostly irrational). -/
def psincExact (M x : Rat) : Option Rat :=
  if M = 0 then none
  else if isInt x then none
  else if isInt (M * x) then some 0 else none

/-- floating-point `np.sin(M*np.pi*arg) / (M * np.sin(np.pi*arg))`: at a non-zero integer `arg`
both sines are rounding residues and the quotient is arbitrary (observed: psinc(3, 5) ↦ 2.93),
so it is *not* a value (`none`); elsewhere as `psincExact`. -/
def psincFloat (M x : Rat) : Option Rat := psincExact M x

/-- the floating-point test `np.sin(np.pi * arg) == 0`: true only for `arg = 0`
(`sin(fl(pi) n)` is a non-zero residue for every non-zero integer double). -/
def floatSinPiIsZero (x : Rat) : Bool := x == 0

end Lcapy.EvalBase
