/-
  The sequence-transform models that are EXECUTED (property C13): `nseq.ZT` / `zseq.IZT` in the form selected by
  the flags that harness/translate/tx_dtseq.py regenerates from the source text (`Generated/DTSeq.lean`).
  Used by both the native driver (Driver/C13.lean) and the theorem `seq_izt_zt_executed` (Props/C13b.lean).
  No Mathlib.
-/
import Lcapy.Model.DT
import Lcapy.Generated.DTSeq
namespace Lcapy.DT
open Lcapy.Generated.DTSeq

section
variable {K : Type} [Add K] [Mul K] [Neg K] [Sub K] [Div K] [OfNat K 0] [OfNat K 1]

/-- `zseq.IZT` with the sequence index: element i is `terms[i] * z**(n0 + i)` -/
def seqIZT (terms : List K) (n0 : Int) (z : K) : List K := pdilateFrom z (zpowK z n0) terms

/-- `nseq.ZT` as the source has it: list position (`z**(-ni)`) or sequence index (`z**(-self.n[ni])`) -/
def seqZTModel (vals : List K) (n0 : Int) (z : K) : List K :=
  if ztUsesSequenceIndex then seqZT vals n0 z else seqZTPy vals z

/-- first index of the sequence returned by `nseq.ZT` (kept, or re-enumerated from 0) -/
def seqZTIndex (n0 : Int) : Int := if ztKeepsIndices then n0 else 0

/-- `zseq.IZT` as the source has it, applied to a z-domain sequence whose first index is `i0` -/
def seqIZTModel (terms : List K) (i0 : Int) (z : K) : List K :=
  if iztUsesSequenceIndex then seqIZT terms i0 z else seqIZTPy terms z

/-- first index of the sequence returned by `zseq.IZT` -/
def seqIZTIndex (i0 : Int) : Int := if iztKeepsIndices then i0 else 0

end
end Lcapy.DT
