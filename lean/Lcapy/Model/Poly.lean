/-
  Coefficient-list polynomials over any field-like carrier (C11, C19).  No Mathlib import:
  this file is linked into the native drivers `drv_c11`, `drv_c19`, where it is instantiated at
  `CQ` (checked Gaussian rationals: division by zero is an error value).

  A polynomial is a `List K`, LOW-ORDER COEFFICIENT FIRST (`[a0, a1, a2]` is a0 + a1 x + a2 x^2);
  trailing zeros are allowed and never change the value.  SymPy's `Poly.all_coeffs()` is the
  reverse of `trim p`.

  Mirrors what lcapy/ratfun.py and lcapy/expr.py obtain from `sympy.Poly`:
  `LC`, `EC`, `monic`, `degree`, `div` (long division), `as_expr`, plus the Euclidean steps
  used by `Expr.continued_fraction_coeffs` / `continued_fraction_inverse_coeffs`.
-/
namespace Lcapy.Poly

/-! ## checked Gaussian rationals (driver carrier) -/

/-- exact complex numbers with rational parts; `none` = undefined (a division by zero happened) -/
structure CQ where
  v : Option (Rat × Rat)
deriving DecidableEq

namespace CQ
def ofRat (r : Rat) : CQ := ⟨some (r, 0)⟩
def lift2 (f : Rat × Rat → Rat × Rat → Rat × Rat) (a b : CQ) : CQ :=
  match a.v, b.v with
  | some x, some y => ⟨some (f x y)⟩
  | _, _ => ⟨none⟩
instance : Add CQ := ⟨lift2 (fun x y => (x.1 + y.1, x.2 + y.2))⟩
instance : Sub CQ := ⟨lift2 (fun x y => (x.1 - y.1, x.2 - y.2))⟩
instance : Mul CQ := ⟨lift2 (fun x y => (x.1 * y.1 - x.2 * y.2, x.1 * y.2 + x.2 * y.1))⟩
instance : Neg CQ := ⟨fun a => ⟨a.v.map (fun x => (-x.1, -x.2))⟩⟩
instance : Div CQ := ⟨fun a b =>
  match a.v, b.v with
  | some x, some y =>
    let n := y.1 * y.1 + y.2 * y.2
    if n = 0 then ⟨none⟩
    else ⟨some ((x.1 * y.1 + x.2 * y.2) / n, (x.2 * y.1 - x.1 * y.2) / n)⟩
  | _, _ => ⟨none⟩⟩
instance (n : Nat) : OfNat CQ n := ⟨⟨some ((n : Rat), 0)⟩⟩

def ratStr (x : Rat) : String := if x.den = 1 then toString x.num else s!"{x.num}/{x.den}"
def toStr (a : CQ) : String :=
  match a.v with
  | some (x, y) => if y = 0 then ratStr x else s!"{ratStr x},{ratStr y}"
  | none => "undef"
instance : ToString CQ := ⟨toStr⟩

def parseRat (s : String) : Option Rat :=
  match s.splitOn "/" with
  | [n] => n.toInt?.map (fun i => (i : Rat))
  | [n, d] => do
      let a ← n.toInt?
      let b ← d.toNat?
      if b = 0 then none else some ((a : Rat) / (b : Rat))
  | _ => none

/-- parse `re` or `re,im` (each `p/q`) -/
def parse (s : String) : Option CQ :=
  match s.splitOn "," with
  | [a] => (parseRat a).map ofRat
  | [a, b] => do
      let x ← parseRat a
      let y ← parseRat b
      some ⟨some (x, y)⟩
  | _ => none
end CQ

/-! ## polynomials -/

variable {K : Type} [Add K] [Mul K] [Neg K] [Sub K] [Div K] [OfNat K 0] [OfNat K 1]

/-- `a ^ n` by repeated multiplication (no `Monoid` available here) -/
def npow (a : K) : Nat → K
  | 0 => 1
  | n + 1 => a * npow a n

/-- value at `x` (Horner) -/
def eval : List K → K → K
  | [], _ => 0
  | a :: p, x => a + x * eval p x

def add : List K → List K → List K
  | [], q => q
  | p, [] => p
  | a :: p, b :: q => (a + b) :: add p q

def smul (c : K) (p : List K) : List K := p.map (fun a => c * a)
def neg (p : List K) : List K := p.map (fun a => -a)
def sub (p q : List K) : List K := add p (neg q)

def mul : List K → List K → List K
  | [], _ => []
  | a :: p, q => add (smul a q) (0 :: mul p q)

def pow (p : List K) : Nat → List K
  | 0 => [1]
  | n + 1 => mul p (pow p n)

/-- `c * x^k` -/
def monomial (c : K) (k : Nat) : List K := List.replicate k 0 ++ [c]

/-- the monic linear factor `x - r` -/
def linear (r : K) : List K := [-r, 1]

/-- `(x - r) · p`, computed as `x·p − r·p` (length and leading coefficient are evident) -/
def mulLinear (r : K) (p : List K) : List K := add (0 :: p) (smul (-r) p)

/-- `(x - r)^n · p` -/
def mulLinearPow (r : K) : Nat → List K → List K
  | 0, p => p
  | n + 1, p => mulLinear r (mulLinearPow r n p)

/-- `Π (x - r)^n` over a root table (`sym.roots` dictionary, or a list with multiplicity 1) -/
def prodRoots : List (K × Nat) → List K
  | [] => [1]
  | (r, n) :: rest => mulLinearPow r n (prodRoots rest)

section dec
variable [DecidableEq K]

/-- drop trailing zero coefficients -/
def trim : List K → List K
  | [] => []
  | a :: p =>
    match trim p with
    | [] => if a = 0 then [] else [a]
    | b :: q => a :: b :: q

/-- `Poly.is_zero` -/
def isZero (p : List K) : Bool := (trim p).isEmpty

/-- `Poly.LC()`: leading coefficient (0 for the zero polynomial) -/
def lc (p : List K) : K := (trim p).getLastD 0

/-- `Poly.degree()` as a natural number (0 for constants and for the zero polynomial) -/
def degree (p : List K) : Nat := (trim p).length - 1

/-- `Poly.EC()`: the last non-zero coefficient, i.e. the coefficient of the lowest power present -/
def ec : List K → K
  | [] => 0
  | a :: p => if a = 0 then ec p else a

/-- number of low-order zero coefficients (the power of the `ET()` monomial) -/
def lowDeg : List K → Nat
  | [] => 0
  | a :: p => if a = 0 then lowDeg p + 1 else 0

/-- `Poly.monic()`: divide by the leading coefficient (the zero polynomial is left alone) -/
def monic (p : List K) : List K :=
  if lc p = 0 then trim p else smul (1 / lc p) (trim p)

/-- equality as polynomials (coefficient lists up to trailing zeros) -/
def polyEq (p q : List K) : Bool := trim p = trim q

/-- Long division by a divisor whose LAST list entry is its (non-zero) leading coefficient.
    Structural recursion on the dividend: with `A = a + x A'` and `A' = Q' B + R'`,
    `A = x Q' B + (a + x R')` and `a + x R'` needs at most one reduction step. -/
def divmodT (A B : List K) : List K × List K :=
  match A with
  | [] => ([], [])
  | a :: A' =>
    let qr := divmodT A' B
    let S := a :: qr.2
    if S.length < B.length then (0 :: qr.1, S)
    else
      let c := S.getLastD 0 / B.getLastD 0
      (c :: qr.1, sub S.dropLast (smul c B.dropLast))

/-- `sympy.div(A, B)`: quotient and remainder.  For `B = 0` the coefficient division is a
    division by zero (an error value in the driver; SymPy raises ZeroDivisionError). -/
def divmod (A B : List K) : List K × List K := divmodT A (trim B)

/-- Euclid's algorithm with explicit fuel (`fuel > degree` of either argument suffices). -/
def gcdFuel : Nat → List K → List K → List K
  | 0, a, _ => a
  | n + 1, a, b => if isZero b then a else gcdFuel n b (divmod a b).2

def gcd (a b : List K) : List K := monic (gcdFuel (a.length + b.length + 1) a b)

/-- `sympy.cancel(B / A)`: divide both by the gcd.  The divisions are CHECKED (remainders must
    vanish); if the check fails the pair is returned unchanged, so the value is preserved in
    every case without relying on the correctness of `gcd`. -/
def cancel (B A : List K) : List K × List K :=
  let g := gcd B A
  if isZero g then (B, A) else
  let qb := divmod B g
  let qa := divmod A g
  if isZero qb.2 && isZero qa.2 then (trim qb.1, trim qa.1) else (B, A)

/-- `rootsCheck A roots`: `A = LC(A) · Π (x − r)^n` as polynomials (exact multiplication). -/
def rootsCheck (A : List K) (roots : List (K × Nat)) : Bool :=
  polyEq A (smul (lc A) (prodRoots roots))

end dec

end Lcapy.Poly
