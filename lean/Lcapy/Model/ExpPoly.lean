/-
  Operations on formal causal signals `ExpPoly K` (Spec/Signal.lean) — the time-domain side of the
  transform theorems of C09 — and the checked Gaussian rationals `GQ` at which the drivers run them.
  No Mathlib import.  Every operation is a small total function; its transform law is proved in
  Proofs/Laplace.lean and quoted in Props/C09.lean.

      smul a f      a · f(t)
      delay T f     f(t − T)
      expWeight a f e^{a t} · f(t)
      tmul f        t · f(t)
      deriv f       distributional derivative  D f
      scale a f     f(a t)              (a > 0)
      conv f g      (f * g)(t) = ∫ f(τ) g(t−τ) dτ
      integ f       ∫_{0⁻}^{t} f(τ) dτ   ( = conv f u )
-/
import Lcapy.Spec.Signal
namespace Lcapy.Laplace

section
variable {K : Type} [Add K] [Mul K] [Neg K] [Sub K] [Div K] [OfNat K 0] [OfNat K 1]

def Term.smul (a : K) : Term K → Term K
  | .ep c k p d => .ep (a * c) k p d
  | .dl c n d => .dl (a * c) n d

def smul (a : K) (f : ExpPoly K) : ExpPoly K := f.map (Term.smul a)

def Term.delay (T : K) : Term K → Term K
  | .ep c k p d => .ep c k p (d + T)
  | .dl c n d => .dl c n (d + T)

def delay (T : K) (f : ExpPoly K) : ExpPoly K := f.map (Term.delay T)

/-- distributional derivative of one term:
    `D[(t−d)^k/k! e^{p(t−d)} u(t−d)] = p·(same) + (k = 0 ? δ(t−d) : (t−d)^{k−1}/(k−1)! e^{p(t−d)} u(t−d))` -/
def Term.deriv : Term K → ExpPoly K
  | .ep c 0 p d => [.ep (c * p) 0 p d, .dl c 0 d]
  | .ep c (k + 1) p d => [.ep (c * p) (k + 1) p d, .ep c k p d]
  | .dl c n d => [.dl c (n + 1) d]

def deriv (f : ExpPoly K) : ExpPoly K := f.flatMap Term.deriv

def derivN : Nat → ExpPoly K → ExpPoly K
  | 0, f => f
  | n + 1, f => deriv (derivN n f)

/-- `e^{a t} · c·δ^{(n)}(t−d)` expanded into delta derivatives, through the product rule
    `g δ^{(n+1)} = D(g δ^{(n)}) − g' δ^{(n)}` with `g = e^{at}`, `g' = a g`. -/
def expDelta (E : K → K) (a c d : K) : Nat → ExpPoly K
  | 0 => [.dl (c * E (a * d)) 0 d]
  | n + 1 => deriv (expDelta E a c d n) ++ smul (-a) (expDelta E a c d n)

/-- multiply by `e^{a t}`:  `e^{at} (t−d)^k/k! e^{p(t−d)} = e^{ad} (t−d)^k/k! e^{(p+a)(t−d)}` -/
def Term.expWeight (E : K → K) (a : K) : Term K → ExpPoly K
  | .ep c k p d => [.ep (c * E (a * d)) k (p + a) d]
  | .dl c n d => expDelta E a c d n

def expWeight (E : K → K) (a : K) (f : ExpPoly K) : ExpPoly K := f.flatMap (Term.expWeight E a)

/-- multiply by `t`:  `t = (t−d) + d`;  `t δ^{(n)}(t−d) = d δ^{(n)}(t−d) − n δ^{(n−1)}(t−d)` -/
def Term.tmul : Term K → ExpPoly K
  | .ep c k p d => [.ep (c * ofN (k + 1)) (k + 1) p d, .ep (c * d) k p d]
  | .dl c 0 d => [.dl (c * d) 0 d]
  | .dl c (n + 1) d => [.dl (c * d) (n + 1) d, .dl (-(c * ofN (n + 1))) n d]

def tmul (f : ExpPoly K) : ExpPoly K := f.flatMap Term.tmul

/-- time scaling `f(a t)`, `a > 0`:  `δ^{(n)}(a t − d) = a^{−(n+1)} δ^{(n)}(t − d/a)` -/
def Term.scale (a : K) : Term K → Term K
  | .ep c k p d => .ep (c * pw a k) k (p * a) (d / a)
  | .dl c n d => .dl (c / pw a (n + 1)) n (d / a)

def scale (a : K) (f : ExpPoly K) : ExpPoly K := f.map (Term.scale a)

/-- partial fractions of `c / ((s−p)^a (s−q)^b)`, `p ≠ q`, as `[(coefficient, order, pole)]`, by the
    recursion `1/((s−p)(s−q)) = (1/(p−q)) (1/(s−q)·… )`:
    `c/((s−p)^{a+1}(s−q)^{b+1}) = c/(p−q) · [ 1/((s−p)^{a+1}(s−q)^b) − 1/((s−p)^a (s−q)^{b+1}) ]`. -/
def pfr (p q : K) : Nat → Nat → K → List (K × Nat × K)
  | 0, b, c => [(c, b, q)]
  | a + 1, 0, c => [(c, a + 1, p)]
  | a + 1, b + 1, c => pfr p q (a + 1) b (c / (p - q)) ++ pfr p q a (b + 1) (-(c / (p - q)))
termination_by a b => a + b

variable [DecidableEq K]

/-- convolution of two basis terms (delays add) -/
def Term.conv : Term K → Term K → ExpPoly K
  | .ep c1 k1 p1 d1, .ep c2 k2 p2 d2 =>
      if p1 = p2 then [.ep (c1 * c2) (k1 + k2 + 1) p1 (d1 + d2)]
      else (pfr p1 p2 (k1 + 1) (k2 + 1) (c1 * c2)).map (fun (c, o, r) => Term.ep c (o - 1) r (d1 + d2))
  | .dl c1 n1 d1, .dl c2 n2 d2 => [.dl (c1 * c2) (n1 + n2) (d1 + d2)]
  | .dl c1 n1 d1, .ep c2 k2 p2 d2 => derivN n1 [.ep (c1 * c2) k2 p2 (d1 + d2)]
  | .ep c1 k1 p1 d1, .dl c2 n2 d2 => derivN n2 [.ep (c1 * c2) k1 p1 (d1 + d2)]

def conv (f g : ExpPoly K) : ExpPoly K := f.flatMap (fun x => g.flatMap (fun y => Term.conv x y))

/-- running integral from 0⁻ = convolution with the unit step -/
def integ (f : ExpPoly K) : ExpPoly K := conv f [.ep 1 0 0 0]

/-- derivative of a whole-axis signal: the jump at the origin is measured from `x(0⁻)`,
    so `D x = D(post as a causal signal) − x(0⁻) δ(t)` on `t ≥ 0⁻`. -/
def Signal.deriv (x : Signal K) : Signal K :=
  { pre := x.pre.flatMap (fun (c, k, p) => match k with
        | 0 => [(c * p, 0, p)]
        | k + 1 => [(c * p, k + 1, p), (c, k, p)]),
    post := Laplace.deriv x.post ++ [.dl (-(pre0 x.pre)) 0 0] }

end

/-! ### Checked Gaussian rationals -/

/-- `re + j·im` over `Rat`; `none` = error value (division by zero), as in `CRat`. -/
structure GQ where
  v : Option (Rat × Rat)
deriving DecidableEq

namespace GQ
def mk2 (re im : Rat) : GQ := ⟨some (re, im)⟩
def ofRat (r : Rat) : GQ := ⟨some (r, 0)⟩
def undef : GQ := ⟨none⟩
def J : GQ := ⟨some (0, 1)⟩
def lift2 (f : Rat × Rat → Rat × Rat → Rat × Rat) (a b : GQ) : GQ :=
  match a.v, b.v with
  | some x, some y => ⟨some (f x y)⟩
  | _, _ => ⟨none⟩
instance : Add GQ := ⟨lift2 (fun x y => (x.1 + y.1, x.2 + y.2))⟩
instance : Sub GQ := ⟨lift2 (fun x y => (x.1 - y.1, x.2 - y.2))⟩
instance : Mul GQ := ⟨lift2 (fun x y => (x.1 * y.1 - x.2 * y.2, x.1 * y.2 + x.2 * y.1))⟩
instance : Neg GQ := ⟨fun a => ⟨a.v.map (fun x => (-x.1, -x.2))⟩⟩
instance : Div GQ := ⟨fun a b =>
  match a.v, b.v with
  | some x, some y =>
    let n := y.1 * y.1 + y.2 * y.2
    if n = 0 then ⟨none⟩ else ⟨some ((x.1 * y.1 + x.2 * y.2) / n, (x.2 * y.1 - x.1 * y.2) / n)⟩
  | _, _ => ⟨none⟩⟩
instance (n : Nat) : OfNat GQ n := ⟨⟨some ((n : Rat), 0)⟩⟩
def conj (a : GQ) : GQ := ⟨a.v.map (fun x => (x.1, -x.2))⟩

private def r2s (x : Rat) : String := if x.den = 1 then toString x.num else s!"{x.num}/{x.den}"
/-- `p/q` when real, `p/q,r/t` otherwise, `undef` for the error value -/
def toStr (a : GQ) : String :=
  match a.v with
  | some (x, y) => if y = 0 then r2s x else s!"{r2s x},{r2s y}"
  | none => "undef"
instance : ToString GQ := ⟨toStr⟩
end GQ

end Lcapy.Laplace
