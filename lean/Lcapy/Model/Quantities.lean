/-
  Executable MODEL of Lcapy's quantity / units / domain algebra (property C18).

  Mirrors, branch by branch,
    lcapy/expr.py     Expr.__mul__, __truediv__, __compat_add__, __add__/__sub__, __eq__, __pow__
    lcapy/exprmap.py  exprmap
    lcapy/exprdomain.py  _class_by_quantity, as_constant, change
    lcapy/units.py    Units.simplify_units (only as far as *equality* of canonical units goes)
    per-domain hooks  _mul/_div/_add_compatible_domains, _mul_domain, _div_domain,
                      _class_by_quantity of texpr.py, nexpr.py, jfexpr.py, jomegaexpr.py, phasor.py
  over tables (`Tables`) that the translator tx_tables regenerates from /repo on every run
  (Lcapy/Generated/Quantities.lean).  Everything is a total function; the error branches of the
  code are explicit `Outcome.err` values.

  Not modelled: the operators of NoiseExpression (noise domains) and of Superposition, the
  sequence classes, phasors with different angular frequencies (all phasors share omega).
  No Mathlib import.
-/
import Lcapy.Spec.Dim
namespace Lcapy.QModel
open Lcapy.Dim

structure ClassRow where
  dom : Domain
  q : Quantity
  clsDom : Domain          -- the class's own `domain` attribute
  clsQ : Quantity          -- the class's own `quantity` attribute
  units : Option U         -- `_default_units` (none: the generic expression classes have none)
  deriving DecidableEq, Repr

structure DomainRow where
  dom : Domain
  units : U                -- domain_units
  isConstant : Bool        -- is_constant_domain
  isTransform : Bool       -- is_transform_domain
  deriving DecidableEq, Repr

structure QuantityRow where
  q : Quantity
  isRatio : Bool
  isImmittance : Bool
  isSignal : Bool
  isTransfer : Bool
  isUndefined : Bool       -- `is_undefined` as the MRO resolves it (True unless the mixin says False)
  deriving DecidableEq, Repr

structure TransformRow where
  src : Domain
  method : String
  dst : Domain
  scale : Option U         -- units_scale argument of `self.change`
  direct : Bool            -- `return self.change(...)`: the scaled units survive to the caller
  deriving DecidableEq, Repr

/-- structural facts about the operator code, read by the translator -/
structure Flags where
  divRestoresUnits : Bool    -- `__truediv__` does `x.units = xunits` after `as_constant()` (as `__mul__`)
  powSetsUnits : Bool        -- `__pow__` (general exponent) returns the generic class with `units ** n`
  recipSetsUnits : Bool      -- the mixins' `__rtruediv__` set `units = x.units / self.units`
  omegaNeedsQuantity : Bool  -- the omega-domain cases of `__compat_add__` sit under a quantity test
  canonFoldsHertz : Bool     -- `simplify_units` writes Hz as 1/s in units that have no named equivalent
  canonicalOnlyPrinting : Bool  -- every read of `state.canonical_units` sits in a `_pexpr` printing property
  recipKeepsDomain : Bool    -- the mixins' `__rtruediv__` build the reciprocal with `self._class_by_quantity(...)`
  deriving DecidableEq, Repr

structure Tables where
  mul : List (Quantity × Quantity × Quantity)
  div : List (Quantity × Quantity × Quantity)
  classes : List ClassRow
  domains : List DomainRow
  quantities : List QuantityRow
  exprmap : List (Quantity × Domain × Domain)
  transforms : List TransformRow
  knownDims : List Dim3
  flags : Flags

structure Cfg where
  loose : Bool
  check : Bool
  canonical : Bool
  deriving DecidableEq, Repr

/-- an operand as far as the operator code looks at it -/
structure Opd where
  dom : Domain
  q : Quantity
  units : U
  zero : Bool              -- `.sympy == 0`
  unch : Bool              -- `.is_unchanging` (value does not depend on the domain variable)
  const : Bool             -- `.is_constant` (value has no free symbols at all)
  deriving DecidableEq, Repr

inductive Err | domains | quantities | units
  deriving DecidableEq, Repr

inductive Outcome
  | ok (dom : Domain) (q : Quantity) (units : U)
  | err (e : Err)
  deriving DecidableEq, Repr

/-! ## table access -/

/-- dict lookup `key in mapping` / `mapping[key]` -/
def lookup2 (t : List (Quantity × Quantity × Quantity)) (a b : Quantity) : Option Quantity :=
  match t with
  | [] => none
  | (x, y, r) :: rest => if x = a ∧ y = b then some r else lookup2 rest a b

variable (T : Tables)

def isConst (d : Domain) : Bool :=
  match T.domains.find? (fun r => r.dom == d) with
  | some r => r.isConstant
  | none => false

def domainUnits (d : Domain) : U :=
  match T.domains.find? (fun r => r.dom == d) with
  | some r => r.units
  | none => U.one

def qrow (q : Quantity) : QuantityRow :=
  match T.quantities.find? (fun r => r.q == q) with
  | some r => r
  | none => ⟨q, false, false, false, false, true⟩

def isRatio (q : Quantity) : Bool := (qrow T q).isRatio
def isImmittance (q : Quantity) : Bool := (qrow T q).isImmittance
def isTransfer (q : Quantity) : Bool := (qrow T q).isTransfer
/-- `x.is_undefined` (not the same as `x.quantity == 'undefined'`) -/
def isUndefinedFlag (q : Quantity) : Bool := (qrow T q).isUndefined

/-- `cls._default_units`, with the `except: self._units = S.One` fallback of `Expr.__init__` -/
def defaultUnits (d : Domain) (q : Quantity) : U :=
  match T.classes.find? (fun r => r.dom == d && r.q == q) with
  | some r => r.units.getD U.one
  | none => U.one

/-- lcapy/exprmap.py: the domain of the class chosen for (quantity, domain) -/
def exprmapM (q : Quantity) (d : Domain) : Domain :=
  if q = .undefined then d
  else if isConst T d then
    (if isRatio T q then .constantFrequencyResponse else .constantTime)
  else d

/-- `self._class_by_quantity(quantity, domain)` incl. the phasor overrides; returns the
    domain of the class -/
def classByQuantity (selfDom : Domain) (q : Quantity) (d : Domain) : Domain :=
  if q = .undefined then
    match selfDom with
    | .phasor => if d = .phasorRatio then .phasorRatio else .phasor
    | .phasorRatio => .phasorRatio
    | _ => d
  else exprmapM T q d

/-- `undefined` is looked up as `constant` -/
def constify (q : Quantity) : Quantity := if q = .undefined then .constant else q
/-- a `constant` table result is reported as `undefined` -/
def unconstify (q : Quantity) : Quantity := if q = .constant then .undefined else q

/-! ## `*` -/

def isGenericTransform (d : Domain) : Bool :=
  d = .fourier || d = .angularFourier || d = .laplace

/-- the six `XDomainExpression * TimeDomainExpression` special cases at the top of `__mul__` -/
def genericPair (a x : Opd) : Bool :=
  a.q = .undefined && x.q = .undefined &&
  ((isGenericTransform a.dom && x.dom = .time) || (isGenericTransform x.dom && a.dom = .time))

/-- `x.as_constant()` inside `__mul__`/`__truediv__` (inside `try: ... except: pass`); it
    succeeds when the value is unchanging *and* has no free symbols (`call` substitutes only an
    `is_constant` argument, anything else ends in `transform`'s ValueError); `keepUnits` is the
    `x.units = xunits` of `__mul__` that `__truediv__` does not have -/
def coerceImmittance (x : Opd) (keepUnits : Bool) : Opd :=
  if isImmittance T x.q && x.unch && x.const then
    let d := exprmapM T x.q .constant
    { x with dom := d, units := if keepUnits then x.units else defaultUnits T d x.q }
  else x

def mulCompat (a x : Opd) : Bool :=
  match a.dom with
  | .time | .discreteTime => a.dom = x.dom || isConst T x.dom
  | .phasor =>
      isConst T a.dom || isConst T x.dom || a.dom = x.dom || x.dom = .phasorRatio
        || x.dom = .angularFourier
  | .phasorRatio =>
      isConst T a.dom || isConst T x.dom || a.dom = x.dom || x.dom = .phasor
        || x.dom = .angularFourier
  | _ => a.dom = x.dom || isConst T a.dom || isConst T x.dom

def mulDomain (a x : Opd) : Domain :=
  if a.dom = .phasorRatio && x.dom = .phasor then .phasor else a.dom

/-- the table part of `__mul__`: `(y, x)` then `(x, y)`; `none` = "units of the result are
    unsupported" -/
def mulLookup (qa qx : Quantity) : Option Quantity :=
  let y := constify qa
  let x := constify qx
  match lookup2 T.mul y x with
  | some r => some (unconstify r)
  | none =>
    match lookup2 T.mul x y with
    | some r => some (unconstify r)
    | none => none

def mulM (a x0 : Opd) : Outcome :=
  if genericPair a x0 then .ok .time .undefined U.one
  else
    let x := coerceImmittance T x0 true
    if !mulCompat T a x then .err .domains
    else
      match mulLookup T a.q x.q with
      | none => .err .quantities
      | some q =>
        let d := mulDomain a x
        let cd := if isConst T a.dom then classByQuantity T x.dom q x.dom
                  else classByQuantity T a.dom q d
        .ok cd q (a.units + x.units)

/-! ## `/` -/

def divCompat (a x : Opd) : Bool :=
  match a.dom with
  | .time | .discreteTime => a.dom = x.dom || isConst T x.dom
  | .frequencyResponse => x.dom = .fourier || a.dom = x.dom || isConst T a.dom || isConst T x.dom
  | .angularFrequencyResponse =>
      x.dom = .angularFourier || a.dom = x.dom || isConst T a.dom || isConst T x.dom
  | .phasor | .phasorRatio => isConst T a.dom || isConst T x.dom || a.dom = x.dom
  | _ => a.dom = x.dom || isConst T a.dom || isConst T x.dom

def divDomain (a x : Opd) : Domain :=
  if a.dom = .phasor && x.dom = .phasor then .phasorRatio else a.dom

def divLookup (qa qx : Quantity) : Option Quantity :=
  match lookup2 T.div (constify qa) (constify qx) with
  | some r => some (unconstify r)
  | none => none

/-- the domain `expr(value)` (`_make_domain`) gives to a value that depends on the variable of
    domain `d`: it is chosen from the *symbol* (t, s, f, omega, n, k, z, F, Omega) -/
def symDomain : Domain → Domain
  | .frequencyResponse => .fourier
  | .fourierNoise => .fourier
  | .angularFrequencyResponse => .angularFourier
  | .angularFourierNoise => .angularFourier
  | .phasorRatio => .angularFourier
  | d => d

/-- `ImpedanceMixin/AdmittanceMixin.__rtruediv__` for a constant numerator: builds the
    reciprocal immittance; `nu` are the numerator's units.  (Formerly by value,
    `admittance(x.expr / self.expr)`: `impedance(expr)` chooses the class from the expression -- an
    unchanging value gives a constant-domain class, otherwise the domain of the variable it depends
    on; kept as the `recipKeepsDomain = false` branch.) -/
def recipImmittance (nu : U) (a : Opd) : Outcome :=
  let q := if a.q = .impedance then Quantity.admittance else .impedance
  -- current code: `self._class_by_quantity(q)(value, **self.assumptions)`: the class of the reciprocal
  -- quantity in the operand's OWN domain; before that fix: `admittance(value)` / `impedance(value)`,
  -- which chose the class from the expression
  let d := if T.flags.recipKeepsDomain then classByQuantity T a.dom q a.dom
           else if a.unch then exprmapM T q .constant else exprmapM T q (symDomain a.dom)
  .ok d q (if T.flags.recipSetsUnits then nu - a.units else defaultUnits T d q)

/-- Python tries `x.__rtruediv__(a)` first when type(x) is a proper subclass of type(a) that
    overrides it: `a` is the generic expression class of the same domain and `x` an immittance -/
def reflectedDiv (a x : Opd) : Bool :=
  a.q = .undefined && a.dom = x.dom && (x.q = .impedance || x.q = .admittance) && a.const

def divCore (a x0 : Opd) : Outcome :=
  let x := coerceImmittance T x0 T.flags.divRestoresUnits
  if !divCompat T a x then .err .domains
  else
    match divLookup T a.q x.q with
    | none => .err .quantities
    | some q =>
      let d := divDomain a x
      let cd := if isConst T a.dom then classByQuantity T x.dom q x.dom
                else classByQuantity T a.dom q d
      .ok cd q (a.units - x.units)

def divM (a x : Opd) : Outcome :=
  if reflectedDiv a x then recipImmittance T a.units x else divCore T a x

/-! ## `+`, `-`, `==` -/

/-- what `Units.simplify_units` returns, up to equality: units whose SI dimension is in SymPy's
    table collapse to that dimension (plus how `rad` is re-applied); others stay as they are -/
inductive Canon
  | known (d : Dim3) (radMode : Int)
  | raw (u : U)
  deriving DecidableEq, Repr

def radMode (u : U) : Int := if u.radian = 0 then 0 else if u.radian = 1 then 1 else -1

/-- `unit.subs(Hz, 1/s)` -/
def foldHz (u : U) : U := { u with hertz := 0, second := u.second - u.hertz }

def canon (u : U) : Canon :=
  if T.knownDims.contains (dimU u) then .known (dimU u) (radMode u)
  else .raw (if T.flags.canonFoldsHertz then foldHz u else u)

/-- the units test at the top of `__compat_add__` -/
def unitsClash (c : Cfg) (a x : Opd) : Bool :=
  c.check && canon T a.units ≠ canon T x.units && !a.zero && !x.zero
    && !(c.loose && (isUndefinedFlag T a.q || isUndefinedFlag T x.q))

/-- a sequence of `if guard: return value` statements followed by a final statement -/
def firstMatch {α : Type} : List (Bool × α) → α → α
  | [], d => d
  | (g, v) :: rest, d => if g then v else firstMatch rest d

/-- the quantity test in front of the omega-domain cases (present when `flags.omegaNeedsQuantity`) -/
def quantitiesCompatible (c : Cfg) (a x : Opd) : Bool :=
  a.q = x.q || (a.q = .undefined && (c.loose || isTransfer T x.q))
    || (x.q = .undefined && (c.loose || isTransfer T a.q))

def omegaGuard (c : Cfg) (a x : Opd) : Bool :=
  !T.flags.omegaNeedsQuantity || quantitiesCompatible T c a x

/-- the `if ...: return cls, ...` statements of `__compat_add__` after the units test, in source
    order; the value is the class chosen (as `(domain, quantity)` of the class) or the error -/
def compatRulesHead (c : Cfg) (a x : Opd) : List (Bool × Except Err (Domain × Quantity)) :=
  [ (isConst T x.dom && x.q = .undefined && (c.loose || x.zero), .ok (a.dom, a.q)),
    (isConst T x.dom && x.q = .undefined && isTransfer T a.q, .ok (a.dom, a.q)),
    (isConst T a.dom && a.q = .undefined, .ok (x.dom, x.q)),
    (a.q = x.q && isConst T a.dom, .ok (x.dom, x.q)),
    (a.q = x.q && isConst T x.dom, .ok (a.dom, a.q)),
    (a.q = x.q && a.dom = x.dom, .ok (a.dom, a.q)),
    -- "For phasor comparisons..."
    (omegaGuard T c a x && (a.dom = .phasorRatio && x.dom = .angularFourier), .ok (a.dom, a.q)),
    (omegaGuard T c a x && (a.dom = .angularFourier && x.dom = .phasorRatio), .ok (x.dom, x.q)),
    (omegaGuard T c a x && (a.dom = .angularFrequencyResponse && x.dom = .angularFourier), .ok (a.dom, a.q)),
    (omegaGuard T c a x && (a.dom = .angularFourier && x.dom = .angularFrequencyResponse), .ok (x.dom, x.q)),
    (a.dom != x.dom, .error .domains) ]

/-- ... the statements after the domain test -/
def compatRulesTail (c : Cfg) (a x : Opd) : List (Bool × Except Err (Domain × Quantity)) :=
  [ (a.q = .undefined && (c.loose || isTransfer T x.q), .ok (x.dom, x.q)),
    (x.q = .undefined && (c.loose || isTransfer T a.q), .ok (a.dom, a.q)) ]

def compatRules (c : Cfg) (a x : Opd) : List (Bool × Except Err (Domain × Quantity)) :=
  compatRulesHead T c a x ++ compatRulesTail T c a x

def compatClass (c : Cfg) (a x : Opd) : Except Err (Domain × Quantity) :=
  firstMatch (compatRules T c a x) (.error .quantities)

def compatAdd (c : Cfg) (a x : Opd) : Except Err (Domain × Quantity) :=
  if unitsClash T c a x then .error .units else compatClass T c a x

/-- `a + b`, `a - b`: the result is built by `cls(value)`, so it carries the class defaults -/
def addM (c : Cfg) (a x : Opd) : Outcome :=
  match compatAdd T c a x with
  | .error e => .err e
  | .ok (d, q) => .ok d q (defaultUnits T d q)

/-- `a == b`: `none` = refused (the operator returns False without comparing values);
    `some cls` = the values are compared after casting to `cls` -/
def eqM (c : Cfg) (a x : Opd) : Option (Domain × Quantity) :=
  match compatAdd T c a x with
  | .error _ => none
  | .ok r => some r

/-! ## `**` -/

/-- the operand `expr(1)` of `self.__rtruediv__(1)` -/
def one : Opd := ⟨.constant, .undefined, U.one, false, true, true⟩

def powM (a : Opd) (n : Int) : Outcome :=
  if n = 2 then mulM T a a
  else if n = -1 then
    (if a.q = .impedance || a.q = .admittance then recipImmittance T U.one a else divCore T one a)
  else if T.flags.powSetsUnits then
    -- generic class of the operand's domain (`expr(n)`'s class for a constant-domain operand),
    -- units ** n
    (if !isConst T a.dom then
       .ok (if a.q = .undefined then a.dom else classByQuantity T a.dom .undefined a.dom)
         .undefined (U.smul n a.units)
     else .ok .constant .undefined (U.smul n a.units))
  else if !isConst T a.dom then .ok a.dom a.q (defaultUnits T a.dom a.q)
  else .ok .constant .undefined U.one

/-! ## transforms -/

def transformM (a : Opd) (method : String) : Option Outcome :=
  match T.transforms.find? (fun r => r.src == a.dom && r.method == method) with
  | none => none
  | some r =>
    let cd := classByQuantity T a.dom a.q r.dst
    match r.scale, r.direct with
    | some s, true => some (.ok cd a.q (a.units + s))
    | _, _ => some (.ok cd a.q (defaultUnits T cd a.q))

end Lcapy.QModel
