/-
  MODEL of the canonical state-space realisations of a transfer function,
  lcapy/statespacebase.py `from_ba_CCF`, `from_ba_OCF`, `from_ba_DCF` (used by
  `LaplaceDomainExpression.state_space`, `ZDomainExpression.state_space` for continuous and
  discrete time alike).  Coefficient lists `b`, `a` are in descending powers.
  DCF takes the poles and residues SymPy returned as INPUT (root finding is not modelled).
  Also the executable checks the oracle asks for (matrix–vector forms over lists).
  No Mathlib import.
-/
import Lcapy.Spec.StateSpace
namespace Lcapy.StateSpace

variable {K : Type} [Add K] [Mul K] [Neg K] [Sub K] [Div K] [OfNat K 0] [OfNat K 1]

/-- `a = [ax / a0 for ax in a]` (the code skips the division when a0 = 1, which changes nothing) -/
def normalise (a0 : K) (l : List K) : List K := l.map (· / a0)

/-- `b = [0] * (Na - Nb) + b` -/
def padTo (n : Nat) (l : List K) : List K := List.replicate (n - l.length) 0 ++ l

def coef (l : List K) (i : Nat) : K := l.getD i 0

/-- the preprocessing shared by CCF and OCF: `none` = 'Improper transfer function' or no denominator -/
def prep (b a : List K) : Option (List K × List K) :=
  match a with
  | [] => none
  | a0 :: _ =>
    if b.length > a.length then none
    else some (padTo a.length (normalise a0 b), normalise a0 a)

/-- controllable canonical form from the preprocessed lists (length N + 1 each):
    A[n, n+1] = 1, A[N−1, n] = −a[N−n], B[N−1] = 1, C[n] = b[N−n] − a[N−n]·b[0], D = b[0] -/
def ccfOf (b a : List K) : SS K :=
  let N := a.length - 1
  { n := N
    A := fun i j => if i + 1 = N then -(coef a (N - j)) else if j = i + 1 then 1 else 0
    B := fun i => if i + 1 = N then 1 else 0
    C := fun j => coef b (N - j) - coef a (N - j) * coef b 0
    D := coef b 0 }

/-- observable canonical form as the code builds it:
    A[n, n+1] = 1, A[n, 0] = −a[n+1], B[n] = b[n+1] − a[n+1]·b[0], C[0] = 1, D = b[0] -/
def ocfOf (b a : List K) : SS K :=
  let N := a.length - 1
  { n := N
    A := fun i j => if j = 0 then -(coef a (i + 1)) else if j = i + 1 then 1 else 0
    B := fun i => coef b (i + 1) - coef a (i + 1) * coef b 0
    C := fun j => if j = 0 then 1 else 0
    D := coef b 0 }

def ccf (b a : List K) : Option (SS K) := (prep b a).map (fun p => ccfOf p.1 p.2)
def ocf (b a : List K) : Option (SS K) := (prep b a).map (fun p => ocfOf p.1 p.2)

/-- diagonal canonical form: A = diag(poles), B = ones, C = residues, D = b[0]/a[0] if Na = Nb else 0.
    `b`, `a` are the coefficient lists AFTER the cancellation of common factors the code performs first
    (SymPy's `cancel`, an input like the poles and residues). -/
def dcfOf (b a : List K) (poles residues : List K) : SS K :=
  { n := a.length - 1
    A := fun i j => if i = j then coef poles i else 0
    B := fun _ => 1
    C := fun j => coef residues j
    D := if a.length = b.length then coef b 0 / coef a 0 else 0 }

def dcf (b a : List K) (poles residues : List K) : Option (SS K) :=
  if b.length > a.length then none else some (dcfOf b a poles residues)

/-! ### matrices as lists, for the driver -/

def SS.Arows (sys : SS K) : List (List K) :=
  (List.range sys.n).map (fun i => (List.range sys.n).map (fun j => sys.A i j))
def SS.Bcol (sys : SS K) : List K := (List.range sys.n).map sys.B
def SS.Crow (sys : SS K) : List K := (List.range sys.n).map sys.C

/-- a multi-input multi-output model given by lists (what `cct.ss` returns) -/
structure MIMO (K : Type) where
  A : List (List K)
  B : List (List K)
  C : List (List K)
  D : List (List K)

def dot (r : List K) (v : List K) : K := (r.zip v).foldl (fun acc p => acc + p.1 * p.2) 0
def matVec (m : List (List K)) (v : List K) : List K := m.map (fun r => dot r v)

/-- residuals of  s·X − A·X − B·U − x0  (must all vanish) -/
def stateResidual (sys : MIMO K) (s : K) (X U x0 : List K) : List K :=
  let AX := matVec sys.A X
  let BU := matVec sys.B U
  (List.range X.length).map (fun i => s * X.getD i 0 - AX.getD i 0 - BU.getD i 0 - x0.getD i 0)

/-- Y = C X + D U -/
def outputs (sys : MIMO K) (X U : List K) : List K :=
  let CX := matVec sys.C X
  let DU := matVec sys.D U
  (List.range CX.length).map (fun i => CX.getD i 0 + DU.getD i 0)

/-- the SISO spec predicates, executable: state-equation residuals and output for a list state -/
def SS.residuals (sys : SS K) (s : K) (X : List K) : List K :=
  (List.range sys.n).map (fun i =>
    s * X.getD i 0 - sumTo sys.n (fun j => sys.A i j * X.getD j 0) - sys.B i)
def SS.outputAt (sys : SS K) (X : List K) : K := output sys (fun j => X.getD j 0)

end Lcapy.StateSpace
