/-
  Executable model of lcapy/synthesis.py (C19): one-port RLCG networks with their driving-point
  impedance, the pattern realisations `seriesRL … parallelRLC`, the Cauer ladders built from
  continued-fraction coefficients and the Foster sums of sections.  No Mathlib import.

  What `partfrac()` + `collect(var, evaluate=False)` hand to a pattern realisation is modelled as a
  `Coll`: the coefficients found for `1`, `var`, `1/var` (each may be absent) and whether any OTHER key
  is present.  A realisation returns `none` for "raises ValueError", `some none` for the empty network
  (`None` in the code), `some (some net)` otherwise.
-/
import Lcapy.Model.Ratfun
namespace Lcapy.Synth
open Lcapy.Poly

variable {K : Type} [Add K] [Mul K] [Neg K] [Sub K] [Div K] [OfNat K 0] [OfNat K 1]

inductive Net (K : Type) where
  | R (r : K)
  | L (l : K)
  | C (c : K)
  | G (g : K)
  | ser (a b : Net K)
  | par (a b : Net K)

/-- driving-point impedance at `s = x` -/
def Net.Z (x : K) : Net K → K
  | .R r => r
  | .L l => l * x
  | .C c => 1 / (c * x)
  | .G g => 1 / g
  | .ser a b => a.Z x + b.Z x
  | .par a b => 1 / (1 / a.Z x + 1 / b.Z x)

/-- `series(net, more)` of oneport.py: `None` is the neutral element -/
def serO : Option (Net K) → Option (Net K) → Option (Net K)
  | none, b => b
  | a, none => a
  | some a, some b => some (.ser a b)

def parO : Option (Net K) → Option (Net K) → Option (Net K)
  | none, b => b
  | a, none => a
  | some a, some b => some (.par a b)

/-- the dictionary `collect(partfrac(expr), var, evaluate=False)` -/
structure Coll (K : Type) where
  c0 : Option K       -- key 1
  cp : Option K       -- key var
  cm : Option K       -- key 1/var
  other : Bool        -- any other key

def Coll.value (d : Coll K) (x : K) : K :=
  (d.c0.getD 0) + (d.cp.getD 0) * x + (d.cm.getD 0) / x

/-- every coefficient present in the dictionary is non-zero (`collect` has no key with a zero coefficient); the
    realisations invert some of them (`C(1/a)`, `R(1/a)`, `L(1/a)`) -/
def Coll.EntriesNonzero (d : Coll K) : Prop :=
  (∀ v, d.c0 = some v → v ≠ 0) ∧ (∀ v, d.cp = some v → v ≠ 0) ∧ (∀ v, d.cm = some v → v ≠ 0)

def optNet (f : K → Net K) : Option K → Option (Net K)
  | none => none
  | some a => some (f a)

/-- `seriesRL`: R(a) for key 1, L(a) for key var; anything left over raises -/
def seriesRL (d : Coll K) : Option (Option (Net K)) :=
  if d.other || d.cm.isSome then none
  else some (serO (optNet .R d.c0) (optNet .L d.cp))

/-- `seriesRC`: R(a), C(1/a) for key 1/var -/
def seriesRC (d : Coll K) : Option (Option (Net K)) :=
  if d.other || d.cp.isSome then none
  else some (serO (optNet .R d.c0) (optNet (fun a => .C (1 / a)) d.cm))

/-- `seriesGC`: G(1/a), C(1/a) -/
def seriesGC (d : Coll K) : Option (Option (Net K)) :=
  if d.other || d.cp.isSome then none
  else some (serO (optNet (fun a => .G (1 / a)) d.c0) (optNet (fun a => .C (1 / a)) d.cm))

section dec
variable [DecidableEq K]

/-- `seriesLC`: the constant term must be absent or zero -/
def seriesLC (d : Coll K) : Option (Option (Net K)) :=
  if d.other || (d.c0.getD 0 != 0) then none
  else some (serO (optNet (fun a => .C (1 / a)) d.cm) (optNet .L d.cp))

/-- `parallelLC` (dictionary of the admittance) -/
def parallelLC (d : Coll K) : Option (Option (Net K)) :=
  if d.other || (d.c0.getD 0 != 0) then none
  else some (parO (optNet .C d.cp) (optNet (fun a => .L (1 / a)) d.cm))
end dec

/-- `seriesRLC` -/
def seriesRLC (d : Coll K) : Option (Option (Net K)) :=
  if d.other then none
  else some (serO (serO (optNet .R d.c0) (optNet (fun a => .C (1 / a)) d.cm)) (optNet .L d.cp))

/-- `parallelRL` (dictionary of the ADMITTANCE 1/Z): R(1/a), L(1/a) for key 1/var -/
def parallelRL (d : Coll K) : Option (Option (Net K)) :=
  if d.other || d.cp.isSome then none
  else some (parO (optNet (fun a => .R (1 / a)) d.c0) (optNet (fun a => .L (1 / a)) d.cm))

/-- `parallelRC`: R(1/a), C(a) for key var -/
def parallelRC (d : Coll K) : Option (Option (Net K)) :=
  if d.other || d.cm.isSome then none
  else some (parO (optNet (fun a => .R (1 / a)) d.c0) (optNet .C d.cp))

/-- `parallelGC`: G(a), C(a) -/
def parallelGC (d : Coll K) : Option (Option (Net K)) :=
  if d.other || d.cm.isSome then none
  else some (parO (optNet .G d.c0) (optNet .C d.cp))

/-- `parallelRLC`: `parallel(Rnet, Lnet, Cnet)` -/
def parallelRLC (d : Coll K) : Option (Option (Net K)) :=
  if d.other then none
  else some (parO (parO (optNet (fun a => .R (1 / a)) d.c0) (optNet (fun a => .L (1 / a)) d.cm)) (optNet .C d.cp))

/-! ### Cauer ladders -/

/-- what `collect` finds for a continued-fraction coefficient `q·var^k` (Cauer I, `inv = false`) or
    `q·var^(−k)` (Cauer II, `inv = true`) -/
def monoColl (inv : Bool) (q : K) (k : Nat) : Coll K :=
  match k with
  | 0 => ⟨some q, none, none, false⟩
  | 1 => if inv then ⟨none, none, some q, false⟩ else ⟨none, some q, none, false⟩
  | _ => ⟨none, none, none, true⟩

/-- the dictionary of `1/(q·var^(±k))` -/
def monoCollInv (inv : Bool) (q : K) (k : Nat) : Coll K :=
  match k with
  | 0 => ⟨some (1 / q), none, none, false⟩
  | 1 => if inv then ⟨none, some (1 / q), none, false⟩ else ⟨none, none, some (1 / q), false⟩
  | _ => ⟨none, none, none, true⟩

section dec
variable [DecidableEq K]

/-- `cauerI`: `coeffs = Z.continued_fraction_coeffs()`; from the last coefficient backwards, even
    positions are series branches `seriesRL(coeff)`, odd positions shunt branches
    `parallelGC(1/coeff)` (which raises for a zero coefficient).  `even` = parity of the position of the
    head of the list. -/
def cauerI : Bool → List (K × Nat) → Option (Option (Net K))
  | _, [] => some none
  | even, (q, k) :: rest =>
    match cauerI (!even) rest with
    | none => none
    | some tail =>
      if even then
        (if q = 0 then some none else seriesRL (monoColl false q k)).map (fun s => serO tail s)
      else
        (if q = 0 then none else parallelGC (monoColl false q k)).map (fun s => parO tail s)

/-- `cauerII`: `coeffs = (1/Z).continued_fraction_inverse_coeffs()` (monomials `q·var^(−k)`); even
    positions are shunt branches `seriesRL(1/coeff)` (a leading zero coefficient is skipped), odd
    positions series branches `parallelGC(coeff)`. -/
def cauerII : Bool → Bool → List (K × Nat) → Option (Option (Net K))
  | _, _, [] => some none
  | first, even, (q, k) :: rest =>
    match cauerII false (!even) rest with
    | none => none
    | some tail =>
      if even then
        if first && q = 0 then some tail
        else (if q = 0 then none else seriesRL (monoCollInv true q k)).map (fun s => parO tail s)
      else
        (if q = 0 then none else parallelGC (monoCollInv true q k)).map (fun s => serO tail s)

end dec

/-- value of the continued fraction `c0 + 1/(c1 + 1/(c2 + …))` with monomials `q x^k` / `q x^(−k)` -/
def monoVal (inv : Bool) (q : K) (k : Nat) (x : K) : K :=
  if inv then q / npow x k else q * npow x k

def cfVal (inv : Bool) (x : K) : List (K × Nat) → K
  | [] => 0
  | [(q, k)] => monoVal inv q k x
  | (q, k) :: rest => monoVal inv q k x + 1 / cfVal inv x rest

/-! ### Foster forms: series / parallel connection of sections -/

def serAll : List (Net K) → Option (Net K)
  | [] => none
  | n :: rest => serO (some n) (serAll rest)

def parAll : List (Net K) → Option (Net K)
  | [] => none
  | n :: rest => parO (some n) (parAll rest)

end Lcapy.Synth
