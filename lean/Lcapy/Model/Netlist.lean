/-
  MODEL front-end: from raw netlist lines (the restricted grammar the generators emit) to the
  evaluated component list `List (Cpt GQ)` that the MNA model stamps.

  Mirrors, for that grammar: name → component type (longest prefix), node extraction,
  wire merging (lcapy/equipotentialnodes.py: nodes joined by `W` lines are one node),
  the allocation of unknown branch currents in `MNA.__init__` (need_branch_current,
  need_extra_branch_current `…X`, controlling source appended when missing), the folding of
  `K L1 L2 k` lines into the inductors (`K._stamp`), and the value each source contributes
  in each analysis kind (dc: value; Laplace: step v ↦ v/s; ivp: constants ↦ v/s; ac: phasor).
  It also contains an (untrusted, output-checked) Gauss–Jordan solver over checked Gaussian
  rationals so that the model can produce its own node voltages for the correspondence.
  No Mathlib import.
-/
import Lcapy.Model.MNA
import Lcapy.Model.GQ
import Lcapy.Model.Alloc
import Lcapy.Generated.TwoPort
namespace Lcapy.Netlist
open Lcapy Lcapy.MNA

structure RawCpt where
  name : String
  ty : String
  nodes : List String
  args : List String
deriving Repr

/-- component types of the restricted grammar, longest prefix first -/
def types : List (String × Nat) :=
  [("TF", 4), ("TP", 4), ("TL", 4), ("SP", 3), ("GY", 4), ("TR", 2), ("AM", 2), ("R", 2), ("C", 2), ("L", 2), ("V", 2), ("I", 2),
   ("E", 4), ("G", 4), ("F", 2), ("H", 2), ("K", 0), ("W", 2), ("O", 2), ("P", 2), ("Y", 2)]

def typeOf (name : String) : Option (String × Nat) := types.find? (fun t => name.startsWith t.1)

def parseLine (line : String) : Except String RawCpt :=
  let toks := (line.trimAscii.toString.splitOn " ").filter (· ≠ "")
  match toks with
  | [] => .error "syntax:empty"
  | name :: rest =>
    match typeOf name with
    | none => .error s!"unsupported:type:{name}"
    | some (ty, nn) =>
      -- `Ename Np Nm opamp Ncp Ncm [Ad] [Ac] [Ro]` (grammar rule Eopamp: keyword after the second node)
      if ty = "E" && rest[2]? = some "opamp" then
        if rest.length < 5 then .error s!"syntax:too-few-nodes:{name}"
        else .ok ⟨name, "Eopamp", (rest.take 2) ++ ((rest.drop 3).take 2), rest.drop 5⟩
      -- `Ename Np Nm fdopamp Nip Nim Nocm Ad [Ac]` (grammar rule Efdopamp)
      else if ty = "E" && rest[2]? = some "fdopamp" then
        if rest.length < 7 then .error s!"syntax:too-few-nodes:{name}"
        else .ok ⟨name, "Efdopamp", (rest.take 2) ++ ((rest.drop 3).take 3), rest.drop 6⟩
      -- `Ename Np Nm inamp Nip Nim Nrp Nrm Ad Ac Rf` (grammar rule Einamp)
      else if ty = "E" && rest[2]? = some "inamp" then
        if rest.length < 10 then .error s!"syntax:too-few-nodes:{name}"
        else .ok ⟨name, "Einamp", (rest.take 2) ++ ((rest.drop 3).take 4), rest.drop 7⟩
      -- `SPname pp|pm|ppp|pmm|ppm P P P [P]` (keyword before the nodes)
      else if ty = "SP" then
        match rest with
        | kw :: nodes =>
          let need := if kw.length = 3 then 4 else 3
          if !(["pp", "pm", "ppp", "pmm", "ppm"].contains kw) then .error s!"unsupported:type:{name}:{kw}"
          else if nodes.length ≠ need then .error s!"syntax:node-count:{name}"
          else .ok ⟨name, "SP", nodes, [kw]⟩
        | [] => .error s!"syntax:too-few-nodes:{name}"
      else if rest.length < nn then .error s!"syntax:too-few-nodes:{name}"
      else .ok ⟨name, ty, rest.take nn, rest.drop nn⟩

/-- strip one level of braces and parse a rational value -/
def parseVal (s : String) : Option Rat :=
  let s := if s.startsWith "{" && s.endsWith "}" then ((s.drop 1).dropEnd 1).toString else s
  parseRat s

/-! ### equipotential nodes -/

def addNode (cls : List (List String)) (n : String) : List (List String) :=
  if cls.any (fun c => c.contains n) then cls else cls ++ [[n]]

def findClass (cls : List (List String)) (n : String) : Option Nat :=
  cls.findIdx? (fun c => c.contains n)

def mergeWire (cls : List (List String)) (a b : String) : List (List String) :=
  match findClass cls a, findClass cls b with
  | some i, some j =>
    if i = j then cls
    else
      let ci := cls.getD i []
      let cj := cls.getD j []
      let lo := min i j
      let hi := max i j
      ((cls.eraseIdx hi).eraseIdx lo) ++ [ci ++ cj]
  | _, _ => cls

/-- classes with the ground class (the one containing "0") first -/
def nodeClasses (cs : List RawCpt) : Except String (List (List String)) :=
  let all := cs.foldl (fun acc c => c.nodes.foldl addNode acc) []
  let merged := cs.foldl (fun acc c =>
    if c.ty = "W" then match c.nodes with | [a, b] => mergeWire acc a b | _ => acc
    -- `equipotential_nodes`: "Assuming V2' = V1'" — the negative terminals of a two-port / transmission line are joined
    else if c.ty = "TP" || c.ty = "TL" then match c.nodes with | [_, b, _, d] => mergeWire acc b d | _ => acc
    else acc) all
  match findClass merged "0" with
  | none => .error "no-ground"
  | some g => .ok (merged.getD g [] :: merged.eraseIdx g)

/-! ### unknown branch currents (MNA.__init__) -/

def needsBranch (ty : String) : Bool := ["L", "V", "E", "H", "TF", "GY", "AM", "TR", "SP", "TL", "TPA"].contains ty
def needsExtra (ty : String) : Bool := ty = "GY"
def currentControlled (ty : String) : Bool := ["F", "H"].contains ty

def ownsBranch (k : RawCpt) : Bool :=
  needsBranch k.ty || (k.ty = "TP" && ["A", "B", "G", "H"].contains (k.args.getD 0 ""))

/-- what the allocation loop of `MNA.__init__` looks at in a line -/
def toPLine (c : RawCpt) : PLine :=
  ⟨c.name, ownsBranch c, needsExtra c.ty, if currentControlled c.ty then c.args.head? else none⟩

/-- `unknown_branch_currents` (Model/Alloc.lean mirrors the loop; `alloc_complete`, `alloc_nodup`) -/
def branchList (cs : List RawCpt) : List String := alloc (cs.map toPLine)

/-! ### source values -/

inductive Analysis where
  | dc
  | lap (s : GQ)            -- Laplace, zero initial conditions
  | ivp (s : GQ)            -- Laplace with initial conditions
  | ac (omega : GQ)         -- phasor analysis at angular frequency omega: Laplace at s = j·omega
deriving DecidableEq

def Analysis.kind : Analysis → Kind
  | .dc => .dc | .lap _ => .lap | .ivp _ => .ivp | .ac _ => .lap

def Analysis.s : Analysis → GQ
  | .dc => 0 | .lap s => s | .ivp s => s | .ac w => GQ.j * w

/-- e^{j·phi} for the phases whose phasor stays Gaussian rational -/
def phaseFactor (ph : String) : Option GQ :=
  let p := if ph.startsWith "{" && ph.endsWith "}" then ((ph.drop 1).dropEnd 1).toString else ph
  if p = "0" then some 1
  else if p = "pi/2" then some GQ.j
  else if p = "-pi/2" then some (-GQ.j)
  else if p = "pi" || p = "-pi" then some (-1)
  else none

/-- value of an independent source in the analysis domain, from its raw arguments -/
def srcValue (an : Analysis) (args : List String) : Except String GQ :=
  let val (s : String) : Except String GQ :=
    -- a rational `p/q`, optionally braced, or a complex amplitude `re,im` (phasor sources)
    let s' := if s.startsWith "{" && s.endsWith "}" then ((s.drop 1).dropEnd 1).toString else s
    match GQ.parse s' with | some g => .ok g | none => .error s!"unsupported:value:{s}"
  match an, args with
  | .dc, ["dc", v] => val v
  | .dc, [v] => val v
  | .lap s, ["step", v] => do let x ← val v; pure (x / s)
  | .ivp s, ["step", v] => do let x ← val v; pure (x / s)
  | .ivp s, ["dc", v] => do let x ← val v; pure (x / s)
  | .ivp s, [v] => do let x ← val v; pure (x / s)
  | .lap _, ["delta", v] => val v            -- an impulse v·δ(t): transform v
  | .ivp _, ["delta", v] => val v
  | .ac _, ["ac", v] => val v
  -- `ac V phi [omega]` is V·cos(ωt + phi) (doc/netlists.rst), phasor V·e^{j·phi}; quarter turns keep it Gaussian rational
  | .ac _, ["ac", v, ph] => do let x ← val v; match phaseFactor ph with | some f => pure (x * f) | none => .error s!"unsupported:phase:{ph}"
  | .ac _, ["ac", v, ph, _] => do let x ← val v; match phaseFactor ph with | some f => pure (x * f) | none => .error s!"unsupported:phase:{ph}"
  | _, _ => .error s!"unsupported:source:{args}"

/-! ### elaboration -/

def lookupIdx (l : List String) (n : String) : Except String Nat :=
  match l.idxOf? n with | some i => .ok i | none => .error s!"unknown-name:{n}"

def nodeIdx (cls : List (List String)) (n : String) : Except String Nat :=
  match findClass cls n with | some i => .ok i | none => .error s!"unknown-node:{n}"

def optVal (an : Analysis) (a : Option String) : Except String (Option GQ) :=
  match a with
  | none => .ok none
  | some s => match parseVal s with
    | some r => .ok (some (GQ.ofRat r))
    | none => .error s!"unsupported:value:{s}"

def reqVal (a : Option String) : Except String GQ :=
  match a with
  | none => .error "syntax:missing-value"
  | some s => match parseVal s with
    | some r => .ok (GQ.ofRat r)
    | none => .error s!"unsupported:value:{s}"

def indValue (cs : List RawCpt) (name : String) : Except String Rat :=
  match cs.find? (fun c => c.name = name && c.ty = "L") with
  | some c => match c.args.head? >>= parseVal with
    | some r => .ok r
    | none => .error s!"unsupported:value:{name}"
  | none => .error s!"unknown-name:{name}"

/-- the couplings `K Lx Ly k` that mention inductor `name`: (other inductor's branch, M) -/
def couplings (cs : List RawCpt) (brs : List String) (name : String) : Except String (List (Nat × GQ × Option GQ)) :=
  cs.foldlM (fun acc c =>
    if c.ty = "K" then
      match c.args with
      | [l1, l2, k] =>
        if l1 = name || l2 = name then do
          let other := if l1 = name then l2 else l1
          let a ← indValue cs l1
          let b ← indValue cs l2
          let kk ← match parseVal k with | some r => pure r | none => throw s!"unsupported:value:{k}"
          match ratSqrt? (a * b) with
          | some r => do
              let m ← lookupIdx brs other
              let oi0 : Option GQ := match cs.find? (fun c => c.name = other && c.ty = "L") with
                | some oc => (oc.args[1]? >>= parseVal).map GQ.ofRat
                | none => none
              pure (acc ++ [(m, GQ.ofRat (kk * r), oi0)])
          | none => throw "unsupported:irrational-mutual-inductance"
        else pure acc
      | _ => throw s!"syntax:K:{c.name}"
    else pure acc) []

def isVsource (cs : List RawCpt) (name : String) : Bool :=
  match cs.find? (fun c => c.name = name) with
  | some c => c.ty = "V"
  | none => false

/-- a CCVS line `c` whose controlling component is an admittance-type element (R, C, Y): the nodes of that element,
    its admittance and its short-circuit current in this analysis (`CCVS._stamp`: Y = ccpt.Y, eps → 0 for a capacitor
    at dc; Isc only in an initial-value problem with an explicit initial voltage); `none` for other controls -/
def ctrlInfo (an : Analysis) (cs : List RawCpt) (cls : List (List String)) (c : RawCpt) :
    Except String (Option (Nat × Nat × GQ × GQ)) := do
  match c.args.head? with
  | none => pure none
  | some cn =>
    match cs.find? (fun k => k.name = cn) with
    | none => pure none
    | some k =>
      if ownsBranch k || !(["R", "C", "Y"].contains k.ty) then pure none else do
        let kn ← k.nodes.mapM (nodeIdx cls)
        let v ← reqVal k.args.head?
        let kind := an.kind
        let (y, isc) : GQ × GQ ← match k.ty with
          | "R" => pure ((1 : GQ) / v, (0 : GQ))
          | "Y" => pure (v, (0 : GQ))
          | _ => do
            let v0 ← optVal an (k.args[1]?)
            pure (capY kind an.s v, match kind, v0 with | .ivp, some v0 => v * v0 | _, _ => 0)
        pure (some (kn.getD 0 0, kn.getD 1 0, y, isc))

/-- is `c` the first CCVS line that names its controlling component? -/
def firstCtrl (cs : List RawCpt) (c : RawCpt) : Bool :=
  (cs.find? (fun q => q.ty = "H" && q.args.head? = c.args.head?)).map (·.name) = some c.name

def elabOne (an : Analysis) (cs : List RawCpt) (cls : List (List String)) (brs : List String)
    (c : RawCpt) : Except String (List (Cpt GQ)) := do
  let ns ← c.nodes.mapM (nodeIdx cls)
  let n (i : Nat) : Nat := ns.getD i 0
  match c.ty with
  | "R" => do
      let r ← reqVal c.args.head?
      -- the value guard `Cpt.valOK` of the spec: a zero resistance is rejected (Lcapy's matrix then contains `zoo`)
      if r.isZero then throw s!"ill-formed:zero-resistance:{c.name}"
      pure [.R (n 0) (n 1) r]
  | "Y" => do let y ← reqVal c.args.head?; pure [.Y (n 0) (n 1) y]
  | "C" => do
      let v ← reqVal c.args.head?
      let v0 ← optVal an (c.args[1]?)
      pure [.Cap (n 0) (n 1) v v0]
  | "L" => do
      let v ← reqVal c.args.head?
      let i0 ← optVal an (c.args[1]?)
      let m ← lookupIdx brs c.name
      let coup ← couplings cs brs c.name
      pure [.Ind (n 0) (n 1) m v i0 coup]
  | "V" => do
      let v ← srcValue an c.args
      let m ← lookupIdx brs c.name
      pure [.V (n 0) (n 1) m v]
  | "I" => do
      let v ← srcValue an c.args
      pure [.I (n 0) (n 1) v]
  | "E" => do
      let ad ← reqVal c.args.head?
      let ac ← match c.args[1]? with | none => pure (0 : GQ) | some s => reqVal (some s)
      let m ← lookupIdx brs c.name
      pure [.E (n 0) (n 1) (n 2) (n 3) m ad ac]
  | "G" => do let g ← reqVal c.args.head?; pure [.G (n 0) (n 1) (n 2) (n 3) g]
  | "F" => do
      let cn ← match c.args.head? with | some x => pure x | none => throw "syntax:F"
      if !isVsource cs cn then throw "unsupported:control-not-vsource"
      let f ← reqVal (c.args[1]?)
      let mc ← lookupIdx brs cn
      pure [.F (n 0) (n 1) mc f]
  | "H" => do
      let cn ← match c.args.head? with | some x => pure x | none => throw "syntax:H"
      let h ← reqVal (c.args[1]?)
      let m ← lookupIdx brs c.name
      let mc ← lookupIdx brs cn
      -- CCVS._stamp: a controlling component that owns a branch current (V, L, AM, E, H, TF, …) is used as it is;
      -- for an admittance-type component (R, C, Y) the control current is defined as Y·V − Isc on an extra branch
      -- (by the first CCVS that names it; `+=` of the same row by a later one does not change the solution set)
      match cs.find? (fun k => k.name = cn) with
      | none => throw s!"unknown-name:{cn}"
      | some k =>
        if ownsBranch k then pure [.H (n 0) (n 1) m mc h]
        else if ["R", "C", "Y"].contains k.ty then do
          -- the hand model gives the control row to the FIRST CCVS naming the component; the rows the later ones
          -- stamp again are kept in `Elab.extra` (same solutions, `dup_row_same_solutions`)
          if !(firstCtrl cs c) then pure [.H (n 0) (n 1) m mc h] else
          match ← ctrlInfo an cs cls c with
          | some (n3, n4, y, isc) => pure [.HY (n 0) (n 1) m n3 n4 mc y isc h]
          | none => throw "unsupported:control-component"
        else throw "unsupported:control-component"
  | "TF" => do
      let a ← reqVal c.args.head?
      let m ← lookupIdx brs c.name
      pure [.TF (n 0) (n 1) (n 2) (n 3) m a]
  | "GY" => do
      let r ← reqVal c.args.head?
      let m2 ← lookupIdx brs c.name
      let m1 ← lookupIdx brs (c.name ++ "X")
      pure [.GY (n 0) (n 1) (n 2) (n 3) m1 m2 r]
  | "AM" => do let m ← lookupIdx brs c.name; pure [.AM (n 0) (n 1) m]
  | "TR" => do
      let a ← reqVal c.args.head?
      let m ← lookupIdx brs c.name
      pure [.TR (n 0) (n 1) m a]
  | "TP" => do
      -- `TPname Np Nm Ncp Ncm A|B|G|H|Y|Z p11 p12 p21 p22`; sources inside the two-port are refused by the stamps.
      -- TPB/TPG/TPH stamp as TPA with `cpt.A11 …` (the code's B→A, G→A, H→A conversions); TPZ as TPY with `cpt.Y11 …`
      if c.args.length ≠ 5 then throw s!"unsupported:two-port-sources:{c.name}"
      let p11 ← reqVal c.args[1]?
      let p12 ← reqVal c.args[2]?
      let p21 ← reqVal c.args[3]?
      let p22 ← reqVal c.args[4]?
      let M : M2 GQ := ⟨p11, p12, p21, p22⟩
      let chk (M : M2 GQ) : Except String (M2 GQ) :=
        if M.a11.isDef && M.a12.isDef && M.a21.isDef && M.a22.isDef then pure M else throw s!"singular-conversion:{c.name}"
      match c.args.getD 0 "" with
      | "Y" => pure [.TPY (n 0) (n 1) (n 2) (n 3) p11 p12 p21 p22]
      | "Z" => do let Y ← chk (Gen.Z_to_Y M 0); pure [.TPY (n 0) (n 1) (n 2) (n 3) Y.a11 Y.a12 Y.a21 Y.a22]
      | k => do
        let A ← match k with
          | "A" => pure M
          | "B" => chk (Gen.B_to_A M 0)
          | "G" => chk (Gen.G_to_A M 0)
          | "H" => chk (Gen.H_to_A M 0)
          | _ => throw s!"unsupported:type:{c.name}:{k}"
        let m ← lookupIdx brs c.name
        pure [.TPA (n 0) (n 1) (n 2) (n 3) m A.a11 A.a12 A.a21 A.a22]
  | "TL" =>
      -- transmission line: at DC the identity chain matrix; other kinds need cosh/sinh of γ·l (not modelled)
      match an with
      | .dc => do let m ← lookupIdx brs c.name; pure [.TPA (n 0) (n 1) (n 2) (n 3) m 1 0 0 1]
      | _ => throw "unsupported:TL-outside-dc"
  | "SP" => do
      let m ← lookupIdx brs c.name
      let one : GQ := 1
      match c.args.getD 0 "", ns with
      | "pp", [a, b, o] => pure [.SP a b o 0 m one one 0]
      | "pm", [a, b, o] => pure [.SP a b o 0 m one (-one) 0]
      | "ppp", [a, b, o, d] => pure [.SP a b o d m one one one]
      | "pmm", [a, b, o, d] => pure [.SP a b o d m one (-one) (-one)]
      | "ppm", [a, b, o, d] => pure [.SP a b o d m one one (-one)]
      | _, _ => throw s!"syntax:SP:{c.name}"
  | "O" => pure [.Open (n 0) (n 1)]
  | "P" => pure [.Open (n 0) (n 1)]
  | "W" => pure []
  | "K" => pure []
  | t => throw s!"unsupported:type:{t}"

structure Elab where
  raw : List RawCpt
  cls : List (List String)
  brs : List String
  cpts : List (String × Cpt GQ)      -- (component name, evaluated component)
  extra : Stamp GQ := {}             -- rows that the code stamps AGAIN (control rows of further CCVS naming the same R/C/Y)

/-- `Eopamp._expand`: an opamp becomes a VCVS `E__<name>` (and, when the output resistance Ro is
    present and non-zero, a resistor `R__<name>` from a fresh internal node to the output node) -/
def expandRaw (c : RawCpt) : List RawCpt :=
  if c.ty = "Eopamp" then
    let n (i : Nat) : String := c.nodes.getD i "?"
    let ad := c.args.getD 0 c.name
    let ac := c.args.getD 1 "0"
    let ro := c.args.getD 2 "0"
    if parseVal ro = some 0 then
      [⟨"E__" ++ c.name, "E", [n 0, n 1, n 2, n 3], [ad, ac]⟩]
    else
      let o := "_nodeanon_" ++ c.name
      [⟨"E__" ++ c.name, "E", [o, n 1, n 2, n 3], [ad, ac]⟩, ⟨"R__" ++ c.name, "R", [o, n 0], [ro]⟩]
  else if c.ty = "Efdopamp" then
    -- `Efdopamp._expand`: two opamps of gain Ad/2 around the output common-mode node (nodes: Np Nm Nip Nim Nocm)
    let n (i : Nat) : String := c.nodes.getD i "?"
    let ad := c.args.getD 0 c.name
    let ac := c.args.getD 1 "0"
    let half := match parseVal ad with | some r => ratToStr (r / 2) | none => ad
    [⟨"Ep__" ++ c.name, "Eopamp", [n 0, n 4, n 2, n 3], [half, ac, "0"]⟩,
     ⟨"Em__" ++ c.name, "Eopamp", [n 4, n 1, n 2, n 3], [half, ac, "0"]⟩]
  else if c.ty = "Einamp" then
    -- `Einamp._expand` (nodes: Np Nm Nip Nim Nrp Nrm; two fresh internal nodes)
    let n (i : Nat) : String := c.nodes.getD i "?"
    let ad := c.args.getD 0 c.name
    let ac := c.args.getD 1 "0"
    let rf := c.args.getD 2 "0"
    let n7 := "_nodeanon_" ++ c.name ++ "_7"
    let n8 := "_nodeanon_" ++ c.name ++ "_8"
    [⟨"Ep__" ++ c.name, "Eopamp", [n7, "0", n 2, n 4], [ad, "0", "0"]⟩,
     ⟨"Em__" ++ c.name, "Eopamp", [n8, "0", n 3, n 5], [ad, "0", "0"]⟩,
     ⟨"Ed__" ++ c.name, "Eopamp", [n 0, n 1, n7, n8], ["1", ac, "0"]⟩,
     ⟨"Rfp__" ++ c.name, "R", [n 4, n7], [rf]⟩,
     ⟨"Rfm__" ++ c.name, "R", [n 5, n8], [rf]⟩]
  else [c]

/-- one application of `Netlist.expand()` (what this version of Lcapy does; an `fdopamp`/`inamp` form then still
    contains `opamp` forms and cannot be analysed) -/
def expandOnce (raw : List RawCpt) : List RawCpt := raw.flatMap expandRaw

/-- is the controlling component of the CCVS line `c` an admittance-type element without a branch of its own? -/
def ctrlIsAdm (cs : List RawCpt) (c : RawCpt) : Bool :=
  match cs.find? (fun k => some k.name = c.args.head?) with
  | some k => !ownsBranch k && ["R", "C", "Y"].contains k.ty
  | none => false

/-- names of the unknown branch currents OWNED by the component elaborated from line `c` (the row of the system in
    which its defining relation is written), in the order of `MNA.owned` -/
def ownedNames (cs : List RawCpt) (c : RawCpt) : List String :=
  (if needsExtra c.ty then [c.name ++ "X"] else []) ++ (if ownsBranch c then [c.name] else []) ++
  (if c.ty = "H" && firstCtrl cs c && ctrlIsAdm cs c then [c.args.headD ""] else [])

/-- acceptance test of the front-end for the allocation of branch unknowns: the owned names are distinct, every one
    of them was allocated by the `MNA.__init__` loop, and each elaborated component owns exactly the indices of its
    names (`alloc_wf` derives the hypothesis `WF` of `mna_iff_laws` from it) -/
def allocOk (raw : List RawCpt) (brs : List String) (cpts : List (String × Cpt GQ)) : Bool :=
  let names := raw.flatMap (ownedNames raw)
  decide names.Nodup && names.all (fun a => brs.contains a) &&
    (cpts.flatMap (fun p => owned p.2) == names.map (fun a => brs.idxOf a))

def elaborateCore (an : Analysis) (lines : List String) : Except String Elab := do
  let raw0 ← lines.mapM parseLine
  -- expanded until only plain components remain (two rounds suffice: fdopamp/inamp → opamp → E, R)
  let raw := expandOnce (expandOnce raw0)
  let cls ← nodeClasses raw
  let brs := branchList raw
  let cpts ← raw.foldlM (fun acc c => do
    let l ← elabOne an raw cls brs c
    pure (acc ++ l.map (fun x => (c.name, x)))) []
  let extra ← raw.foldlM (fun (acc : Stamp GQ) c => do
    if c.ty = "H" && !(firstCtrl raw c) then
      match ← ctrlInfo an raw cls c with
      | some (n3, n4, y, isc) => do
          let mc ← lookupIdx brs (c.args.headD "")
          pure (acc.append (ctrlRow n3 n4 mc y isc))
      | none => pure acc
    else pure acc) {}
  pure { raw := raw, cls := cls, brs := brs, cpts := cpts, extra := extra }

/-- acceptance test for the value guard of the spec (`Cpt.valOK`): no resistor of zero resistance -/
def valOkB (cpts : List (String × Cpt GQ)) : Bool :=
  cpts.all (fun p => match p.2 with | .R _ _ r => !r.isZero | _ => true)

def elaborate (an : Analysis) (lines : List String) : Except String Elab :=
  match elaborateCore an lines with
  | .error m => .error m
  | .ok e => if allocOk e.raw e.brs e.cpts && valOkB e.cpts then .ok e else .error "ill-formed:branch-names"

/-! ### an untrusted Gauss–Jordan solver (its output is always checked with `residual`) -/

def unknowns (e : Elab) : List Ix :=
  (List.range (e.cls.length - 1)).map (fun k => Ix.node (k + 1)) ++
  (List.range e.brs.length).map (fun m => Ix.br m)

def swapRows (rows : List (List GQ)) (i j : Nat) : List (List GQ) :=
  let ri := rows.getD i []
  let rj := rows.getD j []
  (rows.set i rj).set j ri

/-- augmented matrix rows; returns none when singular -/
def gaussJordan (n : Nat) (rows : List (List GQ)) : Option (List (List GQ)) :=
  (List.range n).foldlM (fun (rows : List (List GQ)) (col : Nat) =>
    match (List.range n).find? (fun r => r ≥ col && !((rows.getD r []).getD col 0).isZero) with
    | none => none
    | some p =>
      let rows := swapRows rows col p
      let prow := rows.getD col []
      let pv := prow.getD col 0
      let prow := prow.map (fun v => v / pv)
      let rows := rows.set col prow
      some (rows.mapIdx (fun r row =>
        if r = col then row
        else
          let f := row.getD col 0
          if f.isZero then row else (row.zip prow).map (fun (a, b) => a - f * b)))) rows

def solve (an : Analysis) (e : Elab) : Option (Ix → GQ) :=
  let st := stampAll an.kind an.s (e.cpts.map (·.2))
  let us := unknowns e
  let n := us.length
  let rows := us.map (fun r => us.map (fun c => entryA st r c) ++ [entryZ st r])
  match gaussJordan n rows with
  | none => none
  | some rows =>
    let sol := rows.map (fun row => row.getD n 0)
    some (fun ix => match us.idxOf? ix with | some i => sol.getD i 0 | none => 0)

/-- exact check that `x` solves the assembled system (all non-ground rows) -/
def checkSolves (an : Analysis) (e : Elab) (x : Ix → GQ) : Bool :=
  let st := stampAll an.kind an.s (e.cpts.map (·.2))
  (unknowns e).all (fun r => (residual st x r).isZero)

/-- current through a two-terminal component from its first to its second node, by the SPEC
    (`outflow` at the first node when the nodes differ) -/
def throughCurrent (an : Analysis) (x : Ix → GQ) (c : Cpt GQ) : Option GQ :=
  match c with
  | .R n1 n2 r => some (vd x n1 n2 / r)
  | .Y n1 n2 y => some (y * vd x n1 n2)
  | .Cap n1 n2 cc v0 => some (capCurrent an.kind an.s cc v0 (vd x n1 n2))
  | .I _ _ i => some (-i)
  | .G _ _ n3 n4 g => some (-(g * vd x n3 n4))
  | .F _ _ mc f => some (f * x (.br mc))
  | _ => none

end Lcapy.Netlist
