/-
  MODEL (C14) of how lcapy/acdc.py `ACChecker` and lcapy/phasor.py turn a time-domain sinusoid into a phasor and back,
  as an interpreter of the branch tables that harness/translate/tx_acdc.py regenerates from the source text
  (Lcapy/Generated/ACTable.lean):

    one term   A·f(ωt + φ), f ∈ {cos, sin}:  amp = A, phase = φ + funcPhase(f)         (`_find_freq_phase`, `_is_ac`)
    a sum      term by term: x = A1 cos p1 + A2 cos p2, y = A1 sin p1 + A2 sin p2, then the first branch of
               `sumBranches` whose condition holds gives (phase, amp)                    (`_is_sum_ac`)
    phasor     amp · e^{j·phase}                                                         (`from_time`)
    time()     Re(P)·cos ωt − Im(P)·sin ωt;   rms = |P|·√2/2;  magnitude, phase

  An angle is carried as the unit vector (cos, sin) — exact on Gaussian rationals (e.g. the 3-4-5 angle); the
  generic branch (√(x²+y²), atan2(y, x)) is carried in rectangular form, since √(x²+y²)·e^{j·atan2(y,x)} = x + j y is the
  definition of atan2.  No Mathlib import.
-/
import Lcapy.Model.Cx
import Lcapy.Spec.LawsTD
namespace Lcapy.AC
open Lcapy

inductive Angle where
  | zero | halfPi | negHalfPi | pi | atan2yx
  | other (src : String)
deriving DecidableEq, Repr

inductive Amp where
  | x | y | negX | negY | hypot
  | other (src : String)
deriving DecidableEq, Repr

inductive Cond where
  | yZero | xZero | otherwise
  | other (src : String)
deriving DecidableEq, Repr

inductive PolarForm where
  | ampExpJPhase
  | other (src : String)
deriving DecidableEq, Repr

variable {K : Type} [Add K] [Mul K] [Neg K] [Sub K] [Div K] [OfNat K 0] [OfNat K 1] [OfNat K 2]

/-- e^{j·angle} for the constant angles -/
def Angle.unit : Angle → Option (Cx K)
  | .zero => some ⟨1, 0⟩
  | .halfPi => some ⟨0, 1⟩
  | .negHalfPi => some ⟨0, -1⟩
  | .pi => some ⟨-1, 0⟩
  | _ => none

def Cond.holds [DecidableEq K] (x y : K) : Cond → Bool
  | .yZero => y == 0
  | .xZero => x == 0
  | .otherwise => true
  | .other _ => false

/-- the first branch whose condition holds -/
def pick [DecidableEq K] (x y : K) : List (Cond × Angle × Amp) → Option (Angle × Amp)
  | [] => none
  | (c, a, m) :: t => if c.holds x y then some (a, m) else pick x y t

/-- amp·e^{j·phase} of a branch, in rectangular form -/
def branchRect (form : PolarForm) (x y : K) : Angle × Amp → Option (Cx K)
  | (.atan2yx, .hypot) => match form with | .ampExpJPhase => some ⟨x, y⟩ | _ => none
  | (ang, amp) =>
    match form, ang.unit (K := K), amp with
    | .ampExpJPhase, some u, .x => some (Cx.ofReal x * u)
    | .ampExpJPhase, some u, .y => some (Cx.ofReal y * u)
    | .ampExpJPhase, some u, .negX => some (Cx.ofReal (-x) * u)
    | .ampExpJPhase, some u, .negY => some (Cx.ofReal (-y) * u)
    | _, _, _ => none

/-- phasor of the sum of two same-frequency terms with amplitudes A1, A2 and phases given by unit vectors -/
def sumPhasor [DecidableEq K] (form : PolarForm) (table : List (Cond × Angle × Amp))
    (fx fy : K → K → K → K → K → K → K) (A1 c1 s1 A2 c2 s2 : K) : Option (Cx K) :=
  let x := fx A1 c1 s1 A2 c2 s2
  let y := fy A1 c1 s1 A2 c2 s2
  (pick x y table).bind (branchRect form x y)

/-- phasor of one term A·f(ωt + φ), (c, s) = (cos φ, sin φ) -/
def termPhasor (form : PolarForm) (funcPhase : List (String × Angle)) (f : String) (A c s : K) : Option (Cx K) :=
  match form, (funcPhase.lookup f).bind (fun a => a.unit (K := K)) with
  | .ampExpJPhase, some u => some (Cx.ofReal A * (⟨c, s⟩ * u))
  | _, _ => none

/-- the sinusoid A·f(ωt + φ) as a formal sinusoid (a·cos ωt + b·sin ωt) — the SPEC side (angle addition) -/
def termSinus (f : String) (A c s : K) : Option (TDS.Sinus K) :=
  if f = "cos" then some ⟨A * c, -(A * s)⟩
  else if f = "sin" then some ⟨A * s, A * c⟩
  else none

/-- |P|² and rms² (no square roots on Gaussian rationals) -/
def magSq (p : Cx K) : K := p.re * p.re + p.im * p.im

end Lcapy.AC
