/-
  C16 -- two small executable models of HIDDEN SHARED STATE (Mathlib-free).

  * `Heap`: expression objects refer to their `Assumptions` object by identity.  `Expr.__init__(arg : Expr)`
      ass = arg.assumptions.copy()          -- or, aliased: ass = arg.assumptions
      if self.is_always_causal: ass.set('causal', True)
      ... self.assumptions = ass.merge(...)  -- merge() makes a new object
    Deriving an impedance / admittance / transfer view of an expression must not change the expression it is derived
    from; whether the source's assumptions object is copied is read from the source text (tx_caches `argAliasMutations`).
  * `Default`: a function with an optional dictionary parameter, `def renumber(self, node_map=None)`: with `None` a new
    dictionary is made per call; with a mutable default `node_map={}` ONE dictionary is shared by every call of the
    process and `augment_node_map` fills it (tx_caches `mutableDefaults`).
-/
namespace Lcapy.Alias

/-- an `Assumptions` object: the flags that matter here -/
structure Assum where
  causal : Bool
  dc : Bool
  ac : Bool
deriving DecidableEq, Repr

structure Heap where
  objs : List Assum
deriving DecidableEq, Repr

/-- an expression holds a reference (index into the heap) to its assumptions object -/
structure ExprRef where
  ass : Nat
deriving DecidableEq, Repr

def Heap.get (h : Heap) (i : Nat) : Assum := (h.objs[i]?).getD ⟨false, false, false⟩
def Heap.alloc (h : Heap) (a : Assum) : Heap × Nat := (⟨h.objs ++ [a]⟩, h.objs.length)
def Heap.set (h : Heap) (i : Nat) (a : Assum) : Heap := ⟨h.objs.set i a⟩

/-- `Expr.__init__` with an `Expr` argument.  `copies`: the argument's assumptions object is copied first.
    `alwaysCausal`: the class being constructed is an impedance / admittance / transfer class. -/
def derive (copies : Bool) (h : Heap) (src : ExprRef) (alwaysCausal : Bool) : Heap × ExprRef :=
  let (h1, id) := if copies then h.alloc (h.get src.ass) else (h, src.ass)
  -- `Assumptions.set('causal', True)` pops 'dc', 'ac', 'causal', 'unknown' and then sets 'causal'
  let h2 := if alwaysCausal then h1.set id ⟨true, false, false⟩ else h1
  -- `merge()` returns a new Assumptions object for the new expression
  let (h3, nid) := h2.alloc (h2.get id)
  (h3, ⟨nid⟩)

/-- a sequence of derivations from one kept expression (`V.as_transfer(); V.as_current(); ...`) -/
def deriveAll (copies : Bool) (h : Heap) (src : ExprRef) : List Bool → Heap
  | [] => h
  | ac :: rest => deriveAll copies (derive copies h src ac).1 src rest

/-! ### a function with an optional dictionary parameter -/

abbrev Dict := List (String × Nat)

def dictGet (d : Dict) (k : String) : Option Nat := d.lookup k

/-- a simple instance of `fill` for the witness: every node not yet in the map gets the next free number -/
def augment (d : Dict) : List String → Dict
  | [] => d
  | n :: ns => if (d.lookup n).isSome then augment d ns else augment (d ++ [(n, d.length + 1)]) ns

/-- process state: the one dictionary a mutable default creates -/
structure Proc where
  dflt : Dict
deriving DecidableEq, Repr

/-- `cct.renumber()` on circuit `c`: the mapping used, and the process afterwards.  `fill d c` is WHATEVER the method
    does to complete a given mapping for the circuit (`augment_node_map`); the theorems hold for every `fill`. -/
def renumber {C : Type} (fill : Dict → C → Dict) (mutableDefault : Bool) (p : Proc) (c : C) : Dict × Proc :=
  if mutableDefault then (fill p.dflt c, ⟨fill p.dflt c⟩)      -- the shared dictionary has been filled
  else (fill [] c, p)

/-- `cct.renumber({})`: the documented default passed explicitly -/
def renumberExplicit {C : Type} (fill : Dict → C → Dict) (c : C) : Dict := fill [] c

def calls {C : Type} (fill : Dict → C → Dict) (mutableDefault : Bool) : Proc → List C → Proc
  | p, [] => p
  | p, c :: rest => calls fill mutableDefault (renumber fill mutableDefault p c).2 rest

/-! ### `Netlist.renumber` / `augment_node_map` for circuits without wires and without dotted node names -/

abbrev SDict := List (String × String)

def sput (m : SDict) (k v : String) : SDict :=
  match m with
  | [] => [(k, v)]
  | p :: ps => if p.1 = k then (k, v) :: ps else p :: sput ps k v

/-- the loop `for key in enodes: newkey = node_map[key] if key in node_map else numbers.pop(0); node_map[key] = newkey`;
    `none` = `numbers.pop(0)` on an empty list (IndexError) -/
def assignNumbers : SDict → List String → List String → Option SDict
  | m, _, [] => some m
  | m, nums, n :: rest =>
    match m.lookup n with
    | some _ => assignNumbers m nums rest
    | none =>
      match nums with
      | [] => none
      | x :: xs => assignNumbers (sput m n x) xs rest

/-- `augment_node_map(node_map)` of a circuit whose nodes, in the order they are met in the components, are `ns`:
    node 0 keeps its name; an entry for a node the circuit does not have raises ('Unknown node'); the numbers
    1..len(nodes) not used as new names are handed out in node order -/
def augmentNodeMap (m : SDict) (ns : List String) : Option SDict :=
  let m1 := if ns.contains "0" && (m.lookup "0").isNone then sput m "0" "0" else m
  if m1.any (fun p => !ns.contains p.1) then none
  else
    let numbers := ((List.range ns.length).map (fun k => toString (k + 1))).filter (fun x => !(m1.map (·.2)).contains x)
    assignNumbers m1 numbers ns

structure SProc where
  dflt : SDict
deriving DecidableEq, Repr

/-- `cct.renumber()`: `if len(node_map) != len(self.nodes): node_map = self.augment_node_map(node_map)`; the answer is
    the mapping of the circuit's own nodes (`none`: the call raises).  With a mutable default the dictionary that
    `augment_node_map` filled IS the default of the next call. -/
def renumberS (mutableDefault : Bool) (p : SProc) (ns : List String) : Option SDict × SProc :=
  let m0 : SDict := if mutableDefault then p.dflt else []
  let r := if m0.length ≠ ns.eraseDups.length then augmentNodeMap m0 ns.eraseDups else some m0
  match r with
  | none => (none, p)        -- raised before anything was stored ... except what `augment_node_map` already wrote:
  | some m => (some (m.filter (fun q => ns.contains q.1)), if mutableDefault then ⟨m⟩ else p)

def callsS (mutableDefault : Bool) : SProc → List (List String) → List (Option SDict)
  | _, [] => []
  | p, ns :: rest => (renumberS mutableDefault p ns).1 :: callsS mutableDefault (renumberS mutableDefault p ns).2 rest

end Lcapy.Alias
