/-
  C09 — raw time-domain terms, their meaning as formal signals (`sem`), and an executable mirror
  of the dispatch in lcapy/laplace.py `LaplaceTransformer.term` (`lcapyTerm`).  No Mathlib import.

  Raw term language (what the harness generates and hands, untransformed, to both Lcapy and the driver):

      prod c [atoms]     c · Π atoms,   atoms:  t^k | (a t + b) | exp(a t) | exp(a t + b) | sin/cos(w t + φ) | sinh/cosh(a t)
                                               | Heaviside(a t + b) | DiracDelta(a t + b, n) | rect/tri/ramp/rampstep(a t + b)
      undef c a b        c · x(a t + b)                          (x an undefined function)
      undefExp c a       c · x(t) · exp(a t)
      dundef c n         c · dⁿx/dtⁿ
      dundefAt c n a b   c · dⁿ/dtⁿ [x(a t + b)]                 (x causal)
      deltaX c a b       c · x(t) · δ(a t + b)                   (sifting)
      iundef c           c · ∫_{−∞}^{t} x(τ) dτ
      convXY c           c · ∫_0^t x(τ) y(t−τ) dτ
      convExpX c a       c · ∫_0^∞ exp(a τ) x(t−τ) dτ

  `sem` builds the signal from a step/delta base term with the verified operations of
  Model/ExpPoly.lean (`tmul`, `expWeight`, `smul`, `delay`, `scale`, `deriv`, `conv`, `integ`), so its
  transform is fixed by the theorems of Props/C09.lean.  Undefined functions are interpreted by
  arbitrary signals supplied in the environment (`xsig`, `ysig`).

  Environment: `E` = exponential stand-in, `J` = imaginary unit, `s` = evaluation point.
-/
import Lcapy.Spec.Signal
import Lcapy.Model.ExpPoly
import Lcapy.Generated.LaplaceTable
namespace Lcapy.Laplace

inductive Fn where
  | rect | tri | ramp | rampstep
deriving Repr, DecidableEq

inductive Atom (K : Type) where
  | tpow (k : Nat)
  | lin (a b : K)
  | exp (a : K)
  /-- `exp(a t + b)` with a constant offset in the exponent (SymPy keeps it inside the exponential) -/
  | expb (a b : K)
  | trig (isCos : Bool) (w ph : K)
  | hyp (isCosh : Bool) (a : K)
  | step (a b : K)
  | delta (n : Nat) (a b : K)
  | fn (f : Fn) (a b : K)
deriving Repr, DecidableEq

inductive Raw (K : Type) where
  | prod (c : K) (fs : List (Atom K))
  | undef (c a b : K)
  | undefExp (c a : K)
  | dundef (c : K) (n : Nat)
  | dundefAt (c : K) (n : Nat) (a b : K)
  | deltaX (c a b : K)
  | iundef (c : K)
  | convXY (c : K)
  | convExpX (c a : K)
deriving Repr

structure Env (K : Type) where
  s : K
  E : K → K
  J : K
  /-- interpretation of the undefined functions `x`, `y` -/
  xsig : Signal K
  ysig : ExpPoly K
  /-- `zero_initial_conditions` option of the transform -/
  zic : Bool

section
variable {K : Type} [Add K] [Mul K] [Neg K] [Sub K] [Div K] [OfNat K 0] [OfNat K 1]
variable [LE K] [DecidableLE K] [DecidableEq K]

def two : K := 1 + 1

/-! ### meaning of a raw term -/

/-- `ramp(a t + b) = (a t + b) · u(a t + b)` etc. as sums of (coefficient, atoms) -/
def expandFn (f : Fn) (a b : K) : List (K × List (Atom K)) :=
  let rampAt (c : K) (sh : K) : K × List (Atom K) := (c, [.lin a (b + sh), .step a (b + sh)])
  match f with
  | .ramp => [rampAt 1 0]
  | .rampstep => [rampAt 1 0, rampAt (-1) (-1)]
  | .tri => [rampAt 1 1, rampAt (-(two : K)) 0, rampAt 1 (-1)]
  | .rect => [(1, [.step a (b + 1 / two)]), (-1, [.step a (b - 1 / two)])]

/-- distribute products over the sums introduced by `expandFn` -/
def expandAtoms : List (Atom K) → List (K × List (Atom K))
  | [] => [(1, [])]
  | .fn f a b :: rest =>
      (expandFn f a b).flatMap (fun (c1, as1) => (expandAtoms rest).map (fun (c2, as2) => (c1 * c2, as1 ++ as2)))
  | x :: rest => (expandAtoms rest).map (fun (c2, as2) => (c2, x :: as2))

def iter (g : ExpPoly K → ExpPoly K) : Nat → ExpPoly K → ExpPoly K
  | 0, f => f
  | n + 1, f => g (iter g n f)

/-- multiply the signal `f` by one smooth factor -/
def applySmooth (E : K → K) (J : K) (f : ExpPoly K) : Atom K → ExpPoly K
  | .tpow k => iter tmul k f
  | .lin a b => smul a (tmul f) ++ smul b f
  | .exp a => expWeight E a f
  | .expb a b => smul (E b) (expWeight E a f)
  | .trig false w ph =>   -- sin(wt+φ) = (e^{jφ} e^{jwt} − e^{−jφ} e^{−jwt}) / (2j)
      smul (E (J * ph) / (two * J)) (expWeight E (J * w) f)
        ++ smul (-(E (-(J * ph)) / (two * J))) (expWeight E (-(J * w)) f)
  | .trig true w ph =>    -- cos(wt+φ) = (e^{jφ} e^{jwt} + e^{−jφ} e^{−jwt}) / 2
      smul (E (J * ph) / two) (expWeight E (J * w) f)
        ++ smul (E (-(J * ph)) / two) (expWeight E (-(J * w)) f)
  | .hyp true a => smul (1 / two) (expWeight E a f) ++ smul (1 / two) (expWeight E (-a) f)
  | .hyp false a => smul (1 / two) (expWeight E a f) ++ smul (-(1 / two)) (expWeight E (-a) f)
  | _ => f

def isSmooth : Atom K → Bool
  | .step _ _ => false
  | .delta _ _ _ => false
  | .fn _ _ _ => false
  | _ => true

def deltaSel : Atom K → Option (Nat × K × K)
  | .delta n a b => some (n, a, b)
  | .tpow _ => none | .lin _ _ => none | .exp _ => none | .expb _ _ => none | .trig _ _ _ => none | .hyp _ _ => none
  | .step _ _ => none | .fn _ _ _ => none

/-- forward steps `u(a t + b)`, `a ≥ 0` -/
def stepSel : Atom K → Option (K × K)
  | .step a b => if (0 : K) ≤ a then some (a, b) else none
  | .tpow _ => none | .lin _ _ => none | .exp _ => none | .expb _ _ => none | .trig _ _ _ => none | .hyp _ _ => none
  | .delta _ _ _ => none | .fn _ _ _ => none

/-- time-reversed steps `u(a t + b)`, `a < 0`: on until `T = −b/a` -/
def offSel : Atom K → Option K
  | .step a b => if (0 : K) ≤ a then none else some (-(b / a))
  | .tpow _ => none | .lin _ _ => none | .exp _ => none | .expb _ _ => none | .trig _ _ _ => none | .hyp _ _ => none
  | .delta _ _ _ => none | .fn _ _ _ => none

/-- meaning of `c · Π atoms` without `fn` atoms.
    * one delta `δ^{(n)}(a t + b) = a^{−(n+1)} δ^{(n)}(t − τ)`, `τ = −b/a`: base term `dl`; a delta before the
      origin contributes nothing to the unilateral transform;
    * otherwise the product of the forward steps (`a ≥ 0`) is `u(t − τ)`, `τ = max(0, delays)`: whatever the signal
      does before `t = 0` is ignored; time-reversed steps `u(a t + b)`, `a < 0` (signal switched off at `T = −b/a`)
      turn it into the window `u(t − τ) − u(t − T)` (`T` the smallest switch-off time), or into 0 when `T ≤ τ`;
    * a delta multiplied by a step is outside the supported class (`none`). -/
def semSimple (E : K → K) (J : K) (c : K) (atoms : List (Atom K)) : Option (ExpPoly K) :=
  let deltas := atoms.filterMap deltaSel
  let steps := atoms.filterMap stepSel
  let offs := atoms.filterMap offSel
  let smooth := atoms.filter isSmooth
  match deltas with
  | [] =>
    let tau := steps.foldl (fun (m : K) (ab : K × K) => if m ≤ -(ab.2 / ab.1) then -(ab.2 / ab.1) else m) 0
    match offs with
    | [] => some (smooth.foldl (applySmooth E J) [.ep c 0 0 tau])
    | T0 :: Ts =>
      -- window `u(t − τ) · u(T − t) = u(t − τ) − u(t − T)` for `τ < T` (a.e.), zero when `T ≤ τ`
      let T := Ts.foldl (fun (m : K) (x : K) => if x ≤ m then x else m) T0
      if T ≤ tau then some []
      else some (smooth.foldl (applySmooth E J) [.ep c 0 0 tau, .ep (-c) 0 0 T])
  | [(n, a, b)] =>
    if steps.length ≠ 0 ∨ offs.length ≠ 0 then none
    else
      let tau := -(b / a)
      if (0 : K) ≤ tau then some (smooth.foldl (applySmooth E J) [.dl (c / pw a (n + 1)) n tau])
      else some []
  | _ => none

def semProd (E : K → K) (J : K) (c : K) (atoms : List (Atom K)) : Option (ExpPoly K) :=
  (expandAtoms atoms).foldl (fun acc (c1, as1) =>
      match acc, semSimple E J (c * c1) as1 with
      | some f, some g => some (f ++ g)
      | _, _ => none) (some [])

/-- n-fold derivative of a whole-axis signal -/
def signalDerivN : Nat → Signal K → Signal K
  | 0, x => x
  | n + 1, x => Signal.deriv (signalDerivN n x)

/-- the signal is an ordinary function continuous at `tau`: no impulse, no step switching on exactly at `tau` -/
def contAt (f : ExpPoly K) (tau : K) : Bool :=
  f.all (fun t => match t with
    | .ep _ _ _ d => decide (d ≠ tau)
    | .dl _ _ _ => false)

/-- The signal denoted by a raw term (only its `t ≥ 0⁻` part matters). -/
def sem (env : Env K) : Raw K → Option (ExpPoly K)
  | .prod c fs => semProd env.E env.J c fs
  | .undef c a b =>
      -- x(a t + b) = x(a (t − τ)), τ = −b/a ≥ 0, x causal
      if (b ≤ (0 : K)) then some (smul c (delay (-(b / a)) (scale a env.xsig.post))) else none
  | .undefExp c a => some (smul c (expWeight env.E a env.xsig.post))
  | .dundef c n => some (smul c (signalDerivN n env.xsig).post)
  | .dundefAt c n a b =>
      -- dⁿ/dtⁿ of the causal signal x(a (t − τ)), τ = −b/a ≥ 0 (distributional derivative: zero initial conditions)
      if (b ≤ (0 : K)) then some (smul c (derivN n (delay (-(b / a)) (scale a env.xsig.post)))) else none
  | .deltaX c a b =>
      -- x(t)·δ(a t + b) = x(τ)·δ(t − τ)/a, τ = −b/a (a > 0); nothing when the impulse lies before the origin.
      -- x must be continuous at τ: no delta in x and no step of x exactly at τ (`none` otherwise)
      let tau := -(b / a)
      if (0 : K) ≤ tau then
        if contAt env.xsig.post tau then
          some [.dl (c * evalAt env.E env.xsig.post tau / a) 0 tau]
        else none
      else some []
  | .iundef c => some (smul c (integ env.xsig.post))
  | .convXY c => some (smul c (conv env.xsig.post env.ysig))
  | .convExpX c a => some (smul c (conv [.ep 1 0 a 0] env.xsig.post))

/-- The specification value: transform of the denoted signal at `env.s`. -/
def specValue (env : Env K) (r : Raw K) : Option K :=
  (sem env r).map (fun f => L env.E f env.s)

/-! ### mirror of `LaplaceTransformer.term` -/

inductive Branch where
  | const | exp | sinCos | function | func | funcExp | derivUndef | integral | sympy | deltaUndef
deriving Repr, DecidableEq

def Branch.name : Branch → String
  | .const => "const" | .exp => "exp" | .sinCos => "sin_cos" | .function => "function"
  | .func => "func" | .funcExp => "func_exp" | .derivUndef => "derivative_undef"
  | .integral => "integral" | .sympy => "sympy" | .deltaUndef => "delta_undef"

/-- `remove_heaviside` (drops exact `Heaviside(t)` factors), SymPy's automatic merging of
    `exp(a t)·exp(b t)` and of powers of `t`. Returns the normalised atom list:
    `[tpow?] ++ [exp?] ++ others`. -/
def normAtoms (atoms : List (Atom K)) : List (Atom K) :=
  let atoms := atoms.filter (fun x => match x with
    | .step a b => !(a = 1 ∧ b = 0)
    | _ => true)
  let k := atoms.foldl (fun k x => match x with | .tpow j => k + j | _ => k) 0
  let hasExp := atoms.any (fun x => match x with | .exp _ => true | _ => false)
  let a := atoms.foldl (fun (a : K) x => match x with | .exp b => a + b | _ => a) 0
  let rest := atoms.filter (fun x => match x with | .tpow _ => false | .exp _ => false | _ => true)
  (if k = 0 then [] else [.tpow k]) ++ (if hasExp ∧ a ≠ 0 then [.exp a] else []) ++ rest

/-- `LaplaceTransformer.sin_cos` for `exp(α t) · sin/cos(ω t + φ) · Heaviside(t − τ)`:
    phase `φ (+π/2 for cos) (+ω τ)`;
    `E = (ω cos φ + (s−α) sin φ) / (ω² + (s−α)²) · exp(−τ s) · exp(α τ)`. -/
def sinCosFormula (env : Env K) (alpha : K) (isCos : Bool) (w ph : K) (tau : K) : K :=
  let s := env.s
  let tau := if (0 : K) ≤ tau then tau else 0          -- `if tau.is_negative: tau = 0`
  let phi := ph + w * tau                               -- `phi += omega * tau`
  let ep := env.E (env.J * phi)
  let em := env.E (-(env.J * phi))
  let c0 := (ep + em) / two                             -- cos(phi)
  let s0 := (ep - em) / (two * env.J)                   -- sin(phi)
  -- `if cos: phi += pi/2`
  let cphi := if isCos then -s0 else c0
  let sphi := if isCos then c0 else s0
  (w * cphi + (s - alpha) * sphi) / (w * w + (s - alpha) * (s - alpha))
    * env.E (-(tau * s)) * env.E (alpha * tau)

/-- first letter upper-cased transform `X(s)` of the undefined function -/
def Xof (env : Env K) (s : K) : K := L env.E env.xsig.post s
def Yof (env : Env K) (s : K) : K := L env.E env.ysig s

/-- values `x(0⁻), x'(0⁻), …` that Lcapy writes as `x(0)`, `Subs(Derivative(x(t), t), t, 0)` -/
def icOf (env : Env K) (m : Nat) : K := pre0 (signalDerivN m env.xsig).pre

/-- `derivative_undef`: `s^n X(s) − Σ_{m<n} s^{n−m−1} x^{(m)}(0)` (the sum only when
    `zero_initial_conditions` is false). -/
def derivUndefFormula (env : Env K) (n : Nat) : K :=
  let base := Xof env env.s * pw env.s n
  if env.zic then base
  else (List.range n).foldl (fun acc m => acc - pw env.s (n - m - 1) * icOf env m) base

/-- `clip_step` (the rewriting `term` applies before it hands a product to `sympy.integrate`): a factor
    `Heaviside(a t + b)` is dropped (replaced by 1) when the GENERATED guard `Gen.clipGuard a b` holds. -/
def clipAtoms (atoms : List (Atom K)) : List (Atom K) :=
  atoms.filter (fun x => match x with
    | .step a b => !(Gen.clipGuard a b)
    | _ => true)

/-- the branch delegated to `sympy.integrate`: SymPy's integral itself is not modelled (it is taken to be the
    integral over `t ≥ 0⁻` of what it is given), but what it is given is: the product after `clip_step`. -/
def sympyBranch (env : Env K) (c : K) (fs : List (Atom K)) : Branch × Option K :=
  (.sympy, specValue env (.prod c (clipAtoms fs)))

/-- What `LaplaceTransformer.term` computes for a raw term: the branch taken and, for branches with
    their own formula, the value at `env.s`.  Branch `sympy` = delegated to `sympy.integrate` after `clip_step`
    (`sympyBranch`). -/
def lcapyTerm (env : Env K) : Raw K → Branch × Option K
  | .prod c fs =>
    let s := env.s
    -- sinh/cosh are rewritten to exponentials and re-dispatched term by term: always closed forms
    if fs.any (fun x => match x with | .hyp _ _ => true | _ => false) then sympyBranch env c fs
    else
    match normAtoms fs with
    | [] => (.const, some (c / s))
    | [.exp a] => (.exp, some (c / (s - a)))
    | [.trig isCos w ph] => (.sinCos, some (c * sinCosFormula env 0 isCos w ph 0))
    | [.exp a, .trig isCos w ph] => (.sinCos, some (c * sinCosFormula env a isCos w ph 0))
    -- `exp(α t + β)`: `alpha, beta = scale_shift(exparg, t)` … `if beta != 0: E = exp(beta) * E`
    | [.expb a be, .trig isCos w ph] => (.sinCos, some (c * (env.E be * sinCosFormula env a isCos w ph 0)))
    | [.expb al be, .trig isCos w ph, .step a b] =>
        if a = 1 then (.sinCos, some (c * (env.E be * sinCosFormula env al isCos w ph (-b)))) else sympyBranch env c fs
    | [.trig isCos w ph, .step a b] =>
        if a = 1 then (.sinCos, some (c * sinCosFormula env 0 isCos w ph (-b))) else sympyBranch env c fs
    | [.exp al, .trig isCos w ph, .step a b] =>
        if a = 1 then (.sinCos, some (c * sinCosFormula env al isCos w ph (-b))) else sympyBranch env c fs
    | [.fn f a b] =>
        -- `function`: the table needs a plain shift-free argument; a negative scale is refused when the source says so (GENERATED flag)
        if b = 0 ∧ ¬ (Gen.fnRejectsNegScale = true ∧ ¬ (0 : K) ≤ a) then
          (.function, some (c * (match f with
            | .rect => Gen.rectEntry env.E s a
            | .tri => Gen.triEntry env.E s a
            | .ramp => Gen.rampEntry env.E s a
            | .rampstep => Gen.rampstepEntry env.E s a)))
        else sympyBranch env c fs
    | _ => sympyBranch env c fs
  | .undef c a b =>
      -- `func`: X(s/scale)/|scale| · exp(s·shift/scale)   (scale > 0 in the generated class)
      (.func, some (c * (Xof env (env.s / a) / a * (if b = 0 then 1 else env.E (env.s * b / a)))))
  | .undefExp c a => (.funcExp, some (c * Xof env (env.s - a)))
  | .dundef c n => (.derivUndef, some (c * derivUndefFormula env n))
  | .dundefAt c n a b =>
      -- `derivative_undef` on `Derivative(x(a t + b), t, n)`: `s^n` times `self.func(x(a t + b))` when the source applies the
      -- similarity/shift theorems to the differentiated function (GENERATED flag), else `s^n X(s)` whatever the argument
      if env.zic then
        (.derivUndef, some (c * ((if Gen.derivAppliesShift
            then Xof env (env.s / a) / a * (if b = 0 then 1 else env.E (env.s * b / a))
            else Xof env env.s) * pw env.s n)))
      else (.derivUndef, none)
  | .deltaX c a b =>
      -- branch `DiracDelta(..) * x(t)` of `term`: sifting when the source implements it (GENERATED flag); the old code
      -- returned the time function `x(t)` itself (no value at a point of the s-plane: `none`)
      if Gen.deltaUndefSifts then
        let tau := -(b / a)
        if (0 : K) ≤ tau then (.deltaUndef, some (c * evalAt env.E env.xsig.post tau * env.E (-(env.s * tau)) / a))
        else (.deltaUndef, some 0)
      else (.deltaUndef, none)
  | .iundef c => (.integral, some (c * (Xof env env.s / env.s)))
  | .convXY c => (.integral, some (c * (Xof env env.s * Yof env env.s)))
  | .convExpX c a => (.integral, some (c * ((1 / (env.s - a)) * Xof env env.s)))

end
end Lcapy.Laplace
