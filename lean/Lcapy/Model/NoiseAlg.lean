/-
  MODEL of the arithmetic of noise expressions (lcapy/noiseexpr.py `NoiseExpression.__add__`, `__sub__`, `__mul__`,
  `__rmul__`, `Expr.__neg__`) and of the noise part of a `Superposition` (lcapy/superposition.py `_add_noise`, `add`,
  `__neg__`, `__sub__`, `n`).

  A noise expression is an amplitude spectral density with a noise identifier `nid`.  The value stored for an
  identifier by a noise analysis is the COMPLEX amplitude `H(jω)·a` (`NVal.amp`); combining expressions with
  DIFFERENT identifiers gives the root of the sum of the squared magnitudes (`NVal.rss p` = √p, p the power) under
  a FRESH identifier.  The zero tests of the code (`x == 0`) look at the value only.
      x + y : y = 0 ↦ x ; same nid ↦ amplitudes add ; else √(|x|² + |y|²), fresh nid
      x − y : y = 0 ↦ x ; same nid ↦ amplitudes subtract ; else x + y
      −x, c·x : value negated / scaled, nid kept
  `none`: outside the model (an operation that needs the arithmetic of √p).
  No Mathlib import.
-/
namespace Lcapy.Noise
variable {K : Type} [Add K] [Mul K] [Neg K] [Sub K] [OfNat K 0] [DecidableEq K]

inductive NVal (K : Type) where
  | amp (re im : K)      -- complex amplitude re + j·im
  | rss (p : K)          -- √p, the result of a power (quadrature) sum
deriving DecidableEq, Repr

structure NE (K : Type) where
  v : NVal K
  nid : Nat
deriving DecidableEq, Repr

def NVal.isZero : NVal K → Bool
  | .amp re im => decide (re = 0) && decide (im = 0)
  | .rss p => decide (p = 0)

/-- squared magnitude -/
def NVal.power : NVal K → K
  | .amp re im => re * re + im * im
  | .rss p => p

/-- `NoiseExpression.__add__` -/
def add (fresh : Nat) (x y : NE K) : Option (NE K) :=
  if y.v.isZero then some x
  else if x.nid = y.nid then
    match x.v, y.v with
    | .amp a b, .amp c d => some ⟨.amp (a + c) (b + d), x.nid⟩
    | _, _ => none
  else some ⟨.rss (x.v.power + y.v.power), fresh⟩

/-- `NoiseExpression.__sub__` -/
def sub (fresh : Nat) (x y : NE K) : Option (NE K) :=
  if y.v.isZero then some x
  else if x.nid = y.nid then
    match x.v, y.v with
    | .amp a b, .amp c d => some ⟨.amp (a - c) (b - d), x.nid⟩
    | _, _ => none
  else add fresh x y

/-- unary minus (`Expr.__neg__`: value negated, assumptions — the nid — kept) -/
def neg (x : NE K) : Option (NE K) :=
  match x.v with
  | .amp a b => some ⟨.amp (-a) (-b), x.nid⟩
  | .rss p => if p = 0 then some x else none

/-- multiplication by a real scalar (`__mul__` / `__rmul__`) -/
def smul (c : K) (x : NE K) : Option (NE K) :=
  match x.v with
  | .amp a b => some ⟨.amp (c * a) (c * b), x.nid⟩
  | .rss p => if p = 0 then some x else none

/-! ### the noise part of a Superposition: a dictionary nid ↦ complex amplitude -/

abbrev NDict (K : Type) := List (Nat × (K × K))

def cadd (u v : K × K) : K × K := (u.1 + v.1, u.2 + v.2)
def cneg (u : K × K) : K × K := (-u.1, -u.2)
def czero : K × K := (0, 0)

def lookup (d : NDict K) (n : Nat) : K × K :=
  match d with
  | [] => czero
  | (m, u) :: t => if m = n then u else lookup t n

/-- `Superposition.add` of a noise value: a zero value is ignored; a new identifier gets its own key; an existing one
    accumulates IN AMPLITUDE (`self[nid] += value`, same nid) and the key is popped when the sum vanishes -/
def addNoise (d : NDict K) (n : Nat) (v : K × K) : NDict K :=
  if v = czero then d else
  match d with
  | [] => [(n, v)]
  | (m, u) :: t =>
    if m = n then (if cadd u v = czero then t else (m, cadd u v) :: t)
    else (m, u) :: addNoise t n v

/-- `Superposition.__add__` restricted to the noise keys -/
def superAdd (d e : NDict K) : NDict K := e.foldl (fun acc p => addNoise acc p.1 p.2) d

/-- `Superposition.__neg__` -/
def superNeg (d : NDict K) : NDict K := d.map (fun p => (p.1, cneg p.2))

/-- `Superposition.__sub__`: `self + (-x)` -/
def superSub (d e : NDict K) : NDict K := superAdd d (superNeg e)

def normSq' (z : K × K) : K := z.1 * z.1 + z.2 * z.2

/-- `.n` squared: the identifiers are independent, their powers add -/
def totalPower : NDict K → K
  | [] => 0
  | (_, u) :: t => normSq' u + totalPower t

/-- the keys of the dictionary -/
def keys (d : NDict K) : List Nat := d.map (·.1)

/-- sum of the values stored in `e` (a list of contributions, identifiers may repeat) for the identifier `m` -/
def contrib (e : NDict K) (m : Nat) : K × K :=
  e.foldr (fun p acc => if p.1 = m then cadd p.2 acc else acc) czero

end Lcapy.Noise
