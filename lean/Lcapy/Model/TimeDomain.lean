/-
  C02 — executable side of the time-domain laws (Spec/LawsT.lean).  No Mathlib import.

  * `normalForm`    collects like terms of a formal signal (same polynomial order, rate and delay; same delta order
                    and delay) and drops those whose coefficients cancel;  `FormalZero f` = the normal form is empty.
                    Soundness (the transform and the pointwise value are unchanged) is proved in Proofs/TimeDomain.lean.
  * `checkLawsT`    decides `LawsTFormal`: every KCL residual and every component-law residual of `Spec/LawsT.lean`
                    is formally zero; returns the first violated clause with its non-zero normal form.
  * `response`      the model's own time response: the inverse transform (`ilt`, Model/ILT.lean, the mirror of
                    `InverseLaplaceTransformer.ratfun`) of partial-fraction data of the s-domain solution.
-/
import Lcapy.Spec.LawsT
import Lcapy.Model.ILT
namespace Lcapy.TD
open Lcapy.MNA Lcapy.Laplace

section
variable {K : Type} [Add K] [Mul K] [Neg K] [Sub K] [Div K] [OfNat K 0] [OfNat K 1] [OfNat K 2] [DecidableEq K]

/-- two terms are multiples of the same basis signal -/
def sameKey : Term K → Term K → Bool
  | .ep _ k p d, .ep _ k' p' d' => decide (k = k') && decide (p = p') && decide (d = d')
  | .dl _ n d, .dl _ n' d' => decide (n = n') && decide (d = d')
  | _, _ => false

def _root_.Lcapy.Laplace.Term.coef : Term K → K
  | .ep c _ _ _ => c
  | .dl c _ _ => c

def _root_.Lcapy.Laplace.Term.withCoef (c : K) : Term K → Term K
  | .ep _ k p d => .ep c k p d
  | .dl _ n d => .dl c n d

/-- sum of the coefficients of the terms of `f` on the basis signal of `κ` -/
def coefOf (κ : Term K) : ExpPoly K → K
  | [] => 0
  | t :: f => if sameKey κ t then t.coef + coefOf κ f else coefOf κ f

/-- like terms collected, cancelled terms dropped (`fuel ≥ length` suffices) -/
def normalForm : Nat → ExpPoly K → ExpPoly K
  | _, [] => []
  | 0, _ :: _ => []
  | fuel + 1, t :: f =>
    let c := coefOf t (t :: f)
    let rest := normalForm fuel (f.filter (fun u => !sameKey t u))
    if c = 0 then rest else t.withCoef c :: rest

def nf (f : ExpPoly K) : ExpPoly K := normalForm f.length f

/-- the signal is zero: all coefficients cancel -/
def FormalZero (f : ExpPoly K) : Prop := nf f = []

instance (f : ExpPoly K) : Decidable (FormalZero f) := by unfold FormalZero; exact inferInstance

/-- The time-domain laws with formal equality of signals (decided by the driver). -/
def LawsTFormal (tcs : List (TCpt K)) (x : Ix → Signal K) : Prop :=
  (∀ k, k ≠ 0 → FormalZero (kclT x k tcs)) ∧ (∀ c ∈ tcs, ∀ p ∈ lawsT x c, FormalZero p.2)

inductive VerdictT (K : Type) where
  | ok
  | kcl (node : Nat) (residual : ExpPoly K)
  | law (cptIndex : Nat) (branch : Nat) (residual : ExpPoly K)

def VerdictT.isOk : VerdictT K → Bool
  | .ok => true
  | _ => false

/-- check `LawsTFormal` on nodes 1..nNodes-1 (all other nodes carry no component) -/
def checkLawsT (tcs : List (TCpt K)) (x : Ix → Signal K) (nNodes : Nat) : VerdictT K :=
  let kclBad := (List.range nNodes).findSome? (fun k =>
    if k = 0 then none else
      let r := nf (kclT x k tcs)
      if r.isEmpty then none else some (VerdictT.kcl k r))
  match kclBad with
  | some v => v
  | none =>
    let lawBad := (tcs.zipIdx).findSome? (fun (c, i) =>
      (lawsT x c).findSome? (fun p =>
        let r := nf p.2
        if r.isEmpty then none else some (VerdictT.law i p.1 r)))
    match lawBad with
    | some v => v
    | none => .ok

/-- coefficient of `δ(t)` (an impulse at the origin) -/
def impulse0 (f : ExpPoly K) : K := coefOf (.dl 0 0 0) f

/-- the recorded initial current of every coupling is the initial current of the inductor it names -/
def coupConsistent (tcs : List (TCpt K)) : Bool :=
  tcs.all (fun c => match c.1 with
    | .Ind _ _ _ _ _ coup => coup.all (fun p => tcs.any (fun c' => match c'.1 with
        | .Ind _ _ m' _ i0' _ => decide (m' = p.1) && decide (i0' = p.2.2)
        | _ => false))
    | _ => true)

/-! ### hand-over of the state at a switching instant (`Netlist.convert_IVP` → `initialize`) -/

/-- `NetlistMixin._initialize_from_circuit` with `C._initialize` / `L._initialize`: every capacitor of the post-switch
    netlist gets as initial condition the voltage across it, every inductor the current through it — and every coupling the
    current of the partner inductor, which `K._stamp` reads from the partner's `i0` — in the solution `X` of the
    pre-switch circuit at the switching instant (for a steady pre-switch circuit: its `Laws .dc` solution). -/
def initializeFrom (X : Ix → K) : Cpt K → Cpt K
  | .Cap n1 n2 c _ => .Cap n1 n2 c (some (vd X n1 n2))
  | .Ind n1 n2 m l _ coup => .Ind n1 n2 m l (some (X (.br m))) (coup.map (fun p => (p.1, p.2.1, some (X (.br p.1)))))
  | c => c

/-- the same netlist with no initial condition written: the state at 0⁻ is that of the signals' own pre-history -/
def clearIC : Cpt K → Cpt K
  | .Cap n1 n2 c _ => .Cap n1 n2 c none
  | .Ind n1 n2 m l _ coup => .Ind n1 n2 m l none (coup.map (fun p => (p.1, p.2.1, none)))
  | c => c

/-- the value at 0⁻ of every signal's pre-history is the pre-switch solution `X` -/
def StartsFrom (X : Ix → K) (x : Ix → Signal K) : Prop := ∀ ix, pre0 (x ix).pre = X ix

/-- constant whole-axis signals: the steady state `X` continued for all t -/
def constSignals (X : Ix → K) : Ix → Signal K := fun ix => ⟨[(X ix, 0, 0)], [.ep (X ix) 0 0 0]⟩

/-! ### the decision procedure as the driver runs it (`td.laws`): rewrites + checks in ONE function, proved sound
    (`C02.tdCheck_sound`: verdict `ok` ⇒ `LawsTFormal` of the time-domain problem `tdProblem` it is decided on) -/

/-- every node a component is attached to -/
def nodesOf : Cpt K → List Nat
  | .R a b _ => [a, b] | .Cap a b _ _ => [a, b] | .Ind a b _ _ _ _ => [a, b] | .V a b _ _ => [a, b] | .I a b _ => [a, b]
  | .E a b c d _ _ _ => [a, b, c, d] | .G a b c d _ => [a, b, c, d] | .F a b _ _ => [a, b] | .H a b _ _ _ => [a, b]
  | .TF a b c d _ _ => [a, b, c, d] | .GY a b c d _ _ _ => [a, b, c, d] | .AM a b _ => [a, b] | .TR a b _ _ => [a, b]
  | .Y a b _ => [a, b] | .Open a b => [a, b] | .TPA a b c d _ _ _ _ _ => [a, b, c, d] | .TPY a b c d _ _ _ _ => [a, b, c, d]
  | .SP a b c d _ _ _ _ => [a, b, c, d] | .HY a b _ c d _ _ _ _ => [a, b, c, d]

/-- all components are attached to nodes `< n` only (so KCL at the nodes `≥ n` is the empty statement) -/
def nodesBelow (n : Nat) (tcs : List (TCpt K)) : Bool := tcs.all (fun c => (nodesOf c.1).all (fun a => decide (a < n)))

/-- TIME-DOMAIN READING OF A CCVS CONTROLLED BY A CAPACITOR.  The front-end describes `H1 a b C1 h` by `Cpt.HY` with the
    admittance of the controlling element AT THE POINT s (for a capacitor y = s·C, isc = C·v0): an s-domain description.
    In the time domain the control current is `C·D v`; it is expressed with the existing components by the electrically
    identical circuit "capacitor in series with an ideal ammeter that carries the control branch":
        C1 n3 n4 c v0 ; H1 n1 n2 C1 h     ↦     C1 n3 k c v0 ; AM k n4 (branch of C1) ; H n1 n2 (controlled by that branch)
    with a fresh node `k` whose voltage signal is that of `n4` (so the ammeter law holds by construction and KCL at `k`
    says: control current = i_C = C·D v seen from v0).  `HY` controlled by R or Y (constant conductance) is left as is.
    `brs` are the branch names of the front-end (a capacitor's name starts with `C`).  Returns the netlist, the signals and
    the number of fresh nodes. -/
def capControl (brs : List String) (nNodes : Nat) (tcs : List (String × TCpt K)) (x : Ix → Signal K) :
    List (String × TCpt K) × (Ix → Signal K) × Nat :=
  tcs.foldl (fun (acc : List (String × TCpt K) × (Ix → Signal K) × Nat) (nc : String × TCpt K) =>
    let (cur, xx, extra) := acc
    match nc.2.1 with
    | .HY n1 n2 m _ _ mc _ _ h =>
      let cn := brs.getD mc ""
      if cn.startsWith "C" then
        match cur.find? (fun q => q.1 = cn) with
        | some (_, (.Cap a b c v0, w)) =>
          let k := nNodes + extra
          let vb : Signal K := voltT xx b
          let cur' := cur.map (fun q =>
            if q.1 = cn then (cn, ((Cpt.Cap a k c v0 : Cpt K), w))
            else if q.1 = nc.1 then (nc.1, ((Cpt.H n1 n2 m mc h : Cpt K), nc.2.2)) else q)
          (cur' ++ [(cn ++ "_ammeter", ((Cpt.AM k b mc : Cpt K), (⟨[], []⟩ : Signal K)))],
           (fun ix => if ix = Ix.node k then vb else xx ix), extra + 1)
        | _ => acc
      else acc
    | _ => acc) (tcs, x, 0)

/-- `smooth` reading (the laws on the pre-history t < 0, whose terms are sent as undelayed `ep` items): initial conditions
    dropped (`clearIC`), every signal's pre-history replaced by its own value at 0⁺, so that no state variable jumps -/
def smoothSignals (x : Ix → Signal K) : Ix → Signal K := fun ix => let sg := x ix; ⟨[(val0plus sg.post, 0, 0)], sg.post⟩

/-- the time-domain problem `td.laws` is decided on: (netlist, signals, number of nodes) -/
def tdProblem (smooth : Bool) (brs : List String) (nNodes : Nat) (tcs : List (String × TCpt K)) (x : Ix → Signal K) :
    List (String × TCpt K) × (Ix → Signal K) × Nat :=
  let r := capControl brs nNodes tcs x
  if smooth then (r.1.map (fun c => (c.1, (clearIC c.2.1, c.2.2))), smoothSignals r.2.1, nNodes + r.2.2)
  else (r.1, r.2.1, nNodes + r.2.2)

/-- what the driver runs for `td.laws`: `none` = the problem is refused (inconsistent coupling records, or a component on
    a node outside `0 … n−1`), otherwise the verdict of `checkLawsT` on `tdProblem` -/
def tdCheck (smooth : Bool) (brs : List String) (nNodes : Nat) (tcs : List (String × TCpt K)) (x : Ix → Signal K) :
    Option (VerdictT K) :=
  let p := tdProblem smooth brs nNodes tcs x
  let cs := p.1.map (fun c => c.2)
  if coupConsistent cs && nodesBelow p.2.2 cs then some (checkLawsT cs p.2.1 p.2.2) else none

/-- the model's time response for one unknown: inverse transforms of the partial-fraction data of its
    s-domain value (one `PF` per delay factor) -/
def response (pfs : List (PF K)) : ExpPoly K := pfs.flatMap ilt

end

section
variable {K : Type} [Add K] [Mul K] [Neg K] [Sub K] [Div K] [OfNat K 0] [OfNat K 1] [OfNat K 2]
variable [LE K] [DecidableLE K]

def causalB (f : ExpPoly K) : Bool := f.all (fun t => decide ((0 : K) ≤ t.delayOf))

end
end Lcapy.TD
