/-
  C02 — executable side of the time-domain laws (Spec/LawsT.lean).  No Mathlib import.

  * `normalForm`    collects like terms of a formal signal (same polynomial order, rate and delay; same delta order
                    and delay) and drops those whose coefficients cancel;  `FormalZero f` = the normal form is empty.
                    Soundness (the transform and the pointwise value are unchanged) is proved in Proofs/TimeDomain.lean.
  * `checkLawsT`    decides `LawsTFormal`: every KCL residual and every component-law residual of `Spec/LawsT.lean`
                    is formally zero; returns the first violated clause with its non-zero normal form.
  * `response`      the model's own time response: the inverse transform (`ilt`, Model/ILT.lean, the mirror of
                    `InverseLaplaceTransformer.ratfun`) of partial-fraction data of the s-domain solution.
-/
import Lcapy.Spec.LawsT
import Lcapy.Model.ILT
namespace Lcapy.TD
open Lcapy.MNA Lcapy.Laplace

section
variable {K : Type} [Add K] [Mul K] [Neg K] [Sub K] [Div K] [OfNat K 0] [OfNat K 1] [OfNat K 2] [DecidableEq K]

/-- two terms are multiples of the same basis signal -/
def sameKey : Term K → Term K → Bool
  | .ep _ k p d, .ep _ k' p' d' => decide (k = k') && decide (p = p') && decide (d = d')
  | .dl _ n d, .dl _ n' d' => decide (n = n') && decide (d = d')
  | _, _ => false

def _root_.Lcapy.Laplace.Term.coef : Term K → K
  | .ep c _ _ _ => c
  | .dl c _ _ => c

def _root_.Lcapy.Laplace.Term.withCoef (c : K) : Term K → Term K
  | .ep _ k p d => .ep c k p d
  | .dl _ n d => .dl c n d

/-- sum of the coefficients of the terms of `f` on the basis signal of `κ` -/
def coefOf (κ : Term K) : ExpPoly K → K
  | [] => 0
  | t :: f => if sameKey κ t then t.coef + coefOf κ f else coefOf κ f

/-- like terms collected, cancelled terms dropped (`fuel ≥ length` suffices) -/
def normalForm : Nat → ExpPoly K → ExpPoly K
  | _, [] => []
  | 0, _ :: _ => []
  | fuel + 1, t :: f =>
    let c := coefOf t (t :: f)
    let rest := normalForm fuel (f.filter (fun u => !sameKey t u))
    if c = 0 then rest else t.withCoef c :: rest

def nf (f : ExpPoly K) : ExpPoly K := normalForm f.length f

/-- the signal is zero: all coefficients cancel -/
def FormalZero (f : ExpPoly K) : Prop := nf f = []

instance (f : ExpPoly K) : Decidable (FormalZero f) := by unfold FormalZero; exact inferInstance

/-- The time-domain laws with formal equality of signals (decided by the driver). -/
def LawsTFormal (tcs : List (TCpt K)) (x : Ix → Signal K) : Prop :=
  (∀ k, k ≠ 0 → FormalZero (kclT x k tcs)) ∧ (∀ c ∈ tcs, ∀ p ∈ lawsT x c, FormalZero p.2)

inductive VerdictT (K : Type) where
  | ok
  | kcl (node : Nat) (residual : ExpPoly K)
  | law (cptIndex : Nat) (branch : Nat) (residual : ExpPoly K)

def VerdictT.isOk : VerdictT K → Bool
  | .ok => true
  | _ => false

/-- check `LawsTFormal` on nodes 1..nNodes-1 (all other nodes carry no component) -/
def checkLawsT (tcs : List (TCpt K)) (x : Ix → Signal K) (nNodes : Nat) : VerdictT K :=
  let kclBad := (List.range nNodes).findSome? (fun k =>
    if k = 0 then none else
      let r := nf (kclT x k tcs)
      if r.isEmpty then none else some (VerdictT.kcl k r))
  match kclBad with
  | some v => v
  | none =>
    let lawBad := (tcs.zipIdx).findSome? (fun (c, i) =>
      (lawsT x c).findSome? (fun p =>
        let r := nf p.2
        if r.isEmpty then none else some (VerdictT.law i p.1 r)))
    match lawBad with
    | some v => v
    | none => .ok

/-- coefficient of `δ(t)` (an impulse at the origin) -/
def impulse0 (f : ExpPoly K) : K := coefOf (.dl 0 0 0) f

/-- the recorded initial current of every coupling is the initial current of the inductor it names -/
def coupConsistent (tcs : List (TCpt K)) : Bool :=
  tcs.all (fun c => match c.1 with
    | .Ind _ _ _ _ _ coup => coup.all (fun p => tcs.any (fun c' => match c'.1 with
        | .Ind _ _ m' _ i0' _ => decide (m' = p.1) && decide (i0' = p.2.2)
        | _ => false))
    | _ => true)

/-! ### hand-over of the state at a switching instant (`Netlist.convert_IVP` → `initialize`) -/

/-- `NetlistMixin._initialize_from_circuit` with `C._initialize` / `L._initialize`: every capacitor of the post-switch
    netlist gets as initial condition the voltage across it, every inductor the current through it — and every coupling the
    current of the partner inductor, which `K._stamp` reads from the partner's `i0` — in the solution `X` of the
    pre-switch circuit at the switching instant (for a steady pre-switch circuit: its `Laws .dc` solution). -/
def initializeFrom (X : Ix → K) : Cpt K → Cpt K
  | .Cap n1 n2 c _ => .Cap n1 n2 c (some (vd X n1 n2))
  | .Ind n1 n2 m l _ coup => .Ind n1 n2 m l (some (X (.br m))) (coup.map (fun p => (p.1, p.2.1, some (X (.br p.1)))))
  | c => c

/-- the same netlist with no initial condition written: the state at 0⁻ is that of the signals' own pre-history -/
def clearIC : Cpt K → Cpt K
  | .Cap n1 n2 c _ => .Cap n1 n2 c none
  | .Ind n1 n2 m l _ coup => .Ind n1 n2 m l none (coup.map (fun p => (p.1, p.2.1, none)))
  | c => c

/-- the value at 0⁻ of every signal's pre-history is the pre-switch solution `X` -/
def StartsFrom (X : Ix → K) (x : Ix → Signal K) : Prop := ∀ ix, pre0 (x ix).pre = X ix

/-- constant whole-axis signals: the steady state `X` continued for all t -/
def constSignals (X : Ix → K) : Ix → Signal K := fun ix => ⟨[(X ix, 0, 0)], [.ep (X ix) 0 0 0]⟩

/-- the model's time response for one unknown: inverse transforms of the partial-fraction data of its
    s-domain value (one `PF` per delay factor) -/
def response (pfs : List (PF K)) : ExpPoly K := pfs.flatMap ilt

end

section
variable {K : Type} [Add K] [Mul K] [Neg K] [Sub K] [Div K] [OfNat K 0] [OfNat K 1] [OfNat K 2]
variable [LE K] [DecidableLE K]

def causalB (f : ExpPoly K) : Bool := f.all (fun t => decide ((0 : K) ≤ t.delayOf))

end
end Lcapy.TD
