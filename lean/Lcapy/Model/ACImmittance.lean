/-
  MODEL (C14): phasor-domain immittance of one-port networks at angular frequency ω, computed the textbook way in
  rectangular complex arithmetic — R ↦ R, L ↦ jωL, C ↦ 1/(jωC) = −j/(ωC), series: impedances add, parallel:
  admittances add — next to the embedding of a real-valued one-port tree into `Cx K`, on which the Laplace-domain
  model of C07 (`Net.imp`, `Net.adm`, Model/OnePort.lean) can be evaluated at s = jω.
  No Mathlib import.
-/
import Lcapy.Model.OnePort
import Lcapy.Model.Cx
namespace Lcapy.OnePort
variable {K : Type} [Add K] [Mul K] [Neg K] [Sub K] [Div K] [OfNat K 0] [OfNat K 1]

def Leaf.toCx : Leaf K → Leaf (Cx K)
  | .R r => .R (Cx.ofReal r)
  | .G g => .G (Cx.ofReal g)
  | .L l i0 => .L (Cx.ofReal l) (i0.map Cx.ofReal)
  | .C c v0 => .C (Cx.ofReal c) (v0.map Cx.ofReal)
  | .Y y => .Y (Cx.ofReal y)
  | .Z z => .Z (Cx.ofReal z)
  | .V k e => .V k (Cx.ofReal e)
  | .I k j => .I k (Cx.ofReal j)
  | .CPE k a => .CPE (Cx.ofReal k) a
  | .Xtal c0 r1 l1 c1 => .Xtal (Cx.ofReal c0) (Cx.ofReal r1) (Cx.ofReal l1) (Cx.ofReal c1)
  | .FB rs rp cp lp => .FB (Cx.ofReal rs) (Cx.ofReal rp) (Cx.ofReal cp) (Cx.ofReal lp)

mutual
def Net.toCx : Net K → Net (Cx K)
  | .leaf l => .leaf l.toCx
  | .ser as => .ser (listToCx as)
  | .par as => .par (listToCx as)
def listToCx : List (Net K) → List (Net (Cx K))
  | [] => []
  | a :: t => a.toCx :: listToCx t
end

/-- phasor-domain impedance of a leaf at angular frequency `w` (rectangular form) -/
def Leaf.acImp (w : K) : Leaf K → Cx K
  | .R r => ⟨r, 0⟩
  | .G g => ⟨1 / g, 0⟩
  | .L l _ => ⟨0, w * l⟩                              -- jωL
  | .C c _ => ⟨0, -(1 / (w * c))⟩                     -- −j/(ωC)
  | .Y y => ⟨1 / y, 0⟩
  | .Z z => ⟨z, 0⟩
  | .V _ _ => 0
  | .I _ _ => 1 / 0
  | .CPE k a => 1 / (npow (Cx.jw w) a * Cx.ofReal k)
  | .Xtal c0 r1 l1 c1 =>                              -- (R1 + jωL1 − j/(ωC1)) ∥ 1/(jωC0)
      1 / (0 + 1 / (⟨r1, w * l1 - 1 / (w * c1)⟩ : Cx K) + ⟨0, w * c0⟩)
  | .FB rs rp cp lp =>                                -- Rs + 1/(1/Rp + 1/(jωLp) + jωCp)
      0 + ⟨rs, 0⟩ + 1 / (⟨1 / rp, w * cp - 1 / (w * lp)⟩ : Cx K)

def Leaf.acAdm (w : K) : Leaf K → Cx K
  | .Y y => ⟨y, 0⟩
  | .I _ _ => 0
  | l => 1 / l.acImp w

mutual
def Net.acImp (w : K) : Net K → Cx K
  | .leaf l => l.acImp w
  | .ser as => acSumZ w as
  | .par as => 1 / acSumY w as
def Net.acAdm (w : K) : Net K → Cx K
  | .leaf l => l.acAdm w
  | .ser as => 1 / acSumZ w as
  | .par as => acSumY w as
def acSumZ (w : K) : List (Net K) → Cx K
  | [] => 0
  | a :: t => a.acImp w + acSumZ w t
def acSumY (w : K) : List (Net K) → Cx K
  | [] => 0
  | a :: t => a.acAdm w + acSumY w t
end

end Lcapy.OnePort
