/-
  MODEL of how Lcapy analyses a netlist whose independent sources carry MIXED signal kinds
  (lcapy/netlist.py `_analysis_groups`, `_subcircuits_make`, `get_I`, `_get_Vd`; lcapy/subnetlist.py;
  lcapy/mnacpts.py `V._select`/`I._select`; lcapy/superposition.py `netval`, `add`, `laplace`):

    * every source value is a term list (Model/Decompose.lean) — raw, as written in the netlist;
    * an initial-value problem (some C/L line carries an initial condition) is ONE Laplace analysis in which
      every source contributes the transform of its whole value (`select('ivp')` = `laplace()`);
    * otherwise one sub-netlist per kind: 'dc' (sources ↦ their dc sums), one per angular frequency ω
      (sources ↦ their accumulated phasors, analysis at s = jω), 'transient' (sources ↦ the transform of their
      transient terms, Laplace analysis); a source without a part of the kind contributes 0 there;
    * a response is the superposition of the group responses; its Laplace form V(s) adds dc/s, the closed-form
      transform of every phasor (Model/Reassemble.lean `phasorLap`) and the transient transform.

  Each group netlist is elaborated and solved by the C01 front-end/MNA model (Model/Netlist.lean) from the raw
  lines; nothing here comes from Lcapy.  Also the NOISE flow: one analysis per noise source (the others killed:
  V ↦ `W`, I ↦ `O` as `_kill` does) at s = jω gives the transfer H_k to every node; `Spec/Noise.lean` combines.
  No Mathlib import.
-/
import Lcapy.Model.Netlist
import Lcapy.Model.Reassemble
import Lcapy.Spec.Noise
namespace Lcapy.SuperSolve
open Lcapy Lcapy.MNA Lcapy.Netlist Lcapy.Decompose

/-- a source line `name n1 n2 terms …`: its decomposition and the table of its transient waveforms -/
structure Src where
  name : String
  n1 : String
  n2 : String
  terms : List (Term Rat)
  tbl : List (Laplace.Term Rat)

inductive Line where
  | src (s : Src)
  | plain (toks : List String)

/-- transform at `s` of the unit transient waveforms of a table (all undelayed: `E` is only applied to 0) -/
def XLof (tbl : List (Laplace.Term Rat)) (s : Rat) : Nat → Rat :=
  fun i => match tbl[i]? with
    | some t => Laplace.Term.L (fun _ => 1) s t
    | none => 0

/-- `s` is a regular point of every waveform of the table and of the dc / phasor transforms -/
def regular (tbl : List (Laplace.Term Rat)) (s : Rat) : Bool :=
  s != 0 && tbl.all (fun t => match t with | .ep _ _ p _ => s - p != 0 | .dl _ _ _ => true)

def Src.decomp (s : Src) : Decomp Rat := decompose s.terms

def render (ls : List Line) (f : Src → String) : List String :=
  ls.map (fun l => match l with
    | .src s => s!"{s.name} {s.n1} {s.n2} {f s}"
    | .plain t => " ".intercalate t)

/-- `is_IVP`: some capacitor / inductor line carries an explicit initial condition -/
def hasIC (ls : List Line) : Bool :=
  ls.any (fun l => match l with
    | .plain (n :: r) => (n.startsWith "C" || n.startsWith "L") && r.length ≥ 4
    | _ => false)

def dedupRat : List Rat → List Rat
  | [] => []
  | w :: t => w :: (dedupRat t).filter (· != w)

/-- the angular frequencies of the phasor groups, in order of first appearance -/
def omegas (ls : List Line) : List Rat :=
  dedupRat (ls.flatMap (fun l => match l with
    | .src s => (s.decomp.ac.filter (fun p => p.2.1 != 0 || p.2.2 != 0)).map (·.1)
    | _ => []))

def hasDc (ls : List Line) : Bool :=
  ls.any (fun l => match l with | .src s => s.decomp.dc != 0 | _ => false)

def hasTr (ls : List Line) : Bool :=
  ls.any (fun l => match l with | .src s => !s.decomp.tr.isEmpty | _ => false)

def solveLines (an : Analysis) (lines : List String) : Except String (Elab × (Ix → GQ)) :=
  match elaborate an lines with
  | .error m => .error m
  | .ok e =>
    match solve an e with
    | none => .error "singular"
    | some x => if checkSolves an e x then .ok (e, x) else .error "singular"

def nodeNames (e : Elab) : List (String × Nat) :=
  e.cls.zipIdx.flatMap (fun (c, i) => c.map (fun n => (n, i)))

def reIm (g : GQ) : Rat × Rat := match g.v with | some p => p | none => (0, 0)

structure NodeResp where
  node : String
  dc : GQ
  ac : List (Rat × GQ)
  tr : GQ
  total : GQ

inductive Result where
  | ivp (vals : List (String × GQ))
  | super (groups : List String) (vals : List NodeResp)
  | fail (msg : String)

/-- the whole flow; `s0` is the (rational) point at which the Laplace forms are sampled -/
def run (s0 : Rat) (ls : List Line) : Result :=
  let srcs := ls.filterMap (fun l => match l with | .src s => some s | _ => none)
  if !(srcs.all (fun s => regular s.tbl s0)) then .fail "pole" else
  if (omegas ls).any (fun w => s0 * s0 + w * w == 0) then .fail "pole" else
  let S : GQ := GQ.ofRat s0
  let trVal (s : Src) : Rat := trPart (XLof s.tbl s0) s.decomp
  if hasIC ls then
    -- every source ↦ the transform of its whole value
    let lines := render ls (fun s => s!"delta {ratToStr (decompLap (XLof s.tbl s0) s0 s.decomp)}")
    match solveLines (.ivp S) lines with
    | .error m => .fail s!"ivp:{m}"
    | .ok (e, x) => .ivp ((nodeNames e).map (fun (n, i) => (n, volt x i)))
  else
    let ws := omegas ls
    let dcR := if hasDc ls then
        (solveLines .dc (render ls (fun s => s!"dc {ratToStr s.decomp.dc}"))).map some
      else .ok none
    let trR := if hasTr ls then
        (solveLines (.lap S) (render ls (fun s => s!"delta {ratToStr (trVal s)}"))).map some
      else .ok none
    let acR := ws.mapM (fun w =>
      (solveLines (.ac (GQ.ofRat w)) (render ls (fun s =>
        let p := acPart s.decomp w                                 -- a cos + b sin: phasor a − j b
        s!"ac {ratToStr p.1},{ratToStr (-p.2)}"))).map (fun r => (w, r)))
    match dcR, trR, acR with
    | .error m, _, _ => .fail s!"dc:{m}"
    | _, .error m, _ => .fail s!"transient:{m}"
    | _, _, .error m => .fail s!"ac:{m}"
    | .ok dc, .ok tr, .ok acs =>
      -- node names from any elaboration (the classes do not depend on the source values)
      let names : List (String × Nat) :=
        match dc, tr, acs with
        | some (e, _), _, _ => nodeNames e
        | _, some (e, _), _ => nodeNames e
        | _, _, (_, (e, _)) :: _ => nodeNames e
        | _, _, _ => []
      let groups := (if dc.isSome then ["dc"] else []) ++ ws.map (fun w => s!"ac:{ratToStr w}") ++
        (if tr.isSome then ["transient"] else [])
      .super groups (names.map (fun (n, i) =>
        let dcv : GQ := match dc with | some (_, x) => volt x i | none => 0
        let trv : GQ := match tr with | some (_, x) => volt x i | none => 0
        let acv : List (Rat × GQ) := acs.map (fun (w, (_, x)) => (w, volt x i))
        let acL : GQ := acv.foldl (fun acc (w, g) =>
          let (re, im) := reIm g
          acc + (if g.isDef then GQ.ofRat (phasorLap re im w s0) else GQ.undef)) 0
        { node := n, dc := dcv, ac := acv, tr := trv, total := dcv / S + acL + trv }))

/-! ### noise -/

structure NSrc where
  name : String
  isV : Bool
  n1 : String
  n2 : String
  amp : Rat
  nid : String

inductive NLine where
  | src (s : NSrc)
  | plain (toks : List String)

/-- the netlist in which noise source `k` is a unit phasor source and every other noise source is killed -/
def aloneLines (ls : List NLine) (k : String) : List String :=
  ls.map (fun l => match l with
    | .src s =>
      if s.name = k then s!"{s.name} {s.n1} {s.n2} ac 1"
      else if s.isV then s!"W {s.n1} {s.n2}" else s!"O {s.n1} {s.n2}"
    | .plain t => " ".intercalate t)

/-- transfer of every noise source to the voltage between the nodes of `pair`, times the source's amplitude:
    the complex amplitude response `H_k(jω)·a_k` with its identifier -/
def noiseResp (w : Rat) (ls : List NLine) (pairs : List (String × String)) :
    Except String (List ((String × String) × List (NSrc × GQ))) := do
  let srcs := ls.filterMap (fun l => match l with | .src s => some s | _ => none)
  let sols ← srcs.mapM (fun s => do
    let r ← solveLines (.ac (GQ.ofRat w)) (aloneLines ls s.name)
    pure (s, r))
  pairs.mapM (fun (np, nm) => do
    let vals ← sols.mapM (fun (s, (e, x)) => do
      let ip ← nodeIdx e.cls np
      let im ← nodeIdx e.cls nm
      pure (s, (volt x ip - volt x im) * GQ.ofRat s.amp))
    pure ((np, nm), vals))

/-- the identifier groups of a list of per-source responses, as the spec `noisePower` takes them
    (amplitude 1: the amplitude is already in the response) -/
def groupsOf (vals : List (NSrc × GQ)) : List (List ((Rat × Rat) × Rat)) :=
  let nids := vals.foldl (fun acc (s, _) => if acc.contains s.nid then acc else acc ++ [s.nid]) ([] : List String)
  nids.map (fun n => (vals.filter (fun (s, _) => s.nid = n)).map (fun (_, g) => (reIm g, (1 : Rat))))

end Lcapy.SuperSolve
