/-
  C17 -- which fallback of `Expr.evaluate`'s inner `func` applies at a zero of a denominator, and what it returns
  (lcapy/expr.py):

      try:    result = func1(arg)                                   # the lambdified straight-line code
      except ZeroDivisionError:  result = complex(expr.limit(var, arg))
      if np.isnan(result):       result = complex(expr.limit(var, arg))
      if np.isinf(result):       result = complex(sym.simplify(expr).limit(var, arg))

  for a rational function p(t)/q(t) (coefficient lists, lowest power first) at a point x whose float image is exact
  (dyadic x, small integer coefficients), so that `q(x) = 0` is seen by the float code as an exact 0:
    * scalar call `evaluate(x)`: x is a Python float (or complex); Python raises ZeroDivisionError for BOTH 0.0/0.0 and
      c/0.0: the first `limit`;
    * element of a list/tuple/ndarray: x is a NumPy scalar; 0/0 is nan (second `limit`), c/0 is inf (third, after simplify).
  SymPy's `limit` of a rational function at a finite point is the value of the fraction after cancelling the common
  power of (t - x) (`cancelAt`), or ±oo at a pole (then `complex(oo)` = inf and the `isinf` branch repeats the limit:
  the call returns inf: `Out.other`).
  No Mathlib import.
-/
import Lcapy.Model.Evaluate
import Lcapy.Model.DT
namespace Lcapy.EvalLimit
open Lcapy.DT (peval)
open Lcapy.Evaluate (Out)

/-- synthetic division of `p` (lowest power first) by `(t - a)`: `p(t) = (t - a) * quot(t) + rem` -/
def divLin : List Rat → Rat → List Rat × Rat
  | [], _ => ([], 0)
  | c :: p, a =>
    let qr := divLin p a
    -- p_tail(t) = (t - a) * q1(t) + r1  ⟹  c + t * p_tail(t) = (t - a) * (r1 + t * q1(t)) + (c + a * r1)
    (qr.2 :: qr.1, c + a * qr.2)

/-- cancel the common factor `(t - a)` of numerator and denominator while both vanish at `a` -/
def cancelAt : Nat → List Rat → List Rat → Rat → List Rat × List Rat
  | 0, p, q, _ => (p, q)
  | fuel + 1, p, q, a =>
    if peval p a = 0 ∧ peval q a = 0 ∧ q.length > 1 then cancelAt fuel (divLin p a).1 (divLin q a).1 a else (p, q)

inductive Path where
  | direct            -- func1 returned a finite number
  | zeroDivLimit      -- `except ZeroDivisionError`
  | nanLimit          -- `if np.isnan(result)`
  | infSimplifyLimit  -- `if np.isinf(result)`
deriving DecidableEq, Repr

/-- SymPy's limit of p/q at `a`: the cancelled fraction's value, `none` at a pole -/
def limitAt (p q : List Rat) (a : Rat) : Option Rat :=
  let pq := cancelAt q.length p q a
  if peval pq.2 a = 0 then none else some (peval pq.1 a / peval pq.2 a)

def outOfLimit : Option Rat → Out
  | some v => .val v
  | none => .other

/-- `func(x)` for the rational function `p/q`; `pyFloat` = scalar call (Python float/complex argument) -/
def evalRatfun (pyFloat : Bool) (p q : List Rat) (x : Rat) : Path × Out :=
  if peval q x ≠ 0 then (.direct, .val (peval p x / peval q x))
  else if pyFloat then (.zeroDivLimit, outOfLimit (limitAt p q x))
  else if peval p x = 0 then (.nanLimit, outOfLimit (limitAt p q x))
  else (.infSimplifyLimit, .other)

end Lcapy.EvalLimit
