/-
  MODEL of the port operations of lcapy/netlistopsmixin.py and lcapy/netlist.py as PROBE EXPERIMENTS on the
  MNA model, generic over the carrier:

    kill()                        ↦ `killAll`  (Model/Sources.lean: every independent source value AND every
                                    initial condition ↦ 0; a 0 V source is the wire Lcapy substitutes, a 0 A
                                    source the open circuit)
    apply_test_current_source     ↦ `zProbe`  : killAll cs ++ [I p m 1]
    apply_test_voltage_source     ↦ `vProbe`  : killAll (cs without V sources across p, m) ++ [V p m b 1]
    Isc(Np, Nm)                   ↦ append `V Np Nm b 0` (`Vshort_`), observe its branch current
    impedance / admittance / transfer / voltage_gain / transimpedance / current_gain / transadmittance
                                  ↦ `Experiment` = probed circuit + the observed quantity (`observe`)
    Zparams / Yparamsn            ↦ two experiments each (one per driven port), see `zExp`, `yExp`
    _add_ground(Nm) on a netlist that has no node `0` (how Lcapy "re-grounds": `W Nm 0` makes Nm the
    reference)                    ↦ `reground g` : the node renaming that exchanges `g` and `0`
                                    (`Cpt.mapNodes (swap0 g)`), the solution read through `regroundSol`.

  No Mathlib import.
-/
import Lcapy.Model.Sources
import Lcapy.Spec.PortRel
import Lcapy.Generated.PortOps
namespace Lcapy.MNA
variable {K : Type} [Add K] [Mul K] [Neg K] [Sub K] [Div K] [OfNat K 0] [OfNat K 1] [OfNat K 2]

/-! ### re-grounding -/

/-- the transposition (0 g) of node indices -/
def swap0 (g n : Nat) : Nat := if n = 0 then g else if n = g then 0 else n

/-- the same netlist with node `g` as the reference node (old ground becomes an ordinary node, named `g`) -/
def reground (g : Nat) (cs : List (Cpt K)) : List (Cpt K) := cs.map (Cpt.mapNodes (swap0 g))

/-- the solution of the re-grounded netlist that corresponds to `x`: every node voltage is shifted by −x(g)
    (so that the new reference reads 0), branch currents are unchanged -/
def regroundSol (g : Nat) (x : Ix → K) : Ix → K
  | .node k => volt x (swap0 g k) - volt x g
  | .br m => x (.br m)

/-- components whose relations mention node voltages only through differences.  The exceptions are exactly the
    blocks DEFINED with respect to ground: the common-mode gain of a VCVS, `TR`, `SP`. -/
def Cpt.GroundFree : Cpt K → Prop
  | .E _ _ _ _ _ _ Ac => Ac = 0
  | .TR _ _ _ _ => False
  | .SP _ _ _ _ _ _ _ _ => False
  | _ => True

def Cpt.groundFreeB [DecidableEq K] : Cpt K → Bool
  | .E _ _ _ _ _ _ Ac => Ac == 0
  | .TR _ _ _ _ => false
  | .SP _ _ _ _ _ _ _ _ => false
  | _ => true

/-! ### independent quantities -/

/-- every independent quantity of a component: source values and initial conditions (incl. the initial currents of
    coupled partner inductors recorded in `coup`, and the `C·v0` of a capacitor that controls a CCVS) -/
def Cpt.indep : Cpt K → List K
  | .V _ _ _ v => [v]
  | .I _ _ i => [i]
  | .Cap _ _ _ v0 => v0.toList
  | .Ind _ _ _ _ i0 coup => i0.toList ++ coup.flatMap (fun p => p.2.2.toList)
  | .HY _ _ _ _ _ _ _ isc _ => [isc]
  | _ => []

/-- zero the initial conditions only (what distinguishes the circuit used for impedance from the circuit used for Voc) -/
def Cpt.killICs : Cpt K → Cpt K
  | .Cap n1 n2 c v0 => .Cap n1 n2 c (v0.map (fun _ => 0))
  | .Ind n1 n2 m l i0 coup => .Ind n1 n2 m l (i0.map (fun _ => 0)) (coupMap (fun _ => 0) coup)
  | .HY n1 n2 m n3 n4 mc y _ h => .HY n1 n2 m n3 n4 mc y 0 h
  | c => c

/-- zero the independent sources only (the initial conditions stay) -/
def Cpt.killSrcs : Cpt K → Cpt K
  | .V n1 n2 m _ => .V n1 n2 m 0
  | .I n1 n2 _ => .I n1 n2 0
  | c => c

/-! ### probe experiments -/

/-- is `c` an independent voltage source connected across the node pair {p, m} (either way round)?
    (`apply_test_voltage_source` removes those before killing: `across_nodes`) -/
def Cpt.isVAcross (p m : Nat) : Cpt K → Bool
  | .V n1 n2 _ _ => (n1 == p && n2 == m) || (n1 == m && n2 == p)
  | _ => false

/-- `apply_test_current_source(p, m)`: sources and ICs killed, unit current pushed into `p`, returning through `m` -/
def zProbe (cs : List (Cpt K)) (p m : Nat) : List (Cpt K) := killAll cs ++ [.I p m 1]

/-- `apply_test_voltage_source(p, m)` with the fresh branch `b` for the test source -/
def vProbe (cs : List (Cpt K)) (p m b : Nat) : List (Cpt K) :=
  killAll (cs.filter (fun c => !c.isVAcross p m)) ++ [.V p m b 1]

/-- what is read off a solved experiment -/
inductive Obs where
  | dv (a b : Nat)          -- V(a) − V(b)
  | negBr (b : Nat)         -- minus the current of branch b (current DELIVERED by that source / flowing from its − to its + node)
  | br (b : Nat)
deriving Repr, DecidableEq

def Obs.read (x : Ix → K) : Obs → K
  | .dv a b => vd x a b
  | .negBr b => -(x (.br b))
  | .br b => x (.br b)

structure Experiment (K : Type) where
  ckt : List (Cpt K)
  obs : Obs

/-- `impedance(p, m)`: V(p) − V(m) with 1 A injected -/
def impedanceExp (cs : List (Cpt K)) (p m : Nat) : Experiment K := ⟨zProbe cs p m, .dv p m⟩
/-- `admittance(p, m)`: current delivered by a 1 V test source -/
def admittanceExp (cs : List (Cpt K)) (p m b : Nat) : Experiment K :=
  ⟨killAll cs ++ [.V p m b 1], .negBr b⟩
/-- `transfer` = `voltage_gain` -/
def transferExp (cs : List (Cpt K)) (p1 m1 p2 m2 b : Nat) : Experiment K := ⟨vProbe cs p1 m1 b, .dv p2 m2⟩
def transimpedanceExp (cs : List (Cpt K)) (p1 m1 p2 m2 : Nat) : Experiment K := ⟨zProbe cs p1 m1, .dv p2 m2⟩
/-- `current_gain`: −Isc(p2, m2) with 1 A into port 1; Isc is the current through `Vshort_ p2 m2` from p2 to m2,
    which is the branch current of that source -/
def currentGainExp (cs : List (Cpt K)) (p1 m1 p2 m2 bs : Nat) : Experiment K :=
  ⟨zProbe cs p1 m1 ++ [.V p2 m2 bs 0], .negBr bs⟩
def transadmittanceExp (cs : List (Cpt K)) (p1 m1 p2 m2 b bs : Nat) : Experiment K :=
  ⟨vProbe cs p1 m1 b ++ [.V p2 m2 bs 0], .negBr bs⟩

/-! ### the experiments as the SOURCE TEXT of netlistopsmixin.py describes them

`Generated/PortOps.lean` (harness/translate/tx_portops.py) lists, for each operation, how the code makes the probed copy
and what it measures.  `interpRow` reads one row, `buildExp` builds the experiment it describes; Props/C04Ops.lean proves
that the seven experiments above ARE the ones built from the generated table (`experiments_from_source`). -/

inductive Probe where
  | current          -- apply_test_current_source(N1p, N1m): kill, ground at N1m, `I? N1p N1m δ(t)`
  | voltage          -- apply_test_voltage_source(N1p, N1m): remove V sources across the pair, kill, ground, `V? N1p N1m δ(t)`
  | voltageNoRemove  -- kill(); _add_ground(Nm); _add_test_voltage_source(Np, Nm)   (admittance)
deriving DecidableEq, Repr

inductive Meas where
  | voc | isc | testCurrent
deriving DecidableEq, Repr

structure OpDesc where
  probe : Probe
  meas : Meas
  neg : Bool
deriving DecidableEq, Repr

abbrev Row := List String × String × List String × String × List String × Bool

/-- read a row of the generated table; `none` when it is not one of the probing schemes the model knows -/
def interpRow : Row → Option OpDesc
  | (checked, made, margs, meas, mnodes, neg) =>
    let two := checked == ["Np", "Nm"]
    let four := checked == ["N1p", "N1m", "N2p", "N2m"]
    let inPair := if two then ["Np", "Nm"] else ["N1p", "N1m"]
    let outPair := if two then ["Np", "Nm"] else ["N2p", "N2m"]
    if !(two || four) || margs != inPair then none else
    let probe : Option Probe :=
      if made == "apply_test_current_source" then some .current
      else if made == "apply_test_voltage_source" then some .voltage
      else if made == "kill()+_add_ground(Nm)+_add_test_voltage_source" then some .voltageNoRemove
      else none
    let m : Option Meas :=
      if meas == "Voc" && mnodes == outPair then some .voc
      else if meas == "Isc" && mnodes == outPair then some .isc
      else if meas == "I[test]" && mnodes == [] then some .testCurrent
      else none
    match probe, m with
    | some p, some m => some ⟨p, m, neg⟩
    | _, _ => none

/-- the experiment a descriptor stands for: input pair (p1, m1), output pair (p2, m2), fresh branches `b` (test voltage
    source) and `bs` (`Vshort_`) -/
def buildExp (d : OpDesc) (cs : List (Cpt K)) (p1 m1 p2 m2 b bs : Nat) : Option (Experiment K) :=
  let ckt0 : List (Cpt K) := match d.probe with
    | .current => zProbe cs p1 m1
    | .voltage => vProbe cs p1 m1 b
    | .voltageNoRemove => killAll cs ++ [.V p1 m1 b 1]
  match d.meas, d.neg with
  | .voc, false => some ⟨ckt0, .dv p2 m2⟩
  | .voc, true => none
  | .isc, true => some ⟨ckt0 ++ [.V p2 m2 bs 0], .negBr bs⟩
  | .isc, false => some ⟨ckt0 ++ [.V p2 m2 bs 0], .br bs⟩
  | .testCurrent, true => (match d.probe with | .current => none | _ => some ⟨ckt0, .negBr b⟩)
  | .testCurrent, false => (match d.probe with | .current => none | _ => some ⟨ckt0, .br b⟩)

/-- the experiment the source text prescribes for the operation `name` -/
def expFromSource (name : String) (cs : List (Cpt K)) (p1 m1 p2 m2 b bs : Nat) : Option (Experiment K) :=
  ((Gen.PortOps.table.lookup name).bind interpRow).bind (fun d => buildExp d cs p1 m1 p2 m2 b bs)

/-- what the helpers must do for `Probe.current` / `Probe.voltage` to mean what `zProbe` / `vProbe` do:
    kill everything (sources AND initial conditions: `kill()` with no arguments), ground at Nm unless a node 0 exists,
    a unit-impulse test source on (Np, Nm); only the voltage probe removes voltage sources across the pair first -/
def expectedHelpers : List (String × Bool × Bool × String × String × List String × List String) :=
  [("apply_test_current_source", true, false, "Nm", "_add_test_current_source", ["Np", "Nm"], ["kill", "ground", "source"]),
   ("apply_test_voltage_source", true, true, "Nm", "_add_test_voltage_source", ["Np", "Nm"], ["kill", "ground", "source"])]

def expectedTestSources : List (String × String) :=
  [("_add_test_voltage_source", "V? %s %s {DiracDelta(t)}"), ("_add_test_current_source", "I? %s %s {DiracDelta(t)}")]

/-- node renaming of an observation -/
def Obs.mapNodes (ρ : Nat → Nat) : Obs → Obs
  | .dv a b => .dv (ρ a) (ρ b)
  | o => o

/-- the same experiment on the re-grounded netlist -/
def Experiment.reground (g : Nat) (e : Experiment K) : Experiment K :=
  ⟨MNA.reground g e.ckt, e.obs.mapNodes (swap0 g)⟩

/-! ### two-port extraction (`Zparams`, `Yparamsn`) -/

/-- the killed netlist with currents `i1`, `i2` injected at the two ports (`Zparams` uses (1, 0) and (0, 1)) -/
def zDrive (cs : List (Cpt K)) (p1 m1 p2 m2 : Nat) (i1 i2 : K) : List (Cpt K) :=
  killAll cs ++ [.I p1 m1 i1, .I p2 m2 i2]

/-- the killed netlist with voltages `v1`, `v2` imposed at the two ports (`Yparamsn`: (1, 0) and (0, 1)) -/
def yDrive (cs : List (Cpt K)) (p1 m1 p2 m2 b1 b2 : Nat) (v1 v2 : K) : List (Cpt K) :=
  killAll cs ++ [.V p1 m1 b1 v1, .V p2 m2 b2 v2]

end Lcapy.MNA
