/-
  Executable model of Lcapy's discrete-time transform code (property C13).  No Mathlib.

  Mirrors, at the level of exact values:
    lcapy/ztransform.py   ZTransformer.term      -> `ztBase`, `ZR.dilate`, `ZR.mulN`, `ztTerm`, `ztSig`
    lcapy/inverse_ztransform.py  ratfun          -> `series` (power series of a rational function of
                                                    w = 1/z by long division; partial fractions and long
                                                    division have the same observable: the samples)
    lcapy/zexpr.py  as_ab / dltifilter.py        -> `respRun` (difference-equation recursion with initial
                                                    conditions), `iniNum` (zdomain_initial_response)
    lcapy/sequence.py  lfilter / convolve        -> `lfilterPy`, `convolvePy`
    lcapy/dft.py  termXq                         -> `dftImp`, `dftGeo`, `dftConst`, `dftRamp`

  Polynomials in w = z⁻¹ are coefficient lists, lowest power first.  A z-transform value is
  `z^adv * num(w) / den(w)` (`adv > 0` only for the advanced impulses/steps, where the code
  multiplies by a positive power of z).
  Everything is generic over the arithmetic so that the driver runs it over checked rationals
  and the proofs instantiate it at an arbitrary field.
-/
namespace Lcapy.DT

section
variable {K : Type} [Add K] [Mul K] [Neg K] [Sub K] [Div K] [OfNat K 0] [OfNat K 1]

def natK : Nat → K
  | 0 => 0
  | n + 1 => natK n + 1

def powK (a : K) : Nat → K
  | 0 => 1
  | n + 1 => powK a n * a

def intK : Int → K
  | .ofNat n => natK n
  | .negSucc n => -(natK (n + 1))

def zpowK (a : K) : Int → K
  | .ofNat n => powK a n
  | .negSucc n => 1 / powK a (n + 1)

/-! ### coefficient-list polynomials -/

def padd : List K → List K → List K
  | [], q => q
  | p, [] => p
  | a :: p, b :: q => (a + b) :: padd p q

def pscale (c : K) (p : List K) : List K := p.map (fun x => c * x)

def pneg (p : List K) : List K := p.map (fun x => -x)

def psub (p q : List K) : List K := padd p (pneg q)

def pmul : List K → List K → List K
  | [], _ => []
  | a :: p, q => padd (pscale a q) (0 :: pmul p q)

def pshift (d : Nat) (p : List K) : List K := List.replicate d 0 ++ p

/-- `c_j ↦ c_j * s * a^j` -/
def pdilateFrom (a : K) : K → List K → List K
  | _, [] => []
  | s, c :: p => (c * s) :: pdilateFrom a (s * a) p

/-- `p(w) ↦ p(a w)` -/
def pdilate (a : K) (p : List K) : List K := pdilateFrom a 1 p

/-- `c_j ↦ (j0 + j) * c_j` -/
def pderivFrom : K → List K → List K
  | _, [] => []
  | j, c :: p => (j * c) :: pderivFrom (j + 1) p

/-- `p ↦ w * dp/dw` -/
def pderivW (p : List K) : List K := pderivFrom 0 p

def peval (p : List K) (w : K) : K := p.foldr (fun c acc => c + w * acc) 0

def dot : List K → List K → K
  | a :: as, b :: bs => a * b + dot as bs
  | _, _ => 0

/-! ### z-transform values -/

structure ZR (K : Type) where
  adv : Nat
  num : List K
  den : List K

def ZR.eval (r : ZR K) (z : K) : K :=
  powK z r.adv * (peval r.num (1 / z) / peval r.den (1 / z))

def ZR.zero : ZR K := ⟨0, [], [1]⟩

def ZR.scale (c : K) (r : ZR K) : ZR K := ⟨r.adv, pscale c r.num, r.den⟩

/-- sum with common denominator; the advances are aligned to the larger one -/
def ZR.add (r s : ZR K) : ZR K :=
  let A := max r.adv s.adv
  ⟨A, padd (pshift (A - r.adv) (pmul r.num s.den)) (pshift (A - s.adv) (pmul s.num r.den)),
   pmul r.den s.den⟩

/-- `X(z) ↦ X(z / a)` (rule "multiplication with a**n") -/
def ZR.dilate (a : K) (r : ZR K) : ZR K :=
  ⟨r.adv, pscale (1 / powK a r.adv) (pdilate a r.num), pdilate a r.den⟩

/-- `X(z) ↦ -z dX/dz` (rule "multiplication with n");  `-z d/dz = w d/dw` on functions of w and
    `-z d/dz z^A = -A z^A` -/
def ZR.mulN (r : ZR K) : ZR K :=
  ⟨r.adv,
   padd (pscale (-(natK r.adv)) (pmul r.num r.den))
        (psub (pmul (pderivW r.num) r.den) (pmul r.num (pderivW r.den))),
   pmul r.den r.den⟩

def iter {α : Type} (f : α → α) : Nat → α → α
  | 0, x => x
  | n + 1, x => f (iter f n x)

/-- `(cos(b n), sin(b n))` from `(cos b, sin b)` by the angle-addition formulas -/
def rotPow (cb sb : K) : Nat → K × K
  | 0 => (1, 0)
  | n + 1 => ((rotPow cb sb n).1 * cb - (rotPow cb sb n).2 * sb,
              (rotPow cb sb n).2 * cb + (rotPow cb sb n).1 * sb)

/-- `(cos(b n), sin(b n))` for any integer n -/
def rotZ (cb sb : K) : Int → K × K
  | .ofNat n => rotPow cb sb n
  | .negSucc n => rotPow cb (-sb) (n + 1)

/-- `sin(b n + c)` (isSin) or `cos(b n + c)` at the integer n -/
def trigVal (isSin : Bool) (cb sb cc sc : K) (n : Int) : K :=
  if isSin then (rotZ cb sb n).2 * cc + (rotZ cb sb n).1 * sc
  else (rotZ cb sb n).1 * cc - (rotZ cb sb n).2 * sc

/-- the basic sequences: `δ[n-d]`, `u[n-d]`, the constant 1, `cos(b n + c)`, `sin(b n + c)`
    (the sinusoids are given by `cos b, sin b, cos c, sin c`), and a sinusoid gated by a delayed
    step `u[n-g]` (byImp = false) or sampled by an impulse `δ[n-g]` (byImp = true) -/
inductive Base (K : Type) where
  | imp (d : Int)
  | step (d : Int)
  | one
  | cos (cb sb cc sc : K)
  | sin (cb sb cc sc : K)
  | gated (isSin byImp : Bool) (g : Int) (cb sb cc sc : K)

/-- `invz ** delay` resp. `invz ** delay / (1 - invz)` — the code applies this to any integer delay,
    also to advances (finding F17, kept: the upstream test-suite pins it) -/
def ztBase : Base K → ZR K
  | .imp d => if d ≥ 0 then ⟨0, pshift d.toNat [1], [1]⟩ else ⟨(-d).toNat, [1], [1]⟩
  | .step d => if d ≥ 0 then ⟨0, pshift d.toNat [1], [1, -1]⟩ else ⟨(-d).toNat, [1], [1, -1]⟩
  | .one => ⟨0, [1], [1, -1]⟩
  | .cos cb sb cc sc => ⟨0, [cc, -(cb * cc + sb * sc)], [1, -(cb + cb), 1]⟩
  | .sin cb sb cc sc => ⟨0, [sc, sb * cc - cb * sc], [1, -(cb + cb), 1]⟩
  -- δ[n-g] x[n] = x[g] δ[n-g]
  | .gated isSin true g cb sb cc sc =>
    if g ≥ 0 then ⟨0, pscale (trigVal isSin cb sb cc sc g) (pshift g.toNat [1]), [1]⟩
    else ⟨(-g).toNat, pscale (trigVal isSin cb sb cc sc g) [1], [1]⟩
  -- rule "multiplication with u(n-n0)": X(z) - Σ_{ii<n0} x[ii] z^-ii  (nothing is subtracted for n0 ≤ 0)
  | .gated isSin false g cb sb cc sc =>
    let den : List K := [1, -(cb + cb), 1]
    let num : List K := if isSin then [sc, sb * cc - cb * sc] else [cc, -(cb * cc + sb * sc)]
    ⟨0, psub num (pmul den ((List.range g.toNat).map fun i => trigVal isSin cb sb cc sc (Int.ofNat i))), den⟩

/-- one term `coef * n^p * a^n * base(n)` -/
structure CTerm (K : Type) where
  coef : K
  p : Nat
  a : K
  base : Base K

/-- the rule cascade: the `n` factors are peeled first (outermost `-z d/dz`), then `a**n`, then
    the base rule -/
def ztTerm (t : CTerm K) : ZR K :=
  ZR.scale t.coef (iter ZR.mulN t.p (ZR.dilate t.a (ztBase t.base)))

def ztSig (ts : List (CTerm K)) : ZR K :=
  ts.foldr (fun t acc => ZR.add (ztTerm t) acc) ZR.zero

/-! ### power series of `num/den` in w by long division (= inverse z-transform samples) -/

/-- one division step: the next coefficient and the next remainder -/
def ldStep (den r : List K) : K × List K :=
  let c := r.headD 0 / den.headD 0
  (c, (psub r (pscale c den)).tail)

/-- the first `n` coefficients of `r/den` -/
def seriesFrom (den : List K) : Nat → List K → List K
  | 0, _ => []
  | n + 1, r => (ldStep den r).1 :: seriesFrom den n (ldStep den r).2

def series (num den : List K) (n : Nat) : List K := seriesFrom den n num

/-! ### difference equation `Σ a_k y[n-k] = Σ b_l x[n-l]` -/

/-- `Σ_l c_l x[i-l]` -/
def bsum : List K → (Int → K) → Int → K
  | [], _, _ => 0
  | c :: cs, x, i => c * x i + bsum cs x (i - 1)

/-- one step of `DLTIFilter.response`: `hist = [y[i-1], y[i-2], …]` -/
def respStep (b a : List K) (x : Int → K) (hist : List K) (i : Int) : K :=
  (bsum b x i - dot a.tail hist) / a.headD 0

/-- `respRun … ic n = [y[n-1], …, y[0], y[-1], y[-2], …]`, `ic = [y[-1], y[-2], …]` -/
def respRun (b a : List K) (x : Int → K) (ic : List K) : Nat → List K
  | 0 => ic
  | n + 1 => respStep b a x (respRun b a x ic n) (Int.ofNat n) :: respRun b a x ic n

/-- numerator (in w, after clearing negative powers) of `zdomain_initial_response`, `left=True`:
    coefficient m is `Σ_{k>m} (b_k xic[k-m-1] - a_k ic[k-m-1])` -/
def iniNum (b a ic xic : List K) : List K :=
  (List.range (max a.length b.length - 1)).map fun m =>
    dot (b.drop (m + 1)) xic - dot (a.drop (m + 1)) ic

/-! ### `Sequence.lfilter` / `Sequence.convolve` -/

/-- `Sequence.lfilter(b, a)` on the value list x: the recursion started at rest (input and output
    are zero before the first sample) -/
def lfilterPy (b a x : List K) : List K :=
  (List.range x.length).map fun n =>
    (respRun b a (fun i => if 0 ≤ i then x.getD i.toNat 0 else 0) (List.replicate (a.length - 1) 0) (n + 1)).headD 0

/-- `Sequence.convolve(h)` (mode 'full'): zero-pad x by `len h - 1` and FIR-filter with h -/
def convolvePy (x h : List K) : List K :=
  if x.isEmpty ∨ h.isEmpty then [] else
  lfilterPy h [1] (x ++ List.replicate (h.length - 1) 0)

end

/-! ### DFT closed forms (`dft.py: termXq` with lower = 0, upper = N-1, then `q**N -> 1`) -/
section
variable {K : Type} [Add K] [Mul K] [Neg K] [Sub K] [Div K] [OfNat K 0] [OfNat K 1] [DecidableEq K]

/-- `Σ_{n=l}^{N-1} n^p r^n` in closed form, with `r^N` already replaced by `rN` (= a^N since q^N = 1);
    p = 0, 1 only -/
def dftGeoGeneral (p : Nat) (l N : Nat) (r rN : K) : Option K :=
  if 1 - r = 0 then none else
  match p with
  | 0 => some ((powK r l - rN) / (1 - r))
  | 1 => some ((powK r l * (natK l + r * (1 - natK l)) - rN * (natK N - r * (natK N - 1)))
               / ((1 - r) * (1 - r)))
  | _ => none

/-- the `k = 0` special case kept by `QkTransform` when there is no `a**n` factor:
    `N - l` resp. Faulhaber `(N(N-1) - l(l-1))/2` -/
def dftGeoSpecial (p : Nat) (l N : Nat) : Option K :=
  match p with
  | 0 => some (natK N - natK l)
  | 1 => some ((natK N * (natK N - 1) - natK l * (natK l - 1)) / (1 + 1))
  | _ => none

/-- DFT (at `q = ω^k`, `q^N = 1`) of one term.  `numeric` = N was given as a number: then a
    step starting at or beyond N gives 0.  `none` = not modelled (p ≥ 2, sinusoids) or a pole. -/
def dftTerm (numeric : Bool) (t : CTerm K) (N : Nat) (q : K) : Option K :=
  match t.base with
  | .imp d =>
    if 0 ≤ d ∧ d < N then
      some (t.coef * powK (intK d) t.p * zpowK t.a d * zpowK q d)
    else some 0
  | .cos .. => none
  | .sin .. => none
  | .gated .. => none
  | b =>
    let l : Nat := match b with
      | .step d => d.toNat
      | _ => 0
    if numeric ∧ N ≤ l then some 0 else
    let v := if t.a = 1 then
        (if q = 1 then dftGeoSpecial t.p l N else dftGeoGeneral t.p l N q 1)
      -- rule "a**n": when a = exp(2πj k0/N) (numeric N: `k0.is_integer` is decided) the special case of the inner
      -- transform is kept, shifted to the bin k0 where a q = 1 (fix 5fb2713); otherwise `rm_cases`
      else if numeric ∧ powK t.a N = 1 ∧ t.a * q = 1 then dftGeoSpecial t.p l N
      else dftGeoGeneral t.p l N (t.a * q) (powK t.a N)
    v.map (fun v => t.coef * v)

def dftSig (numeric : Bool) : List (CTerm K) → Nat → K → Option K
  | [], _, _ => some 0
  | t :: ts, N, q =>
    match dftTerm numeric t N q, dftSig numeric ts N q with
    | some a, some b => some (a + b)
    | _, _ => none

end


/-! ### Round 3: sequences with an origin (`nseq.py`, `zseq.py`, `sequence.py`), the DTFT rule cascade
    (`dtft.py: DTFTTransformer.term`), the `discretize` substitutions (`sexpr.py`) -/
section
variable {K : Type} [Add K] [Mul K] [Neg K] [Sub K] [Div K] [OfNat K 0] [OfNat K 1]

def lsum : List K → K
  | [] => 0
  | a :: l => a + lsum l

/-- `DiscreteTimeDomainSequence.ZT` in its list-position form: element i is `vals[i] * z**(-i)`, result re-indexed
    from 0 (the code before the repair of finding F27; selected by tx_dtseq when the source reads `z**(-ni)`) -/
def seqZTPy (vals : List K) (z : K) : List K := pdilateFrom (1 / z) 1 vals

/-- the z-transform terms with the sequence index: element i is `vals[i] * z**(-(n0 + i))`
    (selected by tx_dtseq when the source reads `z**(-self.n[ni])`: the repaired code) -/
def seqZT (vals : List K) (n0 : Int) (z : K) : List K := pdilateFrom (1 / z) (zpowK (1 / z) n0) vals

/-- `ZDomainSequence.IZT`: element i is `terms[i] * z**i` -/
def seqIZTPy (terms : List K) (z : K) : List K := pdilateFrom z 1 terms

/-- `DiscreteTimeDomainSequence.DFT` at `q = exp(-2 j pi k / N)`, `N = len vals`: `Σ_i vals[i] q^(n0+i)` -/
def seqDFTPy (vals : List K) (n0 : Int) (q : K) : K := lsum (pdilateFrom q (zpowK q n0) vals)

/-- `DiscreteFourierDomainSequence.IDFT` numerator at `r = exp(2 j pi n / N)`: `Σ_i vals[i] r^(k0+i)` (then `/ N`) -/
def seqIDFTPy (vals : List K) (k0 : Int) (r : K) (N : K) : K := lsum (pdilateFrom r (zpowK r k0) vals) / N

/-- `Sequence.convolve`: values and first index -/
def convolveSeq (x : List K) (x0 : Int) (h : List K) (h0 : Int) : List K × Int := (convolvePy x h, x0 + h0)

/-! #### DTFT (regular part, as a rational function of `w = E = exp(-jΩ)`) -/

/-- modulation factor: none, `cos(b n + c)` or `sin(b n + c)` given by `eb = e^{jb}`, `ec = e^{jc}` (and `j`) -/
inductive DMod (K : Type) where
  | none
  | cos (eb ec : K)
  | sin (eb ec j : K)

/-- `coef * n^p * a^n * gate[n] * mod[n]`, gate = `u[n-d]` (isStep) or `δ[n-d]` -/
structure DTerm (K : Type) where
  coef : K
  p : Nat
  a : K
  isStep : Bool
  d : Int
  mod : DMod K

/-- rule "u(n+n0) * a**n": `a^d E^d / (1 - a E)`; rule "impulse": `a^d E^d`.  The DTFT is bilateral: a negative
    `d` gives a positive power of `1/E` (field `adv`) and that IS the defining sum. -/
def dtftGate (a : K) (isStep : Bool) (d : Int) : ZR K :=
  let den : List K := if isStep then [1, -a] else [1]
  if d ≥ 0 then ⟨0, pshift d.toNat [zpowK a d], den⟩ else ⟨(-d).toNat, [zpowK a d], den⟩

/-- the cascade of `DTFTTransformer.term`: the sin/cos rule is applied first (outermost), then the
    "multiplication with n" rule p times (`j/(2π Δt) d/df = E d/dE`), then the step/impulse rule:
      cos: 1/2 (e^{-jc} X(Ω+b) + e^{jc} X(Ω-b)),   sin: j/2 (e^{-jc} X(Ω+b) - e^{jc} X(Ω-b)),
    `X(Ω ± b)` is `E ↦ E e^{∓jb}`. -/
def dtftReg (t : DTerm K) : ZR K :=
  let X := iter ZR.mulN t.p (dtftGate t.a t.isStep t.d)
  ZR.scale t.coef (match t.mod with
    | .none => X
    | .cos eb ec =>
      ZR.scale (1 / (1 + 1)) (ZR.add (ZR.scale (1 / ec) (ZR.dilate (1 / eb) X)) (ZR.scale ec (ZR.dilate eb X)))
    | .sin eb ec j =>
      ZR.scale (j / (1 + 1)) (ZR.add (ZR.scale (1 / ec) (ZR.dilate (1 / eb) X)) (ZR.scale (-ec) (ZR.dilate eb X))))

def dtftRegSig (ts : List (DTerm K)) : ZR K :=
  ts.foldr (fun t acc => ZR.add (dtftReg t) acc) ZR.zero

/-- the modulation factor's value at n -/
def DMod.val : DMod K → Int → K
  | .none, _ => 1
  | .cos eb ec, n => (zpowK eb n * ec + 1 / (zpowK eb n * ec)) / (1 + 1)
  | .sin eb ec j, n => (zpowK eb n * ec - 1 / (zpowK eb n * ec)) / ((1 + 1) * j)

def DTerm.val (t : DTerm K) (n : Int) : K :=
  t.coef * powK (intK n) t.p * zpowK t.a n * (if t.isStep then (if t.d ≤ n then 1 else 0) else (if n = t.d then 1 else 0))
    * t.mod.val n

def dsigVal (ts : List (DTerm K)) (n : Int) : K :=
  ts.foldr (fun t acc => t.val n + acc) 0

/-- coefficient of the Dirac comb `2π Σ_m δ(Ω - θ - 2π m)` in the DTFT of a term that is not absolutely
    summable (step gate with `a = 1`, `p = 0`; otherwise none): the list of `(e^{jθ}, weight)`; formal pairs (no sum exists):
      u[n-d]                       -> 1/2 at θ = 0
      u[n-d] cos(b n + c)          -> e^{jc}/4 at θ = b,  e^{-jc}/4 at θ = -b   (the delay phase e^{-jθd} is 1·e^{∓jbd})
    The code produces them through `X(Ω ∓ b)` substitution into `DiracDelta(f)/(2Δt)`. -/
def dtftComb [DecidableEq K] (t : DTerm K) : List (K × K) :=
  if t.isStep ∧ t.a = 1 ∧ t.p = 0 then
    match t.mod with
    | .none => [(1, t.coef / (1 + 1))]
    | .cos eb ec => [(eb, t.coef * ec / ((1 + 1) * (1 + 1))), (1 / eb, t.coef / ec / ((1 + 1) * (1 + 1)))]
    | .sin eb ec j => [(eb, -(t.coef * j * ec) / ((1 + 1) * (1 + 1))), (1 / eb, t.coef * j / ec / ((1 + 1) * (1 + 1)))]
  else []

/-! #### `discretize`: substitution `s = sn(w)/sd(w)`, `w = 1/z`, into `H(s) = num(s)/den(s)` -/

def ppow (p : List K) : Nat → List K
  | 0 => [1]
  | n + 1 => pmul p (ppow p n)

/-- `Σ_i c_i sn^i sd^(M-i)` (Horner form; needs `len c ≤ M + 1`) -/
def homSubst (sn sd : List K) : List K → Nat → List K
  | [], _ => []
  | c :: cs, M => padd (pscale c (ppow sd M)) (pmul sn (homSubst sn sd cs (M - 1)))

/-- `H(sn/sd)` as (numerator, denominator) in w; coefficient lists of H lowest power of s first -/
def substRat (num den sn sd : List K) : List K × List K :=
  let M := max num.length den.length - 1
  (homSubst sn sd num M, homSubst sn sd den M)

/-- `generalized_bilinear_transform(alpha)`: `s = (1/Δ) (1 - w) / (α + (1-α) w)`;
    α = 1/2 bilinear (Tustin), α = 0 forward Euler, α = 1 backward Euler -/
def gbtNum : List K := [1, -1]
def gbtDen (alpha dt : K) : List K := [dt * alpha, dt * (1 - alpha)]

/-- `simpson_transform`: `s = (3/Δ) (z² - 1)/(z² + 4 z + 1) = 3 (1 - w²) / (Δ (1 + 4 w + w²))` -/
def simpsonNum : List K := [1 + 1 + 1, 0, -(1 + 1 + 1)]
def simpsonDen (dt : K) : List K := [dt, (1 + 1 + 1 + 1) * dt, dt]

def discretizeGBT (alpha dt : K) (num den : List K) : List K × List K :=
  substRat num den gbtNum (gbtDen alpha dt)

def discretizeSimpson (dt : K) (num den : List K) : List K × List K :=
  substRat num den simpsonNum (simpsonDen dt)

/-- `impulse_invariance_transform` / `matched_ztransform` of `Σ_i r_i / (s - p_i)` (simple poles), given
    `E_i = exp(p_i Δ)`: `Δ Σ_i r_i / (1 - E_i w)` -/
def impulseInvariance (dt : K) : List (K × K) → ZR K
  | [] => ZR.zero
  | (r, e) :: rest => ZR.add ⟨0, [dt * r], [1, -e]⟩ (impulseInvariance dt rest)

end

end Lcapy.DT
