/-
  MODEL of Lcapy's behaviour-preserving netlist rewrites (property C05):

    lcapy/netlistsimplifymixin.py : simplify, _simplify_combine_series/_parallel, _do_simplify_combine,
                                    _check_ic, _remove_dangling, _remove_disconnected, _keep_dangling
    lcapy/netlistmixin.py         : _in_series_all, _in_parallel_all, _find_combine_subsets,
                                    _potential_combine_names, branch_list, equipotential_nodes,
                                    augment_node_map
    lcapy/circuitgraph.py         : CircuitGraph.from_circuit (dummy nodes for parallel edges),
                                    in_series (follow), in_parallel
    lcapy/netlist.py              : renumber
    lcapy/componentnamer.py       : ComponentNamer.name
    lcapy/node.py                 : Node._count / is_dangling ; mnacpts.Cpt.is_dangling / is_disconnected

  The model mirrors what the CODE does (sources summed with their polarity relative to the
  surviving element, shared initial conditions taken once and additive ones summed with polarity,
  the member with the least name survives (`sorted(subset)`), interior nodes are not inspected).
  The functions return LISTS of outcomes so that any dependence on Python's set iteration order
  (PYTHONHASHSEED) can be expressed; with the sorted subset every list has exactly one element,
  and the harness requires the real outcome under every hash seed to be that element.
  Values are elements of a carrier `K` (the driver uses checked rationals: values at a sample point).
  No Mathlib import.
-/
import Lcapy.Spec.Retained
namespace Lcapy.Rewrite

variable {K : Type}

/-! ### the value rules of `_do_simplify_combine` (generic in the arithmetic) -/
section values
variable [Add K] [Div K] [OfNat K 0] [OfNat K 1]

/-- `total = expr(0); for name in subset: total += value` -/
def sumVals : List K → K
  | [] => 0
  | v :: t => v + sumVals t

/-- `total = 1 / Σ 1/value` -/
def recipSum (vs : List K) : K := 1 / sumVals (vs.map (fun v => 1 / v))

/-- the code's combined value: `add = True` sums, otherwise reciprocal of the sum of reciprocals.
    Orientation of the members is NOT consulted. -/
def combineVal (add : Bool) (vs : List K) : K := if add then sumVals vs else recipSum vs

/-- value of a group of sources: each member enters with its polarity relative to the
    surviving element (`value * signs[name1]`) -/
def combineSrc [Neg K] (svs : List (Bool × K)) : K := sumVals (svs.map (fun p => if p.1 then p.2 else -p.2))

/-- the code's combined initial condition.
    `shared` (series inductors, parallel capacitors — `_check_ic` has verified that all members
    agree): the initial condition of the surviving element, taken once.
    otherwise (series capacitors, parallel inductors): the sum of the members' initial conditions,
    each with its polarity relative to the surviving element, a member without one contributing
    nothing; `None` when no member has one. -/
def combineIC [Neg K] (shared : Bool) (first : Option K) (signedAll : List (Bool × Option K)) : Option K :=
  if shared then first
  else if signedAll.all (fun p => p.2.isNone) then none
  else some (combineSrc (signedAll.filterMap (fun p => p.2.map (fun v => (p.1, v)))))

end values

/-- `_check_ic`: all members agree on having an IC and, if so, on its value taken with the
    member's polarity (the answer does not depend on which member is popped first) -/
def checkIC [DecidableEq K] [Neg K] (ics : List (Bool × Option K)) : Bool :=
  if ics.all (fun p => p.2.isNone) then true
  else if ics.all (fun p => p.2.isSome) then
    match ics.filterMap (fun p => p.2.map (fun v => if p.1 then v else -v)) with
    | [] => true
    | a :: t => t.all (fun b => b = a)
  else false

/-! ### equipotential nodes (nodes joined by wires) -/

def isWire (e : Elt K) : Bool := e.ty = "W"

/-- `EquipotentialNodes`: an insertion-ordered dict key ↦ members; every node starts as its own class -/
abbrev EqNodes := List (String × List String)

def EqNodes.addNode (cls : EqNodes) (n : String) : EqNodes :=
  if cls.any (fun c => c.1 = n) then cls else cls ++ [(n, [n])]

def EqNodes.findKey (cls : EqNodes) (n : String) : Option String :=
  (cls.find? (fun c => c.2.contains n)).map (·.1)

/-- `add_wire(n1, n2)`: the class of `n1` is moved into the class of `n2` (which keeps its place in
    the dict), unless the key of `n2` contains an underscore -/
def EqNodes.addWire (cls : EqNodes) (a b : String) : EqNodes :=
  match cls.findKey a, cls.findKey b with
  | some k1, some k2 =>
    if k1 = k2 then cls
    else
      let m1 := ((cls.find? (·.1 = k1)).map (·.2)).getD []
      let m2 := ((cls.find? (·.1 = k2)).map (·.2)).getD []
      if k2.contains '_' then
        (cls.filter (·.1 ≠ k2)).map (fun c => if c.1 = k1 then (k1, m1 ++ m2) else c)
      else
        (cls.filter (·.1 ≠ k1)).map (fun c => if c.1 = k2 then (k2, m2 ++ m1) else c)
  | _, _ => cls

def eqNodes (net : Net K) : EqNodes :=
  let all := net.foldl (fun acc c => c.nodes.foldl EqNodes.addNode acc) ([] : EqNodes)
  net.foldl (fun acc c => if isWire c then acc.addWire c.n1 c.n2 else acc) all

def nodeClasses (net : Net K) : List (List String) := (eqNodes net).map (·.2)

/-- sort key of `equipotential_nodes`: names without underscore first, then alphabetical -/
def nodeLt (a b : String) : Bool :=
  let ua := a.contains '_'
  let ub := b.contains '_'
  if ua = ub then a < b else (!ua)

def minNode (l : List String) : String :=
  l.foldl (fun m x => if m = "" || nodeLt x m then x else m) ""

/-- key of an equipotential class: `0` if it contains ground, else the least name -/
def classKey (c : List String) : String := if c.contains "0" then "0" else minNode c

def nodeMap (cls : List (List String)) (n : String) : String :=
  match cls.find? (fun c => c.contains n) with
  | some c => classKey c
  | none => n

/-! ### CircuitGraph.from_circuit -/

/-- `branch_list`: everything except W, O, P, K, XX -/
def isBranch (e : Elt K) : Bool := !(["W", "O", "P", "K", "XX"].contains e.ty) && e.nodes.length ≥ 2

/-- edges (u, v, name) in insertion order -/
abbrev Graph := List (String × String × String)

def Graph.hasEdge (g : Graph) (u v : String) : Bool :=
  g.any (fun e => (e.1 = u && e.2.1 = v) || (e.1 = v && e.2.1 = u))

/-- neighbours of a node with the name on the connecting edge (`G[node].items()`) -/
def Graph.nbrs (g : Graph) (u : String) : List (String × String) :=
  g.filterMap (fun e => if e.1 = u then some (e.2.1, e.2.2) else if e.2.1 = u then some (e.1, e.2.2) else none)

def Graph.edgeName (g : Graph) (u v : String) : Option String :=
  (g.find? (fun e => (e.1 = u && e.2.1 = v) || (e.1 = v && e.2.1 = u))).map (·.2.2)

/-- a second component between the same pair of nodes is attached through a dummy node `*k`
    and a dummy wire `Wk` -/
def buildGraph (net : Net K) : Graph :=
  let nm := nodeMap (nodeClasses net)
  (net.filter isBranch).foldl (fun (acc : Graph × Nat) e =>
      let u := nm e.n1
      let v := nm e.n2
      if acc.1.hasEdge u v then
        let d := "*" ++ toString acc.2
        (acc.1 ++ [(u, d, e.name), (d, v, "W" ++ toString acc.2)], acc.2 + 1)
      else (acc.1 ++ [(u, v, e.name)], acc.2)) ([], 0) |>.1

/-- `follow(node)`: stop at a node with more than two neighbours, otherwise take every edge not
    yet seen and continue from its far end -/
def follow (g : Graph) : Nat → List String → String → List String
  | 0, series, _ => series
  | fuel + 1, series, node =>
    let nb := g.nbrs node
    if nb.length > 2 then series
    else nb.foldl (fun ser p => if ser.contains p.2 then ser else follow g fuel (ser ++ [p.2]) p.1) series

/-- `CircuitGraph.in_series(name)` (as a duplicate-free list; the code returns a set) -/
def inSeries (net : Net K) (g : Graph) (e : Elt K) : List String :=
  let nm := nodeMap (nodeClasses net)
  let s := follow g (g.length + 1) [e.name] (nm e.n1)
  let s := follow g (g.length + 1) s (nm e.n2)
  if s.any (fun n => n.startsWith "W") then [e.name] else s

/-- `CircuitGraph.in_parallel(name)` -/
def inParallel (net : Net K) (g : Graph) (e : Elt K) : List String :=
  let nm := nodeMap (nodeClasses net)
  let a := nm e.n1
  let b := nm e.n2
  let direct := match g.edgeName a b with | some n => [n] | none => []
  if a = b then [e.name] else     -- a short-circuited component is not in parallel with anything
  let via (x y : String) : List String :=
    (g.nbrs x).flatMap (fun p =>
      if p.1.startsWith "*" then
        (g.nbrs p.1).filterMap (fun q => if q.1 = y && !(p.2.startsWith "W") then some p.2 else none)
      else [])
  ([e.name] ++ direct ++ via a b ++ via b a).eraseDups

/-- `_potential_combine_names` -/
def combinable (e : Elt K) : Bool := ["V", "I", "R", "NR", "C", "L", "Y", "Z"].contains e.ty

/-- `_in_series_all` / `_in_parallel_all`: sweep the potential names in netlist order -/
def allSets (net : Net K) (f : Elt K → List String) : Nat → List String → List (List String)
  | 0, _ => []
  | _, [] => []
  | fuel + 1, n :: rest =>
    match net.find? (fun e => e.name = n) with
    | none => allSets net f fuel rest
    | some e =>
      let s := f e
      let rest' := rest.filter (fun x => !(s.contains x))
      (if s.length > 1 then [s] else []) ++ allSets net f fuel rest'

def seriesSets (net : Net K) : List (List String) :=
  let g := buildGraph net
  let names := (net.filter combinable).map (·.name)
  allSets net (inSeries net g) (names.length + 1) names

def parallelSets (net : Net K) : List (List String) :=
  let g := buildGraph net
  let names := (net.filter combinable).map (·.name)
  allSets net (inParallel net g) (names.length + 1) names

/-- `_find_combine_subsets`: members of the same type, kept when more than one -/
def typeSubsets (net : Net K) (aset : List String) : List (String × List (Elt K)) :=
  let elts := aset.filterMap (fun n => net.find? (fun e => e.name = n))
  let tys := (elts.map (·.ty)).eraseDups
  (tys.map (fun t => (t, elts.filter (fun e => e.ty = t)))).filter (fun p => p.2.length > 1)

/-! ### `_do_simplify_combine` -/

/-- `ComponentNamer.name(prefix, names)`: the first free `prefix ++ m`, m = 1, 2, … -/
def freshName (pre : String) (taken : List String) : Nat → Nat → String
  | 0, m => pre ++ toString m
  | fuel + 1, m => if taken.contains (pre ++ toString m) then freshName pre taken fuel (m + 1) else pre ++ toString m

/-- state of one combine sweep: the netlist being edited, the names known to the namer
    (`self.elements` of the netlist the sweep started from, plus the names it has issued) -/
structure Sweep (K : Type) where
  net : Net K
  taken : List String
  changed : Bool := false
  log : List String := []       -- one event per combined group (for diagnostics and structural keys)

/-! #### structural facts about a group (used for the event log, not by the rewrite itself) -/

/-- all terminals (component name, terminal index) attached to the equipotential class of `n` -/
def incidences (net : Net K) (n : String) : List (String × Nat) :=
  let nm := nodeMap (nodeClasses net)
  let k := nm n
  (net.filter (fun e => !(isWire e))).flatMap (fun e =>
    (e.nodes.zipIdx.filter (fun p => nm p.1 = k)).map (fun p => (e.name, p.2)))

/-- a clean junction of the group: a non-ground node whose only incidences are two terminals of
    two different members, one entering and one leaving or not (orientation is judged elsewhere) -/
def cleanJunctions (net : Net K) (group : List (Elt K)) : List String :=
  let nm := nodeMap (nodeClasses net)
  let cand := ((group.flatMap (fun e => e.nodes.take 2)).map nm).eraseDups
  cand.filter (fun n =>
    n ≠ "0" &&
    -- a wire attached to the junction is itself an untouched component that sees the node
    !(net.any (fun e => isWire e && e.nodes.any (fun x => nm x = n))) &&
    (match incidences net n with
     | [a, b] => a.1 ≠ b.1 && group.any (·.name = a.1) && group.any (·.name = b.1)
     | _ => false))

/-- the series group is contiguous and no interior node is ground or seen by anything else -/
def seriesGuard (net : Net K) (group : List (Elt K)) : Bool :=
  (cleanJunctions net group).length + 1 ≥ group.length

/-- walk along a series chain from `node`, away from the element `cur`; returns the elements met
    with `true` when they point in the direction of travel (entered at their first node) -/
def walk (net : Net K) (g : Graph) : Nat → String → String → List (String × Bool) → List (String × Bool)
  | 0, _, _, acc => acc
  | fuel + 1, cur, node, acc =>
    let nm := nodeMap (nodeClasses net)
    let nb := g.nbrs node
    if nb.length ≠ 2 then acc
    else match nb.find? (fun p => p.2 ≠ cur) with
      | none => acc
      | some p =>
        if acc.any (·.1 = p.2) then acc
        else match net.find? (fun e => e.name = p.2) with
          | none => acc
          | some e =>
            let fwd : Bool := nm e.n1 = node
            walk net g fuel e.name p.1 (acc ++ [(e.name, fwd)])

/-- sign of every element of the chain relative to `first` (`true` = same direction) -/
def seriesSigns (net : Net K) (first : Elt K) : List (String × Bool) :=
  let g := buildGraph net
  let nm := nodeMap (nodeClasses net)
  let fwd := walk net g (g.length + 1) first.name (nm first.n2) [(first.name, true)]
  let bwd := walk net g (g.length + 1) first.name (nm first.n1) fwd
  -- elements met walking backwards were entered at their far end: flip
  let nf := fwd.length
  bwd.zipIdx.map (fun p => if p.2 < nf then p.1 else (p.1.1, !p.1.2))

def parallelSigns (net : Net K) (first : Elt K) (group : List (Elt K)) : List (String × Bool) :=
  let nm := nodeMap (nodeClasses net)
  group.map (fun e => (e.name, decide (nm e.n1 = nm first.n1)))

section combine
variable [Add K] [Div K] [Neg K] [OfNat K 0] [OfNat K 1] [DecidableEq K]

def signed (sg : List (String × Bool)) (e : Elt K) (v : K) : K :=
  match sg.find? (·.1 = e.name) with
  | some (_, false) => -v
  | _ => v

/-- the electrically correct value and IC of the combined element sitting where `first` sits
    (proved in Lcapy/Props/C05.lean): polarised quantities enter with their sign relative to
    `first`; a quantity shared by all members (current of a series chain, voltage of a parallel
    group) is taken once, not summed. -/
def correctVal (ty : String) (add : Bool) (sg : List (String × Bool)) (group : List (Elt K)) : K :=
  if ty = "V" || ty = "I" then sumVals (group.map (fun e => signed sg e (e.val.getD 0)))
  else combineVal add (group.filterMap (·.val))

def correctIC (shared : Bool) (sg : List (String × Bool)) (first : Elt K) (group : List (Elt K)) : Option K :=
  if group.all (fun e => e.ic.isNone) then none
  else if shared then some (first.ic.getD 0)
  else some (sumVals (group.map (fun e => signed sg e (e.ic.getD 0))))

/-- combine `group` with `first` as `subset_list[0]`: the new element takes the first's nodes and
    keyword, the combined value and IC, and the name `<type>t<m>`; in series the other members are
    re-emitted as wires on their own nodes, in parallel they are dropped.  New lines are appended
    at the end of the netlist (`net.add`).  Sources are combined only when every member has the
    same keyword and a single argument (otherwise the group is left alone). -/
def combineWith (ref : Net K) (st : Sweep K) (group : List (Elt K)) (first : Elt K) (add series : Bool) :
    Except String (Sweep K) := do
  -- orientation is read from the netlist the sweep started from (`self.cg`), not the one being edited
  let sg := if series then seriesSigns ref first else parallelSigns ref first group
  let sign (e : Elt K) : Bool := match sg.find? (·.1 = e.name) with | some p => p.2 | none => true
  let isSrc := first.ty = "V" || first.ty = "I"
  if isSrc && !(group.all (fun e => e.kw = first.kw && e.extra = [] && e.val.isSome)) then
    return st
  let total := if add && isSrc then combineSrc (group.filterMap (fun e => e.val.map (fun v => (sign e, v))))
               else combineVal add (group.filterMap (·.val))
  let ic := if first.ty = "L" || first.ty = "C" then combineIC add first.ic (group.map (fun e => (sign e, e.ic))) else none
  let newname := freshName (first.ty ++ "t") st.taken (st.taken.length + 1) 1
  let newElt : Elt K := { first with name := newname, val := some total, ic := ic, extra := [] }
  let others := group.filter (fun e => e.name ≠ first.name)
  let net := st.net.filter (fun e => !(group.any (fun x => x.name = e.name)))
  let wires : List (Elt K) := if series then others.map (fun e => { name := "W", ty := "W", nodes := e.nodes.take 2 }) else []
  -- event log: where the code's rule leaves the proved rule
  let shared := (series && first.ty = "L") || (!series && first.ty = "C")
  let icOk : Bool := match ic, correctIC shared sg first group with
    | none, none => true
    | a, b => a.getD 0 = b.getD 0
  let flags : List String :=
    (if total = correctVal first.ty add sg group then [] else ["polarity"]) ++
    (if icOk then [] else (if !(group.all (fun e => e.ic.isSome)) then ["icmixed"]
                        else if (sg.filter (fun p => group.any (·.name = p.1))).all (·.2) then ["icsum"] else ["icsign"])) ++
    (if series && !(seriesGuard st.net group) then ["observed"] else []) ++
    (if group.all (fun e => e.kw = first.kw && e.extra = first.extra) then [] else ["kwmix"])
  let ev := (if series then "series" else "parallel") ++ ":" ++ first.ty ++ ":" ++ newname ++ ":" ++ first.name ++ ":" ++
    ",".intercalate (group.map (·.name)) ++ ":" ++ ",".intercalate flags
  pure { net := net ++ [newElt] ++ wires, taken := st.taken ++ [newname], changed := true, log := st.log ++ [ev] }

/-- `subset_list = sorted(subset)`: the member with the least name survives, whatever the set order -/
def firstOf (group : List (Elt K)) : Option (Elt K) :=
  group.foldl (fun acc e => match acc with
    | none => some e
    | some m => if e.name < m.name then some e else some m) none

/-- combining one type-subset (a single outcome since the subset is sorted) -/
def combineGroup (ref : Net K) (st : Sweep K) (group : List (Elt K)) (add series : Bool) : List (Except String (Sweep K)) :=
  match firstOf group with
  | none => [.ok st]
  | some first => [combineWith ref st group first add series]

end combine

/-- which rule a type takes in a series set / a parallel set:
    `some (add, needsCheckIC)`; `none` = warn only; error for other types -/
def seriesRule (ty : String) : Except String (Option (Bool × Bool)) :=
  if ty = "I" then .ok none
  else if ["R", "NR", "V", "Z"].contains ty then .ok (some (true, false))
  else if ty = "L" then .ok (some (true, true))
  else if ["C", "Y"].contains ty then .ok (some (false, false))
  else .ok none          -- other component types (E, F, G, H, …) are not combined

def parallelRule (ty : String) : Except String (Option (Bool × Bool)) :=
  if ty = "V" then .ok none
  else if ["R", "NR", "L", "Z"].contains ty then .ok (some (false, false))
  else if ["Y", "I"].contains ty then .ok (some (true, false))
  else if ty = "C" then .ok (some (true, true))
  else .ok none

/-- `_series_span_is_private(aset)`: every node joining two members of the series set (an equipotential
    class met by at least two member terminals) is not the reference node and no component other than the
    members and wires is attached to any of its names (any terminal: control nodes of E/G, O, P, …) -/
def spanJoints (net : Net K) (aset : List String) : List String :=
  let nm := nodeMap (nodeClasses net)
  let members := net.filter (fun e => aset.contains e.name)
  let keys := members.flatMap (fun e => (e.nodes.take 2).map nm)
  (keys.filter (fun k => (keys.filter (· = k)).length ≥ 2)).eraseDups

/-- the node names of the equipotential class with key `k` -/
def classNames (net : Net K) (k : String) : List String :=
  match (nodeClasses net).find? (fun c => classKey c = k) with | some c => c | none => [k]

def spanPrivate (net : Net K) (aset : List String) : Bool :=
  (spanJoints net aset).all (fun k =>
    (classNames net k).all (fun n =>
      !(n.startsWith "0") &&
      net.all (fun e => !(e.nodes.contains n) || aset.contains e.name || isWire e)))

section sweep
variable [Add K] [Div K] [Neg K] [OfNat K 0] [OfNat K 1] [DecidableEq K]

/-- fan a list of partial outcomes through a nondeterministic step -/
def bindAll {α : Type} (xs : List (Except String α)) (f : α → List (Except String α)) : List (Except String α) :=
  xs.flatMap (fun x => match x with | .error e => [.error e] | .ok a => f a)

/-- `_simplify_combine_series` / `_simplify_combine_parallel` on the netlist `net0`.
    The sets are computed once, on the netlist the sweep starts from; the type subsets of each set
    are looked up in the netlist being edited, so a set that names a component already consumed
    by an earlier (overlapping) set raises `KeyError` — overlapping sets arise when a component
    is short-circuited (both nodes at the same potential). -/
def combineSweep (net0 : Net K) (skip : List String) (series : Bool) : List (Except String (Sweep K)) :=
  let sets := if series then seriesSets net0 else parallelSets net0
  let start : Sweep K := { net := net0, taken := net0.map (·.name) }
  sets.foldl (fun outs aset0 =>
      -- a series set whose span is not private (judged on the netlist the sweep started from) is left alone
      if series && !(spanPrivate net0 aset0) then outs else
      let aset := aset0.filter (fun n => !(skip.contains n))
      bindAll outs (fun st =>
        if aset.any (fun n => !(st.net.any (·.name = n))) then [.error "KeyError"]
        else
          (typeSubsets st.net aset).foldl (fun outs p =>
              match (if series then seriesRule p.1 else parallelRule p.1) with
              | .error e => outs.map (fun _ => .error e)
              | .ok none => outs
              | .ok (some (add, chk)) =>
                bindAll outs (fun st =>
                  -- `_check_ic` judges polarity relative to the element it pops; the verdict is the same for all
                  let ok := !chk || (match p.2 with
                    | [] => true
                    | f :: _ =>
                      let sg := if series then seriesSigns net0 f else parallelSigns net0 f p.2
                      checkIC (p.2.map (fun e => ((match sg.find? (·.1 = e.name) with | some q => q.2 | none => true), e.ic))))
                  if ok then combineGroup net0 st p.2 add series else [.ok st])) [.ok st]))
    [.ok start]

/-! ### dangling / disconnected removal -/

/-- `Node._count`: attachments by components other than annotations `A` and open circuits `O` -/
def nodeCount (net : Net K) (n : String) : Nat :=
  (net.filter (fun e => !(["A", "O"].contains e.ty))).foldl (fun acc e => acc + (e.nodes.filter (· = n)).length) 0

def nodeDangling (net : Net K) (n : String) : Bool := nodeCount net n ≤ 1

def eltDangling (net : Net K) (e : Elt K) : Bool :=
  e.nodes.length = 2 && (nodeDangling net e.n1 || nodeDangling net e.n2)

def eltDisconnected (net : Net K) (e : Elt K) : Bool :=
  e.ty ≠ "XX" && e.nodes.all (nodeDangling net)

/-- `_keep_dangling`: a dangling node of the component is in `keep_nodes`, or an open-circuit component `O`
    (not counted as a connection, but observing the node's voltage) is attached to it -/
def keepDangling (net : Net K) (keep : List String) (e : Elt K) : Bool :=
  e.nodes.any (fun n => nodeDangling net n &&
    (keep.contains n ||
     net.any (fun f => f.ty = "O" && f.nodes.contains n && (f.name != e.name || f.nodes != e.nodes))))

/-- `cpt.has_ic`: an inductor or capacitor with an explicit initial condition (it makes the circuit an
    initial-value problem and is never removed) -/
def hasIC (e : Elt K) : Bool := (e.ty = "L" || e.ty = "C") && e.ic.isSome

def removeDangling (net : Net K) (skip keep : List String) : Net K × Bool :=
  let out := net.filter (fun e => !(eltDangling net e && !(skip.contains e.name) && !(hasIC e) && !(keepDangling net keep e)))
  (out, out.length ≠ net.length)

def removeDisconnected (net : Net K) (skip keep : List String) : Net K × Bool :=
  let out := net.filter (fun e => !(eltDisconnected net e && !(skip.contains e.name) && !(hasIC e) && !(keepDangling net keep e)))
  (out, out.length ≠ net.length)

/-! ### `simplify` -/

structure Opts where
  select : Option (List String) := none
  ignore : List String := []
  keep : Option (List String) := none
  passes : Nat := 0
  series : Bool := true
  parallel : Bool := true
  dangling : Bool := false
  disconnected : Bool := false

def allNodes (net : Net K) : List String := (net.flatMap (·.nodes)).eraseDups

/-- one pass: dangling, disconnected, series, parallel — returns outcomes with their `changed` flag -/
def onePass (o : Opts) (skip keep : List String) (net : Net K) : List (Except String (Net K × Bool × List String)) :=
  let (n1, c1) := if o.dangling then removeDangling net skip keep else (net, false)
  let (n2, c2) := if o.disconnected then removeDisconnected n1 skip keep else (n1, false)
  let afterSeries : List (Except String (Net K × Bool × List String)) :=
    if o.series then (combineSweep n2 skip true).map (fun r => r.map (fun st => (st.net, c1 || c2 || st.changed, st.log)))
    else [.ok (n2, c1 || c2, [])]
  bindAll afterSeries (fun p =>
    if o.parallel then (combineSweep p.1 skip false).map (fun r => r.map (fun st => (st.net, p.2.1 || st.changed, p.2.2 ++ st.log)))
    else [.ok p])

def passesLoop (o : Opts) (skip keep : List String) : Nat → Net K × List String → List (Except String (Net K × List String))
  | 0, st => [.ok st]
  | fuel + 1, st =>
    (onePass o skip keep st.1).flatMap (fun r =>
      match r with
      | .error e => [.error e]
      | .ok (n, changed, log) => if changed then passesLoop o skip keep fuel (n, st.2 ++ log) else [.ok (n, st.2 ++ log)])

/-- `NetlistSimplifyMixin.simplify` (with `modify=True`): every outcome reachable under some
    set iteration order -/
def simplify (o : Opts) (net : Net K) : List (Except String (Net K × List String)) :=
  let keep := match o.keep with
    | some k => k
    | none => if (allNodes net).contains "0" then ["0"] else []
  let skip0 := match o.select with
    | some sel => (net.map (·.name)).filter (fun n => !(sel.contains n))
    | none => []
  let skip := skip0 ++ o.ignore
  passesLoop o skip keep (if o.passes = 0 then 100 else o.passes) (net, [])

end sweep

/-! ### renumber / augment_node_map (netlists without dotted pin nodes) -/

/-- equipotential classes in the code's dictionary order with their keys, members sorted -/
def enodes (net : Net K) : List (String × List String) :=
  (nodeClasses net).map (fun c => (classKey c, c))

/-- insertion sort with `nodeLt` / plain `<` (the code uses `sorted`) -/
def insertBy (lt : String → String → Bool) (x : String) : List String → List String
  | [] => [x]
  | y :: t => if lt x y then x :: y :: t else y :: insertBy lt x t

def sortBy (lt : String → String → Bool) (l : List String) : List String := l.foldr (insertBy lt) []

/-- `augment_node_map(node_map)`: `Except` mirrors the two `ValueError`s -/
def augmentNodeMap (net : Net K) (user : List (String × String)) : Except String (List (String × String)) := do
  let nodes := allNodes net
  let en := enodes net
  let user := if nodes.contains "0" && !(user.any (·.1 = "0")) then user ++ [("0", "0")] else user
  let numbers0 := (List.range en.length).map (fun m => toString (m + 1))
  if user.any (fun p => !(nodes.contains p.1)) then throw "ValueError:unknown-node"
  let numbers := numbers0.filter (fun n => !(user.any (·.2 = n)))
  let step := fun (acc : List (String × String) × List String) (kc : String × List String) => do
      let mapped := kc.2.filterMap (fun n => (user.find? (·.1 = n)).map (·.2))
      if mapped.length > 1 then throw "ValueError:same-potential"
      let (root, nums) := match mapped with
        | r :: _ => (r, acc.2)
        | [] => (acc.2.headD "?", acc.2.drop 1)
      let others := sortBy (fun a b => a < b) (kc.2.filter (· ≠ kc.1))
      let extra := others.zipIdx.map (fun p => (p.1, root ++ "_" ++ toString (p.2 + 1)))
      pure (acc.1 ++ [(kc.1, root)] ++ extra, nums)
  let r ← en.foldlM step (([] : List (String × String)), numbers)
  -- later assignments overwrite earlier ones (dict semantics); user entries come first
  pure (user ++ r.1)

def lookupLast (m : List (String × String)) (n : String) : String :=
  match (m.reverse.find? (·.1 = n)) with | some p => p.2 | none => n

/-- `renumber(node_map)` -/
def renumber (net : Net K) (user : List (String × String)) : Except String (Net K) := do
  let m ← if user.length ≠ (allNodes net).length then augmentNodeMap net user else pure user
  pure (net.map (fun e => { e with nodes := e.nodes.map (lookupLast m) }))

end Lcapy.Rewrite
