/-
  C17 -- base vocabulary for the generated simulator / response definitions
  (`Lcapy/Generated/SimCompanion.lean`, written by harness/translate/tx_simresp.py).  No Mathlib import.
-/
namespace Lcapy.SimBase
variable {K : Type} [Add K] [Mul K] [OfNat K 0] [OfNat K 1]

/-- the number `k` in the carrier -/
def natK : Nat → K
  | 0 => 0
  | n + 1 => natK n + 1

/-- `arange(N) * dt`: the lag times `0, dt, 2 dt, ...` -/
def lagTimes (N : Nat) (dt : K) : List K := (List.range N).map (fun k => natK k * dt)

end Lcapy.SimBase
