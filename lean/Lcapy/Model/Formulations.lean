/-
  MODEL of the equation formulations Lcapy prints for a circuit (property C15):

  * nodal analysis  -- lcapy/nodalanalysis.py `NodalAnalysis._make_equations` with the
    per-component `current_equation` of lcapy/oneport.py (R, G/Y, C, L, I);
  * mesh analysis   -- lcapy/loopanalysis.py `_process_loop`, `_add_mesh_currents` with the
    per-component `voltage_equation`, over the graph lcapy/circuitgraph.py builds (dummy nodes
    `*k` in front of every parallel component).  The loops are an INPUT (networkx cycle search
    and planarity are not modelled); they are vetted by the decidable `isSimpleCycle`.

  Every equation is a linear form (lhs − rhs) in the unknowns (node voltages resp. mesh
  currents) with coefficients in the carrier `K`, i.e. the printed equation at a sample point.

  The mesh generator keeps one switch `pe`: `pe = false` MIRRORS THE CODE AS IT IS IN /repo (finding C15-c, known:
  parallel components are identified by their node pair) and is what the correspondence runs against;
  `pe = true` is the code with the PROPOSED patch fix-C15-c (a component is identified by the graph edge that
  holds it), not applied to /repo because it needs a correction of the unit test that pins the defect.
  The other findings of this property (F13, C15-b, C15-d, C15-g, C15-h) are fixed in /repo and the model mirrors
  the fixed code only; mutual couplings are ignored as the code ignores them (finding C15-k, known).
  No Mathlib import.
-/
import Lcapy.Spec.Laws
namespace Lcapy.Formulations
open Lcapy.MNA

variable {K : Type} [Add K] [Mul K] [Neg K] [Sub K] [Div K] [OfNat K 0] [OfNat K 1] [OfNat K 2]

/-! ## linear forms in the node voltages -/

/-- `Σ coef·V(node) + const` : lhs − rhs of a printed nodal equation -/
structure LinForm (K : Type) where
  coeffs : List (Nat × K)
  const : K

def LinForm.zero : LinForm K := ⟨[], 0⟩
def LinForm.add (f g : LinForm K) : LinForm K := ⟨f.coeffs ++ g.coeffs, f.const + g.const⟩

/-- value of the form at the assignment `x` (ground reads 0) -/
def LinForm.eval (x : Ix → K) (f : LinForm K) : K :=
  lsum (f.coeffs.map (fun p => p.2 * volt x p.1)) + f.const

def sumForms (l : List (LinForm K)) : LinForm K := l.foldr LinForm.add LinForm.zero

/-! ## components the formulations accept -/

/-- the two nodes of a branch of the circuit graph (`elt.node_names[0:2]`): one-ports and the output side of the
    dependent sources (which the formulations then refuse: 'Dependent sources not handled yet') -/
def nodes2 : Cpt K → Option (Nat × Nat)
  | .R a b _ => some (a, b)
  | .Y a b _ => some (a, b)
  | .Cap a b _ _ => some (a, b)
  | .Ind a b _ _ _ _ => some (a, b)
  | .V a b _ _ => some (a, b)
  | .I a b _ => some (a, b)
  | .E a b _ _ _ _ _ => some (a, b)
  | .G a b _ _ _ => some (a, b)
  | .F a b _ _ => some (a, b)
  | .H a b _ _ _ => some (a, b)
  | .HY a b _ _ _ _ _ _ _ => some (a, b)
  | _ => none

def isV : Cpt K → Bool
  | .V _ _ _ _ => true
  | _ => false

def isI : Cpt K → Bool
  | .I _ _ _ => true
  | _ => false

def incident (k : Nat) (c : Cpt K) : Bool :=
  match nodes2 c with
  | some (a, b) => a == k || b == k
  | none => false

/-- impedance of an inductor as `_Zkind` gives it (dc: s = 0) -/
def indZ (kind : Kind) (s l : K) : K :=
  match kind with
  | .dc => 0
  | .time => 0
  | _ => s * l

/-- `current_equation(v, kind)` as an affine function `g·v + i0` of the applied voltage:
    R, G, Y: v/Z;  C: (v − v0/s)/Z = sC·v − C·v0 (Laplace; `v0` only when given);
    L: (v + L·i0)/(sL);  I: isc whatever the voltage.  `none`: no such method / not affine
    (time-domain C and L give Derivative/Integral, V sources are never asked), dependent sources and two-ports
    (the code raises).  An inductor with a mutual coupling gets the relation of the UNCOUPLED inductor: K lines have
    no edge in the circuit graph and `L.current_equation` does not know them (finding C15-k, known: the theorems
    require `coup = []`, the oracle covers the rest on the real code). -/
def curEq (kind : Kind) (s : K) : Cpt K → Option (K × K)
  | .R _ _ r => some (1 / r, 0)
  | .Y _ _ y => some (y, 0)
  | .Cap _ _ c v0 =>
      match kind with
      | .dc => some (0, 0)
      | .lap => some (s * c, 0)
      | .ivp => some (s * c, match v0 with | some v0 => -(c * v0) | none => 0)
      | .time => none
  | .Ind _ _ _ l i0 _ =>               -- a mutual coupling is IGNORED, as the code does (finding C15-k, known)
      match kind with
      | .time => none
      | .ivp => some (1 / indZ kind s l, match i0 with | some i0 => (l * i0) / indZ kind s l | none => 0)
      | _ => some (1 / indZ kind s l, 0)
  | .I _ _ i => some (0, i)
  | _ => none

/-- contribution of component `c` to the KCL sum at node `k` (`k` is one of its nodes):
    `i = current_equation(V[k] − V[other])`; seen from the second node the constant part keeps the
    component's orientation (`i − 2·i(0)`); a current source is negated (it drives its current out of
    its first node).  As a linear form: ± (g·(V[n1] − V[n2]) + i0'), i0' = −i0 for a current source. -/
def kclTerm (kind : Kind) (s : K) (k : Nat) (c : Cpt K) : LinForm K :=
  match nodes2 c, curEq kind s c with
  | some (n1, n2), some (g, i0) =>
    let i0' := if isI c then -i0 else i0
    if k = n1 then ⟨[(n1, g), (n2, -g)], i0'⟩ else ⟨[(n1, -g), (n2, g)], -i0'⟩
  | _, _ => LinForm.zero

/-- the equation `_make_equations` files under node `k`:
    the constraint `V[n1] = V[n2] + Voc` of the first voltage source met at the node, else KCL. -/
def nodalEq (kind : Kind) (s : K) (cs : List (Cpt K)) (k : Nat) : LinForm K :=
  match (cs.filter (fun c => isV c && incident k c)).head? with
  | some (.V n1 n2 _ v) => ⟨[(n1, 1), (n2, -1)], -v⟩
  | _ => sumForms ((cs.filter (incident k)).map (kclTerm kind s k))

/-- components the nodal formulation refuses (`Dependent sources not handled yet`, two-ports) or
    cannot express as an affine relation at a sample point -/
def nodalSupported (kind : Kind) (s : K) (c : Cpt K) : Bool :=
  isV c || (curEq kind s c).isSome

def insertSorted (n : Nat) : List Nat → List Nat
  | [] => [n]
  | h :: t => if n < h then n :: h :: t else if n = h then h :: t else h :: insertSorted n t

/-- non-ground nodes of the netlist, ascending -/
def nodeList (cs : List (Cpt K)) : List Nat :=
  (cs.foldl (fun acc c => match nodes2 c with
      | some (a, b) => insertSorted b (insertSorted a acc)
      | none => acc) []).filter (· ≠ 0)

def nodalEqs (kind : Kind) (s : K) (cs : List (Cpt K)) : Option (List (Nat × LinForm K)) :=
  if cs.all (nodalSupported kind s) then
    some ((nodeList cs).map (fun k => (k, nodalEq kind s cs k)))
  else none

/-! ## the circuit graph (lcapy/circuitgraph.py `from_circuit`) -/

/-- graph nodes: a circuit node, or the dummy node `*d` inserted in front of a parallel component;
    the dummy remembers the circuit node it is wired to (`dummy_nodes[dummynode] = node_name2`) -/
inductive GNode where
  | real (n : Nat)
  | dummy (d : Nat) (standsFor : Nat)
deriving DecidableEq, Repr

/-- a graph edge: the component (index in the netlist, component) or a dummy wire -/
structure Edge (K : Type) where
  a : GNode
  b : GNode
  cpt : Option (Nat × Cpt K)

def Edge.joins (e : Edge K) (p q : GNode) : Bool := (e.a == p && e.b == q) || (e.a == q && e.b == p)

def hasEdge (g : List (Edge K)) (p q : GNode) : Bool := g.any (fun e => e.joins p q)

/-- one step of the `for name in cct.branch_list` loop: (graph, dummy counter) -/
def addCpt (st : List (Edge K) × Nat) (ic : Nat × Cpt K) : List (Edge K) × Nat :=
  match nodes2 ic.2 with
  | none => st
  | some (n1, n2) =>
    if hasEdge st.1 (.real n1) (.real n2) then
      (st.1 ++ [⟨.real n1, .dummy st.2 n2, some ic⟩, ⟨.dummy st.2 n2, .real n2, none⟩], st.2 + 1)
    else
      (st.1 ++ [⟨.real n1, .real n2, some ic⟩], st.2)

def enum (cs : List (Cpt K)) : List (Nat × Cpt K) := (List.range cs.length).zip cs

def buildGraph (cs : List (Cpt K)) : List (Edge K) := ((enum cs).foldl addCpt ([], 0)).1

/-- `CircuitGraph.component(node1, node2)`: the component on the edge joining the two nodes,
    `none` for a dummy wire or no edge -/
def component (g : List (Edge K)) (p q : GNode) : Option (Nat × Cpt K) :=
  match g.find? (fun e => e.joins p q) with
  | some e => e.cpt
  | none => none

/-- consecutive pairs of the closed loop `['A','B','C'] ↦ (A,B),(B,C),(C,A)` -/
def pairsFrom (first : GNode) : List GNode → List (GNode × GNode)
  | [] => []
  | [a] => [(a, first)]
  | a :: b :: t => (a, b) :: pairsFrom first (b :: t)

def loopPairs (loop : List GNode) : List (GNode × GNode) :=
  match loop with
  | [] => []
  | a :: _ => pairsFrom a loop

/-- potential of a graph node -/
def gvolt (x : Ix → K) : GNode → K
  | .real n => volt x n
  | .dummy _ n => volt x n

/-! ## mesh analysis -/

/-- `voltage_equation(i, kind)` of a non-source component as an affine function `z·i + v0`:
    R: R·i, Y: i/Y, C: i/(sC) + v0/s, L: sL·i − L·i0.  Voltage sources: `(0, Voc)`. -/
def volEq (kind : Kind) (s : K) : Cpt K → Option (K × K)
  | .R _ _ r => some (r, 0)
  | .Y _ _ y => some (1 / y, 0)
  | .Cap _ _ c v0 =>
      match kind with
      | .lap => some (1 / (s * c), 0)
      | .ivp => some (1 / (s * c), match v0 with | some v0 => v0 / s | none => 0)
      | _ => none
  | .Ind _ _ _ l i0 _ =>               -- a mutual coupling is IGNORED, as the code does (finding C15-k, known)
      match kind with
      | .lap => some (s * l, 0)
      | .ivp => some (s * l, match i0 with | some i0 => -(l * i0) | none => 0)
      | .dc => some (0, 0)
      | .time => none
  | .V _ _ _ v => some (0, v)
  | _ => none

/-- a linear form in the mesh currents `I_0 … ` : coefficient list and constant -/
structure MeshForm (K : Type) where
  coeffs : List (Nat × K)
  const : K

def MeshForm.eval (im : Nat → K) (f : MeshForm K) : K :=
  lsum (f.coeffs.map (fun p => p.2 * im p.1)) + f.const

/-- `_add_mesh_currents`, the code as it is in /repo: scan each loop for the first consecutive pair that equals
    the component's node names (−I_n) or their reverse (+I_n); signed list of loop indices -/
def accNames (loops : List (List GNode)) (n0 n1 : Nat) : List (Nat × Bool) :=
  (List.range loops.length).zip loops |>.filterMap (fun (n, loop) =>
    match (loopPairs loop).find? (fun pq => (pq.1 == .real n0 && pq.2 == .real n1) ||
                                           (pq.1 == .real n1 && pq.2 == .real n0)) with
    | some pq => some (n, pq.1 == .real n0 && pq.2 == .real n1)     -- true: forward, −I_n
    | none => none)

/-- `_add_mesh_currents` with the PROPOSED patch fix-C15-c (not in /repo): the loop passes through the component iff one of its
    consecutive pairs is joined by THIS component's edge; forward iff the pair starts at the
    component's first node -/
def accEdge (g : List (Edge K)) (loops : List (List GNode)) (idx n0 : Nat) : List (Nat × Bool) :=
  (List.range loops.length).zip loops |>.filterMap (fun (n, loop) =>
    match (loopPairs loop).find? (fun pq => match component g pq.1 pq.2 with
                                            | some (i, _) => i == idx
                                            | none => false) with
    | some pq => some (n, pq.1 == .real n0)
    | none => none)

/-- the code's `current` as a list of (loop, coefficient): −I_n forward, +I_n reverse -/
def accCoeffs (acc : List (Nat × Bool)) : List (Nat × K) :=
  acc.map (fun p => (p.1, if p.2 then (-1 : K) else 1))

def scaleCoeffs (z : K) (l : List (Nat × K)) : List (Nat × K) := l.map (fun p => (p.1, z * p.2))

/-- contribution of the pair (a, b) of loop number `m` to its KVL sum (`_process_loop` body).
    `pe = false` -- components are identified by node names (the code as it is in /repo); `pe = true` -- by their
    graph edge (proposed patch fix-C15-c).  The value is `voltage_equation(−current)`. -/
def meshTerm (pe : Bool) (kind : Kind) (s : K) (g : List (Edge K)) (loops : List (List GNode))
    (ab : GNode × GNode) : Option (MeshForm K) :=
  match component g ab.1 ab.2 with
  | none => some ⟨[], 0⟩                                   -- wire: skipped
  | some (idx, c) =>
    match nodes2 c, volEq kind s c with
    | some (n0, n1), some (z, v0) =>
      if isI c then none                                   -- 'TODO: handle current source in loop'
      else
        -- v : the code's value before the `is_reversed` flip
        let v : MeshForm K :=
          if isV c then ⟨[], v0⟩
          else
            let cur : List (Nat × K) := accCoeffs (if pe then accEdge g loops idx n0 else accNames loops n0 n1)
            ⟨scaleCoeffs (-z) cur, v0⟩                          -- voltage_equation(−current)
        let rev : Bool := if pe then ab.1 == .real n0 else (ab.1 == .real n0 && ab.2 == .real n1)
        some (if rev then ⟨scaleCoeffs (-1) v.coeffs, -v.const⟩ else v)
    | _, _ => none

def MeshForm.add (f g : MeshForm K) : MeshForm K := ⟨f.coeffs ++ g.coeffs, f.const + g.const⟩

/-- the mesh equation of one loop -/
def meshEq (pe : Bool) (kind : Kind) (s : K) (g : List (Edge K)) (loops : List (List GNode))
    (loop : List GNode) : Option (MeshForm K) :=
  (loopPairs loop).foldr (fun ab acc =>
    match meshTerm pe kind s g loops ab, acc with
    | some t, some r => some (t.add r)
    | _, _ => none) (some ⟨[], 0⟩)

def meshEqs (pe : Bool) (kind : Kind) (s : K) (cs : List (Cpt K)) (loops : List (List GNode)) :
    Option (List (MeshForm K)) :=
  loops.mapM (meshEq pe kind s (buildGraph cs) loops)

/-- decidable vetting of a loop handed in by networkx: at least three distinct graph nodes, every
    consecutive pair joined by an edge of the graph, no edge used twice -/
def adjacent (g : List (Edge K)) (p q : GNode) : Bool := hasEdge g p q

def edgeIdOf (g : List (Edge K)) (p q : GNode) : Option Nat := g.findIdx? (fun e => e.joins p q)

def isSimpleCycle (g : List (Edge K)) (loop : List GNode) : Bool :=
  decide (3 ≤ loop.length) && decide loop.Nodup &&
  (loopPairs loop).all (fun pq => adjacent g pq.1 pq.2) &&
  decide ((loopPairs loop).map (fun pq => edgeIdOf g pq.1 pq.2)).Nodup

end Lcapy.Formulations
