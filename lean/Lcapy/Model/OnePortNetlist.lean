/-
  MODEL of the netlist that `NetlistMaker` generates for a one-port tree (property C07, round 3):

    lcapy/netlistmaker.py : NetlistMaker.__call__  (`net._net_make(self, n2, n1)`: + terminal first)
    lcapy/oneport.py      : Ser._net_make (each argument between consecutive nodes, a fresh node --
                            two node names joined by a wire -- per series join),
                            Par._net_make (every argument between its own pair of nodes wired to the
                            two rails), G._net_make (`R? n1 n2 {1/G}`), Xtal/FerriteBead._net_make
                            (= `expand()._net_make`)
    lcapy/network.py      : Network._net_make (a leaf is one line `name n1 n2 args`)

  The model is stated on EQUIPOTENTIAL nodes: node names joined by the `W` lines of the generated
  netlist are one node, exactly as `MNA` (and the C01 front-end `Lcapy.Netlist.nodeClasses`) treats them.
  So a series join is ONE fresh interior node and all arguments of a Par sit between the same two
  nodes.  The harness checks this against the real netlist: it merges the wire-joined names of
  `net.netlist()` and compares the multiset of (component type, node classes, value) with `Net.make`.
  One counter supplies fresh interior nodes and fresh branch indices (a node index and a branch index
  are different unknowns).  Leaves of the compound classes (Xtal, FerriteBead) are expanded first.
  No Mathlib import.
-/
import Lcapy.Model.OnePort
import Lcapy.Spec.PortRel
namespace Lcapy.OnePort
open Lcapy.MNA

variable {K : Type} [Add K] [Mul K] [Neg K] [Sub K] [Div K] [OfNat K 0] [OfNat K 1]

/-- one netlist line for a simple leaf between `a` (+) and `b` (−); `k` is the next free index -/
def Leaf.make (s : K) (a b k : Nat) : Leaf K → List (Cpt K) × Nat
  | .R r => ([.R a b r], k)
  | .G g => ([.R a b (1 / g)], k)                       -- `R? n1 n2 {1/G}`
  | .L l i0 => ([.Ind a b k l i0 []], k + 1)
  | .C c v0 => ([.Cap a b c v0], k)
  | .Y y => ([.Y a b y], k)
  | .Z z => ([.Y a b (1 / z)], k)                       -- a netlist `Z` is stamped as the admittance 1/Z
  | .V _ e => ([.V a b k e], k + 1)
  | .I _ j => ([.I a b j], k)
  | .CPE kk al => ([.Y a b (npow s al * kk)], k)        -- `CPE` line: admittance s^α K
  | .Xtal _ _ _ _ => ([], k)                            -- compound leaves are expanded before (`Net.expandAll`)
  | .FB _ _ _ _ => ([], k)

/-- a leaf that is one netlist line whose stamp is defined: `R` and `Z` are stamped as 1/R, 1/Z, and `G` is
    written as the resistance 1/G -/
def Leaf.simple [DecidableEq K] : Leaf K → Bool
  | .Xtal _ _ _ _ => false
  | .FB _ _ _ _ => false
  | .R r => decide (r ≠ 0)
  | .Z z => decide (z ≠ 0)
  | .G g => decide (g ≠ 0)          -- `R? n1 n2 {1/G}`: 1/0 is `zoo` in Lcapy, not a resistance
  | _ => true

mutual
/-- the generated netlist between `a` (+) and `b` (−) with fresh indices from `k`; returns the
    components and the next free index -/
def Net.make (s : K) : Net K → Nat → Nat → Nat → List (Cpt K) × Nat
  | .leaf l, a, b, k => l.make s a b k
  | .ser as, a, b, k => serMake s as a b k
  | .par as, a, b, k => parMake s as a b k
/-- `Ser._net_make`: the first argument from `a` to a fresh node, the rest from there to `b` -/
def serMake (s : K) : List (Net K) → Nat → Nat → Nat → List (Cpt K) × Nat
  | [], _, _, k => ([], k)
  | [x], a, b, k => x.make s a b k
  | x :: y :: t, a, b, k =>
      let r1 := x.make s a k (k + 1)
      let r2 := serMake s (y :: t) k b r1.2
      (r1.1 ++ r2.1, r2.2)
/-- `Par._net_make`: every argument between the two rails -/
def parMake (s : K) : List (Net K) → Nat → Nat → Nat → List (Cpt K) × Nat
  | [], _, _, k => ([], k)
  | x :: t, a, b, k =>
      let r1 := x.make s a b k
      let r2 := parMake s t a b r1.2
      (r1.1 ++ r2.1, r2.2)
end

mutual
/-- the tree can be drawn and stamped: every `Ser` has at least one argument (Lcapy requires two), every leaf
    is a single line (compound leaves expanded) and no R / Z is zero (MNA stamps them as 1/R, 1/Z) -/
def Net.drawable [DecidableEq K] : Net K → Bool
  | .leaf l => l.simple
  | .ser as => !as.isEmpty && allDrawable as
  | .par as => allDrawable as
def allDrawable [DecidableEq K] : List (Net K) → Bool
  | [] => true
  | a :: t => a.drawable && allDrawable t
end


mutual
/-- `Xtal._net_make` / `FerriteBead._net_make`: `self.expand()._net_make(…)` -/
def Net.expandAll : Net K → Net K
  | .leaf l => l.expand
  | .ser as => .ser (expandList as)
  | .par as => .par (expandList as)
def expandList : List (Net K) → List (Net K)
  | [] => []
  | a :: t => a.expandAll :: expandList t
end

end Lcapy.OnePort
