/-
  C20 (round 3) -- executable model of Lcapy's GRAPH PLACER itself: lcapy/schemgraph.py
      Graph.add / add_node / add_edges / Gnode.add_fedge / add_redge      (`ofEdges`)
      Graph.prune (check, incl. the `grizzle` messages)                    (`prune`, `pruneMessages`)
      Graph.add_start_nodes                                                (`addStartNodes`)
      Graph.longest_path (memoised DFS `traverse`, `makepath`)             (`longestPath`)
      Graph.assign_longest                                                 (`assignLongest`)
      Graph.assign_fixed / assign_fixed1                                   (`assignFixed`)
      Graph.path_to_closest_known (forward / backward, 1000 / 2000)        (`closestKnown`)
      Graph.assign_stretchy / assign_stretchy1 (worklist, even split)      (`assignStretchy`)
      Graph.check_positions                                                (`checkPositions`)
      Graph.solve                                                          (`solve`)
  and lcapy/schemplacerbase.py: SchemPlacerBase.solve (x and y graph, scaling by node_spacing)  (`placeCode`).

  Faithfulness notes.  Python dictionaries / lists keep insertion order and the algorithm depends on it
  (which of several equally long paths is taken, which unknown node the worklist visits first): a graph here is
  the ORDERED list of gnodes, each with its ORDERED forward and reverse edge lists.  Loops are bounded the way
  the code bounds them (`depth > 1000` raises) or by an explicit fuel whose exhaustion is reported as an error.
  Positions are exact rationals (Lcapy: floats); the `1e-6` tolerances of the printed diagnostics are exact
  comparisons here.  No Mathlib import.
-/
import Lcapy.Model.Layout
namespace Lcapy.Placer
open Lcapy.Layout

/-- `Gedge`: for a forward edge `src → dst`; for a reverse edge `src` is the node that owns the edge
    (`from_gnode`) and `dst` its predecessor (`to_gnode`) -/
structure GE where
  cpt : String
  src : String
  dst : String
  size : Rat
  stretch : Bool
deriving DecidableEq, Repr

/-- `Gnode` -/
structure GN where
  name : String
  fedges : List GE
  redges : List GE
deriving Repr, DecidableEq

/-- `Graph` (a dict): gnodes in insertion order -/
abbrev PGraph := List GN

def PGraph.node? (g : PGraph) (n : String) : Option GN := g.find? (fun x => x.name == n)
def PGraph.fedgesOf (g : PGraph) (n : String) : List GE := match g.node? n with | some x => x.fedges | none => []
def PGraph.redgesOf (g : PGraph) (n : String) : List GE := match g.node? n with | some x => x.redges | none => []
def PGraph.names (g : PGraph) : List String := g.map (·.name)

/-- association lists used for `gnode.pos`, `gnode.dist`, `gnode.next` -/
def aset {β : Type} (m : List (String × β)) (k : String) (v : β) : List (String × β) :=
  if m.any (fun e => e.1 == k) then m.map (fun e => if e.1 == k then (k, v) else e) else m ++ [(k, v)]
def aget {β : Type} (m : List (String × β)) (k : String) : Option β := (m.find? (fun e => e.1 == k)).map (·.2)

/-! ### building the graph (`Graph.add`) -/

def updNode (g : PGraph) (n : String) (f : GN → GN) : PGraph := g.map (fun x => if x.name == n then f x else x)

/-- `add_node` -/
def addNode (g : PGraph) (n : String) : PGraph := if g.any (fun x => x.name == n) then g else g ++ [⟨n, [], []⟩]

def sameEdge (a b : GE) : Bool := a.cpt == b.cpt && a.dst == b.dst && a.src == b.src

/-- `add_edges`: `gnode1.add_fedge(…)`, `gnode2.add_redge(…)` (an edge of the same component between the same
    gnodes is not added twice) -/
def addEdges (g : PGraph) (cpt : String) (n1 n2 : String) (size : Rat) (stretch : Bool) : PGraph :=
  let fe : GE := ⟨cpt, n1, n2, size, stretch⟩
  let re : GE := ⟨cpt, n2, n1, size, stretch⟩
  let g := updNode g n1 (fun x => if x.fedges.any (sameEdge fe) then x else { x with fedges := x.fedges ++ [fe] })
  updNode g n2 (fun x => if x.redges.any (sameEdge re) then x else { x with redges := x.redges ++ [re] })

/-- `Graph.add(cpt, n1, n2, size, stretch)` with `n1`, `n2` already replaced by their gnode names -/
def gadd (g : PGraph) (cpt : String) (n1 n2 : String) (size : Rat) (stretch : Bool) : PGraph :=
  if size == 0 then g else
  let (n1, n2, size) := if size < 0 then (n2, n1, -size) else (n1, n2, size)
  let g := addNode g n1
  let g := addNode g n2
  addEdges g cpt n1 n2 size stretch

/-- the name of a gnode: the tuple `cnodes[n]` of linked node names, joined with `+` -/
def gname (parts : List (List String)) (n : String) : String := "+".intercalate (findClass parts n)

/-- one axis of `SchemPlacerBase._make_graphs`: the chains of every element in element order.  `raw` edges carry the
    component name; the value handed to `Graph.add` is `(vals[m2] − vals[m1])·size` (sign handled by `gadd`), a zero
    size is replaced by `1e-9` in `_place`, represented here as `tiny` -/
structure RawEdge where
  cpt : String
  n1 : String
  n2 : String
  value : Rat
  stretch : Bool
deriving Repr

def tiny : Rat := 1 / 1000000000

def rawChain (cpt : String) (size : Rat) (stretch : Bool) : List (Rat × String) → List RawEdge
  | a :: b :: rest =>
    ⟨cpt, a.2, b.2, (b.1 - a.1) * (if size == 0 then tiny else size), stretch⟩ :: rawChain cpt size stretch (b :: rest)
  | _ => []

/-- the component of an edge is identified by its position in `sch.elements` (anonymous components share a name in the
    netlist text but are different objects for `add_fedge`'s duplicate test) -/
def rawXs (rs : List Resolved) : List RawEdge :=
  (rs.zipIdx).flatMap fun ri => if ri.1.skip then [] else rawChain (toString ri.2) ri.1.size ri.1.stretch (sortDesc ri.1.xs)
def rawYs (rs : List Resolved) : List RawEdge :=
  (rs.zipIdx).flatMap fun ri => if ri.1.skip then [] else rawChain (toString ri.2) ri.1.size ri.1.stretch (sortDesc ri.1.ys)

def buildGraph (parts : List (List String)) (raw : List RawEdge) : PGraph :=
  raw.foldl (fun g e => gadd g e.cpt (gname parts e.n1) (gname parts e.n2) e.value e.stretch) []

/-! ### `prune` -/

def keysOf (edges : List GE) : List (String × String) :=
  edges.foldl (fun acc e => if acc.contains (e.src, e.dst) then acc else acc ++ [(e.src, e.dst)]) []

/-- the edge kept for one `(from, to)` group -/
def pickBest (grp : List GE) : Option GE :=
  match grp with
  | [] => none
  | e0 :: _ =>
    match grp.find? (fun e => !e.stretch) with
    | some e => some e
    | none => some (grp.foldl (fun (bs : GE × Rat) e => if e.size > bs.2 then (e, e.size) else bs) (e0, 0)).1

def pruneList (edges : List GE) : List GE :=
  if edges.length < 2 then edges else
  (keysOf edges).filterMap (fun k => pickBest (edges.filter (fun e => e.src == k.1 && e.dst == k.2)))

/-- the `grizzle` messages of `prune` (forward edges only): a second fixed edge of another size, or a stretchy edge
    larger than the fixed one, between the same two gnodes -/
def grizzleList (edges : List GE) : List String :=
  if edges.length < 2 then [] else
  (keysOf edges).flatMap fun k =>
    let grp := edges.filter (fun e => e.src == k.1 && e.dst == k.2)
    if grp.length < 2 then [] else
    match grp.find? (fun e => !e.stretch) with
    | none => []
    | some f =>
      grp.filterMap fun e =>
        if e.size != f.size && !e.stretch then some s!"fixed-size-violation:{e.cpt}"
        else if e.size > f.size then some s!"size-violation:{e.cpt}" else none

def prune (g : PGraph) : PGraph := g.map (fun x => { x with fedges := pruneList x.fedges, redges := pruneList x.redges })
def pruneMessages (g : PGraph) : List String := g.flatMap (fun x => grizzleList x.fedges)

/-! ### `add_start_nodes` -/

def addStartNodes (g : PGraph) : PGraph :=
  if g.any (fun x => x.name == "start") then g else
  let g1 := g ++ [⟨"start", [], []⟩, ⟨"end", [], []⟩]
  g1.names.foldl (fun g n =>
    let g := if (g.redgesOf n).isEmpty && n != "start" then addEdges g "" "start" n 0 true else g
    if (g.fedgesOf n).isEmpty && n != "end" then addEdges g "" n "end" 0 true else g) g1

/-! ### `longest_path` -/

abbrev Pos := List (String × Rat)

structure DS where
  dist : List (String × Rat)     -- `gnode.dist` (`None` = absent)
  next : List (String × GE)      -- `gnode.next`

/-- the recursion of `longest_path.traverse`; `fuel` = 1001 − depth (`depth > 1000` raises RuntimeError) -/
def traverse (g : PGraph) (pos : Pos) (src dst : String) : Nat → DS → String → Except String (Rat × DS)
  | 0, _, _ => .error "recursion-depth"
  | fuel + 1, ds, v =>
    match aget ds.dist v with
    | some d => .ok (d, ds)
    | none =>
      if v == dst then .ok (0, { ds with dist := aset ds.dist v 0 })
      else if (aget pos v).isSome && v != src then .ok (-1, ds)
      else
        let ds0 : DS := { ds with dist := aset ds.dist v (-1) }
        let r := (g.fedgesOf v).foldl (fun (acc : Except String DS) e =>
          match acc with
          | .error m => .error m
          | .ok ds =>
            match traverse g pos src dst fuel ds e.dst with
            | .error m => .error m
            | .ok (d, ds) =>
              let cur := (aget ds.dist v).getD (-1)
              if d ≥ 0 && cur < d + e.size then .ok ⟨aset ds.dist v (d + e.size), aset ds.next v e⟩ else .ok ds)
          (.ok ds0)
        match r with
        | .error m => .error m
        | .ok ds => .ok ((aget ds.dist v).getD (-1), ds)

/-- `makepath`: follow `gnode.next`; an edge that leads back to its own node is an error; bounded by the number of gnodes -/
def makepath (next : List (String × GE)) : Nat → String → Except String (List GE)
  | 0, _ => .error "makepath-loop"
  | fuel + 1, v =>
    match aget next v with
    | none => .ok []
    | some e =>
      if e.dst == v then .error "dodgy-graph"
      else match makepath next fuel e.dst with
        | .error m => .error m
        | .ok p => .ok (e :: p)

def longestPath (g : PGraph) (pos : Pos) (src dst : String) : Except String (List GE) :=
  match traverse g pos src dst 1002 ⟨[], []⟩ src with
  | .error m => .error m
  | .ok (_, ds) => makepath ds.next (g.length + 1) src

def pathDist (p : List GE) : Rat := (p.map (·.size)).sum
def pathStretches (p : List GE) : Nat := (p.filter (·.stretch)).length

/-! #### certificate of a longest-path labelling (checked executably, proved sound in Props/C20Placer.lean) -/

/-- the gnodes `traverse` refuses to pass through: a known position, other than the two ends of the search -/
def isCut (pos : Pos) (src dst v : String) : Bool := (aget pos v).isSome && v != src && v != dst

/-- local conditions on the labels `d` (`gnode.dist` after `traverse`): the target has label 0; for a labelled gnode other
    than the target every forward edge has a non-negative size, leads to a labelled gnode or to a cut gnode, and a
    non-negative label `y` of its head is dominated: `y + size ≤ label` -/
def lpCert (g : PGraph) (pos : Pos) (src dst : String) (d : List (String × Rat)) : Bool :=
  (aget d dst == some 0) &&
  g.names.all fun v =>
    match aget d v with
    | none => true
    | some x =>
      v == dst || (g.fedgesOf v).all fun e =>
        decide (0 ≤ e.size) && ((aget d e.dst).isSome || isCut pos src dst e.dst) &&
        (match aget d e.dst with
         | some y => decide (y < 0) || decide (y + e.size ≤ x)
         | none => true)

/-- `p` is a walk of forward edges of `g` from `v` that stops at its first arrival at `dst` and avoids cut gnodes -/
def chainB (g : PGraph) (pos : Pos) (src dst : String) : String → List GE → Bool
  | v, [] => v == dst
  | v, e :: q => v != dst && (g.fedgesOf v).contains e && !(isCut pos src dst e.dst) && chainB g pos src dst e.dst q

/-- `longest_path` together with the verdict of the certificate check: the labels pass `lpCert`, the returned path is a
    genuine walk from `src` to `dst` and its length is the label of `src` -/
def longestPathCert (g : PGraph) (pos : Pos) (src dst : String) : Except String (List GE × Bool) :=
  match traverse g pos src dst 1002 ⟨[], []⟩ src with
  | .error m => .error m
  | .ok (_, ds) =>
    match makepath ds.next (g.length + 1) src with
    | .error m => .error m
    | .ok p => .ok (p, lpCert g pos src dst ds.dist && chainB g pos src dst src p &&
                       (aget ds.dist src == some (pathDist p)))

/-! ### `assign_longest`, `assign_fixed` -/

/-- the `pos` setter raises when a position is changed -/
def setPos (pos : Pos) (n : String) (x : Rat) : Except String Pos :=
  if (aget pos n).isSome then .error s!"changing-pos:{n}" else .ok (pos ++ [(n, x)])

/-- `unknown.remove(n)` (raises ValueError if absent) -/
def remove (unknown : List String) (n : String) : Except String (List String) :=
  if unknown.contains n then .ok (unknown.erase n) else .error s!"not-in-unknown:{n}"

structure St where
  pos : Pos
  unknown : List String

def assignLongest (path : List GE) (st : St) : Except String St :=
  match path with
  | [] => .error "empty-path"
  | _ =>
    let rec go (p : List GE) (x : Rat) (st : St) : Except String St :=
      match p with
      | [] => .ok st
      | [e] => do
        let pos ← setPos st.pos e.src x
        let u ← remove st.unknown e.src
        let pos ← setPos pos e.dst (x + e.size)
        let u ← remove u e.dst
        return ⟨pos, u⟩
      | e :: rest => do
        let pos ← setPos st.pos e.src x
        let u ← remove st.unknown e.src
        go rest (x + e.size) ⟨pos, u⟩
    go path 0 st

/-- `assign_fixed1`: the first fixed forward edge to a known gnode (not `end`), else the first fixed reverse edge to a
    known gnode (not `start`) -/
def assignFixed1 (g : PGraph) (pos : Pos) (n : String) : Option Rat :=
  match (g.fedgesOf n).find? (fun e => !e.stretch && (aget pos e.dst).isSome && e.dst != "end") with
  | some e => (aget pos e.dst).map (· - e.size)
  | none =>
    match (g.redgesOf n).find? (fun e => !e.stretch && (aget pos e.dst).isSome && e.dst != "start") with
    | some e => (aget pos e.dst).map (· + e.size)
    | none => none

/-- `assign_fixed`: restart the scan of `unknown` after every assignment; every round removes one name -/
def assignFixed (g : PGraph) : Nat → St → Except String St
  | 0, st => .ok st
  | fuel + 1, st =>
    match st.unknown.findSome? (fun n => (assignFixed1 g st.pos n).map (fun x => (n, x))) with
    | none => .ok st
    | some (n, x) => do
      let pos ← setPos st.pos n x
      let u ← remove st.unknown n
      assignFixed g fuel ⟨pos, u⟩

/-! ### `path_to_closest_known`, `assign_stretchy` -/

/-- `path_to_closest_known.traverse` (not memoised, as in the code); returns the value and the updated `next` -/
def closestTraverse (g : PGraph) (pos : Pos) (forward : Bool) :
    Nat → List (String × GE) → String → Except String (Rat × List (String × GE))
  | 0, _, _ => .error "recursion-depth"
  | fuel + 1, next, v =>
    if v == "start" || v == "end" then .ok (1000, next.filter (fun e => e.1 != v))
    else match aget pos v with
    | some p => .ok (p, next.filter (fun e => e.1 != v))
    | none =>
      let edges := if forward then g.fedgesOf v else g.redgesOf v
      let r := edges.foldl (fun (acc : Except String (Rat × List (String × GE))) e =>
        match acc with
        | .error m => .error m
        | .ok (minDist, next) =>
          match closestTraverse g pos forward fuel next e.dst with
          | .error m => .error m
          | .ok (d, next) =>
            let dist := d - e.size
            if dist < minDist then .ok (dist, aset next v e) else .ok (minDist, next))
        (.ok (2000, next))
      r

/-- `path_to_closest_known`; `next0` = the `next` fields left behind by earlier calls -/
def closestKnown (g : PGraph) (pos : Pos) (next0 : List (String × GE)) (v : String) (forward : Bool) :
    Except String (List GE × List (String × GE)) :=
  match closestTraverse g pos forward 1002 next0 v with
  | .error m => .error m
  | .ok (_, next) =>
    match makepath next (g.length + 1) v with
    | .error m => .error m
    | .ok p => .ok (p, next)

/-- walk along a path assigning the still unknown gnodes (`which e` = the node an edge leads to) -/
def walkAssign (which : GE → String) (stretch : Rat) : List GE → Rat → St → Except String (Rat × St)
  | [], x, st => .ok (x, st)
  | e :: rest, x, st =>
    let x := x + e.size + (if e.stretch then stretch else 0)
    let n := which e
    if (aget st.pos n).isNone then
      match setPos st.pos n x, remove st.unknown n with
      | .ok pos, .ok u => walkAssign which stretch rest x ⟨pos, u⟩
      | .error m, _ => .error m
      | _, .error m => .error m
    else walkAssign which stretch rest x st

/-- what `assign_stretchy1` printed / decided, for the diagnostics and the theorems -/
structure StepInfo where
  node : String
  src : String
  dst : String
  extent : Rat
  separation : Rat
  stretches : Nat
  /-- extent and number of stretchy edges of the path the positions are actually assigned along
      (`reversed(from_path) ++ to_path`) -/
  walkExtent : Rat
  walkStretches : Nat
  /-- `split` (even split between two known gnodes), `dangling-start` / `dangling-end` (only one known gnode is reached:
      the gnode is put at the distance of the path from it, no stretch) -/
  kind : String := "split"
  /-- number of edges of the path(s) the position was derived along -/
  walkLen : Nat := 0
deriving Repr

/-- `assign_stretchy1`; `none` = returned False (both closest known gnodes are the dummies) -/
def assignStretchy1 (g : PGraph) (st : St) (v : String) : Except String (Option (St × Option StepInfo)) := do
  let (toPath, next) ← closestKnown g st.pos [] v true
  let (fromPath, _) ← closestKnown g st.pos next v false
  let some toLast := toPath.getLast? | throw "empty-to-path"
  let some fromLast := fromPath.getLast? | throw "empty-from-path"
  let toG := toLast.dst
  let fromG := fromLast.dst
  if fromG == "start" && toG == "end" then return none
  if fromG == "start" then
    let some tp := aget st.pos toG | throw "unknown-to-pos"
    let pos ← setPos st.pos v (tp - pathDist toPath)
    let u ← remove st.unknown v
    return some (⟨pos, u⟩, some ⟨v, fromG, toG, 0, 0, 0, pathDist toPath, pathStretches toPath, "dangling-start", toPath.length⟩)
  if toG == "end" then
    let some fp := aget st.pos fromG | throw "unknown-from-pos"
    let pos ← setPos st.pos v (fp + pathDist fromPath)
    let u ← remove st.unknown v
    return some (⟨pos, u⟩, some ⟨v, fromG, toG, 0, 0, 0, pathDist fromPath, pathStretches fromPath, "dangling-end", fromPath.length⟩)
  let path ← longestPath g st.pos fromG toG
  let some tp := aget st.pos toG | throw "unknown-to-pos"
  let some fp := aget st.pos fromG | throw "unknown-from-pos"
  let stretches := pathStretches path
  let separation := tp - fp
  let extent := pathDist path
  let stretch : Rat :=
    if stretches == 0 then 0 else
    let s := (separation - extent) / (stretches : Rat)
    if s < 0 then 0 else s
  let (x, st1) ← walkAssign (·.src) stretch fromPath.reverse fp st
  let (_, st2) ← walkAssign (·.dst) stretch toPath x st1
  return some (st2, some ⟨v, fromG, toG, extent, separation, stretches,
    pathDist fromPath + pathDist toPath, pathStretches fromPath + pathStretches toPath, "split",
    fromPath.length + toPath.length⟩)

/-- `assign_stretchy`: the worklist.  `for n in unknown:` until something changes; the flag `changes` of the code is
    carried along (`chg`): the `while` loop ends when a full scan changed nothing.  Every productive round removes at
    least one name from `unknown`, so `unknown.length + 1` rounds of fuel are never exhausted. -/
def scanStretchy (g : PGraph) (st : St) : List String → Bool → Except String (Option (St × Option StepInfo) × Bool)
  | [], chg => .ok (none, chg)
  | n :: rest, chg =>
    if (aget st.pos n).isSome then
      match remove st.unknown n with
      | .ok u => .ok (some (⟨st.pos, u⟩, none), chg)
      | .error m => .error m
    else
      match assignStretchy1 g st n with
      | .error m => .error m
      | .ok (some (st', info)) =>
        match assignFixed g (st'.unknown.length + 1) st' with
        | .ok st'' => .ok (some (st'', info), true)
        | .error m => .error m
      | .ok none => scanStretchy g st rest false

def assignStretchy (g : PGraph) : Nat → St → List StepInfo → Except String (St × List StepInfo)
  | 0, st, log => .ok (st, log)
  | fuel + 1, st, log =>
    if st.unknown.isEmpty then .ok (st, log) else
    match scanStretchy g st st.unknown true with
    | .error m => .error m
    | .ok (none, _) => .ok (st, log)
    | .ok (some (st', info), chg) =>
      if chg then assignStretchy g fuel st' (log ++ info.toList) else .ok (st', log ++ info.toList)

/-! ### `check_positions`, `solve` -/

/-- the conflicts `check_positions` prints (exact comparison instead of the `1e-6` tolerance) -/
def checkPositions (g : PGraph) (pos : Pos) : List String :=
  g.flatMap fun x => x.fedges.filterMap fun e =>
    match aget pos e.src, aget pos e.dst with
    | some a, some b =>
      let d := b - a
      if e.stretch then (if d < e.size then some s!"distance-conflict:{e.cpt}:{e.src}>{e.dst}" else none)
      else (if d != e.size then some s!"stretch-conflict:{e.cpt}:{e.src}>{e.dst}" else none)
    | _, _ => some s!"unplaced:{e.src}>{e.dst}"

structure Solved where
  graph : PGraph                 -- after `prune` and `add_start_nodes`
  pos : Pos                      -- gnode positions
  path : List GE                 -- the longest start → end path
  steps : List StepInfo          -- the even-split steps of `assign_stretchy`
  conflicts : List String        -- `check_positions`
  messages : List String         -- `prune` grizzle + "will not fit"
  /-- the start → end path passed the longest-path certificate (always, on acyclic graphs) -/
  certified : Bool

/-- `Graph.solve()` on a non-empty graph -/
def solve (g0 : PGraph) : Except String Solved := do
  let g := addStartNodes (prune g0)
  let unknown := g0.names ++ ["start", "end"]
  let (path, cert) ← longestPathCert g [] "start" "end"
  let st ← assignLongest path ⟨[], unknown⟩
  let st ← assignFixed g (st.unknown.length + 1) st
  let (st, steps) ← assignStretchy g (st.unknown.length + 1) st []
  if !st.unknown.isEmpty then throw s!"cannot-assign:{",".intercalate st.unknown}"
  let fit := steps.filterMap (fun s => if s.kind == "split" && s.extent > s.separation then some s!"will-not-fit:{s.src}>{s.dst}" else none)
  return ⟨g, st.pos, path, steps, checkPositions g st.pos, pruneMessages g0 ++ fit, cert⟩

/-- positions of all schematic nodes on one axis: `pos[n] = self[cnodes[n]].pos` (a node that is in no gnode makes the
    code raise AttributeError "dodgy") -/
def axisPositions (nodes : List String) (parts : List (List String)) (raw : List RawEdge) :
    Except String (List (String × Rat) × Solved) :=
  let g0 := buildGraph parts raw
  if g0.isEmpty then .ok (nodes.map (fun n => (n, 0)), ⟨[], [], [], [], [], [], true⟩) else
  match solve g0 with
  | .error m => .error m
  | .ok s =>
    match nodes.mapM (fun n => (aget s.pos (gname parts n)).map (fun x => (n, x))) with
    | some l => .ok (l, s)
    | none => .error "dodgy-graph:node-without-gnode"

/-- `SchemGraphPlacer.solve(node_spacing)`: both axes, scaled -/
def placeCode (n : Netlist) : Except String (Layout × Solved × Solved) := do
  let (all, rs) ← resolveAll (rotCodeP n.rots) n
  let g := makeGraphs rs
  let xparts := partition all g.xlinks
  let yparts := partition all g.ylinks
  let (xs, sx) ← axisPositions all xparts (rawXs rs)
  let (ys, sy) ← axisPositions all yparts (rawYs rs)
  return (all.map (fun nd => (nd, (((xs.lookup nd).getD 0) * n.spacing, ((ys.lookup nd).getD 0) * n.spacing))), sx, sy)

end Lcapy.Placer
