/-
  MODEL of `Superposition._decompose_timedomain_expr` / `decompose` (lcapy/superposition.py):
  a time-domain source expression is a sum of terms; the DC terms are summed under key 'dc',
  every sinusoidal term is turned into a phasor and ACCUMULATED under its angular frequency,
  the rest is kept as the transient part.  Reassembly (`time()`) adds everything back.
  No Mathlib import.
-/
namespace Lcapy.Decompose
variable {K : Type} [Add K] [Mul K] [OfNat K 0] [DecidableEq K]

/-- a term of a time-domain expression at a fixed instant -/
inductive Term (K : Type) where
  | dc (c : K)
  | ac (omega a b : K)        -- a·cos(ωt) + b·sin(ωt)
  | tr (id : Nat) (c : K)     -- c times the id-th transient waveform
deriving Repr

structure Decomp (K : Type) where
  dc : K
  ac : List (K × K × K)       -- association list keyed by ω: (ω, a, b)
  tr : List (Nat × K)

def acInsert (omega a b : K) : List (K × K × K) → List (K × K × K)
  | [] => [(omega, a, b)]
  | (w, a', b') :: t =>
    if w = omega then (w, a' + a, b' + b) :: t else (w, a', b') :: acInsert omega a b t

def step (d : Decomp K) : Term K → Decomp K
  | .dc c => { d with dc := d.dc + c }
  | .ac w a b => { d with ac := acInsert w a b d.ac }
  | .tr i c => { d with tr := d.tr ++ [(i, c)] }

def decompose (ts : List (Term K)) : Decomp K := ts.foldl step ⟨0, [], []⟩

/-- value of a term given the values of cos(ωt), sin(ωt) and of each transient waveform -/
def semTerm (C S : K → K) (X : Nat → K) : Term K → K
  | .dc c => c
  | .ac w a b => a * C w + b * S w
  | .tr i c => c * X i

def sumK : List K → K
  | [] => 0
  | h :: t => h + sumK t

def semDecomp (C S : K → K) (X : Nat → K) (d : Decomp K) : K :=
  d.dc + sumK (d.ac.map (fun p => p.2.1 * C p.1 + p.2.2 * S p.1)) + sumK (d.tr.map (fun p => p.2 * X p.1))

end Lcapy.Decompose
