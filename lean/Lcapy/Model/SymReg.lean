/-
  C16 -- executable state machine of lcapy's process-wide SYMBOL REGISTRY and CONTEXT STACK
  (symbolregistry.py `SymbolRegistry.register/add/delete`, the module dict `symbol_kinds`,
  sym.py `sympify/sympify1/parse`, state.py `switch_context/restore_context`, netfile.py `add`).  Mathlib-free.

  * registry  : name ↦ assumptions of THE symbol of that name (`state.symbols`, one for the whole process: every
                `Context` gets `context.symbols = self.symbols`)
  * kinds     : name ↦ 'domain' | 'misc' | 'user' | 'expr'   (`symbol_kinds`, a module-level dict)
  * declare   : `symbol(n, **a)`            -> `add(n, kind='user', override=True)`: a new Symbol replaces the entry
                (refused for a 'domain' symbol)
  * use       : `expr('n', **a)` / a value in a netlist line -> the registered symbol if there is one (its own
                assumptions: "this will not modify previously defined symbols"), otherwise a new Symbol with `a`,
                registered as kind 'expr' -- unless the name is still in `symbol_kinds` (`register`: "Don't override if
                symbol is expr kind" tests `name in symbol_kinds`, not `name in self`)
  * delete    : `symbol_delete(n)`          -> `state.symbols.pop(n)`; `symbol_kinds` keeps the name iff
                `cfg.deleteCleansKinds = false`
  * enter/leave : `state.switch_context(ctx)` / `state.restore_context()`; `Circuit.add` = enter; use...; leave, and
                the leave is skipped when `_add` raises iff `cfg.restoreOnError = false`
  The two flags are GENERATED from the source text (tx_caches).
-/
namespace Lcapy.SymReg

structure Cfg where
  /-- `SymbolRegistry.delete` / `symbol_delete` also drop the name from `symbol_kinds`, or `register` tests the registry itself -/
  deleteCleansKinds : Bool
  /-- `add` restores the context in a `finally` -/
  restoreOnError : Bool
deriving DecidableEq, Repr

abbrev Assum := String

structure St where
  reg : List (String × Assum)
  kinds : List (String × String)
  cur : Nat
  stack : List Nat
deriving DecidableEq, Repr

/-- a fresh process: no user symbols, the global context, an empty context stack (the predefined domain symbols are
    kept in `kinds` by the driver: `initWith`) -/
def St.init : St := ⟨[], [], 0, []⟩

def initWith (domain : List String) : St := ⟨domain.map (fun n => (n, "domain")), domain.map (fun n => (n, "domain")), 0, []⟩

def put (l : List (String × α)) (n : String) (a : α) : List (String × α) :=
  match l with
  | [] => [(n, a)]
  | p :: ps => if p.1 = n then (n, a) :: ps else p :: put ps n a

def drop (l : List (String × α)) (n : String) : List (String × α) := l.filter (fun p => p.1 ≠ n)

inductive Op where
  | declare (n : String) (a : Assum)
  | use (n : String) (a : Assum)
  | delete (n : String)
  /-- `Circuit.add(line)` of circuit / context `c`: the symbols of the line are used with the default assumption;
      `ok = false`: `_add` raises after they were parsed -/
  | add (c : Nat) (names : List String) (ok : Bool)
  | enter (c : Nat)
  | leave
deriving DecidableEq, Repr

def Op.mentions : Op → String → Bool
  | .declare n _, m => n = m
  | .use n _, m => n = m
  | .delete n, m => n = m
  | .add _ ns _, m => ns.contains m
  | .enter _, _ => false
  | .leave, _ => false

/-- `symbol(n, **a)` -/
def declare (s : St) (n : String) (a : Assum) : St :=
  if (s.reg.lookup n).isSome && (s.kinds.lookup n == some "domain") then s      -- ValueError: cannot override domain symbol
  else { s with reg := put s.reg n a, kinds := put s.kinds n "user" }

/-- `expr('n', **a)`: the answer (assumptions of the symbol handed out) and the new state -/
def use (s : St) (n : String) (a : Assum) : St × Assum :=
  match s.reg.lookup n with
  | some b => (s, b)
  | none =>
    if (s.kinds.lookup n).isSome then (s, a)                -- `register(kind='expr')` returns without storing
    else ({ s with reg := put s.reg n a, kinds := put s.kinds n "expr" }, a)

def delete (cfg : Cfg) (s : St) (n : String) : St :=
  { s with reg := drop s.reg n, kinds := if cfg.deleteCleansKinds then drop s.kinds n else s.kinds }

def enter (s : St) (c : Nat) : St := { s with stack := s.cur :: s.stack, cur := c }
def leave (s : St) : St :=
  match s.stack with
  | [] => s
  | c :: cs => { s with cur := c, stack := cs }

def useAll (s : St) : List String → St
  | [] => s
  | n :: ns => useAll (use s n "positive").1 ns

/-- one operation; the second component is the answer of a `use` (none otherwise) -/
def step (cfg : Cfg) (s : St) : Op → St × Option Assum
  | .declare n a => (declare s n a, none)
  | .use n a => ((use s n a).1, some (use s n a).2)
  | .delete n => (delete cfg s n, none)
  | .add c ns ok =>
    let s1 := useAll (enter s c) ns
    (if ok || cfg.restoreOnError then leave s1 else s1, none)
  | .enter c => (enter s c, none)
  | .leave => (leave s, none)

def run (cfg : Cfg) : St → List Op → St
  | s, [] => s
  | s, op :: ops => run cfg (step cfg s op).1 ops

/-- answers of all the `use` operations of a history -/
def answers (cfg : Cfg) : St → List Op → List Assum
  | _, [] => []
  | s, op :: ops =>
    match (step cfg s op).2 with
    | some a => a :: answers cfg (step cfg s op).1 ops
    | none => answers cfg (step cfg s op).1 ops

/-- what the process knows about name `n` -/
def view (s : St) (n : String) : Option Assum × Option String := (s.reg.lookup n, s.kinds.lookup n)

/-- the history restricted to the operations that mention `n` -/
def restrict (h : List Op) (n : String) : List Op := h.filter (fun op => op.mentions n)

/-- one-name machine: what `n` means after history `h` -- a purely syntactic fold over the operations on `n`
    (entry in the registry, entry in `symbol_kinds`) -/
def effStep (cfg : Cfg) (v : Option Assum × Option String) (n : String) : Op → Option Assum × Option String
  | .declare m a => if m = n then (if v.1.isSome && (v.2 == some "domain") then v else (some a, some "user")) else v
  | .use m a => if m = n then (match v.1 with
      | some _ => v
      | none => if v.2.isSome then v else (some a, some "expr")) else v
  | .delete m => if m = n then (none, if cfg.deleteCleansKinds then none else v.2) else v
  | .add _ ns _ => if ns.contains n then (match v.1 with
      | some _ => v
      | none => if v.2.isSome then v else (some "positive", some "expr")) else v
  | .enter _ => v
  | .leave => v

def effective (cfg : Cfg) (v : Option Assum × Option String) (n : String) : List Op → Option Assum × Option String
  | [] => v
  | op :: ops => effective cfg (effStep cfg v n op) n ops

/-- the answer `expr('n', **a)` gives in a state where `n` is seen as `v` -/
def useAnswer (v : Option Assum × Option String) (a : Assum) : Assum := (v.1).getD a

/-- DECIDABLE characterisation of the histories after which `expr('n', **a)` answers as in a fresh process -/
def freshLike (cfg : Cfg) (h : List Op) (n : String) (a : Assum) : Bool :=
  useAnswer (effective cfg (none, none) n h) a == a

/-- operations that can change what an ALREADY REGISTERED name means: re-declaration and deletion -/
def Op.rebinds : Op → String → Bool
  | .declare m _, n => m = n
  | .delete m, n => m = n
  | _, _ => false

/-- DECIDABLE: none of the names `ns` is re-declared or deleted in the rest `h` of the history -- then a value parsed
    before `h` and the same text parsed after `h` contain the same symbols -/
def stableOver (h : List Op) (ns : List String) : Bool := h.all (fun op => ns.all (fun n => !op.rebinds n))

end Lcapy.SymReg
