/-
  C16 -- a memoised analysis under PROCESS-WIDE SETTINGS (state.py `State`, config.py), Mathlib-free.

  lcapy never invalidates a memo when a setting changes: `_invalidate()` is called by mutations of the netlist only.
  The model: one netlist (`elts`), the settings `env : String → String`, one memo slot holding the result of the
  analysis `f elts env` computed when the slot was empty.  `f` is arbitrary -- the theorems quantify over every
  interpretation of an analysis as a function of (elements, settings).
-/
namespace Lcapy.EnvMemo

abbrev Env := String → String

def Env.set (e : Env) (k v : String) : Env := fun x => if x = k then v else e x

structure St (E R : Type) where
  elts : E
  env : Env
  memo : Option R

inductive Op (E : Type) where
  /-- assign a process-wide setting -/
  | set (k v : String)
  /-- a public mutation of the netlist (add / remove): new elements, `_invalidate()` -/
  | mutate (e : E)
  /-- a query answered through the memo slot -/
  | query

variable {E R : Type}

def step (f : E → Env → R) (s : St E R) : Op E → St E R × Option R
  | .set k v => ({ s with env := s.env.set k v }, none)
  | .mutate e => ({ s with elts := e, memo := none }, none)
  | .query =>
    match s.memo with
    | some r => (s, some r)
    | none => ({ s with memo := some (f s.elts s.env) }, some (f s.elts s.env))

def run (f : E → Env → R) : St E R → List (Op E) → St E R
  | s, [] => s
  | s, op :: ops => run f (step f s op).1 ops

/-- the answers of the queries of a history, in order -/
def answers (f : E → Env → R) : St E R → List (Op E) → List R
  | _, [] => []
  | s, op :: ops =>
    match (step f s op).2 with
    | some r => r :: answers f (step f s op).1 ops
    | none => answers f (step f s op).1 ops

/-- a circuit freshly built from the same elements in the same process (same settings, empty memo) -/
def fresh (s : St E R) : St E R := { s with memo := none }

/-- the settings a history assigns -/
def keysSet : List (Op E) → List String
  | [] => []
  | .set k _ :: ops => k :: keysSet ops
  | _ :: ops => keysSet ops

/-- the analysis does not look at the settings `ks` -/
def Insensitive (f : E → Env → R) (ks : List String) : Prop :=
  ∀ (e : E) (a b : Env), (∀ x, x ∉ ks → a x = b x) → f e a = f e b

end Lcapy.EnvMemo
