/-
  MODEL of lcapy/oneport.py's network algebra (property C07), as executable functions.

  * `Leaf.Z/Y/Voc/Isc`, `Net.Z/Y/Voc/Isc`: the Thévenin/Norton bookkeeping of
    `OnePort.impedance/admittance/Voc/Isc`, `Ser.impedance/Voc`, `Par.admittance/Isc`,
    `ParSer.Voc/Isc`.  `Ser.Isc` and `Par.Voc` are obtained by Lcapy from `self.cct` (nodal
    analysis of the generated netlist) when `has_independent_source`, else they are 0; the model
    uses the value that analysis must return (Voc·Y, Isc·Z) -- the correspondence harness checks
    this against the real `cct` route, and `Props/C07` proves it from the relation.
  * `combine`, `simplify`: `ParSer._combine`, `ParSer.simplify`.
  * `netMake`: `Ser._net_make`, `Par._net_make`, `Network._net_make`, `G._net_make`,
    `Xtal/FerriteBead._net_make`, `NetlistMaker.__call__` (node allocation by the `_node` counter).
  Arithmetic is generic; the driver instantiates at `CRat` so that `1/0` (SymPy `zoo`) is an
  error value and cannot agree with anything by accident.  No Mathlib import.
-/
import Lcapy.Spec.OnePort
namespace Lcapy.OnePort

variable {K : Type} [Add K] [Mul K] [Neg K] [Sub K] [Div K] [OfNat K 0] [OfNat K 1]

/-! ### `expand()` of the compound leaves, as the CODE writes it -/

/-- `Xtal.expand`: `(R(R1) + L(L1) + C(C1)) | C(C0)`; `FerriteBead.expand`:
    `R(Rs) + (R(Rp) | L(Lp) | C(Cp))` (binary `+`/`|` nest to the left) -/
def Leaf.expand : Leaf K → Net K
  | .Xtal c0 r1 l1 c1 =>
      .par [.ser [.ser [.leaf (.R r1), .leaf (.L l1 none)], .leaf (.C c1 none)], .leaf (.C c0 none)]
  | .FB rs rp cp lp =>
      .ser [.leaf (.R rs), .par [.par [.leaf (.R rp), .leaf (.L lp none)], .leaf (.C cp none)]]
  | l => .leaf l

/-! ### leaves: `_Z`, `_Y`, `_Voc`, `_Isc` and the fallbacks of `OnePort` -/

/-- impedance of the series arm R + sL + 1/(sC) summed as `Ser.impedance` does (0 + …) -/
def serRLC (s r l c : K) : K := 0 + (0 + r + s * l) + 1 / (s * c)

/-- admittance of R | L | C summed as `Par.admittance` does -/
def parRLC (s r l c : K) : K := 0 + (0 + 1 / r + 1 / (s * l)) + 1 / (1 / (s * c))

def Leaf.imp (s : K) : Leaf K → K
  | .R r => r
  | .G g => 1 / g
  | .L l _ => s * l
  | .C c _ => 1 / (s * c)
  | .Y y => 1 / y                      -- `1 / self._Y`
  | .Z z => z
  | .V _ _ => 0                        -- `impedance(0)`
  | .I _ _ => 1 / 0                    -- `1 / admittance(0)`  (zoo)
  | .CPE k a => 1 / (npow s a * k)
  | .Xtal c0 r1 l1 c1 => 1 / (0 + 1 / serRLC s r1 l1 c1 + 1 / (1 / (s * c0)))
  | .FB rs rp cp lp => 0 + rs + 1 / parRLC s rp lp cp

def Leaf.adm (s : K) : Leaf K → K
  | .Y y => y
  | .I _ _ => 0                        -- `1 / (1 / admittance(0))`: SymPy evaluates 1/zoo = 0
  | l => 1 / l.imp s

def Leaf.voc (s : K) : Leaf K → K
  | .L l i0 => -(ic i0) * l
  | .C _ v0 => ic v0 / s
  | .V _ e => e
  | .I k j => j * (Leaf.I k j).imp s     -- `_Isc._mul(self.impedance)`
  | _ => 0

def Leaf.isc (s : K) : Leaf K → K
  | .I _ j => j
  | l => l.voc s * l.adm s                -- `self.Voc._mul(self.admittance)`

/-- `arg.has_independent_source or (arg.has_ic and not arg.zeroic)` as tested by
    `ParSer.has_independent_source` on each argument -/
def Leaf.hasSrc [DecidableEq K] : Leaf K → Bool
  | .V _ _ => true
  | .I _ _ => true
  | .L _ (some i0) => decide (i0 ≠ 0)
  | .C _ (some v0) => decide (v0 ≠ 0)
  | _ => false

/-! ### `Ser` / `Par` -/

mutual
def Net.hasSrc [DecidableEq K] : Net K → Bool
  | .leaf l => l.hasSrc
  | .ser as => anySrc as
  | .par as => anySrc as
def anySrc [DecidableEq K] : List (Net K) → Bool
  | [] => false
  | a :: t => a.hasSrc || anySrc t
end

mutual
def Net.imp (s : K) : Net K → K
  | .leaf l => l.imp s
  | .ser as => sumZ s as
  | .par as => 1 / sumY s as
def Net.adm (s : K) : Net K → K
  | .leaf l => l.adm s
  | .ser as => 1 / sumZ s as
  | .par as => sumY s as
/-- `Z = 0; for arg in args: Z += arg.impedance` (accumulated from the left) -/
def sumZ (s : K) : List (Net K) → K
  | [] => 0
  | a :: t => a.imp s + sumZ s t
def sumY (s : K) : List (Net K) → K
  | [] => 0
  | a :: t => a.adm s + sumY s t
end

mutual
def Net.voc [DecidableEq K] (s : K) : Net K → K
  | .leaf l => l.voc s
  | .ser as => sumVoc s as
  | .par as => if anySrc as then sumIsc s as * (1 / sumY s as) else 0     -- `self.cct.Voc(1, 0)`
def Net.isc [DecidableEq K] (s : K) : Net K → K
  | .leaf l => l.isc s
  | .ser as => if anySrc as then sumVoc s as * (1 / sumZ s as) else 0     -- `self.cct.Isc(1, 0)`
  | .par as => sumIsc s as
def sumVoc [DecidableEq K] (s : K) : List (Net K) → K
  | [] => 0
  | a :: t => a.voc s + sumVoc s t
def sumIsc [DecidableEq K] (s : K) : List (Net K) → K
  | [] => 0
  | a :: t => a.isc s + sumIsc s t
end

/-! ### the property's precondition, as decidable predicates

  `tOK n` : the Thévenin data (Z, Voc) of `n` are meaningful -- no subnetwork whose admittance is
            needed is an ideal voltage source or a short (so no ideal V source is shunted), and
            no division by zero occurs at the sample point;
  `nOK n` : the Norton data (Y, Isc) are meaningful -- dually, no ideal current source (or open
            circuit) is in series with another element.
  `icOK n`: Lcapy's `ParSer.Voc/Isc` return 0 when `has_independent_source` is false; `icOK`
            says that this shortcut is only taken on subnetworks whose open-circuit voltage /
            short-circuit current really vanish.  Since the fix of finding C07-a (non-zero initial
            conditions count as sources) it holds for EVERY tree: `Props/C07.icOK_always`. -/

def Leaf.tOK [DecidableEq K] (s : K) : Leaf K → Bool
  | .R _ => true
  | .G g => decide (g ≠ 0)
  | .L _ _ => true
  | .C c _ => decide (s * c ≠ 0)
  | .Y y => decide (y ≠ 0)
  | .Z _ => true
  | .V _ _ => true
  | .I _ _ => false
  | .CPE k a => decide (npow s a * k ≠ 0)
  | .Xtal c0 r1 l1 c1 => decide (s * c1 ≠ 0) && decide (s * c0 ≠ 0) && decide (serRLC s r1 l1 c1 ≠ 0)
      && decide (0 + 1 / serRLC s r1 l1 c1 + 1 / (1 / (s * c0)) ≠ 0)
  | .FB _ rp cp lp => decide (rp ≠ 0) && decide (s * lp ≠ 0) && decide (s * cp ≠ 0) && decide (parRLC s rp lp cp ≠ 0)

def Leaf.nOK [DecidableEq K] (s : K) : Leaf K → Bool
  | .R r => decide (r ≠ 0)
  | .G g => decide (g ≠ 0)
  | .L l _ => decide (s * l ≠ 0)
  | .C c _ => decide (s * c ≠ 0) && decide (s ≠ 0)
  | .Y _ => true
  | .Z z => decide (z ≠ 0)
  | .V _ _ => false
  | .I _ _ => true
  | .CPE k a => decide (npow s a * k ≠ 0)
  | l => l.tOK s && decide (l.imp s ≠ 0)

mutual
def Net.tOK [DecidableEq K] (s : K) : Net K → Bool
  | .leaf l => l.tOK s
  | .ser as => allT s as
  | .par as => allN s as && decide (sumY s as ≠ 0)
def Net.nOK [DecidableEq K] (s : K) : Net K → Bool
  | .leaf l => l.nOK s
  | .ser as => allT s as && decide (sumZ s as ≠ 0)
  | .par as => allN s as
def allT [DecidableEq K] (s : K) : List (Net K) → Bool
  | [] => true
  | a :: t => a.tOK s && allT s t
def allN [DecidableEq K] (s : K) : List (Net K) → Bool
  | [] => true
  | a :: t => a.nOK s && allN s t
end

mutual
def Net.icOK [DecidableEq K] (s : K) : Net K → Bool
  | .leaf _ => true
  | .ser as => allIc s as && (anySrc as || decide (sumVoc s as = 0))
  | .par as => allIc s as && (anySrc as || decide (sumIsc s as = 0))
def allIc [DecidableEq K] (s : K) : List (Net K) → Bool
  | [] => true
  | a :: t => a.icOK s && allIc s t
end

/-! ### `ParSer._combine` -/

inductive Op where
  | ser | par
deriving DecidableEq, Repr

/-- result of `_combine`: `none` = Python `None` (no rule), `error` = the ValueError /
    SympifyError branches -/
inductive Comb (K : Type) where
  | none
  | one (l : Leaf K)
  | error (msg : String)

def optEq [DecidableEq K] : Option K → Option K → Bool
  | some a, some b => decide (a = b)
  | none, none => true
  | _, _ => false

/-- `v0 = a.v0 + b.v0 if a.has_ic or b.has_ic else None` -/
def icSum (a b : Option K) : Option K :=
  match a, b with
  | none, none => none
  | _, _ => some (ic a + ic b)

/-- the class of a leaf, for `arg1.__class__ != arg2.__class__` -/
def Leaf.cls : Leaf K → String
  | .R _ => "R" | .G _ => "G" | .L _ _ => "L" | .C _ _ => "C" | .Y _ => "Y" | .Z _ => "Z"
  | .V .gen _ => "V" | .V .dc _ => "Vdc" | .V .step _ => "Vstep" | .V .sdom _ => "sV" | .V .ac _ => "Vac"
  | .I .gen _ => "I" | .I .dc _ => "Idc" | .I .step _ => "Istep" | .I .sdom _ => "sI" | .I .ac _ => "Iac"
  | .CPE _ _ => "CPE" | .Xtal _ _ _ _ => "Xtal" | .FB _ _ _ _ => "FB"

/-- `isinstance(arg, V) and arg.Voc == 0` (class `V` only) -/
def Leaf.isVzero [DecidableEq K] : Leaf K → Bool
  | .V .gen e => decide (e = 0)
  | _ => false
/-- `isinstance(arg, (R, Z)) and arg.impedance == 0` -/
def Leaf.isRZzero [DecidableEq K] : Leaf K → Bool
  | .R r => decide (r = 0)
  | .Z z => decide (z = 0)
  | _ => false
/-- `isinstance(arg, I) and arg.Isc == 0` (class `I` only) -/
def Leaf.isIzero [DecidableEq K] : Leaf K → Bool
  | .I .gen j => decide (j = 0)
  | _ => false
/-- `isinstance(arg, (Y, G)) and arg.admittance == 0` -/
def Leaf.isYGzero [DecidableEq K] : Leaf K → Bool
  | .Y y => decide (y = 0)
  | .G g => decide (g = 0)
  | _ => false

/-- `_combine` for arguments of different classes: the zero-element rules, in the code's order -/
def combineDiff [DecidableEq K] (op : Op) (a b : Leaf K) : Comb K :=
  match op with
  | .ser =>
    if a.isVzero then .one b else if b.isVzero then .one a
    else if a.isRZzero then .one b else if b.isRZzero then .one a else .none
  | .par =>
    if a.isIzero then .one b else if b.isIzero then .one a
    else if a.isYGzero then .one b else if b.isYGzero then .one a else .none

/-- `_combine` for two arguments of the same class -/
def combineSame [DecidableEq K] (op : Op) : Leaf K → Leaf K → Comb K
  | .R r1, .R r2 =>
    match op with
    | .ser => .one (.R (r1 + r2))
    | .par => .one (.R (r1 * r2 / (r1 + r2)))
  | .G g1, .G g2 =>
    match op with
    | .ser => .one (.G (g1 * g2 / (g1 + g2)))
    | .par => .one (.G (g1 + g2))
  | .L l1 i1, .L l2 i2 =>
    match op with
    | .ser => if optEq i1 i2 then .one (.L (l1 + l2) i1)
              else .error "Series inductors with different initial currents"
    | .par => .one (.L (l1 * l2 / (l1 + l2)) (icSum i1 i2))
  | .C c1 v1, .C c2 v2 =>
    match op with
    | .ser => .one (.C (c1 * c2 / (c1 + c2)) (icSum v1 v2))
    | .par => if optEq v1 v2 then .one (.C (c1 + c2) v1)
              else .error "Parallel capacitors with different initial voltages"
  | .V .dc e1, .V .dc e2 =>
    match op with
    | .ser => .one (.V .dc (e1 + e2))
    | .par => .none
  | .V .gen e1, .V .gen e2 =>
    match op with
    | .ser => .one (.V .gen (e1 + e2))          -- `V(arg1.Voc + arg2.Voc)`
    | .par => .none
  | .I .dc j1, .I .dc j2 =>
    match op with
    | .ser => .none
    | .par => .one (.I .dc (j1 + j2))
  | .I .gen j1, .I .gen j2 =>
    match op with
    | .ser => .none
    | .par => .one (.I .gen (j1 + j2))          -- `I(arg1.Isc + arg2.Isc)`
  | _, _ => .none

/-- `_combine(arg1, arg2)` -/
def combine [DecidableEq K] (op : Op) (a b : Leaf K) : Comb K :=
  if a.cls ≠ b.cls then combineDiff op a b else combineSame op a b

/-! ### `ParSer.simplify` -/

/-- inner loop over `m`: try to absorb each later plain argument into `acc` -/
def absorb [DecidableEq K] (op : Op) (acc : Leaf K) : List (Net K) → Except String (Leaf K × List (Net K) × Bool)
  | [] => .ok (acc, [], false)
  | .leaf x :: t =>
    match combine op acc x with
    | .error e => .error e
    | .one y => do
        let (acc', t', _) ← absorb op y t
        pure (acc', t', true)
    | .none => do
        let (acc', t', ch) ← absorb op acc t
        pure (acc', .leaf x :: t', ch)
  | n :: t => do                               -- `isinstance(arg2, ParSer): continue`
      let (acc', t', ch) ← absorb op acc t
      pure (acc', n :: t', ch)

/-- outer loop over `n` (fuel = number of remaining arguments) -/
def scan [DecidableEq K] (op : Op) : Nat → List (Net K) → Except String (List (Net K) × Bool)
  | 0, l => .ok (l, false)
  | _, [] => .ok ([], false)
  | f + 1, .leaf a :: t => do
      let (a', t', ch1) ← absorb op a t
      let (rest, ch2) ← scan op f t'
      pure (.leaf a' :: rest, ch1 || ch2)
  | f + 1, n :: t => do                        -- `isinstance(arg1, ParSer): continue`
      let (rest, ch) ← scan op f t
      pure (n :: rest, ch)

def mk (op : Op) (l : List (Net K)) : Net K := match op with | .ser => .ser l | .par => .par l

/-- `Par.__init__` / `Ser.__init__`: two class-`V` sources in parallel / class-`I` in series raise -/
def countCls (c : String) : List (Net K) → Nat
  | [] => 0
  | .leaf l :: t => (if l.cls = c then 1 else 0) + countCls c t
  | _ :: t => countCls c t

def ctorCheck (op : Op) (l : List (Net K)) : Except String Unit :=
  if l.length < 2 then .error "requires at least two args"
  else match op with
    | .ser => if countCls "I" l ≥ 2 then .error "Current sources connected in series" else .ok ()
    | .par => if countCls "V" l ≥ 2 then .error "Voltage sources connected in parallel" else .ok ()

mutual
def Net.simplify [DecidableEq K] : Net K → Except String (Net K)
  | .leaf l => .ok (.leaf l)                    -- `Network.simplify`: return self
  | .ser as => do
      let (flat, new) ← flatten .ser as
      if new then ctorCheck .ser flat
      let (args, ch) ← scan .ser flat.length flat
      if ch then
        match args with
        | [x] => pure x
        | _ => do ctorCheck .ser args; pure (.ser args)
      else pure (.ser flat)
  | .par as => do
      let (flat, new) ← flatten .par as
      if new then ctorCheck .par flat
      let (args, ch) ← scan .par flat.length flat
      if ch then
        match args with
        | [x] => pure x
        | _ => do ctorCheck .par args; pure (.par args)
      else pure (.par flat)
/-- first loop: simplify ParSer arguments and splice arguments of the same class -/
def flatten [DecidableEq K] (op : Op) : List (Net K) → Except String (List (Net K) × Bool)
  | [] => .ok ([], false)
  | .leaf l :: t => do
      let (r, new) ← flatten op t
      pure (.leaf l :: r, new)
  | n :: t => do
      let n' ← n.simplify
      let (r, _) ← flatten op t
      match op, n' with
      | .ser, .ser xs => pure (xs ++ r, true)
      | .par, .par xs => pure (xs ++ r, true)
      | _, _ => pure (n' :: r, true)
end

end Lcapy.OnePort
