/- C16: helper lemmas on the node table of the cache model (core Lean only). -/
import Lcapy.Model.Cache
set_option linter.unusedSimpArgs false
set_option linter.unusedVariables false
namespace Lcapy.Cache

theorem countOf_dropNode_ne (t : NodeTab) (n m : String) (h : m ≠ n) :
    countOf (dropNode t n) m = countOf t m := by
  induction t with
  | nil => rfl
  | cons x xs ih =>
    by_cases hx : x.name = n
    · have : ¬ x.name = m := fun h2 => h (h2.symm.trans hx)
      simp [dropNode, hx, countOf, ih, this]
      intro h2; exact absurd h2.symm h
    · simp [dropNode, hx, countOf, ih]

theorem countOf_dropNode_self (t : NodeTab) (n : String) : countOf (dropNode t n) n = 0 := by
  induction t with
  | nil => rfl
  | cons x xs ih =>
    by_cases hx : x.name = n
    · simp [dropNode, hx, ih]
    · simp [dropNode, hx, countOf, ih]

theorem degOf_dropNode_ne (t : NodeTab) (n m : String) (h : m ≠ n) :
    degOf (dropNode t n) m = degOf t m := by
  induction t with
  | nil => rfl
  | cons x xs ih =>
    by_cases hx : x.name = n
    · simp [dropNode, hx, degOf, ih]
      intro h2; exact absurd h2.symm h
    · simp [dropNode, hx, degOf, ih]

theorem degOf_dropNode_self (t : NodeTab) (n : String) : degOf (dropNode t n) n = 0 := by
  induction t with
  | nil => rfl
  | cons x xs ih =>
    by_cases hx : x.name = n
    · simp [dropNode, hx, ih]
    · simp [dropNode, hx, degOf, ih]

theorem attach_count (t : NodeTab) (n : String) (c : Bool) (m : String) :
    countOf (attach t n c) m = countOf t m + (if m = n ∧ c = true then 1 else 0) := by
  induction t with
  | nil => cases c <;> by_cases h : n = m <;> simp [attach, countOf, h, eq_comm]
  | cons x xs ih =>
    by_cases hx : x.name = n
    · by_cases hm : n = m
      · subst hm; cases c <;> simp [attach, countOf, hx]
      · have : ¬ m = n := fun h => hm h.symm
        simp [attach, countOf, hx, hm, this]
    · by_cases hm : x.name = m
      · have : ¬ m = n := fun h => hx (hm.trans h)
        simp [attach, countOf, hx, hm, this]
      · simp [attach, countOf, hx, hm, ih]

theorem attach_deg (t : NodeTab) (n : String) (c : Bool) (m : String) :
    degOf (attach t n c) m = degOf t m + (if m = n then 1 else 0) := by
  induction t with
  | nil => by_cases h : n = m <;> simp [attach, degOf, h, eq_comm]
  | cons x xs ih =>
    by_cases hx : x.name = n
    · by_cases hm : n = m
      · subst hm; simp [attach, degOf, hx]
      · have : ¬ m = n := fun h => hm h.symm
        simp [attach, degOf, hx, hm, this]
    · by_cases hm : x.name = m
      · have : ¬ m = n := fun h => hx (hm.trans h)
        simp [attach, degOf, hx, hm, this]
      · simp [attach, degOf, hx, hm, ih]

/-! ### attaching a component -/

theorem attachNodes_count (ns : List String) (c : Bool) (t : NodeTab) (m : String) :
    countOf (ns.foldl (fun t n => attach t n c) t) m = countOf t m + (if c then occ m ns else 0) := by
  induction ns generalizing t with
  | nil => simp [occ]
  | cons n ns ih =>
    simp only [List.foldl, ih, attach_count, occ]
    cases c
    all_goals
      by_cases h : n = m
      · subst h; simp <;> omega
      · have h' : ¬ m = n := fun e => h e.symm
        simp [h, h'] <;> omega

theorem attachNodes_deg (ns : List String) (c : Bool) (t : NodeTab) (m : String) :
    degOf (ns.foldl (fun t n => attach t n c) t) m = degOf t m + occ m ns := by
  induction ns generalizing t with
  | nil => simp [occ]
  | cons n ns ih =>
    simp only [List.foldl, ih, attach_deg, occ]
    all_goals
      by_cases h : n = m
      · subst h; simp <;> omega
      · have h' : ¬ m = n := fun e => h e.symm
        simp [h, h'] <;> omega

theorem attachElt_count (t : NodeTab) (e : Elt) (m : String) :
    countOf (attachElt t e) m = countOf t m + (if e.counted then occ m e.nodes else 0) :=
  attachNodes_count e.nodes e.counted t m

theorem attachElt_deg (t : NodeTab) (e : Elt) (m : String) :
    degOf (attachElt t e) m = degOf t m + occ m e.nodes :=
  attachNodes_deg e.nodes e.counted t m

/-! ### detaching -/

theorem detach_count (keep : Bool) (t t' : NodeTab) (n : String) (c : Bool) (h : detach keep t n c = some t') (m : String) :
    countOf t' m = (if m = n ∧ c = true then countOf t m - 1 else countOf t m) := by
  induction t generalizing t' with
  | nil => simp [detach] at h; subst h; simp [countOf]
  | cons x xs ih =>
    by_cases hx : x.name = n
    · by_cases hcnt : (if c = true then x.count - 1 else x.count) = 0
      · by_cases hdg : x.deg - 1 = 0
        · simp [detach, hx, hcnt, hdg] at h; subst h
          by_cases hm : m = n
          · subst hm; rw [countOf_dropNode_self]
            cases c <;> simp [countOf, hx] at hcnt ⊢ <;> omega
          · have hxm : ¬ n = m := fun h2 => hm h2.symm
            rw [countOf_dropNode_ne _ _ _ hm]; simp [countOf, hx, hxm, hm]
        · cases keep with
          | false => simp [detach, hx, hcnt, hdg] at h
          | true =>
            simp [detach, hx, hcnt, hdg] at h; subst h
            by_cases hm : m = n
            · subst hm; cases c <;> simp [countOf, hx] at hcnt ⊢ <;> omega
            · have hxm : ¬ n = m := fun h2 => hm h2.symm
              simp [countOf, hx, hxm, hm]
      · simp [detach, hx, hcnt] at h; subst h
        by_cases hm : m = n
        · subst hm; cases c <;> simp [countOf, hx]
        · have hxm : ¬ n = m := fun h2 => hm h2.symm
          simp [countOf, hx, hxm, hm]
    · simp only [detach, hx, if_false] at h
      cases hd : detach keep xs n c with
      | none => simp [hd] at h
      | some t2 =>
        simp [hd] at h; subst h
        have := ih t2 hd
        by_cases hxm : x.name = m
        · have : ¬ m = n := fun h2 => hx (hxm.trans h2)
          simp [countOf, hxm, this]
        · simp [countOf, hxm, this]

theorem detach_deg (keep : Bool) (t t' : NodeTab) (n : String) (c : Bool) (h : detach keep t n c = some t') (m : String) :
    degOf t' m = (if m = n then degOf t m - 1 else degOf t m) := by
  induction t generalizing t' with
  | nil => simp [detach] at h; subst h; simp [degOf]
  | cons x xs ih =>
    by_cases hx : x.name = n
    · by_cases hcnt : (if c = true then x.count - 1 else x.count) = 0
      · by_cases hdg : x.deg - 1 = 0
        · simp [detach, hx, hcnt, hdg] at h; subst h
          by_cases hm : m = n
          · subst hm; rw [degOf_dropNode_self]
            simp [degOf, hx]; omega
          · have hxm : ¬ n = m := fun h2 => hm h2.symm
            rw [degOf_dropNode_ne _ _ _ hm]; simp [degOf, hx, hxm, hm]
        · cases keep with
          | false => simp [detach, hx, hcnt, hdg] at h
          | true =>
            simp [detach, hx, hcnt, hdg] at h; subst h
            by_cases hm : m = n
            · subst hm; simp [degOf, hx]
            · have hxm : ¬ n = m := fun h2 => hm h2.symm
              simp [degOf, hx, hxm, hm]
      · simp [detach, hx, hcnt] at h; subst h
        by_cases hm : m = n
        · subst hm; simp [degOf, hx]
        · have hxm : ¬ n = m := fun h2 => hm h2.symm
          simp [degOf, hx, hxm, hm]
    · simp only [detach, hx, if_false] at h
      cases hd : detach keep xs n c with
      | none => simp [hd] at h
      | some t2 =>
        simp [hd] at h; subst h
        have := ih t2 hd
        by_cases hxm : x.name = m
        · have : ¬ m = n := fun h2 => hx (hxm.trans h2)
          simp [degOf, hxm, this]
        · simp [degOf, hxm, this]

theorem detachAll_count (keep : Bool) (ns : List String) (c : Bool) (t t' : NodeTab) (h : detachAll keep t ns c = .inr t') (m : String) :
    countOf t' m = countOf t m - (if c then occ m ns else 0) := by
  induction ns generalizing t with
  | nil => simp [detachAll] at h; subst h; simp [occ]
  | cons n ns ih =>
    simp only [detachAll] at h
    cases hd : detach keep t n c with
    | none => simp [hd] at h
    | some t2 =>
      simp [hd] at h
      rw [ih t2 h, detach_count keep t t2 n c hd m]
      cases c
      all_goals
        by_cases h : n = m
        · subst h; simp [occ] <;> omega
        · have h' : ¬ m = n := fun e => h e.symm
          simp [occ, h, h'] <;> omega

theorem detachAll_deg (keep : Bool) (ns : List String) (c : Bool) (t t' : NodeTab) (h : detachAll keep t ns c = .inr t') (m : String) :
    degOf t' m = degOf t m - occ m ns := by
  induction ns generalizing t with
  | nil => simp [detachAll] at h; subst h; simp [occ]
  | cons n ns ih =>
    simp only [detachAll] at h
    cases hd : detach keep t n c with
    | none => simp [hd] at h
    | some t2 =>
      simp [hd] at h
      rw [ih t2 h, detach_deg keep t t2 n c hd m]
      all_goals
        by_cases h : n = m
        · subst h; simp [occ] <;> omega
        · have h' : ¬ m = n := fun e => h e.symm
          simp [occ, h, h'] <;> omega

/-! ### with the guarded delete nothing raises -/

theorem detach_total (t : NodeTab) (n : String) (c : Bool) : ∃ t', detach true t n c = some t' := by
  induction t with
  | nil => exact ⟨[], rfl⟩
  | cons x xs ih =>
    by_cases hx : x.name = n
    · by_cases hcnt : (if c = true then x.count - 1 else x.count) = 0
      · by_cases hdg : x.deg - 1 = 0
        · exact ⟨dropNode xs n, by simp [detach, hx, hcnt, hdg]⟩
        · exact ⟨⟨n, 0, x.deg - 1⟩ :: xs, by simp [detach, hx, hcnt, hdg]⟩
      · exact ⟨⟨n, if c = true then x.count - 1 else x.count, x.deg - 1⟩ :: xs, by simp [detach, hx, hcnt]⟩
    · obtain ⟨t2, h2⟩ := ih
      exact ⟨x :: t2, by simp [detach, hx, h2]⟩

theorem detachAll_total (ns : List String) (t : NodeTab) (c : Bool) : ∃ t', detachAll true t ns c = .inr t' := by
  induction ns generalizing t with
  | nil => exact ⟨t, rfl⟩
  | cons n ns ih =>
    obtain ⟨t2, h2⟩ := detach_total t n c
    obtain ⟨t3, h3⟩ := ih t2
    exact ⟨t3, by simp [detachAll, h2, h3]⟩

end Lcapy.Cache
