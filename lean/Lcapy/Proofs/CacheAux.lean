/- C16: lemmas on the transformer memo table and on the combine step (core Lean only). -/
import Lcapy.Model.CacheAux
set_option linter.unusedSimpArgs false
set_option linter.unusedVariables false
namespace Lcapy.TCache

variable {A K R : Type} [DecidableEq K]

/-- every stored entry is the result of some argument with that key -/
def Sound (key : A → K) (f : A → R) (c : List (K × R)) : Prop := ∀ p ∈ c, ∃ a, key a = p.1 ∧ f a = p.2

theorem lookup_sound {key : A → K} {f : A → R} {c : List (K × R)} (hs : Sound key f c) {k : K} {r : R}
    (h : lookup c k = some r) : ∃ a, key a = k ∧ f a = r := by
  unfold lookup at h
  simp only [Option.map_eq_some_iff] at h
  obtain ⟨p, hp, rfl⟩ := h
  obtain ⟨a, h1, h2⟩ := hs p (List.mem_of_find?_eq_some hp)
  have := List.find?_some hp
  simp at this
  exact ⟨a, h1.trans this, h2⟩

theorem runT_eq (key : A → K) (f : A → R) (hkey : ∀ a b, key a = key b → f a = f b)
    (rs : List (Req A)) (c : List (K × R)) (hs : Sound key f c) :
    runT key f c rs = rs.map (uncached f) := by
  induction rs generalizing c with
  | nil => rfl
  | cons r rs ih =>
    cases r with
    | clear =>
      simp only [runT, stepT, List.map_cons, uncached]
      rw [ih [] (by intro p hp; cases hp)]
    | tr a =>
      simp only [runT, stepT, List.map_cons, uncached]
      cases hl : lookup c (key a) with
      | some r =>
        obtain ⟨b, hb1, hb2⟩ := lookup_sound hs hl
        simp only []
        rw [ih c hs, ← hb2, hkey b a hb1]
      | none =>
        simp only []
        rw [ih _ (by
          intro p hp
          simp only [List.mem_cons] at hp
          rcases hp with hp | hp
          · exact ⟨a, by simp [hp], by simp [hp]⟩
          · exact hs p hp)]

end Lcapy.TCache

namespace Lcapy.Combine

theorem total_perm {g h : List Cpt} (p : g.Perm h) : total g = total h := by
  unfold total
  induction p with
  | nil => rfl
  | cons x _ ih => simp [List.map, List.foldr] at ih ⊢; omega
  | swap x y l => simp [List.map, List.foldr]; omega
  | trans _ _ ih1 ih2 => exact ih1.trans ih2

end Lcapy.Combine
