/-
  Helper lemmas for Props/C03Lap.lean: the Laplace form of a decomposition (Model/Reassemble.lean) is additive
  in the terms, step by step of the accumulation loop.
-/
import Lcapy.Model.Reassemble
import Lcapy.Proofs.Laplace
import Lcapy.Props.C03
namespace Lcapy.C03
open Lcapy.Decompose Lcapy.Laplace
variable {K : Type} [Field K]
set_option linter.unusedSectionVars false

section
variable [DecidableEq K]

theorem phasorLap_add (a a' b b' w s : K) :
    phasorLap (a' + a) (-(b' + b)) w s = phasorLap a' (-b') w s + phasorLap a (-b) w s := by
  simp only [phasorLap]; ring

theorem acInsert_lap (s w a b : K) (l : List (K × K × K)) :
    sumK ((acInsert w a b l).map (fun p => phasorLap p.2.1 (-p.2.2) p.1 s)) =
      sumK (l.map (fun p => phasorLap p.2.1 (-p.2.2) p.1 s)) + phasorLap a (-b) w s := by
  induction l with
  | nil => simp [acInsert, sumK]
  | cons h t ih =>
    obtain ⟨w', a', b'⟩ := h
    by_cases hw : w' = w
    · subst hw; simp only [acInsert, if_true, List.map_cons, sumK, phasorLap_add]; ring
    · simp [acInsert, hw, sumK, ih]; ring

theorem step_lap (XL : Nat → K) (s : K) (d : Decomp K) (t : Decompose.Term K) :
    decompLap XL s (step d t) = decompLap XL s d + termLap XL s t := by
  cases t with
  | dc c => simp [step, decompLap, termLap]; ring
  | ac w a b => simp [step, decompLap, termLap, acInsert_lap]; ring
  | tr i c => simp [step, decompLap, termLap, sumK_append, sumK]; ring

theorem L_sumK_flatMap {α : Type} (E : K → K) (s : K) (g : α → ExpPoly K) (l : List α) :
    L E (l.flatMap g) s = sumK (l.map (fun a => L E (g a) s)) := by
  induction l with
  | nil => simp [sumK]
  | cons a t ih => simp [List.flatMap_cons, L_append, sumK, ih]

/-- transform of the time-domain form of a decomposition, part by part -/
theorem L_sigDecomp (E : K → K) (j : K) (X : Nat → ExpPoly K) (s : K) (d : Decomp K) :
    L E (sigDecomp j X d) s =
      L E (dcSig d.dc) s + sumK (d.ac.map (fun p => L E (phasorSig j p.2.1 (-p.2.2) p.1) s)) +
        sumK (d.tr.map (fun p => p.2 * L E (X p.1) s)) := by
  simp only [sigDecomp, L_append, L_sumK_flatMap, L_smul]

theorem L_dcSig_add (E : K → K) (s a b : K) : L E (dcSig (a + b)) s = L E (dcSig a) s + L E (dcSig b) s := by
  simp [dcSig, Term.L]; ring

theorem L_phasorSig_add (E : K → K) (j a a' b b' w s : K) :
    L E (phasorSig j (a' + a) (-(b' + b)) w) s = L E (phasorSig j a' (-b') w) s + L E (phasorSig j a (-b) w) s := by
  simp [phasorSig, Term.L]; ring

theorem acInsert_L (E : K → K) (j s w a b : K) (l : List (K × K × K)) :
    sumK ((acInsert w a b l).map (fun p => L E (phasorSig j p.2.1 (-p.2.2) p.1) s)) =
      sumK (l.map (fun p => L E (phasorSig j p.2.1 (-p.2.2) p.1) s)) + L E (phasorSig j a (-b) w) s := by
  induction l with
  | nil => simp [acInsert, sumK]
  | cons h t ih =>
    obtain ⟨w', a', b'⟩ := h
    by_cases hw : w' = w
    · subst hw
      simp only [acInsert, if_true, List.map_cons, sumK, L_phasorSig_add]; ring
    · simp only [acInsert, hw, if_false, List.map_cons, sumK, ih]; ring

theorem step_L (E : K → K) (j : K) (X : Nat → ExpPoly K) (s : K) (d : Decomp K) (t : Decompose.Term K) :
    L E (sigDecomp j X (step d t)) s = L E (sigDecomp j X d) s + L E (sigTerm j X t) s := by
  rw [L_sigDecomp, L_sigDecomp]
  cases t with
  | dc c => simp only [step, sigTerm, L_dcSig_add]; ring
  | ac w a b => simp only [step, sigTerm, acInsert_L]; ring
  | tr i c => simp only [step, sigTerm, List.map_append, sumK_append, List.map_cons, List.map_nil, sumK, L_smul]; ring

end
end Lcapy.C03
