/-
  Helper lemmas for property C17 (time-stepping simulator, Model/SimStep.lean): unpacking of the acceptance checks
  of `simStep`, "a component that does not touch node k draws no current from it" for `cptNodes`, sums restricted
  to a filter, and the two facts every accepted step yields per reactive component (companion relations, KCL
  contribution of a companion pair).
-/
import Lcapy.Model.SimStep
import Lcapy.Props.C01
import Lcapy.Proofs.StateSpaceMaker
import Mathlib.Tactic.Ring
import Mathlib.Tactic.LinearCombination
import Mathlib.Algebra.Field.Basic
namespace Lcapy.Sim
open Lcapy.MNA Ix Lcapy.Gen.Sim
variable {K : Type} [Field K]

/-- a component draws no current from a non-ground node that is none of its node arguments -/
theorem outflow_eq_zero_of_not_cptNode (kind : Kind) (s : K) (x : Ix → K) (k : Nat) (hk : k ≠ 0) (c : Cpt K)
    (h : ∀ n ∈ cptNodes c, n ≠ k) : outflow kind s x k c = 0 := by
  have hk' : ¬ (0 = k) := fun e => hk e.symm
  cases c <;> simp only [cptNodes, List.mem_cons, List.mem_nil_iff, or_false, forall_eq_or_imp, forall_eq] at h <;>
    simp [outflow, twoTerm, h, hk']

omit [Field K] in
theorem touches_eq_false_iff (d : Nat) (c : Cpt K) : touches d c = false ↔ ∀ n ∈ cptNodes c, n ≠ d := by
  simp only [touches, List.contains_eq_mem, decide_eq_false_iff_not]
  constructor
  · intro h n hn e; exact h (e ▸ hn)
  · intro h hd; exact h d hd rfl

omit [Field K] in
theorem touches_eq_false_iff' (d : Nat) (c : Cpt K) : touches d c = false ↔ d ∉ cptNodes c := by
  simp [touches]

/-- a sum over a list only sees the elements on which the summand can be non-zero -/
theorem lsum_map_filter {α : Type} (p : α → Bool) (f : α → K) (L : List α)
    (h : ∀ c ∈ L, p c = false → f c = 0) : lsum (L.map f) = lsum ((L.filter p).map f) := by
  induction L with
  | nil => rfl
  | cons a t ih =>
    have iht := ih (fun c hc => h c (List.mem_cons_of_mem _ hc))
    cases hp : p a with
    | true => simp only [List.map_cons, lsum, List.filter_cons, hp, if_true, iht]
    | false =>
      have := h a (List.mem_cons_self) hp
      simp [hp, lsum, this, iht]

theorem lsum_outflow_filter_touches (x : Ix → K) (d : Nat) (hd : d ≠ 0) (L : List (Cpt K)) :
    lsum (L.map (outflow .time 0 x d)) = lsum ((L.filter (touches d)).map (outflow .time 0 x d)) := by
  apply lsum_map_filter
  intro c _ hc
  exact outflow_eq_zero_of_not_cptNode _ _ _ _ hd c ((touches_eq_false_iff d c).mp hc)

/-! ### unpacking the checks -/

theorem dummyOK_spec [DecidableEq K] {meth : Method} {L : List (Cpt K)} {dt : K} {r : React K} {s : K × K}
    (h : dummyOK meth L dt r s = true) :
    r.d ≠ 0 ∧ r.d ≠ r.n1 ∧ r.d ≠ r.n2 ∧ L.filter (touches r.d) = companion meth r dt s := by
  simpa [dummyOK, and_assoc] using h

theorem dummiesOK_get [DecidableEq K] (meth : Method) (L : List (Cpt K)) (dt : K) :
    ∀ (rs : List (React K)) (st : List (K × K)), dummiesOK meth L dt rs st = true →
      ∀ j (hj : j < rs.length) (hs : j < st.length), dummyOK meth L dt rs[j] st[j] = true
  | [], _, _, j, hj, _ => absurd hj (Nat.not_lt_zero _)
  | _ :: _, [], _, j, _, hs => absurd hs (Nat.not_lt_zero _)
  | r :: rs, s :: ss, h, j, hj, hs => by
    simp only [dummiesOK, Bool.and_eq_true] at h
    cases j with
    | zero => exact h.1
    | succ j => exact dummiesOK_get meth L dt rs ss h.2 j (Nat.lt_of_succ_lt_succ hj) (Nat.lt_of_succ_lt_succ hs)

theorem dummiesOK_length [DecidableEq K] (meth : Method) (L : List (Cpt K)) (dt : K) :
    ∀ (rs : List (React K)) (st : List (K × K)), dummiesOK meth L dt rs st = true → st.length = rs.length
  | [], [], _ => rfl
  | [], _ :: _, h => by simp [dummiesOK] at h
  | _ :: _, [], h => by simp [dummiesOK] at h
  | r :: rs, s :: ss, h => by
    simp only [dummiesOK, Bool.and_eq_true] at h
    simp [dummiesOK_length meth L dt rs ss h.2]

theorem simStep_some [DecidableEq K] {solver : List (Cpt K) → Ix → K} {meth : Method} {others : List (Cpt K)}
    {rs : List (React K)} {dt : K} {st : List (K × K)} {x : Ix → K}
    (h : simStep solver meth others rs dt st = some x) :
    x = solver (others ++ companions meth rs dt st) ∧
    dummiesOK meth (others ++ companions meth rs dt st) dt rs st = true ∧
    wfB (others ++ companions meth rs dt st) = true ∧
    SSMaker.checkSolves (others ++ companions meth rs dt st) x = true := by
  unfold simStep at h
  simp only at h
  split_ifs at h with hc
  simp only [Option.some.injEq] at h
  subst h
  simp only [Bool.and_eq_true] at hc
  exact ⟨rfl, hc.1.1, hc.1.2, hc.2⟩

theorem simStep_laws [DecidableEq K] {solver : List (Cpt K) → Ix → K} {meth : Method} {others : List (Cpt K)}
    {rs : List (React K)} {dt : K} {st : List (K × K)} {x : Ix → K}
    (h : simStep solver meth others rs dt st = some x) :
    Laws .time 0 (others ++ companions meth rs dt st) x := by
  obtain ⟨_, _, hwf, hchk⟩ := simStep_some h
  have hwf' : Lcapy.C01.WF (others ++ companions meth rs dt st) := by
    unfold wfB at hwf
    unfold Lcapy.C01.WF
    exact of_decide_eq_true hwf
  exact (Lcapy.C01.mna_iff_laws .time 0 _ x hwf').mp (SSMaker.checkSolves_sound _ _ hchk)

/-! ### what the laws of the companion netlist say about one reactive component -/

/-- KCL at a fresh dummy node and the law of the companion source -/
theorem companion_of_laws [DecidableEq K] {meth : Method} {L : List (Cpt K)} {dt : K} {r : React K} {s : K × K}
    {x : Ix → K} (hd : dummyOK meth L dt r s = true) (hl : Laws .time 0 L x) :
    x (br r.m) = geq meth r dt s.1 s.2 * vd x r.n1 r.d ∧ vd x r.d r.n2 = veq meth r dt s.1 s.2 := by
  obtain ⟨h0, h1, h2, hf⟩ := dummyOK_spec hd
  constructor
  · have kcl := hl.1 r.d h0
    rw [lsum_outflow_filter_touches x r.d h0, hf] at kcl
    have h1' : ¬ (r.n1 = r.d) := fun e => h1 e.symm
    have h2' : ¬ (r.n2 = r.d) := fun e => h2 e.symm
    simp only [companion, List.map_cons, List.map_nil, lsum, outflow, twoTerm, if_true, if_neg h1', if_neg h2']
      at kcl
    linear_combination kcl
  · have hm : Cpt.V r.d r.n2 r.m (veq meth r dt s.1 s.2) ∈ L := by
      have : Cpt.V r.d r.n2 r.m (veq meth r dt s.1 s.2) ∈ L.filter (touches r.d) := by
        rw [hf]; simp [companion]
      exact List.mem_of_mem_filter this
    have := hl.2 _ hm (r.m, vd x r.d r.n2 - veq meth r dt s.1 s.2) (by simp [laws])
    exact sub_eq_zero.mp this

/-- the current a companion pair draws from a node other than its dummy node is the current of the component -/
theorem outflow_companion (meth : Method) (r : React K) (dt : K) (s : K × K) (x : Ix → K) (k : Nat)
    (hdk : r.d ≠ k) (hi : x (br r.m) = geq meth r dt s.1 s.2 * vd x r.n1 r.d) :
    lsum ((companion meth r dt s).map (outflow .time 0 x k)) = twoTerm r.n1 r.n2 k (x (br r.m)) := by
  simp only [companion, List.map_cons, List.map_nil, lsum, outflow, twoTerm, if_neg hdk, ← hi]
  ring

theorem lsum_companions (meth : Method) (dt : K) (x : Ix → K) (k : Nat) :
    ∀ (rs : List (React K)) (st : List (K × K)), st.length = rs.length → (∀ r ∈ rs, r.d ≠ k) →
      (∀ j (hj : j < rs.length) (hs : j < st.length),
        x (br rs[j].m) = geq meth rs[j] dt st[j].1 st[j].2 * vd x rs[j].n1 rs[j].d) →
      lsum ((companions meth rs dt st).map (outflow .time 0 x k)) =
        lsum (rs.map (fun r => twoTerm r.n1 r.n2 k (x (br r.m))))
  | [], _, _, _, _ => by simp [companions, lsum]
  | _ :: _, [], hl, _, _ => by simp at hl
  | r :: rs, s :: ss, hl, hd, hi => by
    have ih := lsum_companions meth dt x k rs ss (by simpa using hl)
      (fun r' hr' => hd r' (List.mem_cons_of_mem _ hr'))
      (fun j hj hs => hi (j + 1) (Nat.succ_lt_succ hj) (Nat.succ_lt_succ hs))
    have h0 := hi 0 (Nat.succ_pos _) (Nat.succ_pos _)
    simp only [List.getElem_cons_zero] at h0
    simp only [companions, List.map_append, lsum_append, List.map_cons, lsum, ih]
    rw [outflow_companion meth r dt s x k (hd r List.mem_cons_self) h0]

end Lcapy.Sim

