/-
  Helper lemmas for C07: the executable spec evaluator `Net.line` (Spec/OnePortExec.lean) is
  exact -- series / parallel composition of lines and of the empty relation.
-/
import Lcapy.Spec.OnePortExec
import Mathlib.Tactic.FieldSimp
import Mathlib.Tactic.Ring
import Mathlib.Tactic.LinearCombination
import Mathlib.Algebra.Field.Basic
namespace Lcapy.OnePort
set_option linter.unusedSectionVars false
variable {K : Type} [Field K] [DecidableEq K]

theorem serLine_exact (o1 o2 : Option (Line K)) (R1 R2 : K → K → Prop)
    (h1 : Describes o1 R1) (h2 : Describes o2 R2) : Describes (serLine o1 o2) (SerRel R1 R2) := by
  cases o1 with
  | none => intro v i ⟨v1, v2, a, _, _⟩; exact h1 v1 i a
  | some p =>
    cases o2 with
    | none => intro v i ⟨v1, v2, _, b, _⟩; exact h2 v2 i b
    | some q =>
      obtain ⟨np, hp⟩ := h1
      obtain ⟨nq, hq⟩ := h2
      simp only [serLine]
      by_cases pa : p.a = 0
      · have pb : p.b ≠ 0 := by rcases np with h | h; exact absurd pa h; exact h
        by_cases qa : q.a = 0
        · have qb : q.b ≠ 0 := by rcases nq with h | h; exact absurd qa h; exact h
          by_cases hc : p.c * q.b = q.c * p.b
          · simp only [pa, qa, hc, if_true]
            refine ⟨Or.inr pb, fun v i => ?_⟩
            simp only [SerRel, hp, hq, pa, qa, zero_mul, zero_add]
            constructor
            · rintro ⟨_, _, h, _, _⟩; exact h
            · intro h; exact ⟨v, 0, h, by grind, by ring⟩
          · simp only [pa, qa, hc, if_true, if_false]
            intro v i ⟨v1, v2, a, b, _⟩
            rw [hp, pa] at a; rw [hq, qa] at b
            apply hc; grind
        · simp only [pa, qa, if_true, if_false]
          refine ⟨Or.inr pb, fun v i => ?_⟩
          simp only [SerRel, hp, hq, pa, zero_mul, zero_add]
          constructor
          · rintro ⟨_, _, h, _, _⟩; exact h
          · intro h; exact ⟨v - (q.c - q.b * i) / q.a, (q.c - q.b * i) / q.a, h, by field_simp; ring, by ring⟩
      · by_cases qa : q.a = 0
        · have qb : q.b ≠ 0 := by rcases nq with h | h; exact absurd qa h; exact h
          simp only [pa, qa, if_true, if_false]
          refine ⟨Or.inr qb, fun v i => ?_⟩
          simp only [SerRel, hp, hq, qa, zero_mul, zero_add]
          constructor
          · rintro ⟨_, _, _, h, _⟩; exact h
          · intro h; exact ⟨(p.c - p.b * i) / p.a, v - (p.c - p.b * i) / p.a, by field_simp; ring, h, by ring⟩
        · simp only [pa, qa, if_false]
          refine ⟨Or.inl (mul_ne_zero pa qa), fun v i => ?_⟩
          simp only [SerRel, hp, hq]
          constructor
          · rintro ⟨v1, v2, a, b, rfl⟩; linear_combination q.a * a + p.a * b
          · intro h
            refine ⟨(p.c - p.b * i) / p.a, (q.c - q.b * i) / q.a, by field_simp; ring, by field_simp; ring, ?_⟩
            field_simp; linear_combination h

theorem parLine_exact (o1 o2 : Option (Line K)) (R1 R2 : K → K → Prop)
    (h1 : Describes o1 R1) (h2 : Describes o2 R2) : Describes (parLine o1 o2) (ParRel R1 R2) := by
  cases o1 with
  | none => intro v i ⟨i1, i2, a, _, _⟩; exact h1 v i1 a
  | some p =>
    cases o2 with
    | none => intro v i ⟨i1, i2, _, b, _⟩; exact h2 v i2 b
    | some q =>
      obtain ⟨np, hp⟩ := h1
      obtain ⟨nq, hq⟩ := h2
      simp only [parLine]
      by_cases pb : p.b = 0
      · have pa : p.a ≠ 0 := by rcases np with h | h; exact h; exact absurd pb h
        by_cases qb : q.b = 0
        · have qa : q.a ≠ 0 := by rcases nq with h | h; exact h; exact absurd qb h
          by_cases hc : p.c * q.a = q.c * p.a
          · simp only [pb, qb, hc, if_true]
            refine ⟨Or.inl pa, fun v i => ?_⟩
            simp only [ParRel, hp, hq, pb, qb, zero_mul, add_zero]
            constructor
            · rintro ⟨_, _, h, _, _⟩; exact h
            · intro h; exact ⟨i, 0, h, by grind, by ring⟩
          · simp only [pb, qb, hc, if_true, if_false]
            intro v i ⟨i1, i2, a, b, _⟩
            rw [hp, pb] at a; rw [hq, qb] at b
            apply hc; grind
        · simp only [pb, qb, if_true, if_false]
          refine ⟨Or.inl pa, fun v i => ?_⟩
          simp only [ParRel, hp, hq, pb, zero_mul, add_zero]
          constructor
          · rintro ⟨_, _, h, _, _⟩; exact h
          · intro h; exact ⟨i - (q.c - q.a * v) / q.b, (q.c - q.a * v) / q.b, h, by field_simp; ring, by ring⟩
      · by_cases qb : q.b = 0
        · have qa : q.a ≠ 0 := by rcases nq with h | h; exact h; exact absurd qb h
          simp only [pb, qb, if_true, if_false]
          refine ⟨Or.inl qa, fun v i => ?_⟩
          simp only [ParRel, hp, hq, qb, zero_mul, add_zero]
          constructor
          · rintro ⟨_, _, _, h, _⟩; exact h
          · intro h; exact ⟨(p.c - p.a * v) / p.b, i - (p.c - p.a * v) / p.b, by field_simp; ring, h, by ring⟩
        · simp only [pb, qb, if_false]
          refine ⟨Or.inr (mul_ne_zero pb qb), fun v i => ?_⟩
          simp only [ParRel, hp, hq]
          constructor
          · rintro ⟨i1, i2, a, b, rfl⟩; linear_combination q.b * a + p.b * b
          · intro h
            refine ⟨(p.c - p.a * v) / p.b, (q.c - q.a * v) / q.b, by field_simp; ring, by field_simp; ring, ?_⟩
            field_simp; linear_combination h

theorem lineR_exact (r : K) : Describes (lineR r) (relR r) :=
  ⟨Or.inl one_ne_zero, fun v i => by simp only [relR, lineR]; constructor <;> (intro h; grind)⟩
theorem lineL_exact (s l : K) (i0 : Option K) : Describes (lineL s l i0) (relL s l i0) :=
  ⟨Or.inl one_ne_zero, fun v i => by simp only [relL, lineL]; constructor <;> (intro h; grind)⟩
theorem lineC_exact (s c : K) (v0 : Option K) : Describes (lineC s c v0) (relC s c v0) :=
  ⟨Or.inr (neg_ne_zero.mpr one_ne_zero), fun v i => by simp only [relC, lineC]; constructor <;> (intro h; grind)⟩

theorem leaf_line_exact (s : K) (l : Leaf K) : Describes (l.line s) (l.rel s) := by
  cases l with
  | R r => exact lineR_exact r
  | G g => exact ⟨Or.inr (neg_ne_zero.mpr one_ne_zero), fun v i => by simp only [Leaf.rel]; constructor <;> (intro h; grind)⟩
  | L l i0 => exact lineL_exact s l i0
  | C c v0 => exact lineC_exact s c v0
  | Y y => exact ⟨Or.inr (neg_ne_zero.mpr one_ne_zero), fun v i => by simp only [Leaf.rel]; constructor <;> (intro h; grind)⟩
  | Z z => exact ⟨Or.inl one_ne_zero, fun v i => by simp only [Leaf.rel]; constructor <;> (intro h; grind)⟩
  | V k e => exact ⟨Or.inl one_ne_zero, fun v i => by simp only [Leaf.rel]; constructor <;> (intro h; grind)⟩
  | I k j => exact ⟨Or.inr one_ne_zero, fun v i => by simp only [Leaf.rel]; constructor <;> (intro h; grind)⟩
  | CPE k a => exact ⟨Or.inr (neg_ne_zero.mpr one_ne_zero), fun v i => by simp only [Leaf.rel]; constructor <;> (intro h; grind)⟩
  | Xtal c0 r1 l1 c1 =>
    exact parLine_exact _ _ _ _ (serLine_exact _ _ _ _ (serLine_exact _ _ _ _ (lineR_exact r1) (lineL_exact s l1 none)) (lineC_exact s c1 none)) (lineC_exact s c0 none)
  | FB rs rp cp lp =>
    exact serLine_exact _ _ _ _ (lineR_exact rs) (parLine_exact _ _ _ _ (parLine_exact _ _ _ _ (lineR_exact rp) (lineL_exact s lp none)) (lineC_exact s cp none))

end Lcapy.OnePort
