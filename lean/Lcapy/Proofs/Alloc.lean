/-
  Helper lemmas for Props/C01Alloc.lean: the allocation loop of `MNA.__init__` (Model/Alloc.lean) allocates every
  needed branch current, and allocates nothing twice.
-/
import Lcapy.Model.Alloc
import Mathlib.Data.List.Nodup
import Mathlib.Data.List.Basic
namespace Lcapy.Netlist

theorem allocStep_mono (acc : List String) (c : PLine) : ∀ a ∈ acc, a ∈ allocStep acc c := by
  intro a ha
  unfold allocStep step3 step2 step1
  split <;> split_ifs <;> simp [ha]

theorem foldl_mono (cs : List PLine) : ∀ acc, ∀ a ∈ acc, a ∈ cs.foldl allocStep acc := by
  induction cs with
  | nil => intro acc a ha; exact ha
  | cons c t ih => intro acc a ha; exact ih _ a (allocStep_mono acc c a ha)

theorem allocStep_has (acc : List String) (c : PLine) :
    (c.needsBranch = true → c.name ∈ allocStep acc c) ∧
    (c.needsExtra = true → c.name ++ "X" ∈ allocStep acc c) ∧
    (∀ cn, c.ctrl = some cn → cn ∈ allocStep acc c) := by
  unfold allocStep step3 step2 step1
  refine ⟨?_, ?_, ?_⟩
  · intro h
    simp only [h, Bool.true_and]
    by_cases hc : acc.contains c.name = true
    · have : c.name ∈ acc := by simpa using hc
      split <;> split_ifs <;> simp_all
    · split <;> split_ifs <;> simp_all
  · intro h
    simp only [h, if_true]
    split <;> split_ifs <;> simp_all
  · intro cn h
    simp only [h]
    split_ifs with h1 h2 h3 <;> simp_all

theorem alloc_complete_aux (cs : List PLine) : ∀ acc, ∀ c ∈ cs,
    (c.needsBranch = true → c.name ∈ cs.foldl allocStep acc) ∧
    (c.needsExtra = true → c.name ++ "X" ∈ cs.foldl allocStep acc) ∧
    (∀ cn, c.ctrl = some cn → cn ∈ cs.foldl allocStep acc) := by
  induction cs with
  | nil => intro acc c hc; cases hc
  | cons d t ih =>
    intro acc c hc
    rcases List.mem_cons.mp hc with rfl | hc'
    · obtain ⟨h1, h2, h3⟩ := allocStep_has acc c
      simp only [List.foldl_cons]
      exact ⟨fun h => foldl_mono t _ _ (h1 h), fun h => foldl_mono t _ _ (h2 h), fun cn h => foldl_mono t _ _ (h3 cn h)⟩
    · exact ih _ c hc'

/-- the invariant: no duplicates, and every allocated name is a component name or the `X` name of an already
    processed component that needs an extra branch -/
def Inv (all pre : List PLine) (acc : List String) : Prop :=
  acc.Nodup ∧ ∀ a ∈ acc, (∃ d ∈ all, d.name = a) ∨ (∃ d ∈ pre, d.needsExtra = true ∧ a = d.name ++ "X")

theorem allocStep_inv (all pre suf : List PLine) (c : PLine) (hall : all = pre ++ c :: suf)
    (H1 : (all.map (·.name)).Nodup)
    (H2 : ∀ c ∈ all, c.needsExtra = true → ∀ d ∈ all, d.name ≠ c.name ++ "X")
    (H3 : ∀ c ∈ all, ∀ cn, c.ctrl = some cn → ∃ d ∈ all, d.name = cn)
    (acc : List String) (hinv : Inv all pre acc) : Inv all (pre ++ [c]) (allocStep acc c) := by
  have hc : c ∈ all := by rw [hall]; simp
  have hcpre : ∀ d ∈ pre, d.name ≠ c.name := by
    intro d hd heq
    rw [hall, List.map_append, List.map_cons] at H1
    have := (List.nodup_append.mp H1).2.2 (d.name) (List.mem_map.mpr ⟨d, hd, rfl⟩) c.name (by simp)
    exact this heq
  -- step 1
  have s1 : Inv all pre (step1 c acc) := by
    unfold step1
    split_ifs with h
    · simp only [Bool.and_eq_true, Bool.not_eq_true', List.contains_eq_mem, decide_eq_false_iff_not] at h
      refine ⟨List.Nodup.append hinv.1 (List.nodup_singleton _) (by simpa using h.2), ?_⟩
      intro a ha
      rcases List.mem_append.mp ha with ha | ha
      · exact hinv.2 a ha
      · simp at ha; subst ha; exact Or.inl ⟨c, hc, rfl⟩
    · exact hinv
  unfold allocStep
  generalize step1 c acc = acc1 at s1 ⊢
  -- step 2
  have s2 : Inv all (pre ++ [c]) (step2 c acc1) := by
    unfold step2
    have widen : ∀ a ∈ acc1, (∃ d ∈ all, d.name = a) ∨ (∃ d ∈ pre ++ [c], d.needsExtra = true ∧ a = d.name ++ "X") := by
      intro a ha
      rcases s1.2 a ha with h | ⟨d, hd, h⟩
      · exact Or.inl h
      · exact Or.inr ⟨d, List.mem_append_left _ hd, h⟩
    split_ifs with h
    · refine ⟨List.Nodup.append s1.1 (List.nodup_singleton _) ?_, ?_⟩
      · intro a hmem ha
        simp only [List.mem_singleton] at ha
        subst ha
        rcases s1.2 _ hmem with ⟨d, hd, hdn⟩ | ⟨d, hd, _, hdn⟩
        · exact H2 c hc h d hd hdn
        · have : d.name = c.name := by
            have := congrArg String.toList hdn
            simp only [String.toList_append] at this
            exact String.ext (List.append_cancel_right this).symm
          exact hcpre d hd this
      · intro a ha
        rcases List.mem_append.mp ha with ha | ha
        · exact widen a ha
        · simp at ha; subst ha; exact Or.inr ⟨c, by simp, h, rfl⟩
    · exact ⟨s1.1, widen⟩
  generalize step2 c acc1 = acc2 at s2 ⊢
  -- step 3
  unfold step3
  cases hct : c.ctrl with
  | none => exact s2
  | some cn =>
    simp only
    split_ifs with h
    · exact s2
    · simp only [List.contains_eq_mem, decide_eq_true_eq] at h
      refine ⟨List.Nodup.append s2.1 (List.nodup_singleton _) (by simpa using h), ?_⟩
      intro a ha
      rcases List.mem_append.mp ha with ha | ha
      · exact s2.2 a ha
      · simp at ha; subst ha; exact Or.inl (H3 c hc a hct)

theorem alloc_nodup_aux (all : List PLine)
    (H1 : (all.map (·.name)).Nodup)
    (H2 : ∀ c ∈ all, c.needsExtra = true → ∀ d ∈ all, d.name ≠ c.name ++ "X")
    (H3 : ∀ c ∈ all, ∀ cn, c.ctrl = some cn → ∃ d ∈ all, d.name = cn) :
    ∀ (suf pre : List PLine) (acc : List String), all = pre ++ suf → Inv all pre acc →
      (suf.foldl allocStep acc).Nodup := by
  intro suf
  induction suf with
  | nil => intro pre acc _ hinv; exact hinv.1
  | cons c t ih =>
    intro pre acc hall hinv
    simp only [List.foldl_cons]
    apply ih (pre ++ [c]) (allocStep acc c) (by simp [hall])
    exact allocStep_inv all pre t c hall H1 H2 H3 acc hinv

theorem alloc_nodup (cs : List PLine)
    (H1 : (cs.map (·.name)).Nodup)
    (H2 : ∀ c ∈ cs, c.needsExtra = true → ∀ d ∈ cs, d.name ≠ c.name ++ "X")
    (H3 : ∀ c ∈ cs, ∀ cn, c.ctrl = some cn → ∃ d ∈ cs, d.name = cn) : (alloc cs).Nodup :=
  alloc_nodup_aux cs H1 H2 H3 cs [] [] rfl ⟨List.nodup_nil, fun _ h => by cases h⟩

end Lcapy.Netlist
