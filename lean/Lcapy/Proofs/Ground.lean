/-
  Helper lemmas for C04 `ground_independent`:
   * every component's `outflow` and `laws` read node voltages only through differences (for `GroundFree`
     components), so they are invariant under "rename the nodes by the transposition (0 g) and shift every
     voltage by −x(g)";
   * the currents a component draws from all the nodes add up to zero, hence Kirchhoff's current law at all
     nodes but one implies it at the remaining one (the ground node of `Laws` may be any node).
-/
import Lcapy.Model.PortOps
import Lcapy.Proofs.MNA
import Mathlib.Algebra.BigOperators.Group.Finset.Basic
import Mathlib.Algebra.BigOperators.Ring.Finset
import Mathlib.Algebra.Order.BigOperators.Group.Finset
import Mathlib.Tactic.Ring
namespace Lcapy.MNA
open Ix
variable {K : Type} [Field K]
set_option linter.unusedSimpArgs false
set_option linter.unusedTactic false
set_option linter.unreachableTactic false
set_option linter.unnecessarySeqFocus false

/-! ### the transposition (0 g) -/

@[simp] theorem swap0_swap0 (g n : Nat) : swap0 g (swap0 g n) = n := by
  unfold swap0; split_ifs <;> omega

theorem swap0_inj (g a b : Nat) : swap0 g a = swap0 g b ↔ a = b := by
  constructor
  · intro h
    have := congrArg (swap0 g) h
    simpa using this
  · rintro rfl; rfl

@[simp] theorem swap0_zero (g : Nat) : swap0 g 0 = g := by simp [swap0]
@[simp] theorem swap0_self (g : Nat) : swap0 g g = 0 := by unfold swap0; split_ifs <;> omega

theorem swap0_eq_zero (g a : Nat) : swap0 g a = 0 ↔ a = g := by
  rw [← swap0_self g, swap0_inj]

theorem volt_eq (x : Ix → K) (n : Nat) : volt x n = if n = 0 then 0 else x (node n) := by
  cases n <;> simp [volt]

/-- the voltage the re-grounded solution gives the renamed node: shifted by −x(g) -/
theorem volt_regroundSol (g : Nat) (x : Ix → K) (a : Nat) :
    volt (regroundSol g x) (swap0 g a) = volt x a - volt x g := by
  rw [volt_eq]
  by_cases h : swap0 g a = 0
  · have := (swap0_eq_zero g a).mp h
    subst this; simp [h]
  · simp [h, regroundSol]

@[simp] theorem vd_regroundSol (g : Nat) (x : Ix → K) (a b : Nat) :
    vd (regroundSol g x) (swap0 g a) (swap0 g b) = vd x a b := by
  simp only [vd, volt_regroundSol]; ring

@[simp] theorem br_regroundSol (g : Nat) (x : Ix → K) (m : Nat) : regroundSol g x (br m) = x (br m) := rfl

@[simp] theorem twoTerm_swap0 (g n1 n2 k : Nat) (i : K) :
    twoTerm (swap0 g n1) (swap0 g n2) (swap0 g k) i = twoTerm n1 n2 k i := by
  simp only [twoTerm, swap0_inj]

theorem mutualDrop_regroundSol (g : Nat) (s : K) (x : Ix → K) (coup : List (Nat × K × Option K)) :
    mutualDrop s (regroundSol g x) coup = mutualDrop s x coup := by
  simp [mutualDrop]

/-- `outflow` of a ground-free component only sees voltage differences -/
theorem outflow_reground (kind : Kind) (s : K) (g : Nat) (x : Ix → K) (k : Nat) (c : Cpt K) (_h : c.GroundFree) :
    outflow kind s (regroundSol g x) (swap0 g k) (c.mapNodes (swap0 g)) = outflow kind s x k c := by
  cases c <;> simp [Cpt.GroundFree] at _h <;> simp [outflow, Cpt.mapNodes]

/-- so do its defining relations -/
theorem laws_reground (kind : Kind) (s : K) (g : Nat) (x : Ix → K) (c : Cpt K) (h : c.GroundFree) :
    laws kind s (regroundSol g x) (c.mapNodes (swap0 g)) = laws kind s x c := by
  cases c <;> simp [Cpt.GroundFree] at h <;> (try cases kind) <;>
    simp [laws, Cpt.mapNodes, mutualDrop_regroundSol, h]

/-! ### conservation: the currents a component draws from all nodes add up to zero -/

/-- all node arguments of a component (cf. `mentions`) -/
def nodesOf : Cpt K → List Nat
  | .R n1 n2 _ => [n1, n2]
  | .Cap n1 n2 _ _ => [n1, n2]
  | .Ind n1 n2 _ _ _ _ => [n1, n2]
  | .V n1 n2 _ _ => [n1, n2]
  | .I n1 n2 _ => [n1, n2]
  | .E n1 n2 n3 n4 _ _ _ => [n1, n2, n3, n4]
  | .G n1 n2 n3 n4 _ => [n1, n2, n3, n4]
  | .F n1 n2 _ _ => [n1, n2]
  | .H n1 n2 _ _ _ => [n1, n2]
  | .TF n1 n2 n3 n4 _ _ => [n1, n2, n3, n4]
  | .GY n1 n2 n3 n4 _ _ _ => [n1, n2, n3, n4]
  | .AM n1 n2 _ => [n1, n2]
  | .TR n1 n2 _ _ => [n1, n2, 0]
  | .Y n1 n2 _ => [n1, n2]
  | .Open n1 n2 => [n1, n2]
  | .TPA n1 n2 n3 n4 _ _ _ _ _ => [n1, n2, n3, n4]
  | .TPY n1 n2 n3 n4 _ _ _ _ => [n1, n2, n3, n4]
  | .SP n1 n2 n3 n4 _ _ _ _ => [n1, n2, n3, n4, 0]
  | .HY n1 n2 _ n3 n4 _ _ _ _ => [n1, n2, n3, n4]

theorem sum_twoTerm (N n1 n2 : Nat) (i : K) (h1 : n1 < N) (h2 : n2 < N) :
    ∑ k ∈ Finset.range N, twoTerm n1 n2 k i = 0 := by
  simp only [twoTerm, Finset.sum_sub_distrib, Finset.sum_ite_eq, Finset.mem_range, h1, h2, if_true, sub_self]

/-- the total current a component draws from the nodes 0 … N−1 (all its nodes) vanishes -/
theorem sum_outflow (kind : Kind) (s : K) (x : Ix → K) (N : Nat) (c : Cpt K) (h : ∀ n ∈ nodesOf c, n < N) :
    ∑ k ∈ Finset.range N, outflow kind s x k c = 0 := by
  cases c <;> simp only [nodesOf, List.mem_cons, List.mem_nil_iff, or_false, forall_eq_or_imp, forall_eq] at h <;>
    simp only [outflow, Finset.sum_add_distrib, Finset.sum_const_zero] <;>
    (try rw [sum_twoTerm _ _ _ _ (by omega) (by omega)]) <;>
    (try rw [sum_twoTerm _ _ _ _ (by omega) (by omega)]) <;> (try simp)

theorem sum_lsum {ι : Type} (S : Finset ι) (cs : List (Cpt K)) (f : ι → Cpt K → K) :
    ∑ k ∈ S, lsum (cs.map (f k)) = lsum (cs.map (fun c => ∑ k ∈ S, f k c)) := by
  induction cs with
  | nil => simp [lsum]
  | cons c t ih => simp [lsum, Finset.sum_add_distrib, ih]

theorem lsum_zero (l : List K) (h : ∀ v ∈ l, v = 0) : lsum l = 0 := by
  induction l with
  | nil => rfl
  | cons a t ih =>
    simp only [lsum, h a (by simp), zero_add]
    exact ih (fun v hv => h v (by simp [hv]))

/-- every finite netlist has a bound on its node indices -/
theorem exists_node_bound (cs : List (Cpt K)) : ∃ N, ∀ c ∈ cs, ∀ n ∈ nodesOf c, n < N := by
  induction cs with
  | nil => exact ⟨0, by simp⟩
  | cons c t ih =>
    obtain ⟨N, hN⟩ := ih
    obtain ⟨M, hM⟩ : ∃ M, ∀ n ∈ nodesOf c, n < M := by
      generalize nodesOf c = l
      induction l with
      | nil => exact ⟨0, by simp⟩
      | cons a r ih2 =>
        obtain ⟨M, hM⟩ := ih2
        exact ⟨max M (a + 1), by
          intro n hn
          rcases List.mem_cons.mp hn with rfl | hn
          · omega
          · have := hM n hn; omega⟩
    refine ⟨max N M, ?_⟩
    intro c' hc' n hn
    rcases List.mem_cons.mp hc' with rfl | hc'
    · have := hM n hn; omega
    · have := hN c' hc' n hn; omega

/-- **Kirchhoff's current law at all nodes but one implies it at the remaining one** (any netlist). -/
theorem kcl_remaining_node (kind : Kind) (s : K) (cs : List (Cpt K)) (x : Ix → K) (a : Nat)
    (h : ∀ k, k ≠ a → lsum (cs.map (outflow kind s x k)) = 0) :
    lsum (cs.map (outflow kind s x a)) = 0 := by
  obtain ⟨N0, hN0⟩ := exists_node_bound cs
  have hN : ∀ c ∈ cs, ∀ n ∈ nodesOf c, n < max N0 (a + 1) := fun c hc n hn => by
    have := hN0 c hc n hn; omega
  have ha : a ∈ Finset.range (max N0 (a + 1)) := by simp
  have tot : ∑ k ∈ Finset.range (max N0 (a + 1)), lsum (cs.map (outflow kind s x k)) = 0 := by
    rw [sum_lsum]
    apply lsum_zero
    intro v hv
    obtain ⟨c, hc, rfl⟩ := List.mem_map.mp hv
    exact sum_outflow kind s x _ c (hN c hc)
  rw [Finset.sum_eq_single_of_mem a ha (fun k _ hk => h k hk)] at tot
  exact tot

theorem volt_congr_ground (x y : Ix → K) (h : ∀ i, i ≠ node 0 → x i = y i) (n : Nat) : volt x n = volt y n := by
  cases n with
  | zero => rfl
  | succ k => exact h _ (by simp)

theorem laws_congr_ground (kind : Kind) (s : K) (cs : List (Cpt K)) (x y : Ix → K)
    (h : ∀ i, i ≠ node 0 → x i = y i) : Laws kind s cs x → Laws kind s cs y := by
  have hv := volt_congr_ground x y h
  have hb : ∀ m, x (br m) = y (br m) := fun m => h _ (by simp)
  have hmd : ∀ coup : List (Nat × K × Option K), mutualDrop s x coup = mutualDrop s y coup := by
    intro coup; simp [mutualDrop, hb]
  have ho : ∀ k c, outflow kind s x k c = outflow kind s y k c := by
    intro k c; cases c <;> simp [outflow, vd, hv, hb]
  have hl : ∀ c, laws kind s x c = laws kind s y c := by
    intro c; cases c <;> (try cases kind) <;> simp [laws, vd, hv, hb, hmd]
  rintro ⟨hk, hlw⟩
  refine ⟨fun k hk0 => ?_, fun c hc p hp => ?_⟩
  · rw [← hk k hk0]; congr 1; apply List.map_congr_left; intro c _; exact (ho k c).symm
  · rw [← hl c] at hp; exact hlw c hc p hp

theorem mapNodes_swap0_swap0 (g : Nat) (c : Cpt K) : (c.mapNodes (swap0 g)).mapNodes (swap0 g) = c := by
  cases c <;> simp [Cpt.mapNodes]

theorem reground_reground (g : Nat) (cs : List (Cpt K)) : reground g (reground g cs) = cs := by
  simp [reground, List.map_map, Function.comp_def, mapNodes_swap0_swap0]

theorem groundFree_mapNodes (ρ : Nat → Nat) (c : Cpt K) (h : c.GroundFree) : (c.mapNodes ρ).GroundFree := by
  cases c <;> simp_all [Cpt.GroundFree, Cpt.mapNodes]

theorem groundFree_reground (g : Nat) (cs : List (Cpt K)) (h : ∀ c ∈ cs, c.GroundFree) :
    ∀ c ∈ reground g cs, c.GroundFree := by
  intro c hc
  obtain ⟨c0, hc0, rfl⟩ := List.mem_map.mp hc
  exact groundFree_mapNodes _ c0 (h c0 hc0)

theorem regroundSol_regroundSol (g : Nat) (x : Ix → K) :
    ∀ i, i ≠ node 0 → regroundSol g (regroundSol g x) i = x i := by
  intro i hi
  cases i with
  | br m => rfl
  | node k =>
    have hk : k ≠ 0 := fun h => hi (by rw [h])
    show volt (regroundSol g x) (swap0 g k) - volt (regroundSol g x) g = x (node k)
    have h1 : volt (regroundSol g x) (swap0 g k) = volt x k - volt x g := volt_regroundSol g x k
    have h3 : volt (regroundSol g x) g = volt x 0 - volt x g := by
      have := volt_regroundSol g x 0; simpa using this
    rw [h1, h3]
    cases k with
    | zero => exact absurd rfl hk
    | succ k => simp [volt]

theorem read_regroundSol (g : Nat) (x : Ix → K) (o : Obs) :
    (o.mapNodes (swap0 g)).read (regroundSol g x) = o.read x := by
  cases o <;> simp [Obs.mapNodes, Obs.read]

theorem obs_mapNodes_swap0_swap0 (g : Nat) (o : Obs) : (o.mapNodes (swap0 g)).mapNodes (swap0 g) = o := by
  cases o <;> simp [Obs.mapNodes]

theorem mapSrc_mapNodes (f : K → K) (ρ : Nat → Nat) (c : Cpt K) :
    (c.mapSrc f).mapNodes ρ = (c.mapNodes ρ).mapSrc f := by
  cases c <;> simp [Cpt.mapSrc, Cpt.mapNodes]

theorem reground_killAll (g : Nat) (cs : List (Cpt K)) : reground g (killAll cs) = killAll (reground g cs) := by
  simp [reground, killAll, List.map_map, Function.comp_def, mapSrc_mapNodes]

theorem reground_append (g : Nat) (a b : List (Cpt K)) : reground g (a ++ b) = reground g a ++ reground g b := by
  simp [reground]

theorem swap0_beq (g a b : Nat) : (swap0 g a == swap0 g b) = (a == b) := by
  by_cases h : a = b
  · subst h; simp
  · have : swap0 g a ≠ swap0 g b := fun e => h ((swap0_inj g a b).mp e)
    simp [h, this]

theorem isVAcross_swap0 (g p m : Nat) (c : Cpt K) :
    (c.mapNodes (swap0 g)).isVAcross (swap0 g p) (swap0 g m) = c.isVAcross p m := by
  cases c <;> simp [Cpt.mapNodes, Cpt.isVAcross, swap0_beq]

theorem reground_filter_across (g p m : Nat) (cs : List (Cpt K)) :
    reground g (cs.filter (fun c => !c.isVAcross p m)) =
      (reground g cs).filter (fun c => !c.isVAcross (swap0 g p) (swap0 g m)) := by
  simp only [reground, List.filter_map]
  congr 1
  apply List.filter_congr
  intro c _
  simp [Function.comp, isVAcross_swap0]

theorem groundFree_killAll (cs : List (Cpt K)) (h : ∀ c ∈ cs, c.GroundFree) : ∀ c ∈ killAll cs, c.GroundFree := by
  intro c hc
  obtain ⟨c0, hc0, rfl⟩ := List.mem_map.mp hc
  have := h c0 hc0
  cases c0 <;> simp_all [Cpt.GroundFree, Cpt.mapSrc]

theorem groundFree_filter (cs : List (Cpt K)) (P : Cpt K → Bool) (h : ∀ c ∈ cs, c.GroundFree) :
    ∀ c ∈ cs.filter P, c.GroundFree := fun c hc => h c (List.mem_filter.mp hc).1

theorem groundFree_append (a b : List (Cpt K)) (ha : ∀ c ∈ a, c.GroundFree) (hb : ∀ c ∈ b, c.GroundFree) :
    ∀ c ∈ a ++ b, c.GroundFree := by
  intro c hc
  rcases List.mem_append.mp hc with h | h
  · exact ha c h
  · exact hb c h

/-- a component draws no current from a node it is not connected to -/
theorem outflow_eq_zero_of_not_node (kind : Kind) (s : K) (x : Ix → K) (k : Nat) (c : Cpt K)
    (h : ∀ n ∈ nodesOf c, n ≠ k) : outflow kind s x k c = 0 := by
  cases c <;> simp only [nodesOf, List.mem_cons, List.mem_nil_iff, or_false, forall_eq_or_imp, forall_eq] at h <;>
    simp [outflow, twoTerm, h]

theorem lsum_outflow_zero (kind : Kind) (s : K) (x : Ix → K) (k : Nat) (cs : List (Cpt K))
    (h : ∀ c ∈ cs, ∀ n ∈ nodesOf c, n ≠ k) : lsum (cs.map (outflow kind s x k)) = 0 := by
  apply lsum_zero
  intro v hv
  obtain ⟨c, hc, rfl⟩ := List.mem_map.mp hv
  exact outflow_eq_zero_of_not_node kind s x k c (h c hc)

theorem lsum_map_append (f : Cpt K → K) (a b : List (Cpt K)) :
    lsum ((a ++ b).map f) = lsum (a.map f) + lsum (b.map f) := by
  rw [List.map_append, lsum_append]

end Lcapy.MNA
