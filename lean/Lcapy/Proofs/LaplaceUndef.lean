/-
  C09 helper lemmas: the branches of `LaplaceTransformer.term` for undefined functions (`func`, product with an
  exponential, `derivative_undef`, `integral`) compute the transform of the denoted signal for EVERY interpretation
  of the undefined function as a formal signal.
-/
import Lcapy.Proofs.Laplace
import Lcapy.Model.Laplace
import Mathlib.Algebra.Order.Field.Basic
import Mathlib.Tactic.Linarith
import Mathlib.Tactic.LinearCombination
namespace Lcapy.Laplace
variable {K : Type} [Field K] [LinearOrder K] [IsStrictOrderedRing K]

theorem func_entry' (env : Env K) (hE : IsExp env.E) (c a b : K) (ha : a ≠ 0) (hb : b ≤ 0) :
    specValue env (.undef c a b) = (lcapyTerm env (.undef c a b)).2 := by
  simp only [specValue, sem, hb, if_true, Option.map, lcapyTerm, Xof, L_smul, L_delay env.E hE, L_scale env.E a _ ha]
  congr 1
  by_cases hb0 : b = 0
  · subst hb0; simp [hE.zero]; ring_nf; simp
  · simp only [hb0, if_false]
    rw [show -(env.s * -(b / a)) = env.s * b / a by ring]; ring

theorem func_exp_entry' (env : Env K) (hE : IsExp env.E) (c a : K) :
    specValue env (.undefExp c a) = (lcapyTerm env (.undefExp c a)).2 := by
  simp only [specValue, sem, Option.map, lcapyTerm, Xof, L_smul, L_expWeight env.E hE]

theorem integral_entry' (env : Env K) (hE : IsExp env.E) (c : K) (hs : env.s ≠ 0) (hx : NonPole env.xsig.post env.s) :
    specValue env (.iundef c) = (lcapyTerm env (.iundef c)).2 := by
  simp only [specValue, sem, Option.map, lcapyTerm, Xof, L_smul, L_integ env.E hE env.s hs _ hx]

theorem conv_entry' (env : Env K) (hE : IsExp env.E) (c : K)
    (hx : NonPole env.xsig.post env.s) (hy : NonPole env.ysig env.s) :
    specValue env (.convXY c) = (lcapyTerm env (.convXY c)).2 := by
  simp only [specValue, sem, Option.map, lcapyTerm, Xof, Yof, L_smul, L_conv env.E hE env.s _ _ hx hy]

theorem conv_exp_entry' (env : Env K) (hE : IsExp env.E) (c a : K) (ha : env.s - a ≠ 0)
    (hx : NonPole env.xsig.post env.s) :
    specValue env (.convExpX c a) = (lcapyTerm env (.convExpX c a)).2 := by
  have h1 : NonPole [Term.ep (1 : K) 0 a 0] env.s := by
    intro t ht; simp at ht; subst ht; exact ha
  simp only [specValue, sem, Option.map, lcapyTerm, Xof, L_smul, L_conv env.E hE env.s _ _ h1 hx]
  simp [Term.L, pw, hE.zero]

/-! ### derivatives of an undefined function, with initial conditions -/

theorem NonPole_signalDerivN (s : K) (x : Signal K) (h : NonPole x.post s) (n : Nat) :
    NonPole (signalDerivN n x).post s := by
  induction n with
  | zero => exact h
  | succ n ih =>
    simp only [signalDerivN, Signal.deriv]
    apply NonPole.append (NonPole_deriv ih)
    intro t ht; simp at ht; subst ht; trivial

theorem L_signalDerivN_succ (E : K → K) (hE : IsExp E) (s : K) (x : Signal K) (h : NonPole x.post s) (n : Nat) :
    (signalDerivN (n + 1) x).L E s = s * (signalDerivN n x).L E s - pre0 (signalDerivN n x).pre := by
  simp only [signalDerivN]
  exact L_signal_deriv E hE s _ (NonPole_signalDerivN s x h n)

theorem foldl_ic_scale (s : K) (ic : Nat → K) (n : Nat) (b : K) (k : Nat) (hk : k ≤ n) :
    (List.range k).foldl (fun acc m => acc - pw s (n + 1 - m - 1) * ic m) (s * b)
      = s * (List.range k).foldl (fun acc m => acc - pw s (n - m - 1) * ic m) b := by
  induction k with
  | zero => simp
  | succ k ih =>
    rw [List.range_succ, List.foldl_append, List.foldl_append, ih (by omega)]
    simp only [List.foldl_cons, List.foldl_nil, pw_eq]
    rw [show n + 1 - k - 1 = (n - k - 1) + 1 by omega, pow_succ]; ring

theorem deriv_undef_formula (env : Env K) (hE : IsExp env.E) (hx : NonPole env.xsig.post env.s) (hz : env.zic = false)
    (n : Nat) : derivUndefFormula env n = (signalDerivN n env.xsig).L env.E env.s := by
  induction n with
  | zero => simp [derivUndefFormula, hz, signalDerivN, Signal.L, Xof, pw]
  | succ n ih =>
    rw [L_signalDerivN_succ env.E hE env.s env.xsig hx n, ← ih]
    simp only [derivUndefFormula, hz, Bool.false_eq_true, if_false]
    rw [List.range_succ, List.foldl_append]
    simp only [List.foldl_cons, List.foldl_nil]
    have := foldl_ic_scale env.s (icOf env) n (Xof env env.s * pw env.s n) n (le_refl n)
    rw [show Xof env env.s * pw env.s (n + 1) = env.s * (Xof env env.s * pw env.s n) by simp [pw]; ring, this]
    simp [pw, icOf]

theorem deriv_undef_entry' (env : Env K) (hE : IsExp env.E) (hx : NonPole env.xsig.post env.s) (hz : env.zic = false)
    (c : K) (n : Nat) :
    specValue env (.dundef c n) = (lcapyTerm env (.dundef c n)).2 := by
  simp only [specValue, sem, Option.map, lcapyTerm, L_smul, deriv_undef_formula env hE hx hz n, Signal.L]

/-- with `zero_initial_conditions=True` the code returns `s^n X(s)`: right exactly when the pre-history vanishes
    (`x`, `x'`, … are 0 at 0⁻) -/
theorem deriv_undef_entry_zic' (env : Env K) (hx : NonPole env.xsig.post env.s) (hz : env.zic = true)
    (hpre : env.xsig.pre = []) (c : K) (n : Nat) :
    specValue env (.dundef c n) = (lcapyTerm env (.dundef c n)).2 := by
  have key : ∀ n, (signalDerivN n env.xsig).pre = [] ∧
      L env.E (signalDerivN n env.xsig).post env.s = Xof env env.s * pw env.s n ∧
      NonPole (signalDerivN n env.xsig).post env.s := by
    intro n
    induction n with
    | zero => exact ⟨hpre, by simp [signalDerivN, Xof, pw], hx⟩
    | succ n ih =>
      refine ⟨?_, ?_, NonPole_signalDerivN env.s env.xsig hx (n + 1)⟩
      · simp [signalDerivN, Signal.deriv, ih.1]
      · simp only [signalDerivN, Signal.deriv, L_append, L_deriv env.E env.s _ ih.2.2, ih.2.1, ih.1, pre0]
        simp [Term.L, pw]; ring
  simp only [specValue, sem, Option.map, lcapyTerm, L_smul, derivUndefFormula, hz, if_true, (key n).2.1]

/-! ### derivative of a scaled / shifted undefined function; sifting with an undefined function -/

theorem NonPole_delay_scale {f : ExpPoly K} {s a : K} (T : K) (ha : a ≠ 0) (h : NonPole f (s / a)) :
    NonPole (delay T (scale a f)) s := by
  intro x hx
  simp only [delay, scale, List.map_map, List.mem_map, Function.comp] at hx
  obtain ⟨y, hy, rfl⟩ := hx
  cases y with
  | ep c k p d =>
    have := h _ hy
    simp only [Term.scale, Term.delay] at this ⊢
    intro h0; apply this; field_simp; linear_combination h0
  | dl c n d => trivial

/-- what the transform of `c·dⁿ/dtⁿ[x(a t + b)]` must be (x causal, delay −b/a ≥ 0): `c · sⁿ · X(s/a)/a · e^{s b/a}` -/
theorem deriv_undef_at_spec' (env : Env K) (hE : IsExp env.E) (c a b : K) (n : Nat) (ha : a ≠ 0) (hb : b ≤ 0)
    (hx : NonPole env.xsig.post (env.s / a)) :
    specValue env (.dundefAt c n a b)
      = some (c * (Xof env (env.s / a) / a * (if b = 0 then 1 else env.E (env.s * b / a)) * pw env.s n)) := by
  have hnp := NonPole_delay_scale (-(b / a)) ha hx
  simp only [specValue, sem, hb, if_true, Option.map, L_smul, (L_derivN env.E env.s n _ hnp).1, L_delay env.E hE,
    L_scale env.E a _ ha, Xof, pw_eq]
  by_cases hb0 : b = 0
  · subst hb0
    simp only [zero_div, neg_zero, mul_zero, hE.zero, if_true]
    congr 1; ring
  · simp only [hb0, if_false]
    rw [show -(env.s * -(b / a)) = env.s * b / a by ring]
    congr 1; ring

/-- … and the code computes it exactly when `derivative_undef` applies the similarity/shift theorems to its argument -/
theorem deriv_undef_at_entry' (env : Env K) (hE : IsExp env.E) (hflag : Gen.derivAppliesShift = true) (hz : env.zic = true)
    (c a b : K) (n : Nat) (ha : a ≠ 0) (hb : b ≤ 0) (hx : NonPole env.xsig.post (env.s / a)) :
    specValue env (.dundefAt c n a b) = (lcapyTerm env (.dundefAt c n a b)).2 := by
  rw [deriv_undef_at_spec' env hE c a b n ha hb hx]
  simp [lcapyTerm, hz, hflag]

/-- the old form `sⁿ X(s)` is the transform only for the plain argument -/
theorem deriv_undef_at_plain (env : Env K) (hE : IsExp env.E) (hz : env.zic = true) (c : K) (n : Nat)
    (hx : NonPole env.xsig.post env.s) :
    specValue env (.dundefAt c n 1 0) = (lcapyTerm env (.dundefAt c n 1 0)).2 := by
  rw [deriv_undef_at_spec' env hE c 1 0 n one_ne_zero (le_refl 0) (by simpa using hx)]
  simp [lcapyTerm, hz]

/-- sifting: `c·x(t)·δ(a t + b)`, `a > 0`, impulse at `τ = −b/a ≥ 0` where `x` is continuous, transforms to `c·x(τ)·e^{−sτ}/a` -/
theorem delta_undef_spec' (env : Env K) (c a b : K) (h0 : 0 ≤ -(b / a))
    (hcont : contAt env.xsig.post (-(b / a)) = true) :
    specValue env (.deltaX c a b)
      = some (c * evalAt env.E env.xsig.post (-(b / a)) * env.E (-(env.s * -(b / a))) / a) := by
  simp only [specValue, sem]
  rw [if_pos h0, if_pos hcont]
  simp only [Option.map, L_cons, L_nil, Term.L, pw]
  congr 1; ring

theorem delta_undef_before_origin (env : Env K) (c a b : K) (h0 : ¬ 0 ≤ -(b / a)) :
    specValue env (.deltaX c a b) = some 0 := by
  simp [specValue, sem, h0]

theorem delta_undef_entry' (env : Env K) (hflag : Gen.deltaUndefSifts = true) (c a b : K) (h0 : 0 ≤ -(b / a))
    (hcont : contAt env.xsig.post (-(b / a)) = true) :
    specValue env (.deltaX c a b) = (lcapyTerm env (.deltaX c a b)).2 := by
  rw [delta_undef_spec' env c a b h0 hcont]
  simp [lcapyTerm, hflag, h0]

end Lcapy.Laplace
