/-
  Helper lemmas for Props/C03Noise.lean: key sets of the noise dictionary of a Superposition under `addNoise`.
-/
import Lcapy.Model.NoiseAlg
import Mathlib.Tactic.Ring
import Mathlib.Algebra.Field.Basic
namespace Lcapy.C03
open Lcapy.Noise
variable {K : Type} [Field K] [DecidableEq K]
set_option linter.unusedSectionVars false

theorem cadd_zero (u : K × K) : cadd u czero = u := by simp [cadd, czero]

theorem lookup_not_mem (d : NDict K) (n : Nat) (h : n ∉ keys d) : lookup d n = czero := by
  induction d with
  | nil => rfl
  | cons p t ih =>
    obtain ⟨m, u⟩ := p
    simp only [keys, List.map_cons, List.mem_cons, not_or] at h
    simp only [lookup, if_neg (Ne.symm h.1)]
    exact ih h.2

theorem keys_addNoise_subset (d : NDict K) (n : Nat) (v : K × K) : ∀ k ∈ keys (addNoise d n v), k ∈ keys d ∨ k = n := by
  induction d with
  | nil =>
    intro k hk
    by_cases hv : v = czero
    · simp [addNoise, hv, keys] at hk
    · simp [addNoise, hv, keys] at hk; exact Or.inr hk
  | cons p t ih =>
    obtain ⟨m, u⟩ := p
    intro k hk
    by_cases hv : v = czero
    · simp only [addNoise, hv, if_true] at hk; exact Or.inl hk
    · simp only [addNoise, hv, if_false] at hk
      by_cases hm : m = n
      · simp only [hm, if_true] at hk
        split_ifs at hk
        · left; simp only [keys, List.map_cons, List.mem_cons]; right; exact hk
        · left; simpa [keys, hm] using hk
      · simp only [hm, if_false, keys, List.map_cons, List.mem_cons] at hk
        rcases hk with rfl | hk
        · left; simp [keys]
        · rcases ih k hk with h | h
          · left; simp only [keys, List.map_cons, List.mem_cons]; right; exact h
          · right; exact h

theorem addNoise_nodup (d : NDict K) (n : Nat) (v : K × K) (hd : (keys d).Nodup) : (keys (addNoise d n v)).Nodup := by
  induction d with
  | nil => by_cases hv : v = czero <;> simp [addNoise, hv, keys]
  | cons p t ih =>
    obtain ⟨m, u⟩ := p
    simp only [keys, List.map_cons, List.nodup_cons] at hd
    by_cases hv : v = czero
    · simp only [addNoise, hv, if_true, keys, List.map_cons, List.nodup_cons]; exact hd
    · simp only [addNoise, hv, if_false]
      by_cases hm : m = n
      · simp only [hm, if_true]
        split_ifs
        · exact hd.2
        · simp only [keys, List.map_cons, List.nodup_cons]; rw [← hm]; exact hd
      · simp only [hm, if_false, keys, List.map_cons, List.nodup_cons]
        refine ⟨fun hmem => ?_, ih hd.2⟩
        rcases keys_addNoise_subset t n v m hmem with h | h
        · exact hd.1 h
        · exact hm h

theorem lookup_superNeg (d : NDict K) (m : Nat) : lookup (superNeg d) m = cneg (lookup d m) := by
  induction d with
  | nil => simp [superNeg, lookup, cneg, czero]
  | cons p t ih =>
    obtain ⟨k, u⟩ := p
    simp only [superNeg, List.map_cons, lookup] at ih ⊢
    split_ifs <;> simp [ih]

theorem superAdd_nodup (d e : NDict K) (hd : (keys d).Nodup) : (keys (superAdd d e)).Nodup := by
  induction e generalizing d with
  | nil => exact hd
  | cons p t ih => exact ih _ (addNoise_nodup d p.1 p.2 hd)

end Lcapy.C03
