/-
  Helper lemmas for C15 (canonical realisations): finite sums, Horner evaluation, the
  normalisation / padding step, and the row-by-row analysis of the companion matrices.
-/
import Lcapy.Model.Realisations
import Mathlib.Tactic.Ring
import Mathlib.Tactic.FieldSimp
import Mathlib.Tactic.LinearCombination
import Mathlib.Algebra.Field.Basic
namespace Lcapy.StateSpace
variable {K : Type} [Field K]

set_option linter.unusedSimpArgs false
set_option linter.unusedVariables false
set_option linter.unusedSectionVars false

/-! ### finite sums -/

theorem sumTo_congr (n : Nat) (f g : Nat → K) (h : ∀ i, i < n → f i = g i) : sumTo n f = sumTo n g := by
  induction n with
  | zero => rfl
  | succ n ih =>
    simp only [sumTo]
    rw [ih (fun i hi => h i (Nat.lt_succ_of_lt hi)), h n (Nat.lt_succ_self n)]

theorem sumTo_zero (n : Nat) : sumTo n (fun _ => (0 : K)) = 0 := by
  induction n with
  | zero => rfl
  | succ n ih => simp [sumTo, ih]

theorem sumTo_add (n : Nat) (f g : Nat → K) : sumTo n (fun i => f i + g i) = sumTo n f + sumTo n g := by
  induction n with
  | zero => simp [sumTo]
  | succ n ih => simp only [sumTo, ih]; ring

theorem sumTo_sub (n : Nat) (f g : Nat → K) : sumTo n (fun i => f i - g i) = sumTo n f - sumTo n g := by
  induction n with
  | zero => simp [sumTo]
  | succ n ih => simp only [sumTo, ih]; ring

theorem sumTo_mul_right (n : Nat) (f : Nat → K) (c : K) : sumTo n (fun i => f i * c) = sumTo n f * c := by
  induction n with
  | zero => simp [sumTo]
  | succ n ih => simp only [sumTo, ih]; ring

theorem sumTo_mul_left (n : Nat) (f : Nat → K) (c : K) : sumTo n (fun i => c * f i) = c * sumTo n f := by
  induction n with
  | zero => simp [sumTo]
  | succ n ih => simp only [sumTo, ih]; ring

/-- Σ_{i<n+1} f i = f 0 + Σ_{i<n} f (i+1) -/
theorem sumTo_shift (n : Nat) (f : Nat → K) : sumTo (n + 1) f = f 0 + sumTo n (fun i => f (i + 1)) := by
  induction n with
  | zero => simp [sumTo]
  | succ n ih =>
    have : sumTo (n + 1 + 1) f = sumTo (n + 1) f + f (n + 1) := rfl
    rw [this, ih]
    simp only [sumTo]; ring

/-- a sum with one non-zero term -/
theorem sumTo_single (n k : Nat) (v : Nat → K) :
    sumTo n (fun j => if j = k then v j else 0) = if k < n then v k else 0 := by
  induction n with
  | zero => simp [sumTo]
  | succ n ih =>
    simp only [sumTo, ih]
    by_cases h1 : k < n
    · have : n ≠ k := by omega
      simp [h1, this, Nat.lt_succ_of_lt h1]
    · by_cases h2 : n = k
      · subst h2; simp
      · have : ¬ k < n + 1 := by omega
        simp [h1, h2, this]

/-! ### Horner evaluation -/

theorem polyEval_nil (s : K) : polyEval ([] : List K) s = 0 := rfl

theorem polyEval_append (l : List K) (c s : K) : polyEval (l ++ [c]) s = polyEval l s * s + c := by
  simp [polyEval, List.foldl_append]

theorem coef_append_left (l : List K) (z : K) (i : Nat) (h : i < l.length) : coef (l ++ [z]) i = coef l i := by
  simp [coef, List.getD_eq_getElem?_getD, List.getElem?_append_left h]

theorem coef_append_last (l : List K) (z : K) : coef (l ++ [z]) l.length = z := by
  simp [coef, List.getD_eq_getElem?_getD]

/-- a(s) = a₀·s^N + Σ_{n<N} a_{N−n}·s^n  for a coefficient list of length N + 1 -/
theorem polyEval_split (s : K) : ∀ (N : Nat) (l : List K), l.length = N + 1 →
    polyEval l s = coef l 0 * pw s N + sumTo N (fun n => coef l (N - n) * pw s n) := by
  intro N
  induction N with
  | zero =>
    intro l hl
    match l, hl with
    | [c], _ => simp [polyEval, coef, pw, sumTo]
  | succ N ih =>
    intro l hl
    have hne : l ≠ [] := by intro h; simp [h] at hl
    obtain ⟨l', z, rfl⟩ : ∃ l' z, l = l' ++ [z] := ⟨l.dropLast, l.getLast hne, (List.dropLast_append_getLast hne).symm⟩
    have hl' : l'.length = N + 1 := by simpa using hl
    rw [polyEval_append, ih l' hl', sumTo_shift]
    have h0 : coef (l' ++ [z]) 0 = coef l' 0 := coef_append_left l' z 0 (by omega)
    have hz : coef (l' ++ [z]) (N + 1 - 0) = z := by
      have := coef_append_last l' z
      rw [hl'] at this
      simpa using this
    rw [h0, hz]
    have hs : sumTo N (fun i => coef (l' ++ [z]) (N + 1 - (i + 1)) * pw s (i + 1)) =
        sumTo N (fun n => coef l' (N - n) * pw s n) * s := by
      rw [← sumTo_mul_right]
      apply sumTo_congr
      intro i hi
      have : N + 1 - (i + 1) = N - i := by omega
      rw [this, coef_append_left l' z (N - i) (by omega)]
      simp only [pw]; ring
    rw [hs]
    simp only [pw]; ring

theorem polyEval_take_succ (l : List K) (s : K) (k : Nat) (h : k < l.length) :
    polyEval (l.take (k + 1)) s = polyEval (l.take k) s * s + coef l k := by
  rw [List.take_add_one, List.getElem?_eq_getElem h]
  simp only [Option.toList_some]
  rw [polyEval_append]
  simp [coef, List.getD_eq_getElem?_getD, List.getElem?_eq_getElem h]

theorem polyEval_take_one (l : List K) (s : K) (h : 0 < l.length) : polyEval (l.take 1) s = coef l 0 := by
  have := polyEval_take_succ l s 0 h
  simpa [polyEval_nil] using this

/-! ### normalisation and padding -/

theorem foldl_normalise (a0 s : K) (l : List K) (acc : K) :
    (normalise a0 l).foldl (fun acc c => acc * s + c) (acc / a0) = (l.foldl (fun acc c => acc * s + c) acc) / a0 := by
  induction l generalizing acc with
  | nil => simp [normalise]
  | cons c t ih =>
    simp only [normalise, List.map_cons, List.foldl_cons] at *
    have : acc / a0 * s + c / a0 = (acc * s + c) / a0 := by ring
    rw [this, ih]

theorem polyEval_normalise (a0 s : K) (l : List K) : polyEval (normalise a0 l) s = polyEval l s / a0 := by
  have := foldl_normalise a0 s l 0
  simpa [polyEval] using this

theorem polyEval_padTo (n : Nat) (l : List K) (s : K) : polyEval (padTo n l) s = polyEval l s := by
  simp only [padTo, polyEval, List.foldl_append]
  congr 1
  induction (n - l.length) with
  | zero => simp
  | succ k ih => simp [List.replicate_succ, ih]

theorem length_normalise (a0 : K) (l : List K) : (normalise a0 l).length = l.length := by simp [normalise]

theorem length_padTo (n : Nat) (l : List K) (h : l.length ≤ n) : (padTo n l).length = n := by
  simp [padTo]; omega

/-! ### controllable canonical form -/

/-- what the rows of  (sI − A_ccf) X = r  say, for a right-hand side that vanishes except in the
    last row: the state is (1, s, …, s^{N−1})·X₀ and a(s)·X₀ = r_{N−1} -/
theorem ccf_rows (b a : List K) (N : Nat) (ha : a.length = N + 1) (hN : 1 ≤ N) (ha0 : coef a 0 = 1)
    (s : K) (X r : Nat → K)
    (hrow : ∀ i, i < N → s * X i - sumTo N (fun j => (ccfOf b a).A i j * X j) = r i)
    (hr : ∀ i, i + 1 < N → r i = 0) :
    (∀ n, n < N → X n = pw s n * X 0) ∧ polyEval a s * X 0 = r (N - 1) := by
  have hNa : a.length - 1 = N := by omega
  have hstep : ∀ i, i + 1 < N → X (i + 1) = s * X i := by
    intro i hi
    have h := hrow i (by omega)
    have hA : ∀ j, (ccfOf b a).A i j * X j = if j = i + 1 then X j else 0 := by
      intro j
      have : ¬ (i + 1 = N) := by omega
      simp only [ccfOf, hNa, this, if_false]
      split_ifs <;> simp
    rw [sumTo_congr N _ _ (fun j _ => hA j), sumTo_single, if_pos hi, hr i hi] at h
    linear_combination (-1 : K) * h
  have hpow : ∀ n, n < N → X n = pw s n * X 0 := by
    intro n
    induction n with
    | zero => intro _; simp [pw]
    | succ n ih =>
      intro hn
      rw [hstep n hn, ih (by omega)]
      simp only [pw]; ring
  refine ⟨hpow, ?_⟩
  have h := hrow (N - 1) (by omega)
  have hA : ∀ j, j < N → (ccfOf b a).A (N - 1) j * X j = -(coef a (N - j) * pw s j) * X 0 := by
    intro j hj
    have : N - 1 + 1 = N := by omega
    simp only [ccfOf, hNa, this, if_true]
    rw [hpow j hj]; ring
  rw [sumTo_congr N _ _ hA, sumTo_mul_right, hpow (N - 1) (by omega)] at h
  rw [polyEval_split s N a ha, ha0, ← h]
  have hp : pw s N = pw s (N - 1) * s := by
    obtain ⟨m, rfl⟩ : ∃ m, N = m + 1 := ⟨N - 1, by omega⟩
    simp [pw]
  have hneg : sumTo N (fun i => -(coef a (N - i) * pw s i)) = -(sumTo N (fun i => coef a (N - i) * pw s i)) := by
    have := sumTo_mul_left N (fun i => coef a (N - i) * pw s i) (-1 : K)
    simp only [neg_one_mul] at this
    exact this
  rw [hneg, hp]; ring

/-- the state (1, s, …, s^{N−1})·X₀ solves the rows with right-hand side a(s)·X₀ in the last row -/
theorem ccf_rows_conv (b a : List K) (N : Nat) (ha : a.length = N + 1) (hN : 1 ≤ N) (ha0 : coef a 0 = 1)
    (s X0 : K) (i : Nat) (hi : i < N) :
    s * (pw s i * X0) - sumTo N (fun j => (ccfOf b a).A i j * (pw s j * X0)) =
      if i + 1 = N then polyEval a s * X0 else 0 := by
  have hNa : a.length - 1 = N := by omega
  by_cases hl : i + 1 = N
  · have hA : ∀ j, j < N → (ccfOf b a).A i j * (pw s j * X0) = -(coef a (N - j) * pw s j) * X0 := by
      intro j hj
      simp only [ccfOf, hNa, hl, if_true]; ring
    rw [sumTo_congr N _ _ hA, sumTo_mul_right, if_pos hl, polyEval_split s N a ha, ha0]
    have hp : pw s N = pw s i * s := by rw [← hl]; simp [pw]
    have hneg : sumTo N (fun i => -(coef a (N - i) * pw s i)) = -(sumTo N (fun i => coef a (N - i) * pw s i)) := by
      have := sumTo_mul_left N (fun i => coef a (N - i) * pw s i) (-1 : K)
      simp only [neg_one_mul] at this
      exact this
    rw [hneg, hp]; ring
  · have hA : ∀ j, (ccfOf b a).A i j * (pw s j * X0) = if j = i + 1 then pw s j * X0 else 0 := by
      intro j
      simp only [ccfOf, hNa, hl, if_false]
      split_ifs <;> simp
    rw [sumTo_congr N _ _ (fun j _ => hA j), sumTo_single, if_pos (by omega), if_neg hl]
    simp only [pw]; ring

/-- output of the CCF for the state (1, s, …)·X₀ with a(s)·X₀ = 1 -/
theorem ccf_output (b a : List K) (N : Nat) (ha : a.length = N + 1) (hb : b.length = N + 1) (ha0 : coef a 0 = 1)
    (s : K) (X : Nat → K) (hpow : ∀ n, n < N → X n = pw s n * X 0) (hX0 : polyEval a s * X 0 = 1) :
    output (ccfOf b a) X * polyEval a s = polyEval b s := by
  have hNa : a.length - 1 = N := by omega
  have hC : ∀ j, j < N → (ccfOf b a).C j * X j =
      (coef b (N - j) * pw s j) * X 0 - (coef a (N - j) * pw s j) * (coef b 0 * X 0) := by
    intro j hj
    simp only [ccfOf, hNa]
    rw [hpow j hj]; ring
  simp only [output]
  have hn : (ccfOf b a).n = N := by simp [ccfOf, hNa]
  have hD : (ccfOf b a).D = coef b 0 := by simp [ccfOf]
  rw [hn, hD, sumTo_congr N _ _ hC, sumTo_sub, sumTo_mul_right, sumTo_mul_right]
  have ea := polyEval_split s N a ha
  have eb := polyEval_split s N b hb
  rw [ha0] at ea
  rw [eb]
  set Sa := sumTo N (fun i => coef a (N - i) * pw s i)
  set Sb := sumTo N (fun i => coef b (N - i) * pw s i)
  rw [ea] at hX0 ⊢
  linear_combination (Sb - Sa * coef b 0) * hX0

/-! ### observable canonical form -/

/-- Σ_j A_ocf[i, j]·X_j -/
theorem ocf_Arow (b a : List K) (N : Nat) (ha : a.length = N + 1) (hN : 1 ≤ N) (X : Nat → K) (i : Nat) :
    sumTo N (fun j => (ocfOf b a).A i j * X j) =
      -(coef a (i + 1)) * X 0 + (if i + 1 < N then X (i + 1) else 0) := by
  have hA : ∀ j, (ocfOf b a).A i j * X j =
      (if j = 0 then -(coef a (i + 1)) * X j else 0) + (if j = i + 1 then X j else 0) := by
    intro j
    simp only [ocfOf]
    by_cases h0 : j = 0
    · subst h0; simp
    · simp only [h0, if_false]; split_ifs <;> simp
  rw [sumTo_congr N _ _ (fun j _ => hA j), sumTo_add, sumTo_single, sumTo_single, if_pos (by omega)]

/-- what the rows of (sI − A_ocf) X = B_ocf say: with y = X₀ + b₀ the output,
    X_k = H_k·y − G_k (H, G the Horner prefixes of a, b) and a(s)·y = b(s) -/
theorem ocf_rows (b a : List K) (N : Nat) (ha : a.length = N + 1) (hb : b.length = N + 1) (hN : 1 ≤ N)
    (ha0 : coef a 0 = 1) (s : K) (X : Nat → K)
    (hrow : ∀ i, i < N → s * X i - sumTo N (fun j => (ocfOf b a).A i j * X j) = (ocfOf b a).B i) :
    (∀ k, k < N → X k = polyEval (a.take (k + 1)) s * (X 0 + coef b 0) - polyEval (b.take (k + 1)) s) ∧
    polyEval a s * (X 0 + coef b 0) = polyEval b s := by
  have hinv : ∀ k, k < N → X k = polyEval (a.take (k + 1)) s * (X 0 + coef b 0) - polyEval (b.take (k + 1)) s := by
    intro k
    induction k with
    | zero =>
      intro _
      rw [polyEval_take_one a s (by omega), polyEval_take_one b s (by omega), ha0]; ring
    | succ k ih =>
      intro hk
      have h := hrow k (by omega)
      rw [ocf_Arow b a N ha hN X k, if_pos hk] at h
      simp only [ocfOf] at h
      rw [polyEval_take_succ a s (k + 1) (by omega), polyEval_take_succ b s (k + 1) (by omega)]
      have ih' := ih (by omega)
      linear_combination (-1 : K) * h + s * ih'
  refine ⟨hinv, ?_⟩
  have h := hrow (N - 1) (by omega)
  have hlast : ¬ (N - 1 + 1 < N) := by omega
  rw [ocf_Arow b a N ha hN X (N - 1), if_neg hlast] at h
  simp only [ocfOf] at h
  have hN1 : N - 1 + 1 = N := by omega
  rw [hN1] at h
  have e1 := polyEval_take_succ a s N (by omega)
  have e2 := polyEval_take_succ b s N (by omega)
  have t1 : a.take (N + 1) = a := List.take_of_length_le (by omega)
  have t2 : b.take (N + 1) = b := List.take_of_length_le (by omega)
  rw [t1] at e1
  rw [t2] at e2
  have hx := hinv (N - 1) (by omega)
  rw [hN1] at hx
  rw [e1, e2]
  linear_combination h - s * hx

/-- conversely, for ANY y the state X_k = H_k·y − G_k satisfies every row but the last, and the
    last row up to a(s)·y − b(s) -/
theorem ocf_rows_conv (b a : List K) (N : Nat) (ha : a.length = N + 1) (hb : b.length = N + 1) (hN : 1 ≤ N)
    (ha0 : coef a 0 = 1) (s y : K) (i : Nat) (hi : i < N) :
    let X : Nat → K := fun k => polyEval (a.take (k + 1)) s * y - polyEval (b.take (k + 1)) s
    s * X i - sumTo N (fun j => (ocfOf b a).A i j * X j) - (ocfOf b a).B i =
      (if i + 1 = N then polyEval a s * y - polyEval b s else 0) + coef a (i + 1) * (X 0 + coef b 0 - y) := by
  intro X
  rw [ocf_Arow b a N ha hN X i]
  simp only [ocfOf]
  have e1 := polyEval_take_succ a s (i + 1) (by omega)
  have e2 := polyEval_take_succ b s (i + 1) (by omega)
  by_cases hl : i + 1 = N
  · have hnl : ¬ (i + 1 < N) := by omega
    rw [if_neg hnl, if_pos hl]
    have t1 : a.take (i + 1 + 1) = a := List.take_of_length_le (by omega)
    have t2 : b.take (i + 1 + 1) = b := List.take_of_length_le (by omega)
    rw [t1] at e1
    rw [t2] at e2
    rw [e1, e2]
    simp only [X]; ring
  · have hlt : i + 1 < N := by omega
    rw [if_pos hlt, if_neg hl]
    simp only [X]
    rw [e1, e2]; ring

/-! ### the preprocessing step -/

/-- preconditions of `from_ba_CCF/OCF`: a denominator of degree ≥ 1 with non-zero leading
    coefficient, numerator not longer than the denominator (else the code raises
    'Improper transfer function') -/
def ProperTF (b a : List K) : Prop := 2 ≤ a.length ∧ coef a 0 ≠ 0 ∧ b.length ≤ a.length

theorem prep_spec (b a : List K) (h : ProperTF b a) :
    ∃ b' a', prep b a = some (b', a') ∧ a'.length = a.length ∧ b'.length = a.length ∧ coef a' 0 = 1 ∧
      ∀ s, polyEval a' s = polyEval a s / coef a 0 ∧ polyEval b' s = polyEval b s / coef a 0 := by
  obtain ⟨hlen, ha0, hb⟩ := h
  match a, hlen, ha0, hb with
  | a0 :: t, hlen, ha0, hb =>
    have hc : coef (a0 :: t) 0 = a0 := by simp [coef]
    rw [hc] at ha0
    refine ⟨padTo (a0 :: t).length (normalise a0 b), normalise a0 (a0 :: t), ?_, ?_, ?_, ?_, ?_⟩
    · have : ¬ (b.length > (a0 :: t).length) := by omega
      simp [prep]
      simpa using hb
    · exact length_normalise _ _
    · exact length_padTo _ _ (by rw [length_normalise]; exact hb)
    · simp [normalise, coef, ha0]
    · intro s
      rw [hc]
      exact ⟨polyEval_normalise _ _ _, by rw [polyEval_padTo, polyEval_normalise]⟩

end Lcapy.StateSpace
